/-
Model of lib/netio.c: net_writen(), net_write_multiline().
The parts are C strings: NUL-free byte lists (`strlen` = `length`).
`msg[512]` is the list `msg` of the bytes msg[0 .. len); every copy into it is bounds-checked
against `Gen.netWritenMsgSize`.
-/
import QsmtpModel.Basic
import QsmtpModel.Gen.Netio

namespace QsmtpModel.Writen
open QsmtpModel

abbrev msgSize : Nat := Gen.netWritenMsgSize

/-- window for one folded line: `sizeof(msg) - 6` -/
abbrev window : Nat := msgSize - Gen.netWritenFoldSlack
/-- forced split: `sizeof(msg) - 8` -/
abbrev brute : Nat := msgSize - Gen.netWritenBruteSlack

/--
```
while ((nsp != NULL) && (nsp - s[i] - off < sizeof(msg) - 6)) { sp = nsp; nsp = strchr(sp + 1, ' '); }
```
`sp`, `nsp` as indices into `s`; returns the final `sp`. -/
def spLoop (s : List Byte) (off sp : Nat) (nsp : Option Nat) (fuel : Nat) : Nat :=
  match fuel, nsp with
  | 0, _ => sp
  | _, none => sp
  | fuel + 1, some n =>
    if n - off < window then spLoop s off n (findFrom SP s (n + 1)) fuel else sp

/-- `sp` after the blank search that starts at `s[i] + off` (fixed code: `sp` restarts at `off`). -/
def lastSp (s : List Byte) (off : Nat) : Nat :=
  spLoop s off off (findFrom SP s off) (s.length + 1)

/-- length of the piece copied into one folded line -/
def pieceLen (s : List Byte) (off : Nat) : Nat :=
  let m := lastSp s off - off
  if m = 0 then brute else m

/-- one `msg` line handed to netnwrite(): `msg[len++]='\r'; msg[len++]='\n'` with bounds check. -/
def emit (msg : List Byte) : Except Fault (List Byte) :=
  if msg.length + 2 ≤ msgSize then .ok (msg ++ [CR, LF]) else .error (.oobWrite msg.length)

/-- the `while (l > off + sizeof(msg) - 6)` loop; `hdr` = msg[0..4). Returns emitted lines and `off`. -/
def foldLong (hdr s : List Byte) (off : Nat) (acc : List (List Byte)) (fuel : Nat) :
    Except Fault (List (List Byte) × Nat) :=
  match fuel with
  | 0 => .error (.precond 0)   -- fuel exhausted (never happens: `foldLong_ok`)
  | fuel + 1 =>
    if s.length > off + window then
      let m := pieceLen s off
      if off + m > s.length then .error (.oobRead (off + m))
      else if 4 + m + 2 > msgSize then .error (.oobWrite (4 + m))
      else foldLong hdr s (off + m)
             (acc ++ [hdr ++ (s.drop off).take m ++ [CR, LF]]) fuel
    else .ok (acc, off)

def setIdx (l : List Byte) (i : Nat) (b : Byte) : List Byte := l.set i b

/-- the `for (i = 1; s[i]; i++)` loop and the final write -/
def parts (msg : List Byte) (out : List (List Byte)) : List (List Byte) → Except Fault (List (List Byte))
  | [] => do
    let l ← emit msg
    pure (out ++ [l])
  | s :: rest =>
    if msg.length + s.length > msgSize - Gen.netWritenFlushSlack then
      match msg[3]? with
      | none => .error (.precond 3)
      | some c => do
        let line ← emit (setIdx msg 3 DASH)
        let hdr := (setIdx msg 3 DASH).take 4
        let (lines, off) ←
          if s.length + Gen.netWritenFoldSlack > msgSize then foldLong hdr s 0 [] (s.length + 1)
          else pure ([], 0)
        let tail := s.drop off
        if 4 + tail.length > msgSize then .error (.oobWrite (4 + tail.length))
        else parts (setIdx hdr 3 c ++ tail) (out ++ [line] ++ lines) rest
    else parts (msg ++ s) out rest

/-- `net_writen(s)`: `s0 = s[0]`, `ss = s[1..]`. Result: the payloads of the netnwrite() calls. -/
def netWriten (s0 : List Byte) (ss : List (List Byte)) : Except Fault (List (List Byte)) :=
  if s0.length > msgSize then .error (.oobWrite s0.length)
  else if ¬ (3 < s0.length ∧ s0.length < msgSize - 2) then .error (.precond s0.length)
  else parts s0 [] ss

/-- `net_write_multiline(s)`: one payload, the concatenation; asserted to end in CRLF. -/
def netWriteMultiline (ss : List (List Byte)) : Except Fault (List Byte) :=
  let b := ss.flatten
  if ss.isEmpty ∨ b.length ≤ 2 then .error (.precond b.length)
  else if b.drop (b.length - 2) ≠ [CR, LF] then .error (.precond 1)
  else .ok b

end QsmtpModel.Writen
