/-
Model of lib/match.c (ip4_matchnet, ip6_matchnet, matchdomain) and of the binary IP list lookup of
qsmtpd/antispam.c (check_ipbl_file via check_ip4/check_ip6, result mapping of lookupipbl).

Addresses are big-endian (network order) byte lists: 16 bytes for `struct in6_addr` (an IPv4 client
is the IPv4-mapped address, its last four bytes are `s6_addr32[3]`), 4 bytes for `struct in_addr`.
The C code loads 32 bit words in host order and builds the mask with `htonl`; since byte swapping
commutes with `&` and preserves equality the model works on the big-endian value of each word.
Mathlib-free: in the import closure of the driver.
-/
import QsmtpModel.Basic
import QsmtpModel.Gen.Control
import QsmtpModel.Control

namespace QsmtpModel.Match
open QsmtpModel

/-- big-endian value of a byte list -/
def beVal : List Byte → Nat
  | [] => 0
  | b :: tl => b.toNat * 256 ^ tl.length + beVal tl

/-- the `i`-th 32 bit word (`s6_addr32[i]`) of an address, as its network-order value -/
def word (a : List Byte) (i : Nat) : Nat := beVal ((a.drop (4 * i)).take 4)

abbrev wordBits : Nat := Gen.matchWordBits
abbrev wordBits6 : Nat := Gen.matchWordBits6

/-- `-1 - ((1U << (32 - m)) - 1)` in `uint32_t`, for `1 ≤ m ≤ 32` -/
def netMask (m : Nat) : Nat := 2 ^ 32 - 2 ^ (wordBits - m)

/-- ip4_matchnet(ip, net, mask): `ip` 16 bytes, `net` 4 bytes.  A mask above 32 makes the shift count
negative (undefined behaviour), reported as `precond`. -/
def ip4Matchnet (ip net : List Byte) (mask : Nat) : Except Fault Bool :=
  if ip.length ≠ 16 ∨ net.length ≠ 4 then .error (.precond 0)
  else if mask = 0 then .ok true
  else if mask > wordBits then .error (.precond mask)
  else
    let m := netMask mask
    .ok ((word ip Gen.ip4WordIndex &&& m) == (word net 0 &&& m))

/-- `maskv6.s6_addr32[i]` after the two initialisation steps of ip6_matchnet -/
def mask6Word (mask i : Nat) : Nat :=
  if i < mask / wordBits6 then 2 ^ 32 - 1            -- `maskv6.s6_addr32[i] = -1` (uint32_t)
  else if i = mask / wordBits6 ∧ mask % wordBits6 ≠ 0 then 2 ^ 32 - 2 ^ (wordBits6 - mask % wordBits6)
  else 0

/-- ip6_matchnet(ip, net, mask): both 16 bytes.  A mask above 128 writes `maskv6.s6_addr32[4]`
(outside the object): `oobWrite`. -/
def ip6Matchnet (ip net : List Byte) (mask : Nat) : Except Fault Bool :=
  if ip.length ≠ 16 ∨ net.length ≠ 16 then .error (.precond 0)
  else if mask > 4 * wordBits6 then .error (.oobWrite (mask / wordBits6))
  else
    .ok ((List.range 4).all fun i => (word ip i &&& mask6Word mask i) == (word net i &&& mask6Word mask i))

/-- `strcasecmp(a, b) == 0` on NUL-free strings (C locale) -/
def caseEq (a b : List Byte) : Bool := a.map lower == b.map lower

/-- matchdomain(domain, dl, expr) with `dl = strlen(domain)` -/
def matchdomain (d e : List Byte) : Bool :=
  if e.length > d.length then false
  else if e.head? = some DOT then caseEq (d.drop (d.length - e.length)) e
  else if e.length = d.length then caseEq d e
  else false

/-! ### check_ipbl_file -/

inductive Lookup where
  | nomatch      -- 0
  | matched      -- 1
  | malformed    -- -1
  deriving Repr, DecidableEq, Inhabited

/-- which matcher: the `iplen` passed by check_ip4 / check_ip6 -/
def iplenOf (v4 : Bool) : Nat := if v4 then Gen.ipblIplen4 else Gen.ipblIplen6

def matchfunc (v4 : Bool) (ip net : List Byte) (mask : Nat) : Except Fault Bool :=
  if v4 then ip4Matchnet ip net mask else ip6Matchnet ip net mask

/-- the `for (i = 0; i < flen; i += recordlen)` loop on the suffix `buf[i..]`; `fuel` = records at most -/
def ipblLoop (v4 : Bool) (ip : List Byte) : Nat → List Byte → Except Fault Lookup
  | 0, _ => .error (.precond 0)          -- fuel exhausted (never)
  | _ + 1, [] => .ok .nomatch
  | fuel + 1, b :: tl =>
    let iplen := iplenOf v4
    let recordlen := iplen + Gen.ipblRecordExtra
    let rest := b :: tl
    match rest[iplen]? with
    | none => .error (.oobRead iplen)     -- `*(buf + iplen)`
    | some nm =>
      if nm.toNat < Gen.ipblMinMask ∨ nm.toNat > Gen.ipblBitsPerByte * iplen then .ok .malformed
      else if rest.length < recordlen then .error (.oobRead rest.length)   -- memcpy(tmp, buf, recordlen)
      else
        match matchfunc v4 ip (rest.take iplen) nm.toNat with
        | .error f => .error f
        | .ok true => .ok .matched
        | .ok false => ipblLoop v4 ip fuel (rest.drop recordlen)

/-- check_ip4(buf, len) / check_ip6(buf, len): `ip` = `xmitstat.sremoteip` (16 bytes) -/
def checkIpblFile (v4 : Bool) (ip buf : List Byte) : Except Fault Lookup :=
  let recordlen := iplenOf v4 + Gen.ipblRecordExtra
  if buf.length % recordlen ≠ 0 then .ok .malformed
  else ipblLoop v4 ip (buf.length + 1) buf

/-- lookupipbl(fd) for a lockable, mappable file: an empty file is "no match" (mmap_fd returns NULL
with errno 0), otherwise the verdict of check_ip4 / check_ip6 chosen by `connection_is_ipv4()`. -/
def lookupipbl (v4 : Bool) (ip buf : List Byte) : Except Fault Lookup :=
  if buf.isEmpty then .ok .nomatch else checkIpblFile v4 ip buf

/-- answers of lookupipbl(fd) over the file states -/
inductive LookupFd where
  | lockError                  -- `-1`, errno = ENOLCK
  | verdict (v : Lookup)
  deriving Repr, DecidableEq, Inhabited

/-- lookupipbl(fd): the descriptor comes from the caller's open(); `-1` (missing or unreadable
file, lookupipbl_name() filters those before) and a held lock both fail in flock() -/
def lookupipblFile (v4 : Bool) (ip : List Byte) : Control.FileState → Except Fault LookupFd
  | .absent => .ok .lockError
  | .unreadable => .ok .lockError
  | .locked => .ok .lockError
  | .content c => (lookupipbl v4 ip c).map .verdict

end QsmtpModel.Match
