/-
How files become the verdicts the session model consumes (qsmtpd/commands.c: lookupipbl_name(),
is_authenticated(); qsmtpd/addrparse.c: the rcpthosts lookup): the bridge between the control-file
models of C16 and the command loop of C08 that C01 needs.
-/
import QsmtpModel.Session
import QsmtpModel.Control
import QsmtpModel.Match

namespace QsmtpModel.Relay
open QsmtpModel

/-- `lookupipbl_name("relayclients" | "relayclients6")`: a missing file is "not listed", an
unreadable one and everything lookupipbl() cannot vouch for (lock failure, malformed list, fault)
is an error; only a well-formed matching record is "listed". -/
def relayVerdict (v4 : Bool) (ip : List Byte) (fs : Control.FileState) : Session.IpV :=
  match fs with
  | .absent => .notListed
  | .unreadable => .error
  | fs =>
    match Match.lookupipblFile v4 ip fs with
    | .ok (.verdict .matched) => .listed
    | .ok (.verdict .nomatch) => .notListed
    | _ => .error

/-- addrparse(): an address whose domain is not found in control/rcpthosts is "not local" (-2) -/
def domainIsLocal (rcpthosts domain : List Byte) : Bool :=
  match Control.finddomain rcpthosts domain with
  | .ok b => b
  | .error _ => false

end QsmtpModel.Relay
