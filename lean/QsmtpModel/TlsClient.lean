/-
Relaying by TLS client certificate: `tls_verify()` / `tls_check_cert()` of qsmtpd/starttls.c.

What OpenSSL delivers is a parameter (`Peer`): whether the renegotiation worked, the verification
result of the chain against control/clientca.pem, and the raw bytes of the subject's first
`emailAddress` and `commonName` entries (ASN.1 strings: any bytes, NUL included, with a terminating
NUL behind the counted length).  The list of entitled names is the real control-file loader
(`Control.loadlist` with the `checkaddr` callback of `Addr`) on the bytes of control/tlsclients.
-/
import QsmtpModel.Control
import QsmtpModel.Addr

namespace QsmtpModel.TlsClient
open QsmtpModel

/-- `EPROTO` on Linux -/
def EPROTO : Nat := 71

/-- the client's certificate as `tls_check_cert()` sees it -/
structure Cert where
  verifyOk : Bool                      -- SSL_get_verify_result() == X509_V_OK
  email : Option (List Byte)           -- data of the first emailAddress entry of the subject
  cn : Option (List Byte)              -- data of the first commonName entry
  deriving Repr, DecidableEq

/-- what the (re)handshake that asks for the certificate gives -/
inductive Peer where
  | sessIdFailed                       -- SSL_set_session_id_context() failed: 454, -EPROTO
  | timedOut                           -- ssl_timeoutrehandshake() == -ETIMEDOUT: dieerror
  | failed (e : Nat)                   -- any other negative result -e: 454, -e
  | noCert                             -- handshake done, SSL_get_peer_certificate() == NULL
  | cert (c : Cert)
  deriving Repr, DecidableEq

inductive Out where
  | ret (r : Int) (tlsclient : Option (List Byte)) (replied454 : Bool)
  | die                                -- dieerror(ETIMEDOUT)
  | fault (f : Fault)
  deriving Repr, DecidableEq

/-- the subject field that names the client: emailAddress if there is one, else commonName
(`ASN1_STRING_length() <= 0` counts as empty) -/
def nameField (c : Cert) : List Byte :=
  match c.email with
  | some e => e
  | none => c.cn.getD []

/-- `strlen(clients[i]) == email.len && strcmp(email.s, clients[i]) == 0`; the entries are C strings
(no NUL), the field is followed by a NUL in memory -/
def entryMatches (field entry : List Byte) : Bool :=
  entry.length == field.length && Control.cstr field == entry

/-- `tls_check_cert(clients)` -/
def checkCert (clients : List (List Byte)) : Peer → Out
  | .sessIdFailed => .ret (-(EPROTO : Int)) none true
  | .timedOut => .die
  | .failed e => .ret (-(e : Int)) none true
  | .noCert => .ret 0 none false
  | .cert c =>
    if !c.verifyOk then .ret 0 none false
    else
      let f := nameField c
      if f.isEmpty then .ret 0 none false
      else if clients.any (entryMatches f) then .ret 1 (some (Control.cstr f)) false    -- strdup(email.s)
      else .ret 0 none false

/-- the callback given to `loadlistfd()`: `checkaddr(entry) != 0` rejects the entry -/
def rejectEntry (e : List Byte) : Bool :=
  match Addr.checkaddr (e ++ [0]) with      -- the entry is a C string inside the loaded buffer
  | .ok r => r != 0
  | .error _ => true

/-- `tls_verify()`.  `hasSsl` = `xmitstat.ssl != NULL`, `done` = the static `ssl_verified`,
`authed` = `is_authenticated_client()`, `tlsclients` = what is behind control/tlsclients,
`caLoads` = `SSL_load_client_CA_file(control/clientca.pem) != NULL`.
Returns the result and the new value of `ssl_verified`. -/
def tlsVerify (hasSsl done authed : Bool) (tlsclients : Control.FileState) (caLoads : Bool) (peer : Peer) : Out × Bool :=
  if !hasSsl || done || authed then (.ret 0 none false, done)
  else
    match Control.loadlistFile (some rejectEntry) tlsclients with
    | .error f => (.fault f, true)
    | .ok (.err _) => (.ret (-1) none false, true)          -- `return -errno` (some negative value)
    | .ok .null => (.ret 0 none false, true)
    | .ok (.ok clients) =>
      if !caLoads then (.ret 0 none false, true)
      else (checkCert clients peer, true)

end QsmtpModel.TlsClient
