/-
Model of the address grammar code of Qsmtpd (property C14; imported by C01/C02/C13):

  lib/dns_helpers.c    domainvalid
  qsmtpd/addrsyntax.c  parselocalpart, parseaddr, checkaddr, addrspec_valid, addrsyntax
  qsmtpd/xtext.c       hexchar/hexdigit, xtextlen
  qsmtpd/addrparse.c   addrparse (the decision; the user backend and rcpthosts are oracles)
  glibc                inet_pton(AF_INET / AF_INET6) as used by parseaddr (an oracle of the C code,
                       modelled so that the differential run can compare literals too)

Memory model.  A `char *` is the list of bytes from the pointer to the END OF THE ALLOCATION it
points into (for a command line: the rest of the line buffer including the terminating NUL).
`*p` is the head, `p + 1` the tail; dereferencing the empty list is an out-of-bounds read
(`Fault.oobRead`).  Pointer differences (`h - host`, `t - addr`) are carried along as naturals.
So a parser that would run past the terminating NUL of its line faults in the model exactly where
ASan stops the harness on an exact-size heap copy.  In-place writes (`*t = '\0'`) are `List.set`
on the buffer, guarded by a bounds check (`Fault.oobWrite`); the buffer after the call is part of
the result and is compared with the real buffer by the differential run.
-/
import QsmtpModel.Basic
import QsmtpModel.Gen.Addr

namespace QsmtpModel.Addr
open QsmtpModel

def AT : Byte := 64
def DQUOTE : Byte := 34
def BSLASH : Byte := 92
def COMMA : Byte := 44
def COLON : Byte := 58
def GT : Byte := 62
def LBRACK : Byte := 91
def RBRACK : Byte := 93
def PLUS : Byte := 43
def EQUALS : Byte := 61

def isLower (c : Byte) : Bool := 97 ≤ c.toNat && c.toNat ≤ 122
def isUpper (c : Byte) : Bool := 65 ≤ c.toNat && c.toNat ≤ 90
def isAlpha (c : Byte) : Bool := isLower c || isUpper c
def isDigit (c : Byte) : Bool := 48 ≤ c.toNat && c.toNat ≤ 57

/-- the C-string view of a pointer: bytes up to (not including) the first NUL -/
def cstr (p : List Byte) : List Byte := p.takeWhile (· ≠ 0)

/-! ### lib/dns_helpers.c: domainvalid -/

/-- the character test at the top of the loop: letter, '.', '-', digit -/
def dvChar (c : Byte) : Bool := isLower c || isUpper c || c == DOT || c == DASH || isDigit c

/-- the checks behind the loop. `n = h - host`, `dt` = offset of the last dot, `prev = h[-1]`. -/
def dvEnd (n : Nat) (dt : Option Nat) (prev : Byte) : Nat :=
  if n > Gen.dvTotalMax then 1
  else match dt with
    | none => 1
    | some d =>
      if n - d < Gen.dvLastMin ∨ n - d > Gen.dvLastMax then 1
      else if !isAlpha prev then 1 else 0

/-- label start at a dot: `(dt == NULL) ? host : dt + 1`, as an offset from `host` -/
def lstart : Option Nat → Nat
  | none => 0
  | some d => d + 1

/-- `while (*h) { ... }`; the pointer `h` is the first argument. -/
def dvLoop : List Byte → Nat → Option Nat → Byte → Except Fault Nat
  | [], n, _, _ => .error (.oobRead n)
  | c :: rest, n, dt, prev =>
    if c = 0 then .ok (dvEnd n dt prev)
    else if !dvChar c then .ok 1
    else if c = DOT then
      if n - lstart dt > Gen.dvLabelMax then .ok 1
      else match rest with
        | [] => .error (.oobRead (n + 1))
        | d :: _ => if d = DOT then .ok 1 else dvLoop rest (n + 1) (some n) c
    else dvLoop rest (n + 1) dt c

/-- `domainvalid(host)`: 0 = valid, 1 = syntax error -/
def domainvalid (p : List Byte) : Except Fault Nat :=
  match p with
  | [] => .error (.oobRead 0)
  | c :: _ => if c = 0 ∨ c = DOT then .ok 1 else dvLoop p 0 none 0

/-! ### qsmtpd/addrsyntax.c: parselocalpart -/

/-- RFC 5322 atext, as spelled out in the condition of parselocalpart (without the dot) -/
def atext (c : Byte) : Bool :=
  isLower c || isUpper c || isDigit c || c == 33 || (35 ≤ c.toNat && c.toNat ≤ 39) || c == 42 ||
  c == 43 || c == 45 || c == 47 || c == 61 || c == 63 || (94 ≤ c.toNat && c.toNat ≤ 96) ||
  (123 ≤ c.toNat && c.toNat ≤ 126)

/-- "these characters are allowed without quoting" -/
def lpPlain (c : Byte) : Bool := atext c || c == DOT

/-- "everything outside range of allowed characters in quoted string" negated; `char` is signed -/
def lpQuotedOk (c : Byte) : Bool :=
  (35 ≤ sbyte c && sbyte c ≤ 91) || 93 ≤ sbyte c || (1 ≤ sbyte c && sbyte c ≤ 8) || sbyte c == 11 ||
  sbyte c == 12 || (14 ≤ sbyte c && sbyte c ≤ 31)

/-- The loop of parselocalpart as it was before the proposed fix `C14-strict-localpart`
(kept to state precisely what the fix changes: `Props.C14.strict_fix_only_rejects`,
`lax_localpart_counterexample`).  `n = t - addr`, `q = quoted`. -/
def lpLaxLoop : List Byte → Nat → Bool → Except Fault Int
  | [], n, _ => .error (.oobRead n)
  | c :: rest, n, q =>
    if c = 0 ∨ c = AT then .ok (if q then -1 else (n : Int))
    else if c = DQUOTE then lpLaxLoop rest (n + 1) (!q)
    else if !q then
      if lpPlain c then lpLaxLoop rest (n + 1) q else .ok (-1)
    else if lpQuotedOk c then lpLaxLoop rest (n + 1) q
    else if c = BSLASH then
      match rest with
      | [] => .error (.oobRead (n + 1))
      | d :: rest' => if d = DQUOTE ∨ d = BSLASH then lpLaxLoop rest' (n + 2) q else .ok (-1)
    else .ok (-1)

def parselocalpartLax (p : List Byte) : Except Fault Int := lpLaxLoop p 0 false

/-- The loop of parselocalpart (with fix `C14-strict-localpart`): a quote may open only at
`t == addr`, a closing quote must be followed by '@' or NUL, a dot needs a non-dot neighbour on
both sides.  `prev = t[-1]` (meaningful when `n > 0`). -/
def lpLoop : List Byte → Nat → Bool → Byte → Except Fault Int
  | [], n, _, _ => .error (.oobRead n)
  | c :: rest, n, q, prev =>
    if c = 0 ∨ c = AT then .ok (if q then -1 else (n : Int))
    else if c = DQUOTE then
      if q then
        match rest with
        | [] => .error (.oobRead (n + 1))
        | d :: _ => if d ≠ AT ∧ d ≠ 0 then .ok (-1) else lpLoop rest (n + 1) false c
      else if n ≠ 0 then .ok (-1)
      else lpLoop rest (n + 1) true c
    else if !q then
      if c = DOT then
        -- `(t == addr) || (*(t - 1) == '.') || (*(t + 1) == '@') || (*(t + 1) == '\0')`
        if n = 0 ∨ prev = DOT then .ok (-1)
        else match rest with
          | [] => .error (.oobRead (n + 1))
          | d :: _ => if d = AT ∨ d = 0 then .ok (-1) else lpLoop rest (n + 1) q c
      else if lpPlain c then lpLoop rest (n + 1) q c else .ok (-1)
    else if lpQuotedOk c then lpLoop rest (n + 1) q c
    else if c = BSLASH then
      match rest with
      | [] => .error (.oobRead (n + 1))
      | d :: rest' => if d = DQUOTE ∨ d = BSLASH then lpLoop rest' (n + 2) q d else .ok (-1)
    else .ok (-1)

/-- `parselocalpart(addr)`: -1 on syntax error, else the offset of the first '@' (or the length) -/
def parselocalpart (p : List Byte) : Except Fault Int := lpLoop p 0 false 0

/-! ### glibc inet_pton (resolv/inet_pton.c of glibc 2.26 and later) -/

/-- `inet_pton4`: `saw` = saw_digit, `oct` = octets, `cur` = *tp -/
def pton4Loop : List Byte → Bool → Nat → Nat → Bool
  | [], _, oct, _ => decide (4 ≤ oct)
  | ch :: rest, saw, oct, cur =>
    if isDigit ch then
      let nw := cur * 10 + (ch.toNat - 48)
      if saw && cur == 0 then false
      else if nw > 255 then false
      else if !saw then (if oct + 1 > 4 then false else pton4Loop rest true (oct + 1) nw)
      else pton4Loop rest true oct nw
    else if ch = DOT && saw then
      if oct = 4 then false else pton4Loop rest false oct 0
    else false

def pton4 (s : List Byte) : Bool := pton4Loop s false 0 0

def isHex (c : Byte) : Bool :=
  isDigit c || (97 ≤ c.toNat && c.toNat ≤ 102) || (65 ≤ c.toNat && c.toNat ≤ 70)

/-- the part of inet_pton6 behind the loop; `tp` counts the bytes stored so far -/
def pton6End (xd tp : Nat) (colon : Bool) : Bool :=
  let tp' := if xd > 0 then tp + 2 else tp
  if tp' > 16 then false
  else if colon then decide (tp' ≠ 16) else decide (tp' = 16)

/-- the loop of inet_pton6: `src`, `curtok` as remaining input, `xd` = xdigits_seen, `tp` as a
byte count, `colon` = (colonp != NULL) -/
def pton6Loop : List Byte → List Byte → Nat → Nat → Bool → Bool
  | [], _, xd, tp, colon => pton6End xd tp colon
  | ch :: rest, curtok, xd, tp, colon =>
    if isHex ch then
      if xd = 4 then false else pton6Loop rest curtok (xd + 1) tp colon
    else if ch = COLON then
      if xd = 0 then
        if colon then false else pton6Loop rest rest 0 tp true
      else if rest.isEmpty then false
      else if tp + 2 > 16 then false
      else pton6Loop rest rest 0 (tp + 2) colon
    else if ch = DOT && decide (tp + 4 ≤ 16) && pton4 curtok then pton6End 0 (tp + 4) colon
    else false

def pton6 (s : List Byte) : Bool :=
  match s with
  | [] => false
  | c :: rest =>
    if c = COLON then
      match rest with
      | [] => false
      | d :: _ => if d ≠ COLON then false else pton6Loop rest rest 0 0 false
    else pton6Loop s s 0 0 false

/-! ### qsmtpd/addrsyntax.c: parseaddr, checkaddr, addrspec_valid -/

/-- `strchr(p, c)` for `c ≠ 0`, as an offset from `p`; walking off the allocation faults.
`n` is the offset of `p` in the enclosing buffer (only used for the fault's position). -/
def strchr (c : Byte) : List Byte → Nat → Except Fault (Option Nat)
  | [], n => .error (.oobRead n)
  | x :: xs, n =>
    if x = c then .ok (some 0)
    else if x = 0 then .ok none
    else (strchr c xs (n + 1)).map (·.map (· + 1))

def ipv6Tag : List Byte := [73, 80, 118, 54, 58]   -- "IPv6:"

/-- `parseaddr(addr)`: 0 invalid, 1 bare domain, 2 `@domain`, 3 mailbox, 4 mailbox with literal -/
def parseaddr (p : List Byte) : Except Fault Nat := do
  match ← strchr AT p 0 with
  | none =>
    let r ← domainvalid p
    pure (1 - r)
  | some atp =>
    let lp ← parselocalpart p
    if lp < 0 then pure 0
    else if atp = 0 then
      let r ← domainvalid (p.drop 1)
      pure (if r ≠ 0 then 0 else 2)
    else
      match p.drop (atp + 1) with
      | [] => .error (.oobRead (atp + 1))
      | c :: q2 =>
        if c = LBRACK then
          -- q2 = atp + 2
          match ← strchr RBRACK q2 (atp + 2) with
          | none => pure 0
          | some k =>
            match q2.drop (k + 1) with
            | [] => .error (.oobRead (atp + 2 + k + 1))
            | e :: _ =>
              if e ≠ 0 then pure 0
              else if q2.take 5 = ipv6Tag then
                let addrlen := k - 5                       -- cl - atp - 7
                if addrlen ≥ Gen.inet6AddrStrLen then pure 0
                else pure (if pton6 ((q2.drop 5).take addrlen) then 4 else 0)
              else
                if k ≥ Gen.inetAddrStrLen then pure 0      -- addrlen = cl - atp - 2
                else pure (if pton4 (q2.take k) then 4 else 0)
        else do
          let r ← domainvalid (c :: q2)
          pure (if r ≠ 0 then 0 else 3)

/-- `checkaddr(addr)` = `!parseaddr(addr)` -/
def checkaddr (p : List Byte) : Except Fault Nat := do
  let r ← parseaddr p
  pure (if r = 0 then 1 else 0)

/-- `addrspec_valid(addr)` = `parseaddr(addr) >= 3` -/
def addrspecValid (p : List Byte) : Except Fault Bool := do
  let r ← parseaddr p
  pure (decide (3 ≤ r))

/-! ### qsmtpd/addrsyntax.c: addrsyntax -/

/-- checked `*(in + i) = '\0'` -/
def poke0 (b : List Byte) (i : Nat) : Except Fault (List Byte) :=
  if i < b.length then .ok (b.set i 0) else .error (.oobWrite i)

/-- checked `*(in + i)` -/
def peek (b : List Byte) (i : Nat) : Except Fault Byte :=
  match b[i]? with
  | some x => .ok x
  | none => .error (.oobRead i)

structure SyntaxOut where
  /-- return value (the `-1`/ENOMEM path of dupstr is outside the model) -/
  ret : Nat
  /-- `*addr` if it was written: the lower-cased mailbox, source route removed -/
  addr : Option (List Byte)
  /-- `*more - in` if it was written -/
  more : Option Nat
  /-- the line buffer after the call (NULs written in place) -/
  line : List Byte
  deriving Repr, DecidableEq

def postmaster : List Byte := [112, 111, 115, 116, 109, 97, 115, 116, 101, 114]

/-- the `while ((t = strchr(f, ',')))` loop of the source route; `f` is an offset into `b`.
Result: the buffer and `some f'` (go on with the ':' search) or `none` (return 0). -/
def routeLoop : Nat → List Byte → Nat → Except Fault (List Byte × Option Nat)
  | 0, _, _ => .error (.precond 0)      -- fuel exhausted: never (`Lemmas.Addr.routeLoop_fuel`)
  | fuel + 1, b, f => do
    match ← strchr COMMA (b.drop f) f with
    | none => pure (b, some f)
    | some k =>
      let b1 ← poke0 b (f + k)
      let r ← domainvalid (b1.drop (f + 1))
      if r ≠ 0 then pure (b1, none)
      else
        let f' := f + k + 1
        let c ← peek b1 f'
        if c ≠ AT then pure (b1, none) else routeLoop fuel b1 f'

/-- the part of addrsyntax behind the source route; `f` is an offset into `b` -/
def addrTail (b : List Byte) (flags : Nat) (f : Nat) : Except Fault SyntaxOut := do
  match ← strchr GT (b.drop f) f with
  | none => pure ⟨0, none, none, b⟩
  | some len =>
    let l := f + len
    let nxt ← peek b (l + 1)          -- `more && *(l + 1)`; the harness passes a non-NULL `more`
    let more := if nxt ≠ 0 then some (l + 1) else none
    if flags = 0 ∧ len = 0 then pure ⟨1, some [], more, b⟩
    else
      let b1 ← poke0 b l
      let fs := b1.drop f
      -- `if ((flags != 1) || strcasecmp(f, "postmaster")) { x = parseaddr(f); if (x < 3) return 0; }`
      if flags ≠ 1 ∨ (cstr fs).map lower ≠ postmaster then
        let x ← parseaddr fs
        if x < 3 then pure ⟨0, none, more, b1⟩
        else pure ⟨x, some ((cstr fs).map lower), more, b1⟩
      else pure ⟨1, some ((cstr fs).map lower), more, b1⟩

/-- `addrsyntax(in, flags, &addr, &more)` with both out-pointers non-NULL -/
def addrsyntax (b : List Byte) (flags : Nat) : Except Fault SyntaxOut := do
  let c0 ← peek b 0
  if flags = 1 ∧ c0 = AT then
    match ← routeLoop (b.length + 1) b 0 with
    | (b1, none) => pure ⟨0, none, none, b1⟩
    | (b1, some f) =>
      match ← strchr COLON (b1.drop f) f with
      | none => pure ⟨0, none, none, b1⟩
      | some k =>
        let b2 ← poke0 b1 (f + k)
        let r ← domainvalid (b2.drop (f + 1))
        if r ≠ 0 then pure ⟨0, none, none, b2⟩
        else if f + k + 1 > Gen.routeMax then pure ⟨0, none, none, b2⟩
        else addrTail b2 flags (f + k + 1)
  else addrTail b flags 0

/-! ### qsmtpd/xtext.c: xtextlen -/

/-- `hexchar(ch)` in `unsigned char` arithmetic -/
def hexchar (c : Byte) : Byte := if sbyte c > 57 then c - 65 + 10 else c - 48

/-- `hexdigit(str)` -/
def hexdigit (a b : Byte) : Byte := hexchar a * 16 + hexchar b

def isHexUpper (c : Byte) : Bool := isDigit c || (65 ≤ c.toNat && c.toNat ≤ 70)

/-- the part of xtextlen behind the loop; `acc` = addrspec[0 .. idx) -/
def xtEnd (acc : List Byte) (result : Nat) : Except Fault Int :=
  if acc.length = 0 then .ok result
  else if acc.length ≥ Gen.xtextBufSize then .error (.oobWrite acc.length)   -- addrspec[idx] = '\0'
  else
    let s := acc ++ [0]
    if cstr s = [60, 62] then .ok result                                       -- "<>"
    else do
      let v ← addrspecValid s
      pure (if v then (result : Int) else -1)

/-- the loop of xtextlen (with fix `C14-xtext-nul`: an encoded NUL is refused) -/
def xtLoop : List Byte → Nat → List Byte → Nat → Except Fault Int
  | [], pos, _, _ => .error (.oobRead pos)
  | c :: rest, pos, acc, result =>
    if c = 0 ∨ c = SP then xtEnd acc result
    else if sbyte c < 33 ∨ sbyte c > 126 then .ok (-1)
    else if acc.length > Gen.xtextBufSize - Gen.xtextSlack then .ok (-1)
    else if c = PLUS then
      match rest with
      | [] => .error (.oobRead (pos + 1))
      | h1 :: r1 =>
        if !isHexUpper h1 then .ok (-1)
        else match r1 with
          | [] => .error (.oobRead (pos + 2))
          | h2 :: r2 =>
            if !isHexUpper h2 then .ok (-1)
            else if acc.length ≥ Gen.xtextBufSize then .error (.oobWrite acc.length)
            else if hexdigit h1 h2 = 0 then .ok (-1)
            else xtLoop r2 (pos + 3) (acc ++ [hexdigit h1 h2]) (result + 3)
    else if c ≠ EQUALS then
      if acc.length ≥ Gen.xtextBufSize then .error (.oobWrite acc.length)
      else xtLoop rest (pos + 1) (acc ++ [c]) (result + 1)
    else .ok (-1)

/-- `xtextlen(str)`: -1 invalid, else the number of bytes the xtext occupies -/
def xtextlen (p : List Byte) : Except Fault Int := xtLoop p 0 [] 0

/-- what `xtextlen` hands to `addrspec_valid` (the decoded AUTH= mailbox), for the specification -/
def xtDecode : List Byte → List Byte → Option (List Byte)
  | [], acc => some acc
  | c :: rest, acc =>
    if c = 0 ∨ c = SP then some acc
    else if c = PLUS then
      match rest with
      | h1 :: h2 :: r2 => if isHexUpper h1 && isHexUpper h2 then xtDecode r2 (acc ++ [hexdigit h1 h2]) else none
      | _ => none
    else xtDecode rest (acc ++ [c])

/-! ### qsmtpd/addrparse.c: addrparse (decision) -/

/-- the environment of addrparse: rcpthosts lookup, user backend, local IP, `liphost` -/
structure ParseEnv where
  /-- `finddomain(rcpthosts, rcpthsize, domain)` -/
  finddomain : List Byte → Int
  /-- `user_exists(localpart, domain, ds)` -/
  userExists : List Byte → List Byte → Int
  /-- `xmitstat.localip` -/
  localip : List Byte
  /-- `liphost.s` -/
  liphost : List Byte

inductive Call where
  | fd (domain : List Byte)
  | ue (localpart domain : List Byte)
  | tarpit
  | nw (text : List Byte)       -- netwrite
  | wn (text : List Byte)       -- net_writen, parts concatenated
  deriving Repr, DecidableEq

structure ParseOut where
  ret : Int
  addr : Option (List Byte)
  more : Option Nat
  calls : List Call
  line : List Byte
  deriving Repr, DecidableEq

def EBOGUS : Int := 1002

def msg501 : List Byte := str "501 5.1.3 domain of mail address is syntactically incorrect\r\n"
def msg550a : List Byte := str "550 5.1.1 no such user <"

/-- the end of addrparse: `j` is the verdict of `user_exists` (or 0 for a foreign literal) -/
def apFinish (s : SyntaxOut) (a : List Byte) (calls : List Call) (j : Int) : ParseOut :=
  if j < 0 then ⟨-j, some [], s.more, calls, s.line⟩
  else if j = 0 then ⟨-1, s.addr, s.more, calls ++ [.tarpit, .wn (msg550a ++ a ++ [GT])], s.line⟩
  else ⟨0, s.addr, s.more, calls, s.line⟩

/-- `addrparse(in, flags, &addr, &more, ds, rcpthosts, rcpthsize)`; netwrite/net_writen succeed -/
def addrparse (env : ParseEnv) (b : List Byte) (flags : Nat) : Except Fault ParseOut := do
  let s ← addrsyntax b flags
  let j := s.ret
  if j = 0 ∨ (flags ≠ 1 ∧ j = 4) then
    pure ⟨EBOGUS, s.addr, s.more, [.tarpit, .nw msg501], s.line⟩
  else
    let a := s.addr.getD []
    if a.length = 0 then pure ⟨0, s.addr, s.more, [], s.line⟩
    else
      match memchr AT a with
      | none =>
        -- `if (flags && !at) return 0;` (postmaster) – with flags = 0 this is unreachable
        -- (addrsyntax returned >= 3, so there is an '@'): modelled as a precondition fault
        if flags ≠ 0 then pure ⟨0, s.addr, s.more, [], s.line⟩ else .error (.precond 1)
      | some atp =>
        let dom := a.drop (atp + 1)
        if j < 4 then
          if env.finddomain dom = 0 then pure ⟨-2, s.addr, s.more, [.fd dom], s.line⟩
          else pure (apFinish s a [.fd dom, .ue (a.take atp) dom] (env.userExists (a.take atp) dom))
        else
          -- literal: compare with the local IP (the copy in `addr` is lower-cased, so "IPv6:" is
          -- never recognised here: an IPv6 literal is never local)
          let intro := if (a.drop (atp + 2)).take 5 = ipv6Tag then 7 else 2
          let rest := a.drop (atp + intro)
          if rest.take env.localip.length ≠ env.localip ∨ rest[env.localip.length]? ≠ some RBRACK then
            pure (apFinish s a [] 0)
          else
            pure (apFinish s a [.ue (a.take atp) env.liphost] (env.userExists (a.take atp) env.liphost))

end QsmtpModel.Addr
