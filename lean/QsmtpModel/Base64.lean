/-
Model of lib/base64.c: b64decode(), b64encode().

`b64decode` is mirrored statement by statement: the outer `for (i = 0; i < l; i += 4)`, the inner
`for (j = 0; j < 4; j++)` whose CRLF skipping advances the *outer* index `i`, the padding tests that
look at `in[i + 2]` / `in[i + 3]` with the advanced `i`, "stop at the first pad", the terminating
NUL and the stripping of trailing NUL bytes.  Every read of `in[]` goes through `rd` (out of bounds
= `Fault`), the writes to the `malloc(l + 3)` block are bounds-checked when the loop is left.

`strchr(b64alpha, c)`: the code as fixed (proposed_fixes/C09-b64-nul-digit.diff) rejects `c == 0`
before the table lookup, so `digit 0 = none`.  (The unfixed code finds the terminator of `b64alpha`
and takes the NUL byte for digit 64; the differential run and the `chk_b64` predicate see that.)
-/
import QsmtpModel.Basic
import QsmtpModel.Gen.Base64

namespace QsmtpModel.Base64
open QsmtpModel

abbrev alpha : List Byte := Gen.b64alpha
abbrev PAD : Byte := UInt8.ofNat Gen.b64pad

/-- parse error (`return 1`) or memory fault -/
inductive Err where
  | bad
  | fault (f : Fault)
  deriving Repr, DecidableEq

abbrev D := Except Err

/-- `c = strchr(b64alpha, ch); if (!c) return 1; a[j] = c - b64alpha;` (with the NUL test in front) -/
def digit (c : Byte) : Option Nat :=
  if c = 0 then none else memchr c alpha

/-- `in[k]`, bounds-checked -/
def rd (inp : List Byte) (k : Nat) : D Byte :=
  match inp[k]? with
  | some c => .ok c
  | none => .error (.fault (.oobRead k))

/-- the CRLF test at the top of the inner loop body; returns the new value of the outer index `i`
```
if ((i + j < l) && (in[i + j] == '\r')) {
    if (i + j + 1 == l) return 1;
    i++;
    if (in[i + j] != '\n') return 1;
    i++;
}
``` -/
def skipCrlf (inp : List Byte) (i j : Nat) : D Nat :=
  if i + j < inp.length then
    match rd inp (i + j) with
    | .error e => .error e
    | .ok c =>
      if c = CR then
        if i + j + 1 = inp.length then .error .bad
        else
          match rd inp (i + 1 + j) with
          | .error e => .error e
          | .ok d => if d ≠ LF then .error .bad else .ok (i + 2)
      else .ok i
  else .ok i

/-- the digit part of the inner loop body; returns `a[j]`
```
if (((i + j) < l) && (in[i + j] != B64PAD)) { c = strchr(..); if (!c) return 1; a[j] = c - b64alpha; }
else a[j] = 0;
``` -/
def sextet (inp : List Byte) (i j : Nat) : D Nat :=
  if i + j < inp.length then
    match rd inp (i + j) with
    | .error e => .error e
    | .ok c =>
      if c ≠ PAD then
        match digit c with
        | none => .error .bad
        | some v => .ok v
      else .ok 0
  else .ok 0

/-- one pass of the inner loop body for index `j`: (new `i`, `a[j]`) -/
def slot (inp : List Byte) (i j : Nat) : D (Nat × Nat) :=
  match skipCrlf inp i j with
  | .error e => .error e
  | .ok i' =>
    match sextet inp i' j with
    | .error e => .error e
    | .ok a => .ok (i', a)

/-- the whole inner loop: new `i` and `a[0..4)` -/
def group (inp : List Byte) (i : Nat) : D (Nat × Nat × Nat × Nat × Nat) :=
  match slot inp i 0 with
  | .error e => .error e
  | .ok (i0, a0) =>
    match slot inp i0 1 with
    | .error e => .error e
    | .ok (i1, a1) =>
      match slot inp i1 2 with
      | .error e => .error e
      | .ok (i2, a2) =>
        match slot inp i2 3 with
        | .error e => .error e
        | .ok (i3, a3) => .ok (i3, a0, a1, a2, a3)

/-- assignment to an `unsigned char` -/
def u8 (n : Nat) : Byte := UInt8.ofNat (n % 256)

def b0 (a0 a1 : Nat) : Byte := u8 ((a0 <<< 2) ||| (a1 >>> 4))
def b1 (a1 a2 : Nat) : Byte := u8 ((a1 <<< 4) ||| (a2 >>> 2))
def b2 (a2 a3 : Nat) : Byte := u8 ((a2 <<< 6) ||| a3)

/-- `(i + k >= l) || (in[i + k] == B64PAD)` -/
def stopAt (inp : List Byte) (k : Nat) : D Bool :=
  if k ≥ inp.length then .ok true
  else
    match rd inp k with
    | .error e => .error e
    | .ok c => .ok (c = PAD)

/-- the outer loop; `out` = bytes written so far (`s - out->s` = `out.length`) -/
def loop (inp : List Byte) (i : Nat) (out : List Byte) : Nat → D (List Byte)
  | 0 => .error (.fault (.precond 0))      -- fuel exhausted: never (see `Lemmas.Base64.loop_fuel`)
  | fuel + 1 =>
    if i < inp.length then
      match group inp i with
      | .error e => .error e
      | .ok (i', a0, a1, a2, a3) =>
        let out1 := out ++ [b0 a0 a1]
        match stopAt inp (i' + 2) with
        | .error e => .error e
        | .ok true => .ok out1
        | .ok false =>
          let out2 := out1 ++ [b1 a1 a2]
          match stopAt inp (i' + 3) with
          | .error e => .error e
          | .ok true => .ok out2
          | .ok false => loop inp (i' + 4) (out2 ++ [b2 a2 a3]) fuel
    else .ok out

/-- `while (out->len && !out->s[out->len - 1]) --out->len;` -/
def stripNul (out : List Byte) : List Byte :=
  (out.reverse.dropWhile (· = 0)).reverse

/-- `b64decode(in, l, out)`: `.ok bytes` = return 0 with `out = bytes`; `.error .bad` = return 1. -/
def decode (inp : List Byte) : D (List Byte) :=
  if inp.isEmpty then .ok []
  else
    match loop inp 0 [] (inp.length + 1) with
    | .error e => .error e
    | .ok out =>
      -- the block is `malloc(l + 3)`; `*s = '\0'` is written at offset `out.length`
      if out.length + 1 > inp.length + Gen.b64decodeSlack then .error (.fault (.oobWrite out.length))
      else .ok (stripNul out)

/-! ### b64encode -/

def alphaAt (k : Nat) : Except Fault Byte :=
  match alpha[k]? with
  | some c => .ok c
  | none => .error (.oobRead k)

structure Enc where
  s : List Byte       -- bytes written so far
  oline : Nat

/-- the line-wrap block
```
if (++oline >= wraplimit) {
    const unsigned int shift = oline - wraplimit + 1;  char movebuf[4];
    memcpy(movebuf, s - shift, shift); s -= shift; *s++ = '\r'; *s++ = '\n'; memcpy(s, movebuf, shift); s += shift;
    oline = shift;
}
``` (called with `oline` already incremented) -/
def wrap (e : Enc) (wraplimit : Nat) : Except Fault Enc :=
  if e.oline ≥ wraplimit then
    let shift := e.oline - wraplimit + 1
    if shift > Gen.b64movebuf then .error (.oobWrite shift)
    else if shift > e.s.length then .error (.oobRead shift)
    else
      let keep := e.s.take (e.s.length - shift)
      let moved := e.s.drop (e.s.length - shift)
      .ok { s := keep ++ [CR, LF] ++ moved, oline := shift }
  else .ok e

def encLoop (inp : List Byte) (wraplimit : Nat) (i : Nat) (e : Enc) : Nat → Except Fault Enc
  | 0 => .error (.precond 0)
  | fuel + 1 =>
    if i < inp.length then
      let a := (inp.getD i 0).toNat
      let b := if i + 1 < inp.length then (inp.getD (i + 1) 0).toNat else 0
      let c := if i + 2 < inp.length then (inp.getD (i + 2) 0).toNat else 0
      match alphaAt (a >>> 2), alphaAt (((a &&& 3) <<< 4) ||| (b >>> 4)) with
      | .ok c0, .ok c1 =>
        match (if i + 1 ≥ inp.length then .ok PAD else alphaAt (((b &&& 15) <<< 2) ||| (c >>> 6))),
              (if i + 2 ≥ inp.length then .ok PAD else alphaAt (c &&& 63)) with
        | .ok c2, .ok c3 =>
          match wrap { s := e.s ++ [c0, c1, c2, c3], oline := e.oline + 4 } wraplimit with
          | .error f => .error f
          | .ok e' => encLoop inp wraplimit (i + 3) e' fuel
        | .error f, _ => .error f
        | _, .error f => .error f
      | .error f, _ => .error f
      | _, .error f => .error f
    else .ok e

/-- `b64encode(in, out, wraplimit)`; `wraplimit = 0` divides by zero in the size computation. -/
def encode (inp : List Byte) (wraplimit : Nat) : Except Fault (List Byte) :=
  if inp.isEmpty then .ok []
  else if wraplimit = 0 then .error (.precond 0)
  else
    let n := inp.length / 3 * 4
    let cap := n + (n / wraplimit) * 2 + Gen.b64encodeSlack
    match encLoop inp wraplimit 0 { s := [], oline := 0 } (inp.length + 1) with
    | .error f => .error f
    | .ok e => if e.s.length + 1 > cap then .error (.oobWrite e.s.length) else .ok e.s

end QsmtpModel.Base64
