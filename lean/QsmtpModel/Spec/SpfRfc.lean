/-
Reference specification of SPF evaluation, written from RFC 7208 §4–§7 and the ABNF of §12, over a
parsed record type — independent of the C code and of the model in `QsmtpModel.Spf.*` (it shares
only the DNS oracle type, the session type and the libc-level address helpers).

`checkHost` is the RFC.  `Dev` switches on, one by one, the places where qsmtpd/spf.c is known to
deviate from the RFC (each is a documented finding, see tools/claims/C11.json); the executable
predicate `checkObserved` compares the implementation's answer with the RFC result and, when they
differ, names the deviation that explains the difference — anything not explained is a violation.
Mathlib-free.
-/
import QsmtpModel.Spf.Core

namespace QsmtpModel.Spec.Spf
open QsmtpModel QsmtpModel.Spf

/-- RFC 7208 §2.6 results; `hard` is only produced with deviations switched on (the code's
SPF_DNS_HARD_ERROR), it counts as temperror at the top level -/
inductive Res where
  | none | neutral | pass | fail | softfail | temperror | permerror | hard
  deriving DecidableEq, Repr, Inhabited

/-- known deviations of qsmtpd/spf.c from RFC 7208 -/
structure Dev where
  lazySyntax : Bool := false        -- syntax errors are only seen when evaluation reaches the term
  ipCidrMin8 : Bool := false        -- ip4:/ip6: prefix lengths below 8 are rejected
  toplabel2 : Bool := false         -- a toplabel of a single character is rejected
  ptrDnsError : Bool := false       -- DNS errors during ptr / %{p} are errors instead of "no match" / "unknown"
  mxNoAddress : Bool := false       -- MX names without any address are a DNS error; errors of some MX names are ignored when others have addresses
  hardError : Bool := false         -- non-timeout DNS errors are a separate result that `include` maps to "no match"
  topDomainPermerror : Bool := false -- a malformed <domain> gives permerror instead of none
  emptyExpIgnored : Bool := false   -- `exp=` without a domain-spec is ignored instead of a syntax error
  recordPrefix : Bool := false      -- any second record that starts with "v=spf1" (e.g. "v=spf10") counts as duplicate; version is case sensitive
  ptrCaseSensitive : Bool := false  -- ptr compares names case sensitively
  unknownModExpanded : Bool := false -- every modifier is macro-expanded when the term loop passes it (so %{p} queries the DNS and can fail)
  slashDelimiter : Bool := false    -- in a domain-spec "/" is a macro delimiter only directly after the letter (or `r`)
  escapeDomainEnd : Bool := false   -- a domain-spec may not end in %%, %_ or %-
  colonSlash : Bool := false        -- `a:/24`, `mx:/24` are read as `a/24`, `mx/24`
  lowerROnly : Bool := false        -- the reverse transformer must be a lower-case `r`
  mxLimitFail : Bool := false       -- more than ten MX names end the evaluation with the result fail (so `include` sees "no match")
  redirectNoneFail : Bool := false  -- a redirect to a domain without record gives fail (so `include` sees "no match")
  ptrNeedsRemotehost : Bool := false -- `ptr` does not query at all when the session has no reverse name of the client
  deriving Repr, Inhabited

def Dev.rfc : Dev := {}
def Dev.all : Dev := ⟨true, true, true, true, true, true, true, true, true, true, true, true, true, true, true, true, true, true⟩

/-! ### parsed records (RFC 7208 §12) -/

inductive Qual where
  | plus | minus | tilde | question
  deriving DecidableEq, Repr, Inhabited

def Qual.res : Qual → Res
  | .plus => .pass | .minus => .fail | .tilde => .softfail | .question => .neutral

structure MacroExp where
  letter : Byte          -- lower case
  url : Bool             -- the letter was upper case
  digits : Option Nat
  rev : Bool
  delims : List Byte
  deriving Repr, Inhabited

inductive MTok where
  | lit (b : Byte)
  | exp (m : MacroExp)
  | pct | sp | pct20
  deriving Repr, Inhabited

abbrev MacroString := List MTok

inductive Mech where
  | all
  | incl (d : MacroString)
  | a (d : Option MacroString) (c4 c6 : Option Nat)
  | mx (d : Option MacroString) (c4 c6 : Option Nat)
  | ptr (d : Option MacroString)
  | ip4 (net : List Byte) (len : Nat)
  | ip6 (net : List Byte) (len : Nat)
  | exists_ (d : MacroString)
  deriving Repr, Inhabited

inductive Term where
  | dir (q : Qual) (m : Mech)
  | redirect (d : MacroString) (dsOk : Bool)   -- dsOk: the macro-string is a valid domain-spec
  | exp (d : MacroString) (dsOk : Bool)
  | unknown (ms : MacroString)
  | bad            -- a term with a syntax error (kept so that the lazy deviation can be expressed)
  | badIp (v4 : Bool)  -- an ip4:/ip6: term with a syntax error
  | expEmpty       -- `exp=` without anything
  deriving Repr, Inhabited

/-! ### parser -/

def isDelim (c : Byte) : Bool := [46, 45, 43, 44, 47, 95, 61].contains c
def macroLetters : List Byte := [115, 108, 111, 100, 105, 112, 104, 99, 114, 116, 118]

def takeDigits : List Byte → List Byte × List Byte
  | [] => ([], [])
  | c :: r => if isDigit c then let (d, t) := takeDigits r; (c :: d, t) else ([], c :: r)

def natOfDigits (d : List Byte) : Nat := d.foldl (fun a c => a * 10 + (c.toNat - 48)) 0

def takeDelims : List Byte → List Byte × List Byte
  | [] => ([], [])
  | c :: r => if isDelim c then let (d, t) := takeDelims r; (c :: d, t) else ([], c :: r)

/-- macro-string; `exp` allows the letters c, r, t.  none = syntax error -/
def parseMacro (inExp : Bool) (strictSlash : Bool := false) (lowerR : Bool := false) : Nat → List Byte → Option MacroString
  | 0, _ => none
  | _, [] => some []
  | fuel + 1, c :: rest =>
    if c == 37 then
      match rest with
      | 37 :: r => (parseMacro inExp strictSlash lowerR fuel r).map (MTok.pct :: ·)
      | 95 :: r => (parseMacro inExp strictSlash lowerR fuel r).map (MTok.sp :: ·)
      | 45 :: r => (parseMacro inExp strictSlash lowerR fuel r).map (MTok.pct20 :: ·)
      | 123 :: l :: r =>
        let lc := lower l
        if !macroLetters.contains lc then none
        else if !inExp && (lc == 99 || lc == 114 || lc == 116) then none
        else
          let (ds, r1) := takeDigits r
          let dig : Option (Option Nat) := if ds.isEmpty then some none else if natOfDigits ds = 0 then none else some (some (natOfDigits ds))
          match dig with
          | none => none
          | some dig =>
            let (rev, r2) := match r1 with
              | 114 :: t => (true, t)
              | 82 :: t => if lowerR then (false, 82 :: t) else (true, t)
              | t => (false, t)
            let (dl, r3) := takeDelims r2
            let slashBad := strictSlash && ((dl.drop 1).contains 47 || (dl.headD 0 == 47 && dig.isSome))
            match r3 with
            | 125 :: r4 => if slashBad then none else (parseMacro inExp strictSlash lowerR fuel r4).map (MTok.exp ⟨lc, isUpperAlpha l, dig, rev, dl⟩ :: ·)
            | _ => none
      | _ => none
    else if (0x21 ≤ c.toNat && c.toNat ≤ 0x24) || (0x26 ≤ c.toNat && c.toNat ≤ 0x7e) || (inExp && c == 32) then
      (parseMacro inExp strictSlash lowerR fuel rest).map (MTok.lit c :: ·)
    else none

def isToplabel (l : List Byte) (minLen : Nat) : Bool :=
  l.length ≥ minLen && !l.isEmpty && l.all (fun c => isAlnum c || c == 45) && isAlnum (l.headD 0) && isAlnum (l.getLastD 0) &&
    l.any isAlpha

/-- the literal tail of a macro-string (the characters after the last macro-expand) -/
def literalTail : MacroString → List Byte → List Byte
  | [], acc => acc.reverse
  | .lit b :: r, acc => literalTail r (b :: acc)
  | _ :: r, _ => literalTail r []

def endsInMacro (braceOnly : Bool) (m : MacroString) : Bool :=
  match m.getLast? with
  | some (.lit _) => false
  | some (.exp _) => true
  | some _ => !braceOnly
  | none => false

/-- domain-end = ( "." toplabel [ "." ] ) / macro-expand -/
def domainEndOk (dev : Dev) (m : MacroString) : Bool :=
  if endsInMacro dev.escapeDomainEnd m then true
  else
    let t := literalTail m []
    let t := if t.getLast? == some 46 then t.dropLast else t
    match (t.reverse.span (· != 46)) with
    | (revLabel, 46 :: _) => isToplabel revLabel.reverse (if dev.toplabel2 then 2 else 1)
    | _ => false

def parseDomainSpec (dev : Dev) (s : List Byte) : Option MacroString :=
  if s.isEmpty then none else
  match parseMacro false dev.slashDelimiter dev.lowerROnly (s.length + 1) s with
  | none => none
  | some m => if domainEndOk dev m then some m else none

/-- "/" ( "0" / %x31-39 0*nDIGIT ) with a maximum -/
def parseLen (s : List Byte) (maxDigits max : Nat) : Option Nat :=
  match s with
  | [48] => some 0
  | c :: _ =>
    if c == 48 || !s.all isDigit || s.length > maxDigits then none
    else if natOfDigits s ≤ max then some (natOfDigits s) else none
  | [] => none

/-- split `x/y//z` style suffixes: text before the first "/" outside of %{…}, and the rest (with the "/").
State: 0 = plain, 1 = after `%`, 2 = inside `%{…}` -/
def splitAtSlash : List Byte → Nat → List Byte → List Byte × List Byte
  | [], _, acc => (acc.reverse, [])
  | c :: r, st, acc =>
    if st == 2 then splitAtSlash r (if c == 125 then 0 else 2) (c :: acc)
    else if st == 1 then splitAtSlash r (if c == 123 then 2 else 0) (c :: acc)
    else if c == 47 then (acc.reverse, c :: r)
    else splitAtSlash r (if c == 37 then 1 else 0) (c :: acc)

/-- dual-cidr-length = [ "/" ip4 ] [ "//" ip6 ]; input is empty or starts with "/" -/
def parseDualCidr (s : List Byte) : Option (Option Nat × Option Nat) :=
  match s with
  | [] => some (none, none)
  | 47 :: 47 :: r => (parseLen r 3 128).map fun v => (none, some v)
  | 47 :: r =>
    let (a, b) := r.span (· != 47)
    match parseLen a 2 32 with
    | none => none
    | some v4 =>
      match b with
      | [] => some (some v4, none)
      | 47 :: 47 :: r6 => (parseLen r6 3 128).map fun v => (some v4, some v)
      | _ => none
  | _ => none

def splitOn (sep : Byte) : List Byte → List Byte → List (List Byte)
  | [], cur => [cur.reverse]
  | c :: r, cur => if c == sep then cur.reverse :: splitOn sep r [] else splitOn sep r (c :: cur)

/-- qnum: 0..255 without leading zeros -/
def parseQnum (s : List Byte) : Option Byte :=
  if s.isEmpty || !s.all isDigit || s.length > 3 then none
  else if s.length > 1 && s.headD 0 == 48 then none
  else if natOfDigits s ≤ 255 then some (UInt8.ofNat (natOfDigits s)) else none

def parseIp4 (s : List Byte) : Option (List Byte) :=
  match (splitOn 46 s []).mapM parseQnum with
  | some l => if l.length = 4 then some l else none
  | none => none

def parseHex16 (s : List Byte) : Option (List Byte) :=
  if s.isEmpty || s.length > 4 then none
  else match s.mapM hexValB with
    | some ds => let v := ds.foldl (fun a d => a * 16 + d) 0; some [UInt8.ofNat (v / 256), UInt8.ofNat (v % 256)]
    | none => none

/-- groups of an IPv6 text piece `g:g:…` (the last one may be a dotted quad when `allowV4`) -/
def parseGroups (s : List Byte) (allowV4 : Bool) : Option (List Byte) :=
  if s.isEmpty then some [] else
  let gs := splitOn 58 s []
  let n := gs.length
  let parts := gs.zipIdx.mapM fun (g, i) =>
    if allowV4 && i + 1 = n && g.contains 46 then parseIp4 g else parseHex16 g
  parts.map List.flatten

/-- RFC 4291 §2.2 text representation -/
def parseIp6 (s : List Byte) : Option (List Byte) :=
  -- position of "::"
  let rec findDc : List Byte → Nat → Option Nat
    | 58 :: 58 :: _, i => some i
    | _ :: r, i => findDc r (i + 1)
    | [], _ => none
  match findDc s 0 with
  | none =>
    match parseGroups s true with
    | some b => if b.length = 16 then some b else none
    | none => none
  | some i =>
    let l := s.take i
    let r := s.drop (i + 2)
    if (findDc r 0).isSome || (r.headD 0 == 58) then none else
    match parseGroups l false, parseGroups r true with
    | some a, some b => if a.length + b.length < 16 then some (a ++ List.replicate (16 - a.length - b.length) 0 ++ b) else none
    | _, _ => none

def mechNames : List (List Byte) :=
  [[97, 108, 108], [105, 110, 99, 108, 117, 100, 101], [97], [109, 120], [112, 116, 114], [105, 112, 52], [105, 112, 54], [101, 120, 105, 115, 116, 115]]

def lowerAll (s : List Byte) : List Byte := s.map lower

def isName (s : List Byte) : Bool :=
  match s with
  | [] => false
  | c :: r => isAlpha c && r.all fun x => isAlnum x || x == 45 || x == 95 || x == 46

/-- one term (a word between blanks) -/
def parseTerm (dev : Dev) (w : List Byte) : Term :=
  let (q, hasQ, body) : Qual × Bool × List Byte := match w with
    | 43 :: r => (.plus, true, r)
    | 45 :: r => (.minus, true, r)
    | 126 :: r => (.tilde, true, r)
    | 63 :: r => (.question, true, r)
    | _ => (.plus, false, w)
  -- mechanism name: letters/digits up to ':' '/' or the end
  let nameLen := (body.takeWhile fun c => isAlnum c).length
  let name := lowerAll (body.take nameLen)
  let rest := body.drop nameLen
  let isMechShape := mechNames.contains name && (rest.isEmpty || rest.headD 0 == 58 || rest.headD 0 == 47)
  if isMechShape then
    let (arg, rest) : Option (List Byte) × List Byte := match rest with
      | 58 :: r => if dev.colonSlash && r.headD 0 == 47 then (none, r) else (some r, rest)
      | _ => (none, rest)
    let dom_cidr (allowCidr : Bool) (needDom : Bool) : Option (Option MacroString × Option Nat × Option Nat) :=
      let (ds, cs) : List Byte × List Byte := match arg with
        | some r => splitAtSlash r 0 []
        | none => ([], rest)
      let d : Option (Option MacroString) :=
        match arg with
        | some _ => (parseDomainSpec dev ds).map some
        | none => if needDom then none else some none
      match d with
      | none => none
      | some d =>
        if !allowCidr then (if cs.isEmpty then some (d, none, none) else none)
        else (parseDualCidr cs).map fun (a, b) => (d, a, b)
    if name == [97, 108, 108] then (if rest.isEmpty then .dir q .all else .bad)
    else if name == [105, 110, 99, 108, 117, 100, 101] then
      match dom_cidr false true with
      | some (some d, _, _) => .dir q (.incl d)
      | _ => .bad
    else if name == [97] then
      match dom_cidr true false with
      | some (d, a, b) => .dir q (.a d a b)
      | none => .bad
    else if name == [109, 120] then
      match dom_cidr true false with
      | some (d, a, b) => .dir q (.mx d a b)
      | none => .bad
    else if name == [112, 116, 114] then
      match dom_cidr false false with
      | some (d, _, _) => .dir q (.ptr d)
      | none => .bad
    else if name == [101, 120, 105, 115, 116, 115] then
      match dom_cidr false true with
      | some (some d, _, _) => .dir q (.exists_ d)
      | _ => .bad
    else if name == [105, 112, 52] then
      match arg with
      | some r =>
        let (ip, cs) := r.span (· != 47)
        let len : Option Nat := match cs with
          | [] => some 32
          | _ :: l => parseLen l 2 32
        match parseIp4 ip, len with
        | some n, some l => if dev.ipCidrMin8 && l < 8 then .badIp true else .dir q (.ip4 n l)
        | _, _ => .badIp true
      | none => .bad
    else
      match arg with
      | some r =>
        let (ip, cs) := r.span (· != 47)
        let len : Option Nat := match cs with
          | [] => some 128
          | _ :: l => parseLen l 3 128
        match parseIp6 ip, len with
        | some n, some l => if dev.ipCidrMin8 && l < 8 then .badIp false else .dir q (.ip6 n l)
        | _, _ => .badIp false
      | none => .bad
  else
    -- modifier = name "=" macro-string
    match memchr 61 w with
    | none => .bad
    | some k =>
      let nm := w.take k
      let val := w.drop (k + 1)
      if hasQ || !isName nm then .bad
      else if lowerAll nm == [114, 101, 100, 105, 114, 101, 99, 116] then
        match parseMacro false false dev.lowerROnly (val.length + 1) val with
        | some d => if val.isEmpty then .bad else .redirect d (parseDomainSpec dev val).isSome
        | none => .bad
      else if lowerAll nm == [101, 120, 112] then
        if val.isEmpty then .expEmpty else
        match parseMacro false false dev.lowerROnly (val.length + 1) val with
        | some d => .exp d (parseDomainSpec dev val).isSome
        | none => .bad
      else
        match parseMacro false false dev.lowerROnly (val.length + 1) val with
        | some ms => .unknown ms
        | none => .bad

/-- terms = *( 1*SP ( directive / modifier ) ) *SP -/
def parseTerms (dev : Dev) (rest : List Byte) : List Term :=
  ((splitOn 32 rest []).filter (!·.isEmpty)).map (parseTerm dev)

/-! ### evaluation (RFC 7208 §4, §5, §6, §7) -/

def splitDelims (delims : List Byte) (s : List Byte) : List (List Byte) :=
  let ds := if delims.isEmpty then [46] else delims
  let rec go : List Byte → List Byte → List (List Byte)
    | [], cur => [cur.reverse]
    | c :: r, cur => if ds.contains c then cur.reverse :: go r [] else go r (c :: cur)
  go s []

def urlEscape (s : List Byte) : List Byte :=
  s.flatMap fun c =>
    if isAlnum c || [45, 95, 46, 33, 126, 42, 39, 40, 41].contains c then [c]
    else [37, hexUpper (c.toNat / 16), hexUpper (c.toNat % 16)]

def joinDot (ps : List (List Byte)) : List Byte := (ps.intersperse [46]).flatten

/-- §7.3: split, reverse, keep the right-hand N parts, join with "." -/
def transform (m : MacroExp) (s : List Byte) : List Byte :=
  let ps := splitDelims m.delims s
  let ps := if m.rev then ps.reverse else ps
  let ps := match m.digits with
    | some n => ps.drop (ps.length - n)
    | none => ps
  let out := joinDot ps
  if m.url then urlEscape out else out

def nibbles (ip : List Byte) : List Byte :=
  joinDot (ip.flatMap fun b => [[hexLower (b.toNat / 16)], [hexLower (b.toNat % 16)]])

def isSubdomainOrEq (cs : Bool) (name target : List Byte) : Bool :=
  let n := if cs then name else lowerAll name
  let t := if cs then target else lowerAll target
  n == t || (n.length > t.length && n.drop (n.length - t.length) == t && n.getD (n.length - t.length - 1) 0 == 46)

/-- what a DNS failure is to the evaluation -/
inductive DnsFail where
  | temp | hard | localErr
  deriving DecidableEq, Repr

def failOf (dev : Dev) (e : Errno) : Option DnsFail :=
  match e with
  | .ENOENT => none
  | .ENOMEM | .ENFILE | .EMFILE | .ENOBUFS => some .localErr
  | .ETIMEDOUT | .EAGAIN => some .temp
  | _ => if dev.hardError then some .hard else some .temp

/-- the classification spflookup() applies to a failed TXT lookup (only with the deviation that
distinguishes kinds of DNS errors; otherwise as `failOf`) -/
def failOfTxt (dev : Dev) (e : Errno) : Option DnsFail :=
  if !dev.hardError then failOf dev e else
  match e with
  | .ENOENT => none
  | .ETIMEDOUT | .EAGAIN | .EIO | .ECONNREFUSED => some .temp
  | .EINVAL => some .hard
  | _ => some .localErr

def failRes : DnsFail → Res
  | .temp => .temperror
  | .hard => .hard
  | .localErr => .temperror

/-- address records of a name for the family of the client (A for IPv4, AAAA for IPv6) -/
def addrsOf (dns : Dns) (v4 : Bool) (name : List Byte) : Except Errno (List (List Byte)) :=
  if v4 then (dns.a name).map (·.map v4mapped)
  else (dns.aaaa name).map (·.filter (!isV4Mapped ·))

/-- validated domain names of the client (§5.5): at most 10 PTR names, forward-confirmed -/
def validatedNames (dev : Dev) (dns : Dns) (ss : Sess) : Except DnsFail (List (List Byte)) :=
  match dns.ptr ss.ip with
  | .error e =>
    match failOf dev e with
    | none => .ok []
    | some f => if dev.ptrDnsError then .error f else .ok []
  | .ok n =>
    if n.isEmpty then .ok [] else
    match addrsOf dns (isV4Mapped ss.ip) n with
    | .ok as => .ok (if as.contains ss.ip then [n] else [])
    | .error _ => .ok []

structure Ctx where
  dev : Dev
  dns : Dns
  ss : Sess

/-- macro expansion (§7).  Errors: only with the deviation that makes %{p} fail on DNS errors -/
def expandTok (c : Ctx) (domain : List Byte) : MTok → Except DnsFail (List Byte)
  | .lit b => .ok [b]
  | .pct => .ok [37]
  | .sp => .ok [32]
  | .pct20 => .ok [37, 50, 48]
  | .exp m =>
    let ss := c.ss
    let sender := if ss.mailfrom.isEmpty then str "postmaster@" ++ ss.helo else ss.mailfrom
    let atIdx := (memchr 64 sender).getD sender.length
    let l := m.letter
    if l == 115 then .ok (transform m sender)
    else if l == 108 then .ok (if ss.mailfrom.isEmpty then str "postmaster" else transform m (sender.take atIdx))
    else if l == 111 then .ok (transform m (sender.drop (atIdx + 1)))
    else if l == 100 then .ok (transform m domain)
    else if l == 105 then
      .ok (if isV4Mapped ss.ip then transform m (ntop4 (ss.ip.drop 12))
           else transform { m with url := false } (nibbles ss.ip))
    else if l == 112 then
      match validatedNames c.dev c.dns ss with
      | .error f => .error f
      | .ok [] => .ok (str "unknown")
      | .ok (n :: _) => .ok (transform m n)
    else if l == 118 then .ok (if isV4Mapped ss.ip then transform m (str "in-addr") else str "ip6")
    else if l == 104 then .ok (transform m ss.helo)
    else .ok []

def expand (c : Ctx) (domain : List Byte) : MacroString → Except DnsFail (List Byte)
  | [] => .ok []
  | t :: r =>
    match expandTok c domain t, expand c domain r with
    | .ok a, .ok b => .ok (a ++ b)
    | .error f, _ => .error f
    | _, .error f => .error f

/-- §4.8: drop labels from the left while the name is longer than 253; trailing dots do not count -/
def targetName (n : List Byte) : List Byte :=
  let n := (n.reverse.dropWhile (· == 46)).reverse
  let rec trim : Nat → List Byte → List Byte
    | 0, n => n
    | f + 1, n => if n.length > 253 then
        match memchr 46 n with
        | some k => trim f (n.drop (k + 1))
        | none => n
      else n
  trim n.length n

def inNet4 (ip net : List Byte) (len : Nat) : Bool :=
  beNat (ip.drop 12) >>> (32 - len) == beNat net >>> (32 - len)
def inNet6 (ip net : List Byte) (len : Nat) : Bool :=
  beNat ip >>> (128 - len) == beNat net >>> (128 - len)

def addrMatches (ss : Sess) (c4 c6 : Option Nat) (a : List Byte) : Bool :=
  if isV4Mapped ss.ip then isV4Mapped a && inNet4 ss.ip (a.drop 12) (c4.getD 32)
  else !isV4Mapped a && inNet6 ss.ip a (c6.getD 128)

/-- outcome of one mechanism -/
inductive MatchRes where
  | hit | miss | err (r : Res)
  deriving Repr

/-- record selection (§4.5): none = permerror (several), some none = no record -/
def selectRfc (dev : Dev) (recs : List (List Byte)) : Option (Option (List Byte)) :=
  if dev.recordPrefix then selectRecord recs none else
  let isSpf (r : List Byte) : Bool := lowerAll (r.take 6) == [118, 61, 115, 112, 102, 49] && (r.length == 6 || r.getD 6 0 == 32)
  match recs.filter isSpf with
  | [] => some none
  | [r] => some (some r)
  | _ => none

def isValidDomain (d : List Byte) : Bool :=
  let d := if d.getLast? == some 46 then d.dropLast else d
  let labels := splitOn 46 d []
  labels.length ≥ 2 && labels.all (fun l => !l.isEmpty && l.length ≤ 63) && d.length ≤ 253

/-- state of an evaluation: number of DNS-querying terms so far -/
abbrev Cnt := Nat

def limitRes : Res := .permerror

/-- one mechanism (§5); `recurse` is check_host() for `include` -/
def evalMech (c : Ctx) (recurse : List Byte → Cnt → Res × Cnt) (domain : List Byte) (m : Mech) (n : Cnt) : MatchRes × Cnt :=
    let ss := c.ss
    let v4 := isV4Mapped ss.ip
    let target (d : Option MacroString) : Except DnsFail (List Byte) :=
      match d with
      | none => .ok domain
      | some ms => expand c domain ms
    let dnsTerm (k : Cnt → MatchRes × Cnt) : MatchRes × Cnt :=
      if n + 1 > 10 then (.err limitRes, n + 1) else k (n + 1)
    match m with
    | .all => (.hit, n)
    | .ip4 net len => (if v4 && inNet4 ss.ip net len then .hit else .miss, n)
    | .ip6 net len => (if !v4 && inNet6 ss.ip net len then .hit else .miss, n)
    | .a d c4 c6 =>
      match target d with
      | .error f => (.err (failRes f), n)
      | .ok t => dnsTerm fun n =>
        match addrsOf c.dns v4 t with
        | .error e => (match failOf c.dev e with | none => .miss | some f => .err (failRes f), n)
        | .ok as => (if as.any (addrMatches ss c4 c6) then .hit else .miss, n)
    | .mx d c4 c6 =>
      match target d with
      | .error f => (.err (failRes f), n)
      | .ok t => dnsTerm fun n =>
        let mxAnswer : Except Res (List (Nat × List Byte)) := match c.dns.mx t with
          | .error e => (match failOf c.dev e with | none => .ok [] | some f => .error (failRes f))
          | .ok mxs => .ok mxs
        match mxAnswer with
        | .error r => (.err r, n)
        | .ok mxs =>
          if mxs.isEmpty then
            (if c.dev.mxNoAddress then
              match c.dns.aaaa t with
              | .error e => (match failOf c.dev e with | none => .miss | some f => .err (failRes f))
              | .ok _ => .miss
             else .miss, n)
          else if c.dev.mxNoAddress && (match mxs with | [(_, [46])] => true | _ => false) then (.miss, n)
          else
            -- address lookup for every MX name
            let looks := mxs.map fun (_, name) =>
              if c.dev.mxNoAddress then c.dns.aaaa name else addrsOf c.dns v4 name
            let good := looks.filterMap fun l => match l with | .ok as => (if as.isEmpty then none else some as) | .error _ => none
            let fails := looks.filterMap fun l => match l with | .error e => failOf c.dev e | .ok _ => none
            if c.dev.mxNoAddress then
              if fails.contains .localErr then (.err .temperror, n)
              else if good.isEmpty then
                (.err (match fails.getLast? with | some .temp => .temperror | _ => if c.dev.hardError then .hard else .temperror), n)
              else if good.length > 10 then (.err (if c.dev.mxLimitFail then .fail else limitRes), n)
              else (if good.flatten.any (fun a => if ss.ipv4conn then isV4Mapped a && inNet4 ss.ip (a.drop 12) (c4.getD 32) else inNet6 ss.ip a (c6.getD 128)) then .hit else .miss, n)
            else if mxs.length > 10 then (.err (if c.dev.mxLimitFail then .fail else limitRes), n)
            else match fails.head? with
              | some f => (.err (failRes f), n)
              | none => (if good.flatten.any (addrMatches ss c4 c6) then .hit else .miss, n)
    | .exists_ d =>
      match expand c domain d with
      | .error f => (.err (failRes f), n)
      | .ok t => dnsTerm fun n =>
        match c.dns.a t with
        | .error e => (match failOf c.dev e with | none => .miss | some f => .err (failRes f), n)
        | .ok as => (if as.isEmpty then .miss else .hit, n)
    | .ptr d =>
      match target d with
      | .error f => (.err (failRes f), n)
      | .ok t => dnsTerm fun n =>
        if c.dev.ptrNeedsRemotehost && ss.remotehost.isEmpty then (.miss, n) else
        match validatedNames c.dev c.dns ss with
        | .error f => (.err (failRes f), n)
        | .ok names => (if names.any (fun v => isSubdomainOrEq c.dev.ptrCaseSensitive v t) then .hit else .miss, n)
    | .incl d =>
      match expand c domain d with
      | .error f => (if c.dev.hardError && f == .hard then .miss else .err (failRes f), n)
      | .ok t => dnsTerm fun n =>
        let (r, n) := recurse t n
        match r with
        | .pass => (.hit, n)
        | .fail | .softfail | .neutral => (.miss, n)
        | .temperror => (.err .temperror, n)
        | .permerror => (.err .permerror, n)
        | .none => (.err .permerror, n)
        | .hard => (.miss, n)

/-- the mechanisms from left to right (§4.6.2): some r = a mechanism matched or an error ended the
evaluation; none = nothing matched -/
def evalTerms (c : Ctx) (recurse : List Byte → Cnt → Res × Cnt) (domain : List Byte) : List Term → Cnt → Option Res × Cnt
  | [], n => (none, n)
  | t :: rest, n =>
    match t with
    | .bad => (some .permerror, n)       -- only reached with the lazy deviation
    | .badIp v4 =>                        -- lazy: the literal is not looked at for a client of the other family
      if v4 == isV4Mapped c.ss.ip then (some .permerror, n) else evalTerms c recurse domain rest n
    | .expEmpty => if c.dev.emptyExpIgnored then evalTerms c recurse domain rest n else (some .permerror, n)
    | .redirect ms _ | .exp ms _ | .unknown ms =>
      if c.dev.unknownModExpanded then
        match expand c domain ms with
        | .error f => (some (failRes f), n)
        | .ok _ => evalTerms c recurse domain rest n
      else evalTerms c recurse domain rest n
    | .dir q m =>
      let (mr, n) := evalMech c recurse domain m n
      match mr with
      | .hit => (some q.res, n)
      | .err r => (some r, n)
      | .miss => evalTerms c recurse domain rest n


/-- check_host() (§4) with `fuel` levels of nesting left -/
def checkDomain (c : Ctx) : Nat → List Byte → Cnt → Bool → Res × Cnt
  | 0, _, n, _ => (.permerror, n)
  | fuel + 1, domain, n, top =>
    let txt : Except Res (List (List Byte)) :=
      match c.dns.txt (if top then domain else targetName domain) with
      | .ok rs => .ok (txtView c.dns rs)
      | .error e =>
        match failOfTxt c.dev e with
        | none => .ok []
        | some f => .error (failRes f)
    match txt with
    | .error r => (r, n)
    | .ok recs =>
      match selectRfc c.dev recs with
      | none => (.permerror, n)
      | some none => (.none, n)
      | some (some rec) =>
        let terms := parseTerms c.dev (rec.drop 6)
        let nRedirect := (terms.filter fun t => match t with | .redirect _ _ => true | _ => false).length
        let nExp := (terms.filter fun t => match t with | .exp _ _ => true | .expEmpty => true | _ => false).length
        -- `redirect=`/`exp=` with a syntax error still count as present for the duplicate test of the code
        let hasBad := terms.any fun t => match t with
          | .bad => true
          | .badIp _ => true
          | .redirect _ ok => !ok
          | .exp _ ok => !ok
          | .expEmpty => !c.dev.emptyExpIgnored
          | _ => false
        if nRedirect > 1 || nExp > 1 then (.permerror, n)
        else if hasBad && !c.dev.lazySyntax then (.permerror, n)
        else
          let (r, n) := evalTerms c (fun d k => checkDomain c fuel d k false) domain terms n
          match r with
          | some r => (r, n)
          | none =>
            match terms.find? (fun t => match t with | .redirect _ _ => true | _ => false) with
            | some (.redirect d ok) =>
              if !ok then (.permerror, n) else
              match expand c domain d with
              | .error f => (failRes f, n)
              | .ok target =>
                if n + 1 > 10 then (limitRes, n + 1)
                else
                  let (r, n) := checkDomain c fuel target (n + 1) false
                  (if r == .none then (if c.dev.redirectNoneFail then .fail else .permerror) else r, n)
            | _ => (.neutral, n)


/-- check_host() of RFC 7208 §4 (with the deviations `dev` switched on) -/
def checkHost (dev : Dev) (dns : Dns) (ss : Sess) (domain : List Byte) : Res :=
  if dev.topDomainPermerror && !domainvalid domain then .permerror
  else if !isValidDomain domain then .none
  else (checkDomain ⟨dev, dns, ss⟩ 24 domain 0 true).1

/-! ### comparison with an observed answer -/

/-- the values check_host() may return -/
def resultInRange (r : Int) : Bool :=
  r = SPF_NONE || r = SPF_PASS || r = SPF_NEUTRAL || r = SPF_SOFTFAIL || r = SPF_FAIL || r = SPF_PERMERROR
    || r = SPF_TEMPERROR || r = SPF_DNS_HARD_ERROR || r = -1

/-- what the property demands of text that came from DNS: no line break, no non-ASCII byte.
(DEL, 0x7f, is ASCII and no line break: the sanitiser of the `exp=` text lets it through, and the
property does not forbid it.) -/
def expByteOk (b : Byte) : Bool := b.toNat < 128 && b != CR && b != LF

def parseInt (s : String) : Option Int :=
  if s.startsWith "-" then (s.drop 1).toNat?.map fun n => -(n : Int) else s.toNat?.map fun n => (n : Int)

/-- number of TXT queries in an observed trace -/
def countTxt (trace : String) : Nat :=
  if trace = "-" then 0 else ((trace.splitOn ",").filter fun q => q.startsWith "T.").length

/-- does the code's return value stand for this RFC result?  The code says SPF_FAIL where the RFC
says permerror for an exceeded limit and for a redirect to a domain without record (the property
allows fail there); SPF_DNS_HARD_ERROR and −1 are DNS failures. -/
def agrees (impl : Int) (r : Res) : Bool :=
  match r with
  | .none => impl = SPF_NONE
  | .neutral => impl = SPF_NEUTRAL
  | .pass => impl = SPF_PASS
  | .fail => impl = SPF_FAIL
  | .softfail => impl = SPF_SOFTFAIL
  | .permerror => impl = SPF_PERMERROR || impl = SPF_FAIL
  | .temperror => impl = SPF_TEMPERROR || impl = SPF_DNS_HARD_ERROR || impl = -1
  | .hard => impl = SPF_DNS_HARD_ERROR || impl = SPF_TEMPERROR || impl = -1

def devList : List (String × Dev) := [
  ("lazy-syntax", { lazySyntax := true }),
  ("ip-cidr-min-8", { ipCidrMin8 := true }),
  ("toplabel-single-char", { toplabel2 := true }),
  ("ptr-dns-error", { ptrDnsError := true }),
  ("mx-without-address", { mxNoAddress := true }),
  ("dns-hard-error-in-include", { hardError := true }),
  ("malformed-domain-permerror", { topDomainPermerror := true }),
  ("empty-exp-ignored", { emptyExpIgnored := true }),
  ("record-selection-prefix", { recordPrefix := true }),
  ("ptr-case-sensitive", { ptrCaseSensitive := true }),
  ("modifier-expanded-in-loop", { unknownModExpanded := true, ptrDnsError := true }),
  ("slash-delimiter-position", { slashDelimiter := true }),
  ("escape-as-domain-end", { escapeDomainEnd := true }),
  ("colon-before-cidr", { colonSlash := true }),
  ("upper-case-r-transformer", { lowerROnly := true }),
  ("mx-limit-is-fail", { mxLimitFail := true }),
  ("redirect-to-nothing-is-fail", { redirectNoneFail := true }),
  ("ptr-needs-reverse-name", { ptrNeedsRemotehost := true })]

/-- "holds", "fails rfc-result deviation=<id>" (explained by a documented deviation), or
"fails rfc-result rfc=<r>" -/
def compareRfc (dns : Dns) (ss : Sess) (domain : List Byte) (impl : Int) : String :=
  let r := checkHost Dev.rfc dns ss domain
  if agrees impl r then "holds"
  else
    match devList.find? (fun (_, d) => agrees impl (checkHost d dns ss domain)) with
    | some (name, _) => "fails rfc-result deviation=" ++ name
    | none =>
      if agrees impl (checkHost Dev.all dns ss domain) then "fails rfc-result deviation=combined"
      else s!"fails rfc-result rfc={repr r} dialect={repr (checkHost Dev.all dns ss domain)} impl={impl}"

/-- record_bad_token(): TAB and printable ASCII without `(`, `)`, `\` -/
def badTokenByteOk (b : Byte) : Bool := b == TAB || (32 ≤ b.toNat && b.toNat ≤ 126 && b != 40 && b != 41 && b != 92)

/-- predicate for an observed record_bad_token() result -/
def checkBadToken (out : String) : String :=
  if out = "N" then "holds" else
  match fromHex out with
  | some e => if e.all badTokenByteOk then "holds" else "fails bad-token-alphabet"
  | none => "fails memory-safety-or-crash"

/-- header text whose only line breaks are `LF TAB` or one final `LF`; no CR (same definition as
`Spf.breaksOk` of the lemmas, restated here for the driver) -/
def headerBreaksOk : List Byte → Bool
  | [] => true
  | c :: rest =>
    if c == 13 then false
    else if c == 10 then (match rest with | [] => true | d :: _ => d == 9) && headerBreaksOk rest
    else headerBreaksOk rest

/-- predicate for an observed spfreceived() output `<ret> <bytes>` -/
def checkReceived (outs : List String) : String :=
  match outs with
  | [_, out] =>
    match fromHex out with
    | some b => if headerBreaksOk b && b.all (fun c => c.toNat < 128) then "holds" else "fails received-spf-line-breaks"
    | none => "fails memory-safety-or-crash"
  | _ => "fails memory-safety-or-crash"

/-- "holds" or "fails <clause>" for an observed answer `<ret> <spfexp|N> <mech|N> <trace>`;
`rfc`: also compare the result with the reference evaluation -/
def checkObserved (dns : Dns) (ss : Sess) (domain : List Byte) (rfc : Bool) (outs : List String) : String :=
  match outs with
  | [ret, exp, _mech, trace] =>
    match parseInt ret with
    | none => "fails memory-safety-or-crash"
    | some r =>
      if !resultInRange r then "fails result-in-range"
      else
        let expOk := if exp = "N" then true else
          match fromHex exp with
          | some e => e.all expByteOk
          | none => false
        if !expOk then "fails explanation-alphabet"
        else if countTxt trace > 2 * (Gen.spfMaxDnsTerms + 1) then "fails dns-term-limit"
        else if rfc then compareRfc dns ss domain r
        else "holds"
  | _ => "fails memory-safety-or-crash"

end QsmtpModel.Spec.Spf
