/-
C12: the documented recipient policy (doc/man/filterconf.5, doc/userconfig, comments of smtp_rcpt).

* `rcptPolicy`: what RCPT TO answers, given what every filter of the chain would say and whether
  `fail_hard_on_temp` / `nonexist_on_block` are in force.
* `says` / `effective`: what a `filterconf` level says about a key and how the levels combine
  (user over domain over global where the key is global; a negative value switches the key off
  without inheriting; `key=0` is the same as no line).

Mathlib-free (the driver evaluates `checkPolicy` on the implementation's replies).
-/
import QsmtpModel.Basic

namespace QsmtpModel.Spec.Rcpt
open QsmtpModel

/-! ### the policy -/

inductive DenyKind where
  | sent        -- the filter has sent its own rejection
  | policy      -- general policy rejection
  | nouser      -- "user does not exist"
  deriving Repr, DecidableEq

/-- what one filter of the chain says about this recipient -/
inductive Verdict where
  | pass
  | temp                     -- temporary failure (or an error inside the filter)
  | whitelist
  | deny (k : DenyKind)
  deriving Repr, DecidableEq

inductive PolicyReply where
  | accept                   -- 250
  | sentByFilter             -- nothing further: the filter's own reply stands
  | temp450                  -- 450 4.7.0
  | policy550                -- 550 5.7.1
  | nouser550                -- 550 5.1.1 no such user
  deriving Repr, DecidableEq

/-- a hard decision ends the evaluation -/
def Verdict.hard : Verdict → Bool
  | .whitelist => true
  | .deny _ => true
  | _ => false

/-- policy rejection, possibly disguised -/
def policyOr (nonexist : Bool) : PolicyReply := if nonexist then .nouser550 else .policy550

/-- The documented outcome: the first hard decision wins, whatever temporary failures came
before it; without one a temporary failure is answered 4xx, or as a policy rejection when
`fail_hard_on_temp` is set; `nonexist_on_block` turns policy rejections into "no such user". -/
def rcptPolicy (vs : List Verdict) (failHard nonexist : Bool) : PolicyReply :=
  match vs.find? Verdict.hard with
  | some .whitelist => .accept
  | some (.deny .sent) => .sentByFilter
  | some (.deny .policy) => policyOr nonexist
  | some (.deny .nouser) => .nouser550
  | _ =>
    if vs.contains .temp then (if failHard then policyOr nonexist else .temp450)
    else .accept

/-! ### settings -/

/-- what one `filterconf` says about a key -/
inductive Says where
  | nothing
  | value (v : Int)
  | malformed
  deriving Repr, DecidableEq

def isDigitB (b : Byte) : Bool := 48 ≤ b.toNat && b.toNat ≤ 57

def natOf (ds : List Byte) : Nat := ds.foldl (fun a d => a * 10 + (d.toNat - 48)) 0

/-- optional sign: (negative, rest) -/
def signSplit : List Byte → Bool × List Byte
  | 45 :: t => (true, t)
  | 43 :: t => (false, t)
  | s => (false, s)

def intTail (neg : Bool) (ds : List Byte) : Option Int :=
  if ds.isEmpty ∨ !ds.all isDigitB then none
  else some (if neg then -(natOf ds : Int) else natOf ds)

/-- an integer as documented: optional sign, digits, nothing else -/
def intOf (s : List Byte) : Option Int := intTail (signSplit s).1 (signSplit s).2

/-- what a single line says about `key` (none: the line is about something else) -/
def lineSays (key line : List Byte) : Option Says :=
  if line = key then some (.value 1)
  else if line.take (key.length + 1) = key ++ [61] then
    let v := line.drop (key.length + 1)
    if v.isEmpty then some (.value 0)          -- "key=": strtol() reads 0
    else match intOf v with
      | some n => some (.value n)
      | none => some .malformed
  else none

/-- the first line about `key` decides -/
def firstSays (key : List Byte) : List (List Byte) → Says
  | [] => .nothing
  | l :: ls =>
    match lineSays key l with
    | some s => s
    | none => firstSays key ls

/-- "no foo line in the file is the same like foo=0" -/
def Says.norm : Says → Says
  | .value 0 => .nothing
  | s => s

def says (key : List Byte) (lines : List (List Byte)) : Says := (firstSays key lines).norm

/-- the effective setting -/
inductive Setting where
  | off                           -- not set anywhere, or switched off by a negative value
  | on (v : Int) (level : Nat)    -- value and index of the level that set it
  | malformed (level : Nat)
  deriving Repr, DecidableEq

/-- combine the levels in order (user, domain, and global for a global key): the first level that
says anything but "nothing" / 0 decides; a negative value there means off, without asking the
later levels -/
def effectiveFrom (i : Nat) : List Says → Setting
  | [] => .off
  | .nothing :: rest => effectiveFrom (i + 1) rest
  | .malformed :: _ => .malformed i
  | .value v :: rest =>
    if v > 0 then .on v i else if v < 0 then .off else effectiveFrom (i + 1) rest

def effective (levels : List Says) : Setting := effectiveFrom 0 levels

def Setting.isOn : Setting → Bool
  | .on _ _ => true
  | _ => false

/-! ### level order of the filter files -/

/-- index and answer of the first level that answers at all -/
def firstAnswer {α β : Type} (probe : α → Option β) : Nat → List α → Option (Nat × β)
  | _, [] => none
  | i, l :: ls =>
    match probe l with
    | some b => some (i, b)
    | none => firstAnswer probe (i + 1) ls

/-! ### executable check of a reply against the policy -/

/-- first reply code (three digits) of the bytes the server sent -/
def firstCode (b : List Byte) : Nat := ((b.take 3).map fun d => d.toNat - 48).foldl (fun a d => a * 10 + d) 0

/-- `sent`: everything the server sent in answer to RCPT TO; `filterSent`: what the deciding
filter's own reply is (for `sentByFilter`); `tempText`, `policyText`, `nouserText`, `okText`:
the texts the documentation promises. Answers `holds` or `fails <clause>`. -/
def checkPolicy (expect : PolicyReply) (sent filterSent okText tempText policyText nouserText : List Byte) : String :=
  match expect with
  | .accept => if sent = okText then "holds" else "fails accepted-recipient-gets-250"
  | .sentByFilter => if sent = filterSent then "holds" else "fails filter-reply-stands-alone"
  | .temp450 => if sent = tempText then "holds" else if firstCode sent / 100 = 5 then "fails temporary-failure-answered-5xx-without-fail_hard_on_temp" else "fails temporary-failure-gets-450"
  | .policy550 =>
    if sent = policyText then "holds"
    else if firstCode sent / 100 = 4 then "fails hard-decision-or-fail_hard_on_temp-answered-4xx"
    else if sent = nouserText then "fails no-such-user-without-nonexist_on_block"
    else "fails policy-rejection-gets-550-5.7.1"
  | .nouser550 =>
    if sent = nouserText then "holds"
    else if firstCode sent / 100 = 4 then "fails hard-decision-or-fail_hard_on_temp-answered-4xx"
    else if sent = policyText then "fails nonexist_on_block-not-honoured"
    else "fails no-such-user-gets-550-5.1.1"

end QsmtpModel.Spec.Rcpt
