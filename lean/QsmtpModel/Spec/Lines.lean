/-
The reader's specification on the byte stream alone (C05): which lines `net_read()` hands out,
with no reference to buffers or to how the stream is cut into reads.
-/
import QsmtpModel.Netio
namespace QsmtpModel.Netio
open QsmtpModel

def isEol (b : Byte) : Bool := b == CR || b == LF

/-- window the reader can look at: `sizeof(lineinbuf) - 1` bytes -/
abbrev win : Nat := bufSize - 1

/-- outcome of one canonical read on the pending stream `p` (what is buffered ++ what will come) -/
inductive Scan where
  | line (l rest : List Byte)
  | skip (rest : List Byte)
  | dead
  deriving Repr, DecidableEq

/-- discard of an over-long line: everything up to and including the first LF behind the window -/
def discard (p : List Byte) : Scan :=
  match memchr LF (p.drop win) with
  | none => .dead
  | some j => .skip (p.drop (win + j + 1))

/-- The lines the reader hands out, defined on the byte stream alone (no cuts, no buffers):
look at the first CR or LF among the first `win` bytes. -/
def scan (p : List Byte) : Scan :=
  match (p.take win).findIdx? isEol with
  | none => if p.length < win then .dead else discard p
  | some k =>
    if p[k]? = some LF then .skip (p.drop (k + 1))
    else if k + 1 = win then discard p
    else match p[k + 1]? with
      | none => .dead
      | some b => if b = LF then .line (p.take k) (p.drop (k + 2)) else .skip (p.drop (k + 1))

def canonLines : Nat → List Byte → List (List Byte)
  | 0, _ => []
  | f + 1, p =>
    match scan p with
    | .line l r => l :: canonLines f r
    | .skip r => canonLines f r
    | .dead => []

/-- **goodLines**: the specification of the reader on a byte stream -/
def goodLines (s : List Byte) : List (List Byte) := canonLines (s.length + 1) s

example : goodLines [97, 13, 10, 98, 10, 99, 13, 10] = [[97], [99]] := by decide

/-! ### the DATA phase on the stream alone -/

/-- The framing of DATA as a function of the stream: follow the canonical reader; a skipped stretch
(stray CR/LF, over-long line) makes the message refusable for good; the phase ends at the first
line that is a single dot. -/
inductive FrameEnd where
  | queued | refused | died
  deriving Repr, DecidableEq

structure Frame where
  verdict : FrameEnd
  lines : List (List Byte)
  rest : List Byte
  deriving Repr, DecidableEq

def frameData : Nat → List Byte → Bool → List (List Byte) → Frame
  | 0, p, _, acc => ⟨.died, acc, p⟩
  | f + 1, p, dr, acc =>
    match scan p with
    | .dead => ⟨.died, acc, []⟩
    | .skip r => frameData f r true acc
    | .line l r =>
      if l = [DOT] then ⟨if dr then .refused else .queued, acc, r⟩
      else frameData f r dr (if dr then acc else acc ++ [l])

/-- the result that matters: verdict, lines, and (unless the stream ended) what is left -/
def Frame.same (a b : Frame) : Prop :=
  a.verdict = b.verdict ∧ a.lines = b.lines ∧ (a.verdict ≠ .died → a.rest = b.rest)

end QsmtpModel.Netio
