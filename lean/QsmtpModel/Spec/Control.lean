/-
Reference specifications for C16 (and the list part of C01), written independently of the models:
what a control file *means*.  They are executable; the driver evaluates them on the
*implementation's* answers (ops `chk_*`), and Props/C16.lean proves the models equal to them.
Mathlib-free.
-/
import QsmtpModel.Basic

namespace QsmtpModel.Spec
open QsmtpModel

def blank (b : Byte) : Bool := b == SP || b == TAB

/-- split at every byte satisfying `p` (the separators are dropped; `n` separators give `n+1` pieces) -/
def splitAt (p : Byte → Bool) : List Byte → List (List Byte)
  | [] => [[]]
  | b :: tl =>
    match splitAt p tl with
    | [] => [[]]              -- unreachable (`splitAt` never returns [])
    | cur :: more => if p b then [] :: cur :: more else (b :: cur) :: more

/-- remove trailing blanks and tabs -/
def stripTrail (l : List Byte) : List Byte := (l.reverse.dropWhile blank).reverse

/-! ### rcpthosts-style lists (finddomain): the reading of the property statement -/

/-- the lines of a file: split at LF -/
def lines (c : List Byte) : List (List Byte) := splitAt (· == LF) c

/-- "non-empty, non-comment lines with trailing blanks removed": a comment line starts with `#` -/
def entries (c : List Byte) : List (List Byte) :=
  ((lines c).filter fun l => l.head? ≠ some 35).map stripTrail |>.filter (· ≠ [])

def eqNoCase (a b : List Byte) : Bool := a.map lower == b.map lower

/-- "equals an entry case-insensitively or ends with an entry that starts with a dot" -/
def matchesEntry (e d : List Byte) : Bool :=
  eqNoCase d e || (e.head? == some DOT && e.length ≤ d.length && eqNoCase (d.drop (d.length - e.length)) e)

def domainListed (c d : List Byte) : Bool := (entries c).any fun e => matchesEntry e d

/-! ### list files read by lloadfilefd (striptab 3): the statement plus the loader's documented extras
(`#` starts a comment anywhere in a line unless preceded by a backslash; a NUL ends a line like LF
does; a blank may only be followed by blanks up to the end of the line) -/

/-- the text in front of the first `#` that is not preceded by a backslash, and whether there is one -/
def cutComment : Bool → List Byte → List Byte × Bool
  | _, [] => ([], false)
  | esc, b :: tl =>
    if b == 35 && !esc then ([], true)
    else
      let (r, h) := cutComment (b == 92) tl
      (b :: r, h)

/-- one line: `none` = malformed (a blank followed by something other than blanks and the line
end, a comment included), `some e` = its entry (possibly empty) -/
def lineEntry (l : List Byte) : Option (List Byte) :=
  let (body, hasComment) := cutComment false l
  let e := stripTrail body
  if e.any blank || (hasComment && e.length < body.length) then none else some e

/-- all entries of a list file, or `none` if some line is malformed -/
def listLines (c : List Byte) : Option (List (List Byte)) :=
  ((splitAt (fun b => b == LF || b == 0) c).mapM lineEntry).map (·.filter (· ≠ []))

/-- a file whose every line is plain: no NUL, `#` only in column 0, blanks only trailing.  On such
files `listLines` and `entries` agree (`Props.C16.listLines_plain`). -/
def plainFile (c : List Byte) : Bool :=
  !c.contains 0 && (lines c).all fun l =>
    !(l.drop 1).contains 35 && !(stripTrail l).any blank

/-! ### numeric files -/

def decDigit (b : Byte) : Bool := 48 ≤ b.toNat && b.toNat ≤ 57

def decimalValue (l : List Byte) : Nat := l.foldl (fun acc b => acc * 10 + (b.toNat - 48)) 0

/-- 2^64 -/
def ulongLimit : Nat := 18446744073709551616

inductive IntMeaning where
  | invalid          -- must be reported as an error
  | absent           -- no entry at all: the default applies
  | value (n : Nat)
  deriving Repr, DecidableEq

/-- a numeric file means `n` iff, comments and empty lines aside, it is one line of decimal digits
denoting `n`, representable in `unsigned long` -/
def intMeaning (c : List Byte) : IntMeaning :=
  match listLines c with
  | none => .invalid
  | some [] => .absent
  | some [l] => if l.all decDigit ∧ decimalValue l < ulongLimit then .value (decimalValue l) else .invalid
  | some _ => .invalid

/-! ### networks -/

/-- bit `i` (0 = most significant bit of the first byte) of a big-endian byte list -/
def bitAt (a : List Byte) (i : Nat) : Bool := (a.getD (i / 8) 0).toNat.testBit (7 - i % 8)

/-- the address lies in `net/m`: the top `m` bits agree -/
def inNet (ip net : List Byte) (m : Nat) : Bool := (List.range m).all fun i => bitAt ip i == bitAt net i

/-- cut into records of `n` bytes (`n > 0`); `none` if the size is not a multiple -/
def records (n : Nat) (buf : List Byte) : Nat → Option (List (List Byte))
  | 0 => if buf.isEmpty then some [] else none
  | fuel + 1 =>
    if buf.isEmpty then some []
    else if buf.length < n then none
    else (records n (buf.drop n) fuel).map (buf.take n :: ·)

inductive Verdict where
  | nomatch | matched | malformed
  deriving Repr, DecidableEq

/-- a record (address ++ [prefix length]) is well-formed iff its prefix length is in 8 .. 8·iplen -/
def recordOk (iplen : Nat) (r : List Byte) : Bool :=
  let m := (r.getD iplen 0).toNat
  8 ≤ m && m ≤ 8 * iplen

/-- first decision wins: a malformed record met before any match is an error -/
def decide1 (iplen : Nat) (addr : List Byte) : List (List Byte) → Verdict
  | [] => .nomatch
  | r :: rs =>
    if !recordOk iplen r then .malformed
    else if inNet addr (r.take iplen) (r.getD iplen 0).toNat then .matched
    else decide1 iplen addr rs

/-- the client address as compared with the records: the last four bytes of the IPv4-mapped
address for IPv4 connections -/
def clientAddr (v4 : Bool) (ip : List Byte) : List Byte := if v4 then ip.drop 12 else ip

/-- meaning of a binary IP list for a client -/
def ipblMeaning (v4 : Bool) (ip buf : List Byte) : Verdict :=
  let iplen := if v4 then 4 else 16
  match records (iplen + 1) buf buf.length with
  | none => .malformed
  | some rs => decide1 iplen (clientAddr v4 ip) rs

/-- strict reading of the statement: *any* invalid size or prefix length is an error -/
def ipblStrict (v4 : Bool) (ip buf : List Byte) : Verdict :=
  let iplen := if v4 then 4 else 16
  match records (iplen + 1) buf buf.length with
  | none => .malformed
  | some rs =>
    if rs.all (recordOk iplen) then
      (if rs.any fun r => inNet (clientAddr v4 ip) (r.take iplen) (r.getD iplen 0).toNat then .matched else .nomatch)
    else .malformed

end QsmtpModel.Spec
