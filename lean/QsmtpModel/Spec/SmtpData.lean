/-
Reference specifications for C06 / C07 (simple, buffer-free) and their executable forms, which the
driver evaluates on the *implementation's* output.  Mathlib-free.

* `normalizeEol`, `normalizeFinal` — CR, LF, CRLF ↦ CRLF (and a final CRLF if missing)
* `dotStuff` / `unDot`            — SMTP transparency (RFC 5321 4.5.2)
* `LegalData`                     — what may be sent between the 354 reply and the final reply
* `qpDecode`                      — strict quoted-printable decoder (RFC 2045 6.7)
-/
import QsmtpModel.Basic

namespace QsmtpModel.Spec
open QsmtpModel

/-! ### line endings -/

def normalizeEol : List Byte → List Byte
  | [] => []
  | [c] => if c = CR ∨ c = LF then [CR, LF] else [c]
  | c :: d :: rest =>
    if c = CR ∧ d = LF then CR :: LF :: normalizeEol rest
    else if c = CR ∨ c = LF then CR :: LF :: normalizeEol (d :: rest)
    else c :: normalizeEol (d :: rest)

def endsLf (l : List Byte) : Bool := l.getLast? == some LF

/-- `normalizeEol` plus a final CRLF when the last line is unterminated -/
def normalizeFinal (m : List Byte) : List Byte :=
  let n := normalizeEol m
  if n.isEmpty || endsLf n then n else n ++ [CR, LF]

/-! ### SMTP transparency -/

/-- double a dot at the beginning of a line (`bol` = at the beginning of a line) -/
def dotStuffAux (bol : Bool) : List Byte → List Byte
  | [] => []
  | c :: rest =>
    if bol ∧ c = DOT then DOT :: DOT :: dotStuffAux false rest
    else c :: dotStuffAux (c = LF) rest

def dotStuff : List Byte → List Byte := dotStuffAux true

/-- remove the first dot of every line that starts with one -/
def unDotAux (bol : Bool) : List Byte → List Byte
  | [] => []
  | c :: rest => if bol ∧ c = DOT then unDotAux false rest else c :: unDotAux (c = LF) rest

def unDot : List Byte → List Byte := unDotAux true

/-! ### legal SMTP data -/

/-- length of a line as RFC 5321 4.5.3.1.6 counts it: without the dot added for transparency -/
def wireLen (l : List Byte) : Nat := if l.head? = some DOT then l.length - 1 else l.length

/-- one line of SMTP data (without its CRLF) -/
def LegalLine (ext8 : Bool) (l : List Byte) : Prop :=
  CR ∉ l ∧ LF ∉ l ∧ l ≠ [DOT] ∧ wireLen l ≤ 998 ∧ (ext8 = false → ∀ b ∈ l, b.toNat < 128)

instance (ext8 : Bool) (l : List Byte) : Decidable (LegalLine ext8 l) := by
  unfold LegalLine; exact inferInstance

/-- `w` = everything sent after the 354 reply, terminator included: CRLF-terminated legal lines
followed by the line `.` -/
def LegalData (ext8 : Bool) (w : List Byte) : Prop :=
  ∃ ls : List (List Byte), w = (ls.map (· ++ [CR, LF])).flatten ++ [DOT, CR, LF] ∧ ∀ l ∈ ls, LegalLine ext8 l

/-- split at every CRLF; the last element is what follows the last CRLF -/
def splitCrlf (cur : List Byte) : List Byte → List (List Byte)
  | [] => [cur.reverse]
  | [c] => [(c :: cur).reverse]
  | c :: d :: rest =>
    if c = CR ∧ d = LF then cur.reverse :: splitCrlf [] rest else splitCrlf (c :: cur) (d :: rest)

/-- executable form of `LegalData`: "holds" or the failing clause -/
def checkLegal (ext8 : Bool) (w : List Byte) : String :=
  let ls := splitCrlf [] w
  match ls.reverse with
  | last :: dot :: body =>
    if last ≠ [] then "fails terminator (data does not end in CRLF)"
    else if dot ≠ [DOT] then "fails terminator (last line is not a single dot)"
    else
      match body.reverse.find? (fun l => ¬ LegalLine ext8 l) with
      | none => "holds"
      | some l =>
        if CR ∈ l ∨ LF ∈ l then "fails bare-CR-or-LF"
        else if l = [DOT] then "fails single-dot-line-before-terminator"
        else if wireLen l > 998 then "fails line-longer-than-998"
        else "fails 8bit-without-8BITMIME"
  | _ => "fails terminator (no CRLF.CRLF)"

/-! ### quoted-printable -/

def unhexUpper (c : Byte) : Option Nat :=
  if 48 ≤ c.toNat ∧ c.toNat ≤ 57 then some (c.toNat - 48)
  else if 65 ≤ c.toNat ∧ c.toNat ≤ 70 then some (c.toNat - 55)
  else none

/-- decoder: `=` CRLF is a soft line break, `=XX` (upper case hex) a byte, CRLF a line break,
TAB and the bytes 32..126 stand for themselves; everything else (bare CR or LF, control and 8-bit
bytes, incomplete or lower-case escapes) is rejected. -/
def qpDecode : List Byte → Option (List Byte)
  | [] => some []
  | c :: rest =>
    if c = 61 then
      match rest with
      | a :: b :: rest' =>
        if a = CR ∧ b = LF then qpDecode rest'
        else match unhexUpper a, unhexUpper b with
          | some x, some y => (qpDecode rest').map (UInt8.ofNat (x * 16 + y) :: ·)
          | _, _ => none
      | _ => none
    else if c = CR then
      match rest with
      | d :: rest' => if d = LF then (qpDecode rest').map (CR :: LF :: ·) else none
      | [] => none
    else if c = TAB ∨ (32 ≤ c.toNat ∧ c.toNat ≤ 126) then (qpDecode rest).map (c :: ·)
    else none

/-- the two rules a decoder cannot undo: an encoded line has at most 76 characters, and it does
not end in a blank (RFC 2045 6.7 rules 3 and 5); `l` = one line without its CRLF, after un-dotting -/
def QpLineOk (l : List Byte) : Prop := l.length ≤ 76 ∧ l.getLast? ≠ some SP ∧ l.getLast? ≠ some TAB

instance (l : List Byte) : Decidable (QpLineOk l) := by unfold QpLineOk; exact inferInstance

/-- executable round-trip check for a body sent by recode_qp(): un-dot, decode, compare with the
normalised original; and the line rules -/
def checkQpBody (orig wire : List Byte) : String :=
  let t := unDot wire
  match qpDecode t with
  | none => "fails quoted-printable-syntax"
  | some d =>
    if d ≠ normalizeEol orig then "fails decoded-body-differs"
    else if (splitCrlf [] t).all (fun l => QpLineOk l) then "holds"
    else "fails qp-line-rule (longer than 76 or trailing blank)"

/-- executable form of the plain identity: un-dotting the data gives the normalised message -/
def checkPlain (orig wire : List Byte) : String :=
  if unDot wire = normalizeEol orig then "holds" else "fails plain-data-differs"

/-! ### whole-message reference decoder (non-multipart), used as the run-time form of C07 -/

def isPrefixCI (lit l : List Byte) : Bool :=
  lit.length ≤ l.length && (l.take lit.length).map lower == lit.map lower

/-- `n` is CRLF-normalised. Header = everything up to and including the CRLF that precedes the
first empty line (all of `n` if there is none); the rest starts with the empty line. -/
def splitHeader (acc : List Byte) (bol : Bool) : List Byte → List Byte × List Byte
  | [] => (acc.reverse, [])
  | [c] => ((c :: acc).reverse, [])
  | c :: d :: rest =>
    if bol ∧ c = CR ∧ d = LF then (acc.reverse, c :: d :: rest)
    else splitHeader (c :: acc) (c = LF) (d :: rest)

/-- the lines of a CRLF-normalised header, each with its CRLF (the last may lack it) -/
def hdrLines (cur : List Byte) : List Byte → List (List Byte)
  | [] => if cur.isEmpty then [] else [cur.reverse]
  | c :: rest => if c = LF then (c :: cur).reverse :: hdrLines [] rest else hdrLines (c :: cur) rest

/-- group continuation lines (starting with SP or TAB) with the field they belong to -/
def hdrFields : List (List Byte) → List (List Byte)
  | [] => []
  | l :: ls =>
    match hdrFields ls with
    | [] => [l]
    | f :: fs =>
      match ls.head? with
      | some nxt => if nxt.head? = some SP ∨ nxt.head? = some TAB then (l ++ f) :: fs else l :: f :: fs
      | none => [l]

def cteName : List Byte := str "content-transfer-encoding:"
def ctName : List Byte := str "content-type:"

/-- expected = original header with the fields named Content-Transfer-Encoding replaced by `ins`
(at the place of the last one; at the top if there is none); `none` if there is more than one -/
def expectHeader (ins : List Byte) (fields : List (List Byte)) : Option (List Byte) :=
  match (fields.filter (isPrefixCI cteName)).length with
  | 0 => some (ins ++ fields.flatten)
  | 1 => some ((fields.map fun f => if isPrefixCI cteName f then ins else f).flatten)
  | _ => none

/-- `out` is `expected` with `CRLF SP` inserted at some places -/
def foldEq : List Byte → List Byte → Bool
  | [], [] => true
  | [], _ :: _ => false
  | _ :: _, [] => false
  | x :: xs, y :: ys =>
    (x = y && foldEq xs ys) ||
    (match ys with
      | l :: s :: ys' => y = CR && l = LF && s = SP && foldEq (x :: xs) ys'
      | _ => false)

def dropWs : List Byte → List Byte
  | [] => []
  | c :: rest => if c = SP ∨ c = TAB ∨ c = CR ∨ c = LF then dropWs rest else c :: rest

def declaresMultipart (fields : List (List Byte)) : Bool :=
  fields.any fun f => isPrefixCI ctName f && isPrefixCI (str "multipart/") (dropWs (f.drop ctName.length))

def findSub (pat : List Byte) : List Byte → Nat → Option Nat
  | [], n => if pat.isEmpty then some n else none
  | c :: rest, n => if pat.isPrefixOf (c :: rest) then some n else findSub pat rest (n + 1)

/-- Run-time form of C07 for non-multipart messages. `marker` = the two header lines recodeheader()
inserts. Un-dot the data; if it carries the marker the body must quoted-printable-decode to the
normalised original body and the header must be the original one with its Content-Transfer-Encoding
field replaced by the marker; otherwise the data must be the normalised original. In both cases
the header may contain additional folds (`CRLF SP`), nothing else. -/
def checkRoundtrip (marker orig wire : List Byte) : String :=
  let term : List Byte := [DOT, CR, LF]
  if wire.length < 3 ∨ wire.drop (wire.length - 3) ≠ term then "fails terminator"
  else
    let d := unDot (wire.take (wire.length - 3))
    let n := normalizeFinal orig
    let (nh, nb) := splitHeader [] true n
    let fields := hdrFields (hdrLines [] nh)
    if declaresMultipart fields then "holds-unchecked (multipart)"
    else
      let (dh, db) := splitHeader [] true d
      match findSub marker dh 0 with
      | none =>
        if ¬ foldEq nh dh then "fails header-differs (no recoding declared)"
        else if db ≠ nb then "fails body-differs (no recoding declared)"
        else "holds"
      | some _ =>
        match expectHeader marker fields with
        | none => "holds-unchecked (several Content-Transfer-Encoding fields)"
        | some eh =>
          if ¬ foldEq eh dh then "fails header-differs (recoded)"
          else match qpDecode db with
            | none => "fails quoted-printable-syntax"
            | some b =>
              if b ≠ nb then "fails decoded-body-differs"
              else if (splitCrlf [] db).all (fun l => QpLineOk l) then "holds"
              else "fails qp-line-rule (longer than 76 or trailing blank)"

end QsmtpModel.Spec
