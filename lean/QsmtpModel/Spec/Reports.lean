/-
Executable form of the C04 predicate, evaluated by the driver on the *implementation's* output
(status bytes, payloads sent, exit status) for the violation search.  Mathlib-free.
It is stated independently of the model `QrProto`: only the report grammar that qmail-rspawn
parses and the SMTP commands the arguments call for.
-/
import QsmtpModel.Basic

namespace QsmtpModel.Spec.Reports
open QsmtpModel

/-- split at NUL; `none` when the last report is not NUL-terminated -/
def splitAux : List Byte → List Byte → List (List Byte) → Option (List (List Byte))
  | [], cur, acc => if cur = [] then some acc.reverse else none
  | b :: rest, cur, acc => if b = 0 then splitAux rest [] (cur.reverse :: acc) else splitAux rest (b :: cur) acc

def splitReports (status : List Byte) : Option (List (List Byte)) := splitAux status [] []

def isRcptLetter (b : Byte) : Bool := b = 114 ∨ b = 115 ∨ b = 104      -- r s h
def isMsgLetter (b : Byte) : Bool := b = 75 ∨ b = 90 ∨ b = 68          -- K Z D

def headIs (p : Byte → Bool) (r : List Byte) : Bool :=
  match r with
  | b :: _ => p b
  | [] => false

def cmdData : List Byte := [68, 65, 84, 65, 13, 10]
def cmdQuit : List Byte := [81, 85, 73, 84, 13, 10]
def dot1 : List Byte := [46, 13, 10]
def dot2 : List Byte := [13, 10, 46, 13, 10]
def mailPfx : List Byte := [77, 65, 73, 76, 32, 70, 82, 79, 77, 58]            -- "MAIL FROM:"
def rcptPfx : List Byte := [82, 67, 80, 84, 32, 84, 79, 58]                    -- "RCPT TO:"

/-- split a byte string into CRLF-terminated lines; `none` if it does not end with CRLF -/
def crlfLinesAux : List Byte → List Byte → List (List Byte) → Option (List (List Byte))
  | [], cur, acc => if cur = [] then some acc.reverse else none
  | 13 :: 10 :: rest, cur, acc => crlfLinesAux rest [] (cur.reverse :: acc)
  | b :: rest, cur, acc => crlfLinesAux rest (b :: cur) acc

def crlfLines (b : List Byte) : Option (List (List Byte)) := crlfLinesAux b [] []

/-- is the final dot sent somewhere after `DATA`? -/
def dotAfterData (sent : List (List Byte)) : Bool :=
  let after := (sent.dropWhile (· ≠ cmdData)).drop 1
  after.any fun p => p = dot1 ∨ p = dot2

/-- the envelope clause: returns the failing reason or `none` -/
def envelopeFails (sender : List Byte) (rcpts : List (List Byte)) (sent : List (List Byte)) : Option String :=
  match crlfLines (sent.filter (fun p => p ≠ [66])).flatten with
  | none => some "a payload does not end with CRLF"
  | some lines =>
    let mails := lines.filter fun l => mailPfx.isPrefixOf l
    let rc := lines.filter fun l => rcptPfx.isPrefixOf l
    if mails.length > 1 then some "MAIL FROM sent more than once"
    else
      let env := (lines.dropWhile fun l => ¬ mailPfx.isPrefixOf l)
      let envRc := (env.drop 1).takeWhile fun l => rcptPfx.isPrefixOf l
      let want := rcpts.map fun r => rcptPfx ++ [60] ++ r ++ [62]
      if mails = [] then (if rc = [] ∧ ¬ sent.contains cmdData then none else some "RCPT TO or DATA without MAIL FROM")
      else
        let m := env.headD []
        let mw := mailPfx ++ [60] ++ sender ++ [62]
        if ¬ (mw.isPrefixOf m ∧ (m.length = mw.length ∨ m[mw.length]? = some 32)) then some "MAIL FROM names a different sender"
        else if envRc.length ≠ rc.length then some "RCPT TO outside the envelope"
        else if ¬ envRc.isPrefixOf want then some "RCPT TO commands differ from the recipients (order, repetition or text)"
        else if sent.contains cmdData ∧ envRc.length ≠ rcpts.length then some "DATA before every RCPT TO"
        else none

def isDigitB (b : Byte) : Bool := 48 ≤ b.toNat ∧ b.toNat ≤ 57

/-- does `t` start with a three digit reply code whose first digit is one of `firsts`? -/
def startsWithCode (firsts : List Byte) (t : List Byte) : Bool :=
  match t with
  | a :: b :: c :: _ => firsts.contains a && isDigitB b && isDigitB c
  | _ => false

/-- "./Remote host said: " -/
def saidMarker : List Byte := [82, 101, 109, 111, 116, 101, 32, 104, 111, 115, 116, 32, 115, 97, 105, 100, 58, 32]

/-- the text behind the first occurrence of `pat` -/
def after (pat : List Byte) : List Byte → Option (List Byte)
  | [] => if pat = [] then some [] else none
  | b :: t => if pat.isPrefixOf (b :: t) then some ((b :: t).drop pat.length) else after pat t

/-- the reply Qremote quotes in a report must belong to the class the letter claims: `s` quotes a
4xx reply, `h` a 3xx/5xx reply, `r` quotes nothing, `K` quotes a 2xx reply behind "Remote host said: " -/
def letterMatchesQuote (r : List Byte) : Bool :=
  match r with
  | 115 :: t => startsWithCode [52] t
  | 104 :: t => startsWithCode [51, 53] t
  | 114 :: t => t = []
  | 75 :: t => match after saidMarker t with
    | some q => startsWithCode [50] q
    | none => false
  | _ => true

/-- "holds" or "fails <clause>" -/
def check (sender : List Byte) (rcpts : List (List Byte)) (exit : Nat) (status : List Byte)
    (sent : List (List Byte)) : String :=
  if exit ≠ 0 then "fails exit-status-not-zero"
  else if status = [] then "fails no-report-written"
  else
    match splitReports status with
    | none => "fails last-report-not-NUL-terminated"
    | some reps =>
      if reps.any (· = []) then "fails empty-report"
      else if reps.any (fun r => ¬ headIs isRcptLetter r ∧ ¬ headIs isMsgLetter r) then "fails unknown-report-letter"
      else
        let msgs := reps.filter (headIs isMsgLetter)
        let rc := reps.filter (headIs isRcptLetter)
        if msgs.length > 1 then "fails more-than-one-message-report"
        else if msgs.length = 1 ∧ ¬ headIs isMsgLetter (reps.getLastD []) then "fails message-report-not-last"
        else if rc.length > rcpts.length then "fails more-recipient-reports-than-recipients"
        else if reps.any (fun r => ¬ letterMatchesQuote r) then "fails letter-does-not-match-the-quoted-reply"
        else if (rc.any (headIs (· = 114)) ∨ rc = []) ∧ msgs = [] then "fails message-report-missing"
        else if msgs.any (headIs (· = 75)) ∧ ¬ dotAfterData sent then "fails K-without-end-of-data"
        else if msgs.any (headIs (· = 75)) ∧ ¬ rc.any (headIs (· = 114)) then "fails K-without-accepted-recipient"
        else if sent.contains cmdData ∧ ¬ rc.any (headIs (· = 114)) then "fails DATA-without-accepted-recipient"
        else
          match envelopeFails sender rcpts sent with
          | some why => "fails envelope-commands: " ++ why
          | none => "holds"

/-! ### the report grammar as a parser (used by the C04 theorems) -/

/-- split at NUL, keeping what was collected in `cur`; `none` when the stream does not end with NUL -/
def splitGo : List Byte → List Byte → Option (List (List Byte))
  | [], cur => if cur = [] then some [] else none
  | b :: rest, cur => if b = 0 then (splitGo rest []).map (cur :: ·) else splitGo rest (cur ++ [b])

/-- every report needs a letter -/
def toPairs : List (List Byte) → Option (List (Byte × List Byte))
  | [] => some []
  | [] :: _ => none
  | (c :: t) :: rest => (toPairs rest).map ((c, t) :: ·)

/-- the status stream as the list of its reports `(letter, text)`; `none` if it is not a sequence of
non-empty NUL-terminated reports -/
def parse (status : List Byte) : Option (List (Byte × List Byte)) := (splitGo status []).bind toPairs

/-- the inverse of `parse` -/
def render (rs : List (Byte × List Byte)) : List Byte := (rs.map fun r => r.1 :: r.2 ++ [0]).flatten

end QsmtpModel.Spec.Reports
