/-
Executable form of the C19 predicates, evaluated by the driver on the *implementation's* output
(violation search) and used as the specification side of the theorems in Props/C19.lean.
Mathlib-free.
-/
import QsmtpModel.Basic
import QsmtpModel.Bdat

namespace QsmtpModel.Spec.Bdat
open QsmtpModel QsmtpModel.Bdat

/-- the receiver's specification: every CRLF becomes LF, nothing else changes -/
def crlfToLf : List Byte → List Byte
  | [] => []
  | [b] => [b]
  | a :: b :: t => if a = CR ∧ b = LF then LF :: crlfToLf t else a :: crlfToLf (b :: t)

/-- the sender's specification for messages without a bare CR: every LF that does not follow a CR
gets one. `prev` = the byte before was CR. -/
def normalizeLf (prev : Bool) : List Byte → List Byte
  | [] => []
  | b :: t => (if b = LF ∧ ¬ prev then [CR, LF] else [b]) ++ normalizeLf (b = CR) t

/-- `out` is `m` with every bare LF completed to CRLF, where in addition a bare CR (a CR that is not
followed by LF) may have been completed to CRLF. -/
def normOk (prev : Bool) : List Byte → List Byte → Bool
  | [], out => out.isEmpty
  | b :: t, out =>
    if b = LF ∧ ¬ prev then
      match out with
      | x :: y :: o => x = CR ∧ y = LF ∧ normOk false t o
      | _ => false
    else
      match out with
      | [] => false
      | x :: o =>
        x = b ∧
          (if b = CR ∧ t.head? ≠ some LF then
            (match o with
              | y :: o' => y = LF ∧ normOk false t o'
              | [] => false) || normOk true t o
          else normOk (b = CR) t o)

/-- the frame header as it must appear on the wire: `BDAT <n>[ LAST]\r\n`, n in decimal -/
def hdrBytes (n : Nat) (last : Bool) : List Byte :=
  bdatSp ++ dec n ++ (if last then lastCrlf else [CR, LF])

/-- the frames for a list of payloads: LAST on the final one and only there -/
def framesOf : List (List Byte) → List (List Byte)
  | [] => []
  | [p] => [hdrBytes p.length true ++ p]
  | p :: q :: rest => (hdrBytes p.length false ++ p) :: framesOf (q :: rest)

structure Frame where
  n : Nat
  last : Bool
  pay : List Byte
  deriving Repr

def lastSp : List Byte := [32, 76, 65, 83, 84]   -- " LAST"

/-- `BDAT <n>[ LAST] CRLF <payload>`; n in canonical decimal -/
def parseFrame (f : List Byte) : Option Frame :=
  if f.take 5 ≠ bdatSp then none
  else
    let r := f.drop 5
    let ds := r.takeWhile isDigit
    let r := r.dropWhile isDigit
    if ds = [] ∨ (ds.length > 1 ∧ ds.head? = some 48) then none
    else
      let last := r.take 5 = lastSp
      let r := if last then r.drop 5 else r
      if r.take 2 ≠ [CR, LF] then none
      else some ⟨decVal ds, last, r.drop 2⟩

/-- all but the final frame without LAST, the final one with -/
def lastFlagsOk : List Frame → Bool
  | [] => false
  | [f] => f.last
  | f :: rest => !f.last && lastFlagsOk rest

/-- verdict on what the sender put on the wire. `fin`: "done" / "shutdown" / anything else. -/
def checkTx (cs : Nat) (m : List Byte) (fin : String) (nreply : Nat) (frames : List (List Byte)) : String :=
  if ¬ fitsHeader cs ∨ m = [] then "holds (outside the precondition: chunk size fits a header, message not empty)"
  else if fin ≠ "done" ∧ fin ≠ "shutdown" then "fails termination"
  else match frames.mapM parseFrame with
    | none => "fails frame-syntax"
    | some fs =>
      if ¬ fs.all (fun f => f.n = f.pay.length) then "fails announced-length"
      else if ¬ (fs.all (fun f => f.pay.length + lenlenOf cs ≤ cs) ∧ frames.all (fun f => f.length ≤ cs)) then "fails chunk-size"
      else if fin = "done" then
        if ¬ lastFlagsOk fs then "fails last-flag"
        else if nreply + 1 ≠ fs.length then "fails reply-awaited-per-chunk"
        else if ¬ normOk false m (fs.map (·.pay)).flatten then "fails payload-is-normalised-message"
        else "holds"
      else
        if fs.any (·.last) then "fails last-flag"
        else if nreply ≠ fs.length then "fails reply-awaited-per-chunk"
        else "holds"

/-- receiver events as far as the predicate needs them -/
inductive RxTok where
  | ret (r : Int)
  | env (sz : Nat) (data : List Byte)
  | other

/-- returns that mean "this BDAT command failed" (a syntax error in the command, EINVAL, concerns no chunk) -/
def isFailure (r : Int) : Bool := r ≠ 0 ∧ r ≠ (EINVAL : Int)

def stickyOk (failed : Bool) : List RxTok → Bool
  | [] => true
  | .ret r :: t => stickyOk (failed || isFailure r) t
  | .env _ _ :: t => !failed && stickyOk failed t
  | .other :: t => stickyOk failed t

/-- `wf`: 1 = the stream is a well-formed BDAT sequence ending in LAST and nothing fails: exactly one
hand-off, exact; 2 = well-formed but queue-side faults injected: a hand-off, if any, is exact;
0 = anything else: only stickiness. -/
def checkRx (wf : Nat) (chunks : List (List Byte)) (toks : List RxTok) : String :=
  if ¬ stickyOk false toks then "fails failure-sticky"
  else
    let envs := toks.filterMap fun | .env sz d => some (sz, d) | _ => none
    if wf = 0 then "holds"
    else if wf = 1 ∧ envs.length ≠ 1 then "fails exactly-one-handoff"
    else if envs.length > 1 then "fails exactly-one-handoff"
    else match envs with
      | [] => "holds"
      | (sz, d) :: _ =>
        if d ≠ crlfToLf chunks.flatten then "fails queued-message-is-crlfToLf-of-chunks"
        else if sz ≠ chunks.flatten.length then "fails size-is-octet-count"
        else "holds"

/-- a connection with several transactions: `txs` = the chunk lists of exactly those transactions that
are completed with LAST and must be queued (abandoned or failed ones hand nothing off). The hand-offs
must be, in order, `crlfToLf` of each one's own chunks with its own octet count. -/
def checkRxSeq (txs : List (List (List Byte))) (toks : List RxTok) : String :=
  let envs := toks.filterMap fun | .env sz d => some (sz, d) | _ => none
  if envs.length ≠ txs.length then "fails one-handoff-per-completed-transaction"
  else if envs.map (·.2) ≠ txs.map (fun t => crlfToLf t.flatten) then
    "fails queued-message-depends-only-on-own-chunks"
  else if envs.map (·.1) ≠ txs.map (fun t => t.flatten.length) then "fails size-is-octet-count"
  else "holds"

end QsmtpModel.Spec.Bdat
