/-
Reference specification of the reply to the end of message data as a function of what the kernel
answered on the queue side (C03), written over the syscall oracle trace alone (plus the length of
every write that was issued).  Executable: the driver evaluates it on the implementation's
recorded trace and reply.  Mathlib-free.
-/
import QsmtpModel.Queue

namespace QsmtpModel.Spec
open QsmtpModel QsmtpModel.Queue

/-- the first thing that went wrong -/
inductive AckFault where
  | setup                 -- no pipe, no child, or the child was gone at the probe
  | io (e : Err)          -- a write that did not take everything (short = EPIPE) or a failed close
  | status (w : WaitR)    -- everything was written; qmail-queue did not exit with 0
  deriving Repr, DecidableEq

/-- walk the trace in call order. `skip`: closes whose result the code ignores (the two read ends
that the parent closes right after fork). `lens`: length of each write issued, in order. -/
def firstFault : List Sys → List Nat → Nat → Option AckFault
  | [], _, _ => none
  | .pipe ok :: t, ls, k => if ok then firstFault t ls k else some .setup
  | .fork ok :: t, ls, _ => if ok then firstFault t ls 2 else some .setup
  | .probe r :: t, ls, k => if r = 0 then firstFault t ls k else some .setup
  | .close ok e :: t, ls, k =>
    if k > 0 then firstFault t ls (k - 1) else if ok then firstFault t ls 0 else some (.io e)
  | .write r e :: t, n :: ns, k =>
    if r = (n : Int) then firstFault t ns k else some (.io (if r ≥ 0 then .epipe else e))
  | .write _ _ :: _, [], _ => some (.io .epipe)
  | .wait w :: _, _, _ =>
    match w with
    | .exited 0 => none
    | w => some (.status w)

/-- the reply the client must see after the end of data (for a message that is acceptable as such) -/
def ackExpected (sys : List Sys) (lens : List Nat) : Nat :=
  match firstFault sys lens 0 with
  | none => 250
  | some .setup => 451
  | some (.io .enospc) => 552
  | some (.io .efbig) => 552
  | some (.io .emsgsize) => 552
  | some (.io .e2big) => 500
  | some (.io .enomem) => 452
  | some (.io .einval) => 500
  | some (.io _) => 451
  | some (.status (.exited c)) => if Gen.queuePermLo ≤ c ∧ c ≤ Gen.queuePermHi then 554 else 451
  | some (.status _) => 451

def checkAck (code : Nat) (sys : List Sys) (lens : List Nat) : String :=
  let want := ackExpected sys lens
  if code = want then "holds"
  else if code / 100 = 2 then s!"fails acknowledged-although-something-failed (expected {want})"
  else if want = 250 then s!"fails refused-although-all-was-written-and-qmail-queue-exited-0 (got {code})"
  else s!"fails reply-class (got {code}, expected {want})"

end QsmtpModel.Spec
