/-
C17 at the level of what a peer, the queue and a state probe can observe — no model involved.
`check` is evaluated by the driver on the *implementation's* sessions (op `chk_stls`).

Observation stream of one session (client order; `T` entries are the server-side state probes, taken
every time the server blocks for input, in their own order):
  H/<cert usable>/<cert found>/<port 465>        scenario
  S/<c|t>/<hex line>                             a line the client sent (clear / inside TLS)
  R/<c|t>/<code>/<offers STARTTLS>               a complete reply the client received
  K/<1|0>                                        the client's handshake completed / failed
  Q/<hex envelope>                               qmail-queue was handed a message (right after its 250)
  F                                              the server process was stopped by the sanitizer
  T/<ssl>/<comstate hex>/<sender set>/<rcptcount>/<goodrcpt>
-/
import QsmtpModel.Basic

namespace QsmtpModel.Spec.StartTlsSrv
open QsmtpModel

inductive Obs where
  | hdr (certUsable certFound p465 : Bool)
  | sent (tls : Bool) (line : List Byte)
  | reply (tls : Bool) (code : Nat) (offer : Bool)
  | hs (ok : Bool)
  | handoff (env : List Byte)
  | state (ssl : Bool) (comstate : Nat) (sender : Bool) (rcptcount goodrcpt : Nat)
  | fault                                  -- the server was stopped by the sanitizer (memory fault)
  deriving Repr, DecidableEq

/-- case-insensitive "line starts with verb" -/
def hasVerb (verb line : List Byte) : Bool :=
  (line.take verb.length).map lower == verb.map lower

def vEHLO : List Byte := [101, 104, 108, 111]
def vHELO : List Byte := [104, 101, 108, 111]
def vSTARTTLS : List Byte := [115, 116, 97, 114, 116, 116, 108, 115]
def vMAIL : List Byte := [109, 97, 105, 108, 32, 102, 114, 111, 109, 58]
def vRCPT : List Byte := [114, 99, 112, 116, 32, 116, 111, 58]
def vDATA : List Byte := [100, 97, 116, 97]
def vRSET : List Byte := [114, 115, 101, 116]

/-- the address between `<` and `>` (lower-cased as Qsmtpd stores it), [] if none -/
def bracketed (l : List Byte) : List Byte :=
  (((l.dropWhile (· ≠ 60)).drop 1).takeWhile (· ≠ 62)).map lower

structure St where
  certUsable : Bool := true
  certFound : Bool := true
  p465 : Bool := false
  tlsUp : Bool := false                 -- the client saw a complete handshake
  hsFailed : Bool := false              -- the client saw a handshake fail
  pendC : List (List Byte) := []        -- clear-text lines not yet answered
  pendT : List (List Byte) := []        -- lines inside TLS not yet answered
  inData : Bool := false                -- client is sending message lines
  esmtpC : Bool := false                -- last accepted greeting in clear text was EHLO
  greetedT : Bool := false              -- HELO/EHLO accepted inside TLS
  senderT : Option (List Byte) := none  -- sender accepted inside TLS
  rcptsT : List (List Byte) := []       -- recipients accepted inside TLS
  dataT : Bool := false                 -- the message just acknowledged was sent inside TLS
  lastSsl : Bool := false               -- ssl flag of the previous state probe
  sawSsl : Bool := false
  prev : Option (Bool × Nat × Bool × Nat × Nat) := none   -- the previous state probe
  failPending : Bool := false           -- a handshake failed since the previous state probe
  deriving Repr

/-- `F sender NUL (T rcpt NUL)* NUL` → sender, recipients -/
def parseEnv (e : List Byte) : Option (List Byte × List (List Byte)) :=
  match e with
  | 70 :: rest =>
    let sender := rest.takeWhile (· ≠ 0)
    let rec go (fuel : Nat) (r : List Byte) (acc : List (List Byte)) : Option (List (List Byte)) :=
      match fuel with
      | 0 => none
      | fuel + 1 =>
        match r with
        | [0] => some acc.reverse
        | 84 :: r' => go fuel ((r'.dropWhile (· ≠ 0)).drop 1) ((r'.takeWhile (· ≠ 0)).map lower :: acc)
        | _ => none
    (go (rest.length + 1) ((rest.dropWhile (· ≠ 0)).drop 1) []).map fun rs => (sender.map lower, rs)
  | _ => none

/-- the effect of one (line, reply code) pair -/
def onPair (st : St) (tls : Bool) (line : List Byte) (code : Nat) (offer : Bool) : Except String St :=
  if tls then
    if hasVerb vSTARTTLS line && code == 220 then .error "starttls_when:accepted-inside-tls"
    else if offer then .error "starttls_when:offered-inside-tls"
    else if (hasVerb vEHLO line || hasVerb vHELO line) && code == 250 then
      .ok { st with greetedT := true, senderT := none, rcptsT := [] }
    else if hasVerb vMAIL line && code == 250 then
      if !st.greetedT then .error "state_reset:mail-accepted-without-new-greeting"
      else .ok { st with senderT := some (bracketed line), rcptsT := [] }
    else if hasVerb vRCPT line && code == 250 then
      if st.senderT.isNone then .error "state_reset:rcpt-accepted-without-new-mail"
      else .ok { st with rcptsT := st.rcptsT ++ [bracketed line] }
    else if hasVerb vDATA line && code == 354 then
      if st.senderT.isNone || st.rcptsT.isEmpty then .error "state_reset:data-accepted-without-new-transaction"
      else .ok { st with inData := true }
    else if hasVerb vRSET line && code == 250 then .ok { st with senderT := none, rcptsT := [] }
    else if line == [DOT] then .ok { st with dataT := code == 250 }
    else .ok st
  else
    if hasVerb vSTARTTLS line && code == 220 then
      if !st.esmtpC then .error "starttls_when:accepted-without-ehlo"
      else if !st.certUsable then .error "starttls_when:accepted-without-certificate"
      else .ok st
    else if hasVerb vEHLO line && code == 250 then
      if offer != (st.certFound && !st.p465) then .error "starttls_when:offer-differs-from-certificate-presence"
      else .ok { st with esmtpC := true }
    else if hasVerb vHELO line && code == 250 then .ok { st with esmtpC := false }
    else if hasVerb vDATA line && code == 354 then .ok { st with inData := true }
    else if line == [DOT] then .ok { st with dataT := false }
    else .ok st

def step (st : St) : Obs → Except String St
  | .hdr u f p => .ok { st with certUsable := u, certFound := f, p465 := p }
  | .fault => .error "no_fault:memory-fault-in-the-server"
  | .sent tls line =>
    if tls && !st.tlsUp then .error "harness:tls-line-without-handshake"
    else if st.inData then
      if line == [DOT] then
        .ok (if tls then { st with inData := false, pendT := st.pendT ++ [line] } else { st with inData := false, pendC := st.pendC ++ [line] })
      else .ok st
    else .ok (if tls then { st with pendT := st.pendT ++ [line] } else { st with pendC := st.pendC ++ [line] })
  | .reply tls code offer =>
    -- a state probe stays comparable across a failed handshake only if nothing but the handshake happened since
    let st := if code != 220 && code != 454 then { st with prev := none } else st
    if tls then
      if !st.tlsUp then .error "failed_handshake_inert:reply-inside-tls-without-handshake"
      else match st.pendT with
        | [] => .error "no_cleartext_survives:reply-inside-tls-without-command-inside-tls"
        | l :: rest => onPair { st with pendT := rest } true l code offer
    else
      if st.tlsUp then .error "no_cleartext_survives:clear-text-reply-after-handshake"
      else match st.pendC with
        | [] => .ok st                          -- greeting, 550 "wait for my reply"
        | l :: rest => onPair { st with pendC := rest } false l code offer
  | .hs ok =>
    if ok then
      if st.tlsUp then .error "starttls_when:second-handshake"
      else .ok { st with tlsUp := true, pendC := [], inData := false }
    else .ok { st with hsFailed := true, failPending := true }
  | .handoff env =>
    if st.dataT then
      match parseEnv env with
      | none => .error "harness:envelope-unparsable"
      | some (sender, rcpts) =>
        if st.senderT != some sender then .error "state_reset:queued-sender-not-from-tls-session"
        else if !rcpts.all (fun r => st.rcptsT.contains r) then .error "state_reset:queued-recipient-not-from-tls-session"
        else .ok { st with senderT := none, rcptsT := [], dataT := false }
    else .ok st
  | .state ssl comstate sender rcptcount goodrcpt =>
    if st.lastSsl && !ssl then .error "failed_handshake_inert:ssl-flag-dropped"
    else if ssl && !st.lastSsl && !(comstate == 1 && !sender && rcptcount == 0 && goodrcpt == 0) then
      .error "state_reset:state-kept-across-handshake"
    else if st.failPending && st.prev.isSome && st.prev != some (ssl, comstate, sender, rcptcount, goodrcpt) then
      .error "failed_handshake_inert:state-changed-by-failed-handshake"
    else .ok { st with lastSsl := ssl, sawSsl := st.sawSsl || ssl, failPending := false,
                       prev := some (ssl, comstate, sender, rcptcount, goodrcpt) }

def finalCheck (st : St) : Except String Unit :=
  if st.sawSsl && !st.tlsUp then .error "failed_handshake_inert:ssl-set-though-handshake-not-completed"
  else .ok ()

def runObs (os : List Obs) : Except String Unit := do
  let st ← os.foldlM step {}
  finalCheck st

/-! ### parsing of the observation tokens (driver side) -/

def b01 : String → Option Bool
  | "0" => some false | "1" => some true | _ => none

def hexNat? (s : String) : Option Nat :=
  s.toList.foldlM (fun acc c => (hexVal c).map (acc * 16 + ·)) 0

def obsOf (tok : String) : Option Obs :=
  match tok.splitOn "/" with
  | ["H", u, f, p] => do pure (.hdr (← b01 u) (← b01 f) (← b01 p))
  | ["S", ch, l] => do
    let tls ← match ch with | "t" => some true | "c" => some false | _ => none
    let line ← if l = "_" then some [] else fromHex l
    pure (.sent tls line)
  | ["R", ch, code, off] => do
    let tls ← match ch with | "t" => some true | "c" => some false | _ => none
    pure (.reply tls (← code.toNat?) (← b01 off))
  | ["K", ok] => do pure (.hs (← b01 ok))
  | ["F"] => some .fault
  | ["Q", e] => do pure (.handoff (← fromHex e))
  | ["T", ssl, cs, snd, rc, gr] => do
    pure (.state (← b01 ssl) (← hexNat? cs) (← b01 snd) (← rc.toNat?) (← gr.toNat?))
  | _ => none

/-- `holds` or `fails <clause>` -/
def check (toks : List String) : String :=
  match toks.mapM obsOf with
  | none => "bad-op"
  | some os =>
    match runObs os with
    | .ok _ => "holds"
    | .error c => "fails " ++ c

end QsmtpModel.Spec.StartTlsSrv
