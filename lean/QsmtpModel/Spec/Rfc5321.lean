/-
Reference specification of a well-formed mailbox (property C14), written from RFC 5321 §4.1.2/§4.1.3
and RFC 5322 §3.2.4/§4.1 — independent of the C code.  Everything is a `Bool` function of plain
recursion over byte lists, so the same definitions serve as the statement of the theorems
(`… = true`) and as the executable predicate the driver evaluates on the implementation's output.
Mathlib-free.
-/
import QsmtpModel.Basic

namespace QsmtpModel.Spec
open QsmtpModel

def isLetter (c : Byte) : Bool := (65 ≤ c.toNat && c.toNat ≤ 90) || (97 ≤ c.toNat && c.toNat ≤ 122)
def isDigitC (c : Byte) : Bool := 48 ≤ c.toNat && c.toNat ≤ 57
/-- Let-dig-hyp -/
def isLDH (c : Byte) : Bool := isLetter c || isDigitC c || c == 45

/-- RFC 5322 atext: ALPHA / DIGIT / ! # $ % & ' * + - / = ? ^ _ ` { | } ~ -/
def isAtext (c : Byte) : Bool :=
  isLetter c || isDigitC c || [33, 35, 36, 37, 38, 39, 42, 43, 45, 47, 61, 63, 94, 95, 96, 123, 124, 125, 126].contains c

/-- split at every occurrence of `sep` (always at least one piece) -/
def splitOn (sep : Byte) : List Byte → List (List Byte)
  | [] => [[]]
  | c :: cs =>
    if c = sep then [] :: splitOn sep cs
    else match splitOn sep cs with
      | l :: ls => (c :: l) :: ls
      | [] => [[c]]

/-- Fully-qualified host name: at least two labels, each of 1..63 letters, digits or hyphens,
at most 255 octets overall, the final label of at least two characters and not all-numeric. -/
def fqdnB (h : List Byte) : Bool :=
  let labels := splitOn 46 h
  decide (2 ≤ labels.length) && decide (h.length ≤ 255) &&
  labels.all (fun l => decide (1 ≤ l.length) && decide (l.length ≤ 63) && l.all isLDH) &&
  (match labels.getLast? with
   | some l => decide (2 ≤ l.length) && l.any (fun c => !isDigitC c)
   | none => false)

def fqdn (h : List Byte) : Prop := fqdnB h = true

/-- Dot-string = Atom *("." Atom) -/
def dotStringB (l : List Byte) : Bool :=
  (splitOn 46 l).all (fun a => !a.isEmpty && a.all isAtext)

def dotString (l : List Byte) : Prop := dotStringB l = true

/-- qtext (33, 35-91, 93-126) and obs-qtext = obs-NO-WS-CTL (1-8, 11, 12, 14-31, 127) -/
def isQtext (c : Byte) : Bool :=
  c.toNat = 33 || (35 ≤ c.toNat && c.toNat ≤ 91) || (93 ≤ c.toNat && c.toNat ≤ 126) ||
  (1 ≤ c.toNat && c.toNat ≤ 8) || c.toNat = 11 || c.toNat = 12 || (14 ≤ c.toNat && c.toNat ≤ 31) || c.toNat = 127

/-- what a backslash may quote (RFC 5321 quoted-pairSMTP: %d32-126) -/
def isQpChar (c : Byte) : Bool := 32 ≤ c.toNat && c.toNat ≤ 126

/-- *QcontentSMTP: qtext, or backslash followed by a quotable character -/
def qcontent : List Byte → Bool
  | [] => true
  | c :: rest =>
    if c = 92 then
      match rest with
      | e :: rest' => isQpChar e && qcontent rest'
      | [] => false
    else isQtext c && qcontent rest

/-- Quoted-string = DQUOTE *QcontentSMTP DQUOTE -/
def quotedStringB (l : List Byte) : Bool :=
  match l with
  | c :: rest => c == 34 && rest.getLast? == some 34 && qcontent rest.dropLast
  | [] => false

def quotedString (l : List Byte) : Prop := quotedStringB l = true

def localPartB (l : List Byte) : Bool := dotStringB l || quotedStringB l

/-- decimal value of a digit string -/
def decVal (s : List Byte) : Nat := s.foldl (fun a c => a * 10 + (c.toNat - 48)) 0

/-- IPv4-address-literal = Snum 3("." Snum), Snum = 1*3DIGIT with value 0..255 -/
def ipv4B (s : List Byte) : Bool :=
  let parts := splitOn 46 s
  decide (parts.length = 4) &&
  parts.all (fun p => decide (1 ≤ p.length) && decide (p.length ≤ 3) && p.all isDigitC && decide (decVal p ≤ 255))

def isHexC (c : Byte) : Bool :=
  isDigitC c || (65 ≤ c.toNat && c.toNat ≤ 70) || (97 ≤ c.toNat && c.toNat ≤ 102)

def hexGroupB (g : List Byte) : Bool := decide (1 ≤ g.length) && decide (g.length ≤ 4) && g.all isHexC

/-- number of 16-bit groups a list of pieces stands for (the last piece may be an IPv4 address);
`none` if a piece is malformed -/
def v6Groups : List (List Byte) → Option Nat
  | [] => some 0
  | [g] => if hexGroupB g then some 1 else if ipv4B g then some 2 else none
  | g :: gs => if hexGroupB g then (v6Groups gs).map (· + 1) else none

/-- the pieces on one side of "::" (empty side = no pieces) -/
def v6Side (s : List Byte) : Option Nat := if s.isEmpty then some 0 else v6Groups (splitOn 58 s)

/-- position of the first "::" -/
def findDColon : List Byte → Option Nat
  | 58 :: 58 :: _ => some 0
  | _ :: rest => (findDColon rest).map (· + 1)
  | [] => none

/-- IPv6 text form (RFC 4291 §2.2, which is what RFC 5321's IPv6-addr abbreviates): eight groups
of 1..4 hex digits, the last two optionally in IPv4 notation; or one "::" standing for at least one
group of zeros. -/
def ipv6B (s : List Byte) : Bool :=
  match findDColon s with
  | none => v6Side s == some 8 && !s.isEmpty
  | some i =>
    match v6Side (s.take i), v6Side (s.drop (i + 2)) with
    | some a, some b =>
      -- the left side must not carry the IPv4 form: it is only allowed at the very end
      decide (a + b ≤ 7) && ((s.take i).all (· != 46))
    | _, _ => false

def lit4 : List Byte := [91]                              -- "["
def lit6 : List Byte := [91, 73, 80, 118, 54, 58]         -- "[IPv6:"

/-- address-literal = "[" ( IPv4-address-literal / "IPv6:" IPv6-addr ) "]" -/
def addressLiteralB (d : List Byte) : Bool :=
  d.getLast? == some 93 &&
  ((d.take 6 == lit6 && ipv6B ((d.drop 6).dropLast)) || (d.take 1 == lit4 && ipv4B ((d.drop 1).dropLast)))

/-- Mailbox = Local-part "@" ( Domain / address-literal ), split at the '@' at offset `i` -/
def mailboxAtB (m : List Byte) (i : Nat) : Bool :=
  m[i]? == some 64 && localPartB (m.take i) && (fqdnB (m.drop (i + 1)) || addressLiteralB (m.drop (i + 1)))

def rfc5321MailboxB (m : List Byte) : Bool := (List.range m.length).any (mailboxAtB m)

def rfc5321Mailbox (m : List Byte) : Prop := rfc5321MailboxB m = true

/-- "contains no NUL, CR, LF or 8-bit character" -/
def cleanB (l : List Byte) : Bool := l.all (fun c => c != 0 && c != 13 && c != 10 && decide (c.toNat < 128))

/-- every double quote strictly inside `l` (i.e. not the first or last byte) is preceded by an
unconsumed backslash — evaluated on the content of a quoted string -/
def noUnescapedQuote : List Byte → Bool
  | [] => true
  | c :: rest =>
    if c = 92 then
      match rest with
      | _ :: rest' => noUnescapedQuote rest'
      | [] => false
    else c != 34 && noUnescapedQuote rest

/-! ### source route and the result of addrsyntax -/

def lowerAll (l : List Byte) : List Byte := l.map lower

def postmasterBytes : List Byte := [112, 111, 115, 116, 109, 97, 115, 116, 101, 114]

/-- a source route `@d1,@d2,...,@dn:` (the argument is the text before the colon) -/
def routeB (r : List Byte) : Bool :=
  (splitOn 44 r).all (fun e => match e with
    | c :: d => c == 64 && fqdnB d
    | [] => false)

/-- index of the first occurrence -/
def indexOf (c : Byte) : List Byte → Option Nat
  | [] => none
  | x :: xs => if x = c then some 0 else (indexOf c xs).map (· + 1)

/-- What a successful `addrsyntax(in, flags, &addr, &more)` must have done.
`input` is the C string at `in`; `ret > 0`. -/
def addrsyntaxOkB (flags : Nat) (input : List Byte) (ret : Nat) (addr : Option (List Byte)) (more : Option Nat) : Bool :=
  -- the source route, if there has to be one
  let routeLen : Option Nat :=
    if flags = 1 ∧ input.head? = some 64 then
      match indexOf 58 input with
      | some k => if routeB (input.take k) && decide (k + 1 ≤ 256) then some (k + 1) else none
      | none => none
    else some 0
  match routeLen with
  | none => false
  | some rl =>
    let rest := input.drop rl
    match indexOf 62 rest with
    | none => false
    | some len =>
      let mbox := rest.take len
      let tail := rest.drop (len + 1)
      addr == some (lowerAll mbox) &&
      more == (if tail.isEmpty then none else some (rl + len + 1)) &&
      ((flags == 0 && mbox.isEmpty && ret == 1) ||
       (flags == 1 && lowerAll mbox == postmasterBytes && ret == 1) ||
       ((List.range mbox.length).any (fun i => mailboxAtB mbox i && fqdnB (mbox.drop (i + 1))) && ret == 3) ||
       ((List.range mbox.length).any (fun i => mailboxAtB mbox i && addressLiteralB (mbox.drop (i + 1))) && ret == 4))

/-! ### xtext (RFC 3461 §4 / RFC 4954 AUTH= parameter) -/

def isHexUpperC (c : Byte) : Bool := isDigitC c || (65 ≤ c.toNat && c.toNat ≤ 70)

def hexValC (c : Byte) : Nat := if c.toNat ≤ 57 then c.toNat - 48 else c.toNat - 55

/-- decode xtext: xchar = %d33-42 / %d44-60 / %d62-126, hexchar = "+" 2(%x30-39 / %x41-46) -/
def xtextDecode : List Byte → Option (List Byte)
  | [] => some []
  | c :: rest =>
    if c = 43 then
      match rest with
      | a :: b :: rest' =>
        if isHexUpperC a && isHexUpperC b then
          (xtextDecode rest').map (UInt8.ofNat (hexValC a * 16 + hexValC b) :: ·)
        else none
      | _ => none
    else if 33 ≤ c.toNat ∧ c.toNat ≤ 126 ∧ c ≠ 61 then (xtextDecode rest).map (c :: ·)
    else none

/-- What `xtextlen(str) = n ≥ 0` must mean: the first `n` bytes of the C string are well-formed
xtext, they end at a blank or at the end, and they decode to nothing, to `<>` or to a mailbox. -/
def xtextOkB (input : List Byte) (n : Nat) : Bool :=
  decide (n ≤ input.length) &&
  (match input[n]? with
   | none => true
   | some c => c == 32) &&
  (match xtextDecode (input.take n) with
   | none => false
   | some d => d.isEmpty || d == [60, 62] || rfc5321MailboxB d)

end QsmtpModel.Spec
