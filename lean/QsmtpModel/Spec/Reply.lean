/-
Executable form of the C10 reply predicate, evaluated by the driver on the *implementation's*
output (violation search).  Mathlib-free.
-/
import QsmtpModel.Basic

namespace QsmtpModel.Spec
open QsmtpModel

/-- content of a reply line `code sep content CRLF`, if it has that shape for the given code and
separator and respects the 512 octet limit -/
def lineContent (code : List Byte) (sep : Byte) (line : List Byte) : Option (List Byte) :=
  if line.length ≤ 512 ∧ 6 ≤ line.length ∧ line.take 3 = code ∧ line[3]? = some sep
      ∧ line.drop (line.length - 2) = [CR, LF] then
    some ((line.drop 4).take (line.length - 6))
  else none

def contents (code : List Byte) (last : Byte) : List (List Byte) → Option (List (List Byte))
  | [] => none
  | [l] => (lineContent code last l).map ([·])
  | l :: rest => do
    let c ← lineContent code DASH l
    let cs ← contents code last rest
    pure (c :: cs)

/-- "holds" / failing clause -/
def checkReply (s0 text : List Byte) (out : List (List Byte)) : String :=
  match s0[3]? with
  | none => "fails precondition"
  | some c =>
    match contents (s0.take 3) c out with
    | none => "fails line-shape (code, separator, CRLF or 512 octet limit)"
    | some cs =>
      if cs.flatten ≠ text then "fails text-complete-in-order"
      else if (text.all fun b => b ≠ CR ∧ b ≠ LF) ∧ ¬ (cs.all fun x => x.all fun b => b ≠ CR ∧ b ≠ LF) then
        "fails bare-CR-or-LF"
      else "holds"

end QsmtpModel.Spec
