/-
Reference specification of the queue hand-off (C02), written without looking at data.c: what
qmail-queue must have received for an acknowledged transaction, as a function of what the client
sent (data lines, sender, accepted recipients).  Executable (`checkHandoff`), evaluated by the
driver on the *implementation's* hand-off.  Mathlib-free.
-/
import QsmtpModel.Basic

namespace QsmtpModel.Spec
open QsmtpModel

/-- one data line as it must appear in the queued message: leading dot removed, LF appended -/
def queuedLine (l : List Byte) : List Byte :=
  (match l with
   | 46 :: rest => rest
   | _ => l) ++ [LF]

/-- the client's data lines (without the terminating "." line) as queued -/
def queuedLines (ls : List (List Byte)) : List Byte := (ls.map queuedLine).flatten

/-- case-insensitive prefix test -/
def hasPrefixNoCase (name line : List Byte) : Bool :=
  line.length ≥ name.length && (line.take name.length).map lower == name.map lower

/-- the header block: the lines in front of the first empty line -/
def headerBlock (ls : List (List Byte)) : List (List Byte) := ls.takeWhile (fun l => !l.isEmpty)

/-- the content of a data line: what is left when the dot added for transparency is removed -/
def dataLineContent (l : List Byte) : List Byte :=
  match l with
  | 46 :: rest => rest
  | _ => l

/-- a field is present when the content of a line of the header block starts with its name -/
def fieldPresent (name : List Byte) (ls : List (List Byte)) : Bool :=
  (headerBlock ls).any fun l => hasPrefixNoCase name (dataLineContent l)

def nameDate : List Byte := [68, 97, 116, 101, 58]
def nameFrom : List Byte := [70, 114, 111, 109, 58]
def nameMsgid : List Byte := [77, 101, 115, 115, 97, 103, 101, 45, 73, 100, 58]

/-- what a submission server may add: Date, From, Message-Id, each only when absent -/
def submissionAdds (date sender msgidTime msgidhost : List Byte) (ls : List (List Byte)) : List Byte :=
  (if fieldPresent nameDate ls then [] else nameDate ++ [32] ++ date ++ [LF])
  ++ (if fieldPresent nameFrom ls then [] else nameFrom ++ [32, 60] ++ sender ++ [62, LF])
  ++ (if fieldPresent nameMsgid ls then [] else nameMsgid ++ [32, 60] ++ msgidTime ++ [64] ++ msgidhost ++ [62, LF])

/-- the queued message behind the trace header -/
def expectedPayload (sub : Bool) (adds : List Byte) (ls : List (List Byte)) : List Byte :=
  if sub then
    queuedLines (headerBlock ls) ++ adds ++ queuedLines (ls.drop (headerBlock ls).length)
  else queuedLines ls

/-- split at LF: the pieces in front of each LF, and what follows the last one -/
def splitLf (cur : List Byte) : List Byte → List (List Byte) × List Byte
  | [] => ([], cur.reverse)
  | c :: rest =>
    if c = LF then
      let (ls, last) := splitLf [] rest
      (cur.reverse :: ls, last)
    else splitLf (c :: cur) rest

def traceSpf : List Byte := [82, 101, 99, 101, 105, 118, 101, 100, 45, 83, 80, 70, 58, 32]   -- "Received-SPF: "
def traceRcvd : List Byte := [82, 101, 99, 101, 105, 118, 101, 100, 58, 32]                  -- "Received: "

/-- a trace header: complete lines without CR/NUL; exactly one `Received: ` field, in front of it
at most one `Received-SPF: ` field, every other line is a continuation (starts with TAB) -/
def validTrace (t : List Byte) : Bool :=
  let (ls, last) := splitLf [] t
  let starts := ls.filter fun l => l.head? != some TAB
  let isSpf := fun (l : List Byte) => l.take traceSpf.length == traceSpf
  let isRcvd := fun (l : List Byte) => l.take traceRcvd.length == traceRcvd
  last.isEmpty && !(t.contains CR) && !(t.contains 0)
  && (ls.head?.map fun l => l.head? != some TAB) == some true
  && (match starts with
      | [r] => isRcvd r
      | [s, r] => isSpf s && isRcvd r
      | _ => false)

/-- address as it goes into the envelope: a domain literal is replaced by `localiphost` -/
def envAddr (liphost a : List Byte) : List Byte :=
  match memchr 64 a with
  | some i => if a[i + 1]? = some 91 then a.take (i + 1) ++ liphost else a
  | none => a

/-- `F<sender> NUL (T<recipient> NUL)* NUL` -/
def expectedEnvelope (liphost sender : List Byte) (rcpts : List (List Byte)) : List Byte :=
  70 :: sender ++ [0] ++ (rcpts.map fun r => 84 :: envAddr liphost r ++ [0]).flatten ++ [0]

/-- the executable property: "holds" or the failing clause -/
def checkHandoffCore (sub : Bool) (adds liphost sender : List Byte) (rcpts : List (List Byte))
    (msg env : List Byte) (ls : List (List Byte)) : String :=
  let pay := expectedPayload sub adds ls
  if msg.length < pay.length then "fails message-truncated"
  else if msg.drop (msg.length - pay.length) ≠ pay then "fails message-lines-altered"
  else if !validTrace (msg.take (msg.length - pay.length)) then "fails trace-header-malformed"
  else if env ≠ expectedEnvelope liphost sender rcpts then "fails envelope"
  else "holds"

end QsmtpModel.Spec
