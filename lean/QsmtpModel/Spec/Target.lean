/-
C20 — reference specification of Qremote's target choice, written without regard to how the C
code walks its buffers, and the executable predicates the driver evaluates on the
*implementation's* output.  Mathlib-free.
-/
import QsmtpModel.Routes

namespace QsmtpModel.Spec.Target
open QsmtpModel QsmtpModel.Mx QsmtpModel.Routes

/-! ### route files read as key/value settings -/

/-- `key=value` with a non-empty key: split at the first `=` -/
def kvOf (l : List Byte) : Option (List Byte × List Byte) :=
  match memchr 61 l with
  | none => none
  | some 0 => none
  | some i => some (l.take i, l.drop (i + 1))

/-- the value a file gives to tag `i`: the value of the first `key=value` line with that key
(further lines with the same key are reported as invalid and ignored) -/
def setting (es : List (List Byte)) (i : Nat) : Option (List Byte) := (es.filterMap kvOf).lookup (tagAt i)

/-- what a settings file means: a function of the settings only -/
def fileChoice (env : Env) (isDefault : Bool) (es : List (List Byte)) : Out (Option Entry × RouteVals) :=
  evalSettings env isDefault (setting es)

/-- first name in lookup order that is not absent -/
def firstPresent (env : Env) : List (List Byte × Kind) → Option (List Byte × Kind × FileRes)
  | [] => none
  | (fn, k) :: rest =>
    match env.dirFile fn with
    | .absent => firstPresent env rest
    | r => some (fn, k, r)

/-- a line `domain:relay[:port]` of control/smtproutes applies to `remhost` -/
def lineApplies (remhost l : List Byte) : Bool :=
  match memchr 58 l with
  | none => false
  | some i => (l.take i).isEmpty || matchdomain remhost (l.take i)

def lineTarget (l : List Byte) : Option (List Byte) × Option (List Byte) :=
  match memchr 58 l with
  | none => (none, none)
  | some i =>
    let t := l.drop (i + 1)
    match memchr 58 t with
    | none => (if t.isEmpty then none else some t, none)
    | some j => (if (t.take j).isEmpty then none else some (t.take j), some (t.drop (j + 1)))

/-- control/smtproutes: the first applicable valid line wins; an empty relay keeps the port and
leaves the hosts to DNS (`none`); an unreadable file counts as no file -/
def routesFileSpec (env : Env) (remhost : List Byte) (useKeyPem : Bool) : Out (Option Entry × RouteVals) :=
  match loadEntries env.routes with
  | none => .ok (none, defaultVals env useKeyPem Gen.routeDefaultPort)
  | some es =>
    match (es.filter validLine).find? (lineApplies remhost) with
    | none => .ok (none, defaultVals env useKeyPem Gen.routeDefaultPort)
    | some l =>
      match parseRouteParams env (lineTarget l).1 (lineTarget l).2 with
      | .conferr e => .conferr e
      | .fault f => .fault f
      | .ok (mx, p) => .ok (mx, defaultVals env useKeyPem p)

/-- **the route specification**: smtproutes.d (exact name, wildcard names longest first, default)
wins over smtproutes. -/
def routeSpec (env : Env) (remhost : List Byte) : Out (Option Entry × RouteVals) :=
  if env.dirExists then
    match firstPresent env (candidates remhost) with
    | none => routesFileSpec env remhost false
    | some (_, _, .error) => .conferr .openFile
    | some (_, _, .absent) => routesFileSpec env remhost false
    | some (_, k, .content b) =>
      match (strip .normal none b).map entries with
      | none => .conferr .loadFile
      | some es => fileChoice env (k == .dflt) es
  else routesFileSpec env remhost true

/-! ### candidate order -/

def hasV6 (e : Entry) : Bool := e.addrs.any (fun a => !isV4 a)

/-- sort key of an MX entry: (preference, 0 if it has an IPv6 address else 1) -/
def key (e : Entry) : Nat × Nat := (e.prio, if hasV6 e then 0 else 1)

def keyLe (a b : Nat × Nat) : Bool := a.1 < b.1 || (a.1 == b.1 && a.2 ≤ b.2)

/-- no IPv4 address in front of an IPv6 address -/
def v6First : List Addr → Bool
  | [] => true
  | a :: rest => (if isV4 a then rest.all isV4 else true) && v6First rest

def sortedByKey : List Entry → Bool
  | [] => true
  | [_] => true
  | a :: b :: rest => keyLe (key a) (key b) && sortedByKey (b :: rest)

def normEntry (e : Entry) : Entry := { e with addrs := innerSort e.addrs }

/-! ### predicates on implementation outputs -/

def checkSortmx (inp out : List Entry) : String :=
  if !(out.map normEntry).isPerm (inp.map normEntry) then "fails permutation"
  else if !(out.all fun e => v6First e.addrs) then "fails v6-first-inside-entry"
  else if !((out.zip (out.drop 1)).all fun (a, b) => a.prio ≤ b.prio) then "fails ascending-priority"
  else if !sortedByKey out then "fails v6-first-at-equal-priority"
  else "holds"

def checkFilter (ifs : Option (List Iface)) (inp out : List Entry) : String :=
  match ifs with
  | none => if out == inp then "holds" else "fails unchanged-without-interface-list"
  | some is =>
    if out.any (fun e => e.addrs.any (isLocal is)) then "fails local-address-kept"
    else if out != filterSpec ifs inp then "fails only-local-addresses-removed"
    else "holds"

/-- attempts must use up the candidate entries in key order: greedy replay.  `cur`: addresses left
of the entry in progress. -/
def replay : Nat → List Addr → List Entry → List Addr → Bool
  | 0, _, _, _ => false
  | _, _, _, [] => true
  | fuel + 1, cur, todo, a :: rest =>
    if !cur.isEmpty then
      -- inside an entry: IPv6 addresses of the entry before its IPv4 addresses
      if cur.contains a && (!isV4 a || cur.all isV4) then replay fuel (cur.erase a) todo rest else false
    else
      match todo.find? (fun e => e.addrs.contains a && todo.all (fun f => keyLe (key e) (key f))) with
      | none => false
      | some e => replay fuel e.addrs (todo.erase e) (a :: rest)

def sessionFailedLast (evs : List Ev) : Bool :=
  -- the last socket event is a successful connect (so the run ended inside / after a session)
  match (attemptsOf evs).getLast? with
  | some a => a.res == .ok
  | none => false

def lastNet (evs : List Ev) : Option NetRes := (evs.filterMap fun | .net r => some r | _ => none).getLast?

/-- the C20 statement on one observed run: `spec` is what `routeSpec` / DNS give, `evs`/`final`
what the implementation did. -/
def checkRun (port : Nat) (cands : List Entry) (ifs : Option (List Iface)) (evs : List Ev) (final : Final) : String :=
  let atts := attemptsOf evs
  let tried := atts.filterMap fun a => if a.res == .ok || a.res == .connFail then some a.addr else none
  let n := (cands.map (·.addrs.length)).sum
  if atts.any (fun a => (a.res == .ok || a.res == .connFail) && a.port != port) then "fails port-of-route"
  else if port == Gen.filterPort && (match ifs with | some is => tried.any (isLocal is) | none => false) then
    "fails local-address-contacted-on-25"
  else if !replay (tried.length + cands.length + 2) [] cands tried then "fails once-in-preference-order"
  else match final with
    | .tempAll => if atts.length < n then "fails temporary-failure-before-all-candidates" else "holds"
    | .exitAbort =>
      if atts.length < n && sessionFailedLast evs then "fails gave-up-with-candidates-left" else "holds"
    | _ => "holds"

/-- connect_mx() alone: the list is taken in the order given -/
def checkListRun (port : Nat) (l : List Entry) (evs : List Ev) (final : Final) : String :=
  let atts := attemptsOf evs
  let tried := atts.filterMap fun a => if a.res == .ok || a.res == .connFail then some a.addr else none
  if atts.any (fun a => (a.res == .ok || a.res == .connFail) && a.port != port) then "fails port-of-route"
  else if !(tried.isPrefixOf (flatAddrs l)) then "fails once-in-list-order"
  else match final with
    | .tempAll => if tried.length < (flatAddrs l).length then "fails temporary-failure-before-all-candidates" else "holds"
    | .exitAbort =>
      if tried.length < (flatAddrs l).length && sessionFailedLast evs then "fails gave-up-with-candidates-left" else "holds"
    | _ => "holds"

/-- the whole statement for one request: candidates from the specification (route first, else MX),
this machine's addresses removed on port 25 -/
def checkTarget (env : Env) (ifs : Option (List Iface)) (remhost : List Byte) (evs : List Ev) (final : Final) : String :=
  match getmxlistWith routeSpec env remhost with
  | .ok mx vals =>
    let cands := if vals.port = Gen.filterPort then filterSpec ifs mx else mx
    match final with
    | .conferr _ | .status _ => "fails usable-target-rejected"
    | .backToMe => if cands.isEmpty then "holds" else "fails usable-target-rejected"
    | _ => if cands.isEmpty ∧ ¬ (attemptsOf evs).isEmpty then "fails local-address-contacted-on-25" else checkRun vals.port cands ifs evs final
  | _ =>
    if !(attemptsOf evs).isEmpty then "fails connection-despite-configuration-or-dns-error"
    else match final with
      | .conferr _ | .status _ => "holds"
      | _ => "fails error-not-reported"

end QsmtpModel.Spec.Target
