/-
Executable statement of property C18 on an *observation* of connect_mx(): the hosts of the case (what
they send in clear text and inside TLS, their oracles), whether a client certificate was configured for
the route, and what was observed: the result, whether a TLS session is active, smtpext, and the trace of
reader calls.  `check` answers `holds` or `fails <clause>`; it is run on the implementation's output by
the driver op `chk_tls`, and `Props.C18` proves that it holds on every output of the model.
Mathlib-free.
-/
import QsmtpModel.StartTlsCli

namespace QsmtpModel.Spec.StartTls
open QsmtpModel QsmtpModel.StartTlsCli

/-- the results of `n` successive net_read() calls on a stream, starting with the look-ahead buffer `inn` -/
def readSeq (ek : EndKind) : Nat → List Byte → Netio.Src → List Rr
  | 0, _, _ => []
  | n + 1, inn, src =>
    let r := Netio.netRead false inn src
    rrOf ek r.1 :: readSeq ek n r.2.1 r.2.2

/-- the results of the reader calls made on the connection to host `k` while a TLS session was active -/
def tlsReads (k : Nat) (tr : List Ev) : List Rr :=
  tr.filterMap fun
    | .rd k' true r => if k' = k then some r else none
    | _ => none

/-- everything read inside the TLS session of host `k` is what the reader makes of the TLS stream alone -/
def fromTlsOnly (k : Nat) (h : Host) (tr : List Ev) : Bool :=
  tlsReads k tr == readSeq h.tlsEnd (tlsReads k tr).length [] h.tls

def allFromTls (hosts : List Host) (tr : List Ev) : Bool :=
  (List.range hosts.length).all fun k =>
    match hosts[k]? with
    | some h => fromTlsOnly k h tr
    | none => true

/-- every reader or writer call made with a TLS session on the connection to host `k` comes after a
successful handshake on that very connection (`ok` = the hosts with a handshake so far) -/
def sessionsOwned : List Nat → List Ev → Bool
  | _, [] => true
  | ok, .hs k r :: rest => sessionsOwned (if r ≥ 0 then k :: ok else ok) rest
  | ok, .rd k true _ :: rest => ok.contains k && sessionsOwned ok rest
  | ok, .wr k true _ :: rest => ok.contains k && sessionsOwned ok rest
  | ok, _ :: rest => sessionsOwned ok rest

/-- the state right after an upgrade that left nothing in the look-ahead buffer -/
def freshTls (k : Nat) (h : Host) : S :=
  { k := k, tls := h.tls, tlsEnd := h.tlsEnd, ssl := true, sslK := k, sock := true }

/-- smtpext as the EHLO dialogue inside TLS defines it -/
def extInTls (helo : List Byte) (k : Nat) (h : Host) : Option Nat :=
  match greeting helo (freshTls k h) with
  | .ret fe _ => if fe < 0 then none else some fe.toNat
  | _ => none

/-- usable DANE records are published for the host itself -/
def usableTlsa (h : Host) : Bool := h.name.isSome && tlsaUsableCount h.tlsa > 0

/-- the certificate of the peer was checked and found good -/
def verifiedTls (h : Host) (ssl : Bool) : Bool := ssl && decide (0 ≤ h.handshake) && h.verified

structure Obs where
  res : Option (Option Nat)      -- some (some k): connected to host k; some none: no host left; none: exit
  ssl : Bool
  ext : Nat
  trace : List Ev

def check (helo : List Byte) (expectTls : Bool) (hosts : List Host) (o : Obs) : String :=
  if !sessionsOwned [] o.trace then "fails tls-session-outlives-connection"
  else if !allFromTls hosts o.trace then "fails cleartext-trusted"
  else
    match o.res with
    | some (some k) =>
      match hosts[k]? with
      | none => "fails no-such-host"
      | some h =>
        if expectTls && !o.ssl then "fails expected-tls-missing"
        else if pinActive h && !verifiedTls h o.ssl then "fails pinned-unverified"
        else if usableTlsa h && !verifiedTls h o.ssl then "fails tlsa-unverified"
        else if o.ssl && extInTls helo k h != some o.ext then "fails ext-not-relearned"
        else "holds"
    | _ => "holds"

end QsmtpModel.Spec.StartTls
