/-
Executable form of the C09 property, evaluated by the driver on the *implementation's* output
(what the harness observed for one session of AUTH commands): `holds` or `fails <clause>`.
Mathlib-free.

What "the credentials the client presented" are is computed from the scripted client lines by the
reference functions of the model (`Base64.decode`, `authGetl`, `plainFields`) run against a backend
that accepts; everything else in the predicate looks only at the observed values.
-/
import QsmtpModel.Auth

namespace QsmtpModel.Spec.Auth
open QsmtpModel QsmtpModel.Auth

/-- a backend oracle in which every system call works and the program exits 0 -/
def acceptAll : Backend :=
  { pipe := none, fork := none, close0 := false, wfail := none, close1 := false, wait := .exited 0 }

def backendClean (bk : Backend) : Bool :=
  bk.pipe.isNone && bk.fork.isNone && !bk.close0 && !(bk.wfail == some 0 || bk.wfail == some 1 || bk.wfail == some 2) && !bk.close1 && bk.wait == .exited 0

def freshState : State :=
  { authname := [], authHost := true, sslauth := false, ssl := false, tlsclient := false }

/-- `(user, pass)` of a well-formed exchange: what an accepting checkpassword must be shown -/
def presented (linein : List Byte) (inp : In) : Option (List Byte × List Byte) :=
  match smtpAuth freshState linein acceptAll { inp with wr := [] } with
  | .ok (_, st) _ ev =>
    if st.authname = [] then none
    else
      -- fd3 = user 0 pass 0 0
      let all := fd3Bytes ev
      some (st.authname, (all.drop (st.authname.length + 1)).take (all.length - st.authname.length - 3))
  | _ => none

/-- one observed step of the implementation -/
structure Obs where
  ret : Int
  authname : List Byte
  authed : Bool
  ev : List Ev
  fd3 : Option (List Byte)

def has235 (ev : List Ev) : Bool :=
  ev.any fun e => match e with
    | .reply b => b.take 3 == [50, 51, 53]
    | .replyErr b => b.take 3 == [50, 51, 53]
    | _ => false

/-- clauses of C09 for one AUTH command; `none` = all hold -/
def checkStep (st : State) (s : Step) (o : Obs) : Option String :=
  let refused := st.authname ≠ [] ∨ ¬ st.authHost ∨ (st.sslauth ∧ ¬ st.ssl)
  if o.authed ≠ (decide (o.authname ≠ []) || st.tlsclient) then
    some "authenticated-flag-differs-from-authname"
  else if refused then
    if o.ret ≠ 1 ∨ o.ev ≠ [] ∨ o.authname ≠ st.authname then
      some "auth-not-refused (already authenticated / no checkpassword setup / forcesslauth without TLS)"
    else none
  else if o.authname ≠ [] then
    -- became authenticated in this step
    if ¬ backendClean s.bk then some "authenticated-without-backend-accepting (exit != 0, crash or pipe/fork/write/wait error)"
    else if Ev.spawn ∉ o.ev ∨ Ev.eof ∉ o.ev then some "authenticated-without-running-checkpassword"
    else
      match presented s.linein s.inp with
      | none => some "authenticated-by-cancelled-or-malformed-exchange"
      | some (u, p) =>
        if o.authname ≠ u then some "authname-is-not-the-presented-user"
        else if o.fd3 ≠ some (u ++ [0] ++ p ++ [0] ++ [0]) then some "fd3-not-exactly-user-NUL-pass-NUL-NUL"
        else if fd3Bytes o.ev ≠ u ++ [0] ++ p ++ [0] ++ [0] then some "fd3-writes-differ"
        else if ¬ has235 o.ev then some "authenticated-without-235"
        else none
  else
    -- not authenticated after the step
    if has235 o.ev then some "235-sent-but-not-authenticated"
    else if backendClean s.bk && (presented s.linein s.inp).isSome && s.inp.wr.all (· == .ok) then
      some "accepted-credentials-did-not-authenticate"
    else
      match o.fd3 with
      | none => none
      | some b =>
        match presented s.linein s.inp with
        | none => some "checkpassword-run-for-malformed-exchange"
        | some (u, p) => if b ≠ u ++ [0] ++ p ++ [0] ++ [0] then some "fd3-not-exactly-user-NUL-pass-NUL-NUL" else none

/-- the whole session: the state is carried from the *observed* authname of the previous step -/
def checkSteps (st : State) : List Step → List Obs → String
  | [], [] => "holds"
  | s :: ss, o :: os =>
    match checkStep st s o with
    | some c => "fails " ++ c
    | none => checkSteps { st with authname := o.authname } ss os
  | _, _ => "fails observation-count (a step crashed or the session ended early)"

/-- `b64_strict` on an observed decoder result: success ⇒ the reference decoder also succeeds with
the same bytes (in particular no byte outside the alphabet, pad, CRLF was taken for a digit) -/
def checkB64 (inp : List Byte) (obs : Option (List Byte)) : String :=
  match obs, Base64.decode inp with
  | some out, .ok ref => if out = ref then "holds" else "fails decoded-bytes-differ-from-reference"
  | some _, .error _ =>
    if inp.any (· = 0) then "fails b64-strict (NUL byte accepted as a base64 digit)"
    else "fails b64-strict (malformed input accepted)"
  | none, .ok _ => "fails well-formed-input-rejected"
  | none, .error _ => "holds"

end QsmtpModel.Spec.Auth
