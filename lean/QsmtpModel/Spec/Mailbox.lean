/-
C13: the reference notion "the vpopmail mailbox exists under the domain directory", as a simple
executable predicate over the abstract directory tree, and the executable check that the driver
evaluates on what the *implementation* did (return value, descriptors kept, every openat() issued
relative to a directory descriptor).  Mathlib-free.
-/
import QsmtpModel.Vpop

namespace QsmtpModel.Spec.Mailbox
open QsmtpModel QsmtpModel.Vpop

/-- ".qmail-" (the specification's own literal) -/
def dotQmail : List Byte := [46, 113, 109, 97, 105, 108, 45]
/-- "-default" -/
def dashDefault : List Byte := [45, 100, 101, 102, 97, 117, 108, 116]
/-- ".qmail-default" -/
def qmailDefault : List Byte := [46, 113, 109, 97, 105, 108, 45, 100, 101, 102, 97, 117, 108, 116]

/-- a name that denotes an entry of the directory it is looked up in, and nothing else -/
def plainName (n : List Byte) : Bool :=
  n ≠ [] ∧ SLASH ∉ n ∧ n ≠ [DOT] ∧ n ≠ [DOT, DOT]

/-- the entry is there (possibly unreadable for the server: EACCES) -/
def present : Lookup → Bool
  | .node _ => true
  | .err e => e == Vpop.EACCES
  | .absent => false

/-- form 1: a directory named like the local part -/
def userDir (t : DirTree) (dd : Nat) (loc : List Byte) : Bool :=
  match t.child dd loc with
  | .node n => t.isDir n
  | _ => false

/-- forms 2 and 3: .qmail-<local> or .qmail-<local>-default, dots written as colons -/
def dotQmailFile (t : DirTree) (dd : Nat) (loc : List Byte) : Bool :=
  present (t.child dd (dotQmail ++ colons loc)) || present (t.child dd (dotQmail ++ colons loc ++ dashDefault))

/-- form 4: .qmail-<prefix>-default for a prefix of the local part that ends before a dash -/
def prefixDefault (t : DirTree) (dd : Nat) (loc : List Byte) : Bool :=
  (dashIdx 0 loc).any fun p => present (t.child dd (dotQmail ++ colons (loc.take p) ++ dashDefault))

/-- the catch-all's text, read as a C string, is the line configured in control/vpopbounce -/
def isBounceLine (content vpb : List Byte) : Bool := cstr content == vpb

/-- form 5: a .qmail-default that is not the configured bounce line -/
def catchAll (t : DirTree) (dd : Nat) (vpb : Option (List Byte)) : Bool :=
  match t.child dd qmailDefault with
  | .node n =>
    (match vpb with
     | none => true
     | some v => !isBounceLine (t.content n) v)
  | .err e => e == Vpop.EACCES
  | .absent => false

/-- **the mailbox exists** under the domain directory `dd` -/
def mailboxExists (t : DirTree) (dd : Nat) (vpb : Option (List Byte)) (loc : List Byte) : Bool :=
  plainName loc &&
    (userDir t dd loc || dotQmailFile t dd loc || prefixDefault t dd loc || catchAll t dd vpb)

/-! ### the check on the implementation's observable behaviour -/

/-- what the harness reports about one call of the real user_exists() (+ the getfile() that
smtp_rcpt() issues next); paths are relative to the scratch root -/
structure Obs where
  r : Int
  dom : Option (List Byte)                 -- path behind ds.domaindirfd
  usr : Option (List Byte)                 -- path behind ds.userdirfd
  gf : Option (List Byte)                  -- path of the filterconf that getfile() opened
  gg : Option (List Byte)                  -- the same for a lookup with userconf_global
  opened : List (List Byte × List Byte)    -- (directory path, name) of every openat(fd, name)

def joinPath (d n : List Byte) : List Byte := d ++ [SLASH] ++ n

def filterconf : List Byte := [102, 105, 108, 116, 101, 114, 99, 111, 110, 102]
/-- "control" -/
def controlDir : List Byte := [99, 111, 110, 116, 114, 111, 108]

/-- `ddPath`/`dd`: the domain directory users/cdb names for the domain (none: the domain is not in
users/cdb, or its directory cannot be opened); `benign`: no error was injected, i.e. every answer
of the file system is "there" or "not there". -/
def checkObs (t : DirTree) (dd : Option (Nat × List Byte)) (inCdb benign : Bool) (vpb : Option (List Byte))
    (loc : List Byte) (o : Obs) : String :=
  -- confinement
  let ddPath := (dd.map (·.2)).getD []
  if o.opened.any (fun e => e.1 ≠ ddPath ∨ !plainName e.2) then
    "fails confined (a name that is not a plain entry of the domain directory was resolved)"
  else if o.usr.any (fun u => u ≠ joinPath ddPath loc ∨ !plainName loc) then
    "fails confined (the user directory descriptor is not an entry of the domain directory)"
  else if o.gf.any (fun g => g ≠ joinPath ddPath filterconf ∧ o.usr.all (fun u => g ≠ joinPath u filterconf)) then
    "fails confined (configuration read from outside the domain directory)"
  else if o.gg.any (fun g => g ≠ joinPath ddPath filterconf ∧ g ≠ joinPath controlDir filterconf ∧
      o.usr.all (fun u => g ≠ joinPath u filterconf)) then
    "fails confined (configuration read from outside the domain and control directories)"
  else if !benign then "holds (error paths: confinement only)"
  else if !inCdb then
    (if SLASH ∈ loc ∨ o.r = 5 ∨ (o.r = 0 ∧ !plainName loc) then "holds" else "fails domain-not-in-users/cdb must give 5")
  else match dd with
    | none => if o.r = 0 then "holds" else "fails missing domain directory must reject"
    | some (d, _) =>
      let ex := mailboxExists t d vpb loc
      if o.r < 0 then "fails reject-is-550 (error return although every lookup was answered)"
      else if ex ∧ ¬ (o.r = 1 ∨ o.r = 2 ∨ o.r = 4) then "fails accept-iff-mailbox (mailbox exists, not accepted)"
      else if ¬ ex ∧ o.r ≠ 0 then "fails accept-iff-mailbox (no such mailbox, not rejected)"
      else "holds"

end QsmtpModel.Spec.Mailbox
