/-
Observable-level specification of SMTP transactions (C08): what an observer of commands, reply
codes and queue hand-offs is entitled to expect.  Mathlib-free (evaluated by the driver on the
implementation's transcripts, and the reference the session model is proved against).
-/
import QsmtpModel.Basic

namespace QsmtpModel.Spec
open QsmtpModel

/-- what an observer sees of one command: which verb it was and whether it was accepted -/
inductive Event where
  | greet                         -- HELO/EHLO answered 2xx
  | greetFailed                   -- HELO answered with an error (the server forgets the transaction)
  | mail (sender : List Byte)     -- MAIL FROM answered 2xx
  | rcpt (addr : List Byte)       -- RCPT TO answered 250
  | rcptRefused                   -- RCPT TO not answered 250 (for a bounce this may revoke the first recipient)
  | reset                         -- RSET answered 2xx
  | dataRefused                   -- DATA answered with an error instead of 354 (this may have ended the transaction)
  | dataStarted                   -- DATA answered 354 (whatever the final outcome)
  | dataFailed                    -- the final reply to the message was not 2xx
  | tlsStarted                    -- STARTTLS succeeded
  | handoff (sender : List Byte) (rcpts : List (List Byte))   -- qmail-queue received this envelope
  | other                         -- anything else (refused commands, NOOP, VRFY, ...)
  deriving Repr, DecidableEq

structure Tx where
  greeted : Bool := false
  sender : Option (List Byte) := none
  rcpts : List (List Byte) := []
  deriving Repr, DecidableEq

/-- the specification automaton: the possible successor states; `[]` = the observation is not
allowed.  Non-determinism only where an observer cannot tell: a HELO answered with an error may or may
not have ended the transaction (refused line vs. refused name), likewise a DATA answered with an
error instead of 354 (bad sequence vs. the queue could not be started), and a refused RCPT of a
bounce may have revoked the first recipient. -/
def txStep (t : Tx) : Event → List Tx
  | .greet => [{ greeted := true, sender := none, rcpts := [] }]
  | .greetFailed => [t, { t with sender := none, rcpts := [] }]
  | .mail s => if t.greeted ∧ t.sender = none then [{ t with sender := some s, rcpts := [] }] else []
  | .rcpt a =>
    match t.sender with
    | none => []
    | some s => if s = [] ∧ t.rcpts ≠ [] then [] else [{ t with rcpts := t.rcpts ++ [a] }]
  | .rcptRefused =>
    match t.sender with
    | some [] => [t, { t with rcpts := [] }]
    | _ => [t]
  | .reset => [{ t with sender := none, rcpts := [] }]
  | .dataRefused => [t, { t with sender := none, rcpts := [] }]
  | .dataStarted => if t.sender ≠ none ∧ t.rcpts ≠ [] then [t] else []
  | .dataFailed => [{ t with sender := none, rcpts := [] }]
  | .tlsStarted => [{ greeted := false, sender := none, rcpts := [] }]
  | .handoff s rs =>
    if t.sender = some s ∧ t.rcpts = rs ∧ (s = [] → rs.length ≤ 1) then
      [{ t with sender := none, rcpts := [] }]
    else []
  | .other => [t]

/-- all states the specification can be in after the observations -/
def txRun (ts : List Tx) : List Event → List Tx
  | [] => ts
  | e :: es => txRun (ts.flatMap fun t => txStep t e) es

/-- the observations are allowed by the specification -/
def txAllowed (es : List Event) : Bool := !(txRun [{}] es).isEmpty

end QsmtpModel.Spec
