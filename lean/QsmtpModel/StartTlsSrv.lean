/-
Server side of STARTTLS at connection level: the command loop of qsmtpd/qsmtpd.c (`smtploop`, through
`Session.step`) driven by the line reader of lib/netio.c (`Netio.netRead`) over *two* byte streams —
what the peer sends in clear text and what it sends inside the TLS session — with the one look-ahead
buffer `lineinn` that both modes of `readinput()` share.

Mirrors  qsmtpd/starttls.c : smtp_starttls, tls_init (from sync_pipelining() on), tls_err/tls_out
         qsmtpd/syntax.c   : sync_pipelining, hasinput, wait_for_quit, check_max_bad_commands
         lib/netio.c       : data_pending (which itself READS `probeLen` = 1 byte into lineinn when
                             poll() reports input), readinput's choice of channel by `ssl`
         qsmtpd/antispam.c : tarpit (its data_pending() probe only)
         qsmtpd/commands.c : smtp_noop's sync_pipelining(), the STARTTLS announcement of smtp_ehlo,
         qsmtpd/data.c     : smtp_data's sync_pipelining() and the consumption of the message lines.

The peer is a script of segments and pauses (exactly the script language of harness/h_qsmtpd.c): a
segment is what one read()/one TLS record delivers at most, a pause means "the client now waits for
the server".  A zero-timeout poll() sees input iff the next item is a segment (or the script is at
its end: EOF is readable).  Theorems quantify over all scripts = all suffixes, all cut schedules,
all answers of the poll oracle.
-/
import QsmtpModel.Session
import QsmtpModel.Netio
import QsmtpModel.Gen.StartTlsSrv

namespace QsmtpModel.StartTlsSrv
open QsmtpModel QsmtpModel.Netio QsmtpModel.Session

/-! ### the peer's script -/

inductive Item where
  | seg (b : List Byte)     -- bytes that arrive together
  | pause                   -- the client waits for the server
  deriving Repr, DecidableEq

/-- one direction of one channel. `part`: the first segment is the unread rest of a segment that a
read() has already taken bytes from (for TLS: SSL_pending() > 0). -/
structure Wire where
  items : List Item := []
  part : Bool := false
  deriving Repr, DecidableEq

def skipEmpty : List Item → List Item
  | .seg [] :: is => skipEmpty is
  | is => is

def itemsBytes : List Item → List Byte
  | [] => []
  | .seg b :: is => b ++ itemsBytes is
  | .pause :: is => itemsBytes is

def itemsCuts : List Item → List Nat
  | [] => []
  | .seg [] :: is => itemsCuts is
  | .seg b :: is => b.length :: itemsCuts is
  | .pause :: is => itemsCuts is

/-- the view the line reader has: all bytes still to come and how blocking reads cut them -/
def Wire.toSrc (w : Wire) : Src := { rest := itemsBytes w.items, cuts := itemsCuts w.items }

/-- remove `n` bytes the way successive blocking reads do (pauses in front of data that is read are
over); second component: the new first segment is a partly read one -/
def consume : Nat → List Item → List Item × Bool
  | 0, is => (is, false)
  | _ + 1, [] => ([], false)
  | n + 1, .pause :: is => consume (n + 1) is
  | n + 1, .seg b :: is =>
    if b.length ≤ n + 1 then consume (n + 1 - b.length) is
    else (.seg (b.drop (n + 1)) :: is, true)

def Wire.consume (w : Wire) (n : Nat) : Wire :=
  if n = 0 then w else
    let (is, p) := StartTlsSrv.consume n w.items
    { items := is, part := p }

/-- `poll(fd 0, timeout 0)`: input (or EOF) is there -/
def pollReady (is : List Item) : Bool :=
  match skipEmpty is with
  | .pause :: _ => false
  | _ => true

/-! ### lib/netio.c: data_pending -/

inductive Pend where
  | no                      -- 0
  | yes                     -- > 0
  | die                     -- < 0: every caller ends the program through dieerror()
  deriving Repr, DecidableEq

/-- `data_pending(NULL)`: look-ahead buffer first; else poll; if poll reports input *read*
`probeLen` byte(s) into the look-ahead buffer; a read of 0 bytes is a closed connection. -/
def dataPendingClear (inn : List Byte) (w : Wire) : Pend × List Byte × Wire :=
  if !inn.isEmpty then (.yes, inn, w)
  else if !pollReady w.items then (.no, inn, w)
  else
    match skipEmpty w.items with
    | .seg b :: is =>
      let d := b.take Gen.probeLen
      if d.isEmpty then (.die, inn, w)
      else (.yes, d, { items := .seg (b.drop Gen.probeLen) :: is, part := !(b.drop Gen.probeLen).isEmpty })
    | _ => (.die, inn, w)

/-- `data_pending(ssl)`: look-ahead buffer, else `SSL_pending()` = unread rest of the current record;
the socket is not looked at. -/
def dataPendingTls (inn : List Byte) (w : Wire) : Pend × List Byte × Wire :=
  if !inn.isEmpty then (.yes, inn, w)
  else
    match w.part, skipEmpty w.items with
    | true, .seg _ :: _ => (.yes, inn, w)
    | _, _ => (.no, inn, w)

def dataPending (ssl : Bool) (inn : List Byte) (w : Wire) : Pend × List Byte × Wire :=
  if ssl then dataPendingTls inn w else dataPendingClear inn w

/-! ### reading a line from the active channel -/

/-- `net_read(1)` on the wire; the bytes the reader took are removed from the script -/
def readLine (inn : List Byte) (w : Wire) : Rd × List Byte × Wire :=
  let src := w.toSrc
  let (r, inn', src') := netRead true inn src
  (r, inn', w.consume (src.rest.length - src'.rest.length))

/-- content of `lineinbuf` when `loop_long()` returns: the last chunk it read -/
def loopLongBuf (src : Src) : Nat → List Byte
  | 0 => []
  | fuel + 1 =>
    let (d, src') := src.read (bufSize - 1)
    if d.isEmpty then []
    else match memchr LF d with
      | some _ => d
      | none => loopLongBuf src' fuel

/-- content of `lineinbuf` (up to the terminating NUL that readinput()/net_read() put there) after
a net_read() call; `prev` = content before. A failing call leaves stale data behind:
wait_for_quit() and the greeting code compare `linein.s` without looking at the return value. -/
def bufAfter (inn : List Byte) (src : Src) (prev : List Byte) : List Byte :=
  match phase1 inn with
  | (some (.line l, _), _) => l
  | (some _, _) => prev
  | (none, buf0) =>
    match readLoop true buf0 src (src.rest.length + 1) with
    | (none, _) => prev
    | (some buf, src') =>
      match findEol buf with
      | (none, _) => loopLongBuf src' (src'.rest.length + 1)
      | (some p, valid) =>
        if valid then buf.take (p - 2)
        else if p == bufSize - 1 && buf[p - 1]? == some CR then loopLongBuf src' (src'.rest.length + 1)
        else buf

/-- C string view -/
def cstr (b : List Byte) : List Byte := b.takeWhile (· ≠ 0)

/-- `!strncasecmp(linein.s, "QUIT", 4) && !linein.s[4]` -/
def isQuit (buf : List Byte) : Bool :=
  let c := cstr buf
  c.length == 4 && c.map lower == [113, 117, 105, 116]

/-! ### the connection -/

/-- outcome of `ssl_timeoutaccept()` (OpenSSL and the peer: an oracle). `eat`: how many clear-text
bytes OpenSSL took from the socket as handshake data before it gave up (after a complete handshake
the clear-text wire is never read again, so the number does not matter there). -/
inductive HsV where
  | ok
  | fail (eat : Nat)
  | timeout (eat : Nat)
  deriving Repr, DecidableEq

/-- what `tls_init()` finds before it gets to the pending-input check -/
inductive CertV where
  | usable                      -- certificate, key, ciphers fine
  | unusable                    -- tls_err(): 454, returns -EDONE
  | ciphersUnreadable           -- err_control2(): 421, returns -1
  deriving Repr, DecidableEq

structure Cfg where
  env : Session.Env := {}
  verd : List Byte → Verdicts := fun _ => {}   -- what the command bodies learn, per input line
  cert : CertV := .usable
  certFound : Bool := true                      -- find_servercert() == 0 (looked at by EHLO)
  port465 : Bool := false                       -- TCPLOCALPORT == "465"

/-- everything but the two wires -/
structure Core where
  sess : Sess := {}
  inn : List Byte := []          -- lineinn[0 .. linenlen): ONE buffer for both channels
  lastbuf : List Byte := []      -- lineinbuf as a C string
  hs : List HsV := []            -- outcomes of the handshakes still to come
  wq : Bool := false             -- inside wait_for_quit()
  dead : Option Nat := none      -- dieerror(code)/exit happened
  deriving Repr

/-- what one iteration produced. `tls`: the channel the replies were written to. -/
structure Ev where
  tls : Bool
  input : Option (List Byte)     -- the line acted on (none: the read failed / nothing read)
  replies : List Nat
  handoff : Option Handoff := none
  offer : Bool := false          -- the reply announces STARTTLS
  deriving Repr, DecidableEq

def Core.stopped (k : Core) : Bool := k.dead.isSome || k.sess.closed

def ECONNRESET : Nat := 104
def ETIMEDOUT : Nat := 110

/-- `check_max_bad_commands()` + the reply of wait_for_quit() -/
def wqBad (k : Core) : List Nat × Core :=
  if k.sess.badcmds > Gen.maxBadCmds then
    ([Gen.tooManyCode], { k with sess := { freedata { k.sess with badcmds := k.sess.badcmds + 1 } with closed := true } })
  else ([Gen.waitQuitCode], { k with sess := { k.sess with badcmds := k.sess.badcmds + 1 } })

/-- one iteration of `wait_for_quit()` -/
def wqStep (k : Core) (w : Wire) : Ev × Core × Wire :=
  let ssl := k.sess.ssl
  let (r, inn', w') := readLine k.inn w
  let buf := bufAfter k.inn w.toSrc k.lastbuf
  let k1 := { k with inn := inn', lastbuf := buf }
  match r with
  | .die _ => ({ tls := ssl, input := none, replies := [] }, { k1 with dead := some ECONNRESET }, w')
  | _ =>
    let inp := match r with | .line l => some l | _ => none
    if isQuit buf then
      ({ tls := ssl, input := inp, replies := [221] }, { k1 with sess := { freedata k1.sess with closed := true } }, w')
    else
      let (rep, k2) := wqBad k1
      ({ tls := ssl, input := inp, replies := rep }, k2, w')

/-- result of `sync_pipelining()` -/
inductive Sync where
  | clear                        -- returned: nothing pending
  | stuck (replies : List Nat)   -- replied and entered wait_for_quit()
  | die (code : Nat)

/-- `sync_pipelining()`; in non-ESMTP mode the pending line is consumed by `hasinput(1)` which
answers 550 and never returns. -/
def syncPipelining (k : Core) (w : Wire) : Sync × Core × Wire :=
  match dataPending k.sess.ssl k.inn w with
  | (.no, inn', w') => (.clear, { k with inn := inn' }, w')
  | (.die, inn', w') => (.die ECONNRESET, { k with inn := inn', dead := some ECONNRESET }, w')
  | (.yes, inn', w') =>
    let k1 := { k with inn := inn' }
    if !k.sess.esmtp then
      -- hasinput(1): data_pending() again (now the look-ahead buffer answers), net_read(1), 550, wait_for_quit()
      let (r, inn2, w2) := readLine k1.inn w'
      let buf := bufAfter k1.inn w'.toSrc k1.lastbuf
      let k2 := { k1 with inn := inn2, lastbuf := buf }
      match r with
      | .die _ => (.die ECONNRESET, { k2 with dead := some ECONNRESET }, w2)
      | .err _ =>
        -- hasinput() returns the error; sync_pipelining() ignores it and goes on
        (.stuck [Gen.pipeErrCode], { k2 with wq := true }, w2)
      | .line _ => (.stuck [Gen.mustWaitCode], { k2 with wq := true }, w2)
    else (.stuck [Gen.pipeErrCode], { k1 with wq := true }, w')

/-- which branch of smtploop a line takes -/
inductive Disp where
  | err (rc : Rc)
  | call (i : Nat) (row : Gen.Row)

def dispatch (s : Sess) (l : List Byte) : Disp :=
  match findRow l Gen.commands 0 with
  | none => .err .einval
  | some (i, row) =>
    if s.comstate &&& row.mask ≠ 0 then
      if row.flags &&& 2 = 0 ∧ l.length > Gen.cmdLineMax then .err .e2big
      else if row.flags &&& 1 = 0 ∧ l.length > row.name.length then .err .einval
      else if row.flags &&& 4 ≠ 0 ∧ l[row.name.length]? ≠ some SP then .err .einval
      else .call i row
    else .err .badseq

/-- the cases of smtploop's error switch that call `tarpit()` -/
def tarpits : Rc → Bool
  | .enoexec | .einval | .e2big | .badseq => true
  | _ => false

/-- error branch of smtploop with tarpit()'s `data_pending()` probe in front of the reply -/
def errPath (k : Core) (w : Wire) (pre : List Nat) (rc : Rc) (s : Sess) : List Nat × Core × Wire :=
  if s.badcmds > Gen.maxBadCmds ∨ !tarpits rc then
    let (e, s') := handleError rc s
    (pre ++ e, { k with sess := s' }, w)
  else
    match dataPending s.ssl k.inn w with
    | (.die, inn', w') => (pre, { k with sess := { s with badcmds := s.badcmds + 1 }, inn := inn', dead := some ECONNRESET }, w')
    | (_, inn', w') =>
      let (e, s') := handleError rc s
      (pre ++ e, { k with sess := s', inn := inn' }, w')

/-- what smtploop does with a command function's result -/
def finish (k : Core) (w : Wire) (rowState : Int) (i : Nat) (r : FuncRes) : List Nat × Option Handoff × Core × Wire :=
  if r.rc = .ok then
    let (o, s') := finishStep rowState i r
    (o.replies, o.handoff, { k with sess := s' }, w)
  else
    let (e, k', w') := errPath k w r.replies r.rc r.s
    (e, none, k', w')

/-- the message lines behind a 354: read until the line "." (or the connection ends) -/
def readBody (inn : List Byte) (w : Wire) (lastbuf : List Byte) : Nat → Option (List Byte × Wire × List Byte)
  | 0 => none
  | fuel + 1 =>
    let (r, inn', w') := readLine inn w
    let buf := bufAfter inn w.toSrc lastbuf
    match r with
    | .die _ => none
    | .line l => if l == [DOT] then some (inn', w', buf) else readBody inn' w' buf fuel
    | _ => readBody inn' w' buf fuel

/-- does EHLO announce STARTTLS (smtp_ehlo) -/
def offers (cfg : Cfg) (s : Sess) : Bool := !s.ssl && !cfg.port465 && cfg.certFound

/-- `tls_init()` from the point where the SSL object is complete -/
def tlsInit (k : Core) (w : Wire) (i : Nat) (row : Gen.Row) : List Nat × Core × Wire :=
  let (sy, k1, w1) := if Gen.tlsSyncBeforeReady = 1 then syncPipelining k w else (Sync.clear, k, w)
  match sy with
  | .die _ => ([], k1, w1)
  | .stuck rep => (rep, k1, w1)
  | .clear =>
    let (h, rest) := match k1.hs with
      | [] => (HsV.fail 0, [])
      | h :: t => (h, t)
    let k2 := { k1 with hs := rest }
    match h with
    | .timeout eat => ([Gen.tlsReadyCode], { k2 with dead := some ETIMEDOUT }, w1.consume eat)
    | .fail eat =>
      let (rep, _, k3, w3) := finish k2 (w1.consume eat) row.state i (smtpStarttls .failed k2.sess)
      (rep, k3, w3)
    | .ok =>
      let (rep, _, k3, w3) := finish k2 w1 row.state i (smtpStarttls .ok k2.sess)
      (rep, k3, w3)

/-- one iteration of smtploop on the active channel `w` -/
def loopStep (cfg : Cfg) (k : Core) (w : Wire) : Ev × Core × Wire :=
  let ssl := k.sess.ssl
  let (r, inn', w') := readLine k.inn w
  let buf := bufAfter k.inn w.toSrc k.lastbuf
  let k1 := { k with inn := inn', lastbuf := buf }
  match r with
  | .die _ => ({ tls := ssl, input := none, replies := [] }, { k1 with dead := some ECONNRESET }, w')
  | .err e =>
    let rc : Rc := match e with | .einval => .einval | .e2big => .e2big | .econnreset => .other 500
    let (rep, k2, w2) := errPath k1 w' [] rc k1.sess
    ({ tls := ssl, input := none, replies := rep }, k2, w2)
  | .line l =>
    let v := cfg.verd l
    if l.any (fun b => b == 0 || b.toNat ≥ 128) then
      -- line_valid(): EINVAL
      let (rep, k2, w2) := errPath k1 w' [] .einval k1.sess
      ({ tls := ssl, input := some l, replies := rep }, k2, w2)
    else
    match dispatch k1.sess l with
    | .err rc =>
      let (rep, k2, w2) := errPath k1 w' [] rc k1.sess
      ({ tls := ssl, input := some l, replies := rep }, k2, w2)
    | .call i row =>
      match row.func with
      | .starttls =>
        if k1.sess.ssl || !k1.sess.esmtp then
          let (rep, _, k2, w2) := finish k1 w' row.state i (smtpStarttls v.tls k1.sess)
          ({ tls := ssl, input := some l, replies := rep }, k2, w2)
        else
          match cfg.cert with
          | .unusable =>
            let (rep, _, k2, w2) := finish k1 w' row.state i (smtpStarttls (.noCert Gen.tlsInitFailCode) k1.sess)
            ({ tls := ssl, input := some l, replies := rep }, k2, w2)
          | .ciphersUnreadable =>
            let (rep, _, k2, w2) := finish k1 w' row.state i { replies := [421], rc := .other 500, s := k1.sess }
            ({ tls := ssl, input := some l, replies := rep }, k2, w2)
          | .usable =>
            let (rep, k2, w2) := tlsInit k1 w' i row
            ({ tls := ssl, input := some l, replies := rep }, k2, w2)
      | .noop =>
        match syncPipelining k1 w' with
        | (.die _, k2, w2) => ({ tls := ssl, input := some l, replies := [] }, k2, w2)
        | (.stuck rep, k2, w2) => ({ tls := ssl, input := some l, replies := rep }, k2, w2)
        | (.clear, k2, w2) =>
          let (rep, ho, k3, w3) := finish k2 w2 row.state i (runFunc cfg.env v row.func k2.sess l)
          ({ tls := ssl, input := some l, replies := rep, handoff := ho }, k3, w3)
      | .data =>
        if k1.sess.goodrcpt = 0 then
          -- tarpit() then 554, EDONE
          match dataPending ssl k1.inn w' with
          | (.die, inn2, w2) => ({ tls := ssl, input := some l, replies := [] }, { k1 with inn := inn2, dead := some ECONNRESET }, w2)
          | (_, inn2, w2) =>
            let (rep, ho, k3, w3) := finish { k1 with inn := inn2 } w2 row.state i (runFunc cfg.env v row.func k1.sess l)
            ({ tls := ssl, input := some l, replies := rep, handoff := ho }, k3, w3)
        else
          match syncPipelining k1 w' with
          | (.die _, k2, w2) => ({ tls := ssl, input := some l, replies := [] }, k2, w2)
          | (.stuck rep, k2, w2) => ({ tls := ssl, input := some l, replies := rep }, k2, w2)
          | (.clear, k2, w2) =>
            let fr := runFunc cfg.env v row.func k2.sess l
            if 354 ∈ fr.replies then
              match readBody k2.inn w2 k2.lastbuf ((itemsBytes w2.items).length + k2.inn.length + 1) with
              | none => ({ tls := ssl, input := some l, replies := [354] }, { k2 with dead := some ECONNRESET }, w2)
              | some (inn3, w3, buf3) =>
                let (rep, ho, k4, w4) := finish { k2 with inn := inn3, lastbuf := buf3 } w3 row.state i fr
                ({ tls := ssl, input := some l, replies := rep, handoff := ho }, k4, w4)
            else
              let (rep, ho, k3, w3) := finish k2 w2 row.state i fr
              ({ tls := ssl, input := some l, replies := rep, handoff := ho }, k3, w3)
      | .ehlo =>
        let (rep, ho, k2, w2) := finish k1 w' row.state i (runFunc cfg.env v row.func k1.sess l)
        ({ tls := ssl, input := some l, replies := rep, handoff := ho,
           offer := rep == [250] && offers cfg k1.sess }, k2, w2)
      | _ =>
        let (rep, ho, k2, w2) := finish k1 w' row.state i (runFunc cfg.env v row.func k1.sess l)
        ({ tls := ssl, input := some l, replies := rep, handoff := ho }, k2, w2)

/-- one iteration on the active channel -/
def stepOn (cfg : Cfg) (k : Core) (w : Wire) : Ev × Core × Wire :=
  if k.wq then wqStep k w else loopStep cfg k w

/-- the whole connection state -/
structure Conn where
  core : Core := {}
  clear : Wire := {}
  tls : Wire := {}
  deriving Repr

/-- `readinput()`'s choice: `if (ssl) ssl_timeoutread(...) else poll/read(0, ...)` -/
def connStep (cfg : Cfg) (c : Conn) : Ev × Conn :=
  if c.core.sess.ssl then
    let (e, k, w) := stepOn cfg c.core c.tls
    (e, { c with core := k, tls := w })
  else
    let (e, k, w) := stepOn cfg c.core c.clear
    (e, { c with core := k, clear := w })

/-- the start of smtploop: `hasinput(0)` before the greeting -/
def greet (c : Conn) : Ev × Conn :=
  let k := c.core
  match dataPendingClear k.inn c.clear with
  | (.no, inn', w') => ({ tls := false, input := none, replies := [220] }, { c with core := { k with inn := inn' }, clear := w' })
  | (.die, inn', w') =>
    -- hasinput() returns ECONNRESET: "communication error" branch, greeting, net_read(1) dies
    ({ tls := false, input := none, replies := [220] }, { c with core := { k with inn := inn', dead := some ECONNRESET }, clear := w' })
  | (.yes, inn', w') =>
    let (r, inn2, w2) := readLine inn' w'
    let buf := bufAfter inn' w'.toSrc k.lastbuf
    let k2 := { k with inn := inn2, lastbuf := buf }
    match r with
    | .die _ => ({ tls := false, input := none, replies := [] }, { c with core := { k2 with dead := some ECONNRESET }, clear := w2 })
    | .err _ =>
      -- hasinput() returns errno: the "communication error" branch: greeting, a line is read,
      -- QUIT is honoured, otherwise 450 and wait_for_quit()
      let (r3, inn3, w3) := readLine inn2 w2
      let buf3 := bufAfter inn2 w2.toSrc buf
      let k3 := { k2 with inn := inn3, lastbuf := buf3 }
      match r3 with
      | .die _ => ({ tls := false, input := none, replies := [220] }, { c with core := { k3 with dead := some ECONNRESET }, clear := w3 })
      | _ =>
        if isQuit buf3 then
          ({ tls := false, input := none, replies := [220, 221] }, { c with core := { k3 with sess := { freedata k3.sess with closed := true } }, clear := w3 })
        else ({ tls := false, input := none, replies := [220, 450] }, { c with core := { k3 with wq := true }, clear := w3 })
    | .line l =>
      if l.take 14 == [80, 79, 83, 84, 32, 47, 32, 72, 84, 84, 80, 47, 49, 46] then
        ({ tls := false, input := some l, replies := [Gen.mustWaitCode] }, { c with core := { k2 with sess := { k2.sess with closed := true } }, clear := w2 })
      else ({ tls := false, input := some l, replies := [Gen.mustWaitCode] }, { c with core := { k2 with wq := true }, clear := w2 })

/-- iterate until the program ends (fuel = an upper bound on the number of iterations) -/
def runFrom (cfg : Cfg) (c : Conn) : Nat → List Ev × Conn
  | 0 => ([], c)
  | fuel + 1 =>
    if c.core.stopped then ([], c)
    else
      let (e, c') := connStep cfg c
      let (es, cf) := runFrom cfg c' fuel
      (e :: es, cf)

/-- a whole connection -/
def run (cfg : Cfg) (clear tls : Wire) (hs : List HsV) (fuel : Nat) : List Ev × Conn :=
  let (e, c) := greet { core := { hs := hs }, clear := clear, tls := tls }
  let (es, cf) := runFrom cfg c fuel
  (e :: es, cf)

/-- the same loop on ONE wire (no second channel exists in this function) -/
def runOn (cfg : Cfg) (k : Core) (w : Wire) : Nat → List Ev × Core × Wire
  | 0 => ([], k, w)
  | fuel + 1 =>
    if k.stopped then ([], k, w)
    else
      let (e, k', w') := stepOn cfg k w
      let (es, kf, wf) := runOn cfg k' w' fuel
      (e :: es, kf, wf)

end QsmtpModel.StartTlsSrv
