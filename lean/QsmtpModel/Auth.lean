/-
Model of qsmtpd/auth.c (authgetl, auth_login, auth_plain, smtp_auth, auth_permitted) and of
qsmtpd/backends/auth_chkpw/qsauth_backend_cp.c (auth_backend_execute).

The environment is a parameter (oracle traces consumed in order):
* `RdRes`  — what each call of `net_readline(64, ..)` returns: a chunk, `-1` with `errno`, or the
             process ends in `dieerror()` (connection error; an exhausted script = connection closed);
* `WrRes`  — what each `netwrite()` returns: 0, `-1` with `errno`, or `dieerror()`;
* `Backend`— `wpipe`, `fork_clean`, `close(pi[0])`, the `write`s to the pipe, `close(pi[1])`,
             `waitpid` and the wait status of the checkpassword program.
`malloc`/`realloc` are assumed to succeed.

State that C keeps in globals (`xmitstat.authname`, `auth_host != NULL`, `sslauth`, `xmitstat.ssl`,
`xmitstat.tlsclient`) is the structure `State`.  `xmitstat.authname` is *written while the exchange
is still running* (`auth_plain` points it into the decoded buffer before the backend is asked,
`auth_login` decodes the user name straight into it); the handlers therefore return the value they
left in `*user` together with their result, and `smtpAuth` clears it on every result except 0 —
exactly as `smtp_auth()` does.
-/
import QsmtpModel.Base64
import QsmtpModel.Gen.Auth

namespace QsmtpModel.Auth
open QsmtpModel

/-! ### oracles, events, the monad -/

inductive RdRes where
  | chunk (b : List Byte)
  | err (e : Nat)
  | die (e : Nat)
  deriving Repr, DecidableEq

inductive WrRes where
  | ok
  | err (e : Nat)
  | die (e : Nat)
  deriving Repr, DecidableEq

/-- result of `waitpid(child, &wstat, 0)` -/
inductive Wait where
  | fail (e : Nat)
  | exited (status : Nat)
  | signaled (sig : Nat)
  deriving Repr, DecidableEq

structure Backend where
  pipe : Option Nat      -- `wpipe(pi) == -1`, errno
  fork : Option Nat      -- `fork_clean() == -1`, errno
  close0 : Bool          -- `close(pi[0]) != 0`
  wfail : Option Nat     -- ordinal (0, 1, 2) of the first `write(pi[1], ..)` returning -1
  close1 : Bool          -- `close(pi[1]) != 0`
  wait : Wait
  deriving Repr, DecidableEq

inductive Ev where
  | reply (b : List Byte)       -- netwrite() that succeeded
  | replyErr (b : List Byte)    -- netwrite() that failed
  | tarpit
  | sleep (n : Nat)
  | log (b : List Byte)         -- log_write(LOG_ERR, ..)
  | spawn                       -- fork_clean() returned a child
  | fd3 (b : List Byte)         -- write(pi[1], ..) that succeeded
  | fd3Err (b : List Byte)      -- write(pi[1], ..) that failed
  | eof                         -- close(pi[1]) succeeded: the child sees end of file on fd 3
  deriving Repr, DecidableEq

structure In where
  rd : List RdRes
  wr : List WrRes
  deriving Repr, DecidableEq

inductive Out (α : Type) where
  | ok (a : α) (rest : In) (ev : List Ev)
  | die (e : Nat) (ev : List Ev)
  | fault (f : Fault)

abbrev M (α : Type) := In → Out α

def M.pure (a : α) : M α := fun i => .ok a i []

def M.bind (m : M α) (f : α → M β) : M β := fun i =>
  match m i with
  | .ok a r ev =>
    match f a r with
    | .ok b r' ev' => .ok b r' (ev ++ ev')
    | .die e ev' => .die e (ev ++ ev')
    | .fault f => .fault f
  | .die e ev => .die e ev
  | .fault f => .fault f

instance : Monad M where
  pure := M.pure
  bind := M.bind

def emit (e : Ev) : M Unit := fun i => .ok () i [e]
def fault (f : Fault) : M α := fun _ => .fault f

abbrev EDONE : Int := (Gen.EDONE : Nat)
/-- `ECONNRESET`: what `dieerror()` is called with when the peer is gone -/
abbrev ECONNRESET : Nat := 104

/-- `netwrite(s)`: `none` = returned 0, `some e` = returned -1 with `errno = e` -/
def netwrite (s : List Byte) : M (Option Nat) := fun i =>
  match i.wr with
  | [] => .ok none i [.reply s]
  | .ok :: r => .ok none { i with wr := r } [.reply s]
  | .err e :: r => .ok (some e) { i with wr := r } [.replyErr s]
  | .die e :: _ => .die e [.replyErr s]

/-- `if (!netwrite(..)) return -EDONE; return -errno;` -/
def doneOr : Option Nat → Int
  | none => -EDONE
  | some e => -(e : Int)

/-- `netwrite(..) ? errno : v` -/
def errnoOr (v : Int) : Option Nat → Int
  | none => v
  | some e => (e : Int)

def errInput : M Int := do
  emit .tarpit
  let w ← netwrite Gen.authErrInput
  pure (doneOr w)

def errBase64 : M Int := do
  emit .tarpit
  let w ← netwrite Gen.authErrBase64
  pure (doneOr w)

/-! ### authgetl -/

inductive Raw where
  | line (buf : List Byte) (rest : List RdRes)
  | err (e : Nat) (rest : List RdRes)
  | die (e : Nat)
  | fault (f : Fault)

/-- the `do { .. } while (authin->s[authin->len - 1] != '\n')` loop; `buf` = `authin` so far -/
def getlLoop (buf : List Byte) : List RdRes → Raw
  | [] => .die ECONNRESET
  | .die e :: _ => .die e
  | .err e :: rest => .err e rest
  | .chunk b :: rest =>
    if b.length > Gen.authGetlAlloc then .fault (.oobWrite (buf.length + Gen.authGetlAlloc))
    else
      let buf' := buf ++ b
      match buf'.getLast? with
      | none => .fault (.oobRead 0)          -- `authin->s[-1]`: net_readline() returned 0 at once
      | some c => if c = LF then .line buf' rest else getlLoop buf' rest

/-- `authin->len` after `--authin->len` and the removal of one CR in front of the LF -/
def lineLen (buf : List Byte) : Nat :=
  if buf.length - 1 ≠ 0 ∧ buf[buf.length - 1 - 1]? = some CR then buf.length - 1 - 1 else buf.length - 1

/-- `authgetl(&authin)`: `(r, line)`; `r = 0` ⇒ `line` = the line without its terminator, non-empty -/
def authGetl : M (Int × List Byte) := fun i =>
  match getlLoop [] i.rd with
  | .die e => .die e []
  | .fault f => .fault f
  | .err e rest => .ok (-(e : Int), []) { i with rd := rest } []
  | .line buf rest =>
    if buf.length - 1 ≠ 0 ∧ lineLen buf = 1 ∧ buf[0]? = some 42 then
      (do let w ← netwrite Gen.authCancelled; pure (doneOr w, [])) { i with rd := rest }
    else if lineLen buf = 0 then
      (do let r ← errInput; pure (r, [])) { i with rd := rest }
    else .ok (0, buf.take (lineLen buf)) { i with rd := rest } []

/-! ### the checkpassword backend -/

def logReply (msg : List Byte) : M Int := do
  emit (.log msg)
  let w ← netwrite Gen.authTempNoAuth
  pure (doneOr w)

/-- `WRITE(a, b)`: one `write(pi[1], ..)`; `true` = it failed -/
def pipeWrite (bk : Backend) (k : Nat) (b : List Byte) : M Bool :=
  if bk.wfail = some k then do emit (.fd3Err b); pure true
  else do emit (.fd3 b); pure false

/-- `auth_backend_execute(user, pass, NULL)` -/
def backend (bk : Backend) (user pass : List Byte) : M Int :=
  match bk.pipe with
  | some _ => logReply Gen.authLogPipe
  | none =>
    match bk.fork with
    | some _ => logReply Gen.authLogFork
    | none => do
      emit .spawn
      if bk.close0 then logReply Gen.authLogWrite
      else
        let f0 ← pipeWrite bk 0 (user ++ [0])
        if f0 then logReply Gen.authLogWrite
        else
          let f1 ← pipeWrite bk 1 (pass ++ [0])
          if f1 then logReply Gen.authLogWrite
          else
            let f2 ← pipeWrite bk 2 [0]
            if f2 then logReply Gen.authLogWrite
            else if bk.close1 then logReply Gen.authLogWrite
            else do
              emit .eof
              match bk.wait with
              | .fail _ => logReply Gen.authLogChild
              | .signaled _ => logReply Gen.authLogChild
              | .exited n => pure (if n % 256 ≠ 0 then 1 else 0)

/-! ### the mechanisms -/

/-- the response of the client: initial response on the command line if `linein.len > off`, else
prompt and read a line.  `.inl r` = give up with result `r`; `.inr resp` = the base64 text. -/
def response (linein : List Byte) (off : Nat) (prompt : List Byte) : M (Int ⊕ List Byte) :=
  if linein.length > off then pure (.inr (linein.drop off))
  else do
    let w ← netwrite prompt
    match w with
    | some e => pure (.inl (-(e : Int)))
    | none =>
      let (r, line) ← authGetl
      if r < 0 then pure (.inl r) else pure (.inr line)

/-- `username_invalid()`: the decoded user name contains a control character -/
def usernameInvalid (user : List Byte) : Bool := user.any (fun c => c < 32 || c == 127)

/-- `auth_login(user)`: result and the value left in `*user` -/
def authLogin (linein : List Byte) (bk : Backend) : M (Int × List Byte) := do
  match ← response linein Gen.authLoginArgOffset Gen.authLoginUser with
  | .inl r => pure (r, [])
  | .inr resp =>
    match Base64.decode resp with
    | .error (.fault f) => fault f
    | .error .bad => do let r ← errBase64; pure (r, [])
    | .ok user =>
      match ← netwrite Gen.authLoginPass with
      | some e => pure (-(e : Int), user)
      | none =>
        let (r, line) ← authGetl
        if r < 0 then pure (r, user)
        else
          match Base64.decode line with
          | .error (.fault f) => fault f
          | .error .bad => do let r ← errBase64; pure (r, user)
          | .ok pass =>
            if user = [] ∨ pass = [] ∨ usernameInvalid user then do let r ← errInput; pure (r, user)
            else do let r ← backend bk user pass; pure (r, user)

/-- C string starting at `s[k]` inside a decoded buffer: up to the next NUL (the buffer is always
followed by a NUL) -/
def cstrAt (s : List Byte) (k : Nat) : List Byte := (s.drop k).takeWhile (· ≠ 0)

/-- the field extraction of `auth_plain`: `(user, pass)` as left in `*user` / `pass` -/
def plainFields (slop : List Byte) : List Byte × List Byte :=
  let id := (cstrAt slop 0).length + 1
  if slop.length > id then
    let user := cstrAt slop id
    if slop.length > id + user.length + 1 then (user, cstrAt slop (id + user.length + 1))
    else (user, [])
  else ([], [])

/-- `auth_plain(user)` -/
def authPlain (linein : List Byte) (bk : Backend) : M (Int × List Byte) := do
  match ← response linein Gen.authPlainArgOffset Gen.authPlainPrompt with
  | .inl r => pure (r, [])
  | .inr resp =>
    match Base64.decode resp with
    | .error (.fault f) => fault f
    | .error .bad => do let r ← errBase64; pure (r, [])
    | .ok slop =>
      let (user, pass) := plainFields slop
      if user = [] ∨ pass = [] ∨ usernameInvalid user then do let r ← errInput; pure (r, user)
      else do let r ← backend bk user pass; pure (r, user)

/-! ### smtp_auth -/

structure State where
  authname : List Byte    -- xmitstat.authname (len = 0 ⇔ not authenticated by AUTH)
  authHost : Bool         -- auth_host != NULL (auth_setup() accepted the checkpassword setup)
  sslauth : Bool          -- control/forcesslauth
  ssl : Bool              -- xmitstat.ssl != NULL
  tlsclient : Bool        -- xmitstat.tlsclient != NULL (client certificate accepted)
  deriving Repr, DecidableEq

def authPermitted (st : State) : Bool :=
  if ¬ st.authHost then false
  else if st.sslauth ∧ ¬ st.ssl then false
  else true

/-- `auth_setup(argc, argv)` with `auth_backend_setup()`: does `auth_host` become non-NULL?
`domainInvalid` = `domainvalid(argv[1]) != 0`, `executable` = `access(argv[2], X_OK) == 0`. -/
def authSetup (argc : Nat) (domainInvalid executable : Bool) : Bool :=
  if argc = 1 then false
  else if domainInvalid then false
  else if argc < 4 then false
  else executable

/-- `is_authenticated_client()` of include/qsmtpd/qsmtpd.h -/
def isAuthenticatedClient (st : State) : Bool := st.authname ≠ [] ∨ st.tlsclient

/-- `!strncasecmp(text, type, mechlen) && (type[mechlen] == '\0' || type[mechlen] == ' ')`
with `type` the C string at `linein.s + 5` (terminated by the NUL at `linein.s[linein.len]`) -/
def mechMatches (name : List Byte) (linein : List Byte) : Bool :=
  let type := linein.drop Gen.authTypeOffset ++ [0]
  ((type.take name.length).map lower == name.map lower) &&
    (type[name.length]? == some 0 || type[name.length]? == some SP)

def runMech (kind : Nat) (linein : List Byte) (bk : Backend) : M (Int × List Byte) :=
  if kind = 0 then authLogin linein bk else authPlain linein bk

/-- the `for (i = 0; authcmds[i].text; i++)` loop of `smtp_auth()` -/
def mechLoop (st : State) (linein : List Byte) (bk : Backend) : List (List Byte × Nat) → M (Int × State)
  | [] => do
    let w ← netwrite Gen.authUnknownMech
    pure (errnoOr EDONE w, st)
  | (name, kind) :: rest =>
    if mechMatches name linein then do
      let (r, user) ← runMech kind linein bk
      -- `*user` is `xmitstat.authname`
      if r = 0 then do
        let w ← netwrite Gen.authOk
        pure (errnoOr 0 w, { st with authname := user })
      else if r = 1 then do
        emit (.sleep Gen.authFailSleep)
        let w ← netwrite Gen.authFailed
        pure (errnoOr EDONE w, { st with authname := [] })
      else pure (-r, { st with authname := [] })
    else mechLoop st linein bk rest

/-- `smtp_auth()`; `linein` = the command line without CRLF, as left by `net_read()`.
The dispatcher guarantees `linein` starts with "AUTH " (flags 5 of the table row). -/
def smtpAuth (st : State) (linein : List Byte) (bk : Backend) : M (Int × State) :=
  if linein.length < Gen.authTypeOffset then fault (.precond linein.length)
  else if st.authname ≠ [] ∨ ¬ authPermitted st then pure (1, st)
  else mechLoop { st with authname := [] } linein bk Gen.authMechs

/-- the dispatcher's part for the AUTH row of `commands[]` (owned by the session module; stated
here over the parameters `mask` and `comstate`): `if (comstate & mask) .. else flagbogus = 1` -/
def authCommand (mask comstate : Nat) (st : State) (linein : List Byte) (bk : Backend) : M (Int × State) :=
  if comstate &&& mask ≠ 0 then smtpAuth st linein bk else pure (1, st)

/-! ### observations -/

/-- everything written to the pipe -/
def fd3Bytes : List Ev → List Byte
  | [] => []
  | .fd3 b :: r => b ++ fd3Bytes r
  | _ :: r => fd3Bytes r

/-- what the checkpassword program can read on descriptor 3 until end of file -/
def childSaw (ev : List Ev) : Option (List Byte) :=
  if Ev.eof ∈ ev then some (fd3Bytes ev) else none

/-- the replies that reached the client -/
def replies : List Ev → List (List Byte)
  | [] => []
  | .reply b :: r => b :: replies r
  | _ :: r => replies r

/-! ### a session: several AUTH commands, state carried over -/

structure Step where
  linein : List Byte
  inp : In
  bk : Backend

inductive StepOut where
  | ret (r : Int) (st : State) (ev : List Ev)
  | die (e : Nat) (ev : List Ev)
  | fault (f : Fault)

def runStep (st : State) (s : Step) : StepOut :=
  match smtpAuth st s.linein s.bk s.inp with
  | .ok (r, st') _ ev => .ret r st' ev
  | .die e ev => .die e ev
  | .fault f => .fault f

def runSteps (st : State) : List Step → List StepOut
  | [] => []
  | s :: rest =>
    match runStep st s with
    | .ret r st' ev => .ret r st' ev :: runSteps st' rest
    | o => [o]

end QsmtpModel.Auth
