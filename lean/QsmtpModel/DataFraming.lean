/-
What the DATA phase of qsmtpd/data.c makes of the byte stream, as far as *framing* is concerned
(C05): where the message ends, whether it can be queued, and which of the following bytes are read
as commands afterwards.  Built on the reader model (Netio); header checks, sizes and the queue are
the business of the Data model.
  * normal phase: lines are copied until a line "." is read;
  * any reader error: the message is refused and the input is drained until a *successfully read*
    line "." (loop_data / err_write; `linein.len` is 0 after a failed read);
  * end of stream: the connection dies.
-/
import QsmtpModel.Netio

namespace QsmtpModel.DataFraming
open QsmtpModel QsmtpModel.Netio

inductive End where
  | queued                 -- terminator found, no reader error before it
  | refused                -- a reader error occurred; drained up to a "." line
  | died                   -- the stream ended inside the DATA phase
  deriving Repr, DecidableEq

structure Outcome where
  verdict : End
  lines : List (List Byte)        -- message lines handed on (before the terminator), normal phase only
  inn : List Byte                 -- look-ahead buffer when the DATA phase ends
  src : Src                       -- what is still unread
  errors : Nat                    -- reader errors seen
  firstErr : Option Errno         -- errno of the first one (what smtp_data reports)
  termAfterError : Bool           -- the "." line that ended the phase directly followed a reader error
                                  -- (it is the tail of a malformed line, not a line of its own)

/-- `draining = false`: the two copy loops of smtp_data(); `true`: loop_data. -/
def dataPhase (inn : List Byte) (src : Src) (draining : Bool) (acc : List (List Byte)) (errs : Nat)
    (lastErr : Bool) (first : Option Errno) : Nat → Outcome
  | 0 => { verdict := .died, lines := acc, inn := inn, src := src, errors := errs, firstErr := first, termAfterError := false }
  | fuel + 1 =>
    match netRead true inn src with
    | (.die _, inn', src') =>
      { verdict := .died, lines := acc, inn := inn', src := src', errors := errs, firstErr := first, termAfterError := false }
    | (.err e, inn', src') => dataPhase inn' src' true acc (errs + 1) true (first.orElse fun _ => some e) fuel
    | (.line l, inn', src') =>
      if l = [DOT] then
        { verdict := if draining then .refused else .queued, lines := acc, inn := inn', src := src',
          errors := errs, firstErr := first, termAfterError := lastErr }
      else dataPhase inn' src' draining (if draining then acc else acc ++ [l]) errs false first fuel

/-- the lines the command loop reads after the DATA phase (until the stream ends) -/
def commandLines (inn : List Byte) (src : Src) : Nat → List Rd
  | 0 => []
  | fuel + 1 =>
    match netRead true inn src with
    | (.die e, _, _) => [.die e]
    | (r, inn', src') => r :: commandLines inn' src' fuel

end QsmtpModel.DataFraming
