/-
Common vocabulary of every model: bytes, faults, C-like helpers.
Mathlib-free (this file is in the import closure of the driver executable).
-/
namespace QsmtpModel

abbrev Byte := UInt8

/-- Memory-safety (and asserted-precondition) outcomes of a modelled C function. -/
inductive Fault where
  | oobRead  (i : Nat)
  | oobWrite (i : Nat)
  | negSize  (n : Int)
  | precond  (what : Nat)
  deriving Repr, DecidableEq, Inhabited

def CR : Byte := 13
def LF : Byte := 10
def SP : Byte := 32
def TAB : Byte := 9
def DASH : Byte := 45
def DOT : Byte := 46
def NUL : Byte := 0

/-- `memchr(b, c, n)` / `strchr` on a NUL-free list: index of the first occurrence. -/
def memchr (c : Byte) : List Byte → Option Nat
  | [] => none
  | x :: xs => if x = c then some 0 else (memchr c xs).map (· + 1)

/-- `strchr(s + from, c)` as an index into `s`. -/
def findFrom (c : Byte) (s : List Byte) (start : Nat) : Option Nat :=
  (memchr c (s.drop start)).map (· + start)

/-- signed view of a C `char` on the target (x86-64: `char` is signed). -/
def sbyte (b : Byte) : Int := if b.toNat < 128 then b.toNat else (b.toNat : Int) - 256

def str (s : String) : List Byte := s.toUTF8.toList

/-- ASCII lower-casing as `tolower` in the C locale. -/
def lower (b : Byte) : Byte := if 65 ≤ b.toNat ∧ b.toNat ≤ 90 then b + 32 else b

def hexDigit (n : Nat) : Char :=
  if n < 10 then Char.ofNat (48 + n) else Char.ofNat (87 + n)

def toHex (bs : List Byte) : String :=
  String.ofList (bs.flatMap fun b => [hexDigit (b.toNat / 16), hexDigit (b.toNat % 16)])

def hexVal (c : Char) : Option Nat :=
  if '0' ≤ c ∧ c ≤ '9' then some (c.toNat - 48)
  else if 'a' ≤ c ∧ c ≤ 'f' then some (c.toNat - 87)
  else if 'A' ≤ c ∧ c ≤ 'F' then some (c.toNat - 55)
  else none

def fromHexAux : List Char → List Byte → Option (List Byte)
  | [], acc => some acc.reverse
  | [_], _ => none
  | a :: b :: rest, acc =>
    match hexVal a, hexVal b with
    | some x, some y => fromHexAux rest (UInt8.ofNat (x * 16 + y) :: acc)
    | _, _ => none

/-- hex string to bytes; the single character `-` denotes the empty string. -/
def fromHex (s : String) : Option (List Byte) :=
  if s = "-" then some [] else fromHexAux s.toList []

def hexOrDash (bs : List Byte) : String := if bs.isEmpty then "-" else toHex bs

end QsmtpModel
