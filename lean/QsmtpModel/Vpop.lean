/-
Model of qsmtpd/backends/user_vpopm/vpop.c: vget_dir(), qmexists(), user_exists(), of getfile()
(getfile.c) and of the lookup in users/cdb (lib/cdb.c: cdb_hash, cdb_unpack, cdb_seekmm).

The file system is an abstract directory tree `DirTree` with parent links.  The *only* thing the
tree answers is the resolution of ONE path component inside ONE directory (`DirTree.child`);
everything else -- splitting a path at '/', the meaning of "." and "..", of an absolute path, of a
trailing slash, ENOTDIR/ENAMETOOLONG -- is done by the model of openat(2) below, so that a name
handed to openat() keeps the meaning it has for the kernel.  Every single component resolution is
recorded (`Ev`), which is what the confinement theorem of C13 talks about.

Code shape that differs between the unrepaired and the repaired source (refusal of "." and "..",
bounded search for the next dash, errno classes) is a parameter `Cfg`; `Cfg.src` is what the
extractor found in the working tree.
-/
import QsmtpModel.Basic
import QsmtpModel.Gen.Vpop

namespace QsmtpModel.Vpop
open QsmtpModel

def SLASH : Byte := 47
def COLON : Byte := 58
def BANG : Byte := 33

abbrev ENOENT : Nat := Gen.sysENOENT
abbrev EACCES : Nat := Gen.sysEACCES
abbrev ENOTDIR : Nat := Gen.sysENOTDIR
abbrev EISDIR : Nat := Gen.sysEISDIR
abbrev ENOMEM : Nat := Gen.sysENOMEM
abbrev ENAMETOOLONG : Nat := Gen.sysENAMETOOLONG
abbrev EFAULT : Nat := Gen.sysEFAULT
abbrev EDONE : Nat := Gen.edone
abbrev pathMax : Nat := Gen.sysPATH_MAX
abbrev nameMax : Nat := Gen.sysNAME_MAX

/-- C string view: the bytes before the first NUL. -/
def cstr (b : List Byte) : List Byte := b.takeWhile (· ≠ NUL)

/-! ### The directory tree -/

/-- answer of the tree to "entry `name` of directory `d`" -/
inductive Lookup where
  | absent
  | node (n : Nat)
  | err (e : Nat)      -- the lookup itself fails (EACCES: entry not accessible, ENOMEM, EIO, ...)
  deriving Repr, DecidableEq, Inhabited

structure DirTree where
  root : Nat                              -- "/"
  parent : Nat → Nat                      -- ".." of a directory
  isDir : Nat → Bool
  content : Nat → List Byte               -- bytes of a regular file
  readErr : Nat → Option Nat              -- read(2) on this node fails with that errno
  child : Nat → List Byte → Lookup        -- ONE component, never ".", ".." or a name with '/'

/-- one single-component resolution: directory node and the component looked up in it -/
abbrev Ev := Nat × List Byte

/-- split a path at '/', dropping empty pieces ("a//b/" has the components a, b) -/
def comps : List Byte → List Byte → List (List Byte)
  | acc, [] => if acc = [] then [] else [acc]
  | acc, b :: bs =>
    if b = SLASH then (if acc = [] then comps [] bs else acc :: comps [] bs)
    else comps (acc ++ [b]) bs

/-- what the kernel does with one component in directory `d` -/
def step (t : DirTree) (d : Nat) (c : List Byte) : Except Nat Nat :=
  if c = [DOT] then .ok d
  else if c = [DOT, DOT] then .ok (t.parent d)
  else match t.child d c with
    | .node n => .ok n
    | .err e => .error e
    | .absent => .error (if c.length > nameMax then ENAMETOOLONG else ENOENT)

def walk (t : DirTree) : Nat → List (List Byte) → Except Nat Nat × List Ev
  | cur, [] => (.ok cur, [])
  | cur, c :: cs =>
    if t.isDir cur = false then (.error ENOTDIR, [])
    else match step t cur c with
      | .error e => (.error e, [(cur, c)])
      | .ok n => let r := walk t n cs; (r.1, (cur, c) :: r.2)

/-- `openat(base, path, flags)`; `dirOnly` = O_DIRECTORY (get_dirfd()).  `path` is a C string. -/
def openat (t : DirTree) (base : Nat) (path0 : List Byte) (dirOnly : Bool) : Except Nat Nat × List Ev :=
  let path := cstr path0
  if path = [] then (.error ENOENT, [])
  else if path.length ≥ pathMax then (.error ENAMETOOLONG, [])
  else
    let r := walk t (if path.head? = some SLASH then t.root else base) (comps [] path)
    match r.1 with
    | .error _ => r
    | .ok n =>
      if (dirOnly ∨ path.getLast? = some SLASH) ∧ t.isDir n = false then (.error ENOTDIR, r.2) else r

/-! ### users/cdb -/

def cdbHash (key : List Byte) : UInt32 :=
  key.foldl (fun h b => (h + (h <<< 5)) ^^^ b.toUInt32) (UInt32.ofNat Gen.cdbHashStart)

/-- byte `i` of the mapping of a file of `img.length` bytes: the rest of the last page reads as 0,
anything beyond is a fault (SIGSEGV/SIGBUS). -/
def mmGet (img : List Byte) (i : Nat) : Except Fault Byte :=
  match img[i]? with
  | some b => .ok b
  | none => if i < (img.length + 4095) / 4096 * 4096 then .ok 0 else .error (.oobRead i)

def unpack (img : List Byte) (i : Nat) : Except Fault Nat := do
  let b0 ← mmGet img i
  let b1 ← mmGet img (i + 1)
  let b2 ← mmGet img (i + 2)
  let b3 ← mmGet img (i + 3)
  pure (b0.toNat + 256 * b1.toNat + 65536 * b2.toNat + 16777216 * b3.toNat)

/-- `strncmp(img + at, key, len) == 0` for a NUL free key -/
def keyAt (img : List Byte) (at_ : Nat) : List Byte → Except Fault Bool
  | [] => .ok true
  | k :: ks => do
    let b ← mmGet img at_
    if b = k then keyAt img (at_ + 1) ks else pure false

/-- the slot loop of cdb_seekmm(); result: offset of the value -/
def seekLoop (img key : List Byte) (h : UInt32) (tpos lenhash : Nat) : Nat → Nat → Except Fault (Option Nat)
  | 0, _ => .ok none
  | fuel + 1, h2 => do
    let cur := tpos + 8 * h2
    let poskd ← unpack img (cur + 4)
    if poskd = 0 then pure none
    else
      let hs ← unpack img cur
      let hit ← (if hs = h.toNat then do
          let kl ← unpack img poskd
          if kl = key.length then keyAt img (poskd + 8) key else pure false
        else pure false)
      if hit then pure (some (poskd + 8 + key.length))
      else seekLoop img key h tpos lenhash fuel (if h2 + 1 = lenhash then 0 else h2 + 1)

/-- cdb_seekmm() on the image of a non-empty regular file: offset of the value of the first
record with that key, `none` if there is none (errno 0). All offsets are 32 bit in the C code; the
model's files are far smaller than 4 GiB (precondition, not checked). -/
def seekmm (img key : List Byte) : Except Fault (Option Nat) := do
  let h := cdbHash key
  let pos := 8 * (h.toNat % 256)
  let lenhash ← unpack img (pos + 4)
  if lenhash = 0 then pure none
  else
    let tpos ← unpack img pos
    seekLoop img key h tpos lenhash lenhash ((h.toNat / 256) % lenhash)

/-- what open("users/cdb") + fstat() + cdb_seekmm() can deliver -/
inductive Cdb where
  | openFails (e : Nat)                                -- open() fails with errno e
  | isDir                                              -- users/cdb is a directory
  | empty                                              -- size 0
  | mapFails (e : Nat)                                 -- mmap() fails with errno e
  | table (recs : List (List Byte × List Byte))        -- finite map oracle, first match wins
  | raw (img : List Byte)                              -- the bytes of a real cdb file
  deriving Repr, Inhabited

inductive CdbRes where
  | found (v : List Byte)     -- the bytes from the start of the value
  | notFound                  -- NULL, errno 0
  | error (e : Nat)           -- NULL, errno e
  | fault (f : Fault)
  deriving Repr, Inhabited

def Cdb.find (c : Cdb) (key : List Byte) : CdbRes :=
  match c with
  | .openFails e => .error e
  | .isDir => .error EISDIR
  | .empty => .notFound
  | .mapFails e => .error e
  | .table recs =>
    match recs.find? (fun r => r.1 == key) with
    | some r => .found r.2
    | none => .notFound
  | .raw img =>
    if img = [] then .notFound
    else match seekmm img key with
      | .ok (some off) => .found (img.drop off)
      | .ok none => .notFound
      | .error f => .fault f

/-! ### Configuration found in the source -/

structure Cfg where
  refuseDotNames : Bool          -- "." and ".." refused like names with '/'
  dashScanBounded : Bool         -- next dash searched inside the local part only
  userSoft : List Nat            -- errno of get_dirfd(user dir) meaning "no such directory"
  qmResource : List Nat
  qmAssume : List Nat
  qmAbsent : List Nat
  domResource : List Nat
  domAbsent : List Nat
  domAssume : List Nat
  vgetOpenAbsent : List Nat
  vgetOpenResource : List Nat
  vgetSeekResource : List Nat
  deriving Repr, DecidableEq

/-- the working tree -/
def Cfg.src : Cfg :=
  { refuseDotNames := Gen.ueRefusesDotNames, dashScanBounded := Gen.ueDashScanBounded,
    userSoft := Gen.ueUserSoft, qmResource := Gen.qmResource, qmAssume := Gen.qmAssume,
    qmAbsent := Gen.qmAbsent, domResource := Gen.ueDomResource, domAbsent := Gen.ueDomAbsent,
    domAssume := Gen.ueDomAssume, vgetOpenAbsent := Gen.vgetOpenAbsent,
    vgetOpenResource := Gen.vgetOpenResource, vgetSeekResource := Gen.vgetSeekResource }

/-- the repaired code (proposed_fixes/C13-*.diff) -/
def Cfg.fixed : Cfg :=
  { refuseDotNames := true, dashScanBounded := true,
    userSoft := [2, 20, 36], qmResource := [12, 23, 24], qmAssume := [13], qmAbsent := [2, 21, 36],
    domResource := [24, 23, 12], domAbsent := [2, 20], domAssume := [13],
    vgetOpenAbsent := [2], vgetOpenResource := [24, 23, 12], vgetSeekResource := [24, 23, 12] }

/-- the code as found at the start of the work (snapshot 856b6dd) -/
def Cfg.orig : Cfg :=
  { Cfg.fixed with refuseDotNames := false, dashScanBounded := false, userSoft := [2, 20], qmAbsent := [2, 21] }

/-! ### State and environment -/

/-- `struct userconf` as far as user_exists() touches it -/
structure Ds where
  domainpath : List Byte        -- with the trailing '/', [] = unset
  domaindir : Option Nat        -- domaindirfd (node), none = -1
  userdir : Option Nat          -- userdirfd
  deriving Repr, DecidableEq, Inhabited

/-- userconf_init() / the state after userconf_free() -/
def Ds.init : Ds := ⟨[], none, none⟩

structure Env where
  tree : DirTree
  cwd : Nat                          -- AT_FDCWD (/var/qmail)
  controlDir : Nat                   -- controldir_fd
  cdb : Cdb
  vpopbounce : Option (List Byte)    -- the C string `vpopbounce`, none = NULL
  netFail : Bool                     -- err_control()/err_control2(): the 421 could not be written

/-- userbackend_init(): control/vpopbounce loaded unprocessed; NULL when absent or empty -/
def loadVpopbounce (file : Option (List Byte)) : Option (List Byte) :=
  match file with
  | none => none
  | some c => if c = [] then none else some (cstr c)

/-- result of err_control(): `res = errno; if (err_control(..) == 0) res = EDONE;` -/
def ctlErr (env : Env) (e : Nat) : Nat := if env.netFail then e else EDONE

/-! ### vget_dir -/

structure VgetOut where
  res : Int
  ds : Ds
  ec : Nat

/-- skip one NUL terminated field -/
def skipField (b : List Byte) : List Byte := (b.dropWhile (· ≠ NUL)).drop 1

/-- `while (*(cdb_buf + len - 1) == '/') --len;` (the byte before the field is the NUL of the
previous field, so the loop stops at 0) -/
def stripSlashes (p : List Byte) : List Byte := (p.reverse.dropWhile (· = SLASH)).reverse

def vgetDir (cfg : Cfg) (env : Env) (ds : Ds) (domain : List Byte) : VgetOut :=
  let cdbkeylen := domain.length + 2
  if cdbkeylen + 1 ≥ Gen.cdbKeySize then ⟨-(EFAULT : Int), ds, 0⟩
  else
    let key := BANG :: domain ++ [DASH]
    match env.cdb with
    | .openFails e =>
      if e ∈ cfg.vgetOpenAbsent then ⟨0, ds, 0⟩
      else if e ∈ cfg.vgetOpenResource then ⟨-(ENOMEM : Int), ds, 0⟩
      else ⟨-(EDONE : Int), ds, 1⟩
    | c =>
      match c.find key with
      | .notFound => ⟨0, ds, 0⟩
      | .error e =>
        if e ∈ cfg.vgetSeekResource then ⟨-(ENOMEM : Int), ds, 0⟩ else ⟨-(EDONE : Int), ds, 1⟩
      | .fault _ => ⟨-1000000, ds, 0⟩          -- crash; observable as FAULT, never as a value
      | .found v =>
        let p := stripSlashes (cstr (skipField (skipField (skipField v))))
        if p.length + 1 ≠ ds.domainpath.length ∨ ds.domainpath.take p.length ≠ p then
          ⟨1, ⟨p ++ [SLASH], none, none⟩, 0⟩
        else ⟨1, { ds with userdir := none }, 0⟩

/-! ### qmexists -/

def colons (s : List Byte) : List Byte := s.map fun b => if b = DOT then COLON else b

/-- the file name built in `filetmp`; `none` = one of the length checks fails (-ENOENT) -/
def qmName (suff : Option (List Byte)) (dflt : Bool) : Option (List Byte) :=
  let l := Gen.dotqm.length
  match suff with
  | some s =>
    if l + s.length ≥ Gen.filetmpSize then none
    else
      let l := l + s.length
      if dflt then
        if l + 1 ≥ Gen.filetmpSize then none
        else if l + 1 + Gen.qmDefault.length ≥ Gen.filetmpSize then none
        else some (Gen.dotqm ++ colons s ++ [DASH] ++ Gen.qmDefault)
      else some (Gen.dotqm ++ colons s)
  | none =>
    if dflt then
      if l + Gen.qmDefault.length ≥ Gen.filetmpSize then none else some (Gen.dotqm ++ Gen.qmDefault)
    else some Gen.dotqm

structure QmOut where
  res : Int
  fd : Option Nat          -- `*fd` when res = 1: some node, none = -1
  evs : List Ev
  ec : Nat

def qmexists (cfg : Cfg) (env : Env) (dd : Nat) (suff : Option (List Byte)) (dflt : Bool) : QmOut :=
  match qmName suff dflt with
  | none => ⟨-(ENOENT : Int), none, [], 0⟩
  | some name =>
    let r := openat env.tree dd name false
    match r.1 with
    | .ok n => ⟨1, some n, r.2, 0⟩
    | .error e =>
      if e ∈ cfg.qmResource then ⟨-(ENOMEM : Int), none, r.2, 0⟩
      else if e ∈ cfg.qmAssume then ⟨1, none, r.2, 0⟩
      else if e ∈ cfg.qmAbsent then ⟨0, none, r.2, 0⟩
      else ⟨-(ctlErr env e : Int), none, r.2, 1⟩

/-! ### user_exists -/

structure Out where
  res : Int
  ds : Ds
  pathEvs : List Ev        -- resolution of the configured domain path (from the working directory)
  evs : List Ev            -- everything resolved afterwards
  ec : Nat                 -- calls of err_control()/err_control2()

/-- offsets of all dashes of `s`, counted from `off` -/
def dashIdx (off : Nat) : List Byte → List Nat
  | [] => []
  | b :: bs => if b = DASH then off :: dashIdx (off + 1) bs else dashIdx (off + 1) bs

/-- the offsets `p - localpart->s` visited by the prefix loop: the first dash is searched inside
the local part (memchr), the following ones by strchr() -- which runs on into the text behind the
local part up to the NUL of the address -- or, in the repaired code, by memchr() again. -/
def dashPositions (cfg : Cfg) (loc tail : List Byte) : List Nat :=
  if DASH ∈ loc then dashIdx 0 (if cfg.dashScanBounded then loc else cstr (loc ++ tail)) else []

/-- the `while (p)` loop; `buf` is the memory at localpart->s -/
def prefixLoop (cfg : Cfg) (env : Env) (dd : Nat) (buf : List Byte) :
    List Nat → List Ev → Option QmOut × List Ev
  | [], evs => (none, evs)
  | p :: ps, evs =>
    let q := qmexists cfg env dd (some (buf.take p)) true
    if q.res ≠ 0 then (some q, evs ++ q.evs) else prefixLoop cfg env dd buf ps (evs ++ q.evs)

def readNode (t : DirTree) (n : Nat) (count : Nat) : Except Nat (List Byte) :=
  if t.isDir n then .error EISDIR
  else match t.readErr n with
    | some e => .error e
    | none => .ok ((t.content n).take count)

/-- the literal test of the repaired code -/
def isDotName (loc : List Byte) : Bool :=
  (loc.length = 1 ∨ loc.length = 2) ∧ loc[0]? = some DOT ∧ loc[loc.length - 1]? = some DOT

/-- `res = qmexists(.., 2, NULL); if (res == 0) res = qmexists(.., 3, NULL);` -/
def probeLocal (cfg : Cfg) (env : Env) (dd : Nat) (loc : List Byte) : QmOut :=
  let q2 := qmexists cfg env dd (some loc) false
  if q2.res = 0 then
    let q3 := qmexists cfg env dd (some loc) true
    ⟨q3.res, q3.fd, q2.evs ++ q3.evs, q3.ec⟩
  else q2

/-- the end of user_exists(): .qmail-default and the comparison with control/vpopbounce -/
def catchAllStep (cfg : Cfg) (env : Env) (ds : Ds) (dd : Nat) (pev evs : List Ev) : Out :=
  let qd := qmexists cfg env dd none true
  let ev3 := evs ++ qd.evs
  if qd.res = 0 then ⟨0, Ds.init, pev, ev3, qd.ec⟩
  else if qd.res < 0 then ⟨qd.res, Ds.init, pev, ev3, qd.ec⟩
  else
    match env.vpopbounce, qd.fd with
    | some vpb, some n =>
      match readNode env.tree n (2 * vpb.length) with
      | .error e => ⟨-(ctlErr env e : Int), Ds.init, pev, ev3, 1⟩
      | .ok buff => if cstr buff = vpb then ⟨0, Ds.init, pev, ev3, 0⟩ else ⟨2, ds, pev, ev3, 0⟩
    | _, _ => ⟨2, ds, pev, ev3, 0⟩

/-- the dash prefix loop and what follows it -/
def afterProbe (cfg : Cfg) (env : Env) (ds : Ds) (dd : Nat) (loc tail : List Byte) (pev ev1 : List Ev) : Out :=
  match prefixLoop cfg env dd (loc ++ tail) (dashPositions cfg loc tail) ev1 with
  | (some qp, ev2) =>
    if qp.res > 0 then ⟨4, ds, pev, ev2, qp.ec⟩ else ⟨qp.res, Ds.init, pev, ev2, qp.ec⟩
  | (none, ev2) => catchAllStep cfg env ds dd pev ev2

/-- the part of user_exists() behind the successful get_dirfd() of the domain directory -/
def inDomain (cfg : Cfg) (env : Env) (ds : Ds) (dd : Nat) (loc tail : List Byte) (pev : List Ev) : Out :=
  let u := openat env.tree dd loc true
  match u.1 with
  | .ok n => ⟨1, { ds with userdir := some n }, pev, u.2, 0⟩
  | .error e =>
    if e ∉ cfg.userSoft then ⟨-(ctlErr env e : Int), Ds.init, pev, u.2, 1⟩
    else if e = EACCES then ⟨1, { ds with userdir := none }, pev, u.2, 0⟩
    else
      let ds := { ds with userdir := none }
      let q := probeLocal cfg env dd loc
      let ev1 := u.2 ++ q.evs
      if q.res > 0 then ⟨1, ds, pev, ev1, q.ec⟩
      else if q.res < 0 then ⟨q.res, Ds.init, pev, ev1, q.ec⟩
      else afterProbe cfg env ds dd loc tail pev ev1

/-- `user_exists(localpart, domain, ds)`; `tail` = the bytes that follow the local part in memory
up to the NUL of the address text (in addrparse(): '@' and the domain). -/
def userExists (cfg : Cfg) (env : Env) (ds0 : Ds) (loc tail domain : List Byte) : Out :=
  if SLASH ∈ loc then ⟨0, ds0, [], [], 0⟩
  else if cfg.refuseDotNames ∧ isDotName loc then ⟨0, ds0, [], [], 0⟩
  else
    let v := vgetDir cfg env ds0 domain
    if v.res < 0 then ⟨v.res, v.ds, [], [], v.ec⟩
    else if v.res = 0 then ⟨5, v.ds, [], [], v.ec⟩
    else
      let o := openat env.tree env.cwd v.ds.domainpath true
      match o.1 with
      | .error e =>
        if e ∈ cfg.domResource then ⟨-(e : Int), Ds.init, o.2, [], 0⟩
        else if e ∈ cfg.domAbsent then ⟨0, Ds.init, o.2, [], 0⟩
        else if e ∈ cfg.domAssume then ⟨1, { v.ds with domaindir := none }, o.2, [], 0⟩
        else ⟨-(ctlErr env e : Int), Ds.init, o.2, [], 1⟩
      | .ok dd => inDomain cfg env { v.ds with domaindir := some dd } dd loc tail o.2

/-- Descriptors lost by one call: vget_dir() keeps `ds->domaindirfd` when the domain path is the
one already cached in `ds` (only the user directory descriptor is closed), and user_exists() then
overwrites it with a freshly opened one.  Happens with the global cache used for MAIL FROM when
two sender addresses of one local domain are checked in a row; never with the fresh `ds` of
smtp_rcpt(). -/
def leakedFds (cfg : Cfg) (env : Env) (ds0 : Ds) (loc domain : List Byte) : Nat :=
  if SLASH ∈ loc then 0
  else if cfg.refuseDotNames ∧ isDotName loc then 0
  else
    let v := vgetDir cfg env ds0 domain
    if v.res = 1 ∧ v.ds.domaindir.isSome then 1 else 0

/-! ### getfile -/

structure GfOut where
  type : Nat
  res : Except Nat Nat
  evs : List Ev

/-- `getfile(ds, fn, &type, flags)`; `global` = flags & userconf_global; `type0` = the caller's
value of `*type` (left untouched on one path) -/
def getfile (env : Env) (ds : Ds) (fn : List Byte) (global : Bool) (type0 : Nat) : GfOut :=
  let viaDomain (type1 : Nat) (evs : List Ev) : GfOut :=
    let viaGlobal (evs : List Ev) : GfOut :=
      let r := openat env.tree env.controlDir fn false
      ⟨Gen.cfgGlobal, r.1, evs ++ r.2⟩
    match ds.domaindir with
    | some d =>
      let r := openat env.tree d fn false
      match r.1 with
      | .ok n => ⟨Gen.cfgDomain, .ok n, evs ++ r.2⟩
      | .error e =>
        if global = false ∨ e ≠ ENOENT then ⟨Gen.cfgDomain, .error e, evs ++ r.2⟩ else viaGlobal (evs ++ r.2)
    | none => if global = false then ⟨type1, .error ENOENT, evs⟩ else viaGlobal evs
  match ds.userdir with
  | some u =>
    let r := openat env.tree u fn false
    match r.1 with
    | .ok n => ⟨Gen.cfgUser, .ok n, r.2⟩
    | .error e => if e ≠ ENOENT then ⟨Gen.cfgUser, .error e, r.2⟩ else viaDomain Gen.cfgUser r.2
  | none => viaDomain type0 []

end QsmtpModel.Vpop
