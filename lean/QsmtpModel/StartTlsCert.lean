/-
qsmtpd/starttls.c: find_servercert() — which certificate (and key) file the server uses, looked up
by smtp_ehlo() every time EHLO is given (as long as TLS is not active).  The two file-scope buffers
`certfilename[certBufSize]` and `keyfilenamebuf[certBufSize]` and the pointer `keyfilename` KEEP what a
call leaves in them, so the function is modelled on the raw buffers with checked accesses:
an access outside a buffer is a `Fault`, not something to be totalised away.

`fixed = false` is the function as it was found: `oldlen = strlen(certfilename)` — the suffix that a
successful earlier call appended (".<ip>" or ".<ip>:<port>") is still there and the next call appends
behind it.  `fixed = true` is the repaired function (proposed_fixes/C17-servercert-second-ehlo.diff):
`oldlen` is the length of the plain name and both buffers are cut back to the plain names first.
Which of the two the working tree contains is extracted into `Gen.certOldlenFixed`.
-/
import QsmtpModel.Basic
import QsmtpModel.Gen.StartTlsSrv

namespace QsmtpModel.StartTlsCert
open QsmtpModel

abbrev bufSize : Nat := Gen.certBufSize

/-- `strlen(b + off)`; reading on behind the buffer is a fault -/
def strlenAt (b : List Byte) (off : Nat) : Except Fault Nat :=
  match memchr NUL (b.drop off) with
  | some n => .ok n
  | none => .error (.oobRead b.length)

/-- the C string at `b + off` -/
def cstrAt (b : List Byte) (off : Nat) : Except Fault (List Byte) := do
  let n ← strlenAt b off
  pure ((b.drop off).take n)

/-- `b[i] = v` -/
def setAt (b : List Byte) (i : Nat) (v : Byte) : Except Fault (List Byte) :=
  if i < b.length then .ok (b.set i v) else .error (.oobWrite i)

/-- `memcpy(b + off, data, data.length)` -/
def writeAt (b : List Byte) (off : Nat) (data : List Byte) : Except Fault (List Byte) :=
  if off + data.length ≤ b.length then .ok (b.take off ++ data ++ b.drop (off + data.length))
  else .error (.oobWrite b.length)

/-- `strncpy(b + off, src, n)` with `n` computed in `size_t`: a negative value is a huge one.
Writes exactly `n` bytes: the first `n` bytes of `src`, padded with NULs (no NUL if `src` is longer). -/
def strncpyAt (b : List Byte) (off : Nat) (src : List Byte) (n : Int) : Except Fault (List Byte) :=
  if n < 0 then .error (.negSize n)
  else writeAt b off (src.take n.toNat ++ List.replicate (n.toNat - src.length) NUL)

structure St where
  cert : List Byte           -- certfilename[0 .. bufSize)
  keyb : List Byte           -- keyfilenamebuf[0 .. bufSize)
  keyIsBuf : Bool := false   -- keyfilename == keyfilenamebuf (else == certfilename)
  deriving Repr, DecidableEq

def pad (name : List Byte) : List Byte := name ++ List.replicate (bufSize - name.length) NUL

/-- the static initialisers -/
def init : St := { cert := pad Gen.certBaseName, keyb := pad Gen.keyBaseName }

/-- `strlen("control/")` -/
def dirOffs : Nat := 8

/-- `faccessat(controldir_fd, name + diroffs, R_OK, 0) == 0`: the file system is an oracle on names -/
def access (fs : List Byte → Bool) (b : List Byte) : Except Fault Bool := do
  let name ← cstrAt b dirOffs
  pure (fs name)

/-- the "found" exit with a suffixed name: the suffix goes to the key file name as well; the key file
is used if it is readable -/
def foundSuffixed (fs : List Byte → Bool) (oldlen : Nat) (c : List Byte) (st : St) : Except Fault (Bool × St) := do
  -- memcpy(keyfilenamebuf + oldlen - 1, certfilename + oldlen, sizeof(certfilename) - oldlen)
  if oldlen = 0 ∨ oldlen > c.length then throw (.oobRead oldlen)
  let k ← writeAt st.keyb (oldlen - 1) (c.drop oldlen)
  let hasKey ← access fs k
  pure (true, { cert := c, keyb := k, keyIsBuf := hasKey || st.keyIsBuf })

/-- `find_servercert(localport)`: (found, buffers afterwards) -/
def findServercert (fixed : Bool) (fs : List Byte → Bool) (ip : List Byte) (port : Option (List Byte)) (st0 : St) :
    Except Fault (Bool × St) := do
  let base := Gen.certBaseName.length
  let (oldlen, st) ← (if fixed then do
      let c ← setAt st0.cert base NUL
      let k ← setAt st0.keyb (base - 1) NUL
      pure (base, ({ cert := c, keyb := k, keyIsBuf := false } : St))
    else do
      let n ← strlenAt st0.cert 0
      pure (n, st0) : Except Fault (Nat × St))
  -- append ".<ip>"
  let c ← setAt st.cert oldlen DOT
  let c ← strncpyAt c (oldlen + 1) ip ((bufSize : Int) - oldlen - 1)
  -- with the port
  let c ← (match port with
    | none => pure (Sum.inr c)
    | some p => do
      let iplen := oldlen + 1 + ip.length
      let c2 ← setAt c iplen 58
      let c2 ← strncpyAt c2 (iplen + 1) p ((bufSize : Int) - iplen - 1)
      if (← access fs c2) then pure (Sum.inl c2)
      else do
        let c3 ← setAt c2 iplen NUL
        pure (Sum.inr c3) : Except Fault (List Byte ⊕ List Byte))
  match c with
  | .inl c2 => foundSuffixed fs oldlen c2 st
  | .inr c =>
    if (← access fs c) then foundSuffixed fs oldlen c st
    else do
      -- the general name
      let c4 ← setAt c oldlen NUL
      if (← access fs c4) then
        let hasKey ← access fs st.keyb
        pure (true, { st with cert := c4, keyIsBuf := hasKey || st.keyIsBuf })
      else pure (false, { st with cert := c4 })

/-- what tls_init() will open: (certificate file, key file) -/
def chosen (st : St) : Except Fault (List Byte × List Byte) := do
  let c ← cstrAt st.cert 0
  let k ← if st.keyIsBuf then cstrAt st.keyb 0 else pure c
  pure (c, k)

/-- `n` EHLOs in a row: the results, stopping at the first fault -/
def calls (fixed : Bool) (fs : List Byte → Bool) (ip : List Byte) (port : Option (List Byte)) :
    Nat → St → List (Except Fault (Bool × List Byte × List Byte))
  | 0, _ => []
  | n + 1, st =>
    match findServercert fixed fs ip port st with
    | .error f => [.error f]
    | .ok (found, st') =>
      (match chosen st' with
        | .error f => .error f
        | .ok (c, k) => .ok (found, c, k)) :: calls fixed fs ip port n st'

end QsmtpModel.StartTlsCert
