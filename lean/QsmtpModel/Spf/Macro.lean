/-
Spf.Macro — qsmtpd/spf.c: spf_makroparam, urlencode, spf_appendmakro, validate_domain,
spf_makroletter, spf_makro (the code with the proposed fixes C11-makro-*: macro-aware token
length, DNS errors of %{p} reported as negative codes, DIGIT accumulation capped, reversed copy
terminated).

Strings are NUL-free byte lists; reading at or past the end yields 0 (the terminator).
-/
import QsmtpModel.Spf.Dns

namespace QsmtpModel.Spf
open QsmtpModel

/-- what qsmtpd/spf.c reads from `xmitstat` / `heloname` / the clock -/
structure Sess where
  ip : Ip                    -- xmitstat.sremoteip
  ipv4conn : Bool            -- xmitstat.ipv4conn (connection_is_ipv4())
  mailfrom : List Byte       -- xmitstat.mailfrom ([] = bounce)
  helostr : List Byte        -- xmitstat.helostr
  remotehost : List Byte     -- xmitstat.remotehost
  heloname : List Byte       -- heloname
  now : Nat                  -- time(NULL)
  deriving Repr, Inhabited

/-- HELOSTR -/
def Sess.helo (s : Sess) : List Byte := if s.helostr.isEmpty then s.remotehost else s.helostr

/-- the caller contract of check_host(): a non-empty sender contains `@`, HELOSTR is a string -/
def Sess.wf (s : Sess) : Bool :=
  (s.mailfrom.isEmpty || s.mailfrom.contains 64) && !(s.helostr.isEmpty && s.remotehost.isEmpty)

abbrev SPF_NONE : Int := Gen.spfNone
abbrev SPF_PASS : Int := Gen.spfPass
abbrev SPF_NEUTRAL : Int := Gen.spfNeutral
abbrev SPF_SOFTFAIL : Int := Gen.spfSoftfail
abbrev SPF_FAIL : Int := Gen.spfFail
abbrev SPF_PERMERROR : Int := Gen.spfPermerror
abbrev SPF_TEMPERROR : Int := Gen.spfTemperror
abbrev SPF_DNS_HARD_ERROR : Int := Gen.spfDnsHardError

/-- `s[i]` of a C string -/
def at0 (s : List Byte) (i : Nat) : Byte := s.getD i 0

/-- bit of a delimiter character in the `delim` mask: index in `spf_delimiters` -/
def delimBit (c : Byte) : Option Nat :=
  match Gen.spfDelimiters.idxOf? c with
  | some k => some (1 <<< k)
  | none => none

/-- the digit loop of spf_makroparam: (value, digits consumed) -/
def makroDigits : List Byte → Nat → Nat → Nat × Nat
  | [], v, n => (v, n)
  | c :: rest, v, n =>
    if isDigit c then makroDigits rest (if v < Gen.spfMakroNumCap then v * 10 + (c.toNat - 48) else v) (n + 1)
    else (v, n)

/-- the delimiter loop of spf_makroparam: (mask, characters consumed) -/
def makroDelims : List Byte → Nat → Nat → Nat × Nat
  | [], d, n => (d, n)
  | c :: rest, d, n =>
    match delimBit c with
    | some b => makroDelims rest (d ||| b) (n + 1)
    | none => (d, n)

/-- spf_makroparam: `none` = error (DIGIT 0), else (bytes parsed, num, r, delim) -/
def makroparam (tok : List Byte) : Option (Nat × Nat × Nat × Nat) :=
  let (num, nd) := makroDigits tok 0 0
  if nd > 0 && num = 0 then none else
  let num := if nd = 0 then Gen.spfMakroNumDefault else num
  let t1 := tok.drop nd
  let (r, nr) := if at0 t1 0 == 114 then (1, 1) else (0, 0)
  let (delim, ndl) := makroDelims (t1.drop nr) 1 0
  some (nd + nr + ndl, num, r, delim)

/-- characters urlencode() leaves alone -/
def urlSafe (c : Byte) : Bool :=
  isAlnum c || c == 45 || c == 95 || c == 46 || c == 33 || c == 126 || c == 42 || c == 39 || c == 40 || c == 41

/-- urlencode() -/
def urlencode (s : List Byte) : List Byte :=
  s.flatMap fun c => if urlSafe c then [c] else [37, hexUpper (c.toNat / 16), hexUpper (c.toNat % 16)]

/-- split at every `.` -/
def splitDots : List Byte → List Byte → List (List Byte)
  | [], cur => [cur.reverse]
  | c :: rest, cur => if c == DOT then cur.reverse :: splitDots rest [] else splitDots rest (c :: cur)

def joinDots (ps : List (List Byte)) : List Byte := (ps.intersperse [DOT]).flatten

/-- is `c` one of the delimiters selected by the mask -/
def isActDelim (delim : Nat) (c : Byte) : Bool :=
  match delimBit c with
  | some b => delim &&& b ≠ 0
  | none => false

/-- what spf_appendmakro() appends for the raw string `s` -/
def appendmakro (s : List Byte) (num r delim : Nat) : List Byte :=
  let news := if delim = 1 then s else s.map fun c => if isActDelim delim c then DOT else c
  let parts := splitDots news []
  let sel := if r &&& 1 ≠ 0 then (parts.take num).reverse else parts.drop (parts.length - num)
  let out := joinDots sel
  if r &&& 2 ≠ 0 then urlencode out else out

/-- outcome of the helper levels of the macro expander -/
inductive MacroErr where
  | enomem          -- -1
  | code (c : Int)  -- SPF_PERMERROR / SPF_TEMPERROR / SPF_DNS_HARD_ERROR
  deriving DecidableEq, Repr, Inhabited

/-- the `for (i < r)` loop of validate_domain -/
def validateLoop (dns : Dns) (ss : Sess) : List (List Byte) → M (List (List Byte))
  | [] => pure []
  | d :: rest => do
    let k ← (if isV4Mapped ss.ip then askDnsA dns d else askDnsAAAA dns d : M (DnsRes (List Ip)))
    let tl ← validateLoop dns ss rest
    match k with
    | .ok as => pure (if as.contains ss.ip then d :: tl else tl)
    | _ => pure tl

/-- validate_domain(): names of the client that resolve back to it -/
def validateDomain (dns : Dns) (ss : Sess) : M (DnsRes (List (List Byte))) := do
  let r ← askDnsName dns ss.ip
  match r with
  | .ok names => do
    let v ← validateLoop dns ss (names.take Gen.spfValidateDomainMax)
    pure (.ok v)
  | .temp => pure .temp
  | .perm => pure .perm
  | .localErr => pure .localErr

def strPostmaster : List Byte := [112, 111, 115, 116, 109, 97, 115, 116, 101, 114]
def strUnknown : List Byte := [117, 110, 107, 110, 111, 119, 110]
def strInAddr : List Byte := [105, 110, 45, 97, 100, 100, 114]
def strIp6 : List Byte := [105, 112, 54]

abbrev MText := M (Except MacroErr (List Byte))

/-- spf_appendmakro() of a raw string -/
def mApp (s : List Byte) (num r delim : Nat) : MText := pure (.ok (appendmakro s num r delim))
/-- APPEND() of a fixed text (no transformers) -/
def mRaw (s : List Byte) : MText := pure (.ok s)
/-- PARSEERR -/
def mPerr : MText := pure (.error (.code SPF_PERMERROR))

/-- `case 'i'` of spf_makroletter() -/
def letterI (ss : Sess) (num r delim : Nat) : MText :=
  if isV4Mapped ss.ip then mApp (ntop4 (ss.ip.drop 12)) num r delim
  else mApp (dotip6 ss.ip) num (if r = 0 then 1 else 0) delim

/-- `case 'p'` -/
def letterP (dns : Dns) (ss : Sess) (num r delim : Nat) : MText := do
  let v ← validateDomain dns ss
  match v with
  | .ok [] => mRaw strUnknown
  | .ok (d :: _) => mApp d num r delim
  | .localErr => pure (.error .enomem)
  | .temp => pure (.error (.code SPF_TEMPERROR))
  | .perm => pure (.error (.code SPF_DNS_HARD_ERROR))

/-- the `switch (tolower(ch))` of spf_makroletter(): the text the macro letter `lc` appends
(`r` already carries the URL-encoding bit of an upper-case letter) -/
def letterText (dns : Dns) (ss : Sess) (domain : List Byte) (ex : Bool) (lc : Byte) (num r delim : Nat) : MText :=
  if lc == 115 then       -- s
    if !ss.mailfrom.isEmpty then mApp ss.mailfrom num r delim else mApp (strPostmaster ++ [64] ++ ss.helo) num r delim
  else if lc == 108 then  -- l
    if !ss.mailfrom.isEmpty then
      match memchr 64 ss.mailfrom with
      | some a => mApp (ss.mailfrom.take a) num r delim
      | none => M.stop (.precond 1)
    else mRaw strPostmaster
  else if lc == 111 then  -- o
    if !ss.mailfrom.isEmpty then
      match memchr 64 ss.mailfrom with
      | some a => mApp (ss.mailfrom.drop (a + 1)) num r delim
      | none => M.stop (.precond 1)
    else mApp ss.helo num r delim
  else if lc == 100 then mApp domain num r delim   -- d
  else if lc == 99 then   -- c
    if !ex then mPerr
    else if !isV4Mapped ss.ip then mRaw (ntop6 ss.ip)
    else letterI ss num r delim
  else if lc == 105 then letterI ss num r delim   -- i
  else if lc == 116 then  -- t
    if !ex then mPerr else mRaw (decDigits ss.now)
  else if lc == 112 then letterP dns ss num r delim  -- p
  else if lc == 114 then  -- r
    if !ex then mPerr else mApp ss.heloname num r delim
  else if lc == 118 then  -- v
    if isV4Mapped ss.ip then mApp strInAddr num r (delim &&& 3) else mRaw strIp6
  else if lc == 104 then mApp ss.helo num r delim  -- h
  else mPerr

/-- spf_makroletter() on the text after `%{`: error, or (bytes parsed, text appended) -/
def makroletter (dns : Dns) (ss : Sess) (p : List Byte) (domain : List Byte) (ex : Bool) :
    M (Except MacroErr (Nat × List Byte)) :=
  let ch := at0 p 0
  match makroparam (p.drop 1) with
  | none => pure (.error (.code SPF_PERMERROR))
  | some (offs, num, r0, delim) =>
    if at0 p (1 + offs) ≠ 125 then pure (.error (.code SPF_PERMERROR)) else do
    let t ← letterText dns ss domain ex (lower ch) num (if isUpperAlpha ch then r0 ||| 2 else r0) delim
    match t with
    | .ok s => pure (.ok (1 + offs, s))
    | .error e => pure (.error e)

/-- scanner state of the token-length loop of spf_makro() -/
inductive TlState where
  | normal | inMacro | afterPct
  deriving DecidableEq, Repr, Inhabited

/-- the token length spf_makro() computes for a domain-spec (`ex = 0`): up to NUL, white space or a
`/` outside of `%{…}` (the character after a `%` is skipped together with it). -/
def makroToklen : List Byte → TlState → Nat → Nat
  | [], _, n => n
  | c :: rest, st, n =>
    if wspace c then n
    else match st with
      | .inMacro => makroToklen rest (if c == 125 then .normal else .inMacro) (n + 1)
      | .afterPct => makroToklen rest (if c == 123 then .inMacro else .normal) (n + 1)
      | .normal =>
        if c == 47 then n
        else if c == 37 then makroToklen rest .afterPct (n + 1)
        else makroToklen rest .normal (n + 1)

/-- index of the next `%` at or after `p` (strchr), as an absolute index -/
def nextPercent (tok : List Byte) (p : Nat) : Option Nat := findFrom 37 tok p

/-- the `do … while` loop of spf_makro(); `p` is the index of a `%` -/
def makroLoop (dns : Dns) (ss : Sess) (tok domain : List Byte) (ex : Bool) (toklen : Nat) :
    Nat → Nat → List Byte → M (Except MacroErr (List Byte))
  | 0, _, _ => M.stop .outOfFuel
  | fuel + 1, p, res =>
    let c := at0 tok (p + 1)
    let step : M (Except MacroErr (Nat × List Byte)) :=
      if c == 45 then pure (.ok (p + 2, res ++ [37, 50, 48]))
      else if c == 95 then pure (.ok (p + 2, res ++ [32]))
      else if c == 37 then pure (.ok (p + 2, res ++ [37]))
      else if c == 123 then do
        let z ← makroletter dns ss (tok.drop (p + 2)) domain ex
        match z with
        | .error e => pure (.error e)
        | .ok (n, add) => pure (.ok (p + 2 + n + 1, res ++ add))
      else pure (.error (.code SPF_PERMERROR))
    do
      let s ← step
      match s with
      | .error e => pure (.error e)
      | .ok (p1, res1) =>
        -- copy the literal text up to the next `%` or the end of the token
        if at0 tok p1 ≠ 37 then
          let p2 : Nat := match nextPercent tok p1 with
            | some q => if q > toklen then toklen else q
            | none => toklen
          if p2 < p1 then M.stop (.negSize ((p2 : Int) - p1))
          else
            let res2 := res1 ++ (tok.drop p1).take (p2 - p1)
            if p2 < toklen && !wspace (at0 tok p2) then makroLoop dns ss tok domain ex toklen fuel p2 res2
            else pure (.ok res2)
        else
          if p1 < toklen then makroLoop dns ss tok domain ex toklen fuel p1 res1
          else pure (.ok res1)

/-- spf_makro(token, domain, ex, &result): error code or the expansion -/
def makro (dns : Dns) (ss : Sess) (tok domain : List Byte) (ex : Bool) : M (Except MacroErr (List Byte)) :=
  let toklen := if ex then tok.length else makroToklen tok .normal 0
  match memchr 37 (tok.take toklen) with
  | none => pure (.ok (tok.take toklen))
  | some p => makroLoop dns ss tok domain ex toklen (tok.length + 1) p (tok.take p)

/-- the int spf_makro() returns -/
def MacroErr.toInt : MacroErr → Int
  | .enomem => -1
  | .code c => c

end QsmtpModel.Spf
