/-
Spf.Dns — the DNS oracle (the six entry points of lib/libowfatconn.c as a parameter), the
query log, and lib/qdns.c (ask_dnsa, ask_dnsaaaa, ask_dnsmx, ask_dnsname) and
lib/dns_helpers.c:domainvalid on top of it.

Every computation that may ask the DNS lives in the writer monad `M`: value + the list of queries
issued, in order.  The harness records the same list through its resolver stub, so the sequence of
calls is part of the differential comparison.
-/
import QsmtpModel.Spf.Net
import QsmtpModel.Gen.Spf

namespace QsmtpModel.Spf
open QsmtpModel

/-- the `errno` values the code distinguishes (plus one "anything else") -/
inductive Errno where
  | ENOENT | ETIMEDOUT | EAGAIN | EIO | ECONNREFUSED | EINVAL | ENOMEM | ENFILE | EMFILE | ENOBUFS | EPROTO
  deriving DecidableEq, Repr, Inhabited

inductive Query where
  | txt (name : List Byte)
  | a (name : List Byte)
  | aaaa (name : List Byte)
  | mx (name : List Byte)
  | ptr (ip : Ip)
  deriving DecidableEq, Repr, Inhabited

/-- The resolver as the code sees it (contract of lib/libowfatconn.c).
* `txt`: `dnstxt_records` — the records of the answer *before* the connector's sanitisation
* `a`: `dnsip4` — 4-byte addresses; `aaaa`: `dnsip6` — 16-byte addresses (libowfat returns the
  AAAA records and the A records as v4-mapped addresses)
* `mx`: `dnsmx` — (priority, name); `ptr`: `dnsname` — a name, `[]` when there is none -/
structure Dns where
  txt  : List Byte → Except Errno (List (List Byte))
  a    : List Byte → Except Errno (List (List Byte))
  aaaa : List Byte → Except Errno (List (List Byte))
  mx   : List Byte → Except Errno (List (Nat × List Byte))
  ptr  : Ip → Except Errno (List Byte)
  /-- the connector hands TXT bytes on as they are (only NUL, which would end the C string, becomes `?`)
  instead of sanitising them as lib/libowfatconn.c does: what spf.c must cope with on its own -/
  rawTxt : Bool := false

/-- what the model can run into apart from a value: a violated caller contract, or the recursion
fuel of `spflookup` running out (proved impossible: `spf_terminates_bounded`) -/
inductive Stop where
  | precond (what : Nat)
  | outOfFuel
  | negSize (n : Int)
  deriving DecidableEq, Repr, Inhabited

/-- value + queries issued (in order) -/
def M (α : Type) := Except Stop (α × List Query)

namespace M
def pure (a : α) : M α := .ok (a, [])
def bind (x : M α) (f : α → M β) : M β :=
  match x with
  | .error e => .error e
  | .ok (a, l1) =>
    match f a with
    | .error e => .error e
    | .ok (b, l2) => .ok (b, l1 ++ l2)
instance : Monad M where
  pure := M.pure
  bind := M.bind
def ask (q : Query) (a : α) : M α := .ok (a, [q])
def stop (s : Stop) : M α := .error s
end M

/-- bytes outside 32..126 become `?` (dns_txt_packet2 in lib/libowfatconn.c) -/
def sanitizeTxt (r : List Byte) : List Byte := r.map fun b => if b.toNat < 32 || b.toNat > 126 then 63 else b

/-- the TXT records as qsmtpd/spf.c gets them from the connector -/
def txtView (dns : Dns) (rs : List (List Byte)) : List (List Byte) :=
  if dns.rawTxt then rs.map (·.map fun b => if b == 0 then 63 else b) else rs.map sanitizeTxt

/-- `dnstxt_records()`: error, or the records (`r = length`) -/
def dnstxtRecords (dns : Dns) (name : List Byte) : M (Except Errno (List (List Byte))) :=
  M.ask (.txt name) (match dns.txt name with
    | .error e => .error e
    | .ok rs => .ok (txtView dns rs))

/-- return values of the ask_dns* functions -/
inductive DnsRes (α : Type) where
  | ok (a : α)
  | temp      -- DNS_ERROR_TEMP  (-2)
  | perm      -- DNS_ERROR_PERM  (-3)
  | localErr  -- DNS_ERROR_LOCAL (-1), errno = ENOMEM
  deriving Repr, Inhabited

/-- the `switch (errno)` shared by ask_dnsa / ask_dnsaaaa / ask_dnsname; `none` = "not found" -/
def askErr (e : Errno) : Option (DnsRes Unit) :=
  match e with
  | .ETIMEDOUT | .EAGAIN => some .temp
  | .ENFILE | .EMFILE | .ENOBUFS | .ENOMEM => some .localErr
  | .ENOENT => none
  | _ => some .perm

/-- lib/qdns.c:ask_dnsa — the addresses as v4-mapped IPv6 addresses (`ok []` = return value 0) -/
def askDnsA (dns : Dns) (name : List Byte) : M (DnsRes (List Ip)) :=
  M.ask (.a name) (match dns.a name with
    | .error e => (match askErr e with
      | none => .ok []
      | some .temp => .temp
      | some .localErr => .localErr
      | some _ => .perm)
    | .ok as => .ok (as.map v4mapped))

/-- lib/qdns.c:ask_dnsaaaa -/
def askDnsAAAA (dns : Dns) (name : List Byte) : M (DnsRes (List Ip)) :=
  M.ask (.aaaa name) (match dns.aaaa name with
    | .error e => (match askErr e with
      | none => .ok []
      | some .temp => .temp
      | some .localErr => .localErr
      | some _ => .perm)
    | .ok as => .ok as)

/-- lib/qdns.c:ask_dnsname — at most one name -/
def askDnsName (dns : Dns) (ip : Ip) : M (DnsRes (List (List Byte))) :=
  M.ask (.ptr ip) (match dns.ptr ip with
    | .error e => (match askErr e with
      | none => .ok []
      | some .temp => .temp
      | some .localErr => .localErr
      | some _ => .perm)
    | .ok n => .ok (if n.isEmpty then [] else [n]))

/-- result of ask_dnsmx -/
inductive MxRes where
  | list (l : List (Nat × List Ip))   -- 0: entries (priority, addresses), in the order of the C list
  | noHost                             -- 1
  | nullMx                             -- 2
  | temp | perm | localErr
  deriving Repr, Inhabited

/-- the `while (r + l > s)` loop of ask_dnsmx: `acc` is `*result` (new entries are put in front),
`errtype` the last error seen (0, 4 = temp, 8 = perm) -/
def askDnsMxLoop (dns : Dns) : List (Nat × List Byte) → List (Nat × List Ip) → Nat → M MxRes
  | [], acc, errtype =>
    pure (if !acc.isEmpty then .list acc
          else if errtype &&& 4 ≠ 0 then .temp
          else if errtype &&& 2 ≠ 0 then .noHost
          else .perm)
  | (pr, mxname) :: rest, acc, errtype => do
    let rc ← askDnsAAAA dns mxname
    match rc with
    | .localErr => pure .localErr
    | .ok [] => askDnsMxLoop dns rest acc errtype
    | .ok as => askDnsMxLoop dns rest ((pr, as) :: acc) errtype
    | .temp => askDnsMxLoop dns rest acc 4
    | .perm => askDnsMxLoop dns rest acc 8

/-- lib/qdns.c:ask_dnsmx -/
def askDnsMx (dns : Dns) (name : List Byte) : M MxRes := do
  let r ← (M.ask (.mx name) (dns.mx name) : M _)
  let viaA : M MxRes := do
    let rc ← askDnsAAAA dns name
    match rc with
    | .temp => pure .temp
    | .perm => pure .perm
    | .localErr => pure .localErr
    | .ok [] => pure .noHost
    | .ok as => pure (.list [(Gen.spfMxPriorityImplicit, as)])
  match r with
  | .error e =>
    if e ≠ .ENOENT then
      match askErr e with
      | some .temp => pure .temp
      | some .localErr => pure .localErr
      | _ => pure .perm
    else viaA
  | .ok [] => viaA
  | .ok mxs =>
    -- RfC 7505 null MX: `l == 4 && r[2] == '.'`
    match mxs with
    | [(_, [c])] => if c == DOT then pure .nullMx else askDnsMxLoop dns mxs [] 0
    | _ => askDnsMxLoop dns mxs [] 0

/-- lib/dns_helpers.c:domainvalid — true = valid (C returns 0).
`dt`: offset of the last dot seen, `i`: current offset. -/
def domainvalidLoop : List Byte → Nat → Option Nat → Option (Nat × Option Nat)
  | [], i, dt => some (i, dt)
  | c :: rest, i, dt =>
    if !(isAlnum c || c == DOT || c == DASH) then none
    else if c == DOT then
      -- `h - ((dt == NULL) ? host : dt + 1) > 63`: no label longer than 63
      let start := match dt with
        | none => 0
        | some d => d + 1
      if i - start > Gen.spfDomainvalidMaxLabel then none
      else match rest with
        | c2 :: _ => if c2 == DOT then none else domainvalidLoop rest (i + 1) (some i)
        | [] => domainvalidLoop rest (i + 1) (some i)
    else domainvalidLoop rest (i + 1) dt

def domainvalid (host : List Byte) : Bool :=
  match host with
  | [] => false
  | c :: _ =>
    if c == DOT then false else
    match domainvalidLoop host 0 none with
    | none => false
    | some (h, dt) =>
      if h > Gen.spfDomainvalidMaxLen then false else
      match dt with
      | none => false
      | some d =>
        if h - d < 3 || h - d > 64 then false
        else isAlpha (host.getD (h - 1) 0)

end QsmtpModel.Spf
