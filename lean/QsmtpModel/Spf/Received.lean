/-
Spf.Received — qsmtpd/spf.c: record_bad_token, the sanitiser of the explanation text
(spflookup, "replace unsafe characters"), spfreceived.
-/
import QsmtpModel.Spf.Parse

namespace QsmtpModel.Spf
open QsmtpModel

/-- the character filter of record_bad_token (`char` is signed: bytes ≥ 128 are `< ' '`) -/
def badTokenChar (c : Byte) : Byte :=
  if (c ≠ TAB && sbyte c < 32) || sbyte c ≥ 127 || c == 40 || c == 41 || c == 92 then 37 else c

/-- start of the word containing position `pos`: walk back while the previous byte is not white
space.  (The record starts with `v=spf1` followed by a blank, so a blank is always found.) -/
def wordStart (rec : List Byte) : Nat → Nat
  | 0 => 0
  | p + 1 => if wspace (at0 rec p) then p + 1 else wordStart rec p

/-- end of the word containing position `pos` -/
def wordEnd (rec : List Byte) (pos : Nat) : Nat :=
  pos + ((rec.drop pos).takeWhile fun c => !wspace c).length

/-- record_bad_token(rec + pos): the new xmitstat.spfexp -/
def recordBadToken (rec : List Byte) (pos : Nat) : List Byte :=
  let s := wordStart rec pos
  let e := wordEnd rec pos
  ((rec.drop s).take (e - s)).map badTokenChar

/-- the loop over xmitstat.spfexp after the explanation has been expanded: control characters
become `%`, any byte ≥ 128 discards the whole text -/
def expSanitize (s : List Byte) : Option (List Byte) :=
  if s.any (fun c => c.toNat ≥ 128) then none
  else some (s.map fun c => if c.toNat < 32 then 37 else c)

def lit (i : Nat) : List Byte := Gen.spfReceivedLiterals.getD i []

/-- a piece of the Received-SPF header: a literal of the source (by its index in
`Gen.spfReceivedLiterals`, i.e. the n-th `WRITE(fd, "…")` of spfreceived()) or a string taken
from the session -/
inductive Seg where
  | L (i : Nat)
  | S (l : List Byte)
  deriving Repr, Inhabited

def Seg.bytes : Seg → List Byte
  | .L i => lit i
  | .S l => l

def flat (segs : List Seg) : List Byte := (segs.map Seg.bytes).flatten

/-- `; mechanism=` part -/
def mechSegs (mech : Option (List Byte)) : List Seg :=
  match mech with
  | some m => [.L 22, .S m]
  | none => []

/-- the text after "has malformed SPF record" -/
def expSegs (spfexp : Option (List Byte)) : List Seg :=
  match spfexp with
  | some x => [.L (if x.contains 37 then 5 else 6), .S x]
  | none => []

def domSeg (ss : Sess) : Seg := .S (if ss.mailfrom.isEmpty then ss.helo else ss.mailfrom)
def cipSeg (ss : Sess) : Seg := .S (clientIpText ss.ip)

def headSegs (ss : Sess) (spf : Nat) : List Seg :=
  [.L 0, .S (Gen.spfResultNames.getD spf []), .L 1, .S ss.heloname, .L 2]

def tailSegs (ss : Sess) (mech : Option (List Byte)) : List Seg :=
  [.L 20, .S ss.heloname, .L 21, cipSeg ss] ++ mechSegs mech ++ [.L 23, .S ss.helo, .L 24, .S ss.mailfrom, .L 25]

/-- the `switch (spf)`: the pieces of the comment and whether the key/value part follows -/
def bodySegs (ss : Sess) (spf : Nat) (spfexp : Option (List Byte)) : Option (List Seg × Bool) :=
  if spf = Gen.spfPermerror then some ([.L 3, domSeg ss, .L 4] ++ expSegs spfexp ++ [.L 7], true)
  else if spf = Gen.spfDnsHardError || spf = Gen.spfTemperror then some ([.L 8, domSeg ss, .L 9], true)
  else if spf = Gen.spfNone then some ([.L 10, domSeg ss, .L 11], false)
  else if spf = Gen.spfSoftfail || spf = Gen.spfFail then some ([.L 12, domSeg ss, .L 13, cipSeg ss, .L 14], true)
  else if spf = Gen.spfNeutral then some ([cipSeg ss, .L 15, domSeg ss, .L 16], true)
  else if spf = Gen.spfPass then some ([.L 17, domSeg ss, .L 18, cipSeg ss, .L 19], true)
  else none

/-- spfreceived(fd, spf) as the sequence of its write() calls.  `spf` outside the handled values is a
violated precondition (assert). -/
def receivedSegs (ss : Sess) (spf : Nat) (spfexp mech : Option (List Byte)) : Except Stop (List Seg) :=
  if spf = Gen.spfIgnore then .ok []
  else if spf > 8 then .error (.precond 2)
  else match bodySegs ss spf spfexp with
    | none => .error (.precond 2)
    | some (body, withTail) => .ok (headSegs ss spf ++ body ++ (if withTail then tailSegs ss mech else []))

/-- spfreceived(fd, spf): the bytes written (all writes succeed) -/
def spfreceived (ss : Sess) (spf : Nat) (spfexp mech : Option (List Byte)) : Except Stop (List Byte) :=
  match receivedSegs ss spf spfexp mech with
  | .ok segs => .ok (flat segs)
  | .error e => .error e

end QsmtpModel.Spf
