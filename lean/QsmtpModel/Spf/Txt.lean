/-
Model of the TXT record glue in lib/libowfatconn.c (`dns_txt_packet2`, the part behind
`dnstxt_records()` that qsmtpd/spf.c relies on): the RDATA of one TXT record is a sequence of
character-strings (a length octet, then that many octets); the record handed to the caller is their
concatenation, every octet outside 32..126 replaced by `?`.  The DNS packet framing around the
RDATA (header, names, type/class/length) is libowfat's and is not modelled: the harness builds the
packet around the RDATA it is given.
-/
import QsmtpModel.Basic

namespace QsmtpModel.Spf.Txt
open QsmtpModel

/-- `if (ch < 32) ch = '?'; if (ch > 126) ch = '?';` on a (signed) `char` -/
def sanitize (c : Byte) : Byte := if sbyte c < 32 ∨ sbyte c > 126 then 63 else c

/-- the loop over the RDATA: `txtlen` octets of the current character-string are still to come -/
def txtConcat : Nat → List Byte → List Byte
  | _, [] => []
  | 0, c :: rest => txtConcat c.toNat rest
  | n + 1, c :: rest => sanitize c :: txtConcat n rest

/-- one record -/
def txtRecord (rdata : List Byte) : List Byte := txtConcat 0 rdata

/-- the wire form of a list of character-strings -/
def encodeStrings (ss : List (List Byte)) : List Byte := (ss.map fun s => UInt8.ofNat s.length :: s).flatten

theorem txtConcat_string (s rest : List Byte) : txtConcat s.length (s ++ rest) = s.map sanitize ++ txtConcat 0 rest := by
  induction s with
  | nil => cases rest <;> simp [txtConcat]
  | cons c t ih => simp [txtConcat, ih]

/-- **TXT contract**: for every list of character-strings of at most 255 octets each (any octets,
any lengths, empty strings included) the record handed to the SPF code is their concatenation with
the octets outside 32..126 replaced by `?` — in particular a string of 128..255 octets is read with
its full length, and no length octet ever becomes part of the text. -/
theorem txt_strings_concat (ss : List (List Byte)) (h : ∀ s ∈ ss, s.length ≤ 255) :
    txtRecord (encodeStrings ss) = (ss.flatten).map sanitize := by
  unfold txtRecord encodeStrings
  induction ss with
  | nil => simp [txtConcat]
  | cons s ss ih =>
    have hs := h s (by simp)
    have ih' := ih (fun s' hs' => h s' (by simp [hs']))
    simp only [List.map_cons, List.flatten_cons, List.cons_append, List.map_append]
    rw [txtConcat]
    have : (UInt8.ofNat s.length).toNat = s.length := by
      simp; omega
    rw [this, txtConcat_string, ih']

end QsmtpModel.Spf.Txt
