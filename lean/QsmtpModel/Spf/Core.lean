/-
Spf.Core — qsmtpd/spf.c: the mechanisms (spfmx, spfa, spfexists, spfptr over the DNS oracle),
txtlookup, spflookup (record selection, redirect=/exp= lookup, the term loop with the shared
`queries` counter, qualifier logic, include result mapping, exp handling, redirect) and
check_host — the code with the proposed fix C11-dns-term-limit (spf_dnsterm_allowed).

Results are the C `int`s (`SPF_*` from Gen, −1 = local error).
-/
import QsmtpModel.Spf.Received

namespace QsmtpModel.Spf
open QsmtpModel

/-- the common head of spfmx / spfa / spfptr: may_have_domainspec + spf_domainspec -/
def optDomainspec (dns : Dns) (ss : Sess) (domain tok : List Byte) : M (Except Int DomSpec) :=
  let m := mayHaveDomainspec tok
  if m = 0 then pure (.ok ⟨none, -1, -1⟩)
  else if m = 1 then domainspec dns ss domain (if at0 tok 0 == 58 then tok.drop 1 else tok)
  else pure (.error SPF_PERMERROR)

def cidr4 (c : Int) : Nat := if c < 0 then 32 else c.toNat
def cidr6 (c : Int) : Nat := if c < 0 then 128 else c.toNat

/-- spfmx() -/
def spfmx (dns : Dns) (ss : Sess) (domain tok : List Byte) : M Int := do
  let d ← optDomainspec dns ss domain tok
  match d with
  | .error e => pure e
  | .ok ds =>
    let r ← askDnsMx dns (ds.ds.getD domain)
    match r with
    | .noHost | .nullMx => pure SPF_NONE
    | .temp => pure SPF_TEMPERROR
    | .perm => pure SPF_DNS_HARD_ERROR
    | .localErr => pure (-1)
    | .list mx =>
      match mx with
      | [] => pure SPF_NONE
      | (prio, _) :: _ =>
        if prio ≥ Gen.spfMxPriorityImplicit then pure SPF_NONE
        else if Gen.spfMxCountStart + mx.length > Gen.spfMxLimit then pure SPF_FAIL
        else
          let addrs := mx.flatMap (·.2)
          let hit :=
            if ss.ipv4conn then addrs.any fun a => isV4Mapped a && ip4Matchnet ss.ip (a.drop 12) (cidr4 ds.c4)
            else addrs.any fun a => ip6Matchnet ss.ip a (cidr6 ds.c6)
          pure (if hit then SPF_PASS else SPF_NONE)

/-- spfa() -/
def spfa (dns : Dns) (ss : Sess) (domain tok : List Byte) : M Int := do
  let d ← optDomainspec dns ss domain tok
  match d with
  | .error e => pure e
  | .ok ds =>
    let v4 := isV4Mapped ss.ip
    let lookup := ds.ds.getD domain
    let r ← (if v4 then askDnsA dns lookup else askDnsAAAA dns lookup : M (DnsRes (List Ip)))
    match r with
    | .temp => pure SPF_TEMPERROR
    | .localErr => pure (-1)
    | .perm => pure SPF_DNS_HARD_ERROR
    | .ok as =>
      let hit := as.any fun a =>
        if v4 then isV4Mapped a && ip4Matchnet ss.ip (a.drop 12) (cidr4 ds.c4)
        else !isV4Mapped a && ip6Matchnet ss.ip a (cidr6 ds.c6)
      pure (if hit then SPF_PASS else SPF_NONE)

/-- spfexists(); `tok` starts after the `:` -/
def spfexists (dns : Dns) (ss : Sess) (domain tok : List Byte) : M Int := do
  let d ← domainspec dns ss domain tok
  match d with
  | .error e => pure e
  | .ok ds =>
    match ds.ds with
    | none => pure SPF_PERMERROR
    | some name =>
      if ds.c4 > 0 || ds.c6 > 0 then pure SPF_PERMERROR
      else do
        let r ← askDnsA dns name
        match r with
        | .ok [] => pure SPF_NONE
        | .ok _ => pure SPF_PASS
        | .temp => pure SPF_TEMPERROR
        | .localErr => pure (-1)
        | .perm => pure SPF_DNS_HARD_ERROR

/-- the comparison loop of spfptr: does a validated name equal `checkdom` or end in `.checkdom` -/
def ptrMatch (checkdom : List Byte) (v : List Byte) : Bool :=
  if v.length < checkdom.length then false
  else if v.length = checkdom.length then v == checkdom
  else at0 v (v.length - checkdom.length - 1) == DOT && v.drop (v.length - checkdom.length) == checkdom

/-- spfptr() -/
def spfptr (dns : Dns) (ss : Sess) (domain tok : List Byte) : M Int := do
  let d ← optDomainspec dns ss domain tok
  match d with
  | .error e => pure e
  | .ok ds =>
    if ds.c4 ≥ 0 || ds.c6 ≥ 0 then pure SPF_PERMERROR
    else if ss.remotehost.isEmpty then pure SPF_NONE
    else do
      let v ← validateDomain dns ss
      match v with
      | .ok [] => pure SPF_NONE
      | .localErr => pure (-1)
      | .temp => pure SPF_TEMPERROR
      | .perm => pure SPF_DNS_HARD_ERROR
      | .ok names => pure (if names.any (ptrMatch (ds.ds.getD domain)) then SPF_PASS else SPF_NONE)

/-- result of a TXT lookup as spflookup() classifies it -/
inductive TxtRes where
  | records (rs : List (List Byte))
  | code (c : Int)
  deriving Repr, Inhabited

/-- the `switch (errno)` after a failed TXT lookup -/
def txtErrCode (e : Errno) : Int :=
  match e with
  | .ENOENT => SPF_NONE
  | .ETIMEDOUT | .EIO | .ECONNREFUSED | .EAGAIN => SPF_TEMPERROR
  | .EINVAL => SPF_DNS_HARD_ERROR
  | _ => -1

/-- the name txtlookup() asks for: trailing dots removed, leading labels removed while longer than
253; none = no dot left (errno = EINVAL) -/
def txtlookupName : Nat → List Byte → Option (List Byte)
  | 0, d => some d
  | fuel + 1, d =>
    if d.length > Gen.spfTxtlookupMax then
      match memchr DOT d with
      | none => none
      | some k => txtlookupName fuel (d.drop (k + 1))
    else some d

def stripTrailingDots (d : List Byte) : List Byte := (d.reverse.dropWhile (· == DOT)).reverse

/-- txtlookup() -/
def txtlookup (dns : Dns) (domain : List Byte) : M (Except Errno (List (List Byte))) :=
  let d := stripTrailingDots domain
  match txtlookupName (d.length + 1) d with
  | none => pure (.error .EINVAL)
  | some n => dnstxtRecords dns n

def strVspf1 : List Byte := [118, 61, 115, 112, 102, 49]
def strRedirect : List Byte := [114, 101, 100, 105, 114, 101, 99, 116, 61]
def strExp : List Byte := [101, 120, 112, 61]

/-- the record selection loop: none = SPF_PERMERROR (two records), some none = no record,
some (some r) = the record -/
def selectRecord : List (List Byte) → Option (List Byte) → Option (Option (List Byte))
  | [], valid => some valid
  | r :: rest, valid =>
    if r.take 6 == strVspf1 then
      match valid with
      | some _ => none
      | none =>
        let c := at0 r 6
        if c == 32 || c == 0 then selectRecord rest (some r) else selectRecord rest none
    else selectRecord rest valid

/-- the mutable state spflookup() threads: `*queries`, xmitstat.spfexp, xmitstat.spfmechanism, and
a ghost counter of the DNS-querying terms that were really evaluated -/
structure St where
  queries : Nat
  spfexp : Option (List Byte)
  mech : Option (List Byte)
  evaluated : Nat
  deriving Repr, Inhabited

/-- spf_dnsterm_allowed(): count the term, tell whether it may be evaluated -/
def dnstermAllowed (s : St) : Bool × St :=
  let q := s.queries + 1
  if q ≤ Gen.spfMaxDnsTerms then (true, { s with queries := q, evaluated := s.evaluated + 1 })
  else (false, { s with queries := q })

/-- start offsets of the white-space separated words of `rec` at or after `i`
(`inWord` = the previous byte was part of a word) -/
def wordStarts : List Byte → Nat → Bool → List Nat
  | [], _, _ => []
  | c :: rest, i, inWord =>
    if wspace c then wordStarts rest (i + 1) false
    else if inWord then wordStarts rest (i + 1) true
    else i :: wordStarts rest (i + 1) true

def mechName (i : Nat) : List Byte := (Gen.spfMechTable.getD i ([], [])).1
def mechDelims (i : Nat) : List Byte := (Gen.spfMechTable.getD i ([], [])).2
def matchMech (tok : List Byte) (i : Nat) : Nat := matchMechanism tok (mechName i) (mechDelims i)

/-- what one iteration of the term loop leaves behind -/
structure LoopSt where
  result : Int
  prefx : Int
  mechanism : Option (List Byte)
  st : St
  abort : Bool := false     -- `free(txt); return SPF_PERMERROR;` from inside the loop
  deriving Repr, Inhabited

def strMX : List Byte := [77, 88]
def strPTR : List Byte := [80, 84, 82]
def strExists : List Byte := [101, 120, 105, 115, 116, 115]
def strAll : List Byte := [97, 108, 108]
def strA : List Byte := [65]
def strIP4 : List Byte := [73, 80, 52]
def strIP6 : List Byte := [73, 80, 54]
def strInclude : List Byte := [105, 110, 99, 108, 117, 100, 101]
def strDefault : List Byte := [100, 101, 102, 97, 117, 108, 116]

/-- the include result mapping (`switch (result)` after the recursive evaluation) -/
def includeMap (result : Int) (queries : Nat) : Int :=
  if result = SPF_NONE then SPF_PERMERROR
  else if result = SPF_TEMPERROR || result = SPF_PERMERROR || result = SPF_PASS || result = -1 then result
  else if result = SPF_FAIL && queries > Gen.spfLoopLimit then result
  else SPF_NONE

/-- a mechanism that counts against the DNS term limit: `spf_dnsterm_allowed(queries) ? f : SPF_FAIL`,
then `mechanism = name` -/
def dnsMech (ls : LoopSt) (name : List Byte) (f : M Int) : M LoopSt :=
  if (dnstermAllowed ls.st).1 then do
    let r ← f
    pure { ls with result := r, mechanism := some name, st := (dnstermAllowed ls.st).2 }
  else pure { ls with result := SPF_FAIL, mechanism := some name, st := (dnstermAllowed ls.st).2 }

/-- the `exists` branch; `t` is the text after the mechanism name -/
def existsTerm (dns : Dns) (ss : Sess) (domain t : List Byte) (ls : LoopSt) : M LoopSt :=
  if at0 t 0 ≠ 58 then pure { ls with result := SPF_PERMERROR }
  else if (dnstermAllowed ls.st).1 then do
    let r ← spfexists dns ss domain (t.drop 1)
    pure { ls with result := r, mechanism := some strExists, st := (dnstermAllowed ls.st).2 }
  else pure { ls with result := SPF_FAIL, st := (dnstermAllowed ls.st).2 }

/-- the evaluation part of the `include` branch: (result before the mapping, state) -/
def includeEval (dns : Dns) (ss : Sess) (recurse : List Byte → St → M (Int × St))
    (domain t : List Byte) (st : St) : M (Int × St) :=
  if mayHaveDomainspec t = 1 then do
    let d ← domainspec dns ss domain (t.drop 1)
    match d with
    | .error e => pure (e, st)
    | .ok ds =>
      if ds.c4 ≥ 0 || ds.c6 ≥ 0 then pure (SPF_PERMERROR, st)
      else if (dnstermAllowed st).1 then recurse (ds.ds.getD []) (dnstermAllowed st).2
      else pure (SPF_FAIL, (dnstermAllowed st).2)
  else pure (SPF_PERMERROR, st)

/-- the `include` branch -/
def includeTerm (dns : Dns) (ss : Sess) (recurse : List Byte → St → M (Int × St))
    (domain t : List Byte) (ls : LoopSt) : M LoopSt := do
  let x ← includeEval dns ss recurse domain t ls.st
  pure { ls with result := includeMap x.1 x.2.queries, mechanism := some strInclude, st := x.2 }

/-- record_bad_token() + `result = SPF_PERMERROR` -/
def badToken (rec : List Byte) (p : Nat) (ls : LoopSt) : LoopSt :=
  { ls with result := SPF_PERMERROR, st := { ls.st with spfexp := some (recordBadToken rec p) } }

/-- the last `else` of the chain: "assume this is a modifier" -/
def modifierTerm (dns : Dns) (ss : Sess) (domain rec : List Byte) (p : Nat) (ls : LoopSt) : M LoopSt :=
  let tok := rec.drop p
  let eq := modifierName tok
  if eq = 0 then pure (badToken rec p ls)
  else if !(p ≥ 1 && wspace (at0 rec (p - 1))) then pure (badToken rec p ls)
  else do
    let m ← makro dns ss (tok.drop (eq + 1)) domain false
    match m with
    | .ok _ => pure ls
    | .error e =>
      if e.toInt = SPF_PERMERROR then pure (badToken rec p ls)
      else pure { ls with result := e.toInt }

/-- the `if … else if …` chain over the mechanisms for the text at `p` (after the qualifier) -/
def evalMech (dns : Dns) (ss : Sess) (recurse : List Byte → St → M (Int × St))
    (domain rec : List Byte) (p : Nat) (ls : LoopSt) : M LoopSt :=
  let tok := rec.drop p
  if matchMech tok 0 ≠ 0 then dnsMech ls strMX (spfmx dns ss domain (tok.drop (matchMech tok 0)))
  else if matchMech tok 1 ≠ 0 then dnsMech ls strPTR (spfptr dns ss domain (tok.drop (matchMech tok 1)))
  else if matchMech tok 2 ≠ 0 then existsTerm dns ss domain (tok.drop (matchMech tok 2)) ls
  else if matchMech tok 3 ≠ 0 then pure { ls with result := SPF_PASS, mechanism := some strAll }
  else if matchMech tok 4 ≠ 0 then dnsMech ls strA (spfa dns ss domain (tok.drop (matchMech tok 4)))
  else if matchMech tok 5 ≠ 0 then
    if at0 tok (matchMech tok 5) == 58 then
      pure { ls with result := spfip4 ss (tok.drop (matchMech tok 5 + 1)), mechanism := some strIP4 }
    else pure { ls with result := SPF_PERMERROR }
  else if matchMech tok 6 ≠ 0 then
    if at0 tok (matchMech tok 6) == 58 then
      pure { ls with result := spfip6 ss (tok.drop (matchMech tok 6 + 1)), mechanism := some strIP6 }
    else pure { ls with result := SPF_PERMERROR }
  else if matchMech tok 7 ≠ 0 then includeTerm dns ss recurse domain (tok.drop (matchMech tok 7)) ls
  else modifierTerm dns ss domain rec p ls

/-- the qualifier `switch`: (prefix, position after the qualifier), none = neither a qualifier nor a letter -/
def qualifier (rec : List Byte) (pos : Nat) : Option (Int × Nat) :=
  let c := at0 rec pos
  if c == 45 then some (SPF_FAIL, pos + 1)
  else if c == 126 then some (SPF_SOFTFAIL, pos + 1)
  else if c == 43 then some (SPF_PASS, pos + 1)
  else if c == 63 then some (SPF_NEUTRAL, pos + 1)
  else if isAlpha c then some (SPF_PASS, pos)
  else none

/-- one term of the record: the body of the `while` loop of spflookup() for the word starting at
`pos`.  `recurse` is spflookup() itself (one level deeper). -/
def evalTerm (dns : Dns) (ss : Sess) (recurse : List Byte → St → M (Int × St))
    (domain rec : List Byte) (pos : Nat) (ls : LoopSt) : M LoopSt :=
  match qualifier rec pos with
  | none => pure { ls with result := SPF_PERMERROR, abort := true }
  | some (pfx, p) => evalMech dns ss recurse domain rec p { ls with prefx := pfx }

/-- the `while (*token && (result == SPF_NONE))` loop over the words of the record.
`trailing`: white space follows the last word, so the loop is entered once more (limit test, then
`mechanism = "default"`). -/
def termLoop (dns : Dns) (ss : Sess) (recurse : List Byte → St → M (Int × St))
    (domain rec : List Byte) (trailing : Bool) : List Nat → LoopSt → M LoopSt
  | [], ls =>
    if ls.result ≠ SPF_NONE || !trailing then pure ls
    else if ls.st.queries > Gen.spfLoopLimit then pure { ls with result := SPF_FAIL }
    else pure { ls with mechanism := some strDefault }
  | pos :: rest, ls =>
    if ls.result ≠ SPF_NONE then pure ls
    else if ls.st.queries > Gen.spfLoopLimit then pure { ls with result := SPF_FAIL }
    else do
      let ls' ← evalTerm dns ss recurse domain rec pos ls
      termLoop dns ss recurse domain rec trailing rest ls'

/-- exp= handling after a `fail`: the new xmitstat.spfexp -/
def explain (dns : Dns) (ss : Sess) (domain rec : List Byte) (expl : Nat) (old : Option (List Byte)) :
    M (Option (List Byte)) := do
  let t ← makro dns ss (rec.drop expl) domain false
  match t with
  | .error _ => pure old
  | .ok target =>
    let target := stripTrailingDots target
    if target.isEmpty then pure old
    else do
      let r ← txtlookup dns target
      match r with
      | .ok (e :: _) => do
        let x ← makro dns ss e domain true
        match x with
        | .ok s => pure (expSanitize s)
        | .error _ => pure none
      | _ => pure old

/-- the search for `redirect=`: none = SPF_PERMERROR (empty or duplicate), some none = no redirect,
some (some i) = offset of the domain-spec -/
def redirectOf (rec : List Byte) : Option (Option Nat) :=
  match findModifier rec strRedirect 6 with
  | none => some none
  | some r =>
    if wspace (at0 rec (r + 9)) || at0 rec (r + 9) == 0 || (findModifier rec strRedirect (r + 9)).isSome then none
    else some (some (r + 9))

/-- the search for `exp=` -/
def explOf (rec : List Byte) : Option (Option Nat) :=
  match findModifier rec strExp 6 with
  | none => some none
  | some r =>
    if (findModifier rec strExp (r + 4)).isSome then none
    else if wspace (at0 rec (r + 4)) || at0 rec (r + 4) == 0 then some none
    else some (some (r + 4))

/-- the `redirect` part at the end of spflookup() -/
def doRedirect (dns : Dns) (ss : Sess) (recurse : List Byte → St → M (Int × St))
    (domain rec : List Byte) (r : Nat) (st : St) : M (Int × St) := do
  let d ← domainspec dns ss domain (rec.drop r)
  match d with
  | .error e => pure (e, st)
  | .ok ds =>
    if ds.c4 ≠ -1 || ds.c6 ≠ -1 then pure (SPF_PERMERROR, st)
    else if !(dnstermAllowed st).1 then pure (SPF_FAIL, (dnstermAllowed st).2)
    else do
      let x ← recurse (ds.ds.getD []) { (dnstermAllowed st).2 with spfexp := none }
      pure (if x.1 = SPF_NONE then SPF_FAIL else x.1, x.2)

/-- what spflookup() does after the term loop -/
def afterLoop (dns : Dns) (ss : Sess) (recurse : List Byte → St → M (Int × St))
    (domain rec : List Byte) (redirect expl : Option Nat) (ls : LoopSt) : M (Int × St) :=
  if ls.abort then pure (SPF_PERMERROR, ls.st)
  else if ls.result < 0 then pure (ls.result, ls.st)
  else if ls.result ≠ SPF_NONE then do
    let result := if ls.result = SPF_PASS then ls.prefx else ls.result
    let exp ← (if result = SPF_FAIL then
        match expl with
        | some e => explain dns ss domain rec e ls.st.spfexp
        | none => pure ls.st.spfexp
      else pure ls.st.spfexp : M (Option (List Byte)))
    pure (result, { ls.st with spfexp := exp, mech := ls.mechanism })
  else
    match redirect with
    | none => pure (SPF_NEUTRAL, ls.st)
    | some r => doRedirect dns ss recurse domain rec r ls.st

/-- spflookup() from the selected record on -/
def evalRecord (dns : Dns) (ss : Sess) (recurse : List Byte → St → M (Int × St))
    (domain rec : List Byte) (st : St) : M (Int × St) :=
  match redirectOf rec with
  | none => pure (SPF_PERMERROR, st)
  | some redirect =>
    match explOf rec with
    | none => pure (SPF_PERMERROR, st)
    | some expl => do
      let trailing := match (rec.drop 6).getLast? with
        | some c => wspace c
        | none => false
      let ls ← termLoop dns ss recurse domain rec trailing (wordStarts (rec.drop 6) 6 false) ⟨SPF_NONE, SPF_PASS, none, st, false⟩
      afterLoop dns ss recurse domain rec redirect expl ls

/-- the TXT lookup at the start of spflookup(): none = the domain is not valid (top level only) -/
def spfTxt (dns : Dns) (domain : List Byte) (st : St) : M (Option (Except Errno (List (List Byte)))) :=
  if st.queries = 0 then
    if !domainvalid domain then pure none
    else do let r ← dnstxtRecords dns domain; pure (some r)
  else do let r ← txtlookup dns domain; pure (some r)

/-- spflookup(domain, &queries) with `fuel` levels of recursion left -/
def spflookup (dns : Dns) (ss : Sess) : Nat → List Byte → St → M (Int × St)
  | 0, _, _ => M.stop .outOfFuel
  | fuel + 1, domain, st => do
    let l ← spfTxt dns domain st
    match l with
    | none => pure (SPF_PERMERROR, st)
    | some (.error e) => pure (txtErrCode e, st)
    | some (.ok recs) =>
      match selectRecord recs none with
      | none => pure (SPF_PERMERROR, st)
      | some none => pure (SPF_NONE, st)
      | some (some rec) => evalRecord dns ss (spflookup dns ss fuel) domain rec st

/-- levels of recursion that are always enough (`spf_terminates_bounded`) -/
abbrev fuelEnough : Nat := Gen.spfMaxDnsTerms + 2

/-- check_host(domain): (return value, xmitstat.spfexp, xmitstat.spfmechanism, counters) -/
def checkHost (dns : Dns) (ss : Sess) (domain : List Byte) : M (Int × St) :=
  if !ss.wf then M.stop (.precond 0)
  else spflookup dns ss fuelEnough domain ⟨0, none, none, 0⟩

end QsmtpModel.Spf
