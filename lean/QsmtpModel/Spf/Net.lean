/-
Spf.Net — address helpers used by qsmtpd/spf.c: IN6_IS_ADDR_V4MAPPED, lib/match.c
(ip4_matchnet, ip6_matchnet), qsmtpd/antispam.c:dotip6, lib/fmt.c:ultostr, and executable
restatements of the libc functions the code relies on (glibc inet_pton / inet_ntop, strtol,
strtoul, isspace/isalnum in the C locale).  The libc restatements are tied to the real libc by
the differential run (ops pton4/pton6/ntop) — they are "assumed by contract" (DESIGN §3).

An address is the list of its 16 bytes (network order), an IPv4 address the list of 4 bytes.
Mathlib-free.
-/
import QsmtpModel.Basic

namespace QsmtpModel.Spf
open QsmtpModel

abbrev Ip := List Byte

def v4prefix : List Byte := [0, 0, 0, 0, 0, 0, 0, 0, 0, 0, 0xff, 0xff]

/-- IN6_IS_ADDR_V4MAPPED -/
def isV4Mapped (ip : Ip) : Bool := ip.take 12 == v4prefix

/-- in_addr_to_v4mapped -/
def v4mapped (a : List Byte) : Ip := v4prefix ++ a

/-- big-endian number of a byte list -/
def beNat : List Byte → Nat
  | l => l.foldl (fun acc b => acc * 256 + b.toNat) 0

/-- lib/match.c:ip4_matchnet on the IPv4 part (last 4 bytes) of `ip`; `mask ≤ 32` at every call site. -/
def ip4Matchnet (ip : Ip) (net : List Byte) (mask : Nat) : Bool :=
  if mask = 0 then true
  else beNat (ip.drop 12) >>> (32 - mask) == beNat net >>> (32 - mask)

/-- lib/match.c:ip6_matchnet; `mask ≤ 128` at every call site. -/
def ip6Matchnet (ip net : Ip) (mask : Nat) : Bool :=
  beNat ip >>> (128 - mask) == beNat net >>> (128 - mask)

def isDigit (b : Byte) : Bool := 48 ≤ b.toNat && b.toNat ≤ 57
def isLowerAlpha (b : Byte) : Bool := 97 ≤ b.toNat && b.toNat ≤ 122
def isUpperAlpha (b : Byte) : Bool := 65 ≤ b.toNat && b.toNat ≤ 90
def isAlpha (b : Byte) : Bool := isLowerAlpha b || isUpperAlpha b
def isAlnum (b : Byte) : Bool := isAlpha b || isDigit b
/-- isspace() in the C locale -/
def isSpaceC (b : Byte) : Bool := b == 32 || (9 ≤ b.toNat && b.toNat ≤ 13)
/-- WSPACE() of include/mime_chars.h -/
def wspace (b : Byte) : Bool := b == 32 || b == 9 || b == 13 || b == 10

/-- decimal digits of a number (ultostr, "%u") -/
def decDigitsAux : Nat → Nat → List Byte → List Byte
  | 0, _, acc => acc
  | fuel + 1, n, acc =>
    let acc' := UInt8.ofNat (48 + n % 10) :: acc
    if n / 10 = 0 then acc' else decDigitsAux fuel (n / 10) acc'

def decDigits (n : Nat) : List Byte := decDigitsAux (n + 1) n []

def hexLower (n : Nat) : Byte := UInt8.ofNat (if n < 10 then 48 + n else 87 + n)
def hexUpper (n : Nat) : Byte := UInt8.ofNat (if n < 10 then 48 + n else 55 + n)

/-- "%x" -/
def hexDigitsAux : Nat → Nat → List Byte → List Byte
  | 0, _, acc => acc
  | fuel + 1, n, acc =>
    let acc' := hexLower (n % 16) :: acc
    if n / 16 = 0 then acc' else hexDigitsAux fuel (n / 16) acc'

def hexDigits (n : Nat) : List Byte := hexDigitsAux (n + 1) n []

/-- inet_ntop(AF_INET) -/
def ntop4 (a : List Byte) : List Byte :=
  (a.map fun b => decDigits b.toNat).intersperse [DOT] |>.flatten

/-- the eight 16-bit words of an IPv6 address -/
def words6 : List Byte → List Nat
  | a :: b :: rest => (a.toNat * 256 + b.toNat) :: words6 rest
  | _ => []

/-- longest run of zero words (first one wins, length ≥ 2), as glibc's inet_ntop6:
scan state (best base, best len, current base, current len) -/
def zeroRunAux : List Nat → Nat → (Option (Nat × Nat)) → (Option (Nat × Nat)) → Option (Nat × Nat)
  | [], _, best, cur =>
    let best := match cur, best with
      | some (cb, cl), some (_, bl) => if cl > bl then some (cb, cl) else best
      | some c, none => some c
      | none, b => b
    match best with
    | some (b, l) => if l < 2 then none else some (b, l)
    | none => none
  | w :: ws, i, best, cur =>
    if w = 0 then
      match cur with
      | none => zeroRunAux ws (i + 1) best (some (i, 1))
      | some (cb, cl) => zeroRunAux ws (i + 1) best (some (cb, cl + 1))
    else
      let best := match cur, best with
        | some (cb, cl), some (_, bl) => if cl > bl then some (cb, cl) else best
        | some c, none => some c
        | none, b => b
      zeroRunAux ws (i + 1) best none

def zeroRun (ws : List Nat) : Option (Nat × Nat) := zeroRunAux ws 0 none none

def inRun (best : Option (Nat × Nat)) (i : Nat) : Bool :=
  match best with
  | some (b, l) => b ≤ i && i < b + l
  | none => false

def isRunBase (best : Option (Nat × Nat)) (i : Nat) : Bool :=
  match best with
  | some (b, _) => i == b
  | none => false

/-- "Is this address an encapsulated IPv4?" -/
def v4Tail (ws : List Nat) (best : Option (Nat × Nat)) (i : Nat) : Bool :=
  match best with
  | some (b, l) => i == 6 && b == 0 &&
      (l == 6 || (l == 7 && ws.getD 7 0 != 1) || (l == 5 && ws.getD 5 0 == 0xffff))
  | none => false

/-- the formatting loop of glibc's inet_ntop6 -/
def ntop6Loop (ip : Ip) (ws : List Nat) (best : Option (Nat × Nat)) : Nat → Nat → List Byte → List Byte
  | 0, _, acc => acc
  | fuel + 1, i, acc =>
    if i ≥ 8 then acc
    else if inRun best i then ntop6Loop ip ws best fuel (i + 1) (if isRunBase best i then acc ++ [58] else acc)
    else if v4Tail ws best i then (if i ≠ 0 then acc ++ [58] else acc) ++ ntop4 (ip.drop 12)
    else ntop6Loop ip ws best fuel (i + 1) ((if i ≠ 0 then acc ++ [58] else acc) ++ hexDigits (ws.getD i 0))

/-- inet_ntop(AF_INET6) -/
def ntop6 (ip : Ip) : List Byte :=
  let ws := words6 ip
  let best := zeroRun ws
  let body := ntop6Loop ip ws best 9 0 []
  match best with
  | some (b, l) => if b + l = 8 then body ++ [58] else body
  | none => body

/-- how spfreceived()/the `c` macro print the client address -/
def clientIpText (ip : Ip) : List Byte := if isV4Mapped ip then ntop4 (ip.drop 12) else ntop6 ip

/-- glibc inet_pton4 on `s` (whole list): state (saw_digit, octets, done octets reversed, current) -/
def pton4Aux : List Byte → Bool → Nat → List Byte → Nat → Option (List Byte)
  | [], _, octets, acc, cur => if octets < 4 then none else some (acc.reverse ++ [UInt8.ofNat cur])
  | ch :: rest, saw, octets, acc, cur =>
    if isDigit ch then
      let nw := cur * 10 + (ch.toNat - 48)
      if saw && cur = 0 then none
      else if nw > 255 then none
      else if !saw then
        if octets + 1 > 4 then none else pton4Aux rest true (octets + 1) acc nw
      else pton4Aux rest true octets acc nw
    else if ch == 46 && saw then
      if octets = 4 then none else pton4Aux rest false octets (UInt8.ofNat cur :: acc) 0
    else none

/-- inet_pton(AF_INET, s): the four bytes, or none (return value 0) -/
def pton4 (s : List Byte) : Option (List Byte) := pton4Aux s false 0 [] 0

def hexValB (b : Byte) : Option Nat :=
  if isDigit b then some (b.toNat - 48)
  else if 97 ≤ b.toNat && b.toNat ≤ 102 then some (b.toNat - 87)
  else if 65 ≤ b.toNat && b.toNat ≤ 70 then some (b.toNat - 55)
  else none

/-- main loop of glibc inet_pton6.  `tp` = bytes written so far (in order), `colonp` = offset of `::`,
`curtok` = the text starting at the current token, `xd`/`val` = hex digits seen / their value. -/
def pton6Aux : List Byte → List Byte → Option Nat → List Byte → Nat → Nat → Option (List Byte × Option Nat)
  | [], tp, colonp, _, xd, val =>
    if xd > 0 then
      if tp.length + 2 > 16 then none else some (tp ++ [UInt8.ofNat (val / 256), UInt8.ofNat (val % 256)], colonp)
    else some (tp, colonp)
  | ch :: rest, tp, colonp, curtok, xd, val =>
    match hexValB ch with
    | some d =>
      if xd = 4 then none
      else
        let v := val * 16 + d
        if v > 0xffff then none else pton6Aux rest tp colonp curtok (xd + 1) v
    | none =>
      if ch == 58 then
        if xd = 0 then
          match colonp with
          | some _ => none
          | none => pton6Aux rest tp (some tp.length) rest 0 0
        else if rest.isEmpty then none
        else if tp.length + 2 > 16 then none
        else pton6Aux rest (tp ++ [UInt8.ofNat (val / 256), UInt8.ofNat (val % 256)]) colonp rest 0 0
      else if ch == 46 && tp.length + 4 ≤ 16 then
        match pton4 curtok with
        | some a => some (tp ++ a, colonp)
        | none => none
      else none

/-- inet_pton(AF_INET6, s) -/
def pton6 (s : List Byte) : Option Ip :=
  match s with
  | [] => none
  | c :: rest =>
    let body : Option (List Byte) :=
      if c == 58 then
        match rest with
        | c2 :: _ => if c2 == 58 then some rest else none
        | [] => none
      else some s
    match body with
    | none => none
    | some src =>
      match pton6Aux src [] none src 0 0 with
      | none => none
      | some (tp, colonp) =>
        match colonp with
        | some cp =>
          if tp.length = 16 then none
          else some (tp.take cp ++ List.replicate (16 - tp.length) 0 ++ tp.drop cp)
        | none => if tp.length = 16 then some tp else none

/-- qsmtpd/antispam.c:dotip6 followed by `ip[63] = '\0'`: the 63 characters
`n.n.n. … .n` (nibbles, lowest first) -/
def dotip6 (ip : Ip) : List Byte :=
  let nibs := ip.reverse.flatMap fun b => [hexLower (b.toNat % 16), hexLower (b.toNat / 16)]
  (nibs.map fun n => [n]).intersperse [DOT] |>.flatten

/-- `strtol`/`strtoul` front part: skip isspace, optional sign, decimal digits.
Returns (negative, magnitude, index after the digits) or none when there is no digit
(then the functions return 0 and set endptr to the start). -/
def scanDigits : List Byte → Nat → Nat → Nat × Nat
  | [], v, n => (v, n)
  | c :: rest, v, n => if isDigit c then scanDigits rest (v * 10 + (c.toNat - 48)) (n + 1) else (v, n)

def scanNumber (s : List Byte) : Option (Bool × Nat × Nat) :=
  let ws := (s.takeWhile isSpaceC).length
  let s1 := s.drop ws
  let (neg, sg) := match s1 with
    | c :: _ => if c == 45 then (true, 1) else if c == 43 then (false, 1) else (false, 0)
    | [] => (false, 0)
  let (v, n) := scanDigits (s1.drop sg) 0 0
  if n = 0 then none else some (neg, v, ws + sg + n)

/-- `strtol(s, &end, 10)` as a `long` (clamped to its range), and the end index -/
def strtolLong (s : List Byte) : Int × Nat :=
  match scanNumber s with
  | none => (0, 0)
  | some (neg, v, e) =>
    ((if neg then (if v > 2 ^ 63 then -(2 ^ 63 : Int) else -(v : Int))
      else (if v > 2 ^ 63 - 1 then (2 ^ 63 - 1 : Int) else (v : Int))), e)

/-- `(int) strtol(s, &end, 10)`: value after saturation to `long` and truncation to `int`, and the
end index -/
def strtolInt (s : List Byte) : Int × Nat :=
  match scanNumber s with
  | none => (0, 0)
  | some (neg, v, e) =>
    let l : Int := if neg then (if v > 2 ^ 63 then -(2 ^ 63 : Int) else -(v : Int))
                   else (if v > 2 ^ 63 - 1 then (2 ^ 63 - 1 : Int) else (v : Int))
    let m := (l % (2 ^ 32 : Int)).toNat
    ((if m ≥ 2 ^ 31 then (m : Int) - 2 ^ 32 else (m : Int)), e)

/-- `strtoul(s, &end, 10)` as an unsigned long, and the end index -/
def strtoulNat (s : List Byte) : Nat × Nat :=
  match scanNumber s with
  | none => (0, 0)
  | some (neg, v, e) =>
    if v > 2 ^ 64 - 1 then (2 ^ 64 - 1, e)
    else if neg then ((2 ^ 64 - v) % 2 ^ 64, e) else (v, e)

end QsmtpModel.Spf
