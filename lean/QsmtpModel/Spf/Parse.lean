/-
Spf.Parse — qsmtpd/spf.c: match_mechanism, spf_modifier_name, find_modifier,
may_have_domainspec, spf_domainspec (scanner + toplabel check + CIDR lengths), spfip4, spfip6.

A token is the rest of the TXT record from the token pointer on (NUL-free list; index past the
end reads the terminator 0).
-/
import QsmtpModel.Spf.Macro

namespace QsmtpModel.Spf
open QsmtpModel

/-- strncasecmp(token, mech, |mech|) == 0 -/
def prefixNoCase (tok mech : List Byte) : Bool :=
  tok.length ≥ mech.length && (tok.take mech.length).map lower == mech.map lower

/-- match_mechanism(): length of the mechanism name if it matches, else 0 -/
def matchMechanism (tok mech delims : List Byte) : Nat :=
  if !prefixNoCase tok mech then 0
  else
    let nc := at0 tok mech.length
    if wspace nc || nc == 0 then mech.length
    else if delims.contains nc then mech.length
    else 0

def modNameChar (c : Byte) : Bool := isAlnum c || c == 95 || c == 45 || c == 46

/-- the `while` loop of spf_modifier_name -/
def modifierNameLoop : List Byte → Nat → Nat
  | [], _ => 0
  | c :: rest, res =>
    if wspace c then 0
    else if c == 61 then res
    else if modNameChar c then modifierNameLoop rest (res + 1)
    else 0

/-- spf_modifier_name(): position of the `=` or 0 -/
def modifierName (tok : List Byte) : Nat :=
  match tok with
  | [] => 0
  | c :: rest => if isAlpha c then modifierNameLoop rest 1 else 0

/-- find_modifier(rec + start, mod): index of the first case-insensitive occurrence of `mod` at or
after `start` that is preceded by white space -/
def findModifierAux (rec mod : List Byte) : Nat → Nat → Option Nat
  | 0, _ => none
  | fuel + 1, i =>
    if i + mod.length > rec.length then none
    else if prefixNoCase (rec.drop i) mod then
      if i ≥ 1 && wspace (at0 rec (i - 1)) then some i
      else findModifierAux rec mod fuel (i + mod.length)
    else findModifierAux rec mod fuel (i + 1)

def findModifier (rec mod : List Byte) (start : Nat) : Option Nat :=
  findModifierAux rec mod (rec.length + 1) start

/-- may_have_domainspec(): 0, 1, or SPF_PERMERROR -/
def mayHaveDomainspec (tok : List Byte) : Int :=
  let c := at0 tok 0
  if c == 0 then 0
  else if wspace c then 0
  else if c == 58 then
    let c1 := at0 tok 1
    if c1 == 0 || wspace c1 then SPF_PERMERROR else 1
  else if c == 47 then 1
  else SPF_PERMERROR

/-- states of the scanner of spf_domainspec that survive a `continue` -/
inductive DsState where
  | none | transformer | delimiter
  deriving DecidableEq, Repr, Inhabited

def isMacroLetter (c : Byte) : Bool :=
  let u := if isLowerAlpha c then c - 32 else c
  [83, 76, 79, 68, 73, 80, 72, 67, 82, 84, 86].contains u

def isDelimChar (c : Byte) : Bool := [46, 45, 43, 44, 47, 95, 61].contains c

/-- the scanner loop of spf_domainspec.  Result: none = SPF_PERMERROR, else (t, state, tokenend) -/
def dsScan (tok : List Byte) : Nat → Nat → DsState → Option Nat → Option (Nat × DsState × Option Nat)
  | 0, t, st, te => some (t, st, te)   -- not reached: fuel = length + 1
  | fuel + 1, t, st, te =>
    let c := at0 tok t
    if c == 0 || wspace c || c == 47 then some (t, st, te)
    else if c.toNat ≥ 128 then none
    else
      -- the DELIMITER case
      let delimCase (t : Nat) : Option (Nat × DsState × Option Nat) :=
        let d := at0 tok t
        if isDelimChar d then dsScan tok fuel (t + 1) .delimiter te
        else if d == 125 then dsScan tok fuel (t + 1) .none (some t)
        else none
      -- the LETTER / TRANSFORMER case
      let transCase (t : Nat) : Option (Nat × DsState × Option Nat) :=
        let d := at0 tok t
        if isDigit d then dsScan tok fuel (t + 1) .transformer te
        else if d == 114 then delimCase (t + 1)
        else delimCase t
      match st with
      | .none =>
        if c ≠ 37 then
          if c.toNat < 0x21 || c.toNat > 0x7e then none else dsScan tok fuel (t + 1) .none te
        else
          let d := at0 tok (t + 1)
          if d == 37 || d == 95 || d == 45 then dsScan tok fuel (t + 2) .none te
          else if d == 123 then
            if isMacroLetter (at0 tok (t + 2)) then transCase (t + 3) else none
          else none
      | .transformer => transCase t
      | .delimiter => delimCase t

/-- the toplabel check of spf_domainspec on `tok[0 .. t)` (t ≥ 1): true = acceptable -/
def toplabelOk (tok : List Byte) (t : Nat) : Bool :=
  -- ignore one trailing dot
  let last : Int := if at0 tok (t - 1) == DOT then (t : Int) - 2 else (t : Int) - 1
  if last < 0 then false else
  let lastN := last.toNat
  -- dot = last '.' at or before `last`
  let pre := (tok.take (lastN + 1)).reverse
  match memchr DOT pre with
  | none => false        -- `*dot != '.'` (the byte before the token is ':' or '=')
  | some k =>
    let dot := lastN - k   -- index of that dot
    if dot + 1 ≥ lastN then false
    else if !isAlnum (at0 tok (dot + 1)) then false
    else if !isAlnum (at0 tok lastN) then false
    else
      let lbl := (tok.drop (dot + 1)).take (lastN - dot)
      lbl.all (fun c => isAlnum c || c == DASH) && lbl.any isAlpha

structure DomSpec where
  ds : Option (List Byte)
  c4 : Int
  c6 : Int
  deriving Repr, Inhabited

/-- the CIDR part of spf_domainspec; `tok` starts at the `/`.  none = SPF_PERMERROR -/
def dsCidr (tok : List Byte) : Option (Int × Int) :=
  -- c = 1
  let afterFirst : Option (Int × Nat) :=
    if at0 tok 1 ≠ 47 then
      if at0 tok 1 == 0 || wspace (at0 tok 1) then none
      else
        -- `const long l = strtol(...); if ((l < 0) || (l > 32) || ...)` (range-checked before it is stored)
        let (v, e) := strtolLong (tok.drop 1)
        let ce := at0 tok (1 + e)
        if v < 0 || v > Gen.spfDsIp4CidrMax || (!wspace ce && ce ≠ 47 && ce ≠ 0) then none
        else some (v, 1 + e)
    else some (-1, 0)
  match afterFirst with
  | none => none
  | some (c4, c) =>
    if at0 tok c ≠ 47 then some (c4, -1)
    else if at0 tok (c + 1) ≠ 47 then none
    else
      let c := c + 2
      if at0 tok c == 0 || wspace (at0 tok c) then none
      else
        let (v, e) := strtolLong (tok.drop c)
        let ce := at0 tok (c + e)
        if v < 0 || v > Gen.spfDsIp6CidrMax || !(wspace ce || ce == 0) then none
        else some (c4, v)

/-- spf_domainspec(domain, token, &domainspec, &ip4cidr, &ip6cidr): error code or the result -/
def domainspec (dns : Dns) (ss : Sess) (domain tok : List Byte) : M (Except Int DomSpec) :=
  let c0 := at0 tok 0
  if c0 == 0 || wspace c0 then pure (.ok ⟨none, -1, -1⟩)
  else
    let cidrPart (ds : Option (List Byte)) (rest : List Byte) : M (Except Int DomSpec) :=
      if at0 rest 0 == 47 then
        match dsCidr rest with
        | none => pure (.error SPF_PERMERROR)
        | some (c4, c6) => pure (.ok ⟨ds, c4, c6⟩)
      else pure (.ok ⟨ds, -1, -1⟩)
    if c0 ≠ 47 then
      match dsScan tok (tok.length + 1) 0 .none none with
      | none => pure (.error SPF_PERMERROR)
      | some (t, st, te) =>
        if st ≠ .none then pure (.error SPF_PERMERROR)
        else
          let needTop := match te with
            | none => true
            | some e => t ≠ e + 1
          if needTop && !toplabelOk tok t then pure (.error SPF_PERMERROR)
          else do
            let r ← makro dns ss tok domain false
            match r with
            | .error e => pure (.error e.toInt)
            | .ok ds => cidrPart (some ds) (tok.drop t)
    else cidrPart none tok

/-- spfip4(domain): SPF_NONE / SPF_PASS / SPF_PERMERROR -/
def spfip4 (ss : Sess) (tok : List Byte) : Int :=
  if !isV4Mapped ss.ip then SPF_NONE else
  let n := (tok.takeWhile fun c => isDigit c || c == DOT).length
  if n ≥ 16 || n < Gen.spfIp4LenMin then SPF_PERMERROR else
  let sl := at0 tok n
  let mask : Option Nat :=
    if sl == 47 then
      let (u, e) := strtoulNat (tok.drop (n + 1))
      let q := at0 tok (n + 1 + e)
      if u < Gen.spfIp4CidrMin || u > Gen.spfIp4CidrMax || (!wspace q && q ≠ 0) then none else some u
    else if wspace sl || sl == 0 then some 32
    else none
  match mask with
  | none => SPF_PERMERROR
  | some u =>
    match pton4 (tok.take n) with
    | none => SPF_PERMERROR
    | some net => if ip4Matchnet ss.ip net u then SPF_PASS else SPF_NONE

def isIp6Char (c : Byte) : Bool := (hexValB c).isSome || c == 58 || c == DOT

/-- spfip6(domain) -/
def spfip6 (ss : Sess) (tok : List Byte) : Int :=
  if isV4Mapped ss.ip then SPF_NONE else
  let n := (tok.takeWhile isIp6Char).length
  if n ≥ 46 || n < Gen.spfIp6LenMin then SPF_PERMERROR else
  let sl := at0 tok n
  let mask : Option Nat :=
    if sl == 47 then
      let (u, e) := strtoulNat (tok.drop (n + 1))
      let q := at0 tok (n + 1 + e)
      if u < Gen.spfIp6CidrMin || u > Gen.spfIp6CidrMax || (!wspace q && q ≠ 0) then none else some (u % 256)
    else if wspace sl || sl == 0 then some 128
    else none
  match mask with
  | none => SPF_PERMERROR
  | some u =>
    match pton6 (tok.take n) with
    | none => SPF_PERMERROR
    | some net => if ip6Matchnet ss.ip net u then SPF_PASS else SPF_NONE

end QsmtpModel.Spf
