/-
Model of the recipient policy of Qsmtpd:

  qsmtpd/commands.c: smtp_rcpt            userconf_load_configs() .. end (filter loop, rejection switch)
  qsmtpd/backends/user_vpopm/getfile.c   getfile, checkconfig, getsetting_internal, getsetting(global)
  qsmtpd/backends/user_vpopm/vpop.c      userconf_load_configs, userconf_get_buffer, userconf_find_domain
  qsmtpd/filters/*.c                     every filter named in rcpt_cbs[]

The configuration is a parameter: what `openat()` finds behind every file name in the user
directory, the domain directory and the control directory (`Cfg`); so is everything the session
has established before RCPT TO (`Facts`: authentication, TLS, sender, HELO, SIZE, SPF status, DNS
answers).  File contents are parsed by the models of lib/control.c (`Control`), IP lists by `Match`,
address entries by `Addr`.  The filters are run in the order of the extracted table
`Gen.Rcpt.rcptCbs`, keys / file names / search flags / reply texts come from `Gen.Rcpt`.

Mathlib-free (driver import closure).
-/
import QsmtpModel.Basic
import QsmtpModel.Control
import QsmtpModel.Match
import QsmtpModel.Addr
import QsmtpModel.Session
import QsmtpModel.Gen.Rcpt
import QsmtpModel.Spec.RcptPolicy

namespace QsmtpModel.Rcpt
open QsmtpModel
open QsmtpModel.Gen.Rcpt (Cb)

/-! ### enum filter_result -/

inductive FR where
  | error | passed | deniedMsg | deniedUnspecific | deniedNouser | deniedTemp | whitelisted
  deriving Repr, DecidableEq, Inhabited

def FR.code : FR → Int
  | .error => Gen.Rcpt.frError
  | .passed => Gen.Rcpt.frPassed
  | .deniedMsg => Gen.Rcpt.frDeniedWithMessage
  | .deniedUnspecific => Gen.Rcpt.frDeniedUnspecific
  | .deniedNouser => Gen.Rcpt.frDeniedNouser
  | .deniedTemp => Gen.Rcpt.frDeniedTemporary
  | .whitelisted => Gen.Rcpt.frWhitelisted

/-- `filter_denied(r)`: `(r > FILTER_PASSED) && (r != FILTER_WHITELISTED)` -/
def filterDenied (r : FR) : Bool := decide (r.code > FR.passed.code) && r.code != FR.whitelisted.code

/-! ### strtol(s, &end, 10) -/

structure Strtol where
  val : Int
  rest : List Byte          -- `*end` onwards
  erange : Bool             -- errno = ERANGE
  deriving Repr, DecidableEq

def isDigit (b : Byte) : Bool := 48 ≤ b.toNat && b.toNat ≤ 57

def digitsVal (ds : List Byte) : Nat := ds.foldl (fun a d => a * Gen.Rcpt.strtolBase + (d.toNat - 48)) 0

/-- sign character of strtol: (negative, rest) -/
def signOf : List Byte → Bool × List Byte
  | 45 :: t => (true, t)
  | 43 :: t => (false, t)
  | s => (false, s)

/-- strtol behind white space and sign: `s2` = the text there, `s` = the whole argument (where
`*end` points when there is no digit) -/
def strtolTail (s : List Byte) (neg : Bool) (s2 : List Byte) : Strtol :=
  let ds := s2.takeWhile isDigit
  if ds.isEmpty then { val := 0, rest := s, erange := false }
  else
    let n := digitsVal ds
    let rest := s2.drop ds.length
    if neg then
      if n > Gen.Rcpt.longMax + 1 then { val := -((Gen.Rcpt.longMax : Int) + 1), rest := rest, erange := true }
      else { val := -(n : Int), rest := rest, erange := false }
    else if n > Gen.Rcpt.longMax then { val := Gen.Rcpt.longMax, rest := rest, erange := true }
    else { val := n, rest := rest, erange := false }

def strtol (s : List Byte) : Strtol :=
  let s1 := s.dropWhile Control.isSpaceC
  strtolTail s (signOf s1).1 (signOf s1).2

/-! ### checkconfig / getsetting_internal -/

/-- result of checkconfig(): the value and whether `errno` is non-zero afterwards -/
structure CC where
  val : Int
  err : Bool
  deriving Repr, DecidableEq

abbrev Lines := Option (List (List Byte))     -- `char **`: NULL or the entries

/-- what one entry decides about `flag` (none: the loop goes on) -/
def checkLine (flag line : List Byte) : Option CC :=
  if line.take flag.length = flag then
    match line.drop flag.length with
    | [] => some { val := 1, err := false }
    | 61 :: v =>
      let r := strtol v
      if r.rest ≠ [] then some { val := -1, err := true } else some { val := r.val, err := r.erange }
    | _ => none
  else none

def checkEntries (flag : List Byte) : List (List Byte) → CC
  | [] => { val := 0, err := false }
  | l :: ls =>
    match checkLine flag l with
    | some r => r
    | none => checkEntries flag ls

def checkconfig (config : Lines) (flag : List Byte) : CC :=
  match config with
  | none => { val := 0, err := false }
  | some ls => checkEntries flag ls

/-- the three parsed `filterconf`s: `ds->userconf`, `ds->domainconf`, `globalconf` -/
structure Conf where
  user : Lines := none
  domain : Lines := none
  global : Lines := none
  deriving Repr, DecidableEq

/-- what one level contributes in getsetting_internal: `some (value)` ends the search -/
def levelResult (r : CC) : Option Int :=
  if r.val > 0 then some r.val
  else if r.val < 0 then some (if r.err then r.val else 0)
  else none

/-- getsetting_internal(ds, flag, type, flags): (return value, `*type`) -/
def getsettingInternal (c : Conf) (flag : List Byte) (glob : Bool) : Int × Nat :=
  match levelResult (checkconfig c.user flag) with
  | some v => (v, Gen.Rcpt.cfgUser)
  | none =>
    match levelResult (checkconfig c.domain flag) with
    | some v => (v, Gen.Rcpt.cfgDomain)
    | none =>
      if !glob then (0, Gen.Rcpt.cfgDomain)
      else
        let r := checkconfig c.global flag
        (if r.val < 0 ∧ !r.err then 0 else r.val, Gen.Rcpt.cfgGlobal)

/-- getsetting() / getsettingglobal() as chosen in the source for this key -/
def getS (c : Conf) (k : List Byte × Bool) : Int × Nat := getsettingInternal c k.1 k.2

/-! ### the files -/

/-- what `openat(dirfd, name, O_RDONLY)` finds -/
inductive File where
  | absent                    -- ENOENT
  | openErr                   -- any other error of open (a symbolic link loop, no permission)
  | dir                       -- a directory: open succeeds, reading / mapping fails
  | content (c : List Byte)
  deriving Repr, DecidableEq, Inhabited

abbrev Level := List (List Byte × File)

def Level.get (l : Level) (fn : List Byte) : File := (l.lookup fn).getD .absent

structure Cfg where
  user : Option Level         -- `ds->userdirfd >= 0`
  domain : Option Level       -- `ds->domaindirfd >= 0`
  global : Level              -- `controldir_fd`
  globalconf : Lines          -- parsed at start-up from control/filterconf
  deriving Repr

/-- result of getfile(): -1 with ENOENT, -1 with another errno, or a descriptor -/
inductive Got where
  | enoent
  | err
  | fd (f : File)
  deriving Repr, DecidableEq

def gotOf : File → Option Got
  | .absent => none
  | .openErr => some .err
  | f => some (.fd f)

/-- getfile(ds, fn, type, flags) with `glob` = `flags & userconf_global`: (`*type` if written, result) -/
def getfileB (cfg : Cfg) (fn : List Byte) (glob : Bool) : Option Nat × Got :=
  let globalStep : Option Nat × Got :=
    (some Gen.Rcpt.cfgGlobal, (gotOf (cfg.global.get fn)).getD .enoent)
  let domainStep (t : Option Nat) : Option Nat × Got :=
    match cfg.domain with
    | some d =>
      match gotOf (d.get fn) with
      | some g => (some Gen.Rcpt.cfgDomain, g)
      | none => if !glob then (some Gen.Rcpt.cfgDomain, .enoent) else globalStep
    | none => if !glob then (t, .enoent) else globalStep
  match cfg.user with
  | some u =>
    match gotOf (u.get fn) with
    | some g => (some Gen.Rcpt.cfgUser, g)
    | none => domainStep (some Gen.Rcpt.cfgUser)
  | none => domainStep none

def getfile (cfg : Cfg) (fn : List Byte) (flags : Nat) : Option Nat × Got :=
  getfileB cfg fn (flags &&& Gen.Rcpt.flagGlobal != 0)

/-- the descriptor as the loaders of lib/control.c see it -/
def Got.fs : Got → Control.FileState
  | .enoent => .absent
  | .err => .unreadable
  | .fd (.content c) => .content c
  | .fd _ => .unreadable          -- a directory: EISDIR from lloadfilefd, ENODEV from mmap

/-- loadlistfd() without the (proved unreachable) fault outcome -/
def loadlist (cf : Option (List Byte → Bool)) (g : Got) : Control.ListR :=
  match Control.loadlistFile cf g.fs with
  | .ok r => r
  | .error _ => .err .einval

def linesOf : Control.ListR → Option Lines
  | .err _ => none
  | .null => some none
  | .ok es => some (some es)

/-- userconf_load_configs(): none = error, else (userconf, domainconf) -/
def loadConfigs (cfg : Cfg) : Option (Lines × Lines) :=
  let (ty, g) := getfile cfg Gen.Rcpt.filterconfName 0
  match linesOf (loadlist none g) with
  | none => none
  | some first =>
    if ty = some Gen.Rcpt.cfgDomain then some (none, first)
    else
      let (_, g2) := getfile { cfg with user := none } Gen.Rcpt.filterconfName 0
      match linesOf (loadlist none g2) with
      | none => none
      | some second => some (first, second)

/-- callbacks of loadlistfd: true = the entry is rejected -/
def cfCheckaddr (e : List Byte) : Bool :=
  match Addr.checkaddr (e ++ [0]) with
  | .ok 0 => false
  | _ => true

def cfDomainvalid (e : List Byte) : Bool :=
  match Addr.domainvalid (e ++ [0]) with
  | .ok 0 => false
  | _ => true

def cfDomainvalidOrInherit (e : List Byte) : Bool :=
  if e = Gen.Rcpt.inheritWord then false else cfDomainvalid e

/-- result of userconf_get_buffer() -/
inductive Buf where
  | none                                   -- CONFIG_NONE
  | err                                    -- negative error code
  | ok (t : Nat) (vals : List (List Byte))
  deriving Repr, DecidableEq

/-- index of the first entry equal to "!inherit" -/
def inheritIdx (vals : List (List Byte)) : Option Nat :=
  let i := (vals.takeWhile (· ≠ Gen.Rcpt.inheritWord)).length
  if i < vals.length then some i else none

/-- userconf_get_buffer(ds, key, values, cf, flags); `fuel` bounds the inheritance chain
(user → domain → global) -/
def getBuffer (cf : Option (List Byte → Bool)) (key : List Byte) (flags : Nat) : Nat → Cfg → Buf
  | 0, _ => .err
  | fuel + 1, cfg =>
    let (ty, g) := getfile cfg key flags
    let t := ty.getD 0
    match g with
    | .enoent => .none
    | .err => .err
    | .fd _ =>
      match loadlist cf g with
      | .err _ => .err
      | .null => .none
      | .ok vals =>
        if flags &&& Gen.Rcpt.flagInherit ≠ 0 ∧
            (t = Gen.Rcpt.cfgUser ∨ (t = Gen.Rcpt.cfgDomain ∧ flags &&& Gen.Rcpt.flagGlobal ≠ 0)) then
          match inheritIdx vals with
          | none => .ok t vals
          | some i =>
            let uc : Cfg := if t = Gen.Rcpt.cfgDomain then { cfg with user := none, domain := none } else { cfg with user := none }
            match getBuffer cf key flags fuel uc with
            | .err => .err
            | .none => .ok t vals
            | .ok r inh =>
              if r = Gen.Rcpt.cfgDomain ∨ r = Gen.Rcpt.cfgGlobal then
                match inh with
                | [one] =>
                  if one.length ≤ Gen.Rcpt.inheritWord.length then .ok t (vals.set i one)
                  else .ok t (vals.eraseIdx i ++ inh)
                | _ => .ok t (vals.eraseIdx i ++ inh)
              else .ok t vals
        else .ok t vals

/-- result of userconf_find_domain(): CONFIG_NONE, an error, or the level that lists the name -/
inductive Found where
  | none | err | at (t : Nat)
  deriving Repr, DecidableEq

def findDomain (cfg : Cfg) (key : List Byte) (flags : Nat) (d : List Byte) : Found :=
  let (ty, g) := getfile cfg key flags
  match g with
  | .enoent => .none
  | .err => .err
  | .fd _ =>
    match Control.finddomainfdFile g.fs d with
    | .ok .emptyFile => .none
    | .ok (.found true) => .at (ty.getD 0)
    | .ok (.found false) => .none
    | .ok (.err _) => .err
    | .error _ => .err

/-! ### what the session has established -/

/-- answer of ask_dnsa() -/
inductive DnsA where
  | count (n : Nat) | temp | perm | localErr
  deriving Repr, DecidableEq, Inhabited

/-- IN6_IS_ADDR_V4MAPPED -/
def isV4Mapped (a : List Byte) : Bool := a.take 12 == [0, 0, 0, 0, 0, 0, 0, 0, 0, 0, 255, 255]

def okTrue : Except Fault Bool → Bool
  | .ok true => true
  | _ => false

/-- cb_fromdomain: the address is in one of the reserved networks (or link / site local) -/
def mxPrivate (a : List Byte) : Bool :=
  if isV4Mapped a then Gen.Rcpt.reservedNets4.any fun nl => okTrue (Match.ip4Matchnet a nl.1 nl.2)
  else
    (Gen.Rcpt.reservedNets6.any fun nl => okTrue (Match.ip6Matchnet a nl.1 nl.2)) ||
    (a[0]? == some 254 && ((a.getD 1 0).toNat &&& 192 == 128 || (a.getD 1 0).toNat &&& 192 == 192))

/-- cb_fromdomain: 0/8, 127/8, ::1, :: -/
def mxLocalhost (a : List Byte) : Bool :=
  if isV4Mapped a then a[12]? == some 0 || a[12]? == some 127
  else a == List.replicate 15 0 ++ [1] || a == List.replicate 16 0

structure Facts where
  authClient : Bool := false        -- is_authenticated_client()
  authname : Bool := false          -- xmitstat.authname.len > 0
  ssl : Bool := false
  esmtp : Bool := false
  spacebug : Bool := false
  mailfrom : List Byte := []
  thisbytes : Nat := 0
  helostatus : Nat := 0
  helostr : List Byte := []         -- HELOSTR
  remotehost : List Byte := []
  v4 : Bool := true
  ip : List Byte := []              -- xmitstat.sremoteip, 16 bytes
  rcpt : List Byte := []            -- THISRCPT
  others : List (List Byte) := []   -- the other entries of `head`, in order
  spf : Nat := 0
  spfexp : Option (List Byte) := none
  rspf : Nat := 0                   -- SPF status after the rSPF block when an rspf list exists (oracle)
  frommx : Option (List (List Byte)) := none        -- the addresses of xmitstat.frommx
  fromdomain : Int := 0
  dns : List (List Byte × DnsA) := []
  txt : List (List Byte × List Byte) := []
  wildcard : Bool := false          -- every MX of the sender matches a control/wildcardns entry (oracle)
  deriving Repr

def Facts.askDnsa (f : Facts) (name : List Byte) : DnsA := (f.dns.lookup (name.map lower)).getD (.count 0)

/-! ### replies -/

inductive Reply where
  | lit (b : List Byte)               -- netwrite(): complete line(s) with CRLF
  | parts (ps : List (List Byte))     -- net_writen(): folded and terminated there
  deriving Repr, DecidableEq

/-- result of one filter -/
structure CbRes where
  fr : FR
  wrote : List Reply := []
  logmsg : Bool := false             -- `*logmsg` was set
  t : Option Nat := none             -- `*t` after the call if the filter wrote it
  fault : Bool := false              -- the filter dereferences a NULL pointer
  readsT : Bool := false             -- the filter reads blocktype[*t] before it assigns *t
  deriving Repr, DecidableEq

/-! ### the filters -/

/-- `*t` after a filter stored a negative error code in it (as `enum config_domain`: a huge unsigned
value; only "outside blocktype[]" matters) -/
def errT : Nat := 4294967295

def atIdx (s : List Byte) : Nat := (s.takeWhile (· ≠ 64)).length

def caseEq (a b : List Byte) : Bool := a.map lower == b.map lower

def cbBoolean (c : Conf) (f : Facts) : CbRes :=
  let (v1, t1) := getS c Gen.Rcpt.kWhitelistauth
  if v1 > 0 ∧ f.authClient then { fr := .whitelisted, t := some t1 }
  else
    let (force, t2) := if !f.ssl then (decide ((getS c Gen.Rcpt.kForcestarttls).1 > 0), some (getS c Gen.Rcpt.kForcestarttls).2) else (false, some t1)
    if force then { fr := .deniedMsg, wrote := [.lit Gen.Rcpt.replyForcestarttls], logmsg := true, t := t2 }
    else
      let (nb, t3) := if f.mailfrom.isEmpty then (decide ((getS c Gen.Rcpt.kNobounce).1 > 0), some (getS c Gen.Rcpt.kNobounce).2) else (false, t2)
      if nb then { fr := .deniedMsg, wrote := [.lit Gen.Rcpt.replyNobounce], t := t3 }
      else
        let (v4, t4) := getS c Gen.Rcpt.kNoapos
        if v4 > 0 ∧ !f.mailfrom.isEmpty ∧ (f.mailfrom.take (atIdx f.mailfrom)).contains 39 then
          { fr := .deniedUnspecific, logmsg := true, t := some t4 }
        else { fr := .passed, t := some t4 }

/-- nomail: does the text start with "XYZ X.Y.Z " (X = 4 or 5, same X twice)? -/
def nomailCodebeg (m : List Byte) : Bool :=
  decide (m.length > Gen.Rcpt.nomailCodeLen) &&
  match m with
  | c0 :: c1 :: c2 :: c3 :: c4 :: c5 :: c6 :: c7 :: c8 :: c9 :: _ =>
    (c0 == 52 || c0 == 53) && isDigit c1 && isDigit c2 && c3 == 32 && c4 == c0 && c5 == 46 &&
    isDigit c6 && c7 == 46 && isDigit c8 && c9 == 32
  | _ => false

def loadoneliner (g : Got) : Control.LineR :=
  match Control.loadonelinerFile g.fs with
  | .ok r => r
  | .error _ => .err .einval

def cbNomail (cfg : Cfg) : CbRes :=
  let (t, g) := getfile cfg Gen.Rcpt.fNomail.1 Gen.Rcpt.fNomail.2
  match g with
  | .enoent => { fr := .passed, t := t }
  | .err => { fr := .error, t := t }
  | .fd _ =>
    match loadoneliner g with
    | .err .enoent => { fr := .deniedUnspecific, logmsg := true, t := t }
    | .err _ => { fr := .error, logmsg := true, t := t }
    | .ok m =>
      { fr := .deniedMsg, logmsg := true, t := t,
        wrote := [.parts (if nomailCodebeg m then [m.take Gen.Rcpt.nomailCodeLen, m.drop Gen.Rcpt.nomailCodeLen]
                         else [Gen.Rcpt.replyNomailHead, m])] }

/-- conversion `long` → `int` on the target -/
def toInt32 (v : Int) : Int :=
  let m := v % 4294967296
  if m > Gen.Rcpt.intMax then m - 4294967296 else m

def cbSmtpbugs (c : Conf) (f : Facts) : CbRes :=
  if !f.spacebug then { fr := .passed }
  else
    let (v, t) := getS c Gen.Rcpt.kSpacebug
    let filter := toInt32 v
    let deny : CbRes := { fr := .deniedMsg, wrote := [.lit Gen.Rcpt.replySpacebug], t := some t }
    let pass : CbRes := { fr := .passed, t := some t }
    if filter ≤ 0 then pass
    else if filter = Gen.Rcpt.spbTls then (if f.ssl then pass else if f.authname then pass else deny)
    else if filter = Gen.Rcpt.spbAuth then (if f.authname then pass else deny)
    else if filter = Gen.Rcpt.spbEsmtp then (if f.esmtp then pass else deny)
    else if filter = Gen.Rcpt.spbRejectAll then deny
    else pass

def cbUsersize (c : Conf) (f : Facts) : CbRes :=
  let (v, t) := getS c Gen.Rcpt.kUsersize
  if v ≤ 0 then { fr := .passed, t := some t }
  else if (f.thisbytes : Int) ≤ v then { fr := .passed, t := some t }
  else { fr := .deniedMsg, wrote := [.lit Gen.Rcpt.replyUsersize], logmsg := true, t := some t }

def lastDot (s : List Byte) : Option Nat :=
  let k := (s.reverse.takeWhile (· ≠ 46)).length
  if k < s.length then some (s.length - 1 - k) else none

def cbSoberg (c : Conf) (f : Facts) : CbRes :=
  if f.mailfrom.isEmpty then { fr := .passed }
  else
    let (v, t) := getS c Gen.Rcpt.kSoberg
    if v ≤ 0 then { fr := .passed, t := some t }
    else
      let userl := atIdx f.mailfrom
      if !(f.helostr.length ≥ userl ∧ caseEq (f.helostr.take userl) (f.mailfrom.take userl)) then { fr := .passed, t := some t }
      else
        match lastDot f.mailfrom with
        | none => { fr := .error, t := some t, fault := true }          -- strcasecmp(.., NULL)
        | some d =>
          if !caseEq (f.helostr.drop userl) (f.mailfrom.drop d) then { fr := .passed, t := some t }
          else { fr := .deniedMsg, wrote := [.lit Gen.Rcpt.replySoberg], logmsg := true, t := some t }

/-- lookupipbl(fd): 1 match, 0 no match, -1 error -/
def lookupIp (f : Facts) (g : Got) : Int :=
  match g with
  | .fd (.content c) =>
    match Match.lookupipbl f.v4 f.ip c with
    | .ok .matched => 1
    | .ok .nomatch => 0
    | _ => -1
  | _ => -1

def cbIpbl (cfg : Cfg) (f : Facts) : CbRes :=
  let fb := if f.v4 then Gen.Rcpt.fIpbl4 else Gen.Rcpt.fIpbl6
  let fw := if f.v4 then Gen.Rcpt.fIpwl4 else Gen.Rcpt.fIpwl6
  let (t, g) := getfile cfg fb.1 fb.2
  match g with
  | .enoent => { fr := .passed, t := t }
  | .err => { fr := .error, t := t }
  | .fd _ =>
    if lookupIp f g > 0 then
      let (_, g2) := getfile cfg fw.1 fw.2
      match g2 with
      | .err => { fr := .error, t := t }
      | .enoent => { fr := .deniedUnspecific, logmsg := true, t := t }
      | .fd _ =>
        if lookupIp f g2 = 0 then { fr := .deniedUnspecific, logmsg := true, t := t }
        else { fr := .passed, t := t }
    else { fr := .passed, t := t }

/-- two's complement view of a `long` for the bit tests -/
def toU64 (v : Int) : Nat := (v % 18446744073709551616).toNat

def cbHelo (c : Conf) (cfg : Cfg) (f : Facts) : CbRes :=
  let (hit, t1) : Bool × Option Nat :=
    if f.helostatus ≠ 0 then
      let (l, t) := getS c Gen.Rcpt.kHelovalid
      (decide ((1 <<< f.helostatus) &&& toU64 l ≠ 0), some t)
    else (false, none)
  if hit then { fr := .deniedUnspecific, logmsg := true, t := t1 }
  else
    match findDomain cfg Gen.Rcpt.fBadhelo.1 Gen.Rcpt.fBadhelo.2 f.helostr with
    | .err => { fr := .error, t := some errT }
    | .none => { fr := .passed, t := some Gen.Rcpt.cfgNone }
    | .at t => { fr := .deniedUnspecific, logmsg := true, t := some t }

/-- lookupbmf(at, a): is the sender matched by one of the entries? -/
def bmfEntry (from_ : List Byte) (e : List Byte) : Bool :=
  if e.head? = some 64 then
    atIdx from_ < from_.length && caseEq e (from_.drop (atIdx from_))
  else if !e.contains 64 then
    let k := e.length
    if k < from_.length then
      let c := from_.drop (from_.length - k)
      caseEq c e && (e.head? = some 46 || from_[from_.length - k - 1]? = some 46 || from_[from_.length - k - 1]? = some 64)
    else false
  else caseEq e from_

def lookupbmf (from_ : List Byte) (a : List (List Byte)) : Bool := a.any (bmfEntry from_)

def cbBadmailfrom (cfg : Cfg) (f : Facts) : CbRes :=
  if f.mailfrom.isEmpty then { fr := .passed }
  else
    match getBuffer none Gen.Rcpt.fBadmailfrom.1 Gen.Rcpt.fBadmailfrom.2 3 cfg with
    | .err => { fr := .error, t := some errT }
    | .none => { fr := .passed, t := some Gen.Rcpt.cfgNone }
    | .ok t a =>
      if !lookupbmf f.mailfrom a then { fr := .passed, t := some t }
      else
        match getBuffer (some cfCheckaddr) Gen.Rcpt.fGoodmailfrom.1 Gen.Rcpt.fGoodmailfrom.2 3 cfg with
        | .err => { fr := .error, logmsg := true, t := some t }
        | .none => { fr := .deniedUnspecific, logmsg := true, t := some t }
        | .ok _ g =>
          if lookupbmf f.mailfrom g then { fr := .passed, logmsg := true, t := some t }
          else { fr := .deniedUnspecific, logmsg := true, t := some t }

/-- the entry test of cb_badcc for one other recipient -/
def bccEntry (to : List Byte) (e : List Byte) : Bool :=
  if e.head? = some 64 then
    atIdx to < to.length && caseEq e (to.drop (atIdx to))
  else if !e.contains 64 then
    let k := e.length
    if k < to.length then
      caseEq (to.drop (to.length - k)) e && (to[to.length - k - 1]? = some 46 || to[to.length - k - 1]? = some 64)
    else false
  else caseEq e to

def cbBadcc (cfg : Cfg) (f : Facts) : CbRes :=
  if f.others.isEmpty then { fr := .passed }
  else
    match getBuffer (some cfCheckaddr) Gen.Rcpt.fBadcc.1 Gen.Rcpt.fBadcc.2 3 cfg with
    | .err => { fr := .error, t := some errT }
    | .none => { fr := .passed, t := some Gen.Rcpt.cfgNone }
    | .ok t a =>
      if f.others.any (fun to => a.any (bccEntry to)) then { fr := .deniedUnspecific, logmsg := true, t := some t }
      else { fr := .passed, t := some t }

def cbFromdomain (c : Conf) (f : Facts) : CbRes :=
  if f.mailfrom.isEmpty then { fr := .passed }
  else
    let (u, t) := getS c Gen.Rcpt.kFromdomain
    if u ≤ 0 then { fr := .passed, t := some t }
    else
      let un := u.toNat
      let deny (r : List Byte) : CbRes := { fr := .deniedMsg, wrote := [.lit r], logmsg := true, t := some t }
      if un &&& Gen.Rcpt.fdInDns ≠ 0 ∧ f.frommx.isNone then
        if f.fromdomain = Gen.Rcpt.dnsErrorTemp then deny Gen.Rcpt.replyFromTemp
        else if f.fromdomain = Gen.Rcpt.dnsErrorPerm then deny Gen.Rcpt.replyFromPerm
        else if f.fromdomain = 1 then deny Gen.Rcpt.replyFromNoMx
        else if f.fromdomain = 2 then deny Gen.Rcpt.replyFromNullMx
        else { fr := .passed, t := some t }
      else
        match f.frommx with
        | some ips =>
          if un &&& (Gen.Rcpt.fdLocalhost ||| Gen.Rcpt.fdPrivate) ≠ 0 ∧
              ips.all (fun ip => (un &&& Gen.Rcpt.fdPrivate ≠ 0 && mxPrivate ip) || (un &&& Gen.Rcpt.fdLocalhost ≠ 0 && mxLocalhost ip)) then
            deny Gen.Rcpt.replyFromUnroutable
          else { fr := .passed, t := some t }
        | none => { fr := .passed, t := some t }

/-- the `switch (p)` of cb_spf -/
inductive SpfAct where
  | deny | strict | temp | badSpf
  deriving Repr, DecidableEq

def spfStage (spfs : Nat) : Nat → SpfAct
  | 0 => .strict          -- not reached (p > 0)
  | 1 => if spfs = Gen.Rcpt.spfTemperror then .temp else .strict
  | 2 =>
    if spfs = Gen.Rcpt.spfDnsHardError then .strict
    else if spfs = Gen.Rcpt.spfFail ∨ spfs = Gen.Rcpt.spfPermerror then .deny
    else spfStage spfs 1
  | 3 =>
    if spfs = Gen.Rcpt.spfSoftfail then .strict
    else if spfs = Gen.Rcpt.spfDnsHardError then .badSpf
    else spfStage spfs 2
  | 4 =>
    if spfs = Gen.Rcpt.spfNeutral then .strict
    else if spfs = Gen.Rcpt.spfSoftfail then .deny
    else spfStage spfs 3
  | 5 => if spfs = Gen.Rcpt.spfNeutral then .deny else spfStage spfs 4
  | _ + 6 => if spfs = Gen.Rcpt.spfNone then .deny else spfStage spfs 5

def senderDomain (f : Facts) : List Byte :=
  if f.mailfrom.isEmpty then f.helostr else f.mailfrom.drop (atIdx f.mailfrom + 1)

def cbSpf (c : Conf) (cfg : Cfg) (f : Facts) : CbRes :=
  if f.spf = Gen.Rcpt.spfPass ∨ f.spf = Gen.Rcpt.spfIgnore then { fr := .passed }
  else
    let (p, t) := getS c Gen.Rcpt.kSpfpolicy
    if p ≤ 0 then { fr := .passed, t := some t }
    else
      let ign := if f.remotehost.isEmpty then Found.none else findDomain cfg Gen.Rcpt.fSpfignore.1 Gen.Rcpt.fSpfignore.2 f.remotehost
      match ign with
      | .err => { fr := .error, t := some t }
      | .at _ => { fr := .passed, t := some t }
      | .none =>
        -- rSPF: only its outcome is taken from the oracle
        let rs : Option (Nat × Nat × Bool) :=        -- (spfs, t, logmsg "rSPF")
          if f.spf = Gen.Rcpt.spfNone then
            match getBuffer (some cfDomainvalid) Gen.Rcpt.fRspf.1 Gen.Rcpt.fRspf.2 3 cfg with
            | .err => none
            | .none => some (f.spf, t, false)
            | .ok u _ => some (f.rspf, if f.rspf ≠ Gen.Rcpt.spfNone then u else t, f.rspf ≠ Gen.Rcpt.spfNone)
          else some (f.spf, t, false)
        match rs with
        | none => { fr := .error, t := some t }
        | some (spfs, t, _) =>
          if spfs = Gen.Rcpt.spfPass then { fr := .passed, t := some t }
          else
            let act := spfStage spfs p.toNat
            if act = .badSpf then { fr := .deniedMsg, wrote := [.lit Gen.Rcpt.replySpfSyntax], logmsg := true, t := some t }
            else
              let strictRes : Found := if act = .strict then findDomain cfg Gen.Rcpt.fSpfstrict.1 Gen.Rcpt.fSpfstrict.2 (senderDomain f) else .at t
              match strictRes with
              | .err => { fr := .error, t := some errT }
              | .none => { fr := .passed, t := some Gen.Rcpt.cfgNone }
              | .at t' =>
                if act = .temp then
                  if (getS c Gen.Rcpt.kSpfFailhard).1 ≤ 0 then
                    { fr := .deniedMsg, wrote := [.lit Gen.Rcpt.replySpfTemp], logmsg := true, t := some t' }
                  else { fr := .deniedTemp, logmsg := true, t := some t' }
                else
                  let tail := match f.spfexp with
                    | some e => if spfs = Gen.Rcpt.spfDnsHardError then [] else [Gen.Rcpt.replySpfSays, e]
                    | none => []
                  { fr := .deniedMsg, wrote := [.parts (Gen.Rcpt.replySpfHead :: tail)], logmsg := true, t := some t' }

/-! #### DNS based lists -/

def decimal (n : Nat) : List Byte := (toString n).toUTF8.toList

/-- the name check_rbl() looks up for the list `rbl` -/
def rblPrefix (f : Facts) : List Byte :=
  if f.v4 then
    let b := fun i => decimal (f.ip.getD i 0).toNat
    b 15 ++ [46] ++ b 14 ++ [46] ++ b 13 ++ [46] ++ b 12 ++ [46]
  else
    (f.ip.reverse.flatMap fun x => [(hexDigit (x.toNat % 16)).toNat.toUInt8, 46, (hexDigit (x.toNat / 16)).toNat.toUInt8, 46])

inductive Rbl where
  | listed (i : Nat) | notListed | temp | localErr
  deriving Repr, DecidableEq

def checkRblLoop (f : Facts) (pre : List Byte) : List (List Byte) → Nat → Bool → Rbl
  | [], _, again => if again then .temp else .notListed
  | r :: rs, i, again =>
    if r.length ≥ Gen.Rcpt.domainnameMax + 1 - pre.length then checkRblLoop f pre rs (i + 1) again
    else
      match f.askDnsa (pre ++ r) with
      | .localErr => .localErr
      | .temp => checkRblLoop f pre rs (i + 1) true
      | .count n => if n > 0 then .listed i else checkRblLoop f pre rs (i + 1) again
      | .perm => checkRblLoop f pre rs (i + 1) again

def checkRbl (f : Facts) (rbls : List (List Byte)) : Rbl := checkRblLoop f (rblPrefix f) rbls 0 false

def listedMsg (f : Facts) (name lookup : List Byte) : List (List Byte) :=
  match f.txt.lookup (lookup.map lower) with
  | some t => [Gen.Rcpt.replyListedHead, name, Gen.Rcpt.replyListedMessage, t]
  | none => [Gen.Rcpt.replyListedHead, name]

def cbDnsbl (cfg : Cfg) (f : Facts) : CbRes :=
  let fb := if f.v4 then Gen.Rcpt.fDnsbl4 else Gen.Rcpt.fDnsbl6
  let fw := if f.v4 then Gen.Rcpt.fWhitednsbl4 else Gen.Rcpt.fWhitednsbl6
  match getBuffer (some cfDomainvalidOrInherit) fb.1 fb.2 3 cfg with
  | .err => { fr := .error, t := some errT }
  | .none => { fr := .passed, t := some Gen.Rcpt.cfgNone }
  | .ok t a =>
    match checkRbl f a with
    | .localErr => { fr := .error, t := some t }
    | .temp => { fr := .deniedTemp, logmsg := true, t := some t }
    | .notListed => { fr := .passed, t := some t }
    | .listed i =>
      let deny : CbRes := { fr := .deniedMsg, t := some t,
                            wrote := [.parts (listedMsg f (a.getD i []) (rblPrefix f ++ a.getD i []))] }
      match getBuffer (some cfDomainvalid) fw.1 fw.2 3 cfg with
      | .err => { fr := .error, t := some t }
      | .none => deny
      | .ok _ w =>
        match checkRbl f w with
        | .listed _ => { fr := .passed, t := some t, fault := Gen.Rcpt.dnsblWhiteLogsBlackIndex && decide (i > w.length) }   -- logs `c[i]`
        | .notListed => deny
        | .temp => { fr := .deniedTemp, logmsg := true, t := some t }
        | .localErr => { fr := .error, t := some t }

def cbForceesmtp (cfg : Cfg) (f : Facts) : CbRes :=
  if f.esmtp then { fr := .passed }
  else
    let fb := if f.v4 then Gen.Rcpt.fForceesmtp4 else Gen.Rcpt.fForceesmtp6
    match getBuffer (some cfDomainvalid) fb.1 fb.2 3 cfg with
    | .err => { fr := .error, t := some errT }
    | .none => { fr := .passed, t := some Gen.Rcpt.cfgNone }
    | .ok t a =>
      match checkRbl f a with
      | .localErr => { fr := .error, t := some t }
      | .temp => { fr := .deniedTemp, logmsg := true, t := some t }
      | .notListed => { fr := .passed, t := some t }
      | .listed _ => { fr := .deniedUnspecific, logmsg := true, t := some t }

/-- the suffixes of a domain name that cb_namebl tries: the name, then behind every dot -/
def domainSuffixes : Nat → List Byte → List (List Byte)
  | 0, _ => []
  | fuel + 1, d =>
    d :: (match memchr 46 d with
          | some k => domainSuffixes fuel (d.drop (k + 1))
          | none => [])

inductive NbRes where
  | hit (name lookup : List Byte) | err | none (temp : Bool)
  deriving Repr, DecidableEq

/-- the inner loop of cb_namebl for one list -/
def nameblSuffixes (f : Facts) (a : List Byte) : List (List Byte) → Bool → NbRes
  | [], temp => .none temp
  | d :: ds, temp =>
    if d.length + (a.length + 1) < Gen.Rcpt.domainnameMax + 1 then
      let bl := d ++ [46] ++ a
      match f.askDnsa bl with
      | .localErr => .err
      | .temp => nameblSuffixes f a ds true
      | .count n => if n > 0 then .hit a bl else nameblSuffixes f a ds temp
      | .perm => nameblSuffixes f a ds temp
    else nameblSuffixes f a ds temp

def nameblLists (f : Facts) (sfx : List (List Byte)) : List (List Byte) → Bool → NbRes
  | [], temp => .none temp
  | a :: as, temp =>
    match nameblSuffixes f a sfx temp with
    | .none t' => nameblLists f sfx as t'
    | r => r

def cbNameblBody (cfg : Cfg) (f : Facts) : CbRes :=
  if f.mailfrom.isEmpty then { fr := .passed }
  else
    match getBuffer (some cfDomainvalidOrInherit) Gen.Rcpt.fNamebl.1 Gen.Rcpt.fNamebl.2 3 cfg with
    | .err => { fr := .error, t := some errT }
    | .none => { fr := .passed, t := some Gen.Rcpt.cfgNone }
    | .ok t a =>
      let d := f.mailfrom.drop (atIdx f.mailfrom + 1)
      match nameblLists f (domainSuffixes (d.length + 1) d) a false with
      | .err => { fr := .error, t := some t }
      | .hit name lookup => { fr := .deniedMsg, t := some t, wrote := [.parts (listedMsg f name lookup)] }
      | .none true => { fr := .deniedTemp, logmsg := true, t := some t }
      | .none false => { fr := .passed, t := some t }

def cbNamebl (cfg : Cfg) (f : Facts) : CbRes :=
  { cbNameblBody cfg f with readsT := Gen.Rcpt.nameblTypeEarly }

def cbWildcardns (c : Conf) (f : Facts) : CbRes :=
  if f.frommx.isNone then { fr := .passed }
  else
    let (v, t) := getS c Gen.Rcpt.kWildcardns
    if v ≤ 0 then { fr := .passed, t := some t }
    else if f.wildcard then { fr := .deniedUnspecific, logmsg := true, t := some t }
    else { fr := .passed, t := some t }

def runCb (c : Conf) (cfg : Cfg) (f : Facts) : Cb → CbRes
  | .boolean => cbBoolean c f
  | .nomail => cbNomail cfg
  | .smtpbugs => cbSmtpbugs c f
  | .usersize => cbUsersize c f
  | .soberg => cbSoberg c f
  | .ipbl => cbIpbl cfg f
  | .helo => cbHelo c cfg f
  | .badmailfrom => cbBadmailfrom cfg f
  | .badcc => cbBadcc cfg f
  | .fromdomain => cbFromdomain c f
  | .spf => cbSpf c cfg f
  | .dnsbl => cbDnsbl cfg f
  | .forceesmtp => cbForceesmtp cfg f
  | .namebl => cbNamebl cfg f
  | .wildcardns => cbWildcardns c f
  | .check2822 => { fr := .passed }

/-! ### smtp_rcpt: the filter loop and the rejection switch -/

/-- the locals of smtp_rcpt that the loop changes -/
structure LoopSt where
  fr : FR := .passed
  e : Bool := false
  i : Nat := 0
  bt : Nat := 0
  errmsg : Bool := false
  wrote : List Reply := []
  fault : Bool := false
  deriving Repr, DecidableEq

/-- `while ((rcpt_cbs[i] != NULL) && ((fr == FILTER_PASSED) || (fr == FILTER_DENIED_TEMPORARY)))`;
the list holds what each remaining filter answers when it is called -/
def loop : List CbRes → LoopSt → LoopSt
  | [], s => s
  | r :: rs, s =>
    if s.fr = .passed ∨ s.fr = .deniedTemp then
      let s1 : LoopSt := { s with errmsg := r.logmsg, bt := r.t.getD s.bt, wrote := s.wrote ++ r.wrote,
                                  fault := s.fault || r.fault || (r.readsT && decide (s.bt ≥ Gen.Rcpt.blocktype.length)),
                                  i := s.i + 1 }
      match r.fr with
      | .error => loop rs { s1 with fr := .deniedTemp, e := true }
      | .deniedTemp => loop rs { s1 with fr := .deniedTemp, e := true }
      | x => loop rs { s1 with fr := x }
    else s

/-- is the setting of the rejection switch set?  (`!getsetting(..)` or `getsetting(..) <= 0`) -/
def isSet (positive : Bool) (v : Int) : Bool := if positive then decide (v > 0) else v != 0

structure Outcome where
  replies : List Reply
  accepted : Bool                    -- `r->ok`
  log : Option (Bool × Nat) := none  -- "rejected message" line: (temporarily, bt)
  fault : Bool := false
  deriving Repr, DecidableEq

def nouserReply (rcpt : List Byte) : Reply := .parts [Gen.Rcpt.replyNouserHead, rcpt, Gen.Rcpt.replyNouserTail]

/-- everything behind the loop: `failHard`, `nonexist` are the values getsetting() returns there -/
def finish (s : LoopSt) (failHard nonexist : Int) (rcpt : List Byte) : Outcome :=
  let fr := if s.fr = .passed ∧ s.e then FR.deniedTemp else s.fr
  if !filterDenied fr then
    { replies := s.wrote ++ [.parts [Gen.Rcpt.replyOkHead, rcpt, Gen.Rcpt.replyOkTail]], accepted := true, fault := s.fault }
  else
    let fh := isSet Gen.Rcpt.keyFailhardPositive failHard
    let ne := isSet Gen.Rcpt.keyNonexistPositive nonexist
    let (fr2, out) : FR × List Reply :=
      match fr with
      | .deniedTemp =>
        if !fh then (.deniedTemp, [.lit Gen.Rcpt.replyTemp])
        else if !ne then (.deniedUnspecific, [.lit Gen.Rcpt.replyPolicy])
        else (.deniedUnspecific, [nouserReply rcpt])
      | .deniedUnspecific =>
        if !ne then (.deniedUnspecific, [.lit Gen.Rcpt.replyPolicy]) else (.deniedUnspecific, [nouserReply rcpt])
      | .deniedNouser => (.deniedNouser, [nouserReply rcpt])
      | x => (x, [])
    { replies := s.wrote ++ out, accepted := false, fault := s.fault,
      log := if s.errmsg then some (decide (fr2 = .deniedTemp), s.bt) else none }

/-- the part of smtp_rcpt behind userconf_load_configs(), for given filter answers -/
def decide_ (results : List CbRes) (failHard nonexist : Int) (rcpt : List Byte) : Outcome :=
  finish (loop results {}) failHard nonexist rcpt

/-- the configuration the two lookups of the rejection switch see -/
def switchConf (c : Conf) : Conf :=
  if Gen.Rcpt.settingsReadBeforeFree then c else { user := none, domain := none, global := c.global }

def switchSetting (c : Conf) (key : List Byte) (glob : Bool) : Int := (getsettingInternal (switchConf c) key glob).1

/-- smtp_rcpt() from userconf_load_configs() to the end -/
def outcome (cfg : Cfg) (f : Facts) : Outcome :=
  match loadConfigs cfg with
  | none => { replies := [.lit Gen.Rcpt.replyControl], accepted := false }
  | some (uc, dc) =>
    let c : Conf := { user := uc, domain := dc, global := cfg.globalconf }
    decide_ (Gen.Rcpt.rcptCbs.map (runCb c cfg f))
      (switchSetting c Gen.Rcpt.keyFailhard Gen.Rcpt.keyFailhardGlobal)
      (switchSetting c Gen.Rcpt.keyNonexist Gen.Rcpt.keyNonexistGlobal) f.rcpt

/-! ### reading the outcome against the documented policy (used by the theorems and by `chk_rcpt`) -/

/-- what a filter's answer means in the terms of the documentation -/
def verdictOf (r : CbRes) : Spec.Rcpt.Verdict :=
  match r.fr with
  | .error => .temp
  | .deniedTemp => .temp
  | .passed => .pass
  | .whitelisted => .whitelist
  | .deniedMsg => .deny .sent
  | .deniedUnspecific => .deny .policy
  | .deniedNouser => .deny .nouser

/-- what the filters that are called have sent themselves: all up to and including the first one
with a hard decision -/
def calledWrote : List CbRes → List Reply
  | [] => []
  | r :: rs => r.wrote ++ (if (verdictOf r).hard then [] else calledWrote rs)

/-- the reply smtp_rcpt() itself adds for each documented outcome -/
def finalReply (p : Spec.Rcpt.PolicyReply) (rcpt : List Byte) : List Reply :=
  match p with
  | .accept => [.parts [Gen.Rcpt.replyOkHead, rcpt, Gen.Rcpt.replyOkTail]]
  | .sentByFilter => []
  | .temp450 => [.lit Gen.Rcpt.replyTemp]
  | .policy550 => [.lit Gen.Rcpt.replyPolicy]
  | .nouser550 => [nouserReply rcpt]

/-! ### the verdict the session model is given -/

/-- first three characters of a reply text as a number -/
def codeOf (b : List Byte) : Nat := ((b.take 3).map fun d => d.toNat - 48).foldl (fun a d => a * 10 + d) 0

def Reply.code : Reply → Nat
  | .lit b => codeOf b
  | .parts ps => codeOf ps.flatten

/-- `Session.FilterV` for a recipient that reached the filters (the last reply sent decides the code) -/
def Outcome.filterV (o : Outcome) : Session.FilterV :=
  if o.accepted then .accept
  else match o.replies.getLast? with
    | some r => .deny r.code
    | none => .deny 0

def filterV (cfg : Cfg) (f : Facts) : Session.FilterV := (outcome cfg f).filterV

end QsmtpModel.Rcpt
