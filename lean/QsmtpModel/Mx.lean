/-
Model of the MX list handling of Qremote:
  lib/dns_helpers.c : sortmx(), in6_to_ips()
  lib/ipme.c        : filter_my_ips()
  qremote/conn.c    : conn(), tryconn()
  qremote/conn_mx.c : connect_mx()
`struct ips` lists are `List Entry`; an address is the 16 byte list of a `struct in6_addr`.
The operating system (connect(), getifaddrs()) and the SMTP neighbours (netget(), greeting(),
tls_init(), dnstlsa()) are scripts consumed in call order.
Mathlib-free (driver import closure).
-/
import QsmtpModel.Basic
import QsmtpModel.Gen.Routes

namespace QsmtpModel.Mx
open QsmtpModel

abbrev Addr := List Byte

def v4prefix : List Byte := [0, 0, 0, 0, 0, 0, 0, 0, 0, 0, 255, 255]

/-- `IN6_IS_ADDR_V4MAPPED` -/
def isV4 (a : Addr) : Bool := a.take 12 == v4prefix

structure Entry where
  prio : Nat
  addrs : List Addr
  name : Option (List Byte)
  deriving DecidableEq, Repr, Inhabited

abbrev prioUsed : Nat := Gen.mxPrioUsed
abbrev prioCurrent : Nat := Gen.mxPrioCurrent
abbrev freshMax : Nat := Gen.tryconnFreshMax

/-! ### sortmx -/

/-- `qsort(addr, count, 16, ip6_sort)`: IPv6 addresses first.  The comparator calls two addresses of
the same family equal, so libc may order them freely; glibc's merge sort keeps them stable and so
does the model (trusted base: qsort contract). -/
def innerSort (as : List Addr) : List Addr :=
  as.filter (fun a => !isV4 a) ++ as.filter isV4

def sortEntry (e : Entry) : Entry := { e with addrs := innerSort e.addrs }

/-- `IN6_IS_ADDR_V4MAPPED(e->addr)`: the family of the first address of the entry. -/
def headV4 (e : Entry) : Bool :=
  match e.addrs with
  | a :: _ => isV4 a
  | [] => false

/-- the loop condition of the insertion: `x` stays in front of the entry `n` being inserted
```
(*pos)->priority <= next->priority && !((*pos)->priority == next->priority
     && IN6_IS_ADDR_V4MAPPED((*pos)->addr) && !IN6_IS_ADDR_V4MAPPED(next->addr))
``` -/
def staysBefore (x n : Entry) : Bool :=
  decide (x.prio ≤ n.prio) && !(decide (x.prio = n.prio) && headV4 x && !headV4 n)

def insertMx (n : Entry) : List Entry → List Entry
  | [] => [n]
  | x :: xs => if staysBefore x n then x :: insertMx n xs else n :: x :: xs

def sortLoop (res : List Entry) : List Entry → List Entry
  | [] => res
  | n :: rest => sortLoop (insertMx n res) rest

/-- `sortmx(&p)`.  `*p == NULL` is dereferenced by the C code (`(*p)->next`); an entry without
addresses is outside the contract (`in6_to_ips` asserts `cnt > 0`, `filter_my_ips` deletes entries
instead of emptying them). -/
def sortmx (p : List Entry) : Except Fault (List Entry) :=
  match p.map sortEntry with
  | [] => .error (.oobRead 0)
  | h :: t =>
    if p.any (fun e => e.addrs.isEmpty) then .error (.precond 0)
    else .ok (sortLoop [h] t)

/-! ### filter_my_ips -/

inductive Iface where
  | v4 (a : List Byte)      -- AF_INET, 4 bytes in network order
  | v6 (a : Addr)           -- AF_INET6
  | other                   -- any other address family
  | noaddr                  -- ifa_addr == NULL
  deriving DecidableEq, Repr

/-- does address `a` of an MX entry count as "this machine" for interface address `i` -/
def ifMatch : Iface → Addr → Bool
  | .v4 x, a => isV4 a && (a.drop 12 == x || a[12]? == some 127 || a.drop 12 == [0, 0, 0, 0])
  | .v6 y, a => a == y
  | _, _ => false

/-- the inner `while` on one entry: delete the first matching address and look again; an entry
whose only address matches is deleted (result `[]`). -/
def scanAddrs (i : Iface) (as : List Addr) : List Addr :=
  match h : as.findIdx? (ifMatch i) with
  | none => as
  | some s => if as.length = 1 then [] else scanAddrs i (as.eraseIdx s)
termination_by as.length
decreasing_by
  have hs : s < as.length := by
    have := List.findIdx?_eq_some_iff_findIdx_eq.mp h
    omega
  rw [List.length_eraseIdx]
  simp [hs]
  omega

def scanEntry (i : Iface) (e : Entry) : Option Entry :=
  let r := scanAddrs i e.addrs
  if r.isEmpty && !e.addrs.isEmpty then none else some { e with addrs := r }

def filterOne (l : List Entry) (i : Iface) : List Entry := l.filterMap (scanEntry i)

/-- `filter_my_ips(ipl)`; `ifs = none`: getifaddrs() failed, the list is returned unchanged. -/
def filterMyIps (ifs : Option (List Iface)) (l : List Entry) : List Entry :=
  match ifs with
  | none => l
  | some is => is.foldl filterOne l

/-- specification: `a` is an address of this machine -/
def isLocal (ifs : List Iface) (a : Addr) : Bool := ifs.any (fun i => ifMatch i a)

def specEntry (is : List Iface) (e : Entry) : Option Entry :=
  let r := e.addrs.filter (fun a => !isLocal is a)
  if r.isEmpty && !e.addrs.isEmpty then none else some { e with addrs := r }

/-- specification of filter_my_ips(): every local address is removed, an entry left without
addresses disappears, nothing else changes -/
def filterSpec (ifs : Option (List Iface)) (l : List Entry) : List Entry :=
  match ifs with
  | none => l
  | some is => l.filterMap (specEntry is)

/-! ### tryconn -/

inductive ConnRes where
  | ok | sockFail | bindFail | connFail
  deriving DecidableEq, Repr

/-- what the socket layer sees of one `conn()` call -/
structure Attempt where
  addr : Addr
  port : Nat
  out : Addr
  res : ConnRes
  deriving DecidableEq, Repr

/-- the `for` loop of tryconn(): choose the next address.  Result: list with the new marks, new
`cur_s`, and the index of the chosen entry (none: list exhausted). -/
def pick (curS : Nat) : List Entry → List Entry × Nat × Option Nat
  | [] => ([], curS, none)
  | e :: rest =>
    if e.prio = prioCurrent then
      if curS < e.addrs.length - 1 then (e :: rest, curS + 1, some 0)
      else
        let (r, c, s) := pick curS rest
        ({ e with prio := prioUsed } :: r, c, s.map (· + 1))
    else if e.prio ≤ freshMax then ({ e with prio := prioCurrent } :: rest, 0, some 0)
    else
      let (r, c, s) := pick curS rest
      (e :: r, c, s.map (· + 1))

structure TcState where
  mx : List Entry
  curS : Nat
  script : List ConnRes
  log : List Attempt
  deriving Repr

/-- next scripted result of conn(); an exhausted script refuses every connection -/
def nextRes : List ConnRes → ConnRes × List ConnRes
  | [] => (.connFail, [])
  | r :: rs => (r, rs)

/-- `tryconn(mx, outip4, outip6)`: `some (entry, index)` of the address connected to, `none` for
-ENOENT. -/
def tryconn (port : Nat) (out4 out6 : Addr) : Nat → TcState → Except Fault (Option (Nat × Nat) × TcState)
  | 0, _ => .error (.precond 1)   -- fuel exhausted: never happens (`tryconn_fuel`)
  | fuel + 1, st =>
    match pick st.curS st.mx with
    | (mx', c, none) => .ok (none, { st with mx := mx', curS := c })
    | (mx', c, some k) =>
      match mx'[k]? with
      | none => .error (.precond 2)
      | some e =>
        match e.addrs[c]? with
        | none => .error (.oobRead c)
        | some a =>
          let (r, script') := nextRes st.script
          let att : Attempt := { addr := a, port := port, out := if isV4 a then out4 else out6, res := r }
          let st' : TcState := { mx := mx', curS := c, script := script', log := st.log ++ [att] }
          if r = .ok then .ok (some (k, c), st') else tryconn port out4 out6 fuel st'

/-- enough fuel for any state: one step per address plus one per entry -/
def fuelFor (mx : List Entry) : Nat := (mx.map (fun e => e.addrs.length + 1)).sum + 2

/-! ### connect_mx -/

inductive NetRes where
  | code (c : Nat) (more : Bool)    -- reply line with code c, `more` = continuation (`-`)
  | reset | invalid | timeout
  | other                           -- any other errno: netget() has already run quitmsg()
  deriving DecidableEq, Repr

inductive Tok where
  | net (r : NetRes)
  | greet (r : Int)
  | tls (r : Int)
  | tlsa (r : Int)
  deriving DecidableEq, Repr

inductive Ev where
  | att (a : Attempt)
  | rhost (entry idx : Nat)
  | net (r : NetRes)
  | greet (r : Int)
  | tls (r : Int)
  | tlsa (host : List Byte) (port : Nat) (r : Int)
  | quit
  | desync (kind : Nat)
  deriving DecidableEq, Repr

inductive CmOut where
  | connected (smtpext : Int)     -- return 0
  | noneLeft                      -- return -ENOENT  (reported as Z4.4.2 by main)
  | exitAbort                     -- net_conn_shutdown(shutdown_abort): no status written
  | exitClean                     -- net_conn_shutdown(shutdown_clean) after a local TLS error
  | desync                        -- the script does not fit the calls (harness artefact)
  deriving DecidableEq, Repr

-- Linux errno values used by quitmsg_if_net() (checked by the harness at compile time)
def EPIPE : Int := 32
def ECONNRESET : Int := 104
def ETIMEDOUT : Int := 110

/-- `quitmsg_if_net(error)`: is QUIT sent (true) or is the socket only closed (false) -/
def sendsQuit (error : Int) : Bool :=
  !(error == -EPIPE || error == -ECONNRESET || error == -ETIMEDOUT)

def netVal : NetRes → Int
  | .code c _ => c
  | .reset => -ECONNRESET
  | .invalid => -22
  | .timeout => -ETIMEDOUT
  | .other => -EPIPE

structure CmState where
  tc : TcState
  toks : List Tok
  evs : List Ev
  deriving Repr

/-- the `while (linein.s[3] == '-')` loop; returns (s, flagerr), `none` if the script does not fit -/
def greetLines : Nat → Int → Bool → Bool → List Tok → List Ev → Option (Int × Bool) × List Tok × List Ev
  | 0, _, _, _, toks, evs => (none, toks, evs)
  | fuel + 1, s, flagerr, more, toks, evs =>
    if !more then (some (s, flagerr), toks, evs)
    else match toks with
      | .net r :: toks' =>
        let evs' := evs ++ [.net r]
        match r with
        | .reset => (some (netVal r, flagerr), toks', evs')
        | .code c m => greetLines fuel s (flagerr || s != (c : Int)) m toks' evs'
        | _ => (some (netVal r, true), toks', evs')
      | _ => (none, toks, evs)

inductive Sess where
  | next (toks : List Tok) (evs : List Ev)        -- this host failed, socketd < 0: try the next
  | done (ext : Int) (toks : List Tok) (evs : List Ev)
  | abort (evs : List Ev)
  | clean (evs : List Ev)
  | desync (evs : List Ev)

def quitIf (error : Int) (evs : List Ev) : List Ev := if sendsQuit error then evs ++ [.quit] else evs

/-- connect_mx() after an acceptable banner: greeting() (EHLO/HELO), STARTTLS, second greeting() -/
def afterBanner (expectTls : Bool) (tlsa : Int) (toks2 : List Tok) (evs2 : List Ev) : Sess :=
  match toks2 with
  | .greet g :: toks3 =>
    let evs3 := evs2 ++ [.greet g]
    if g < 0 then .next toks3 (quitIf g evs3)
    else if g.toNat &&& Gen.esmtpStarttls ≠ 0 then
      match toks3 with
      | .tls t :: toks4 =>
        let evs4 := evs3 ++ [.tls t]
        if t < 0 then .clean evs4
        else if t ≠ 0 then .next toks4 (quitIf (-t) evs4)
        else match toks4 with
          | .greet g2 :: toks5 =>
            let evs5 := evs4 ++ [.greet g2]
            if g2 < 0 then .next toks5 (quitIf g2 evs5) else .done g2 toks5 evs5
          | _ => .desync (evs4 ++ [.desync 1])
      | _ => .desync (evs3 ++ [.desync 2])
    else if expectTls then .next toks3 (evs3 ++ [.quit])
    else if tlsa > 0 then .next toks3 (evs3 ++ [.quit])
    else .done g toks3 evs3
  | _ => .desync (evs2 ++ [.desync 1])

/-- one pass of the body of connect_mx()'s loop after tryconn() succeeded -/
def session (expectTls : Bool) (tlsa : Int) (toks : List Tok) (evs : List Ev) : Sess :=
  match toks with
  | .net r :: toks1 =>
    let evs1 := evs ++ [.net r]
    match r with
    | .reset => .next toks1 evs1
    | .timeout => .next toks1 evs1                 -- (fix) was: exit without status
    | .invalid => .next toks1 (evs1 ++ [.quit])
    | .other =>                                    -- netget() has already closed the connection
      if Gen.greetSwitchExits = 0 then .next toks1 evs1          -- (fix) was: give up without trying the other MX
      else .abort evs1
    | .code c more =>
      match greetLines (toks1.length + 1) c false more toks1 evs1 with
      | (none, _, evs2) => .desync (evs2 ++ [.desync 0])
      | (some (s, flagerr), toks2, evs2) =>
        if s = -ECONNRESET then .next toks2 evs2
        else if s ≠ Gen.greetingOk ∨ flagerr then .next toks2 (quitIf s evs2)
        else afterBanner expectTls tlsa toks2 evs2
  | _ => .desync (evs ++ [.desync 0])

def attEvs (old new : List Attempt) : List Ev := (new.drop old.length).map .att

/-- the socket events of a trace -/
def attemptsOf (evs : List Ev) : List Attempt := evs.filterMap fun | .att a => some a | _ => none

/-- `tlsa = (mx->name == NULL) ? 0 : dnstlsa(mx->name, targetport, &d)` (always the list head) -/
def preTlsa (port : Nat) (headName : Option (List Byte)) (toks : List Tok) (evs : List Ev) :
    Option (Int × List Tok × List Ev) :=
  match headName with
  | none => some (0, toks, evs)
  | some nm =>
    match toks with
    | .tlsa r :: rest => some (r, rest, evs ++ [.tlsa nm port r])
    | _ => none

/-- `connect_mx(mx, outip4, outip6)` -/
def connectMx (port : Nat) (expectTls : Bool) (out4 out6 : Addr) :
    Nat → CmState → Except Fault (CmOut × CmState)
  | 0, _ => .error (.precond 3)
  | fuel + 1, st =>
    match st.tc.mx with
    | [] => .error (.oobRead 0)          -- mx->name with mx == NULL
    | e0 :: _ =>
      match preTlsa port e0.name st.toks st.evs with
      | none => .ok (.desync, { st with evs := st.evs ++ [.desync 3] })
      | some (tlsa, toks, evs) =>
        match tryconn port out4 out6 (fuelFor st.tc.mx) st.tc with
        | .error f => .error f
        | .ok (none, tc') => .ok (.noneLeft, { tc := tc', toks := toks, evs := evs ++ attEvs st.tc.log tc'.log })
        | .ok (some (k, c), tc') =>
          let evs' := evs ++ attEvs st.tc.log tc'.log ++ [.rhost k c]
          match session expectTls tlsa toks evs' with
          | .next toks' evs'' => connectMx port expectTls out4 out6 fuel { tc := tc', toks := toks', evs := evs'' }
          | .done ext toks' evs'' => .ok (.connected ext, { tc := tc', toks := toks', evs := evs'' })
          | .abort evs'' => .ok (.exitAbort, { tc := tc', toks := toks, evs := evs'' })
          | .clean evs'' => .ok (.exitClean, { tc := tc', toks := toks, evs := evs'' })
          | .desync evs'' => .ok (.desync, { tc := tc', toks := toks, evs := evs'' })

/-- all addresses of a list in the order of the list -/
def flatAddrs (mx : List Entry) : List Addr := mx.flatMap (·.addrs)

def cmFuel (mx : List Entry) : Nat := (flatAddrs mx).length + 2

end QsmtpModel.Mx
