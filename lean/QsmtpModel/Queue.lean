/-
Model of qsmtpd/queue.c (queue_init, queue_envelope, queue_result, queue_reset) over a *syscall
oracle trace*: the results of pipe, fork, waitpid, every write/writev and close on the two pipes to
qmail-queue are given by a list consumed call by call (`Sys`).  The model asks for the calls in the
order the C code issues them; an oracle entry of another kind is a `desync` (the correspondence
check then sees that the sequence of calls differs).  `errno` is a field of the state: the error
paths of data.c read it after further calls.  Mathlib-free.
-/
import QsmtpModel.Basic
import QsmtpModel.Session
import QsmtpModel.Gen.Session
import QsmtpModel.Gen.Data

namespace QsmtpModel.Queue
open QsmtpModel

/-- errno values the code distinguishes (and a few the kernel may produce) -/
inductive Err where
  | none | epipe | enospc | efbig | enomem | emsgsize | e2big | einval | ebadf | eio | eagain
  | eintr | echild | efault | econnreset | emfile
  | other (n : Nat)
  deriving Repr, DecidableEq, Inhabited

/-- what `waitpid(qpid, &status, 0)` reports -/
inductive WaitR where
  | exited (code : Nat)      -- WIFEXITED, WEXITSTATUS = code
  | signaled (sig : Nat)     -- not WIFEXITED (killed by a signal)
  | failed (e : Err)         -- waitpid returned -1
  deriving Repr, DecidableEq, Inhabited

/-- one answer of the kernel -/
inductive Sys where
  | pipe (ok : Bool)                 -- wpipe(): 0 / -1
  | fork (ok : Bool)                 -- fork_clean(): pid of the child / -1
  | probe (r : Int)                  -- waitpid(qpid, NULL, WNOHANG): 0 = the child is running
  | write (r : Int) (e : Err)        -- write()/writev() on a queue pipe: return value, errno if -1
  | close (ok : Bool) (e : Err)      -- close() of a pipe descriptor
  | wait (r : WaitR)                 -- waitpid(qpid, .., 0)
  deriving Repr, DecidableEq, Inhabited

structure QSt where
  trace : List Sys                   -- oracle answers still to come
  msgR : List Byte := []             -- bytes the message pipe (fd 0 of qmail-queue) accepted, newest first
  envR : List Byte := []             -- bytes the envelope pipe (fd 1 of qmail-queue) accepted, newest first
  errno : Err := .none
  fdData : Bool := false             -- queuefd_data >= 0
  fdHdr : Bool := false              -- queuefd_hdr >= 0
  openFds : Nat := 0                 -- pipe descriptors of this process that are open
  desync : Bool := false             -- the oracle did not have the call the code issues next
  wlog : List Nat := []              -- lengths of the writes issued so far (newest first)
  deriving Repr, DecidableEq

/-- what qmail-queue can read on its descriptor 0 -/
def QSt.msg (q : QSt) : List Byte := q.msgR.reverse
/-- what qmail-queue can read on its descriptor 1 -/
def QSt.env (q : QSt) : List Byte := q.envR.reverse

/-! ### the kernel calls -/

def sysPipe (q : QSt) : Bool × QSt :=
  match q.trace with
  | .pipe ok :: t => (ok, { q with trace := t, openFds := if ok then q.openFds + 2 else q.openFds })
  | _ => (false, { q with trace := [], desync := true })

def sysFork (q : QSt) : Bool × QSt :=
  match q.trace with
  | .fork ok :: t => (ok, { q with trace := t })
  | _ => (false, { q with trace := [], desync := true })

def sysProbe (q : QSt) : Int × QSt :=
  match q.trace with
  | .probe r :: t => (r, { q with trace := t })
  | _ => (-1, { q with trace := [], desync := true })

def sysWrite (q : QSt) : (Int × Err) × QSt :=
  match q.trace with
  | .write r e :: t => ((r, e), { q with trace := t })
  | _ => ((-1, .other 0), { q with trace := [], desync := true })

/-- `close(fd)` of an open pipe descriptor; a failure sets errno -/
def sysClose (q : QSt) : Bool × QSt :=
  match q.trace with
  | .close ok e :: t => (ok, { q with trace := t, openFds := q.openFds - 1, errno := if ok then q.errno else e })
  | _ => (false, { q with trace := [], desync := true })

def sysWait (q : QSt) : WaitR × QSt :=
  match q.trace with
  | .wait r :: t =>
    (r, { q with trace := t, errno := match r with | .failed e => e | _ => q.errno })
  | _ => (.failed (.other 0), { q with trace := [], desync := true })

/-! ### writes as the C macros use them -/

/-- what the pipe accepted of `d` when the call returned `r` -/
def accepted (d : List Byte) (r : Int) : List Byte := if r ≥ 0 then d.take r.toNat else []

/-- `WRITE`/`WRITEVEC` of data.c (and, with the repair, `WRITEl` of spf.c): anything but the full
length is an error; a short count is reported as EPIPE. -/
def wrData (q : QSt) (d : List Byte) : Bool × QSt :=
  let ((r, e), q1) := sysWrite q
  let q2 := { q1 with msgR := (accepted d r).reverse ++ q1.msgR, wlog := d.length :: q1.wlog }
  if r = d.length then (true, q2) else (false, { q2 with errno := if r ≥ 0 then .epipe else e })

/-- the same on the envelope pipe (`WRITE` of queue.c) -/
def wrHdr (q : QSt) (d : List Byte) : Bool × QSt :=
  let ((r, e), q1) := sysWrite q
  let q2 := { q1 with envR := (accepted d r).reverse ++ q1.envR, wlog := d.length :: q1.wlog }
  if r = d.length then (true, q2) else (false, { q2 with errno := if r ≥ 0 then .epipe else e })

/-- a sequence of writes that stops at the first failure -/
def wrAll (wr : QSt → List Byte → Bool × QSt) (q : QSt) : List (List Byte) → Bool × QSt
  | [] => (true, q)
  | d :: ds =>
    match wr q d with
    | (true, q1) => wrAll wr q1 ds
    | (false, q1) => (false, q1)

/-! ### queue.c -/

/-- `queue_init()`: true = the child runs and both descriptors are set; false = the 451 reply
(`noqueue`) was written, EDONE. On every failure path all pipe descriptors are closed again. -/
def queueInit (q : QSt) : Bool × QSt :=
  match sysPipe q with
  | (false, q1) => (false, q1)
  | (true, q1) =>
    match sysPipe q1 with
    | (false, q2) =>
      let q3 := (sysClose q2).2
      (false, (sysClose q3).2)
    | (true, q2) =>
      match sysFork q2 with
      | (false, q3) =>
        -- cannot fork: the four descriptors are given back
        let q4 := (sysClose q3).2
        let q5 := (sysClose q4).2
        let q6 := (sysClose q5).2
        (false, (sysClose q6).2)
      | (true, q3) =>
        let q4 := (sysClose q3).2          -- close(fd0[0])
        let q5 := (sysClose q4).2          -- close(fd1[0])
        match sysProbe q5 with
        | (r, q6) =>
          if r ≠ 0 then
            let q7 := (sysClose q6).2
            (false, (sysClose q7).2)
          else (true, { q6 with fdData := true, fdHdr := true })

/-- `queue_reset()` -/
def queueReset (q : QSt) : QSt :=
  let q1 := if q.fdData then { (sysClose q).2 with fdData := false } else q
  let q2 := if q1.fdHdr then { (sysClose q1).2 with fdHdr := false } else { q1 with errno := .ebadf }
  (sysWait q2).2

/-- the recipient as it is written to the envelope: an address literal is replaced by `localiphost` -/
def rewr (liphost addr : List Byte) : List Byte :=
  match memchr 64 addr with
  | some ai =>
    if addr[ai + 1]? = some 91 then addr.take (ai + 1) ++ liphost else addr
  | none => addr

/-- the buffers of the successive `WRITE`s of `queue_envelope()` -/
def envWrites (liphost mailfrom : List Byte) (rcpts : List Session.Recip) : List (List Byte) :=
  [[70], mailfrom ++ [0]]
  ++ ((rcpts.filter (·.ok)).map fun r =>
        match memchr 64 r.addr with
        | some ai =>
          if r.addr[ai + 1]? = some 91 then [[84], r.addr.take (ai + 1), liphost ++ [0]]
          else [[84], r.addr ++ [0]]
        | none => [[84], r.addr ++ [0]]).flatten
  ++ [[0]]

/-- `queue_envelope()`: (return value 0?, state, freedata() was called) -/
def queueEnvelope (liphost mailfrom : List Byte) (rcpts : List Session.Recip) (q : QSt) : Bool × QSt × Bool :=
  match sysClose q with
  | (false, q1) => (false, q1, false)        -- return -1; queuefd_data keeps its value
  | (true, q1) =>
    let q2 := { q1 with fdData := false }
    let (ok, q3) := wrAll wrHdr q2 (envWrites liphost mailfrom rcpts)
    let q4 := if ok then { q3 with errno := .none } else q3
    -- err_write: e = errno; close(queuefd_hdr)
    let e := q4.errno
    let (cok, q5) := sysClose q4
    let e' := if !cok ∧ ok then q5.errno else e
    (ok && cok, { q5 with fdHdr := false, errno := e' }, true)

/-- reply code of `queue_result()` for an exit status -/
def resultCode : WaitR → Nat
  | .failed _ => 451
  | .signaled _ => 451
  | .exited 0 => 250
  | .exited c => if Gen.queuePermLo ≤ c ∧ c ≤ Gen.queuePermHi then 554 else 451

/-- `queue_result()`: reply code written; the return value is 0 for 250 and EDONE otherwise -/
def queueResult (q : QSt) : Nat × QSt :=
  let (r, q1) := sysWait q
  (resultCode r, q1)

end QsmtpModel.Queue
