/-
Model of the line reader of lib/netio.c: readinput (as a chunk oracle), find_eol, loop_long,
net_read.  State kept by C in globals: `lineinn[0..linenlen)` = `inn`.
`linein.len` is reset to 0 at the start of every call (so a failed call leaves length 0).
-/
import QsmtpModel.Basic
import QsmtpModel.Gen.Netio

namespace QsmtpModel.Netio
open QsmtpModel

abbrev bufSize : Nat := Gen.lineinbufSize      -- sizeof(lineinbuf) = sizeof(lineinn)

/-- errno values that matter to callers -/
inductive Errno where
  | einval | e2big | econnreset
  deriving Repr, DecidableEq, Inhabited

/-- what the network will deliver (`rest`) and how the kernel cuts it into read() results
(`cuts`, adversarial; a cut of 0 counts as 1; when exhausted, reads return all that fits). -/
structure Src where
  rest : List Byte
  cuts : List Nat
  deriving Repr

/-- one `read(fd, buf, max)`: at least one byte unless the stream is at its end -/
def Src.read (s : Src) (max : Nat) : List Byte × Src :=
  let k := match s.cuts with
    | [] => max
    | c :: _ => min max (if c = 0 then 1 else c)
  (s.rest.take k, { rest := s.rest.drop k, cuts := s.cuts.tail })

/-- `find_eol(buffer, buflen, &valid)`: (index after the line end, valid) -/
def findEol (b : List Byte) : Option Nat × Bool :=
  match memchr CR b, memchr LF b with
  | some cr, some lf =>
    if lf = cr + 1 then (some (lf + 1), true)
    else if cr < lf then
      if b[lf - 1]? ≠ some CR then (some (lf + 1), false) else (some (cr + 1), false)
    else
      if cr + 2 < b.length ∧ b[cr + 1]? ≠ some LF then (some (cr + 1), false) else (some (lf + 1), false)
  | none, none => (none, false)
  | none, some lf => (some (lf + 1), false)
  | some cr, none => (some (cr + 1), false)

/-- result of one net_read() call -/
inductive Rd where
  | line (l : List Byte)          -- return 0, linein = l
  | err (e : Errno)               -- return -1, errno = e
  | die (e : Errno)               -- dieerror(e): the program ends
  deriving Repr, DecidableEq

/-- `loop_long()`: discard up to and including the first LF; connection errors are fatal here
(`readinput(..., 1)`). Fuel = number of bytes still to come + 1 (every read consumes ≥ 1). -/
def loopLong (src : Src) : Nat → Rd × List Byte × Src
  | 0 => (.die .econnreset, [], src)
  | fuel + 1 =>
    let (d, src') := src.read (bufSize - 1)
    if d.isEmpty then (.die .econnreset, [], src')
    else match memchr LF d with
      | some lf => (.err .e2big, d.drop (lf + 1), src')
      | none => loopLong src' fuel

/-- the `do { readinput ... } while ((p == NULL) && (readoffset < sizeof(lineinbuf) - 1))` loop.
`buf` = lineinbuf[0..readoffset). Returns the final buffer, or a read failure. -/
def readLoop (fatal : Bool) (buf : List Byte) (src : Src) : Nat → Option (List Byte) × Src
  | 0 => (some buf, src)
  | fuel + 1 =>
    let (d, src') := src.read (bufSize - buf.length - 1)
    if d.isEmpty then (none, src')       -- read() returned 0: ECONNRESET
    else
      let buf' := buf ++ d
      let (p, valid) := findEol buf'
      let again :=
        (!valid && p == some buf'.length && buf'.length < bufSize - 1 && buf'.getLast? == some CR)
        || (p == none && buf'.length < bufSize - 1)
      if again then readLoop fatal buf' src' fuel else (some buf', src')

/-- first part of net_read(): data left over from the previous call.
Result: an early return (result, new look-ahead) or the bytes to continue reading behind. -/
def phase1 (inn : List Byte) : Option (Rd × List Byte) × List Byte :=
  if inn.isEmpty then (none, [])
  else
    match findEol inn with
    | (some p, valid) =>
      if valid then (some (.line (inn.take (p - 2)), inn.drop p), [])
      else if inn.getLast? == some CR && p == inn.length then (none, inn)
      else (some (.err .einval, inn.drop p), [])
    | (none, _) => (none, inn)

/-- last part of net_read(): verdict on the buffer the read loop stopped with -/
def verdict (buf : List Byte) (src : Src) : Rd × List Byte × Src :=
  match findEol buf with
  | (none, _) => loopLong src (src.rest.length + 1)
  | (some p, valid) =>
    if valid then (.line (buf.take (p - 2)), buf.drop p, src)
    else if p == bufSize - 1 && buf[p - 1]? == some CR then loopLong src (src.rest.length + 1)
    else (.err .einval, buf.drop p, src)

/-- `net_read(fatal)`; `inn` is the look-ahead buffer before, the second component after. -/
def netRead (fatal : Bool) (inn : List Byte) (src : Src) : Rd × List Byte × Src :=
  match phase1 inn with
  | (some (r, inn'), _) => (r, inn', src)
  | (none, buf0) =>
    match readLoop fatal buf0 src (src.rest.length + 1) with
    | (none, src') => (if fatal then .die .econnreset else .err .econnreset, [], src')
    | (some buf, src') => verdict buf src'

/-- iterate net_read() until the connection ends; the list of results (what the harness prints). -/
def readAll (fatal : Bool) (inn : List Byte) (src : Src) : Nat → List Rd
  | 0 => []
  | fuel + 1 =>
    match netRead fatal inn src with
    | (.die e, _, _) => [.die e]
    | (.err .econnreset, _, _) => [.err .econnreset]
    | (r, inn', src') => r :: readAll fatal inn' src' fuel

end QsmtpModel.Netio
