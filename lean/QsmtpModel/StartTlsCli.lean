/-
Model of the client side of STARTTLS in Qremote (property C18), at *byte* level:
  qremote/conn_mx.c    connect_mx (the loop over the mail exchangers, banner, EHLO, STARTTLS, second EHLO,
                       the branches for a missing STARTTLS), quitmsg_if_net, connection_died
  qremote/starttlsr.c  tls_init (host certificate file, usable TLSA records, STARTTLS and its reply, handshake,
                       pending-input check, verification verdict)
  qremote/greeting.c   greeting (EHLO / HELO and their replies)
  qremote/reply.c      netget(0), dieerror
  qremote/qremote.c    quitmsg
on top of the reader `Netio.netRead` (lib/netio.c), whose look-ahead buffer `lineinn` is the field `inn`:
it is ONE buffer for the whole process, it survives the TLS handshake and the change to another host.

What a host sends is two byte streams (clear text, and the plain text of the TLS session) with adversarial
cuts; a stream that is exhausted either ends (`closed`: read() = 0 / SSL_ERROR_ZERO_RETURN) or stays silent
(`silent`: the poll times out).  Oracles per host: the handshake result of `ssl_timeoutconn()`, the verdict
of `SSL_get_verify_result()`, `SSL_pending()`, the kind of file behind control/tlshosts/<fqdn>.pem, the TLSA
records of the host.  `tryconn()` is abstracted to the list of hosts it connects to, in order.
Loops run on fuel (bytes still to come on the active stream + 3); running out of fuel is `fault (precond 0)`.
Mathlib-free.
-/
import QsmtpModel.Basic
import QsmtpModel.Netio
import QsmtpModel.Writen
import QsmtpModel.QrProto
import QsmtpModel.Gen.StartTls

namespace QsmtpModel.StartTlsCli
open QsmtpModel

abbrev EINVAL : Nat := 22
abbrev E2BIG : Nat := 7
abbrev ECONNRESET : Nat := 104
abbrev ETIMEDOUT : Nat := 110
abbrev EPIPE : Nat := 32
abbrev EPROTO : Nat := 71
abbrev EDONE : Nat := Gen.Qr.edone

/-- how a stream behaves when it has nothing more to give -/
inductive EndKind where
  | closed | silent
  deriving DecidableEq, Repr, Inhabited

/-- control/tlshosts/<fqdn>.pem -/
inductive Pin where
  | absent            -- stat() fails
  | good              -- SSL_CTX_load_verify_locations() accepts it
  | invalid           -- it exists but cannot be loaded
  deriving DecidableEq, Repr, Inhabited

structure Tlsa where
  usage : Nat
  addOk : Bool        -- SSL_dane_tlsa_add() returns 1 (0: unusable record)
  deriving DecidableEq, Repr, Inhabited

/-- the answer of dnstlsa(): the return value (negative: lookup failed) and the records -/
structure TlsaAns where
  res : Int
  recs : List Tlsa
  deriving Repr, Inhabited

structure Host where
  name : Option (List Byte)      -- mx->name = partner_fqdn; none: reached by address
  clear : Netio.Src
  clearEnd : EndKind
  tls : Netio.Src
  tlsEnd : EndKind
  handshake : Int                -- ssl_timeoutconn(): 0 or -errno
  sslPending : Bool              -- SSL_pending() > 0 right after the handshake
  verified : Bool                -- SSL_get_verify_result() == X509_V_OK
  pin : Pin
  tlsa : TlsaAns                 -- the records published for THIS host
  deriving Repr

structure Cfg where
  helo : List Byte
  headName : Option (List Byte)  -- mx->name of the first entry of the MX list
  headTlsa : TlsaAns             -- what dnstlsa() answers for that name
  /-- tls_init() gives the upgrade up when data_pending() reports input behind the handshake
  (`Gen.Tls.pendingCheck` for the tree; a parameter so that the code without the check can be stated too) -/
  pendingCheck : Bool := Gen.Tls.pendingCheck = 1
  /-- quitmsg() leaves expect_tls and the client certificate of the route alone (`Gen.Tls.quitKeepsRoute`) -/
  quitKeepsRoute : Bool := Gen.Tls.quitKeepsRoute = 1
  /-- giving a host up without QUIT (reset, time-out) releases the TLS session too (`Gen.Tls.closeFreesTls`) -/
  closeFreesTls : Bool := Gen.Tls.closeFreesTls = 1
  deriving Repr, Inhabited

/-- result of one net_read(0) -/
inductive Rr where
  | line (l : List Byte)
  | err (e : Nat)
  | die (e : Nat)                -- dieerror(e) inside loop_long()
  deriving DecidableEq, Repr, Inhabited

inductive Ev where
  | conn (k : Nat)                                  -- tryconn() connected to host k
  | rd (k : Nat) (ssl : Bool) (r : Rr)              -- one net_read(); `ssl`: a TLS session was active
  | wr (k : Nat) (ssl : Bool) (b : List Byte)       -- one netnwrite()
  | hs (k : Nat) (r : Int)                          -- ssl_timeoutconn()
  deriving DecidableEq, Repr, Inhabited

structure S where
  inn : List Byte := []          -- lineinn[0 .. linenlen)
  k : Nat := 0                   -- the host the socket is (was last) connected to
  clear : Netio.Src := ⟨[], []⟩
  clearEnd : EndKind := .closed
  tls : Netio.Src := ⟨[], []⟩
  tlsEnd : EndKind := .closed
  ssl : Bool := false            -- ssl != NULL
  sslK : Nat := 0                -- the host the TLS session was negotiated with
  sock : Bool := false           -- socketd >= 0
  lin : List Byte := []          -- linein
  ext : Nat := 0                 -- smtpext
  expectTls : Bool := false      -- expect_tls
  routeCert : Bool := false      -- clientcertname is the certificate given in the route file
  status : List Byte := []
  trace : List Ev := []
  deriving Repr, Inhabited

inductive Out (α : Type) where
  | ret (a : α) (s : S)
  | exit (s : S)
  | fault (f : Fault) (s : S)
  deriving Inhabited

@[inline] def Out.bind {α β : Type} (o : Out α) (f : α → S → Out β) : Out β :=
  match o with
  | .ret a s => f a s
  | .exit s => .exit s
  | .fault e s => .fault e s

/-! ### reader and writer -/

def endErrno : EndKind → Nat
  | .closed => ECONNRESET
  | .silent => ETIMEDOUT

def rrOf (ek : EndKind) : Netio.Rd → Rr
  | .line l => .line l
  | .err .einval => .err EINVAL
  | .err .e2big => .err E2BIG
  | .err .econnreset => .err (endErrno ek)
  | .die _ => .die (endErrno ek)

def linOf : Rr → List Byte
  | .line l => l
  | _ => []

/-- one `net_read(0)`: with a TLS session the bytes come from the TLS stream, else from the socket;
in both cases the look-ahead buffer is served first -/
def rawRead (s : S) : Rr × S :=
  if s.ssl ∧ s.sslK ≠ s.k then
    -- a session that outlived its connection: SSL_read() on the new socket is a protocol error
    (.err EPROTO, { s with lin := [], trace := s.trace ++ [.rd s.k true (.err EPROTO)] })
  else if s.ssl then
    let r := Netio.netRead false s.inn s.tls
    let rr := rrOf s.tlsEnd r.1
    (rr, { s with inn := r.2.1, tls := r.2.2, lin := linOf rr, trace := s.trace ++ [.rd s.k true rr] })
  else
    let r := Netio.netRead false s.inn s.clear
    let rr := rrOf s.clearEnd r.1
    (rr, { s with inn := r.2.1, clear := r.2.2, lin := linOf rr, trace := s.trace ++ [.rd s.k false rr] })

def wrStatus (x : List Byte) (s : S) : S := { s with status := s.status ++ x ++ [LF, NUL] }

/-- `dieerror(e)`: status, then net_conn_shutdown(shutdown_abort) -/
def dieerror {α : Type} (e : Nat) (s : S) : Out α :=
  let s1 := if e = ETIMEDOUT then wrStatus Gen.Qr.stTimedOut s else if e = ECONNRESET then wrStatus Gen.Qr.stDied s else s
  .exit { s1 with sock := false, ssl := false }

/-- `net_read(0)`: `none` = success, `some errno` = failure -/
def netRead0 (s : S) : Out (Option Nat) :=
  match rawRead s with
  | (.line _, s1) => .ret none s1
  | (.err e, s1) => .ret (some e) s1
  | (.die e, s1) => dieerror e s1

/-- `netnwrite()`; without a TLS session and with `socketd == -1` the poll times out -/
def netnwrite (b : List Byte) (s : S) : Out Unit :=
  if s.ssl ∧ s.sslK ≠ s.k then dieerror EPROTO s       -- stale session: dieerror(EPROTO) writes no status
  else if s.ssl ∨ s.sock then .ret () { s with trace := s.trace ++ [.wr s.k s.ssl b] } else dieerror ETIMEDOUT s

def sendAll : List (List Byte) → S → Out Unit
  | [], s => .ret () s
  | p :: ps, s => (netnwrite p s).bind fun _ s1 => sendAll ps s1

def netWriten (s0 : List Byte) (ss : List (List Byte)) (s : S) : Out Unit :=
  match Writen.netWriten s0 ss with
  | .ok lines => sendAll lines s
  | .error f => .fault f s

/-! ### reply.c: netget(0) -/

/-- `netget(0)`: the reply code, or a negative errno (EINVAL for anything that is not a reply line) -/
def netget0 (s : S) : Out Int :=
  (netRead0 s).bind fun r s1 =>
    match r with
    | some e =>
      if e = EINVAL ∨ e = E2BIG then .ret (-(EINVAL : Int)) s1
      -- EPROTO only comes from a stale session: netget() calls quitmsg(), whose netwrite() goes through the same
      -- session and ends in dieerror(EPROTO)
      else if e = EPROTO then dieerror EPROTO s1
      else .ret (-(e : Int)) s1
    | none =>
      match QrProto.codeOf s1.lin with
      | some c => .ret (c : Int) s1
      | none => .ret (-(EINVAL : Int)) s1

/-- fuel for a loop of reader calls: every call that succeeds consumes at least the line end from the
look-ahead buffer or from the stream that is read -/
def fuelOf (s : S) : Nat := s.inn.length + (if s.ssl then s.tls.rest.length else s.clear.rest.length) + 3

/-! ### qremote.c: quitmsg -/

/-- `do { if (net_read(0)) break; } while (linein.len >= 4 && linein.s[3] == '-')` -/
def quitLoop : Nat → S → Out Unit
  | 0, s => .fault (.precond 0) s
  | fuel + 1, s =>
    (netRead0 s).bind fun r s1 =>
      match r with
      | some _ => .ret () s1
      | none => if 4 ≤ s1.lin.length ∧ s1.lin[3]? = some DASH then quitLoop fuel s1 else .ret () s1

/-- what `free_smtproute_vals()` resets -/
def freeRoute (s : S) : S := { s with expectTls := false, routeCert := false }

/-- `quitmsg()` -/
def quitmsg (cfg : Cfg) (s : S) : Out Unit :=
  (netnwrite Gen.Qr.cmdQuit s).bind fun _ s1 =>
  (quitLoop (fuelOf s1) s1).bind fun _ s2 =>
    let s3 := { s2 with ssl := false, sock := false }
    .ret () (if cfg.quitKeepsRoute then s3 else freeRoute s3)

/-- `net_conn_shutdown(shutdown_clean)` -/
def shutdownClean {α : Type} (cfg : Cfg) (s : S) : Out α :=
  if s.sock then (quitmsg cfg s).bind fun _ s1 => .exit s1 else .exit { s with ssl := false }

def shutdownAbort {α : Type} (s : S) : Out α := .exit { s with sock := false, ssl := false }

/-- closing the socket without QUIT (`quitmsg_if_net()` for lost connections, `connection_died()`) -/
def dropConn (cfg : Cfg) (s : S) : S := { s with sock := false, ssl := if cfg.closeFreesTls then false else s.ssl }

/-- `quitmsg_if_net(error)` -/
def quitmsgIfNet (cfg : Cfg) (error : Int) (s : S) : Out Unit :=
  if error = -(EPIPE : Int) ∨ error = -(ECONNRESET : Int) ∨ error = -(ETIMEDOUT : Int) then .ret () (dropConn cfg s)
  else quitmsg cfg s

/-! ### greeting.c -/

/-- first loop of `greeting()`: `inl t` = `return t` -/
def ehloLoop (sc : Int) : Nat → Nat → Bool → S → Out (Sum Int (Nat × Bool))
  | 0, _, _, s => .fault (.precond 0) s
  | fuel + 1, ret, err, s =>
    if s.lin[3]? = some DASH then
      (netget0 s).bind fun t s1 =>
        if sc ≠ t then
          if t < 0 then .ret (.inl t) s1 else ehloLoop sc fuel ret true s1
        else if sc = (Gen.Qr.heloOk : Int) ∧ err = false then
          let e := QrProto.checkExtension (s1.lin.drop 4)
          if e < 0 then ehloLoop sc fuel ret true s1 else ehloLoop sc fuel (ret ||| e.toNat) err s1
        else ehloLoop sc fuel ret err s1
    else .ret (.inr (ret, err)) s

def heloLoop (sc : Int) : Nat → Nat → S → Out (Sum Int Nat)
  | 0, _, s => .fault (.precond 0) s
  | fuel + 1, err, s =>
    if s.lin[3]? = some DASH then
      (netget0 s).bind fun t s1 =>
        if t < 0 then .ret (.inl t) s1
        else heloLoop sc fuel (if t ≠ sc then err + 1 else err) s1
    else .ret (.inr err) s

/-- `greeting()`: the extension bits, or a negative error -/
def greeting (helo : List Byte) (s : S) : Out Int :=
  (netWriten Gen.Qr.cmdEhlo [helo] s).bind fun _ s1 =>
  (netget0 s1).bind fun sc s2 =>
    if sc < 0 then .ret sc s2
    else
    (ehloLoop sc (fuelOf s2) 0 false s2).bind fun r s3 =>
      match r with
      | .inl t => .ret t s3
      | .inr (ret, err) =>
        if err then .ret (-(EINVAL : Int)) s3
        else if sc = (Gen.Qr.heloOk : Int) then .ret (ret : Int) s3
        else
        (netWriten Gen.Qr.cmdHelo [helo] s3).bind fun _ s4 =>
        (netget0 s4).bind fun sc2 s5 =>
          if sc2 < 0 then .ret sc2 s5
          else
          (heloLoop sc2 (fuelOf s5) 0 s5).bind fun r2 s6 =>
            match r2 with
            | .inl t => .ret t s6
            | .inr e =>
              if e = 0 ∧ sc2 = (Gen.Qr.heloOk : Int) then .ret 0 s6
              else if e = 0 ∧ (Gen.Qr.heloErrMin : Int) ≤ sc2 ∧ sc2 ≤ (Gen.Qr.heloErrMax : Int) then .ret (-(EDONE : Int)) s6
              else .ret (-(EINVAL : Int)) s6

/-! ### starttlsr.c: tls_init -/

/-- `*servercert != 0`: the host has a name and control/tlshosts/<name>.pem exists -/
def pinActive (h : Host) : Bool := h.name.isSome && h.pin != .absent

def usableUsage (t : Tlsa) : Bool := Gen.Tls.tlsaUsable.contains t.usage

/-- `tlsa_usable` when the handshake starts: the records with a usable certificate usage that OpenSSL accepted -/
def tlsaUsableCount (a : TlsaAns) : Nat :=
  if a.res > 0 then (a.recs.filter fun t => usableUsage t && t.addOk).length else 0

/-- the loop reading the reply to STARTTLS: further lines must repeat the code of the first -/
def starttlsLoop : Nat → Int → S → Out Int
  | 0, _, s => .fault (.precond 0) s
  | fuel + 1, i, s =>
    if i > 0 ∧ s.lin[3]? = some DASH then
      (netget0 s).bind fun k s1 =>
        if i ≠ k then .ret (if k < 0 then k else (EDONE : Int)) s1 else starttlsLoop fuel i s1
    else .ret i s

/-- the path of the host certificate as it appears in the status line -/
def pinPath (h : Host) : List Byte := Gen.Tls.pinPrefix ++ (h.name.getD []) ++ Gen.Tls.pinSuffix

/-- `data_pending(myssl)` right after the handshake: the look-ahead buffer, then SSL_pending() -/
def dataPending (h : Host) (s : S) : Bool := !s.inn.isEmpty || h.sslPending

/-- `tls_init(d, tlsa)`: 0, a positive error (give up this host), or -1 after a status was written -/
def tlsInit (cfg : Cfg) (h : Host) (a : TlsaAns) (s : S) : Out Int :=
  if pinActive h ∧ h.pin = .invalid then
    .ret (-1) { s with status := s.status ++ Gen.Tls.stPinLoad ++ pinPath h ++ [LF, NUL] }
  else
  (netnwrite Gen.Tls.cmdStarttls s).bind fun _ s1 =>
  (netget0 s1).bind fun i0 s2 =>
  (starttlsLoop (fuelOf s2) i0 s2).bind fun i s3 =>
    if i ≠ (Gen.Tls.starttlsOk : Int) then .ret (if i < 0 then -i else (EDONE : Int)) s3
    else
      let s4 := { s3 with trace := s3.trace ++ [.hs s3.k h.handshake] }
      if h.handshake < 0 then .ret (-h.handshake) s4
      else if cfg.pendingCheck ∧ dataPending h s4 then .ret (EDONE : Int) s4
      else
        let s5 := { s4 with ssl := true, sslK := s4.k }
        if (pinActive h ∨ tlsaUsableCount a > 0) ∧ ¬ h.verified then .ret (EDONE : Int) s5
        else .ret 0 s5

/-! ### conn_mx.c: connect_mx -/

/-- the loop consuming the rest of a multi-line greeting: `(s, flagerr)` -/
def bannerLoop : Nat → Int → Bool → S → Out (Int × Bool)
  | 0, _, _, s => .fault (.precond 0) s
  | fuel + 1, sc, flagerr, s =>
    if s.lin[3]? = some DASH then
      (netget0 s).bind fun t s1 =>
        if t = -(ECONNRESET : Int) then .ret (t, flagerr) s1
        else
          let fe := flagerr || (sc ≠ t)
          if t > 0 then bannerLoop fuel sc fe s1 else .ret (t, fe) s1
    else .ret (sc, flagerr) s

/-- `tlsa = (mx->name == NULL) ? 0 : dnstlsa(mx->name, targetport, &d)`: always the first list entry -/
def lookupTlsa (cfg : Cfg) : TlsaAns :=
  match cfg.headName with
  | none => { res := 0, recs := [] }
  | some _ => cfg.headTlsa

/-- one pass of the body of connect_mx()'s loop after tryconn() succeeded.
`true`: return 0 with this connection; `false`: the socket is closed, try the next host. -/
def connectHost (cfg : Cfg) (h : Host) (s0 : S) : Out Bool :=
  let a := lookupTlsa cfg
  (netget0 s0).bind fun sc s1 =>
    if sc < 0 then
      if sc = -(ECONNRESET : Int) then .ret false (dropConn cfg s1)                    -- connection_died()
      else if sc = -(ETIMEDOUT : Int) then (quitmsgIfNet cfg sc s1).bind fun _ s2 => .ret false s2
      else (quitmsg cfg s1).bind fun _ s2 => .ret false s2                                 -- EINVAL
    else
    (bannerLoop (fuelOf s1) sc false s1).bind fun (sc2, flagerr) s2 =>
      if sc2 = -(ECONNRESET : Int) then .ret false (dropConn cfg s2)
      else if sc2 ≠ (Gen.Qr.greetingCode : Int) ∨ flagerr then (quitmsgIfNet cfg sc2 s2).bind fun _ s3 => .ret false s3
      else
      (greeting cfg.helo s2).bind fun fe s3 =>
        if fe < 0 then (quitmsgIfNet cfg fe s3).bind fun _ s4 => .ret false s4
        else
        let s4 := { s3 with ext := fe.toNat }
        if (s4.ext / Gen.Qr.extStarttls) % 2 = 1 then
          (tlsInit cfg h a s4).bind fun tr s5 =>
            if tr < 0 then shutdownClean cfg s5
            else if tr ≠ 0 then (quitmsgIfNet cfg (-tr) s5).bind fun _ s6 => .ret false s6
            else
            (greeting cfg.helo s5).bind fun fe2 s6 =>
              if fe2 < 0 then (quitmsgIfNet cfg fe2 s6).bind fun _ s7 => .ret false s7
              else .ret true { s6 with ext := fe2.toNat }
        else if s4.expectTls then (quitmsg cfg s4).bind fun _ s5 => .ret false s5
        else if a.res > 0 then (quitmsg cfg s4).bind fun _ s5 => .ret false s5
        else .ret true s4

/-- the state when tryconn() has connected to host `h` (number `k`): new socket, same look-ahead buffer -/
def openConn (h : Host) (k : Nat) (s : S) : S :=
  { s with k := k, clear := h.clear, clearEnd := h.clearEnd, tls := h.tls, tlsEnd := h.tlsEnd, sock := true,
           trace := s.trace ++ [.conn k] }

/-- `connect_mx()`: `some k` = return 0 with the connection to host `k`; `none` = -ENOENT -/
def connectMx (cfg : Cfg) : List Host → Nat → S → Out (Option Nat)
  | [], _, s => .ret none s
  | h :: rest, k, s =>
    (connectHost cfg h (openConn h k s)).bind fun ok s1 =>
      if ok then .ret (some k) s1 else connectMx cfg rest (k + 1) s1

/-- the state in which main() calls connect_mx(): what smtproute() found for the domain -/
def initS (expectTls routeCert : Bool) : S := { expectTls := expectTls, routeCert := routeCert }

def run (cfg : Cfg) (expectTls routeCert : Bool) (hosts : List Host) : Out (Option Nat) :=
  connectMx cfg hosts 0 (initS expectTls routeCert)

end QsmtpModel.StartTlsCli
