/-
Helper lemmas, second part: parseaddr, addrsyntax, xtextlen, addrparse.
-/
import QsmtpModel.Lemmas.Addr

namespace QsmtpModel.Addr
open QsmtpModel

theorem cstr_append (pre q : List Byte) (h : (0 : Byte) ∉ pre) : cstr (pre ++ q) = pre ++ cstr q := by
  induction pre with
  | nil => simp
  | cons c s ih =>
    have hc : c ≠ 0 := fun e => h (by simp [e])
    have hs : (0 : Byte) ∉ s := fun e => h (by simp [e])
    simp [cstr_cons_ne _ _ hc, ih hs]

theorem lpOf_append_at (pre post : List Byte) (h0 : (0 : Byte) ∉ pre) (h1 : AT ∉ pre) :
    lpOf (pre ++ AT :: post) = pre := by
  induction pre with
  | nil => exact lpOf_cons_stop _ _ (Or.inr rfl)
  | cons c s ih =>
    have hc : ¬ (c = 0 ∨ c = AT) := by
      intro e; rcases e with e | e
      · exact h0 (by simp [e])
      · exact h1 (by simp [e])
    simp only [List.cons_append]
    rw [lpOf_cons_go _ _ hc, ih (fun e => h0 (by simp [e])) (fun e => h1 (by simp [e]))]

theorem lpOf_append_zero (pre post : List Byte) (h0 : (0 : Byte) ∉ pre) (h1 : AT ∉ pre) :
    lpOf (pre ++ 0 :: post) = pre := by
  induction pre with
  | nil => exact lpOf_cons_stop _ _ (Or.inl rfl)
  | cons c s ih =>
    have hc : ¬ (c = 0 ∨ c = AT) := by
      intro e; rcases e with e | e
      · exact h0 (by simp [e])
      · exact h1 (by simp [e])
    simp only [List.cons_append]
    rw [lpOf_cons_go _ _ hc, ih (fun e => h0 (by simp [e])) (fun e => h1 (by simp [e]))]

/-- the literal between the brackets, as parseaddr validates it -/
def litOk (lit : List Byte) : Prop :=
  (∃ ip6, lit = ipv6Tag ++ ip6 ∧ pton6 ip6 = true) ∨ (pton4 lit = true)

theorem ipv6Tag_prefix (q2 pre2 post2 : List Byte) (h : q2 = pre2 ++ RBRACK :: post2)
    (ht : q2.take 5 = ipv6Tag) : 5 ≤ pre2.length := by
  apply Decidable.byContradiction
  intro hk
  have hk' : pre2.length < 5 := by omega
  have h1 : q2[pre2.length]? = some RBRACK := by
    rw [h]; simp
  have h2 : (q2.take 5)[pre2.length]? = some RBRACK := by
    rw [List.getElem?_take, if_pos hk', h1]
  rw [ht] at h2
  have : pre2.length = 0 ∨ pre2.length = 1 ∨ pre2.length = 2 ∨ pre2.length = 3 ∨ pre2.length = 4 := by omega
  rcases this with e | e | e | e | e <;> rw [e] at h2 <;> simp [ipv6Tag, RBRACK] at h2

/-- what each return value of parseaddr means, in terms of the reference specification -/
theorem parseaddr_ref (p : List Byte) (r : Nat) (h : parseaddr p = .ok r) :
    r ≤ 4 ∧
    (r = 1 → Spec.fqdnB (cstr p) = true) ∧
    (r = 2 → ∃ d, cstr p = AT :: d ∧ Spec.fqdnB d = true) ∧
    (r = 3 → ∃ lp d, cstr p = lp ++ AT :: d ∧ lp ≠ [] ∧ AT ∉ lp ∧ Spec.localPartB lp = true ∧ Spec.fqdnB d = true) ∧
    (r = 4 → ∃ lp lit, cstr p = lp ++ AT :: LBRACK :: lit ++ [RBRACK] ∧ lp ≠ [] ∧ AT ∉ lp ∧
        Spec.localPartB lp = true ∧ litOk lit) := by
  unfold parseaddr at h
  cases hs : strchr AT p 0 with
  | error e => simp [hs, bind, Except.bind] at h
  | ok v =>
    simp only [hs, bind, Except.bind] at h
    cases v with
    | none =>
      simp only at h
      cases hd : domainvalid p with
      | error e => simp [hd] at h
      | ok dv =>
        simp only [hd, pure, Except.pure, Except.ok.injEq] at h
        refine ⟨by omega, ?_, by omega, by omega, by omega⟩
        intro h1
        have : dv = 0 := by omega
        subst this
        exact domainvalid_fqdn p hd
    | some atp =>
      simp only at h
      obtain ⟨pre, post, hp, hlen, hat, h0⟩ := strchr_some AT p 0 atp hs
      cases hl : parselocalpart p with
      | error e => simp [hl] at h
      | ok lp =>
        simp only [hl] at h
        by_cases hneg : lp < 0
        · simp [hneg, pure, Except.pure] at h
          subst h; simp
        · simp only [hneg, ↓reduceIte] at h
          have hlpof : lpOf p = pre := by rw [hp]; exact lpOf_append_at _ _ h0 hat
          have hlp := parselocalpart_ref p lp hl (by omega)
          rw [hlpof] at hlp
          have hcp : cstr p = pre ++ AT :: cstr post := by
            rw [hp, cstr_append _ _ h0, cstr_cons_ne _ _ (by decide)]
          by_cases hz : atp = 0
          · simp only [hz, ↓reduceIte] at h
            have hpre : pre = [] := List.eq_nil_of_length_eq_zero (by omega)
            subst hpre
            simp only [List.nil_append] at hp hcp
            have hdrop : List.drop 1 p = post := by rw [hp]; rfl
            rw [hdrop] at h
            cases hd : domainvalid post with
            | error e => simp [hd] at h
            | ok dv =>
              simp only [hd, pure, Except.pure, Except.ok.injEq] at h
              by_cases hdv : dv = 0
              · subst hdv
                simp at h
                refine ⟨by omega, by omega, ?_, by omega, by omega⟩
                intro _
                exact ⟨cstr post, hcp, domainvalid_fqdn post hd⟩
              · simp [hdv] at h
                subst h; simp
          · simp only [hz, ↓reduceIte] at h
            have hprene : pre ≠ [] := by
              intro e; rw [e] at hlen; simp at hlen; omega
            have hloc : Spec.localPartB pre = true := by
              rcases hlp.2 with e | e | e
              · exact absurd e hprene
              · simp [Spec.localPartB, e]
              · simp [Spec.localPartB, e]
            have hdrop : List.drop (atp + 1) p = post := by
              rw [hp, ← hlen]; simp
            rw [hdrop] at h
            cases post with
            | nil => simp at h
            | cons c q2 =>
              simp only at h
              by_cases hbr : c = LBRACK
              · subst hbr
                simp only [↓reduceIte] at h
                cases hs2 : strchr RBRACK q2 (atp + 2) with
                | error e => simp [hs2] at h
                | ok v2 =>
                  simp only [hs2] at h
                  cases v2 with
                  | none =>
                    simp [pure, Except.pure] at h
                    subst h; simp
                  | some k =>
                    simp only at h
                    obtain ⟨pre2, post2, hq2, hlen2, hrb, h02⟩ := strchr_some RBRACK q2 (atp + 2) k hs2
                    have hdrop2 : List.drop (k + 1) q2 = post2 := by
                      rw [hq2, ← hlen2]; simp
                    rw [hdrop2] at h
                    cases post2 with
                    | nil => simp at h
                    | cons e tl =>
                      simp only at h
                      by_cases he : e = 0
                      · subst he
                        simp only [ne_eq, not_true_eq_false, ↓reduceIte] at h
                        have hcs : cstr p = pre ++ AT :: LBRACK :: pre2 ++ [RBRACK] := by
                          rw [hcp, hq2, cstr_cons_ne _ _ (by decide)]
                          have : cstr (pre2 ++ RBRACK :: 0 :: tl) = pre2 ++ [RBRACK] := by
                            rw [cstr_append _ _ h02, cstr_cons_ne _ _ (by decide), cstr_zero]
                          rw [this]; simp
                        have htk : List.take k q2 = pre2 := by rw [hq2, ← hlen2]; simp
                        by_cases htag : List.take 5 q2 = ipv6Tag
                        · simp only [htag, ↓reduceIte] at h
                          split at h
                          · simp [pure, Except.pure] at h; subst h; simp
                          · simp only [pure, Except.pure, Except.ok.injEq] at h
                            split at h
                            · rename_i hpt
                              subst h
                              refine ⟨by omega, by omega, by omega, by omega, ?_⟩
                              intro _
                              refine ⟨pre, pre2, hcs, hprene, hat, hloc, Or.inl ⟨List.take (k - 5) (List.drop 5 q2), ?_, hpt⟩⟩
                              have h5 := ipv6Tag_prefix q2 pre2 (0 :: tl) hq2 htag
                              rw [← htag, ← htk]
                              have : k = 5 + (k - 5) := by omega
                              conv => lhs; rw [this]
                              rw [List.take_add]
                            · subst h; simp
                        · simp only [htag, ↓reduceIte] at h
                          split at h
                          · simp [pure, Except.pure] at h; subst h; simp
                          · simp only [pure, Except.pure, Except.ok.injEq] at h
                            split at h
                            · rename_i hpt
                              subst h
                              refine ⟨by omega, by omega, by omega, by omega, ?_⟩
                              intro _
                              exact ⟨pre, pre2, hcs, hprene, hat, hloc, Or.inr (by rw [← htk]; exact hpt)⟩
                            · subst h; simp
                      · simp [he, pure, Except.pure] at h
                        subst h; simp
              · simp only [hbr, ↓reduceIte] at h
                cases hd : domainvalid (c :: q2) with
                | error e => simp [hd] at h
                | ok dv =>
                  simp only [hd, pure, Except.pure, Except.ok.injEq] at h
                  by_cases hdv : dv = 0
                  · subst hdv
                    simp at h
                    refine ⟨by omega, by omega, by omega, ?_, by omega⟩
                    intro _
                    exact ⟨pre, cstr (c :: q2), hcp, hprene, hat, hloc, domainvalid_fqdn _ hd⟩
                  · simp [hdv] at h
                    subst h; simp

/-! ### no faults: parseaddr, addrsyntax -/

theorem mem_post_of_split {p pre post : List Byte} {c : Byte} (hp : p = pre ++ c :: post)
    (h : (0 : Byte) ∈ p) (h0 : (0 : Byte) ∉ pre) (hc : c ≠ 0) : (0 : Byte) ∈ post := by
  rw [hp] at h
  simp only [List.mem_append, List.mem_cons] at h
  rcases h with h | h | h
  · exact absurd h h0
  · exact absurd h.symm hc
  · exact h

theorem parseaddr_ok (p : List Byte) (h : (0 : Byte) ∈ p) : ∃ r, parseaddr p = .ok r := by
  unfold parseaddr
  obtain ⟨v, hs⟩ := strchr_ok AT p 0 h
  simp only [hs, bind, Except.bind]
  cases v with
  | none =>
    obtain ⟨dv, hd⟩ := domainvalid_ok p h
    simp [hd, pure, Except.pure]
  | some atp =>
    simp only
    obtain ⟨pre, post, hp, hlen, hat, h0⟩ := strchr_some AT p 0 atp hs
    have hpost : (0 : Byte) ∈ post := mem_post_of_split hp h h0 (by decide)
    obtain ⟨lp, hl⟩ := parselocalpart_ok p h
    simp only [hl]
    split
    · exact ⟨_, rfl⟩
    · split
      · rename_i hz
        have hpre : pre = [] := List.eq_nil_of_length_eq_zero (by omega)
        subst hpre
        have hdrop : List.drop 1 p = post := by rw [hp]; rfl
        rw [hdrop]
        obtain ⟨dv, hd⟩ := domainvalid_ok post hpost
        simp [hd, pure, Except.pure]
      · have hdrop : List.drop (atp + 1) p = post := by rw [hp, ← hlen]; simp
        rw [hdrop]
        cases post with
        | nil => simp at hpost
        | cons c q2 =>
          simp only
          split
          · rename_i hbr
            have hq2 : (0 : Byte) ∈ q2 := mem_tail_of_ne hpost (by rw [hbr]; decide)
            obtain ⟨v2, hs2⟩ := strchr_ok RBRACK q2 (atp + 2) hq2
            simp only [hs2]
            cases v2 with
            | none => exact ⟨_, rfl⟩
            | some k =>
              simp only
              obtain ⟨pre2, post2, hq, hlen2, _, h02⟩ := strchr_some RBRACK q2 (atp + 2) k hs2
              have hdrop2 : List.drop (k + 1) q2 = post2 := by rw [hq, ← hlen2]; simp
              rw [hdrop2]
              have hpost2 : (0 : Byte) ∈ post2 := mem_post_of_split hq hq2 h02 (by decide)
              cases post2 with
              | nil => simp at hpost2
              | cons e tl =>
                simp only
                split
                · exact ⟨_, rfl⟩
                · split
                  · split <;> exact ⟨_, rfl⟩
                  · split <;> exact ⟨_, rfl⟩
          · obtain ⟨dv, hd⟩ := domainvalid_ok (c :: q2) hpost
            simp [hd, pure, Except.pure]

theorem mem_drop_of_le {l : List Byte} {x : Byte} {i j : Nat} (hij : i ≤ j) (h : x ∈ l.drop j) : x ∈ l.drop i := by
  have : l.drop j = (l.drop i).drop (j - i) := by rw [List.drop_drop]; congr 1; omega
  rw [this] at h
  exact List.mem_of_mem_drop h

theorem mem_drop_set {b : List Byte} {i j : Nat} (h : (0 : Byte) ∈ b.drop j) : (0 : Byte) ∈ (b.set i 0).drop j := by
  rw [List.mem_iff_getElem?] at h ⊢
  obtain ⟨m, hm⟩ := h
  refine ⟨m, ?_⟩
  rw [List.getElem?_drop] at hm ⊢
  rw [List.getElem?_set]
  split
  · rename_i e
    have : j + m < b.length := by
      apply Decidable.byContradiction; intro hn
      rw [List.getElem?_eq_none (by omega)] at hm; simp at hm
    simp [e ▸ this]
  · exact hm

/-- a `strchr` hit inside `b.drop f`, as facts about `b` -/
theorem drop_split_facts {b pre post : List Byte} {f : Nat} {c : Byte} (h : b.drop f = pre ++ c :: post) :
    f + pre.length < b.length ∧ b.drop (f + pre.length + 1) = post := by
  have hl : (b.drop f).length = pre.length + 1 + post.length := by rw [h]; simp; omega
  rw [List.length_drop] at hl
  refine ⟨by omega, ?_⟩
  have : b.drop (f + pre.length + 1) = (b.drop f).drop (pre.length + 1) := by
    rw [List.drop_drop, Nat.add_assoc]
  rw [this, h]; simp

theorem peek_ok {b : List Byte} {i : Nat} (h : i < b.length) : peek b i = .ok b[i] := by
  unfold peek; simp [h]

theorem poke0_ok {b : List Byte} {i : Nat} (h : i < b.length) : poke0 b i = .ok (b.set i 0) := by
  unfold poke0; simp [h]

theorem addrTail_ok (b : List Byte) (flags f : Nat) (h : (0 : Byte) ∈ b.drop f) : ∃ o, addrTail b flags f = .ok o := by
  unfold addrTail
  obtain ⟨v, hs⟩ := strchr_ok GT (b.drop f) f h
  simp only [hs, bind, Except.bind]
  cases v with
  | none => exact ⟨_, rfl⟩
  | some len =>
    simp only
    obtain ⟨pre, post, hp, hlen, _, h0⟩ := strchr_some GT (b.drop f) f len hs
    have hpost : (0 : Byte) ∈ post := mem_post_of_split hp h h0 (by decide)
    obtain ⟨hin, hdr⟩ := drop_split_facts hp
    rw [hlen] at hin hdr
    have hin2 : f + len + 1 < b.length := by
      have : 0 < (b.drop (f + len + 1)).length := by
        rw [hdr]; cases post with
        | nil => simp at hpost
        | cons _ _ => simp
      rw [List.length_drop] at this; omega
    simp only [peek_ok hin2, poke0_ok hin]
    split
    · exact ⟨_, rfl⟩
    · have hz : (0 : Byte) ∈ (b.set (f + len) 0).drop f := mem_drop_set h
      obtain ⟨r, hr⟩ := parseaddr_ok _ hz
      simp only [hr, pure, Except.pure]
      split
      · split <;> exact ⟨_, rfl⟩
      · exact ⟨_, rfl⟩

theorem routeLoop_ok (fuel : Nat) : ∀ (b : List Byte) (f : Nat), (0 : Byte) ∈ b.drop f → b.length - f < fuel →
    ∃ b1 r, routeLoop fuel b f = .ok (b1, r) ∧ ∀ f1, r = some f1 → (0 : Byte) ∈ b1.drop f1 := by
  induction fuel with
  | zero => intro b f _ h; omega
  | succ fuel ih =>
    intro b f h hf
    unfold routeLoop
    obtain ⟨v, hs⟩ := strchr_ok COMMA (b.drop f) f h
    simp only [hs, bind, Except.bind]
    cases v with
    | none => exact ⟨b, some f, rfl, fun f1 e => by simp at e; subst e; exact h⟩
    | some k =>
      simp only
      obtain ⟨pre, post, hp, hlen, _, h0⟩ := strchr_some COMMA (b.drop f) f k hs
      have hpost : (0 : Byte) ∈ post := mem_post_of_split hp h h0 (by decide)
      obtain ⟨hin, hdr⟩ := drop_split_facts hp
      rw [hlen] at hin hdr
      have hz1 : (0 : Byte) ∈ b.drop (f + k + 1) := by rw [hdr]; exact hpost
      have hin2 : f + k + 1 < b.length := by
        have : 0 < (b.drop (f + k + 1)).length := by
          rw [hdr]; cases post with
          | nil => simp at hpost
          | cons _ _ => simp
        rw [List.length_drop] at this; omega
      simp only [poke0_ok hin]
      obtain ⟨dv, hd⟩ := domainvalid_ok ((b.set (f + k) 0).drop (f + 1)) (mem_drop_set (mem_drop_of_le (by omega) hz1))
      simp only [hd]
      split
      · exact ⟨_, none, rfl, fun f1 e => by simp at e⟩
      · have hl : (b.set (f + k) 0).length = b.length := by simp
        have hin3 : f + k + 1 < (b.set (f + k) 0).length := by rw [hl]; exact hin2
        simp only [peek_ok hin3]
        split
        · exact ⟨_, none, rfl, fun f1 e => by simp at e⟩
        · exact ih _ _ (mem_drop_set hz1) (by rw [hl]; omega)

theorem addrsyntax_ok (b : List Byte) (flags : Nat) (h : (0 : Byte) ∈ b) : ∃ o, addrsyntax b flags = .ok o := by
  unfold addrsyntax
  have hne : 0 < b.length := by
    cases b with
    | nil => simp at h
    | cons _ _ => simp
  simp only [peek_ok hne, bind, Except.bind]
  split
  · obtain ⟨b1, r, hr, hz⟩ := routeLoop_ok (b.length + 1) b 0 (by simpa using h) (by omega)
    simp only [hr]
    cases r with
    | none => exact ⟨_, rfl⟩
    | some f =>
      simp only
      have hzf := hz f rfl
      obtain ⟨v, hs⟩ := strchr_ok COLON (b1.drop f) f hzf
      simp only [hs]
      cases v with
      | none => exact ⟨_, rfl⟩
      | some k =>
        simp only
        obtain ⟨pre, post, hp, hlen, _, h0⟩ := strchr_some COLON (b1.drop f) f k hs
        have hpost : (0 : Byte) ∈ post := mem_post_of_split hp hzf h0 (by decide)
        obtain ⟨hin, hdr⟩ := drop_split_facts hp
        rw [hlen] at hin hdr
        have hz1 : (0 : Byte) ∈ b1.drop (f + k + 1) := by rw [hdr]; exact hpost
        simp only [poke0_ok hin]
        obtain ⟨dv, hd⟩ := domainvalid_ok ((b1.set (f + k) 0).drop (f + 1)) (mem_drop_set (mem_drop_of_le (by omega) hz1))
        simp only [hd]
        split
        · exact ⟨_, rfl⟩
        · split
          · exact ⟨_, rfl⟩
          · exact addrTail_ok _ _ _ (mem_drop_set hz1)
  · exact addrTail_ok b flags 0 (by simpa using h)

end QsmtpModel.Addr
