/-
Helper lemmas, fourth part: what a successful addrsyntax() did (source route, mailbox, `more`).
-/
import QsmtpModel.Lemmas.AddrXtext

namespace QsmtpModel.Addr
open QsmtpModel

/-- a well-formed source route `@d1,@d2,...,@dn:` -/
inductive RouteOk : List Byte → Prop
  | last (d : List Byte) : Spec.fqdnB d = true → RouteOk (AT :: d ++ [COLON])
  | cons (d rest : List Byte) : Spec.fqdnB d = true → RouteOk rest → RouteOk (AT :: d ++ COMMA :: rest)

/-- what kind of mailbox was accepted, by return value -/
def MboxCases (flags : Nat) (mbox : List Byte) (ret : Nat) : Prop :=
  (flags = 0 ∧ mbox = [] ∧ ret = 1) ∨
  (flags = 1 ∧ mbox.map lower = postmaster ∧ ret = 1) ∨
  (ret = 3 ∧ ∃ lp d, mbox = lp ++ AT :: d ∧ lp ≠ [] ∧ AT ∉ lp ∧ Spec.localPartB lp = true ∧ Spec.fqdnB d = true) ∨
  (ret = 4 ∧ ∃ lp lit, mbox = lp ++ AT :: LBRACK :: lit ++ [RBRACK] ∧ lp ≠ [] ∧ AT ∉ lp ∧
      Spec.localPartB lp = true ∧ litOk lit)

theorem set_mid (l1 l2 : List Byte) (c x : Byte) : (l1 ++ c :: l2).set l1.length x = l1 ++ x :: l2 := by
  induction l1 with
  | nil => simp
  | cons a l ih => simp [ih]

theorem set_mid' (l1 l2 : List Byte) (c x : Byte) (n : Nat) (h : l1.length = n) :
    (l1 ++ c :: l2).set n x = l1 ++ x :: l2 := by subst h; exact set_mid _ _ _ _

theorem drop_len (l1 l2 : List Byte) (n : Nat) (h : l1.length = n) : (l1 ++ l2).drop n = l2 := by
  subst h; exact List.drop_left

theorem take_len (l1 l2 : List Byte) (n : Nat) (h : l1.length = n) : (l1 ++ l2).take n = l1 := by
  subst h; exact List.take_left

theorem take_drop_decomp (b rest : List Byte) (f : Nat) (h : b.drop f = rest) (hne : rest ≠ []) :
    b = b.take f ++ rest ∧ (b.take f).length = f := by
  have hl : f < b.length := by
    apply Decidable.byContradiction; intro hn
    rw [List.drop_eq_nil_of_le (by omega)] at h
    exact hne h.symm
  exact ⟨by rw [← h, List.take_append_drop], by rw [List.length_take]; omega⟩

/-- the part of addrsyntax behind the source route -/
theorem addrTail_ref (b : List Byte) (flags f : Nat) (o : SyntaxOut) (h : addrTail b flags f = .ok o) (hpos : 0 < o.ret) :
    ∃ mbox tail, cstr (b.drop f) = mbox ++ GT :: tail ∧ GT ∉ mbox ∧
      o.addr = some (mbox.map lower) ∧
      o.more = (if tail = [] then none else some (f + mbox.length + 1)) ∧
      MboxCases flags mbox o.ret := by
  unfold addrTail at h
  cases hs : strchr GT (b.drop f) f with
  | error e => simp [hs, bind, Except.bind] at h
  | ok v =>
    simp only [hs, bind, Except.bind] at h
    cases v with
    | none => simp [pure, Except.pure] at h; subst h; simp at hpos
    | some len =>
      simp only at h
      obtain ⟨mbox, post, hp, hlen, hgt, h0⟩ := strchr_some GT (b.drop f) f len hs
      obtain ⟨hin, hdr⟩ := drop_split_facts hp
      rw [hlen] at hin hdr
      obtain ⟨hb, hfl⟩ := take_drop_decomp b _ f hp (by simp)
      cases hpk : peek b (f + len + 1) with
      | error e => simp [hpk] at h
      | ok nxt =>
        simp only [hpk] at h
        -- the byte behind '>' is the head of `post`
        have hpost : post = nxt :: post.tail := by
          unfold peek at hpk
          cases hq : b[f + len + 1]? with
          | none => simp [hq] at hpk
          | some y =>
            simp [hq] at hpk
            subst hpk
            have : (b.drop (f + len + 1))[0]? = some y := by rw [List.getElem?_drop]; simpa using hq
            rw [hdr] at this
            cases post with
            | nil => simp at this
            | cons z zs => simp at this; simp [this]
        have hcs : cstr (b.drop f) = mbox ++ GT :: cstr post := by
          rw [hp, cstr_append _ _ h0, cstr_cons_ne _ _ (by decide)]
        have htail : (cstr post = []) ↔ nxt = 0 := by
          rw [hpost, cstr_cons]
          by_cases e : nxt = 0 <;> simp [e]
        have hmore : (if nxt ≠ 0 then some (f + len + 1) else none) =
            (if cstr post = [] then none else some (f + mbox.length + 1)) := by
          rw [hlen]
          by_cases e : nxt = 0
          · simp [e, htail.mpr e]
          · have : cstr post ≠ [] := fun x => e (htail.mp x)
            simp [e, this]
        by_cases hemp : flags = 0 ∧ len = 0
        · simp only [hemp, and_self, ↓reduceIte, pure, Except.pure, Except.ok.injEq] at h
          have hm : mbox = [] := List.eq_nil_of_length_eq_zero (by omega)
          subst h
          refine ⟨mbox, cstr post, hcs, hgt, by simp [hm], ?_, Or.inl ⟨hemp.1, hm, rfl⟩⟩
          simpa [hemp.2] using hmore
        · simp only [hemp, ↓reduceIte] at h
          simp only [poke0_ok hin] at h
          -- the buffer after `*l = '\0'`
          have hset : b.set (f + len) 0 = b.take f ++ mbox ++ 0 :: post := by
            have e1 : b = (b.take f ++ mbox) ++ GT :: post := by rw [List.append_assoc]; exact hb
            have e2 : (b.take f ++ mbox).length = f + len := by simp [hfl, hlen]
            conv => lhs; arg 1; rw [e1]
            exact set_mid' _ _ _ _ _ e2
          have hfs : (b.set (f + len) 0).drop f = mbox ++ 0 :: post := by
            rw [hset, List.append_assoc]
            exact drop_len _ _ _ hfl
          have hcfs : cstr ((b.set (f + len) 0).drop f) = mbox := by
            rw [hfs]; exact cstr_append_zero _ _ h0
          rw [hcfs] at h
          by_cases hpm : flags ≠ 1 ∨ mbox.map lower ≠ postmaster
          · simp only [hpm, ↓reduceIte] at h
            cases hpa : parseaddr ((b.set (f + len) 0).drop f) with
            | error e => simp [hpa] at h
            | ok x =>
              simp only [hpa] at h
              by_cases hx : x < 3
              · simp [hx, pure, Except.pure] at h
                subst h; simp at hpos
              · simp only [hx, ↓reduceIte, pure, Except.pure, Except.ok.injEq] at h
                subst h
                have href := parseaddr_ref _ x hpa
                rw [hcfs] at href
                refine ⟨mbox, cstr post, hcs, hgt, rfl, hmore, ?_⟩
                have : x = 3 ∨ x = 4 := by omega
                rcases this with e | e
                · exact Or.inr (Or.inr (Or.inl ⟨e, href.2.2.2.1 e⟩))
                · exact Or.inr (Or.inr (Or.inr ⟨e, href.2.2.2.2 e⟩))
          · simp only [hpm, ↓reduceIte, pure, Except.pure, Except.ok.injEq] at h
            subst h
            have hf1 : flags = 1 := by
              apply Decidable.byContradiction; intro e; exact hpm (Or.inl e)
            have hp1 : mbox.map lower = postmaster := by
              apply Decidable.byContradiction; intro e; exact hpm (Or.inr e)
            exact ⟨mbox, cstr post, hcs, hgt, rfl, hmore, Or.inr (Or.inl ⟨hf1, hp1, rfl⟩)⟩

/-- one element of the source route: `@domain` followed by the separator found by `strchr` -/
theorem route_step (b0 b : List Byte) (f k : Nat) (sep : Byte) (_hsep0 : sep ≠ 0) (hsepAT : sep ≠ AT)
    (hd : b.drop f = b0.drop f) (hhead : (b0.drop f).head? = some AT)
    (hs : strchr sep (b.drop f) f = .ok (some k))
    (hdv : domainvalid ((b.set (f + k) 0).drop (f + 1)) = .ok 0) :
    ∃ d post, Spec.fqdnB d = true ∧ (0 : Byte) ∉ d ∧
      b0.take (f + k + 1) = b0.take f ++ (AT :: d ++ [sep]) ∧
      (b.set (f + k) 0).drop (f + k + 1) = post ∧ b0.drop (f + k + 1) = post ∧
      k + 1 = (AT :: d ++ [sep]).length := by
  obtain ⟨pre, post, hp, hlen, hnsep, h0⟩ := strchr_some sep (b.drop f) f k hs
  -- the element starts with '@'
  have hpre : ∃ d, pre = AT :: d := by
    cases pre with
    | nil =>
      rw [hd] at hp; rw [hp] at hhead; simp at hhead; exact absurd hhead hsepAT
    | cons a d =>
      rw [hd] at hp; rw [hp] at hhead; simp at hhead; exact ⟨d, by rw [hhead]⟩
  obtain ⟨d, rfl⟩ := hpre
  have hd0 : (0 : Byte) ∉ d := fun e => h0 (by simp [e])
  obtain ⟨hb, hfl⟩ := take_drop_decomp b _ f hp (by simp)
  have hp0 : b0.drop f = (AT :: d) ++ sep :: post := by rw [← hd]; exact hp
  obtain ⟨hb0, hfl0⟩ := take_drop_decomp b0 _ f hp0 (by simp)
  simp only [List.length_cons] at hlen
  have hset : b.set (f + k) 0 = b.take f ++ (AT :: d) ++ 0 :: post := by
    have e1 : b = (b.take f ++ (AT :: d)) ++ sep :: post := by rw [List.append_assoc]; exact hb
    have e2 : (b.take f ++ (AT :: d)).length = f + k := by simp [hfl]; omega
    conv => lhs; arg 1; rw [e1]
    exact set_mid' _ _ _ _ _ e2
  have hdrop1 : (b.set (f + k) 0).drop (f + 1) = d ++ 0 :: post := by
    rw [hset]
    have : b.take f ++ (AT :: d) ++ 0 :: post = (b.take f ++ [AT]) ++ (d ++ 0 :: post) := by simp
    rw [this]
    exact drop_len _ _ _ (by simp [hfl])
  rw [hdrop1] at hdv
  have hfq := domainvalid_fqdn _ hdv
  rw [cstr_append_zero _ _ hd0] at hfq
  refine ⟨d, post, hfq, hd0, ?_, ?_, ?_, by simp; omega⟩
  · have : b0 = (b0.take f ++ (AT :: d ++ [sep])) ++ post := by
      conv => lhs; rw [hb0]
      simp
    conv => lhs; rw [this]
    exact take_len _ _ _ (by simp [hfl0]; omega)
  · rw [hset]
    have : b.take f ++ (AT :: d) ++ 0 :: post = (b.take f ++ (AT :: d) ++ [0]) ++ post := by simp
    rw [this]
    exact drop_len _ _ _ (by simp [hfl]; omega)
  · have : b0 = (b0.take f ++ (AT :: d ++ [sep])) ++ post := by
      conv => lhs; rw [hb0]
      simp
    conv => lhs; rw [this]
    exact drop_len _ _ _ (by simp [hfl0]; omega)

theorem peek_head (b : List Byte) (i : Nat) (c : Byte) (h : peek b i = .ok c) : (b.drop i).head? = some c := by
  unfold peek at h
  cases hq : b[i]? with
  | none => simp [hq] at h
  | some y =>
    simp [hq] at h; subst h
    rw [List.head?_drop]; exact hq

/-- invariant of the source-route loop: everything before `f` is a sequence of valid `@domain,`
elements of the original line, everything from `f` on is untouched -/
theorem routeLoop_ref (b0 : List Byte) (fuel : Nat) : ∀ (b : List Byte) (f : Nat) (b1 : List Byte) (f1 : Nat),
    b.drop f = b0.drop f → (0 : Byte) ∉ b0.take f →
    (∀ rest, RouteOk rest → RouteOk (b0.take f ++ rest)) →
    (b0.drop f).head? = some AT →
    routeLoop fuel b f = .ok (b1, some f1) →
    b1.drop f1 = b0.drop f1 ∧ (0 : Byte) ∉ b0.take f1 ∧
    (∀ rest, RouteOk rest → RouteOk (b0.take f1 ++ rest)) ∧ (b0.drop f1).head? = some AT := by
  induction fuel with
  | zero => intro b f b1 f1 _ _ _ _ h; simp [routeLoop] at h
  | succ fuel ih =>
    intro b f b1 f1 hd h0 hrp hhead h
    unfold routeLoop at h
    cases hs : strchr COMMA (b.drop f) f with
    | error e => simp [hs, bind, Except.bind] at h
    | ok v =>
      simp only [hs, bind, Except.bind] at h
      cases v with
      | none =>
        simp [pure, Except.pure] at h
        obtain ⟨rfl, rfl⟩ := h
        exact ⟨hd, h0, hrp, hhead⟩
      | some k =>
        simp only at h
        cases hpo : poke0 b (f + k) with
        | error e => simp [hpo] at h
        | ok b' =>
          simp only [hpo] at h
          have hb' : b' = b.set (f + k) 0 := by
            unfold poke0 at hpo
            split at hpo
            · simp at hpo; exact hpo.symm
            · simp at hpo
          subst hb'
          cases hdv : domainvalid ((b.set (f + k) 0).drop (f + 1)) with
          | error e => simp [hdv] at h
          | ok dv =>
            simp only [hdv] at h
            by_cases hz : dv = 0
            · subst hz
              simp only [ne_eq, not_true_eq_false, ↓reduceIte] at h
              cases hpk : peek (b.set (f + k) 0) (f + k + 1) with
              | error e => simp [hpk] at h
              | ok c =>
                simp only [hpk] at h
                by_cases hc : c = AT
                · subst hc
                  simp only [not_true_eq_false, ↓reduceIte] at h
                  obtain ⟨d, post, hfq, hd0, htk, hdr1, hdr0, _⟩ :=
                    route_step b0 b f k COMMA (by decide) (by decide) hd hhead hs hdv
                  have hhd := peek_head _ _ _ hpk
                  rw [hdr1] at hhd
                  refine ih _ _ b1 f1 (by rw [hdr1, hdr0]) ?_ ?_ (by rw [hdr0]; exact hhd) h
                  · rw [htk]
                    simp [h0, hd0, AT, COMMA]
                  · intro rest hr
                    rw [htk]
                    have : b0.take f ++ (AT :: d ++ [COMMA]) ++ rest = b0.take f ++ (AT :: d ++ COMMA :: rest) := by simp
                    rw [this]
                    exact hrp _ (RouteOk.cons d rest hfq hr)
                · simp [hc, pure, Except.pure] at h
            · simp [hz, pure, Except.pure] at h

/-- What a successful `addrsyntax()` did, in terms of the C string `in` as it was before the
call: `route ++ mbox ++ ">" ++ tail`. -/
theorem addrsyntax_ref (b : List Byte) (flags : Nat) (o : SyntaxOut) (h : addrsyntax b flags = .ok o) (hpos : 0 < o.ret) :
    ∃ route mbox tail, cstr b = route ++ mbox ++ GT :: tail ∧ GT ∉ mbox ∧
      (route = [] ∨ (flags = 1 ∧ RouteOk route ∧ route.length ≤ 256)) ∧
      (flags = 1 → b.head? = some AT → route ≠ []) ∧
      o.addr = some (mbox.map lower) ∧
      o.more = (if tail = [] then none else some (route.length + mbox.length + 1)) ∧
      MboxCases flags mbox o.ret := by
  unfold addrsyntax at h
  cases hpk : peek b 0 with
  | error e => simp [hpk, bind, Except.bind] at h
  | ok c0 =>
    simp only [hpk, bind, Except.bind] at h
    have hhead0 : b.head? = some c0 := by simpa using peek_head b 0 c0 hpk
    by_cases hroute : flags = 1 ∧ c0 = AT
    · obtain ⟨hf1, hcAT⟩ := hroute
      subst hf1
      subst hcAT
      simp only [and_self, ↓reduceIte] at h
      cases hrl : routeLoop (b.length + 1) b 0 with
      | error e => simp [hrl] at h
      | ok v =>
        obtain ⟨b1, r⟩ := v
        simp only [hrl] at h
        cases r with
        | none => simp [pure, Except.pure] at h; subst h; simp at hpos
        | some f =>
          simp only at h
          obtain ⟨hd, h0, hrp, hhead⟩ := routeLoop_ref b (b.length + 1) b 0 b1 f rfl (by simp)
            (fun rest hr => by simpa using hr) (by simp [hhead0]) hrl
          cases hs : strchr COLON (b1.drop f) f with
          | error e => simp [hs] at h
          | ok v =>
            simp only [hs] at h
            cases v with
            | none => simp [pure, Except.pure] at h; subst h; simp at hpos
            | some k =>
              simp only at h
              cases hpo : poke0 b1 (f + k) with
              | error e => simp [hpo] at h
              | ok b2 =>
                simp only [hpo] at h
                have hb2 : b2 = b1.set (f + k) 0 := by
                  unfold poke0 at hpo
                  split at hpo
                  · simp at hpo; exact hpo.symm
                  · simp at hpo
                subst hb2
                cases hdv : domainvalid ((b1.set (f + k) 0).drop (f + 1)) with
                | error e => simp [hdv] at h
                | ok dv =>
                  simp only [hdv] at h
                  by_cases hz : dv = 0
                  · subst hz
                    simp only [ne_eq, not_true_eq_false, ↓reduceIte] at h
                    rw [routeMax_eq] at h
                    by_cases hlong : f + k + 1 > 256
                    · simp [hlong, pure, Except.pure] at h; subst h; simp at hpos
                    · simp only [hlong, ↓reduceIte] at h
                      obtain ⟨d, post, hfq, hd0, htk, hdr1, hdr0, hklen⟩ :=
                        route_step b b1 f k COLON (by decide) (by decide) hd hhead hs hdv
                      obtain ⟨mbox, tail, hcs, hgt, haddr, hmore, hcases⟩ := addrTail_ref _ _ _ o h hpos
                      rw [hdr1, ← hdr0] at hcs
                      have hrl0 : (0 : Byte) ∉ b.take (f + k + 1) := by
                        rw [htk]
                        simp [h0, hd0, AT, COLON]
                      have hlenr : (b.take (f + k + 1)).length = f + k + 1 := by
                        rw [htk]
                        have hfl : (b.take f).length = f := by
                          have : f ≤ b.length := by
                            apply Decidable.byContradiction; intro hn
                            rw [List.drop_eq_nil_of_le (by omega)] at hhead; simp at hhead
                          rw [List.length_take]; omega
                        rw [List.length_append, hfl, ← hklen]; omega
                      refine ⟨b.take (f + k + 1), mbox, tail, ?_, hgt,
                        Or.inr ⟨rfl, ?_, by omega⟩, ?_, haddr, by rw [hlenr]; exact hmore, hcases⟩
                      · have : b = b.take (f + k + 1) ++ b.drop (f + k + 1) := (List.take_append_drop _ _).symm
                        conv => lhs; rw [this]
                        rw [cstr_append _ _ hrl0, hcs]; simp
                      · rw [htk]; exact hrp _ (RouteOk.last d hfq)
                      · intro _ _ e
                        rw [e] at hlenr; simp at hlenr
                  · simp [hz, pure, Except.pure] at h; subst h; simp at hpos
    · simp only [hroute, ↓reduceIte] at h
      obtain ⟨mbox, tail, hcs, hgt, haddr, hmore, hcases⟩ := addrTail_ref _ _ _ o h hpos
      refine ⟨[], mbox, tail, by simpa using hcs, hgt, Or.inl rfl, ?_, haddr, by simpa using hmore, hcases⟩
      intro hf hh
      rw [hhead0] at hh
      simp at hh
      exact absurd ⟨hf, hh⟩ hroute

theorem apFinish_accept (s : SyntaxOut) (a : List Byte) (calls : List Call) (j : Int)
    (hacc : (apFinish s a calls j).ret = 0 ∨ (apFinish s a calls j).ret = -2) :
    (apFinish s a calls j).addr = s.addr ∧ (apFinish s a calls j).more = s.more := by
  unfold apFinish at hacc ⊢
  split
  · rename_i hj; simp only [hj, ↓reduceIte] at hacc; omega
  · split
    · exact ⟨rfl, rfl⟩
    · exact ⟨rfl, rfl⟩


end QsmtpModel.Addr
