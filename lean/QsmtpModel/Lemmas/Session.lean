import QsmtpModel.Session
import QsmtpModel.Spec.Transaction

namespace QsmtpModel.Session
open QsmtpModel

/-- addresses of the recipients currently marked ok, in order -/
def okAddrs (s : Sess) : List (List Byte) := (s.rcpts.filter (·.ok)).map (·.addr)

/-- inside a mail transaction (after an accepted MAIL FROM) -/
def inTx (s : Sess) : Prop := s.comstate = 0x20 ∨ s.comstate = 0x40

instance (s : Sess) : Decidable (inTx s) := by unfold inTx; infer_instance

/-- invariant of every reachable session state -/
structure Inv (s : Sess) : Prop where
  cs : s.comstate = 1 ∨ s.comstate = 8 ∨ s.comstate = 0x10 ∨ s.comstate = 0x20 ∨ s.comstate = 0x40
  idle : ¬ inTx s → s.mailfrom = [] ∧ s.rcpts = []
  mailOnly : s.comstate = 0x20 → s.rcpts = []
  good : s.goodrcpt = (s.rcpts.filter (·.ok)).length
  cnt : s.rcptcount = s.rcpts.length
  bounceTail : s.mailfrom = [] → ∀ r ∈ s.rcpts.drop 1, r.ok = false

theorem inv_init : Inv {} := by
  constructor <;> simp [inTx]

theorem findRow_spec (l : List Byte) (rows : List Gen.Row) (k i : Nat) (row : Gen.Row)
    (h : findRow l rows k = some (i, row)) : ∃ j, rows[j]? = some row ∧ i = k + j := by
  induction rows generalizing k with
  | nil => simp [findRow] at h
  | cons r rs ih =>
    unfold findRow at h
    split at h
    · simp at h; exact ⟨0, by simp [h.2], by omega⟩
    · obtain ⟨j, hj, hi⟩ := ih (k + 1) h
      exact ⟨j + 1, by simpa using hj, by omega⟩

theorem freedata_cs (s : Sess)
    (h : s.comstate = 1 ∨ s.comstate = 8 ∨ s.comstate = 0x10 ∨ s.comstate = 0x20 ∨ s.comstate = 0x40) :
    (freedata s).comstate = 1 ∨ (freedata s).comstate = 8 ∨ (freedata s).comstate = 0x10 := by
  simp only [freedata]
  rcases h with h | h | h | h | h <;> simp [h] <;> cases s.esmtp <;> simp

theorem freedata_cs_le (s : Sess) (h : s.comstate ≤ 0x10) : (freedata s).comstate = s.comstate := by
  simp only [freedata]; split
  · omega
  · rfl

theorem freedata_not_inTx (s : Sess) (h : Inv s) : ¬ inTx (freedata s) := by
  have := freedata_cs s h.cs
  simp only [inTx]; omega

theorem freedata_inv (s : Sess) (h : Inv s) : Inv (freedata s) := by
  have hc := freedata_cs s h.cs
  constructor
  · omega
  · intro _; simp [freedata]
  · intro _; simp [freedata]
  · simp [freedata]
  · simp [freedata]
  · intro _; simp [freedata]

@[simp] theorem freedata_mailfrom (s : Sess) : (freedata s).mailfrom = [] := rfl
@[simp] theorem freedata_rcpts (s : Sess) : (freedata s).rcpts = [] := rfl
@[simp] theorem freedata_closed (s : Sess) : (freedata s).closed = s.closed := rfl
@[simp] theorem freedata_esmtp (s : Sess) : (freedata s).esmtp = s.esmtp := rfl

end QsmtpModel.Session

namespace QsmtpModel.Session
open QsmtpModel Spec

/-- what an observer learns from one input and its outcome (verb, reply codes, hand-off) -/
def eventsFor (f : Gen.Func) (v : Verdicts) (o : Out) : List Event :=
  match f with
  | .helo | .ehlo => if o.replies = [250] then [.greet] else [.greetFailed]
  | .mail =>
    if o.replies = [250] then
      match v.mail with
      | .ok addr _ _ _ _ => [.mail addr]
      | _ => [.other]
    else [.other]
  | .rcpt =>
    if o.replies = [250] then
      match v.rcpt with
      | .localUser a _ _ _ => [.rcpt a]
      | .remote a _ _ _ => [.rcpt a]
      | _ => [.other]
    else [.rcptRefused]
  | .rset => if o.replies = [250] then [.reset] else [.other]
  | .data =>
    if 354 ∈ o.replies then
      [.dataStarted, match o.handoff with
        | some h => .handoff h.sender h.rcpts
        | none => .dataFailed]
    else [.other]
  | .starttls => if o.replies = [220] then [.tlsStarted] else [.other]
  | _ => [.other]

def eventsOf (inp : Input) (o : Out) : List Event :=
  match inp with
  | .readErr _ => [.other]
  | .line l v =>
    match findRow l Gen.commands 0 with
    | none => [.other]
    | some (_, row) => eventsFor row.func v o

/-- the specification state that belongs to a session state -/
def Rel (s : Sess) (t : Tx) : Prop :=
  t.greeted = decide (s.comstate ≠ 1) ∧ t.sender = (if inTx s then some s.mailfrom else none)
    ∧ t.rcpts = okAddrs s

def FilterV.Wf : FilterV → Prop
  | .accept => True
  | .deny c => c ≠ 250

def RcptV.Wf : RcptV → Prop
  | .localUser _ _ _ f => f.Wf
  | .remote _ _ _ f => f.Wf
  | _ => True

def Input.Wf : Input → Prop
  | .line _ v => v.rcpt.Wf
  | .readErr _ => True

/-- events that leave the specification state possible as it is -/
def Neutral (e : Event) : Prop := e = .other ∨ e = .greetFailed ∨ e = .rcptRefused

theorem neutral_run (t : Tx) (es : List Event) (h : ∀ e ∈ es, Neutral e) : t ∈ txRun [t] es := by
  suffices ∀ ts : List Tx, t ∈ ts → t ∈ txRun ts es from this [t] (by simp)
  induction es with
  | nil => intro ts h'; simpa [txRun] using h'
  | cons e es ih =>
    intro ts hts
    simp only [txRun]
    apply ih (fun e' he' => h e' (List.mem_cons_of_mem _ he'))
    simp only [List.mem_flatMap]
    refine ⟨t, hts, ?_⟩
    rcases h e List.mem_cons_self with rfl | rfl | rfl
    · simp [txStep]
    · simp [txStep]
    · simp only [txStep]
      split <;> simp

end QsmtpModel.Session
