import QsmtpModel.Session
import QsmtpModel.Spec.Transaction

namespace QsmtpModel.Session
open QsmtpModel

/-- addresses of the recipients currently marked ok, in order -/
def okAddrs (s : Sess) : List (List Byte) := (s.rcpts.filter (·.ok)).map (·.addr)

/-- inside a mail transaction (after an accepted MAIL FROM) -/
def inTx (s : Sess) : Prop := s.comstate = 0x20 ∨ s.comstate = 0x40

instance (s : Sess) : Decidable (inTx s) := by unfold inTx; infer_instance

/-- invariant of every reachable session state -/
structure Inv (s : Sess) : Prop where
  cs : s.comstate = 1 ∨ s.comstate = 8 ∨ s.comstate = 0x10 ∨ s.comstate = 0x20 ∨ s.comstate = 0x40
  idle : ¬ inTx s → s.mailfrom = [] ∧ s.rcpts = []
  mailOnly : s.comstate = 0x20 → s.rcpts = []
  good : s.goodrcpt = (s.rcpts.filter (·.ok)).length
  cnt : s.rcptcount = s.rcpts.length
  bounceTail : s.mailfrom = [] → ∀ r ∈ s.rcpts.drop 1, r.ok = false

theorem inv_init : Inv {} := by
  constructor <;> simp [inTx]

theorem findRow_spec (l : List Byte) (rows : List Gen.Row) (k i : Nat) (row : Gen.Row)
    (h : findRow l rows k = some (i, row)) : ∃ j, rows[j]? = some row ∧ i = k + j := by
  induction rows generalizing k with
  | nil => simp [findRow] at h
  | cons r rs ih =>
    unfold findRow at h
    split at h
    · simp at h; exact ⟨0, by simp [h.2], by omega⟩
    · obtain ⟨j, hj, hi⟩ := ih (k + 1) h
      exact ⟨j + 1, by simpa using hj, by omega⟩

theorem freedata_cs (s : Sess)
    (h : s.comstate = 1 ∨ s.comstate = 8 ∨ s.comstate = 0x10 ∨ s.comstate = 0x20 ∨ s.comstate = 0x40) :
    (freedata s).comstate = 1 ∨ (freedata s).comstate = 8 ∨ (freedata s).comstate = 0x10 := by
  simp only [freedata]
  rcases h with h | h | h | h | h <;> simp [h] <;> cases s.esmtp <;> simp

theorem freedata_cs_le (s : Sess) (h : s.comstate ≤ 0x10) : (freedata s).comstate = s.comstate := by
  simp only [freedata]; split
  · omega
  · rfl

theorem freedata_not_inTx (s : Sess) (h : Inv s) : ¬ inTx (freedata s) := by
  have := freedata_cs s h.cs
  simp only [inTx]; omega

theorem freedata_inv (s : Sess) (h : Inv s) : Inv (freedata s) := by
  have hc := freedata_cs s h.cs
  constructor
  · omega
  · intro _; simp [freedata]
  · intro _; simp [freedata]
  · simp [freedata]
  · simp [freedata]
  · intro _; simp [freedata]

@[simp] theorem freedata_mailfrom (s : Sess) : (freedata s).mailfrom = [] := rfl
@[simp] theorem freedata_rcpts (s : Sess) : (freedata s).rcpts = [] := rfl
@[simp] theorem freedata_closed (s : Sess) : (freedata s).closed = s.closed := rfl
@[simp] theorem freedata_esmtp (s : Sess) : (freedata s).esmtp = s.esmtp := rfl

end QsmtpModel.Session

namespace QsmtpModel.Session
open QsmtpModel Spec

/-- what an observer learns from one input and its outcome (verb, reply codes, hand-off) -/
def eventsFor (f : Gen.Func) (v : Verdicts) (o : Out) : List Event :=
  match f with
  | .helo | .ehlo => if o.replies = [250] then [.greet] else [.greetFailed]
  | .mail =>
    if o.replies = [250] then
      match v.mail with
      | .ok addr _ _ _ _ => [.mail addr]
      | _ => [.other]
    else [.other]
  | .rcpt =>
    if o.replies = [250] then
      match v.rcpt with
      | .localUser a _ _ _ => [.rcpt a]
      | .remote a _ _ _ => [.rcpt a]
      | _ => [.other]
    else [.rcptRefused]
  | .rset => if o.replies = [250] then [.reset] else [.other]
  | .data =>
    if 354 ∈ o.replies then
      [.dataStarted, match o.handoff with
        | some h => .handoff h.sender h.rcpts
        | none => .dataFailed]
    else [.dataRefused]
  | .starttls => if o.replies = [220] then [.tlsStarted] else [.other]
  | _ => [.other]

def eventsOf (inp : Input) (o : Out) : List Event :=
  match inp with
  | .readErr _ => [.other]
  | .line l v =>
    match findRow l Gen.commands 0 with
    | none => [.other]
    | some (_, row) => eventsFor row.func v o

/-- the specification state that belongs to a session state -/
def Rel (s : Sess) (t : Tx) : Prop :=
  t.greeted = decide (s.comstate ≠ 1) ∧ t.sender = (if inTx s then some s.mailfrom else none)
    ∧ t.rcpts = okAddrs s

def FilterV.Wf : FilterV → Prop
  | .accept => True
  | .deny c => c ≠ 250

def RcptV.Wf : RcptV → Prop
  | .localUser _ _ _ f => f.Wf
  | .remote _ _ _ f => f.Wf
  | _ => True

def Input.Wf : Input → Prop
  | .line _ v => v.rcpt.Wf
  | .readErr _ => True

/-- events that leave the specification state possible as it is -/
def Neutral (e : Event) : Prop := e = .other ∨ e = .greetFailed ∨ e = .rcptRefused ∨ e = .dataRefused

theorem neutral_run (t : Tx) (es : List Event) (h : ∀ e ∈ es, Neutral e) : t ∈ txRun [t] es := by
  suffices ∀ ts : List Tx, t ∈ ts → t ∈ txRun ts es from this [t] (by simp)
  induction es with
  | nil => intro ts h'; simpa [txRun] using h'
  | cons e es ih =>
    intro ts hts
    simp only [txRun]
    apply ih (fun e' he' => h e' (List.mem_cons_of_mem _ he'))
    simp only [List.mem_flatMap]
    refine ⟨t, hts, ?_⟩
    rcases h e List.mem_cons_self with rfl | rfl | rfl | rfl
    · simp [txStep]
    · simp [txStep]
    · simp only [txStep]
      split <;> simp
    · simp [txStep]

end QsmtpModel.Session

-- ---------------------------------------------------------------------------------------------
-- refinement of the transaction specification by the command loop
namespace QsmtpModel.Session
open QsmtpModel Spec

def SameTx (s s' : Sess) : Prop := s'.comstate = s.comstate ∧ s'.mailfrom = s.mailfrom ∧ s'.rcpts = s.rcpts
  ∧ s'.goodrcpt = s.goodrcpt ∧ s'.rcptcount = s.rcptcount

theorem sameTx_inv (s s' : Sess) (h : SameTx s s') (hI : Inv s) : Inv s' := by
  obtain ⟨h1, h2, h3, h4, h5⟩ := h
  constructor
  · rw [h1]; exact hI.cs
  · intro hn; rw [h2, h3]; exact hI.idle (by simpa [inTx, h1] using hn)
  · intro hc; rw [h3]; exact hI.mailOnly (by rw [← h1]; exact hc)
  · rw [h4, h3]; exact hI.good
  · rw [h5, h3]; exact hI.cnt
  · intro hm; rw [h3]; exact hI.bounceTail (by rw [← h2]; exact hm)

theorem sameTx_rel (s s' : Sess) (t : Tx) (h : SameTx s s') (hR : Rel s t) : Rel s' t := by
  obtain ⟨h1, h2, h3, _, _⟩ := h
  obtain ⟨r1, r2, r3⟩ := hR
  refine ⟨by rw [r1, h1], ?_, by rw [r3]; simp [okAddrs, h3]⟩
  rw [r2]; simp [inTx, h1, h2]

theorem handleError_spec (rc : Rc) (s : Sess) (hI : Inv s) :
    Inv (handleError rc s).2 ∧ ((handleError rc s).2.closed = true
        ∨ (SameTx s (handleError rc s).2 ∧ (handleError rc s).2.closed = s.closed))
      ∧ ((handleError rc s).1 = [550] ∨ (handleError rc s).1 = (errReply rc).toList) := by
  unfold handleError
  split
  · refine ⟨?_, Or.inl rfl, Or.inl rfl⟩
    have := freedata_inv { s with badcmds := s.badcmds + 1 } (sameTx_inv s _ ⟨rfl, rfl, rfl, rfl, rfl⟩ hI)
    exact sameTx_inv (freedata { s with badcmds := s.badcmds + 1 }) _ ⟨rfl, rfl, rfl, rfl, rfl⟩ this
  · refine ⟨?_, Or.inr ?_, Or.inr rfl⟩
    · apply sameTx_inv s _ _ hI
      split <;> exact ⟨rfl, rfl, rfl, rfl, rfl⟩
    · split <;> exact ⟨⟨rfl, rfl, rfl, rfl, rfl⟩, rfl⟩

end QsmtpModel.Session

namespace QsmtpModel.Session
open QsmtpModel Spec

/-- the goal of one step: invariant kept and the observation is allowed by the specification -/
def StepGoal (t : Tx) (es : List Event) (s' : Sess) : Prop :=
  (s'.closed = true ∨ Inv s') ∧ ∃ t' ∈ txRun [t] es, (s'.closed = true ∨ Rel s' t')

theorem goal_neutral (s s' : Sess) (t : Tx) (es : List Event) (hI : Inv s')
    (hR : s.closed = true ∨ Rel s t) (hs : s'.closed = true ∨ (SameTx s s' ∧ s'.closed = s.closed))
    (hn : ∀ e ∈ es, Neutral e) : StepGoal t es s' := by
  refine ⟨Or.inr hI, t, neutral_run t es hn, ?_⟩
  rcases hs with hs | ⟨hs, hc⟩
  · exact Or.inl hs
  · rcases hR with hR | hR
    · exact Or.inl (by rw [hc]; exact hR)
    · exact Or.inr (sameTx_rel s s' t hs hR)

theorem errOut_goal (rc : Rc) (s : Sess) (t : Tx) (es : List Event) (hI : Inv s)
    (hR : s.closed = true ∨ Rel s t) (hn : ∀ e ∈ es, Neutral e) : StepGoal t es (errOut rc s).2 := by
  obtain ⟨h1, h2, _⟩ := handleError_spec rc s hI
  unfold errOut
  exact goal_neutral s _ t es h1 hR h2 hn

end QsmtpModel.Session

namespace QsmtpModel.Session
open QsmtpModel Spec

/-- reply lists that can never be mistaken for an acceptance -/
def ErrReplies (l : List Nat) : Prop :=
  l = [] ∨ l = [550] ∨ l = [500] ∨ l = [501] ∨ l = [503] ∨ l = [552] ∨ l = [451] ∨ l = [452]

theorem events_neutral_of_err (f : Gen.Func) (v : Verdicts) (o : Out) (h : ErrReplies o.replies) :
    ∀ e ∈ eventsFor f v o, Neutral e := by
  intro e he
  unfold eventsFor at he
  rcases h with h | h | h | h | h | h | h | h <;> cases f <;> simp [h] at he <;> subst he <;> simp [Neutral]

theorem errReplies_dispatch (rc : Rc) (s : Sess) (h : rc = .einval ∨ rc = .e2big ∨ rc = .badseq) (hI : Inv s) :
    ErrReplies (errOut rc s).1.replies := by
  obtain ⟨_, _, h3⟩ := handleError_spec rc s hI
  unfold errOut
  simp only
  rcases h3 with h3 | h3
  · rw [h3]; simp [ErrReplies]
  · rw [h3]; rcases h with rfl | rfl | rfl <;> simp [errReply, ErrReplies]

end QsmtpModel.Session

namespace QsmtpModel.Session
open QsmtpModel Spec

theorem closed_goal (s : Sess) (t : Tx) (es : List Event) (hc : s.closed = true)
    (hn : ∀ e ∈ es, Neutral e) : StepGoal t es s :=
  ⟨Or.inl hc, t, neutral_run t es hn, Or.inl hc⟩

theorem events_neutral_nil (f : Gen.Func) (v : Verdicts) : ∀ e ∈ eventsFor f v { replies := [] }, Neutral e :=
  events_neutral_of_err f v _ (Or.inl rfl)

/-- Rel for states outside a transaction -/
theorem rel_idle (s : Sess) (g : Bool) (h1 : ¬ inTx s) (h2 : s.rcpts = []) (hg : g = decide (s.comstate ≠ 1)) :
    Rel s { greeted := g, sender := none, rcpts := [] } := by
  refine ⟨hg, by simp [h1], by simp [okAddrs, h2]⟩

theorem rel_not_closed (s : Sess) (t : Tx) (hR : s.closed = true ∨ Rel s t) (hc : ¬ s.closed = true) : Rel s t := by
  rcases hR with h | h
  · exact absurd h hc
  · exact h

end QsmtpModel.Session

namespace QsmtpModel.Session
open QsmtpModel Spec

theorem handleError_spec' (rc : Rc) (s : Sess) :
    (handleError rc s).1 = [550] ∨ (handleError rc s).1 = (errReply rc).toList := by
  unfold handleError
  split
  · left; rfl
  · right; rfl

theorem finish_err_state (rowState : Int) (i : Nat) (r : FuncRes) (hrc : r.rc ≠ .ok) :
    (finishStep rowState i r).2 = (handleError r.rc r.s).2
      ∧ ((finishStep rowState i r).1 = { replies := r.replies ++ [550] }
         ∨ (finishStep rowState i r).1 = { replies := r.replies ++ (errReply r.rc).toList }) := by
  unfold finishStep
  rw [if_neg hrc]
  refine ⟨rfl, ?_⟩
  rcases (handleError_spec' r.rc r.s) with h | h
  · left; simp [h]
  · right; simp [h]

theorem finish_err_goal (rowState : Int) (i : Nat) (r : FuncRes) (t t' : Tx) (es : List Event)
    (hrc : r.rc ≠ .ok) (hI : Inv r.s) (hR : r.s.closed = true ∨ Rel r.s t') (ht : t' ∈ txRun [t] es) :
    StepGoal t es (finishStep rowState i r).2 := by
  rw [(finish_err_state rowState i r hrc).1]
  obtain ⟨h1, h2, _⟩ := handleError_spec r.rc r.s hI
  refine ⟨Or.inr h1, t', ht, ?_⟩
  rcases h2 with h2 | ⟨h2, hc⟩
  · exact Or.inl h2
  · rcases hR with hR | hR
    · exact Or.inl (by rw [hc]; exact hR)
    · exact Or.inr (sameTx_rel _ _ t' h2 hR)

end QsmtpModel.Session

namespace QsmtpModel.Session
open QsmtpModel Spec

theorem commands_get (j : Nat) (row : Gen.Row) (h : Gen.commands[j]? = some row) :
    (j = 0 ∧ row = ⟨[78, 79, 79, 80], 0xffff, .noop, -1, 0⟩) ∨
    (j = 1 ∧ row = ⟨[81, 85, 73, 84], 0xfffd, .quit, 0, 0⟩) ∨
    (j = 2 ∧ row = ⟨[82, 83, 69, 84], 0xfffd, .rset, 1, 0⟩) ∨
    (j = 3 ∧ row = ⟨[72, 69, 76, 79], 0xfffd, .helo, 0, 5⟩) ∨
    (j = 4 ∧ row = ⟨[69, 72, 76, 79], 0xfffd, .ehlo, 0, 5⟩) ∨
    (j = 5 ∧ row = ⟨[77, 65, 73, 76, 32, 70, 82, 79, 77, 58], 0x18, .mail, 0, 3⟩) ∨
    (j = 6 ∧ row = ⟨[82, 67, 80, 84, 32, 84, 79, 58], 0x60, .rcpt, 0, 1⟩) ∨
    (j = 7 ∧ row = ⟨[68, 65, 84, 65], 0x40, .data, 16, 0⟩) ∨
    (j = 8 ∧ row = ⟨[83, 84, 65, 82, 84, 84, 76, 83], 0x10, .starttls, 1, 0⟩) ∨
    (j = 9 ∧ row = ⟨[65, 85, 84, 72], 0x10, .auth, -1, 5⟩) ∨
    (j = 10 ∧ row = ⟨[86, 82, 70, 89], 0xffff, .vrfy, -1, 5⟩) ∨
    (j = 11 ∧ row = ⟨[80, 79, 83, 84], 0xffff, .post, -1, 1⟩) := by
  match j, h with
  | 0, h => simp [Gen.commands] at h; simp [← h]
  | 1, h => simp [Gen.commands] at h; simp [← h]
  | 2, h => simp [Gen.commands] at h; simp [← h]
  | 3, h => simp [Gen.commands] at h; simp [← h]
  | 4, h => simp [Gen.commands] at h; simp [← h]
  | 5, h => simp [Gen.commands] at h; simp [← h]
  | 6, h => simp [Gen.commands] at h; simp [← h]
  | 7, h => simp [Gen.commands] at h; simp [← h]
  | 8, h => simp [Gen.commands] at h; simp [← h]
  | 9, h => simp [Gen.commands] at h; simp [← h]
  | 10, h => simp [Gen.commands] at h; simp [← h]
  | 11, h => simp [Gen.commands] at h; simp [← h]
  | n + 12, h => simp [Gen.commands] at h

end QsmtpModel.Session

namespace QsmtpModel.Session
open QsmtpModel Spec

/-- success path of finishStep, spelled out -/
theorem finish_ok (rowState : Int) (i : Nat) (r : FuncRes) (h : r.rc = .ok) :
    finishStep rowState i r =
      ({ replies := r.replies, handoff := r.handoff },
       { r.s with comstate := newState rowState i r, badcmds := 0 }) := by
  unfold finishStep; rw [if_pos h]

/-- a command that succeeded without touching the transaction and without changing the state -/
theorem goal_keep (s s1 : Sess) (t : Tx) (es : List Event) (hI : Inv s) (hR : Rel s t)
    (hs : SameTx s s1) (hn : ∀ e ∈ es, Neutral e) :
    StepGoal t es { s1 with comstate := s1.comstate, badcmds := 0 } := by
  have h2 : SameTx s { s1 with comstate := s1.comstate, badcmds := 0 } := hs
  exact ⟨Or.inr (sameTx_inv _ _ h2 hI), t, neutral_run t es hn, Or.inr (sameTx_rel _ _ t h2 hR)⟩

end QsmtpModel.Session

namespace QsmtpModel.Session
open QsmtpModel Spec

theorem newState_neg (i : Nat) (r : FuncRes) (h : r.stateOverride = none) : newState (-1) i r = r.s.comstate := by
  simp [newState, h]

theorem goal_noop (env : Env) (v : Verdicts) (s : Sess) (t : Tx) (l : List Byte) (i : Nat) (hI : Inv s) (hR : Rel s t)
    (f : Gen.Func) (hf : f = .noop ∨ f = .vrfy) :
    StepGoal t (eventsFor f v (finishStep (-1) i (runFunc env v f s l)).1)
      (finishStep (-1) i (runFunc env v f s l)).2 := by
  rcases hf with rfl | rfl
  all_goals
    simp only [runFunc]
    rw [finish_ok _ _ _ rfl]
    simp only [newState, gt_iff_lt]
    exact goal_keep s s t _ hI hR ⟨rfl, rfl, rfl, rfl, rfl⟩ (by simp [eventsFor, Neutral])

theorem goal_quit (env : Env) (v : Verdicts) (s : Sess) (t : Tx) (l : List Byte) (i : Nat) :
    StepGoal t (eventsFor .quit v (finishStep 0 i (runFunc env v .quit s l)).1)
      (finishStep 0 i (runFunc env v .quit s l)).2 := by
  simp only [runFunc]
  rw [finish_ok _ _ _ rfl]
  exact ⟨Or.inl rfl, t, neutral_run t _ (by simp [eventsFor, Neutral]), Or.inl rfl⟩

end QsmtpModel.Session

namespace QsmtpModel.Session
open QsmtpModel Spec

theorem other_run (t : Tx) : t ∈ txRun [t] [.other] := neutral_run t _ (by simp [Neutral])

theorem goal_same (s s' : Sess) (t : Tx) (es : List Event) (hI : Inv s) (hR : Rel s t)
    (hs : SameTx s s') (hn : ∀ e ∈ es, Neutral e) : StepGoal t es s' :=
  ⟨Or.inr (sameTx_inv _ _ hs hI), t, neutral_run t es hn, Or.inr (sameTx_rel _ _ t hs hR)⟩

theorem goal_post (env : Env) (v : Verdicts) (s : Sess) (t : Tx) (l : List Byte) (i : Nat) (hI : Inv s) (hR : Rel s t) :
    StepGoal t (eventsFor .post v (finishStep (-1) i (runFunc env v .post s l)).1)
      (finishStep (-1) i (runFunc env v .post s l)).2 := by
  simp only [runFunc]
  split
  · rw [finish_ok _ _ _ rfl]
    exact ⟨Or.inl rfl, t, neutral_run t _ (by simp [eventsFor, Neutral]), Or.inl rfl⟩
  · exact finish_err_goal _ _ _ t t _ (by simp) hI (Or.inr hR) (by simp only [eventsFor]; exact other_run t)

theorem goal_auth (env : Env) (v : Verdicts) (s : Sess) (t : Tx) (l : List Byte) (i : Nat) (hI : Inv s) (hR : Rel s t) :
    StepGoal t (eventsFor .auth v (finishStep (-1) i (runFunc env v .auth s l)).1)
      (finishStep (-1) i (runFunc env v .auth s l)).2 := by
  simp only [runFunc, smtpAuth]
  split
  · exact finish_err_goal _ _ _ t t _ (by simp) hI (Or.inr hR) (by simp only [eventsFor]; exact other_run t)
  split
  · rw [finish_ok _ _ _ rfl]
    refine goal_same s _ t _ hI hR ?_ ?_ <;> simp [SameTx, newState, eventsFor, Neutral]
  · rename_i code rc _
    by_cases hrc : rc = .ok
    · subst hrc
      rw [finish_ok _ _ _ rfl]
      refine goal_same s _ t _ hI hR ?_ ?_ <;> simp [SameTx, newState, eventsFor, Neutral]
    · exact finish_err_goal _ _ _ t t _ hrc hI (Or.inr hR) (by simp only [eventsFor]; exact other_run t)

end QsmtpModel.Session

namespace QsmtpModel.Session
open QsmtpModel Spec

theorem inv_idle (s : Sess) (hcs : s.comstate = 1 ∨ s.comstate = 8 ∨ s.comstate = 0x10)
    (hm : s.mailfrom = []) (hr : s.rcpts = []) (hg : s.goodrcpt = 0) (hc : s.rcptcount = 0) : Inv s := by
  constructor
  · omega
  · intro _; exact ⟨hm, hr⟩
  · intro _; exact hr
  · simp [hg, hr]
  · simp [hc, hr]
  · intro _; simp [hr]

theorem not_inTx_of (s : Sess) (hcs : s.comstate = 1 ∨ s.comstate = 8 ∨ s.comstate = 0x10) : ¬ inTx s := by
  simp only [inTx]; omega

theorem mk_goal (t t' : Tx) (es : List Event) (s' : Sess) (hI : Inv s') (ht : t' ∈ txRun [t] es)
    (hR : Rel s' t') : StepGoal t es s' := ⟨Or.inr hI, t', ht, Or.inr hR⟩

theorem afterHelo_cases (s : Sess) : afterHelo s = 8 ∨ afterHelo s = 0x10 := by
  unfold afterHelo; cases s.esmtp <;> simp

theorem goal_rset (env : Env) (v : Verdicts) (s : Sess) (t : Tx) (l : List Byte) (hI : Inv s) (hR : Rel s t) :
    StepGoal t (eventsFor .rset v (finishStep 1 2 (runFunc env v .rset s l)).1)
      (finishStep 1 2 (runFunc env v .rset s l)).2 := by
  simp only [runFunc, smtpRset]
  obtain ⟨r1, r2, r3⟩ := hR
  split
  · rename_i hge
    rw [finish_ok _ _ _ rfl]
    have hah := afterHelo_cases s
    have hns : newState 1 2 { replies := [250], rc := .ok, s := freedata s, stateOverride := some (afterHelo s) }
        = afterHelo s := by
      simp only [newState]; rcases hah with h | h <;> simp [h]
    rw [hns]
    apply mk_goal t { t with sender := none, rcpts := [] }
    · exact inv_idle _ (by simp; omega) rfl rfl rfl rfl
    · simp [eventsFor, txRun, txStep]
    · refine rel_idle _ t.greeted ?_ ?_ ?_
      · exact not_inTx_of _ (by simp; omega)
      · rfl
      · simp only [r1]; have := hI.cs; rcases hah with h | h <;> simp [h] <;> omega
  · rename_i hlt
    rw [finish_ok _ _ _ rfl]
    have hc1 : s.comstate = 1 := by have := hI.cs; omega
    have hnt : ¬ inTx s := not_inTx_of s (Or.inl hc1)
    obtain ⟨hm, hr⟩ := hI.idle hnt
    apply mk_goal t { t with sender := none, rcpts := [] }
    · exact inv_idle _ (by simp [newState]) hm hr (by simp [hI.good, hr]) (by simp [hI.cnt, hr])
    · simp [eventsFor, txRun, txStep]
    · refine rel_idle _ t.greeted ?_ ?_ ?_
      · exact not_inTx_of _ (by simp [newState])
      · exact hr
      · simp [r1, hc1, newState]

end QsmtpModel.Session

namespace QsmtpModel.Session
open QsmtpModel Spec

theorem freedata_cs_one (s : Sess) (h : Inv s) : (freedata s).comstate = 1 ↔ s.comstate = 1 := by
  have := h.cs
  simp only [freedata]
  rcases this with h | h | h | h | h <;> simp [h] <;> cases s.esmtp <;> simp

theorem err_replies_ne (r : FuncRes) (rowState : Int) (i : Nat) (hrc : r.rc ≠ .ok) (bad : List Nat)
    (h1 : r.replies ++ [550] ≠ bad) (h2 : r.replies ++ (errReply r.rc).toList ≠ bad) :
    (finishStep rowState i r).1.replies ≠ bad := by
  rcases (finish_err_state rowState i r hrc).2 with h | h <;> rw [h] <;> assumption

theorem goal_helo (env : Env) (v : Verdicts) (s : Sess) (t : Tx) (l : List Byte) (hI : Inv s) (hR : Rel s t) :
    StepGoal t (eventsFor .helo v (finishStep 0 3 (runFunc env v .helo s l)).1)
      (finishStep 0 3 (runFunc env v .helo s l)).2 := by
  simp only [runFunc, smtpHelo]
  obtain ⟨r1, r2, r3⟩ := hR
  have hfi := freedata_inv s hI
  have hI1 : Inv { freedata s with esmtp := false } := sameTx_inv (freedata s) _ ⟨rfl, rfl, rfl, rfl, rfl⟩ hfi
  have hnt : ¬ inTx { freedata s with esmtp := false } := freedata_not_inTx s hI
  have hg : t.greeted = decide ((freedata s).comstate ≠ 1) := by
    rw [r1]; simp [freedata_cs_one s hI]
  split
  · -- syntax error: the transaction is gone, the state is the one after the previous greeting
    have hne := err_replies_ne { replies := [], rc := .einval, s := { freedata s with esmtp := false } } 0 3
      (by simp) [250] (by simp) (by simp [errReply])
    apply finish_err_goal _ _ _ t { t with sender := none, rcpts := [] } _ (by simp) hI1
    · exact Or.inr (rel_idle _ t.greeted hnt rfl hg)
    · simp only [eventsFor, if_neg hne]
      simp [txRun, txStep]
  · rw [finish_ok _ _ _ rfl]
    apply mk_goal t { greeted := true, sender := none, rcpts := [] }
    · exact inv_idle _ (by simp [newState]) rfl rfl rfl rfl
    · simp [eventsFor, txRun, txStep]
    · exact rel_idle _ true (not_inTx_of _ (by simp [newState])) rfl (by simp [newState])

theorem goal_ehlo (env : Env) (v : Verdicts) (s : Sess) (t : Tx) (l : List Byte) (hI : Inv s) (hR : Rel s t) :
    StepGoal t (eventsFor .ehlo v (finishStep 0 4 (runFunc env v .ehlo s l)).1)
      (finishStep 0 4 (runFunc env v .ehlo s l)).2 := by
  simp only [runFunc, smtpEhlo]
  split
  · have hne := err_replies_ne { replies := [], rc := .einval, s := s } 0 4 (by simp) [250] (by simp) (by simp [errReply])
    apply finish_err_goal _ _ _ t t _ (by simp) hI (Or.inr hR)
    simp only [eventsFor, if_neg hne]
    simp [txRun, txStep]
  · rw [finish_ok _ _ _ rfl]
    apply mk_goal t { greeted := true, sender := none, rcpts := [] }
    · exact inv_idle _ (by simp [newState]) rfl rfl rfl rfl
    · simp [eventsFor, txRun, txStep]
    · exact rel_idle _ true (not_inTx_of _ (by simp [newState])) rfl (by simp [newState])

end QsmtpModel.Session

namespace QsmtpModel.Session
open QsmtpModel Spec

theorem goal_starttls (env : Env) (v : Verdicts) (s : Sess) (t : Tx) (l : List Byte) (hI : Inv s) (hR : Rel s t)
    (hcs : s.comstate = 0x10) :
    StepGoal t (eventsFor .starttls v (finishStep 1 8 (runFunc env v .starttls s l)).1)
      (finishStep 1 8 (runFunc env v .starttls s l)).2 := by
  simp only [runFunc, smtpStarttls]
  have hnt : ¬ inTx s := not_inTx_of s (by omega)
  obtain ⟨hm, hr⟩ := hI.idle hnt
  split
  · have hne := err_replies_ne { replies := [], rc := .badseq, s := s } 1 8 (by simp) [220] (by simp) (by simp [errReply])
    apply finish_err_goal _ _ _ t t _ (by simp) hI (Or.inr hR)
    simp only [eventsFor, if_neg hne]; exact other_run t
  · split
    · rename_i code _
      have hne := err_replies_ne { replies := [code], rc := .other 500, s := s } 1 8 (by simp) [220] (by simp) (by simp [errReply])
      apply finish_err_goal _ _ _ t t _ (by simp) hI (Or.inr hR)
      simp only [eventsFor, if_neg hne]; exact other_run t
    · have hne := err_replies_ne { replies := [220, 454], rc := .edone, s := s } 1 8 (by simp) [220] (by simp) (by simp [errReply])
      apply finish_err_goal _ _ _ t t _ (by simp) hI (Or.inr hR)
      simp only [eventsFor, if_neg hne]; exact other_run t
    · rw [finish_ok _ _ _ rfl]
      apply mk_goal t { greeted := false, sender := none, rcpts := [] }
      · exact inv_idle _ (by simp [newState]) hm hr (by simp [hI.good, hr]) (by simp [hI.cnt, hr])
      · simp [eventsFor, txRun, txStep]
      · exact rel_idle _ false (not_inTx_of _ (by simp [newState])) hr (by simp [newState])

end QsmtpModel.Session

namespace QsmtpModel.Session
open QsmtpModel Spec

/-- the relay decision only ever touches the cached relay flag and the client-certificate flag -/
theorem isAuthenticated_same (env : Env) (s : Sess) :
    (isAuthenticated env s).2.comstate = s.comstate ∧ (isAuthenticated env s).2.mailfrom = s.mailfrom
    ∧ (isAuthenticated env s).2.rcpts = s.rcpts ∧ (isAuthenticated env s).2.goodrcpt = s.goodrcpt
    ∧ (isAuthenticated env s).2.rcptcount = s.rcptcount ∧ (isAuthenticated env s).2.closed = s.closed
    ∧ (isAuthenticated env s).2.esmtp = s.esmtp := by
  unfold isAuthenticated
  split
  · simp
  · cases env.relayIp <;> cases env.tlsVerify <;> simp <;> (repeat' split) <;> simp

end QsmtpModel.Session

namespace QsmtpModel.Session
open QsmtpModel Spec

/-- frame of a function result relative to a state: only the listed transaction fields matter -/
def Frame (s : Sess) (r : FuncRes) : Prop :=
  r.s.comstate = s.comstate ∧ r.s.rcpts = s.rcpts ∧ r.s.rcptcount = s.rcptcount ∧ r.s.closed = s.closed
    ∧ r.stateOverride = none ∧ r.handoff = none

theorem gate_spec (env : Env) (s : Sess) :
    (submissionGate env s).2.comstate = s.comstate ∧ (submissionGate env s).2.mailfrom = s.mailfrom
    ∧ (submissionGate env s).2.rcpts = s.rcpts ∧ (submissionGate env s).2.goodrcpt = s.goodrcpt
    ∧ (submissionGate env s).2.rcptcount = s.rcptcount ∧ (submissionGate env s).2.closed = s.closed
    ∧ (∀ r, (submissionGate env s).1 = some r → r.s = (submissionGate env s).2 ∧ r.rc = .edone
          ∧ (r.replies = [421] ∨ r.replies = [550]) ∧ r.stateOverride = none ∧ r.handoff = none) := by
  have ha := isAuthenticated_same env s
  unfold submissionGate
  split
  · generalize isAuthenticated env s = p at ha
    obtain ⟨o, s'⟩ := p
    simp only at ha
    match o with
    | none => simp [ha]
    | some false => simp [ha]
    | some true => simp [ha]
  · simp

theorem fromInner_cases (env : Env) (v : MailV) (s : Sess) :
    Frame s (smtpFromInner env v s) ∧
    ((smtpFromInner env v s).rc = .ok ∧ (∃ addr sz p ll vl, v = .ok addr sz p ll vl ∧ (smtpFromInner env v s).s.mailfrom = addr)
        ∧ (smtpFromInner env v s).replies = [250] ∧ (smtpFromInner env v s).s.goodrcpt = 0
     ∨ (smtpFromInner env v s).rc ≠ .ok ∧ (smtpFromInner env v s).s.mailfrom = s.mailfrom
        ∧ (smtpFromInner env v s).s.goodrcpt = s.goodrcpt
        ∧ (smtpFromInner env v s).replies ++ [550] ≠ [250]
        ∧ (smtpFromInner env v s).replies ++ (errReply (smtpFromInner env v s).rc).toList ≠ [250]) := by
  unfold smtpFromInner
  cases v with
  | noBracket => simp [Frame, errReply]
  | badAddr => simp [Frame, errReply]
  | noSuchUser => simp [Frame, errReply]
  | paramSyntax => simp [Frame, errReply]
  | paramUnknown => simp only; split <;> simp [Frame, errReply]
  | ok addr sz p ll vl =>
    simp only
    split
    · simp [Frame, errReply]
    · split
      · simp [Frame, errReply]
      · split
        · simp [Frame, errReply]
        · simp [Frame]

end QsmtpModel.Session

namespace QsmtpModel.Session
open QsmtpModel Spec

theorem events_mail_err (v : Verdicts) (o : Out) (h : o.replies ≠ [250]) : eventsFor .mail v o = [.other] := by
  simp [eventsFor, h]

theorem goal_mail (env : Env) (v : Verdicts) (s : Sess) (t : Tx) (l : List Byte) (hI : Inv s) (hR : Rel s t)
    (hcs : s.comstate = 8 ∨ s.comstate = 0x10) :
    StepGoal t (eventsFor .mail v (finishStep 0 5 (runFunc env v .mail s l)).1)
      (finishStep 0 5 (runFunc env v .mail s l)).2 := by
  have hnt : ¬ inTx s := not_inTx_of s (by omega)
  obtain ⟨hm, hr⟩ := hI.idle hnt
  obtain ⟨r1, r2, r3⟩ := hR
  have hs1 : SameTx s { s with mailfrom := [] } := ⟨rfl, by simp [hm], rfl, rfl, rfl⟩
  have hg := gate_spec env { s with mailfrom := [] }
  -- an error result whose state is, transaction-wise, the old one
  have errcase : ∀ r : FuncRes, r.rc ≠ .ok → SameTx s r.s → r.s.closed = s.closed →
      r.replies ++ [550] ≠ [250] → r.replies ++ (errReply r.rc).toList ≠ [250] →
      StepGoal t (eventsFor .mail v (finishStep 0 5 r).1) (finishStep 0 5 r).2 := by
    intro r hrc hs hc h1 h2
    have hne := err_replies_ne r 0 5 hrc [250] h1 h2
    rw [events_mail_err v _ hne]
    exact finish_err_goal _ _ _ t t _ hrc (sameTx_inv _ _ hs hI) (Or.inr (sameTx_rel _ _ t hs ⟨r1, r2, r3⟩)) (other_run t)
  simp only [runFunc, smtpFrom]
  split
  · exact errcase _ (by simp) hs1 rfl (by simp) (by simp [errReply])
  · split
    · rename_i r _ hgate
      obtain ⟨g1, g2, g3, g4, g5, g6, g7⟩ := hg
      obtain ⟨e1, e2, e3, e4, e5⟩ := g7 r (by rw [hgate])
      refine errcase r (by rw [e2]; simp) ?_ (by rw [e1, g6]) ?_ ?_
      · rw [e1]; exact ⟨g1, by rw [g2]; simp [hm], g3, g4, g5⟩
      · rcases e3 with e3 | e3 <;> simp [e3]
      · rcases e3 with e3 | e3 <;> simp [e3, e2, errReply]
    · rename_i s' hgate
      obtain ⟨g1, g2, g3, g4, g5, g6, _⟩ := hg
      rw [hgate] at g1 g2 g3 g4 g5 g6
      simp only at g1 g2 g3 g4 g5 g6
      obtain ⟨⟨f1, f2, f3, f4, f5, f6⟩, hcase⟩ := fromInner_cases env v.mail s'
      rcases hcase with ⟨hok, ⟨addr, sz, p, ll, vl, hv, hmf⟩, hrep, hgood⟩ | ⟨hrc, hmf, hgood, h1, h2⟩
      · rw [finish_ok _ _ _ hok]
        have hns : newState 0 5 (smtpFromInner env v.mail s') = 0x20 := by simp [newState, f5]
        rw [hns]
        apply mk_goal t { t with sender := some addr, rcpts := [] }
        · constructor
          · simp
          · intro h; exact absurd (Or.inl rfl) h
          · intro _; simp [f2, g3, hr]
          · simp [hgood, f2, g3, hr]
          · show (smtpFromInner env v.mail s').s.rcptcount = (smtpFromInner env v.mail s').s.rcpts.length
            rw [f3, g5, f2, g3, hI.cnt]
          · intro _; simp [f2, g3, hr]
        · have hgs : t.greeted = true ∧ t.sender = none := by
            refine ⟨by rw [r1]; rcases hcs with h | h <;> simp [h], by rw [r2]; simp [hnt]⟩
          have hev : ∀ o : Out, o.replies = [250] → eventsFor .mail v o = [.mail addr] := by
            intro o ho; simp only [eventsFor, ho, if_true, hv]
          rw [hev _ hrep]
          simp [txRun, txStep, hgs]
        · refine ⟨?_, ?_, ?_⟩
          · simp [r1]; rcases hcs with h | h <;> simp [h]
          · simp [inTx, hmf]
          · simp [okAddrs, f2, g3, hr]
      · refine errcase _ hrc ⟨by rw [f1, g1], by rw [hmf, g2]; simp [hm], by rw [f2, g3], by rw [hgood, g4], by rw [f3, g5]⟩
          (by rw [f4, g6]) h1 h2

end QsmtpModel.Session

namespace QsmtpModel.Session
open QsmtpModel Spec

theorem refused_run (t : Tx) : t ∈ txRun [t] [.rcptRefused] := neutral_run t _ (by simp [Neutral])

theorem events_rcpt_err (v : Verdicts) (o : Out) (h : o.replies ≠ [250]) : eventsFor .rcpt v o = [.rcptRefused] := by
  simp [eventsFor, h]

theorem okAddrs_append (s : Sess) (r : Recip) (rs : List Recip) (h : s.rcpts = rs ++ [r]) :
    okAddrs s = ((rs.filter (·.ok)).map (·.addr)) ++ (if r.ok then [r.addr] else []) := by
  simp only [okAddrs, h, List.filter_append, List.map_append]
  cases hr : r.ok <;> simp [hr]

theorem goal_rcptAdd (v : Verdicts) (addr : List Byte) (more : Bool) (f : FilterV) (s : Sess) (t : Tx)
    (hI : Inv s) (hR : Rel s t) (hcs : s.comstate = 0x20 ∨ s.comstate = 0x40) (hf : f.Wf)
    (hv : ∀ o : Out, o.replies = [250] → eventsFor .rcpt v o = [.rcpt addr]) :
    StepGoal t (eventsFor .rcpt v (finishStep 0 6 (rcptAdd addr more f s)).1)
      (finishStep 0 6 (rcptAdd addr more f s)).2 := by
  have hin : inTx s := hcs
  obtain ⟨r1, r2, r3⟩ := hR
  have r2' : t.sender = some s.mailfrom := by rw [r2]; simp [hin]
  unfold rcptAdd
  split
  · -- text behind the address
    have hne := err_replies_ne { replies := [], rc := .einval, s := s } 0 6 (by simp) [250] (by simp) (by simp [errReply])
    rw [events_rcpt_err v _ hne]
    exact finish_err_goal _ _ _ t t _ (by simp) hI (Or.inr ⟨r1, r2, r3⟩) (refused_run t)
  · split
    · -- second recipient of a bounce
      rename_i hb
      obtain ⟨hcnt, hmf⟩ := hb
      have hmf' : s.mailfrom = [] := by simpa using hmf
      have hne : s.rcpts ≠ [] := by
        intro h; have := hI.cnt; rw [h] at this; simp at this; omega
      obtain ⟨r0, rest, hrs⟩ := List.exists_cons_of_ne_nil hne
      have hc40 : s.comstate = 0x40 := by
        rcases hcs with h | h
        · exact absurd (hI.mailOnly h) hne
        · exact h
      have htail : ∀ r ∈ rest, r.ok = false := by
        intro r hr; apply hI.bounceTail hmf'; rw [hrs]; simpa using hr
      have hfil : (rest.filter (·.ok)) = [] := by
        rw [List.filter_eq_nil_iff]; intro r hr; simp [htail r hr]
      have hne2 := err_replies_ne { replies := [550], rc := .ebogus, s := bounceRefused s addr } 0 6
        (by simp) [250] (by simp) (by simp [errReply])
      rw [events_rcpt_err v _ hne2]
      apply finish_err_goal _ _ _ t { t with rcpts := [] } _ (by simp)
      · -- invariant of the state with the first recipient revoked
        simp only [bounceRefused, hrs, List.cons_append, revokeFirst]
        constructor
        · simp [hc40]
        · intro h; exact absurd (Or.inr hc40) h
        · intro h; simp [hc40] at h
        · simp [hfil]
        · simp [hI.cnt, hrs]
        · intro _ r hr
          simp only [List.drop_succ_cons, List.drop_zero, List.mem_append, List.mem_singleton] at hr
          rcases hr with hr | rfl
          · exact htail r hr
          · rfl
      · right
        simp only [bounceRefused, hrs, List.cons_append, revokeFirst]
        refine ⟨by simp [r1], ?_, ?_⟩
        · simp [inTx, hc40, r2', hmf']
        · simp [okAddrs, hfil]
      · simp only [txRun, txStep, r2', hmf', List.flatMap_cons, List.flatMap_nil, List.append_nil]
        simp
    · rename_i hnb
      have hfirst : s.mailfrom = [] → s.rcpts = [] := by
        intro hm
        have : ¬ s.rcptcount > 0 := by
          intro hc; exact hnb ⟨hc, by simp [hm]⟩
        have hc0 : s.rcptcount = 0 := by omega
        have := hI.cnt; rw [hc0] at this
        exact List.length_eq_zero_iff.mp this.symm
      split
      · -- accepted
        rw [finish_ok _ _ _ rfl]
        have hns : newState 0 6 { replies := [250], rc := .ok, s := withRcpt s addr true } = 0x40 := by
          simp [newState]
        rw [hns, hv _ rfl]
        simp only [withRcpt, if_true]
        apply mk_goal t { t with rcpts := t.rcpts ++ [addr] }
        · constructor
          · simp
          · intro h; exact absurd (Or.inr rfl) h
          · intro h; simp at h
          · simp [hI.good, List.filter_append]
          · simp [hI.cnt]
          · intro hm r hr
            have := hfirst hm
            simp [this] at hr
        · simp only [txRun, txStep, r2', List.flatMap_cons, List.flatMap_nil, List.append_nil]
          have : ¬ (s.mailfrom = [] ∧ t.rcpts ≠ []) := by
            intro ⟨hm, hne⟩; apply hne; rw [r3]; simp [okAddrs, hfirst hm]
          simp [this]
        · refine ⟨by simp [r1]; rcases hcs with h | h <;> simp [h], by simp [inTx, r2'], ?_⟩
          simp [okAddrs, r3, List.filter_append]
      · -- refused by a filter: it stays on the list, not ok
        rename_i code
        rw [finish_ok _ _ _ rfl]
        have hns : newState 0 6 { replies := [code], rc := .ok, s := withRcpt s addr false } = 0x40 := by
          simp [newState]
        have hcode : [code] ≠ [250] := by simpa [FilterV.Wf] using hf
        rw [hns, events_rcpt_err v _ hcode]
        simp only [withRcpt, Bool.false_eq_true, if_false]
        refine mk_goal t t _ _ ?inv (refused_run t) ?rel
        case inv =>
          constructor
          · simp
          · intro h; exact absurd (Or.inr rfl) h
          · intro h; simp at h
          · simp [hI.good, List.filter_append]
          · simp [hI.cnt]
          · intro hm r hr
            have := hfirst hm
            simp [this] at hr
        case rel =>
          refine ⟨by simp [r1]; rcases hcs with h | h <;> simp [h], by simp [inTx, r2'], ?_⟩
          simp [okAddrs, r3, List.filter_append]

end QsmtpModel.Session

namespace QsmtpModel.Session
open QsmtpModel Spec

theorem rcptEarly_spec (env : Env) (v : RcptV) (s : Sess) :
    match rcptEarly env v s with
    | .inl r => r.rc ≠ .ok ∧ SameTx s r.s ∧ r.s.closed = s.closed ∧ r.replies ++ [550] ≠ [250]
        ∧ r.replies ++ (errReply r.rc).toList ≠ [250]
    | .inr x => SameTx s x.2.2.2 ∧ x.2.2.2.closed = s.closed
        ∧ ((∃ e, v = .localUser x.1 e x.2.1 x.2.2.1) ∨ (∃ mx, v = .remote x.1 mx x.2.1 x.2.2.1)) := by
  have ha := isAuthenticated_same env s
  unfold rcptEarly
  cases v with
  | noBracket => simp [SameTx, errReply]
  | badAddr => simp [SameTx, errReply]
  | localUser a e m f =>
    cases e <;> simp [SameTx, errReply]
  | remote a mx m f =>
    simp only
    generalize isAuthenticated env s = p at ha
    obtain ⟨o, s'⟩ := p
    obtain ⟨h1, h2, h3, h4, h5, h6, _⟩ := ha
    simp only at h1 h2 h3 h4 h5 h6
    have hs : SameTx s s' := ⟨h1, h2, h3, h4, h5⟩
    match o with
    | none => simp [hs, h6, errReply]
    | some false => simp [hs, h6, errReply]
    | some true =>
      cases mx <;> simp [hs, h6, errReply]

theorem goal_rcpt (env : Env) (v : Verdicts) (s : Sess) (t : Tx) (l : List Byte) (hI : Inv s) (hR : Rel s t)
    (hcs : s.comstate = 0x20 ∨ s.comstate = 0x40) (hw : v.rcpt.Wf) :
    StepGoal t (eventsFor .rcpt v (finishStep 0 6 (runFunc env v .rcpt s l)).1)
      (finishStep 0 6 (runFunc env v .rcpt s l)).2 := by
  have errcase : ∀ r : FuncRes, r.rc ≠ .ok → SameTx s r.s →
      r.replies ++ [550] ≠ [250] → r.replies ++ (errReply r.rc).toList ≠ [250] →
      StepGoal t (eventsFor .rcpt v (finishStep 0 6 r).1) (finishStep 0 6 r).2 := by
    intro r hrc hs h1 h2
    have hne := err_replies_ne r 0 6 hrc [250] h1 h2
    rw [events_rcpt_err v _ hne]
    exact finish_err_goal _ _ _ t t _ hrc (sameTx_inv _ _ hs hI) (Or.inr (sameTx_rel _ _ t hs hR)) (refused_run t)
  simp only [runFunc, smtpRcpt]
  split
  · exact errcase _ (by simp) ⟨rfl, rfl, rfl, rfl, rfl⟩ (by simp) (by simp [errReply])
  · split
    · -- too many recipients: 452, but the command "succeeds"
      rw [finish_ok _ _ _ rfl]
      have hns : newState 0 6 { replies := [452], rc := .ok, s := s } = 0x40 := by simp [newState]
      rw [hns, events_rcpt_err v _ (by simp)]
      obtain ⟨r1, r2, r3⟩ := hR
      have hin : inTx s := hcs
      refine mk_goal t t _ _ ?inv (refused_run t) ?rel
      case inv =>
        constructor
        · simp
        · intro h; exact absurd (Or.inr rfl) h
        · intro h; simp at h
        · exact hI.good
        · exact hI.cnt
        · exact hI.bounceTail
      case rel =>
        refine ⟨by simp [r1]; rcases hcs with h | h <;> simp [h], ?_, r3⟩
        rw [r2]; simp only [inTx] at hin ⊢; simp [hin]
    · have hsp := rcptEarly_spec env v.rcpt s
      split
      · rename_i r hre
        rw [hre] at hsp
        obtain ⟨h1, h2, _, h4, h5⟩ := hsp
        exact errcase r h1 h2 h4 h5
      · rename_i x hre
        rw [hre] at hsp
        obtain ⟨h1, h2, h3⟩ := hsp
        have hI' := sameTx_inv _ _ h1 hI
        have hR' := sameTx_rel _ _ t h1 hR
        have hcs' : x.2.2.2.comstate = 0x20 ∨ x.2.2.2.comstate = 0x40 := by rw [h1.1]; exact hcs
        have hf : x.2.2.1.Wf := by
          rcases h3 with ⟨e, h3⟩ | ⟨mx, h3⟩ <;> (rw [h3] at hw; exact hw)
        apply goal_rcptAdd v x.1 x.2.1 x.2.2.1 x.2.2.2 t hI' hR' hcs' hf
        intro o ho
        rcases h3 with ⟨e, h3⟩ | ⟨mx, h3⟩ <;> simp [eventsFor, ho, h3]

end QsmtpModel.Session

namespace QsmtpModel.Session
open QsmtpModel Spec

theorem bounce_le_one (s : Sess) (hI : Inv s) (hm : s.mailfrom = []) : (okAddrs s).length ≤ 1 := by
  have ht := hI.bounceTail hm
  simp only [okAddrs, List.length_map]
  cases hr : s.rcpts with
  | nil => simp
  | cons r0 rest =>
    rw [hr] at ht
    have hfil : rest.filter (·.ok) = [] := by
      rw [List.filter_eq_nil_iff]; intro r hr'; simp [ht r (by simpa using hr')]
    simp only [List.filter_cons]
    split <;> simp [hfil]

theorem events_data_no354 (v : Verdicts) (o : Out) (h : 354 ∉ o.replies) : eventsFor .data v o = [.dataRefused] := by
  simp [eventsFor, h]

theorem err_replies_mem (r : FuncRes) (rowState : Int) (i : Nat) (hrc : r.rc ≠ .ok) (c : Nat) :
    (c ∈ (finishStep rowState i r).1.replies ↔ c ∈ r.replies ∨ c ∈ (handleError r.rc r.s).1)
      ∧ (finishStep rowState i r).1.handoff = none := by
  unfold finishStep
  rw [if_neg hrc]
  simp

theorem goal_data (env : Env) (v : Verdicts) (s : Sess) (t : Tx) (l : List Byte) (hI : Inv s) (hR : Rel s t)
    (hcs : s.comstate = 0x40) :
    StepGoal t (eventsFor .data v (finishStep 16 7 (runFunc env v .data s l)).1)
      (finishStep 16 7 (runFunc env v .data s l)).2 := by
  have hin : inTx s := Or.inr hcs
  obtain ⟨r1, r2, r3⟩ := hR
  have r2' : t.sender = some s.mailfrom := by rw [r2]; simp only [inTx] at hin ⊢; simp [hin]
  -- failing before 354: nothing changes
  have pre : ∀ code : Nat, code ≠ 354 →
      StepGoal t (eventsFor .data v (finishStep 16 7 { replies := [code], rc := .edone, s := s }).1)
        (finishStep 16 7 { replies := [code], rc := .edone, s := s }).2 := by
    intro code hc
    have hmem := (err_replies_mem { replies := [code], rc := .edone, s := s } 16 7 (by simp) 354).1
    have hno : 354 ∉ (finishStep 16 7 { replies := [code], rc := .edone, s := s }).1.replies := by
      rw [hmem]
      rcases handleError_spec' .edone s with h | h <;> simp [h, errReply, Ne.symm hc]
    rw [events_data_no354 v _ hno]
    exact finish_err_goal _ _ _ t t _ (by simp) hI (Or.inr ⟨r1, r2, r3⟩) (neutral_run t _ (by simp [Neutral]))
  simp only [runFunc, smtpData]
  split
  · exact pre 554 (by decide)
  · rename_i hgood
    have hne : okAddrs s ≠ [] := by
      intro h
      apply hgood
      rw [hI.good]
      have : ((s.rcpts.filter (·.ok)).map (·.addr)).length = 0 := by
        unfold okAddrs at h; rw [h]; rfl
      simpa using this
    have hfi := freedata_inv s hI
    have hfn := freedata_not_inTx s hI
    have hgr : t.greeted = decide ((freedata s).comstate ≠ 1) := by
      rw [r1]; simp [freedata_cs_one s hI]
    split
    · -- the queue could not be started: 451 without 354, the transaction is discarded
      have hmem := (err_replies_mem { replies := [451], rc := .edone, s := freedata s } 16 7 (by simp) 354).1
      have hno : 354 ∉ (finishStep 16 7 { replies := [451], rc := .edone, s := freedata s }).1.replies := by
        rw [hmem]
        rcases handleError_spec' .edone (freedata s) with h | h <;> simp [h, errReply]
      rw [events_data_no354 v _ hno]
      apply finish_err_goal _ _ _ t { t with sender := none, rcpts := [] } _ (by simp) hfi
      · exact Or.inr (rel_idle _ t.greeted hfn rfl hgr)
      · simp [txRun, txStep]
    · -- accepted
      rw [finish_ok _ _ _ rfl]
      have hah := afterHelo_cases s
      have hns : ∀ r : FuncRes, r.stateOverride = some (afterHelo s) → newState 16 7 r = afterHelo s := by
        intro r hr; simp only [newState, hr]; rcases hah with h | h <;> simp [h]
      rw [hns _ rfl]
      refine mk_goal t { t with sender := none, rcpts := [] } _ _ ?inv ?run ?rel
      case inv => exact inv_idle _ (by simp; omega) rfl rfl rfl rfl
      case run =>
        have hb : s.mailfrom = [] → (okAddrs s).length ≤ 1 := bounce_le_one s hI
        have hne' : t.rcpts ≠ [] := by rw [r3]; exact hne
        simp only [eventsFor, mkHandoff, List.mem_cons, true_or, if_true, txRun, txStep, List.flatMap_cons, List.flatMap_nil,
          List.append_nil]
        have h1 : (t.sender ≠ none ∧ t.rcpts ≠ []) := ⟨by rw [r2']; simp, hne'⟩
        rw [if_pos h1]
        simp only [List.flatMap_cons, List.flatMap_nil, List.append_nil]
        have h2 : t.sender = some s.mailfrom ∧ t.rcpts = (s.rcpts.filter (·.ok)).map (·.addr)
            ∧ (s.mailfrom = [] → ((s.rcpts.filter (·.ok)).map (·.addr)).length ≤ 1) := ⟨r2', r3, hb⟩
        rw [if_pos h2]
        simp
      case rel =>
        refine rel_idle _ t.greeted ?_ ?_ ?_
        · exact not_inTx_of _ (by simp; omega)
        · rfl
        · simp only [r1, hcs]; rcases hah with h | h <;> simp [h]
    · -- refused after 354: the transaction is gone
      rename_i code rc _
      have hne' : t.rcpts ≠ [] := by rw [r3]; exact hne
      have hrun : ∀ es : List Event, es = [.dataStarted, .dataFailed] →
          ({ t with sender := none, rcpts := [] } : Tx) ∈ txRun [t] es := by
        intro es he; subst he
        have h1 : (t.sender ≠ none ∧ t.rcpts ≠ []) := ⟨by rw [r2']; simp, hne'⟩
        simp [txRun, txStep, h1]
      have h354r : 354 ∈ (refusedRes code rc s).replies := by
        simp only [refusedRes]; split <;> simp
      by_cases hrc : rc = .ok
      · subst hrc
        rw [finish_ok _ _ _ rfl]
        have hns : newState 16 7 (refusedRes code .ok s) = 16 := by simp [newState, refusedRes]
        rw [hns]
        refine mk_goal t { t with sender := none, rcpts := [] } _ _ ?inv ?run ?rel
        case inv => exact inv_idle _ (by simp) rfl rfl rfl rfl
        case run =>
          apply hrun
          simp only [eventsFor, h354r, if_true]
          simp [refusedRes]
        case rel =>
          refine rel_idle _ t.greeted ?_ rfl ?_
          · exact not_inTx_of _ (by simp)
          · simp [r1, hcs]
      · have hmem := err_replies_mem (refusedRes code rc s) 16 7 hrc 354
        have h354 : 354 ∈ (finishStep 16 7 (refusedRes code rc s)).1.replies := by
          rw [hmem.1]; left; exact h354r
        apply finish_err_goal _ _ _ t { t with sender := none, rcpts := [] } _ hrc hfi
        · exact Or.inr (rel_idle _ t.greeted hfn rfl hgr)
        · apply hrun
          simp only [eventsFor, h354, if_true, hmem.2]

end QsmtpModel.Session

namespace QsmtpModel.Session
open QsmtpModel Spec

theorem eventsFor_nil_neutral (f : Gen.Func) (v : Verdicts) : ∀ e ∈ eventsFor f v { replies := [] }, Neutral e :=
  events_neutral_of_err f v _ (Or.inl rfl)

theorem step_refines (env : Env) (s : Sess) (t : Tx) (inp : Input) (hI : s.closed = true ∨ Inv s)
    (hR : s.closed = true ∨ Rel s t) (hw : inp.Wf) :
    StepGoal t (eventsOf inp (step env s inp).1) (step env s inp).2 := by
  unfold step
  by_cases hcl : s.closed = true
  · rw [if_pos hcl]
    apply closed_goal s t _ hcl
    unfold eventsOf
    cases inp with
    | readErr rc => simp [Neutral]
    | line l v =>
      simp only
      split
      · simp [Neutral]
      · exact eventsFor_nil_neutral _ _
  · rw [if_neg hcl]
    have hI' : Inv s := by rcases hI with h | h; exact absurd h hcl; exact h
    have hR' : Rel s t := rel_not_closed s t hR hcl
    cases inp with
    | readErr rc => exact errOut_goal rc s t _ hI' hR (by simp [eventsOf, Neutral])
    | line l v =>
      simp only [eventsOf]
      cases hf : findRow l Gen.commands 0 with
      | none => exact errOut_goal .einval s t _ hI' hR (by simp [Neutral])
      | some p =>
        obtain ⟨i, row⟩ := p
        obtain ⟨j, hj, hi⟩ := findRow_spec l Gen.commands 0 i row hf
        have hij : i = j := by omega
        subst hij
        simp only
        -- dispatch errors are the same for every row
        have disp : ∀ rc : Rc, rc = .einval ∨ rc = .e2big ∨ rc = .badseq →
            StepGoal t (eventsFor row.func v (errOut rc s).1) (errOut rc s).2 := by
          intro rc hrc
          exact errOut_goal rc s t _ hI' hR (events_neutral_of_err _ _ _ (errReplies_dispatch rc s hrc hI'))
        have hcsI := hI'.cs
        split
        · rename_i hmask
          split
          · exact disp .e2big (by simp)
          · split
            · exact disp .einval (by simp)
            · split
              · exact disp .einval (by simp)
              · -- the command function runs
                rcases commands_get i row hj with ⟨rfl, rfl⟩ | ⟨rfl, rfl⟩ | ⟨rfl, rfl⟩ | ⟨rfl, rfl⟩ | ⟨rfl, rfl⟩
                  | ⟨rfl, rfl⟩ | ⟨rfl, rfl⟩ | ⟨rfl, rfl⟩ | ⟨rfl, rfl⟩ | ⟨rfl, rfl⟩ | ⟨rfl, rfl⟩ | ⟨rfl, rfl⟩
                · exact goal_noop env v s t l 0 hI' hR' .noop (Or.inl rfl)
                · exact goal_quit env v s t l 1
                · exact goal_rset env v s t l hI' hR'
                · exact goal_helo env v s t l hI' hR'
                · exact goal_ehlo env v s t l hI' hR'
                · refine goal_mail env v s t l hI' hR' ?_
                  simp only at hmask
                  rcases hcsI with h | h | h | h | h <;> simp [h] at hmask ⊢
                · refine goal_rcpt env v s t l hI' hR' ?_ hw
                  simp only at hmask
                  rcases hcsI with h | h | h | h | h <;> simp [h] at hmask ⊢
                · refine goal_data env v s t l hI' hR' ?_
                  simp only at hmask
                  rcases hcsI with h | h | h | h | h <;> simp [h] at hmask ⊢
                · refine goal_starttls env v s t l hI' hR' ?_
                  simp only at hmask
                  rcases hcsI with h | h | h | h | h <;> simp [h] at hmask ⊢
                · exact goal_auth env v s t l 9 hI' hR'
                · exact goal_noop env v s t l 10 hI' hR' .vrfy (Or.inr rfl)
                · exact goal_post env v s t l 11 hI' hR'
        · exact disp .badseq (by simp)

end QsmtpModel.Session

namespace QsmtpModel.Session
open QsmtpModel Spec

/-- everything an observer sees of a connection -/
def eventsTrace (env : Env) (s : Sess) : List Input → List Event
  | [] => []
  | i :: is => eventsOf i (step env s i).1 ++ eventsTrace env (step env s i).2 is

/-- the state reached after the inputs -/
def finalState (env : Env) (s : Sess) : List Input → Sess
  | [] => s
  | i :: is => finalState env (step env s i).2 is

theorem txRun_append (ts : List Tx) (a b : List Event) : txRun ts (a ++ b) = txRun (txRun ts a) b := by
  induction a generalizing ts with
  | nil => rfl
  | cons e es ih => simp only [List.cons_append, txRun]; exact ih _

theorem txRun_subset (es : List Event) : ∀ (us ts : List Tx), (∀ u ∈ us, u ∈ ts) →
    ∀ t' ∈ txRun us es, t' ∈ txRun ts es := by
  induction es with
  | nil => intro us ts h t' ht'; exact h t' ht'
  | cons e es ih =>
    intro us ts h t' ht'
    simp only [txRun] at ht' ⊢
    apply ih _ _ _ t' ht'
    intro u hu
    simp only [List.mem_flatMap] at hu ⊢
    obtain ⟨w, hw, hu⟩ := hu
    exact ⟨w, h w hw, hu⟩

theorem txRun_mono (ts : List Tx) (t t' : Tx) (es : List Event) (ht : t ∈ ts) (h : t' ∈ txRun [t] es) :
    t' ∈ txRun ts es :=
  txRun_subset es [t] ts (by intro u hu; simp at hu; subst hu; exact ht) t' h

/-- **Refinement.** Whatever the client sends, what an observer sees is allowed by the transaction
specification, and the state stays inside the invariant. -/
theorem run_refines (env : Env) (ins : List Input) (hw : ∀ i ∈ ins, i.Wf) :
    ∀ (s : Sess) (t : Tx), (s.closed = true ∨ Inv s) → (s.closed = true ∨ Rel s t) →
      ((finalState env s ins).closed = true ∨ Inv (finalState env s ins))
      ∧ ∃ t' ∈ txRun [t] (eventsTrace env s ins),
          ((finalState env s ins).closed = true ∨ Rel (finalState env s ins) t') := by
  induction ins with
  | nil => intro s t hI hR; exact ⟨hI, t, by simp [eventsTrace, txRun], hR⟩
  | cons i is ih =>
    intro s t hI hR
    obtain ⟨hI1, t1, ht1, hR1⟩ := step_refines env s t i hI hR (hw i List.mem_cons_self)
    obtain ⟨hI2, t2, ht2, hR2⟩ := ih (fun x hx => hw x (List.mem_cons_of_mem _ hx)) _ t1 hI1 hR1
    refine ⟨hI2, t2, ?_, hR2⟩
    simp only [eventsTrace, txRun_append]
    exact txRun_mono _ t1 t2 _ ht1 ht2

end QsmtpModel.Session
