import QsmtpModel.Control
import QsmtpModel.Spec.Control
namespace QsmtpModel.Lemmas
open QsmtpModel QsmtpModel.Control

/-! ### memchr -/

theorem fd_memchr_some (c : Byte) (cur : List Byte) (k : Nat) (h : memchr c cur = some k) :
    ∃ l rest, cur = l ++ c :: rest ∧ c ∉ l ∧ k = l.length := by
  induction cur generalizing k with
  | nil => simp [memchr] at h
  | cons x xs ih =>
    unfold memchr at h
    split at h
    · rename_i hx
      simp at h; subst h; subst hx
      exact ⟨[], xs, by simp, by simp, by simp⟩
    · rename_i hx
      cases hm : memchr c xs with
      | none => simp [hm] at h
      | some j =>
        simp [hm] at h
        obtain ⟨l, rest, h1, h2, h3⟩ := ih j hm
        refine ⟨x :: l, rest, by simp [h1], ?_, by simp [← h, h3]⟩
        simp only [List.mem_cons, not_or]
        exact ⟨fun e => hx e.symm, h2⟩

theorem fd_memchr_none (c : Byte) (cur : List Byte) (h : memchr c cur = none) : c ∉ cur := by
  induction cur with
  | nil => simp
  | cons x xs ih =>
    unfold memchr at h
    split at h
    · simp at h
    · rename_i hx
      cases hm : memchr c xs with
      | none =>
        simp only [List.mem_cons, not_or]
        exact ⟨fun e => hx e.symm, ih hm⟩
      | some j => simp [hm] at h

/-! ### spec side: lines and entries -/

theorem fd_splitAt_ne_nil (p : Byte → Bool) (l : List Byte) : Spec.splitAt p l ≠ [] := by
  cases l with
  | nil => simp [Spec.splitAt]
  | cons b tl =>
    unfold Spec.splitAt
    split
    · simp
    · split <;> simp

theorem fd_splitAt_none (p : Byte → Bool) (l : List Byte) (h : ∀ x ∈ l, p x = false) :
    Spec.splitAt p l = [l] := by
  induction l with
  | nil => rfl
  | cons b tl ih =>
    have hb : p b = false := h b (by simp)
    have := ih (fun x hx => h x (by simp [hx]))
    simp only [Spec.splitAt, this, hb]
    simp

theorem fd_splitAt_app (p : Byte → Bool) (l rest : List Byte) (s : Byte)
    (h : ∀ x ∈ l, p x = false) (hs : p s = true) :
    Spec.splitAt p (l ++ s :: rest) = l :: Spec.splitAt p rest := by
  induction l with
  | nil =>
    simp only [List.nil_append, Spec.splitAt]
    cases hr : Spec.splitAt p rest with
    | nil => exact absurd hr (fd_splitAt_ne_nil p rest)
    | cons c m => simp [hs]
  | cons b tl ih =>
    have hb : p b = false := h b (by simp)
    have := ih (fun x hx => h x (by simp [hx]))
    simp only [List.cons_append, Spec.splitAt, this, hb]
    simp

/-- what one line contributes to `Spec.entries` -/
def fd_entryOf (l : List Byte) : List (List Byte) :=
  (([l].filter fun l => l.head? ≠ some 35).map Spec.stripTrail).filter (· ≠ [])

theorem fd_entries_app (l rest : List Byte) (h : LF ∉ l) :
    Spec.entries (l ++ LF :: rest) = fd_entryOf l ++ Spec.entries rest := by
  unfold Spec.entries Spec.lines fd_entryOf
  rw [fd_splitAt_app _ l rest LF (by intro x hx; simp; intro e; exact h (e ▸ hx)) (by simp)]
  rw [show l :: Spec.splitAt (fun x => x == LF) rest = [l] ++ Spec.splitAt (fun x => x == LF) rest from rfl,
    List.filter_append, List.map_append, List.filter_append]

theorem fd_entries_single (l : List Byte) (h : LF ∉ l) : Spec.entries l = fd_entryOf l := by
  unfold Spec.entries Spec.lines fd_entryOf
  rw [fd_splitAt_none _ l (by intro x hx; simp; intro e; exact h (e ▸ hx))]

theorem fd_entryOf_nil : fd_entryOf [] = [] := by decide

theorem fd_entries_nil : Spec.entries [] = [] := by decide

theorem fd_entries_lf (rest : List Byte) : Spec.entries (LF :: rest) = Spec.entries rest := by
  have := fd_entries_app [] rest (by simp)
  simpa [fd_entryOf_nil] using this

theorem fd_entries_dropWhile (x : List Byte) :
    Spec.entries (x.dropWhile (· = LF)) = Spec.entries x := by
  induction x with
  | nil => rfl
  | cons b x ih =>
    by_cases hb : b = LF
    · subst hb
      simp only [List.dropWhile_cons, decide_true, if_true, ih, fd_entries_lf]
    · simp [hb]

/-! ### stripLen -/

theorem fd_blank_eq (b : Byte) : isBlank b = Spec.blank b := rfl

theorem fd_stripTrail_snoc (l : List Byte) (b : Byte) :
    Spec.stripTrail (l ++ [b]) = if Spec.blank b then Spec.stripTrail l else l ++ [b] := by
  unfold Spec.stripTrail
  simp only [List.reverse_append, List.reverse_cons, List.reverse_nil, List.nil_append,
    List.singleton_append, List.dropWhile_cons]
  split <;> simp

theorem fd_stripLen (cur : List Byte) (n : Nat) (h : n ≤ cur.length) :
    stripLen cur n ≤ n ∧ cur.take (stripLen cur n) = Spec.stripTrail (cur.take n) := by
  induction n with
  | zero => simp [stripLen, Spec.stripTrail]
  | succ n ih =>
    have ⟨h1, h2⟩ := ih (by omega)
    have hlt : n < cur.length := by omega
    have ht : cur.take (n + 1) = cur.take n ++ [cur[n]] := by
      simp only [List.take_add_one, List.getElem?_eq_getElem hlt, Option.toList_some]
    have hg : cur.getD n 0 = cur[n] := by simp [List.getD_eq_getElem?_getD, hlt]
    unfold stripLen
    rw [hg]
    by_cases hb : isBlank cur[n] = true
    · rw [if_pos hb, ht, fd_stripTrail_snoc, ← fd_blank_eq, if_pos hb]
      exact ⟨by omega, h2⟩
    · rw [if_neg hb]
      refine ⟨Nat.le_refl _, ?_⟩
      rw [ht, fd_stripTrail_snoc, ← fd_blank_eq, if_neg hb]

theorem fd_stripTrail_take (l : List Byte) :
    Spec.stripTrail l = l.take (Spec.stripTrail l).length := by
  have ⟨h1, h2⟩ := fd_stripLen l l.length (Nat.le_refl _)
  rw [List.take_length] at h2
  have : (Spec.stripTrail l).length = stripLen l l.length := by
    rw [← h2, List.length_take]; omega
  rw [this, h2]

theorem fd_stripTrail_head (l : List Byte) (h : Spec.stripTrail l ≠ []) :
    (Spec.stripTrail l).head? = l.head? := by
  have := fd_stripTrail_take l
  cases l with
  | nil => simp [Spec.stripTrail] at h
  | cons x xs =>
    cases hn : (Spec.stripTrail (x :: xs)).length with
    | zero => exact absurd (List.length_eq_zero_iff.mp hn) h
    | succ n => rw [this, hn]; simp

/-! ### strncasecmp -/

theorem fd_strncaseEq (n : Nat) (a b : List Byte) (ha : n ≤ a.length) (hb : n ≤ b.length)
    (h0 : (0 : Byte) ∉ a.take n) :
    strncaseEq n a b = decide ((a.take n).map lower = (b.take n).map lower) := by
  induction n generalizing a b with
  | zero => simp [strncaseEq]
  | succ n ih =>
    cases a with
    | nil => simp at ha
    | cons x as =>
      cases b with
      | nil => simp at hb
      | cons y bs =>
        simp only [List.length_cons] at ha hb
        simp only [List.take_succ_cons, List.mem_cons, not_or] at h0
        simp only [strncaseEq]
        rw [ih as bs (by omega) (by omega) h0.2]
        by_cases hl : lower x = lower y
        · simp [hl, Ne.symm h0.1]
        · simp [hl]

theorem fd_lower_dot (b : Byte) (h : lower b = 46) : b = 46 := by
  unfold lower at h
  split at h
  · rename_i hb
    have : (b + 32).toNat = 46 := by rw [h]; rfl
    rw [UInt8.toNat_add] at this
    simp at this; omega
  · exact h

/-! ### one entry -/

theorem fd_matchesEntry_iff (e d : List Byte) :
    Spec.matchesEntry e d = true ↔
      d.map lower = e.map lower ∨
        (e.head? = some DOT ∧ e.length ≤ d.length ∧
          (d.drop (d.length - e.length)).map lower = e.map lower) := by
  simp [Spec.matchesEntry, Spec.eqNoCase, and_assoc]

theorem fd_strncase_full (e s cur : List Byte) (hcur : cur.take e.length = e)
    (hlen : e.length ≤ cur.length) (hsl : s.length = e.length) (h0 : (0 : Byte) ∉ s) :
    strncaseEq e.length s cur = true ↔ s.map lower = e.map lower := by
  rw [fd_strncaseEq _ _ _ (by omega) hlen (fun hm => h0 (List.mem_of_mem_take hm))]
  simp only [decide_eq_true_eq]
  rw [hcur, ← hsl, List.take_length]

theorem fd_match_plain (e d cur : List Byte) (he : e.head? ≠ some DOT)
    (hcur : cur.take e.length = e) (hlen : e.length ≤ cur.length) (hnul : (0 : Byte) ∉ d) :
    decide (d.length = e.length ∧ strncaseEq e.length d cur = true) = Spec.matchesEntry e d := by
  rw [Bool.eq_iff_iff, fd_matchesEntry_iff]
  simp only [decide_eq_true_eq]
  constructor
  · rintro ⟨hl, hs⟩
    exact Or.inl ((fd_strncase_full e d cur hcur hlen hl hnul).mp hs)
  · rintro (hs | ⟨h1, _⟩)
    · have hl : d.length = e.length := by simpa using congrArg List.length hs
      exact ⟨hl, (fd_strncase_full e d cur hcur hlen hl hnul).mpr hs⟩
    · exact absurd h1 he

theorem fd_match_dot (e d cur : List Byte) (he : e.head? = some DOT)
    (hcur : cur.take e.length = e) (hlen : e.length ≤ cur.length)
    (hne : d ≠ []) (hdot : d.head? ≠ some DOT) (hnul : (0 : Byte) ∉ d) :
    decide (d.length > e.length ∧ strncaseEq e.length (d.drop (d.length - e.length)) cur = true)
      = Spec.matchesEntry e d := by
  have hneq : d.map lower ≠ e.map lower := by
    intro hs
    cases d with
    | nil => exact hne rfl
    | cons a d' =>
      cases e with
      | nil => simp at he
      | cons b e' =>
        simp only [List.head?_cons, Option.some.injEq] at he hdot
        subst he
        simp only [List.map_cons, List.cons.injEq] at hs
        exact hdot (by rw [fd_lower_dot a hs.1]; rfl)
  have hstr : e.length ≤ d.length →
      (strncaseEq e.length (d.drop (d.length - e.length)) cur = true ↔
        (d.drop (d.length - e.length)).map lower = e.map lower) := by
    intro hle
    have hdl : (d.drop (d.length - e.length)).length = e.length := by
      rw [List.length_drop]; omega
    exact fd_strncase_full e _ cur hcur hlen hdl (fun hm => hnul (List.mem_of_mem_drop hm))
  rw [Bool.eq_iff_iff, fd_matchesEntry_iff]
  simp only [decide_eq_true_eq]
  constructor
  · rintro ⟨hl, hs⟩
    exact Or.inr ⟨he, by omega, (hstr (by omega)).mp hs⟩
  · rintro (hs | ⟨_, hle, hs⟩)
    · exact absurd hs hneq
    · have hlt : e.length < d.length := by
        rcases Nat.lt_or_ge e.length d.length with h | h
        · exact h
        · have : d.length - e.length = 0 := by omega
          rw [this, List.drop_zero] at hs
          exact absurd hs hneq
      exact ⟨hlt, (hstr hle).mpr hs⟩

/-! ### one line -/

theorem fd_lineMatches_eq (cur l tail d : List Byte) (c0 : Byte) (hcur : cur = l ++ tail)
    (hm : memchr LF cur = some l.length ∨ (memchr LF cur = none ∧ cur.length = l.length))
    (hc0 : l ≠ [] → l.head? = some c0)
    (hne : d ≠ []) (hdot : d.head? ≠ some DOT) (hnul : (0 : Byte) ∉ d) :
    lineMatches cur c0 d = (fd_entryOf l).any (Spec.matchesEntry · d) := by
  have hle : l.length ≤ cur.length := by rw [hcur]; simp
  obtain ⟨hs1, hs2⟩ := fd_stripLen cur l.length hle
  have htk : cur.take l.length = l := by rw [hcur]; simp
  rw [htk] at hs2
  have hlenE : (Spec.stripTrail l).length = stripLen cur l.length := by
    rw [← hs2, List.length_take]; omega
  have hunf : lineMatches cur c0 d =
      (if c0 = HASH then false
       else if stripLen cur l.length = 0 then false
       else if c0 = DOT then
         decide (d.length > stripLen cur l.length ∧
           strncaseEq (stripLen cur l.length) (d.drop (d.length - stripLen cur l.length)) cur = true)
       else decide (d.length = stripLen cur l.length ∧
           strncaseEq (stripLen cur l.length) d cur = true)) := by
    unfold lineMatches
    rcases hm with hm | ⟨hm, hl⟩
    · simp only [hm]
    · simp only [hm, hl]
  rw [hunf, ← hlenE]
  rw [← hlenE] at hs2 hs1
  generalize hE : Spec.stripTrail l = e at *
  cases l with
  | nil =>
    have : e = [] := by rw [← hE]; rfl
    subst this
    simp [fd_entryOf_nil]
  | cons x xs =>
    have hx : c0 = x := by
      have := hc0 (by simp)
      simpa using this.symm
    subst hx
    by_cases h35 : c0 = HASH
    · rw [if_pos h35]
      simp [fd_entryOf, HASH] at h35 ⊢
      intro h; exact absurd h35 h
    · rw [if_neg h35]
      by_cases he0 : e = []
      · subst he0
        simp [fd_entryOf, hE]
      · have hlen0' : ¬ e.length = 0 := by
          intro h; exact he0 (List.length_eq_zero_iff.mp h)
        rw [if_neg hlen0']
        have hhead : e.head? = some c0 := by
          have := fd_stripTrail_head (c0 :: xs) (by rw [hE]; exact he0)
          rw [hE] at this
          simpa using this
        have hent : fd_entryOf (c0 :: xs) = [e] := by
          have h35' : ¬ c0 = 35 := h35
          simp [fd_entryOf, hE, he0, h35']
        rw [hent]
        simp only [List.any_cons, List.any_nil, Bool.or_false]
        by_cases hd : c0 = DOT
        · rw [if_pos hd]
          exact fd_match_dot e d cur (by rw [hhead, hd]) hs2 (by omega) hne hdot hnul
        · rw [if_neg hd]
          exact fd_match_plain e d cur (by rw [hhead]; simpa using hd) hs2 (by omega) hnul

/-! ### the loop -/

theorem fd_next_length (rest : List Byte) : (rest.dropWhile (· = LF)).length ≤ rest.length := by
  induction rest with
  | nil => simp
  | cons b x ih =>
    simp only [List.dropWhile_cons]
    split
    · simp only [List.length_cons]; omega
    · exact Nat.le_refl _

theorem fd_findLoop_total (d : List Byte) (fuel : Nat) (cur : List Byte) (hc : cur ≠ [])
    (hf : cur.length < fuel) : ∃ b, findLoop d fuel cur = .ok b := by
  induction fuel generalizing cur with
  | zero => omega
  | succ f ih =>
    cases cur with
    | nil => exact absurd rfl hc
    | cons c0 tl =>
      unfold findLoop
      split
      · exact ⟨_, rfl⟩
      · cases hm : memchr LF (c0 :: tl) with
        | none => exact ⟨_, rfl⟩
        | some k =>
          obtain ⟨l, rest, h1, h2, h3⟩ := fd_memchr_some _ _ _ hm
          have hdrop : (c0 :: tl).drop k = LF :: rest := by rw [h1, h3]; simp
          have hdw : (LF :: rest).dropWhile (· = LF) = rest.dropWhile (· = LF) := by
            simp
          simp only [hdrop, hdw]
          split
          · exact ⟨_, rfl⟩
          · rename_i hnext
            apply ih
            · intro h; rw [h] at hnext; simp at hnext
            · have := fd_next_length rest
              have hl : (c0 :: tl).length = l.length + (rest.length + 1) := by rw [h1]; simp
              simp only [List.length_cons] at this hl hf
              omega

/-- memory safety / totality for every query, also outside the guard of `finddomain_eq` -/
theorem finddomain_total (buf d : List Byte) : ∃ b, finddomain buf d = .ok b := by
  unfold finddomain
  split
  · exact ⟨_, rfl⟩
  · rename_i h
    exact fd_findLoop_total d _ buf (by intro e; rw [e] at h; simp at h) (by omega)

theorem fd_findLoop_eq (d : List Byte) (hne : d ≠ []) (hdot : d.head? ≠ some DOT)
    (hnul : (0 : Byte) ∉ d) (fuel : Nat) (cur : List Byte) (hc : cur ≠ [])
    (hf : cur.length < fuel) :
    findLoop d fuel cur = .ok ((Spec.entries cur).any (Spec.matchesEntry · d)) := by
  induction fuel generalizing cur with
  | zero => omega
  | succ f ih =>
    cases cur with
    | nil => exact absurd rfl hc
    | cons c0 tl =>
      unfold findLoop
      cases hm : memchr LF (c0 :: tl) with
      | none =>
        have hno := fd_memchr_none _ _ hm
        have hline := fd_lineMatches_eq (c0 :: tl) (c0 :: tl) [] d c0 (by simp)
          (Or.inr ⟨hm, rfl⟩) (by simp) hne hdot hnul
        rw [fd_entries_single _ hno, ← hline]
        cases lineMatches (c0 :: tl) c0 d <;> simp
      | some k =>
        obtain ⟨l, rest, h1, h2, h3⟩ := fd_memchr_some _ _ _ hm
        have hdrop : (c0 :: tl).drop k = LF :: rest := by rw [h1, h3]; simp
        have hline := fd_lineMatches_eq (c0 :: tl) l (LF :: rest) d c0 h1
          (Or.inl (h3 ▸ hm))
          (by
            intro hl
            cases l with
            | nil => exact absurd rfl hl
            | cons x xs =>
              simp only [List.cons_append, List.cons.injEq] at h1
              simp [h1.1])
          hne hdot hnul
        have hent : Spec.entries (c0 :: tl) = fd_entryOf l ++ Spec.entries rest := by
          rw [h1]; exact fd_entries_app l rest h2
        rw [hent, List.any_append, ← hline]
        simp only [hdrop]
        have hdw : (LF :: rest).dropWhile (· = LF) = rest.dropWhile (· = LF) := by
          simp
        rw [hdw]
        cases lineMatches (c0 :: tl) c0 d with
        | true => simp
        | false =>
          simp only [Bool.false_eq_true, if_false, Bool.false_or]
          rw [← fd_entries_dropWhile rest]
          split
          · rename_i hnext
            have : rest.dropWhile (· = LF) = [] := by simpa using hnext
            rw [this, fd_entries_nil]; rfl
          · rename_i hnext
            apply ih
            · intro h; rw [h] at hnext; simp at hnext
            · have := fd_next_length rest
              have hl : (c0 :: tl).length = l.length + (rest.length + 1) := by rw [h1]; simp
              simp only [List.length_cons] at hl hf
              omega

theorem finddomain_eq (buf d : List Byte) (hne : d ≠ []) (hdot : d.head? ≠ some DOT)
    (hnul : (0 : Byte) ∉ d) :
    finddomain buf d = .ok (Spec.domainListed buf d) := by
  unfold finddomain Spec.domainListed
  split
  · rename_i h
    have : buf = [] := by simpa using h
    subst this
    rw [fd_entries_nil]; rfl
  · rename_i h
    exact fd_findLoop_eq d hne hdot hnul _ buf (by intro e; rw [e] at h; simp at h) (by omega)

end QsmtpModel.Lemmas
