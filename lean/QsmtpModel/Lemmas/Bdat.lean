/-
Helper lemmas for C19 (BDAT). Sender part: invariants of `scan`, `finishChunk`, `header`, `sendLoop`.
Receiver part: `netReadbin`, the in-buffer CRLF rewrite, `chunkLoop`, `smtpBdat`.
-/
import QsmtpModel.Bdat
import QsmtpModel.Spec.Bdat

namespace QsmtpModel.Bdat
open QsmtpModel QsmtpModel.Spec.Bdat

/-! The proofs depend on the extracted constants only through these facts; when `Gen` changes they
are re-checked (and break if a constant moved). -/
theorem reserved_eq : Gen.bdatReserved = 12 := rfl
theorem hdrBase_eq : Gen.bdatHdrBase = 7 := rfl
theorem lastLen_eq : Gen.bdatLastLen = 5 := rfl
theorem verbLen_eq : Gen.bdatVerbLen = 5 := rfl
theorem verbOff_eq : Gen.bdatVerbOff = 5 := rfl
theorem lastBlitOff_eq : Gen.bdatLastBlitOff = 7 := rfl
theorem lastBlitLen_eq : Gen.bdatLastBlitLen = 7 := rfl
theorem crOff_eq : Gen.bdatCrOff = 2 := rfl
theorem lfOff_eq : Gen.bdatLfOff = 1 := rfl
theorem loopSlack_eq : Gen.bdatLoopSlack = 1 := rfl
/-- the LF behind a CR that ends a chunk is looked for up to the last byte of the message
(`off < msgsize`); with `off < msgsize - 1` (slack 1) the property fails, see corpus/C19/001 -/
theorem peekSlack_eq : Gen.bdatLfPeekSlack = 0 := rfl
theorem okCode_eq : Gen.bdatOkCode = 250 := rfl
theorem bufSlack_eq : Gen.bdatBufSlack = 1 := rfl
theorem argOff_eq : Gen.bdatArgOff = 5 := rfl
/-- what `Bdat.session` (and the harness' dispatcher) assumes about the BDAT row of `commands[]`:
flags 5 = takes arguments + blank required (and no own length check: lines > 510 are refused), the
row leaves `comstate` alone, BDAT is allowed after RCPT (0x40) and inside a transfer (`bdatState`) -/
theorem bdatFlags_eq : Gen.bdatFlags = 5 := rfl
theorem bdatRow_keeps_state : Gen.bdatRowStateIsKeep = 1 := rfl
theorem bdatMask_eq : Gen.bdatMask = 0x40 ||| Gen.bdatState := by decide
theorem bdatState_eq : Gen.bdatState = 0x0800 := rfl

/-! ## lists -/

/-- `m[a .. b)` -/
def slice (m : List Byte) (a b : Nat) : List Byte := (m.take b).drop a

theorem slice_self (m : List Byte) (a : Nat) : slice m a a = [] := by
  unfold slice
  apply List.drop_eq_nil_of_le
  simp [List.length_take]; omega

theorem slice_succ (m : List Byte) (a b : Nat) (hab : a ≤ b) (hb : b < m.length) :
    slice m a (b + 1) = slice m a b ++ [m[b]] := by
  unfold slice
  rw [← List.take_append_getElem hb, List.drop_append_of_le_length]
  simp [List.length_take]; omega

theorem slice_length (m : List Byte) (a b : Nat) (hb : b ≤ m.length) : (slice m a b).length = b - a := by
  unfold slice; simp [List.length_take]; omega

theorem slice_getLast (m : List Byte) (a b : Nat) (hab : a < b) (hb : b ≤ m.length) :
    (slice m a b).getLast? = m[b - 1]? := by
  unfold slice
  rw [List.getLast?_eq_getElem?]
  simp only [List.length_drop, List.length_take, List.getElem?_drop, List.getElem?_take]
  have : a + (min b m.length - a - 1) = b - 1 := by omega
  rw [this, if_pos (by omega)]

theorem drop_take_eq_slice (m : List Byte) (a n : Nat) : (m.drop a).take n = slice m a (a + n) := by
  unfold slice; rw [List.take_drop]

theorem slice_append (m : List Byte) (a b c : Nat) (hab : a ≤ b) (hbc : b ≤ c) (hc : c ≤ m.length) :
    slice m a c = slice m a b ++ slice m b c := by
  unfold slice
  have h1 : m.take c = m.take b ++ (m.take c).drop b := by
    have := List.take_append_drop b (m.take c)
    rw [List.take_take] at this
    rw [Nat.min_eq_left hbc] at this
    exact this.symm
  conv => lhs; rw [h1]
  rw [List.drop_append_of_le_length]
  simp [List.length_take]; omega

theorem drop_eq_slice_append (m : List Byte) (a b : Nat) (hab : a ≤ b) (hb : b ≤ m.length) :
    m.drop a = slice m a b ++ m.drop b := by
  unfold slice
  conv => lhs; rw [← List.take_append_drop b m]
  rw [List.drop_append_of_le_length]
  simp [List.length_take]; omega

/-! ## the normalisation specification -/

/-- the flag "the byte before is CR" behind `l`, when it was `p` in front of `l` -/
def endsCR (p : Bool) (l : List Byte) : Bool :=
  match l.getLast? with
  | none => p
  | some x => decide (x = CR)

theorem endsCR_nil (p : Bool) : endsCR p [] = p := rfl

theorem endsCR_cons (p : Bool) (x : Byte) (t : List Byte) :
    endsCR p (x :: t) = endsCR (decide (x = CR)) t := by
  cases t with
  | nil => simp [endsCR]
  | cons y t' =>
    have h : (x :: y :: t').getLast? = (y :: t').getLast? := List.getLast?_cons_cons
    simp only [endsCR, h]
    cases hh : (y :: t').getLast? with
    | none => simp at hh
    | some z => rfl

theorem normalizeLf_snoc (p : Bool) (l : List Byte) (b : Byte) :
    normalizeLf p (l ++ [b]) =
      normalizeLf p l ++ (if b = LF ∧ ¬ (endsCR p l = true) then [CR, LF] else [b]) := by
  induction l generalizing p with
  | nil => simp [normalizeLf, endsCR]
  | cons x t ih =>
    simp only [List.cons_append, normalizeLf, ih, endsCR_cons, List.append_assoc]

theorem normalizeLf_append (p : Bool) (a b : List Byte) :
    normalizeLf p (a ++ b) = normalizeLf p a ++ normalizeLf (endsCR p a) b := by
  induction a generalizing p with
  | nil => simp [normalizeLf, endsCR]
  | cons x t ih => simp only [List.cons_append, normalizeLf, ih, endsCR_cons, List.append_assoc]

theorem endsCR_slice (p : Bool) (m : List Byte) (a b : Nat) (hab : a < b) (hb : b ≤ m.length) :
    endsCR p (slice m a b) = decide (m[b - 1]? = some CR) := by
  unfold endsCR
  rw [slice_getLast m a b hab hb]
  have : b - 1 < m.length := by omega
  rw [List.getElem?_eq_getElem this]
  simp

theorem normOk_append (p : Bool) (a b rest : List Byte)
    (h : normOk (endsCR p a) b rest = true) : normOk p (a ++ b) (normalizeLf p a ++ rest) = true := by
  induction a generalizing p with
  | nil => simpa [normalizeLf, endsCR] using h
  | cons x t ih =>
    rw [endsCR_cons] at h
    by_cases hx : x = LF ∧ ¬ (p = true)
    · have hxcr : decide (x = CR) = false := by rw [hx.1]; decide
      rw [hxcr] at h
      simp only [List.cons_append, normalizeLf, hx, normOk]
      simp only [show decide (LF = CR) = false by decide]
      simpa using ih false h
    · simp only [List.cons_append, normalizeLf, hx, if_false, normOk]
      simp only [true_and]
      split
      · rename_i hcr
        rw [hcr.1] at h
        simp only [decide_true] at h
        have := ih true h
        simp [hcr.1, this]
      · simpa using ih _ h

theorem normOk_complete (p : Bool) (a b rest : List Byte) (ha : a.getLast? = some CR)
    (hb : b.head? ≠ some LF) (h : normOk false b rest = true) :
    normOk p (a ++ b) (normalizeLf p a ++ LF :: rest) = true := by
  obtain ⟨a', rfl⟩ := List.getLast?_eq_some_iff.mp ha
  rw [normalizeLf_snoc, if_neg (by intro hh; exact absurd hh.1 (by decide)), List.append_assoc, List.append_assoc]
  apply normOk_append
  simp only [List.singleton_append, normOk]
  simp [hb, h, show ¬ (CR = LF) by decide]


/-! ## Sender: the scan of one chunk -/

structure ScanInv (m : List Byte) (cs lenlen off0 : Nat) (s : Scan) : Prop where
  off_eq : s.off = s.cpoff + s.linel
  len_eq : s.len = lenlen + s.pay.length
  off_le : s.off ≤ m.length
  start_le : off0 ≤ s.cpoff
  content : s.pay ++ slice m s.cpoff s.off = normalizeLf false (slice m off0 s.off)
  fresh : s.linel = 0 → s.off = off0 ∨ (1 ≤ s.off ∧ m[s.off - 1]? = some LF)
  room : s.len + s.linel ≤ cs
  roomCR : off0 < s.off → m[s.off - 1]? = some CR → s.len + s.linel + 1 ≤ cs

theorem subWrap_one (cs : Nat) (h : 1 ≤ cs) : subWrap cs Gen.bdatLoopSlack = cs - 1 := by
  unfold subWrap; rw [loopSlack_eq]; simp [h]

/-- `normalizeLf false` of the processed slice grows by one input byte -/
theorem norm_step (m : List Byte) (off0 off : Nat) (h0 : off0 ≤ off) (h : off < m.length) :
    normalizeLf false (slice m off0 (off + 1)) =
      normalizeLf false (slice m off0 off) ++
        (if m[off] = LF ∧ ¬ (endsCR false (slice m off0 off) = true) then [CR, LF] else [m[off]]) := by
  rw [slice_succ m off0 off h0 h, normalizeLf_snoc]

theorem scan_spec (m : List Byte) (cs lenlen off0 : Nat) (hcs : 1 ≤ cs) (s : Scan)
    (hI : ScanInv m cs lenlen off0 s) :
    ∃ s', scan m cs s = .ok s' ∧ ScanInv m cs lenlen off0 s' ∧ s.off ≤ s'.off ∧
      ¬ (s'.off < m.length ∧ s'.len + s'.linel < cs - 1) ∧
      ((s.off < m.length ∧ s.len + s.linel < cs - 1) → s.off < s'.off) := by
  fun_induction scan m cs s with
  | case1 s h hlf hl0 hlen ih =>
    rw [subWrap_one cs hcs] at h
    have hI' : ScanInv m cs lenlen off0 { off := s.off + 1, len := s.len + 1, cpoff := s.cpoff, linel := 1, pay := s.pay ++ [CR] } := by
      have hoe := hI.off_eq
      have hcp : s.cpoff = s.off := by omega
      have hc := hI.content
      rw [hcp, slice_self, List.append_nil] at hc
      have hends : endsCR false (slice m off0 s.off) = false := by
        rcases hI.fresh hl0 with h1 | ⟨h1, h2⟩
        · rw [h1, slice_self]; rfl
        · by_cases h3 : s.off = off0
          · rw [h3, slice_self]; rfl
          · have := hI.start_le
            rw [endsCR_slice false m off0 s.off (by omega) hI.off_le, h2]; decide
      refine ⟨by simp; omega, by simp; have := hI.len_eq; omega, by simp; omega, hI.start_le, ?_, by simp, by simp; omega, ?_⟩
      · simp only
        rw [norm_step m off0 s.off (by have := hI.start_le; omega) h.1, hcp,
          slice_succ m s.off s.off (Nat.le_refl _) h.1, slice_self, hlf, hends, ← hc]
        simp
      · intro _ hcr
        simp only [Nat.add_sub_cancel] at hcr
        rw [List.getElem?_eq_getElem h.1, hlf] at hcr
        exact absurd hcr (by decide)
    obtain ⟨s', h1, h2, h3, h4, _⟩ := ih hI'
    exact ⟨s', h1, h2, by simp at h3; omega, h4, fun _ => by simp at h3; omega⟩
  | case2 s h hlf hl0 hlen =>
    rw [subWrap_one cs hcs] at h; omega
  | case3 s h hlf hl0 hoff =>
    have := hI.off_eq; omega
  | case4 s h hlf hl0 hoff hprev hcp =>
    have := hI.off_eq; omega
  | case5 s h hlf hl0 hoff hprev hcp hw =>
    rw [subWrap_one cs hcs] at h; omega
  | case6 s h hlf hl0 hoff hprev hcp hw ih =>
    rw [subWrap_one cs hcs] at h
    have hoe := hI.off_eq
    have hsl := hI.start_le
    have hI' : ScanInv m cs lenlen off0
        { off := s.off + 1, len := s.len + s.linel + 2, cpoff := s.cpoff + s.linel + 1, linel := 0,
          pay := s.pay ++ List.take s.linel (List.drop s.cpoff m) ++ [CR, LF] } := by
      have hends : endsCR false (slice m off0 s.off) = false := by
        rw [endsCR_slice false m off0 s.off (by omega) hI.off_le]
        simpa using hprev
      refine ⟨by simp; omega, ?_, by simp; omega, by simp; omega, ?_, ?_, by simp; omega, ?_⟩
      · simp [List.length_take, List.length_drop]; have := hI.len_eq; omega
      · simp only
        rw [norm_step m off0 s.off (by omega) h.1, hlf, hends, ← hI.content, drop_take_eq_slice, ← hoe, slice_self]
        simp
      · intro _
        right
        simp only [Nat.add_sub_cancel]
        exact ⟨by omega, by rw [List.getElem?_eq_getElem h.1, hlf]⟩
      · intro _ hcr
        simp only [Nat.add_sub_cancel] at hcr
        rw [List.getElem?_eq_getElem h.1, hlf] at hcr
        exact absurd hcr (by decide)
    obtain ⟨s', h1, h2, h3, h4, _⟩ := ih hI'
    exact ⟨s', h1, h2, by simp at h3; omega, h4, fun _ => by simp at h3; omega⟩
  | case7 s h hlf hl0 hoff hprev ih =>
    rw [subWrap_one cs hcs] at h
    have hoe := hI.off_eq
    have hsl := hI.start_le
    have hI' : ScanInv m cs lenlen off0 { s with off := s.off + 1, linel := s.linel + 1 } := by
      have hends : endsCR false (slice m off0 s.off) = true := by
        rw [endsCR_slice false m off0 s.off (by omega) hI.off_le]
        simpa using hprev
      refine ⟨by simp; omega, hI.len_eq, by simp; omega, hI.start_le, ?_, by simp, by simp; omega, ?_⟩
      · simp only
        rw [norm_step m off0 s.off (by omega) h.1, hlf, hends, ← hI.content,
          slice_succ m s.cpoff s.off (by omega) h.1, hlf]
        simp
      · intro _ hcr
        simp only [Nat.add_sub_cancel] at hcr
        rw [List.getElem?_eq_getElem h.1, hlf] at hcr
        exact absurd hcr (by decide)
    obtain ⟨s', h1, h2, h3, h4, _⟩ := ih hI'
    exact ⟨s', h1, h2, by simp at h3; omega, h4, fun _ => by simp at h3; omega⟩
  | case8 s h hlf ih =>
    rw [subWrap_one cs hcs] at h
    have hoe := hI.off_eq
    have hsl := hI.start_le
    have hI' : ScanInv m cs lenlen off0 { s with off := s.off + 1, linel := s.linel + 1 } := by
      refine ⟨by simp; omega, hI.len_eq, by simp; omega, hI.start_le, ?_, by simp, by simp; omega, ?_⟩
      · simp only
        rw [norm_step m off0 s.off (by omega) h.1, ← hI.content,
          slice_succ m s.cpoff s.off (by omega) h.1]
        simp [hlf]
      · intro _ _
        simp only; omega
    obtain ⟨s', h1, h2, h3, h4, _⟩ := ih hI'
    exact ⟨s', h1, h2, by simp at h3; omega, h4, fun _ => by simp at h3; omega⟩
  | case9 s h =>
    rw [subWrap_one cs hcs] at h
    exact ⟨s, rfl, hI, Nat.le_refl _, h, fun h' => absurd h' h⟩

theorem finish_spec (m : List Byte) (cs lenlen off0 : Nat) (s : Scan)
    (hI : ScanInv m cs lenlen off0 s) (hprog : off0 < s.off) :
    ∃ c, finishChunk m cs s = .ok c ∧ s.off ≤ c.off ∧ c.off ≤ m.length ∧ lenlen + c.pay.length ≤ cs ∧
      (∀ rest, normOk false (m.drop c.off) rest = true →
        normOk false (m.drop off0) (c.pay ++ rest) = true) := by
  have hoe := hI.off_eq
  have hsl := hI.start_le
  have hle := hI.off_le
  have hlen := hI.len_eq
  have hroom := hI.room
  unfold finishChunk
  by_cases hl0 : s.linel = 0
  · rw [if_pos hl0]
    refine ⟨_, rfl, Nat.le_refl _, hle, by simp only; omega, ?_⟩
    intro rest hr
    simp only at hr ⊢
    have hc := hI.content
    rw [show s.cpoff = s.off by omega, slice_self, List.append_nil] at hc
    rw [hc, drop_eq_slice_append m off0 s.off (by omega) hle]
    apply normOk_append
    rcases hI.fresh hl0 with h1 | ⟨_, h2⟩
    · omega
    · rw [endsCR_slice false m off0 s.off hprog hle, h2,
        show decide ((some LF : Option Byte) = some CR) = false by decide]
      exact hr
  · have hlt : s.off - 1 < m.length := by omega
    have hpay : s.pay ++ List.take s.linel (List.drop s.cpoff m) = normalizeLf false (slice m off0 s.off) := by
      rw [drop_take_eq_slice, ← hoe]; exact hI.content
    have hpl : (s.pay ++ List.take s.linel (List.drop s.cpoff m)).length = s.pay.length + s.linel := by
      simp [List.length_take, List.length_drop]; omega
    rw [if_neg hl0, if_neg (by omega), if_neg (by omega)]
    simp only
    rw [if_neg (by omega), List.getElem?_eq_getElem hlt]
    simp only
    by_cases hcr : m[s.off - 1] = CR
    · have hroomCR := hI.roomCR hprog (by rw [List.getElem?_eq_getElem hlt, hcr])
      have hlast : (slice m off0 s.off).getLast? = some CR := by
        rw [slice_getLast m off0 s.off hprog hle, List.getElem?_eq_getElem hlt, hcr]
      rw [if_pos hcr, if_pos (by omega), peekSlack_eq]
      by_cases hmore : s.off < m.length
      · rw [if_pos (by omega), List.getElem?_eq_getElem hmore]
        simp only
        by_cases hx : m[s.off] = LF
        · rw [if_pos hx]
          refine ⟨_, rfl, by simp, by simp only; omega, ?_, ?_⟩
          · simp only [List.length_append, hpl, List.length_singleton]; omega
          · intro rest hr
            simp only at hr ⊢
            have he : endsCR false (slice m off0 s.off) = true := by
              rw [endsCR_slice false m off0 s.off hprog hle, List.getElem?_eq_getElem hlt, hcr]; simp
            have hn : normalizeLf false (slice m off0 (s.off + 1)) = normalizeLf false (slice m off0 s.off) ++ [LF] := by
              rw [norm_step m off0 s.off (by omega) hmore, hx, he]; simp
            rw [hpay, drop_eq_slice_append m off0 (s.off + 1) (by omega) (by omega), ← hn]
            apply normOk_append
            rw [endsCR_slice false m off0 (s.off + 1) (by omega) (by omega)]
            simp only [Nat.add_sub_cancel]
            rw [List.getElem?_eq_getElem hmore, hx,
              show decide ((some LF : Option Byte) = some CR) = false by decide]
            exact hr
        · rw [if_neg hx]
          refine ⟨_, rfl, Nat.le_refl _, hle, ?_, ?_⟩
          · simp only [List.length_append, hpl, List.length_singleton]; omega
          · intro rest hr
            simp only at hr ⊢
            rw [hpay, drop_eq_slice_append m off0 s.off (by omega) hle, List.append_assoc]
            apply normOk_complete _ _ _ _ hlast _ hr
            rw [List.head?_drop, List.getElem?_eq_getElem hmore]
            simpa using hx
      · rw [if_neg (by omega)]
        refine ⟨_, rfl, Nat.le_refl _, hle, ?_, ?_⟩
        · simp only [List.length_append, hpl, List.length_singleton]; omega
        · intro rest hr
          simp only at hr ⊢
          rw [hpay, drop_eq_slice_append m off0 s.off (by omega) hle, List.append_assoc]
          apply normOk_complete _ _ _ _ hlast _ hr
          rw [List.drop_eq_nil_of_le (by omega)]
          simp
    · rw [if_neg hcr]
      refine ⟨_, rfl, Nat.le_refl _, hle, by simp only; omega, ?_⟩
      intro rest hr
      simp only at hr ⊢
      rw [hpay, drop_eq_slice_append m off0 s.off (by omega) hle]
      apply normOk_append
      rw [endsCR_slice false m off0 s.off hprog hle, List.getElem?_eq_getElem hlt]
      simpa [hcr] using hr


/-! ## Sender: the header -/

theorem digits_zero : digits 0 = 0 := by unfold digits; simp

theorem digits_pos (n : Nat) (h : n ≠ 0) : digits n = 1 + digits (n / 10) := by
  rw [digits]; simp [h]

theorem digits_mono (a b : Nat) (h : a ≤ b) : digits a ≤ digits b := by
  induction b using Nat.strongRecOn generalizing a with
  | _ b ih =>
    by_cases ha : a = 0
    · rw [ha, digits_zero]; omega
    · have hb : b ≠ 0 := by omega
      rw [digits_pos a ha, digits_pos b hb]
      have := ih (b / 10) (Nat.div_lt_self (by omega) (by decide)) (a / 10) (Nat.div_le_div_right h)
      omega

theorem dec_length (n : Nat) : (dec n).length = if n = 0 then 1 else digits n := by
  induction n using Nat.strongRecOn with
  | _ n ih =>
    rw [dec]
    by_cases h : n < 10
    · rw [dif_pos h]
      by_cases h0 : n = 0
      · simp [h0]
      · rw [if_neg h0, digits_pos n h0, show n / 10 = 0 by omega, digits_zero]; simp
    · rw [dif_neg h]
      have := ih (n / 10) (by omega)
      rw [List.length_append, this, if_neg (by omega), if_neg (by omega), digits_pos n (by omega)]
      simp; omega

theorem blit_mid (A X B bs : List Byte) (lim : Nat) (hx : X.length = bs.length)
    (hl : A.length + bs.length ≤ lim) : blit (A ++ X ++ B) lim A.length bs = .ok (A ++ bs ++ B) := by
  unfold blit
  rw [if_neg (by omega), if_neg (by simp; omega)]
  congr 2
  · rw [List.append_assoc, List.take_left]
  · rw [← hx, show A.length + X.length = (A ++ X).length by simp, List.drop_left]

theorem split_len (l : List Byte) (a b : Nat) (h : l.length = a + b) :
    ∃ x y, l = x ++ y ∧ x.length = a ∧ y.length = b :=
  ⟨l.take a, l.drop a, (List.take_append_drop a l).symm, by simp [List.length_take]; omega, by simp [List.length_drop]; omega⟩


theorem header_spec (hdr : List Byte) (cs lenlen n : Nat) (last : Bool)
    (hlen : hdr.length = lenlen) (hll : lenlen = digits cs + 12) (hn : lenlen + n ≤ cs) :
    ∃ hdr', header hdr cs lenlen n last = .ok (hdr', lenlen - (hdrBytes n last).length) ∧
      hdr'.length = lenlen ∧ hdr'.drop (lenlen - (hdrBytes n last).length) = hdrBytes n last ∧
      (hdrBytes n last).length ≤ lenlen := by
  have hk : (dec n).length ≤ digits cs ∨ ((dec n).length = 1 ∧ n = 0) := by
    rw [dec_length]
    by_cases h0 : n = 0
    · right; simp [h0]
    · left; rw [if_neg h0]; exact digits_mono n cs (by omega)
  have hk1 : 1 ≤ digits cs ∨ n ≠ 0 → (dec n).length ≤ digits cs := by
    intro _
    rcases hk with h | ⟨h1, h2⟩
    · exact h
    · have : cs ≠ 0 := by omega
      rw [h1, digits_pos cs this]; omega
  have hkd : (dec n).length ≤ digits cs := by
    apply hk1
    by_cases hc : cs = 0
    · omega
    · left; rw [digits_pos cs hc]; omega
  have hbl : (hdrBytes n last).length = 5 + (dec n).length + (if last then 7 else 2) := by
    unfold hdrBytes; cases last <;> simp [bdatSp, lastCrlf] <;> omega
  have hi : hdrLen n last = (hdrBytes n last).length := by
    unfold hdrLen
    rw [hbl, hdrBase_eq, lastLen_eq, dec_length]
    cases last <;> simp <;> omega
  unfold header
  simp only
  rw [hi]
  have hfit : (hdrBytes n last).length ≤ lenlen := by
    rw [hbl]; cases last <;> simp <;> omega
  rw [if_neg (by omega)]
  rw [verbLen_eq, verbOff_eq, lastBlitOff_eq, lastBlitLen_eq, crOff_eq, lfOff_eq]
  -- decompose the header region
  obtain ⟨A, R1, rfl, hA, hR1⟩ := split_len hdr (lenlen - (hdrBytes n last).length) (hdrBytes n last).length (by omega)
  obtain ⟨X1, R2, rfl, hX1, hR2⟩ := split_len R1 5 ((dec n).length + (if last then 7 else 2)) (by omega)
  obtain ⟨X2, R3, rfl, hX2, hR3⟩ := split_len R2 (dec n).length (if last then 7 else 2) (by omega)
  have e1 : blit (A ++ (X1 ++ (X2 ++ R3))) cs (lenlen - (hdrBytes n last).length) (bdatSp.take 5) =
      .ok (A ++ bdatSp ++ (X2 ++ R3)) := by
    have := blit_mid A X1 (X2 ++ R3) bdatSp cs (by simp [hX1, bdatSp]) (by simp [bdatSp]; omega)
    rw [hA] at this
    rw [show bdatSp.take 5 = bdatSp by rfl, ← this]
    simp
  cases last with
  | false =>
    simp only [if_false, Bool.false_eq_true] at hR3 hbl ⊢
    obtain ⟨y, z, rfl⟩ : ∃ y z, R3 = [y, z] := by
      match R3, hR3 with
      | [y, z], _ => exact ⟨y, z, rfl⟩
    rw [e1]
    simp only [bind, Except.bind]
    have e2 : blit (A ++ bdatSp ++ (X2 ++ [y, z])) cs (lenlen - (hdrBytes n false).length + 5) (dec n ++ [0]) =
        .ok (A ++ bdatSp ++ (dec n ++ [0]) ++ [z]) := by
      have := blit_mid (A ++ bdatSp) (X2 ++ [y]) [z] (dec n ++ [0]) cs (by simp [hX2]) (by simp [bdatSp]; omega)
      rw [show (A ++ bdatSp).length = lenlen - (hdrBytes n false).length + 5 by simp [bdatSp, hA]] at this
      rw [← this]; simp
    rw [e2]
    simp only
    have e3 : blit (A ++ bdatSp ++ (dec n ++ [0]) ++ [z]) cs (lenlen - 2) [CR] =
        .ok (A ++ bdatSp ++ dec n ++ [CR] ++ [z]) := by
      have := blit_mid (A ++ bdatSp ++ dec n) [0] [z] [CR] cs rfl (by simp [bdatSp]; omega)
      rw [show (A ++ bdatSp ++ dec n).length = lenlen - 2 by simp [bdatSp, hA]; omega] at this
      rw [← this]; simp
    rw [e3]
    simp only
    have e4 : blit (A ++ bdatSp ++ dec n ++ [CR] ++ [z]) cs (lenlen - 1) [LF] =
        .ok (A ++ bdatSp ++ dec n ++ [CR] ++ [LF] ++ []) := by
      have := blit_mid (A ++ bdatSp ++ dec n ++ [CR]) [z] [] [LF] cs rfl (by simp [bdatSp]; omega)
      rw [show (A ++ bdatSp ++ dec n ++ [CR]).length = lenlen - 1 by simp [bdatSp, hA]; omega] at this
      rw [← this]; simp
    rw [e4]
    refine ⟨_, rfl, by simp [bdatSp, hA]; omega, ?_, hfit⟩
    rw [← hA]
    simp [hdrBytes, List.append_assoc]
  | true =>
    simp only [if_true] at hR3 hbl ⊢
    obtain ⟨y, R4, rfl⟩ : ∃ y R4, R3 = y :: R4 := by
      match R3, hR3 with
      | y :: R4, _ => exact ⟨y, R4, rfl⟩
    have hR4 : R4.length = 6 := by simpa using hR3
    rw [e1]
    simp only [bind, Except.bind]
    have e2 : blit (A ++ bdatSp ++ (X2 ++ y :: R4)) cs (lenlen - (hdrBytes n true).length + 5) (dec n ++ [0]) =
        .ok (A ++ bdatSp ++ (dec n ++ [0]) ++ R4) := by
      have := blit_mid (A ++ bdatSp) (X2 ++ [y]) R4 (dec n ++ [0]) cs (by simp [hX2]) (by simp [bdatSp]; omega)
      rw [show (A ++ bdatSp).length = lenlen - (hdrBytes n true).length + 5 by simp [bdatSp, hA]] at this
      rw [← this]; simp
    rw [e2]
    simp only
    have e3 : blit (A ++ bdatSp ++ (dec n ++ [0]) ++ R4) cs (lenlen - 7) (lastCrlf.take 7) =
        .ok (A ++ bdatSp ++ dec n ++ lastCrlf ++ []) := by
      have := blit_mid (A ++ bdatSp ++ dec n) ([0] ++ R4) [] lastCrlf cs (by simp [hR4, lastCrlf]) (by simp [bdatSp, lastCrlf]; omega)
      rw [show (A ++ bdatSp ++ dec n).length = lenlen - 7 by simp [bdatSp, hA]; omega] at this
      rw [show lastCrlf.take 7 = lastCrlf by rfl, ← this]; simp
    rw [e3]
    refine ⟨_, rfl, by simp [bdatSp, lastCrlf, hA]; omega, ?_, hfit⟩
    rw [← hA]
    simp [hdrBytes, List.append_assoc]


/-! ## Sender: the outer loop -/

theorem fitsHeader_iff (cs : Nat) : fitsHeader cs ↔ lenlenOf cs + 2 ≤ cs := by
  unfold fitsHeader; rw [loopSlack_eq]

theorem lenlenOf_eq (cs : Nat) : lenlenOf cs = digits cs + 12 := by
  unfold lenlenOf; rw [reserved_eq]

/-- one pass of the outer loop: scan, finish, header -/
theorem chunk_step (m : List Byte) (cs : Nat) (hfit : fitsHeader cs) (off : Nat) (hoff : off < m.length)
    (hdr : List Byte) (hhdr : hdr.length = lenlenOf cs) :
    ∃ s c hdr', scan m cs { off := off, len := lenlenOf cs, cpoff := off, linel := 0, pay := [] } = .ok s ∧
      finishChunk m cs s = .ok c ∧
      header hdr cs (lenlenOf cs) c.pay.length (c.off == m.length) =
        .ok (hdr', lenlenOf cs - (hdrBytes c.pay.length (c.off == m.length)).length) ∧
      hdr'.length = lenlenOf cs ∧
      hdr'.drop (lenlenOf cs - (hdrBytes c.pay.length (c.off == m.length)).length) =
        hdrBytes c.pay.length (c.off == m.length) ∧
      (hdrBytes c.pay.length (c.off == m.length)).length ≤ lenlenOf cs ∧
      off < c.off ∧ c.off ≤ m.length ∧ lenlenOf cs + c.pay.length ≤ cs ∧
      (∀ rest, normOk false (m.drop c.off) rest = true → normOk false (m.drop off) (c.pay ++ rest) = true) := by
  rw [fitsHeader_iff] at hfit
  have hI0 : ScanInv m cs (lenlenOf cs) off { off := off, len := lenlenOf cs, cpoff := off, linel := 0, pay := [] } := by
    refine ⟨rfl, rfl, by simp only; omega, Nat.le_refl _, ?_, fun _ => Or.inl rfl, by simp only; omega, ?_⟩
    · simp [slice_self, normalizeLf]
    · intro h; simp only at h; omega
  obtain ⟨s, hs, hIs, hle, _, hprog⟩ := scan_spec m cs (lenlenOf cs) off (by omega) _ hI0
  have hp : off < s.off := hprog ⟨hoff, by simp only; omega⟩
  obtain ⟨c, hc, hc1, hc2, hc3, hc4⟩ := finish_spec m cs (lenlenOf cs) off s hIs hp
  obtain ⟨hdr', hh1, hh2, hh3, hh4⟩ := header_spec hdr cs (lenlenOf cs) c.pay.length (c.off == m.length) hhdr
    (lenlenOf_eq cs) hc3
  exact ⟨s, c, hdr', hs, hc, hh1, hh2, hh3, hh4, by omega, hc2, hc3, hc4⟩

theorem framesOf_cons (p : List Byte) (ps : List (List Byte)) (h : ps ≠ []) :
    framesOf (p :: ps) = (hdrBytes p.length false ++ p) :: framesOf ps := by
  cases ps with
  | nil => exact absurd rfl h
  | cons q r => rfl

theorem sendLoop_terminates (m : List Byte) (cs : Nat) (hfit : fitsHeader cs) (off : Nat)
    (hdr : List Byte) (hhdr : hdr.length = lenlenOf cs) (oracle : List Nat) (acc : TxOut) :
    ∃ out, sendLoop m cs (lenlenOf cs) off hdr oracle acc = .ok out ∧ out.fin ≠ .loops := by
  induction hk : m.length - off using Nat.strongRecOn generalizing off hdr oracle acc with
  | _ k ih =>
    rw [sendLoop]
    by_cases hoff : off < m.length
    · rw [dif_pos hoff]
      obtain ⟨s, c, hdr', hs, hc, hh, hl, _, _, hlt, hle, _, _⟩ := chunk_step m cs hfit off hoff hdr hhdr
      rw [hs]; simp only
      rw [hc]; simp only
      rw [hh]; simp only
      by_cases hlast : (c.off == m.length) = true
      · rw [if_pos hlast]; exact ⟨_, rfl, by simp⟩
      · rw [if_neg hlast]
        by_cases hcode : oracle.headD Gen.bdatOkCode ≠ Gen.bdatOkCode
        · rw [if_pos hcode]; exact ⟨_, rfl, by simp⟩
        · rw [if_neg hcode, dif_neg (by omega)]
          exact ih (m.length - c.off) (by omega) c.off hdr' hl _ _ rfl
    · rw [dif_neg hoff]; exact ⟨_, rfl, by simp⟩

theorem sendLoop_spec (m : List Byte) (cs : Nat) (hfit : fitsHeader cs) (off : Nat) (hoff : off < m.length)
    (hdr : List Byte) (hhdr : hdr.length = lenlenOf cs) (oracle : List Nat)
    (hor : ∀ c ∈ oracle, c = Gen.bdatOkCode) (acc : TxOut) :
    ∃ pays out, sendLoop m cs (lenlenOf cs) off hdr oracle acc = .ok out ∧ out.fin = .done ∧
      out.frames = acc.frames ++ framesOf pays ∧ out.nreply + 1 = acc.nreply + pays.length ∧ pays ≠ [] ∧
      (∀ p ∈ pays, lenlenOf cs + p.length ≤ cs) ∧
      normOk false (m.drop off) pays.flatten = true := by
  induction hk : m.length - off using Nat.strongRecOn generalizing off hdr oracle acc with
  | _ k ih =>
    rw [sendLoop, dif_pos hoff]
    obtain ⟨s, c, hdr', hs, hc, hh, hl, hd, _, hlt, hle, hsz, hnorm⟩ := chunk_step m cs hfit off hoff hdr hhdr
    rw [hs]; simp only
    rw [hc]; simp only
    rw [hh]; simp only
    rw [hd]
    by_cases hlast : (c.off == m.length) = true
    · rw [if_pos hlast]
      refine ⟨[c.pay], _, rfl, rfl, ?_, by simp, by simp, ?_, ?_⟩
      · simp [framesOf, hlast]
      · intro p hp; simp at hp; rw [hp]; exact hsz
      · have : c.off = m.length := by simpa using hlast
        have h := hnorm [] (by rw [this, List.drop_length]; rfl)
        simpa using h
    · rw [if_neg hlast]
      have hc250 : oracle.headD Gen.bdatOkCode = Gen.bdatOkCode := by
        cases oracle with
        | nil => rfl
        | cons x t => exact hor x (by simp)
      rw [if_neg (by rw [hc250]; simp), dif_neg (by omega)]
      have hne : c.off ≠ m.length := by simpa using hlast
      obtain ⟨pays, out, ho, hfin, hfr, hnr, hpne, hpsz, hpn⟩ :=
        ih (m.length - c.off) (by omega) c.off (by omega) hdr' hl oracle.tail
          (fun x hx => hor x (List.mem_of_mem_tail hx))
          { frames := acc.frames ++ [hdrBytes c.pay.length (c.off == m.length) ++ c.pay],
            nreply := acc.nreply + 1, warn := acc.warn || c.bare, fin := acc.fin } rfl
      refine ⟨c.pay :: pays, out, ho, hfin, ?_, ?_, by simp, ?_, ?_⟩
      · rw [hfr, framesOf_cons _ _ hpne]
        simp [hlast]
      · simp only at hnr; simp only [List.length_cons]; omega
      · intro p hp
        rcases List.mem_cons.mp hp with rfl | hp
        · exact hsz
        · exact hpsz p hp
      · rw [List.flatten_cons]; exact hnorm _ hpn


theorem hdrBytes_len_le (cs n : Nat) (last : Bool) (h : lenlenOf cs + n ≤ cs) :
    (hdrBytes n last).length ≤ lenlenOf cs := by
  obtain ⟨_, _, _, _, h4⟩ := header_spec (List.replicate (lenlenOf cs) 0) cs (lenlenOf cs) n last (by simp)
    (lenlenOf_eq cs) h
  exact h4

theorem framesOf_mem (pays : List (List Byte)) (f : List Byte) (hf : f ∈ framesOf pays) :
    ∃ p ∈ pays, ∃ last, f = hdrBytes p.length last ++ p := by
  induction pays with
  | nil => simp [framesOf] at hf
  | cons p ps ih =>
    cases ps with
    | nil =>
      simp [framesOf] at hf
      exact ⟨p, by simp, true, hf⟩
    | cons q r =>
      rw [framesOf] at hf
      rcases List.mem_cons.mp hf with h | h
      · exact ⟨p, by simp, false, h⟩
      · obtain ⟨p', hp', l, hl⟩ := ih h
        exact ⟨p', List.mem_cons_of_mem _ hp', l, hl⟩

theorem digits_lt_ten (n : Nat) (h0 : n ≠ 0) (h : n < 10) : digits n = 1 := by
  rw [digits_pos n h0, show n / 10 = 0 by omega, digits_zero]

theorem digits_two (n : Nat) (h0 : 10 ≤ n) (h : n < 100) : digits n = 2 := by
  rw [digits_pos n (by omega), digits_lt_ten (n / 10) (by omega) (by omega)]

theorem digits_bound (n : Nat) (h : 16 ≤ n) : digits n + 14 ≤ n := by
  induction n using Nat.strongRecOn with
  | _ n ih =>
    by_cases h1 : n < 100
    · rw [digits_two n (by omega) h1]; omega
    · by_cases h2 : n < 160
      · rw [digits_pos n (by omega), digits_two (n / 10) (by omega) (by omega)]; omega
      · have := ih (n / 10) (by omega) (by omega)
        rw [digits_pos n (by omega)]; omega

theorem fitsHeader_iff_16 (cs : Nat) : fitsHeader cs ↔ 16 ≤ cs := by
  rw [fitsHeader_iff, lenlenOf_eq]
  constructor
  · intro h
    by_cases h1 : cs < 10
    · by_cases h0 : cs = 0
      · omega
      · rw [digits_lt_ten cs h0 h1] at h; omega
    · by_cases h2 : cs < 100
      · rw [digits_two cs (by omega) h2] at h; omega
      · omega
  · intro h; have := digits_bound cs h; omega


/-- chunk sizes that hold a header but not header + 2: the inner loop never runs, `off` stays, the
same empty `BDAT 0` is sent again and again -/
theorem no_progress (cs : Nat) (h1 : lenlenOf cs ≤ cs) (h2 : ¬ fitsHeader cs) (m : List Byte) (hm : m ≠ [])
    (oracle : List Nat) (hor : ∀ c ∈ oracle, c = Gen.bdatOkCode) :
    ∃ out, sendBdat cs m oracle = .ok out ∧ out.fin = .loops ∧ out.frames = [hdrBytes 0 false] := by
  have hc250 : oracle.headD Gen.bdatOkCode = Gen.bdatOkCode := by
    cases oracle with
    | nil => rfl
    | cons y _ => exact hor y (by simp)
  rw [fitsHeader_iff] at h2
  have hcs : 1 ≤ cs := by rw [lenlenOf_eq] at h1; omega
  have hlen : 0 < m.length := List.length_pos_iff.mpr hm
  unfold sendBdat
  rw [sendLoop, dif_pos hlen, scan, dif_neg (by rw [subWrap_one cs hcs]; simp only; omega)]
  simp only [finishChunk, if_true, List.length_nil]
  have hl : ((0 : Nat) == m.length) = false := by simp; omega
  rw [hl]
  obtain ⟨hdr', hh1, _, hh3, _⟩ := header_spec (List.replicate (lenlenOf cs) 0) cs (lenlenOf cs) 0 false (by simp)
    (lenlenOf_eq cs) (by omega)
  rw [hh1]
  simp only [hh3, List.append_nil, Bool.false_eq_true, if_false]
  rw [if_neg (by rw [hc250]; simp), dif_pos (Or.inl (Nat.le_refl _))]
  exact ⟨_, rfl, rfl, rfl⟩


/-! ## Receiver: the specification `crlfToLf` -/

theorem crlfToLf_cons_ne (b : Byte) (t : List Byte) (h : b ≠ CR) : crlfToLf (b :: t) = b :: crlfToLf t := by
  cases t with
  | nil => simp [crlfToLf]
  | cons c t' => rw [crlfToLf]; simp [h]

theorem crlfToLf_cr_lf (t : List Byte) : crlfToLf (CR :: LF :: t) = LF :: crlfToLf t := by
  rw [crlfToLf]; simp

theorem crlfToLf_cr_ne (t : List Byte) (h : t.head? ≠ some LF) : crlfToLf (CR :: t) = CR :: crlfToLf t := by
  cases t with
  | nil => simp [crlfToLf]
  | cons c t' =>
    rw [crlfToLf]
    have : c ≠ LF := by simpa using h
    simp [this]

theorem crlfToLf_append (x y : List Byte) (h : ¬ (x.getLast? = some CR ∧ y.head? = some LF)) :
    crlfToLf (x ++ y) = crlfToLf x ++ crlfToLf y := by
  induction x using crlfToLf.induct with
  | case1 => simp [crlfToLf]
  | case2 b =>
    simp only [List.singleton_append]
    by_cases hb : b = CR
    · subst hb
      rw [crlfToLf_cr_ne y (by simpa using h)]
      simp [crlfToLf]
    · rw [crlfToLf_cons_ne b y hb]; simp [crlfToLf]
  | case3 a b t hab ih =>
    have ha := hab.1; have hb := hab.2
    subst ha; subst hb
    simp only [List.cons_append]
    rw [crlfToLf_cr_lf, crlfToLf_cr_lf, ih]
    · simp
    · cases t with
      | nil => simpa using h
      | cons c t' => simpa [List.getLast?_cons_cons] using h
  | case4 a b t hab ih =>
    have hx : (a :: b :: t).getLast? = (b :: t).getLast? := List.getLast?_cons_cons
    rw [hx] at h
    have e1 : crlfToLf (a :: b :: t) = a :: crlfToLf (b :: t) := by
      rw [crlfToLf]; simp [hab]
    have e2 : crlfToLf (a :: (b :: t ++ y)) = a :: crlfToLf (b :: t ++ y) := by
      simp only [List.cons_append]
      rw [crlfToLf]; simp [hab]
    simp only [List.cons_append] at e2 ih ⊢
    rw [e1, e2, ih h]
    simp

theorem crlfToLf_snoc_cr (x : List Byte) : crlfToLf (x ++ [CR]) = crlfToLf x ++ [CR] := by
  rw [crlfToLf_append x [CR] (by simp; intro _; decide)]
  simp [crlfToLf]

/-- index of the first CRLF pair -/
def pairIdx : List Byte → Option Nat
  | [] => none
  | [_] => none
  | a :: b :: t => if a = CR ∧ b = LF then some 0 else (pairIdx (b :: t)).map (· + 1)

theorem crlfToLf_noPair (l : List Byte) (h : pairIdx l = none) : crlfToLf l = l := by
  induction l using pairIdx.induct with
  | case1 => rfl
  | case2 a => rfl
  | case3 a b t hab => rw [pairIdx, if_pos hab] at h; simp at h
  | case4 a b t hab ih =>
    rw [pairIdx, if_neg hab] at h
    have : pairIdx (b :: t) = none := by simpa using h
    rw [crlfToLf]; simp [hab, ih this]

theorem crlfToLf_pair (l : List Byte) (k : Nat) (h : pairIdx l = some k) :
    crlfToLf l = l.take k ++ LF :: crlfToLf (l.drop (k + 2)) := by
  induction l using pairIdx.induct generalizing k with
  | case1 => simp [pairIdx] at h
  | case2 a => simp [pairIdx] at h
  | case3 a b t hab =>
    rw [pairIdx, if_pos hab] at h
    have : k = 0 := by simpa using h.symm
    subst this
    rw [crlfToLf]; simp [hab]
  | case4 a b t hab ih =>
    rw [pairIdx, if_neg hab] at h
    cases hp : pairIdx (b :: t) with
    | none => simp [hp] at h
    | some j =>
      simp [hp] at h
      subst h
      rw [crlfToLf]; simp [hab, ih j hp]


/-! ## Receiver: the in-buffer rewrite finds exactly the CRLF pairs -/

theorem pairIdx_cons_ne (a : Byte) (t : List Byte) (h : a ≠ CR) : pairIdx (a :: t) = (pairIdx t).map (· + 1) := by
  cases t with
  | nil => simp [pairIdx]
  | cons b t' => rw [pairIdx]; simp [h]

theorem pairIdx_cr_ne (t : List Byte) (h : t.head? ≠ some LF) : pairIdx (CR :: t) = (pairIdx t).map (· + 1) := by
  cases t with
  | nil => simp [pairIdx]
  | cons b t' =>
    have : b ≠ LF := by simpa using h
    rw [pairIdx]; simp [this]

theorem pairIdx_cr_lf (t : List Byte) : pairIdx (CR :: LF :: t) = some 0 := by
  rw [pairIdx]; simp

theorem memchr_none_pair (l : List Byte) (h : memchr CR l = none) : pairIdx l = none := by
  induction l with
  | nil => rfl
  | cons a t ih =>
    unfold memchr at h
    split at h
    · simp at h
    · rename_i hne
      have : memchr CR t = none := by simpa using h
      rw [pairIdx_cons_ne a t hne, ih this]; rfl

theorem memchr_some_pair (l : List Byte) (k : Nat) (h : memchr CR l = some k) :
    pairIdx l = (pairIdx (l.drop k)).map (· + k) ∧ (l.drop k).head? = some CR := by
  induction l generalizing k with
  | nil => simp [memchr] at h
  | cons a t ih =>
    unfold memchr at h
    split at h
    · rename_i heq
      have : k = 0 := by simpa using h.symm
      subst this
      simp [heq]
    · rename_i hne
      cases hm : memchr CR t with
      | none => simp [hm] at h
      | some j =>
        simp [hm] at h
        subst h
        obtain ⟨h1, h2⟩ := ih j hm
        rw [pairIdx_cons_ne a t hne, h1]
        simp [h2, Option.map_map, Function.comp_def, Nat.add_assoc]

theorem memchr_lt' (c : Byte) (l : List Byte) (n : Nat) (h : memchr c l = some n) : n < l.length := by
  induction l generalizing n with
  | nil => simp [memchr] at h
  | cons x xs ih =>
    unfold memchr at h
    split at h
    · simp at h; subst h; simp
    · cases hm : memchr c xs with
      | none => simp [hm] at h
      | some k => simp [hm] at h; subst h; have := ih k hm; simp; omega

theorem getS_lt (d : List Byte) (i : Nat) (h : i < d.length) : getS d i = some d[i] := by
  unfold getS; rw [if_pos h, List.getElem?_eq_getElem h]

theorem getS_end (d : List Byte) : getS d d.length = some 0 := by
  unfold getS; simp

theorem memchrB_eq (c : Byte) (l : List Byte) (n : Nat) : memchrB c l n = memchr c (l.take n) := by
  induction l generalizing n with
  | nil => simp [memchrB, memchr]
  | cons x xs ih =>
    cases n with
    | zero => simp [memchrB, memchr]
    | succ k => simp [memchrB, memchr, ih]

theorem memchrCR_tail (d : List Byte) (start : Nat) (h : start ≤ d.length) :
    memchrCR d start (d.length + 1 - start) = .ok ((memchr CR (d.drop start)).map (· + start)) := by
  unfold memchrCR
  rw [if_pos (by omega), memchrB_eq, List.take_of_length_le (by simp [List.length_drop]; omega)]

theorem memchrCR_exact (d : List Byte) (start : Nat) (h : start ≤ d.length) :
    memchrCR d start (d.length - start) = .ok ((memchr CR (d.drop start)).map (· + start)) := by
  unfold memchrCR
  rw [if_pos (by omega), memchrB_eq, List.take_of_length_le (by simp [List.length_drop])]

theorem innerLoop_spec (d : List Byte) (pos : Nat) (fuel c : Nat) (hpc : pos ≤ c) (hc : c < d.length)
    (hcr : d[c]? = some CR) (hf : d.length - c < fuel + 1) :
    innerLoop d pos (d.length - pos) fuel (some c) = .ok ((pairIdx (d.drop c)).map (· + c)) := by
  induction fuel generalizing c with
  | zero => omega
  | succ f ih =>
    have hdc : d.drop c = CR :: d.drop (c + 1) := by
      rw [List.drop_eq_getElem_cons hc]
      rw [List.getElem?_eq_getElem hc] at hcr
      simp at hcr; rw [hcr]
    unfold innerLoop
    simp only
    by_cases hlast : c + 1 < d.length
    · rw [getS_lt d (c + 1) hlast]
      simp only
      by_cases hx : d[c + 1] = LF
      · rw [if_pos hx]
        have : d.drop (c + 1) = LF :: d.drop (c + 2) := by
          rw [List.drop_eq_getElem_cons hlast, hx]
        rw [hdc, this, pairIdx_cr_lf]; simp
      · rw [if_neg hx, if_neg (by omega)]
        have hw : d.length - pos - (c - pos) = d.length + 1 - (c + 1) := by omega
        rw [hw, memchrCR_tail d (c + 1) (by omega)]
        simp only
        have hhead : (d.drop (c + 1)).head? ≠ some LF := by
          rw [List.head?_drop, List.getElem?_eq_getElem hlast]; simpa using hx
        rw [hdc, pairIdx_cr_ne _ hhead]
        cases hm : memchr CR (d.drop (c + 1)) with
        | none =>
          rw [memchr_none_pair _ hm]
          simp [innerLoop]
        | some k =>
          obtain ⟨h1, h2⟩ := memchr_some_pair _ k hm
          have hk : k < (d.drop (c + 1)).length := memchr_lt' _ _ _ hm
          rw [List.length_drop] at hk
          simp only [Option.map_some]
          rw [List.drop_drop, List.head?_drop] at h2
          rw [ih (k + (c + 1)) (by omega) (by omega) (by rw [← h2]; congr 1; omega) (by omega)]
          rw [h1, List.drop_drop]
          have : c + 1 + k = k + (c + 1) := by omega
          rw [this]
          simp [Option.map_map, Function.comp_def]
          cases pairIdx (d.drop (k + (c + 1))) <;> simp; omega
    · have hce : c + 1 = d.length := by omega
      rw [hce, getS_end]
      simp only
      rw [if_neg (by decide), if_neg (by omega)]
      have hw : d.length - pos - (c - pos) = d.length + 1 - d.length := by omega
      rw [hw, memchrCR_tail d d.length (Nat.le_refl _)]
      simp only [List.drop_length, memchr, Option.map_none]
      rw [hdc, hce, List.drop_length]
      simp [innerLoop, pairIdx]


theorem pairIdx_lt (l : List Byte) (k : Nat) (h : pairIdx l = some k) : k + 1 < l.length := by
  induction l using pairIdx.induct generalizing k with
  | case1 => simp [pairIdx] at h
  | case2 a => simp [pairIdx] at h
  | case3 a b t hab =>
    rw [pairIdx, if_pos hab] at h
    have : k = 0 := by simpa using h.symm
    subst this; simp
  | case4 a b t hab ih =>
    rw [pairIdx, if_neg hab] at h
    cases hp : pairIdx (b :: t) with
    | none => simp [hp] at h
    | some j =>
      simp [hp] at h
      subst h
      have := ih j hp
      simp at this ⊢; omega

theorem rewrite_spec (d : List Byte) (fuel pos : Nat) (hpos : pos ≤ d.length) (acc : List (List Byte))
    (hf : d.length - pos < fuel) :
    ∃ ws p r, rewrite d fuel pos (d.length - pos) (some pos) acc = .ok (ws, p, r) ∧ p ≤ d.length ∧
      ws.flatten ++ d.drop p = acc.flatten ++ crlfToLf (d.drop pos) := by
  induction fuel generalizing pos acc with
  | zero => omega
  | succ f ih =>
    unfold rewrite
    simp only
    by_cases h0 : d.length - pos = 0
    · rw [if_pos h0]
      refine ⟨acc, pos, _, rfl, hpos, ?_⟩
      rw [List.drop_eq_nil_of_le (by omega)]; simp [crlfToLf]
    · rw [if_neg h0, memchrCR_exact d pos hpos]
      simp only
      cases hm : memchr CR (d.drop pos) with
      | none =>
        simp only [Option.map_none, innerLoop]
        unfold rewrite
        refine ⟨acc, pos, _, rfl, hpos, ?_⟩
        rw [crlfToLf_noPair _ (memchr_none_pair _ hm)]
      | some k =>
        obtain ⟨h1, h2⟩ := memchr_some_pair _ k hm
        have hk : k < (d.drop pos).length := memchr_lt' _ _ _ hm
        rw [List.length_drop] at hk
        rw [List.drop_drop, List.head?_drop] at h2
        rw [List.drop_drop] at h1
        simp only [Option.map_some]
        rw [show k + pos = pos + k by omega,
          innerLoop_spec d pos (d.length + 1) (pos + k) (by omega) (by omega) h2 (by omega)]
        cases hp : pairIdx (d.drop (pos + k)) with
        | none =>
          simp only [Option.map_none]
          unfold rewrite
          refine ⟨acc, pos, _, rfl, hpos, ?_⟩
          rw [hp] at h1
          rw [crlfToLf_noPair _ (by simpa using h1)]
        | some j =>
          simp only [Option.map_some]
          rw [hp] at h1
          simp only [Option.map_some] at h1
          have hlt := pairIdx_lt _ _ h1
          rw [List.length_drop] at hlt
          rw [if_neg (by omega)]
          have hr : d.length - pos - (j + (pos + k) - pos + 1 + 1) = d.length - (j + (pos + k) + 2) := by omega
          rw [hr]
          obtain ⟨ws, p, r, hw, hp2, hfl⟩ := ih (j + (pos + k) + 2) (by omega)
            (acc ++ [(d.drop pos).take (j + (pos + k) - pos + 1 - 1) ++ [LF]]) (by omega)
          refine ⟨ws, p, r, hw, hp2, ?_⟩
          rw [hfl, crlfToLf_pair _ _ h1, List.drop_drop]
          have e1 : j + (pos + k) - pos + 1 - 1 = j + k := by omega
          have e2 : pos + (j + k + 2) = j + (pos + k) + 2 := by omega
          rw [e1, e2]
          simp

/-- the rewrite of a whole buffer yields `crlfToLf` of it -/
theorem rewrite_buffer (d : List Byte) :
    ∃ ws p r, rewrite d (d.length + 1) 0 d.length (some 0) [] = .ok (ws, p, r) ∧
      ws.flatten ++ d.drop p = crlfToLf d := by
  obtain ⟨ws, p, r, h1, _, h3⟩ := rewrite_spec d (d.length + 1) 0 (Nat.zero_le _) [] (by omega)
  exact ⟨ws, p, r, by simpa using h1, by simpa using h3⟩


/-! ## Receiver: `net_readbin` delivers exactly the next `num` bytes -/

theorem readinput_got (len : Nat) (fatal : Bool) (r : Rd) (hr : r.rerr = none) (hlen : 2 ≤ len)
    (hrest : r.rest ≠ []) :
    ∃ k r', readinput len fatal r = (.got (r.rest.take k), r') ∧ 1 ≤ k ∧ k ≤ len - 1 ∧ k ≤ r.rest.length ∧
      r'.rest = r.rest.drop k ∧ r'.inn = r.inn ∧ r'.rerr = none := by
  have hpos : 0 < r.rest.length := List.length_pos_iff.mpr hrest
  unfold readinput
  rw [if_neg (by rw [hr]; simp)]
  simp only
  cases hc : r.cuts with
  | nil =>
    simp only
    rw [if_neg (by omega)]
    exact ⟨_, _, rfl, by omega, by omega, by omega, rfl, rfl, hr⟩
  | cons c t =>
    simp only
    rw [if_neg (by omega)]
    exact ⟨_, _, rfl, by omega, by omega, by omega, rfl, rfl, hr⟩

theorem readbinLoop_spec (fuel num : Nat) (acc : List Byte) (r : Rd) (hr : r.rerr = none)
    (hnum : num ≤ r.rest.length) (hf : num ≤ fuel) :
    ∃ r', readbinLoop fuel num acc r = (.got (acc ++ r.rest.take num), r') ∧ r'.rest = r.rest.drop num ∧
      r'.inn = r.inn ∧ r'.rerr = none := by
  induction fuel generalizing num acc r with
  | zero =>
    have : num = 0 := by omega
    subst this
    unfold readbinLoop
    exact ⟨r, by simp, by simp, rfl, hr⟩
  | succ f ih =>
    unfold readbinLoop
    by_cases h0 : num = 0
    · subst h0; exact ⟨r, by simp, by simp, rfl, hr⟩
    · rw [if_neg h0]
      simp only
      have hne : r.rest ≠ [] := by intro h; rw [h] at hnum; simp at hnum; omega
      obtain ⟨k, r1, h1, hk1, hk2, hk3, hrest, hinn, hrr⟩ := readinput_got (num + 1) true r hr (by omega) hne
      rw [h1]
      simp only [List.length_take, Nat.min_eq_left hk3]
      obtain ⟨r', h2, h3, h4, h5⟩ := ih (num - k) (acc ++ r.rest.take k) r1 hrr
        (by rw [hrest, List.length_drop]; omega) (by omega)
      refine ⟨r', ?_, ?_, by rw [h4, hinn], h5⟩
      · rw [h2, hrest, List.append_assoc, ← List.take_add, show k + (num - k) = num by omega]
      · rw [h3, hrest, List.drop_drop, show k + (num - k) = num by omega]

theorem netReadbin_spec (num : Nat) (r : Rd) (hr : r.rerr = none) (hnum : num ≤ (r.inn ++ r.rest).length) :
    ∃ r', netReadbin num r = (.got ((r.inn ++ r.rest).take num), r') ∧
      r'.inn ++ r'.rest = (r.inn ++ r.rest).drop num ∧ r'.rerr = none := by
  unfold netReadbin
  by_cases h : r.inn ≠ [] ∧ r.inn.length > num
  · rw [if_pos h]
    refine ⟨{ r with inn := r.inn.drop num }, ?_, ?_, hr⟩
    · rw [List.take_append_of_le_length (by omega)]
    · rw [List.drop_append_of_le_length (by omega)]
  · rw [if_neg h]
    have hle : r.inn.length ≤ num := by
      by_cases h0 : r.inn = []
      · simp [h0]
      · have : ¬ r.inn.length > num := fun h1 => h ⟨h0, h1⟩
        omega
    rw [List.length_append] at hnum
    obtain ⟨r', h1, h2, h3, h4⟩ := readbinLoop_spec num (num - r.inn.length) r.inn { r with inn := [] } hr
      (by simp only; omega) (by omega)
    refine ⟨r', ?_, ?_, h4⟩
    · rw [h1, List.take_append, List.take_of_length_le hle]
    · rw [h3, h2]
      simp only [List.nil_append]
      rw [List.drop_append, List.drop_eq_nil_of_le hle]; simp


/-! ## Receiver: one buffer, one chunk -/

/-- a held-back CR as bytes -/
def pend (b : Bool) : List Byte := if b then [CR] else []

/-- between two buffers: the queue has `crlfToLf` of everything received so far, except that a CR
at the very end is held back (`lastcr`) -/
structure RInv (st : Rx) (D : List Byte) : Prop where
  data : st.qbuf ++ pend st.lastcr = crlfToLf D
  flag : st.lastcr = true ↔ D.getLast? = some CR
  qopen : st.qfd = true

theorem qwrite_ok (e : Env) (he : e.wlim = none) (bs : List Byte) (st : Rx) (hq : st.qfd = true) :
    qwrite e bs st = .ok { st with qbuf := st.qbuf ++ bs } := by
  unfold qwrite; rw [if_neg (by simp [hq]), he]

theorem qwritesSeq_ok (e : Env) (he : e.wlim = none) (ws : List (List Byte)) (st : Rx) (hq : st.qfd = true) :
    qwritesSeq e ws st = .ok { st with qbuf := st.qbuf ++ ws.flatten } := by
  induction ws generalizing st with
  | nil => simp [qwritesSeq]
  | cons w t ih =>
    rw [qwritesSeq, qwrite_ok e he w st hq]
    simp only
    rw [ih { st with qbuf := st.qbuf ++ w } hq]
    simp [List.append_assoc]

theorem qwrites_ok (e : Env) (he : e.wlim = none) (ws : List (List Byte)) (st : Rx) (hq : st.qfd = true) :
    qwrites e ws st = .ok { st with qbuf := st.qbuf ++ ws.flatten } := by
  unfold qwrites
  rw [he]
  simp only
  by_cases hw : ws = []
  · subst hw; simp
  · rw [if_neg hw, if_pos hq]

/-- the shortcut in `qwrites` does not change its meaning -/
theorem qwrites_eq_seq (e : Env) (ws : List (List Byte)) (st : Rx) : qwrites e ws st = qwritesSeq e ws st := by
  unfold qwrites
  cases he : e.wlim with
  | some l => rfl
  | none =>
    simp only
    by_cases hw : ws = []
    · subst hw; simp [qwritesSeq]
    · rw [if_neg hw]
      by_cases hq : st.qfd = true
      · rw [if_pos hq, qwritesSeq_ok e he ws st hq]
      · rw [if_neg hq]
        cases ws with
        | nil => exact absurd rfl hw
        | cons w t => simp [qwritesSeq, qwrite, hq]

theorem join_spec (D d qbuf : List Byte) (p : Bool) (h1 : qbuf ++ pend p = crlfToLf D)
    (h2 : p = true ↔ D.getLast? = some CR) :
    qbuf ++ (if p = true ∧ d.head? ≠ some LF then [CR] else []) ++ crlfToLf d = crlfToLf (D ++ d) := by
  cases p with
  | false =>
    have hD : ¬ D.getLast? = some CR := by intro h; have := h2.mpr h; simp at this
    rw [crlfToLf_append D d (fun h => hD h.1)]
    simp [pend] at h1
    simp [h1]
  | true =>
    obtain ⟨D0, rfl⟩ := List.getLast?_eq_some_iff.mp (h2.mp rfl)
    rw [crlfToLf_snoc_cr] at h1
    have hq : qbuf = crlfToLf D0 := List.append_cancel_right (bs := [CR]) (by simpa [pend] using h1)
    subst hq
    by_cases hh : d.head? = some LF
    · obtain ⟨t, rfl⟩ : ∃ t, d = LF :: t := by
        cases d with
        | nil => simp at hh
        | cons x t => simp at hh; exact ⟨t, by rw [hh]⟩
      rw [if_neg (by simp), List.append_assoc D0, List.singleton_append,
        crlfToLf_append D0 (CR :: LF :: t) (by simp; intro _; decide), crlfToLf_cr_lf,
        crlfToLf_cons_ne LF t (by decide)]
      simp
    · rw [if_pos ⟨rfl, hh⟩, crlfToLf_append (D0 ++ [CR]) d (fun h => hh h.2), crlfToLf_snoc_cr]

theorem oneBuffer_spec (e : Env) (he : e.wlim = none) (isLast : Bool) (remaining : Nat) (d D : List Byte)
    (st : Rx) (hd : d ≠ []) (hI : RInv st D) :
    ∃ Q L, oneBuffer e isLast remaining d st =
        .done { st with msgsize := st.msgsize + d.length, qbuf := Q, lastcr := L } ∧
      Q ++ pend L = crlfToLf (D ++ d) ∧
      (L = true → (D ++ d).getLast? = some CR) ∧
      (¬ (isLast = true ∧ remaining = 0) → ((D ++ d).getLast? = some CR → L = true)) ∧
      ((isLast = true ∧ remaining = 0) → L = false) := by
  have hlastD : (D ++ d).getLast? = d.getLast? := by
    rw [List.getLast?_append]
    cases hg : d.getLast? with
    | none => exact absurd (List.getLast?_eq_none_iff.mp hg) hd
    | some x => rfl
  obtain ⟨ws, pos, r, hrw, hfl⟩ := rewrite_buffer (if d.getLast? = some CR then d.dropLast else d)
  have hsplit : crlfToLf (if d.getLast? = some CR then d.dropLast else d) ++ pend (decide (d.getLast? = some CR)) = crlfToLf d := by
    by_cases hc : d.getLast? = some CR
    · obtain ⟨d0, rfl⟩ := List.getLast?_eq_some_iff.mp hc
      simp [hc, pend, crlfToLf_snoc_cr]
    · simp [hc, pend]
  have hjoin := join_spec D d st.qbuf st.lastcr hI.data hI.flag
  unfold oneBuffer
  simp only
  have hpre : (if st.lastcr = true ∧ d.head? ≠ some LF then
        qwrite e [CR] { st with msgsize := st.msgsize + d.length }
      else Except.ok { st with msgsize := st.msgsize + d.length }) =
      .ok { st with msgsize := st.msgsize + d.length,
                    qbuf := st.qbuf ++ (if st.lastcr = true ∧ d.head? ≠ some LF then [CR] else []) } := by
    by_cases hc : st.lastcr = true ∧ d.head? ≠ some LF
    · rw [if_pos hc, if_pos hc, qwrite_ok e he [CR] { st with msgsize := st.msgsize + d.length } hI.qopen]
    · rw [if_neg hc, if_neg hc]; simp
  rw [hpre]
  simp only
  rw [hrw]
  simp only
  rw [qwrites_ok e he ws { st with msgsize := st.msgsize + d.length, qbuf := st.qbuf ++ (if st.lastcr = true ∧ d.head? ≠ some LF then [CR] else []), lastcr := decide (d.getLast? = some CR) } hI.qopen]
  simp only
  by_cases hre : isLast = true ∧ d.getLast? = some CR ∧ remaining = 0
  · simp only [if_pos hre]
    rw [qwrite_ok e he _ { st with msgsize := st.msgsize + d.length, qbuf := st.qbuf ++ (if st.lastcr = true ∧ d.head? ≠ some LF then [CR] else []) ++ ws.flatten, lastcr := false } hI.qopen]
    refine ⟨_, false, rfl, ?_, by simp, ?_, fun _ => rfl⟩
    · have hc : d.getLast? = some CR := hre.2.1
      rw [hc] at hsplit hfl
      simp only [if_true, decide_true, pend] at hsplit hfl ⊢
      rw [← hjoin, ← hsplit, ← hfl]
      simp [List.append_assoc, hc]
    · intro hn; exact absurd ⟨hre.1, hre.2.2⟩ hn
  · simp only [if_neg hre]
    rw [qwrite_ok e he _ { st with msgsize := st.msgsize + d.length, qbuf := st.qbuf ++ (if st.lastcr = true ∧ d.head? ≠ some LF then [CR] else []) ++ ws.flatten, lastcr := decide (d.getLast? = some CR) } hI.qopen]
    refine ⟨_, decide (d.getLast? = some CR), rfl, ?_, ?_, ?_, ?_⟩
    · rw [← hjoin, ← hsplit, ← hfl]
      simp [List.append_assoc]
    · intro h; rw [hlastD]; simpa using h
    · intro _ h; rw [hlastD] at h; simpa using h
    · intro h
      by_cases hc : d.getLast? = some CR
      · exact absurd ⟨h.1, hc, h.2⟩ hre
      · simpa using hc


theorem chunkLoop_spec (e : Env) (he : e.wlim = none) (hb : 2 ≤ e.bufsz) (isLast : Bool)
    (fuel : Nat) (X D : List Byte) (st : Rx) (hf : X.length ≤ fuel) (hI : RInv st D)
    (hr : st.rd.rerr = none) (hX : X.length ≤ (st.rd.inn ++ st.rd.rest).length)
    (hpre : (st.rd.inn ++ st.rd.rest).take X.length = X) :
    ∃ Q L rd', chunkLoop e isLast fuel X.length st =
        .done { st with rd := rd', msgsize := st.msgsize + X.length, qbuf := Q, lastcr := L } ∧
      rd'.inn ++ rd'.rest = (st.rd.inn ++ st.rd.rest).drop X.length ∧ rd'.rerr = none ∧
      Q ++ pend L = crlfToLf (D ++ X) ∧
      (L = true → (D ++ X).getLast? = some CR) ∧
      (isLast = false → ((D ++ X).getLast? = some CR → L = true)) ∧
      (isLast = true → X ≠ [] → L = false) := by
  induction fuel generalizing X D st with
  | zero =>
    have hx : X = [] := List.eq_nil_of_length_eq_zero (by omega)
    subst hx
    unfold chunkLoop
    refine ⟨st.qbuf, st.lastcr, st.rd, by simp, by simp, hr, by simpa using hI.data, ?_, ?_, by simp⟩
    · intro h; simpa using hI.flag.mp h
    · intro _ h; exact hI.flag.mpr (by simpa using h)
  | succ f ih =>
    by_cases hx0 : X.length = 0
    · have hx : X = [] := List.eq_nil_of_length_eq_zero hx0
      subst hx
      unfold chunkLoop
      refine ⟨st.qbuf, st.lastcr, st.rd, by simp, by simp, hr, by simpa using hI.data, ?_, ?_, by simp⟩
      · intro h; simpa using hI.flag.mp h
      · intro _ h; exact hI.flag.mpr (by simpa using h)
    · unfold chunkLoop
      rw [if_neg hx0]
      simp only
      rw [if_neg (by rw [bufSlack_eq]; omega), bufSlack_eq]
      generalize hnum : (if X.length ≥ e.bufsz then e.bufsz - 1 else X.length) = num
      have hn1 : 1 ≤ num := by rw [← hnum]; split <;> omega
      have hn2 : num ≤ X.length := by rw [← hnum]; split <;> omega
      have hn3 : ¬ (num + 1 > e.bufsz) := by rw [← hnum]; split <;> omega
      rw [if_neg hn3]
      obtain ⟨rd1, hrb, hrd1, hrr1⟩ := netReadbin_spec num st.rd hr (Nat.le_trans hn2 hX)
      rw [hrb]
      simp only
      have hd : (st.rd.inn ++ st.rd.rest).take num = X.take num := by
        rw [← hpre, List.take_take, Nat.min_eq_left hn2]
      rw [hd]
      have hdl : (X.take num).length = num := by rw [List.length_take]; omega
      have hdne : X.take num ≠ [] := by
        intro h; rw [h] at hdl; simp at hdl; omega
      rw [if_neg hdne]
      obtain ⟨Q1, L1, hob, hq1, hl1, hl2, hl3⟩ := oneBuffer_spec e he isLast (X.length - (X.take num).length)
        (X.take num) D { st with rd := rd1 } hdne ⟨hI.data, hI.flag, hI.qopen⟩
      rw [hdl] at hob hl2 hl3 ⊢
      rw [hob]
      simp only
      by_cases hrem : X.length - num = 0
      · have hxn : num = X.length := by omega
        have hxt : X.take num = X := by rw [hxn]; exact List.take_length
        rw [hxt] at hq1 hl1 hl2
        rw [hrem]
        unfold chunkLoop
        rw [if_pos rfl]
        refine ⟨Q1, L1, rd1, ?_, by rw [hrd1, hxn], hrr1, hq1, hl1, ?_, ?_⟩
        · simp only [hxn]
        · intro hl; exact hl2 (by simp [hl])
        · intro hl _; exact hl3 ⟨hl, hrem⟩
      · have hI1 : RInv { st with rd := rd1, msgsize := st.msgsize + num, qbuf := Q1, lastcr := L1 }
            (D ++ X.take num) :=
          ⟨hq1, ⟨hl1, hl2 (fun h => hrem h.2)⟩, hI.qopen⟩
        have hX'len : (X.drop num).length = X.length - num := by simp
        have hSlen : (List.drop num (st.rd.inn ++ st.rd.rest)).length = (st.rd.inn ++ st.rd.rest).length - num := by simp
        obtain ⟨Q, L, rd', hcl, hrd', hrr', hq, hL1, hL2, hL3⟩ := ih (X.drop num) (D ++ X.take num)
          { st with rd := rd1, msgsize := st.msgsize + num, qbuf := Q1, lastcr := L1 }
          (by rw [hX'len]; omega) hI1 hrr1
          (by rw [hX'len]; show X.length - num ≤ (rd1.inn ++ rd1.rest).length; rw [hrd1, hSlen]; omega)
          (by rw [hX'len]; show List.take (X.length - num) (rd1.inn ++ rd1.rest) = X.drop num
              rw [hrd1]
              have h2 : X.drop num = List.take (X.length - num) (List.drop num (st.rd.inn ++ st.rd.rest)) := by
                conv => lhs; rw [← hpre]
                rw [List.drop_take]
              exact h2.symm)
        rw [hX'len] at hcl
        rw [hcl]
        have hDX : D ++ X.take num ++ X.drop num = D ++ X := by
          rw [List.append_assoc, List.take_append_drop]
        rw [hDX] at hq hL1 hL2
        refine ⟨Q, L, rd', ?_, ?_, hrr', hq, hL1, hL2, ?_⟩
        · dsimp only
          congr 2
          omega
        · rw [hrd']
          show List.drop (X.drop num).length (rd1.inn ++ rd1.rest) = _
          rw [hrd1, List.drop_drop, hX'len]; congr 1; omega
        · intro hl _
          exact hL3 hl (by intro h; rw [h] at hX'len; simp at hX'len; omega)


/-! ## the frames of the theorem are what the independent frame parser accepts -/

theorem toNat_digit (k : Nat) (h : k < 10) : (UInt8.ofNat (48 + k)).toNat = 48 + k := by
  rw [UInt8.toNat_ofNat']; omega

theorem isDigit_digit (k : Nat) (h : k < 10) : isDigit (UInt8.ofNat (48 + k)) = true := by
  unfold isDigit; rw [toNat_digit k h]; simp; omega

theorem dec_step (n : Nat) (h : 10 ≤ n) : dec n = dec (n / 10) ++ [UInt8.ofNat (48 + n % 10)] := by
  rw [dec, dif_neg (by omega)]

theorem dec_small (n : Nat) (h : n < 10) : dec n = [UInt8.ofNat (48 + n)] := by
  rw [dec, dif_pos h]

theorem dec_all_digits (n : Nat) : ∀ b ∈ dec n, isDigit b = true := by
  induction n using Nat.strongRecOn with
  | _ n ih =>
    by_cases h : n < 10
    · rw [dec_small n h]; intro b hb; rw [List.mem_singleton.mp hb]; exact isDigit_digit n h
    · rw [dec_step n (by omega)]
      intro b hb
      rcases List.mem_append.mp hb with hb | hb
      · exact ih (n / 10) (by omega) b hb
      · rw [List.mem_singleton.mp hb]; exact isDigit_digit _ (Nat.mod_lt n (by decide : 0 < 10))

theorem decVal_snoc (l : List Byte) (b : Byte) : decVal (l ++ [b]) = decVal l * 10 + (b.toNat - 48) := by
  unfold decVal; rw [List.foldl_append]; rfl

theorem decVal_dec (n : Nat) : decVal (dec n) = n := by
  induction n using Nat.strongRecOn with
  | _ n ih =>
    by_cases h : n < 10
    · rw [dec_small n h]; simp [decVal]; omega
    · rw [dec_step n (by omega), decVal_snoc, ih (n / 10) (by omega), toNat_digit _ (Nat.mod_lt n (by decide : 0 < 10))]
      omega

theorem dec_ne_nil (n : Nat) : dec n ≠ [] := by
  intro h
  have := dec_length n
  rw [h] at this
  by_cases h0 : n = 0
  · simp [h0] at this
  · rw [if_neg h0, digits_pos n h0] at this; simp at this; omega

theorem dec_head (n : Nat) (h : 1 ≤ n) : (dec n).head? ≠ some 48 := by
  induction n using Nat.strongRecOn with
  | _ n ih =>
    by_cases h10 : n < 10
    · rw [dec_small n h10]
      simp only [List.head?_cons, ne_eq, Option.some.injEq]
      intro hh
      have := congrArg UInt8.toNat hh
      rw [toNat_digit n h10] at this
      simp at this; omega
    · rw [dec_step n (by omega)]
      have hne := dec_ne_nil (n / 10)
      cases hd : dec (n / 10) with
      | nil => exact absurd hd hne
      | cons x t =>
        have := ih (n / 10) (by omega) (by omega)
        rw [hd] at this
        simpa using this

theorem takeWhile_digits (ds rest : List Byte) (x : Byte) (h : ∀ b ∈ ds, isDigit b = true) (hx : isDigit x = false) :
    (ds ++ x :: rest).takeWhile isDigit = ds ∧ (ds ++ x :: rest).dropWhile isDigit = x :: rest := by
  induction ds with
  | nil => simp [hx]
  | cons d t ih =>
    have hd := h d (by simp)
    have := ih (fun b hb => h b (List.mem_cons_of_mem _ hb))
    simp [hd, this.1, this.2]

/-- every frame of the theorems is accepted by the frame parser of the executable predicate, with
exactly the announced length, the LAST flag and the payload -/
theorem parseFrame_frame (p : List Byte) (last : Bool) :
    parseFrame (hdrBytes p.length last ++ p) = some ⟨p.length, last, p⟩ := by
  have hds := dec_all_digits p.length
  have hlead : ¬ ((dec p.length).length > 1 ∧ (dec p.length).head? = some 48) := by
    intro hh
    by_cases h0 : p.length = 0
    · rw [h0, dec_small 0 (by omega)] at hh; simp at hh
    · exact dec_head p.length (by omega) hh.2
  unfold parseFrame hdrBytes
  cases last with
  | false =>
    have htw := takeWhile_digits (dec p.length) (LF :: p) CR hds (by decide)
    simp only [Bool.false_eq_true, if_false, List.append_assoc]
    have e1 : (bdatSp ++ (dec p.length ++ ([CR, LF] ++ p))).take 5 = bdatSp := by simp [bdatSp]
    have e2 : (bdatSp ++ (dec p.length ++ ([CR, LF] ++ p))).drop 5 = dec p.length ++ CR :: LF :: p := by simp [bdatSp]
    rw [e1, e2, htw.1, htw.2]
    simp only [ne_eq, not_true_eq_false, if_false]
    rw [if_neg (by intro h; rcases h with h | h; exact dec_ne_nil _ h; exact hlead h)]
    simp [lastSp, decVal_dec, CR, LF]
  | true =>
    have htw := takeWhile_digits (dec p.length) ([76, 65, 83, 84, 13, 10] ++ p) 32 hds (by decide)
    simp only [if_true, List.append_assoc]
    have e1 : (bdatSp ++ (dec p.length ++ (lastCrlf ++ p))).take 5 = bdatSp := by simp [bdatSp]
    have e2 : (bdatSp ++ (dec p.length ++ (lastCrlf ++ p))).drop 5 =
        dec p.length ++ 32 :: ([76, 65, 83, 84, 13, 10] ++ p) := by simp [bdatSp, lastCrlf]
    rw [e1, e2, htw.1, htw.2]
    simp only [ne_eq, not_true_eq_false, if_false]
    rw [if_neg (by intro h; rcases h with h | h; exact dec_ne_nil _ h; exact hlead h)]
    simp [lastSp, decVal_dec, CR, LF]

theorem parseFrames_framesOf (pays : List (List Byte)) (h : pays ≠ []) :
    ∃ fs, (framesOf pays).mapM parseFrame = some fs ∧ fs.map (·.pay) = pays ∧
      (∀ f ∈ fs, f.n = f.pay.length) ∧ lastFlagsOk fs = true := by
  induction pays with
  | nil => exact absurd rfl h
  | cons p ps ih =>
    cases ps with
    | nil =>
      refine ⟨[⟨p.length, true, p⟩], ?_, rfl, ?_, rfl⟩
      · simp [framesOf, parseFrame_frame]
      · intro f hf; simp at hf; rw [hf]
    | cons q r =>
      obtain ⟨fs, h1, h2, h3, h4⟩ := ih (by simp)
      refine ⟨⟨p.length, false, p⟩ :: fs, ?_, ?_, ?_, ?_⟩
      · rw [framesOf]
        simp [parseFrame_frame, h1]
      · simp [h2]
      · intro f hf
        rcases List.mem_cons.mp hf with rfl | hf
        · rfl
        · exact h3 f hf
      · cases fs with
        | nil => simp at h2
        | cons g gs => simp [lastFlagsOk, h4]


/-- no CR of `m` is bare: each is followed by LF -/
def NoBareCR (m : List Byte) : Prop := ∀ i, m[i]? = some CR → m[i + 1]? = some LF

theorem noBareCR_tail (b : Byte) (t : List Byte) (h : NoBareCR (b :: t)) : NoBareCR t := by
  intro i hi
  have := h (i + 1) (by simpa using hi)
  simpa using this

/-- for messages without a bare CR, `normOk` pins the payload down completely -/
theorem normOk_unique (p : Bool) (m out : List Byte) (hcr : NoBareCR m)
    (h : normOk p m out = true) : out = normalizeLf p m := by
  induction m generalizing p out with
  | nil => simpa [normOk, normalizeLf] using h
  | cons b t ih =>
    have ht := noBareCR_tail b t hcr
    by_cases hb : b = LF ∧ ¬ (p = true)
    · cases out with
      | nil => simp [normOk, hb] at h
      | cons x o =>
        cases o with
        | nil => simp [normOk, hb] at h
        | cons y o' =>
          simp [normOk, hb] at h
          obtain ⟨rfl, rfl, h3⟩ := h
          have := ih false o' ht h3
          simp only [normalizeLf, hb]
          rw [show decide (LF = CR) = false by decide, ← this]; simp
    · cases out with
      | nil => simp [normOk, hb] at h
      | cons x o =>
        have hnb : ¬ (b = CR ∧ t.head? ≠ some LF) := by
          intro hh
          have := hcr 0 (by simp [hh.1])
          exact hh.2 (by rw [List.head?_eq_getElem?]; simpa using this)
        simp only [normOk, hb, if_false, hnb, decide_eq_true_eq] at h
        obtain ⟨rfl, h2⟩ := h
        have := ih _ o ht h2
        simp only [normalizeLf, hb, if_false, List.singleton_append]
        rw [← this]


end QsmtpModel.Bdat
