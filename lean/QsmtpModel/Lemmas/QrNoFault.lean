/-
C06 (no_fault): no outcome of the model of qremote/qrdata.c + mime.c is a memory fault
(`sendData_nf`).  The header-folding path — wrap_line(), send_wrapped(), wrap_header() — never reads
outside the view it was given and never writes outside its staging buffer, for every input
(`wrapHeader_ok`); the header scan of qp_header() delimits fields that lie inside the data, end in
CR or LF and lie in front of the end of the header it finds (`hdrScan_inv`, through `Reach`/`TailOk`);
Lemmas/MimeNoFault.lean shows that the MIME helpers stay inside such a field; qp_header(), the part
loop and send_qp() compose these (`qpHeader_nf`, `partLoop_nf`, `sendQp_nf`).
-/
import QsmtpModel.QrData
import QsmtpModel.Lemmas.QrPlain
import QsmtpModel.Lemmas.QrQp
import QsmtpModel.Lemmas.MimeNoFault

namespace QsmtpModel.QrData
open QsmtpModel QsmtpModel.Mime

/-! ### wrap_line -/

theorem lastSpGo_lt : ∀ (l : List Byte) (i best : Nat), best < i → lastSpGo l i best < i + l.length
  | [], i, best, h => by simpa [lastSpGo] using h
  | c :: cs, i, best, h => by
    simp only [lastSpGo, List.length_cons]
    have := lastSpGo_lt cs (i + 1) (if c = SP then i else best) (by split <;> omega)
    omega

/-- the two blank searches of wrap_line() stay inside a view of at least 970 bytes and give a fold
position below 970 -/
theorem foldAt_ok (d : List Byte) (h : 970 ≤ d.length) : ∃ p, foldAt d 0 = .ok p ∧ p < 970 := by
  have hdown : scanDown d 0 Gen.wrapLineStart = .ok (lastSpGo ((d.drop 1).take 800) 1 0) := by
    unfold scanDown
    simp only [show Gen.wrapLineStart = 800 from rfl]
    simp; omega
  have hle : lastSpGo ((d.drop 1).take 800) 1 0 ≤ 800 := by
    have := lastSpGo_lt ((d.drop 1).take 800) 1 0 (by omega)
    simp only [List.length_take, List.length_drop] at this; omega
  -- the upward search
  have hup : ∃ q, scanUp d 0 Gen.wrapLineLateStart = .ok q := by
    unfold scanUp
    simp only [show Gen.wrapLineLateStart = 800 from rfl, show Gen.wrapLineLate = 970 from rfl]
    split
    · exact ⟨_, rfl⟩
    · have : ((d.drop (0 + 800)).take (970 - 800)).length = 970 - 800 := by simp; omega
      simp [this]
  obtain ⟨q, hq⟩ := hup
  unfold foldAt
  simp only [hdown, hq, bind, Except.bind, pure, Except.pure, show Gen.wrapLineShort = 50 from rfl,
    show Gen.wrapLineLate = 970 from rfl]
  split
  · split
    · exact ⟨_, rfl, by assumption⟩
    · exact ⟨_, rfl, by omega⟩
  · refine ⟨_, rfl, ?_⟩
    omega

theorem cpy_err {buf : List Byte} {s n : Nat} {e : Stop} (h : cpy buf s n = .error e) : buf.length < s + n := by
  unfold cpy at h; split at h
  · cases h
  · omega

theorem cpy_len {buf : List Byte} {s n : Nat} {bs : List Byte} (h : cpy buf s n = .ok bs) :
    bs.length = n ∧ s + n ≤ buf.length ∧ bs = (buf.drop s).take n := by
  unfold cpy at h; split at h
  · cases h; refine ⟨?_, by assumption, rfl⟩; simp; omega
  · cases h

theorem push_err {cap : Nat} {sb bs : List Byte} {e : Stop} (h : push cap sb bs = .error e) :
    cap < sb.length + bs.length := by
  unfold push at h; split at h
  · cases h
  · omega

theorem push_eq {cap : Nat} {sb bs sb' : List Byte} (h : push cap sb bs = .ok sb') :
    sb' = sb ++ bs ∧ sb.length + bs.length ≤ cap := by
  unfold push at h; split at h
  · cases h; exact ⟨rfl, by assumption⟩
  · cases h

/-- the fold loop of wrap_line(): no fault whatever the staging buffer holds (a full buffer is
flushed first) -/
theorem wrapGo_ok (buf : List Byte) (pos off : Nat) (sb : List Byte) (st : St)
    (hpo : pos + off = buf.length) : ∃ st', wrapGo buf pos off sb st = .ok st' := by
  fun_induction wrapGo buf pos off sb st
  case case1 h h0 => have : Gen.wrapLineMin = 970 := rfl; omega
  case case2 pos off sb st h h0 e hf =>
    obtain ⟨p, hp, _⟩ := foldAt_ok (buf.drop pos) (by simp only [List.length_drop]; have : Gen.wrapLineMin = 970 := rfl; omega)
    rw [hp] at hf; cases hf
  case case3 pos off sb st h h0 p hf sb1 st1 hfl e hpu =>
    exfalso
    have := push_err hpu
    simp only [show wrapCap = 1048 from rfl, show Gen.wrapLineFlushSlack = 4 from rfl] at *
    obtain ⟨p', hp', hlt⟩ := foldAt_ok (buf.drop pos) (by simp only [List.length_drop]; have : Gen.wrapLineMin = 970 := rfl; omega)
    rw [hp'] at hf; cases hf
    split at hfl <;> simp only [Prod.mk.injEq] at hfl <;> obtain ⟨rfl, rfl⟩ := hfl <;> split at this <;> simp at this <;> omega
  case case4 pos off sb st h h0 p hf sb1 st1 hfl sb2 hpu e hc =>
    exfalso
    have := cpy_err hc
    obtain ⟨p', hp', hlt⟩ := foldAt_ok (buf.drop pos) (by simp only [List.length_drop]; have : Gen.wrapLineMin = 970 := rfl; omega)
    rw [hp'] at hf; cases hf
    have : Gen.wrapLineMin = 970 := rfl
    omega
  case case5 pos off sb st h h0 p hf sb1 st1 hfl sb2 hpu bs hc e hpu2 =>
    exfalso
    have h1 := push_err hpu2
    obtain ⟨rfl, _⟩ := push_eq hpu
    obtain ⟨hbl, _, _⟩ := cpy_len hc
    simp only [show wrapCap = 1048 from rfl, show Gen.wrapLineFlushSlack = 4 from rfl] at *
    obtain ⟨p', hp', hlt⟩ := foldAt_ok (buf.drop pos) (by simp only [List.length_drop]; have : Gen.wrapLineMin = 970 := rfl; omega)
    rw [hp'] at hf; cases hf
    simp only [List.length_append, List.length_cons, List.length_nil, hbl] at h1
    split at hfl <;> simp only [Prod.mk.injEq] at hfl <;> obtain ⟨rfl, rfl⟩ := hfl <;> split at h1 <;> simp at h1 <;> omega
  case case6 pos off sb st h h0 p hf sb1 st1 hfl sb2 hpu bs hc sb3 hpu2 ih =>
    apply ih
    obtain ⟨p', hp', hlt⟩ := foldAt_ok (buf.drop pos) (by simp only [List.length_drop]; have : Gen.wrapLineMin = 970 := rfl; omega)
    rw [hp'] at hf; cases hf
    have : Gen.wrapLineMin = 970 := rfl
    omega
  case case7 h sb1 st1 hfl e hc =>
    have := cpy_err hc; omega
  case case8 h sb1 st1 hfl bs hc e hpu =>
    exfalso
    have h1 := push_err hpu
    obtain ⟨hbl, _, _⟩ := cpy_len hc
    simp only [show wrapCap = 1048 from rfl, show Gen.wrapLineTailSlack = 3 from rfl, show Gen.wrapLineMin = 970 from rfl] at *
    simp only [List.length_append, List.length_cons, List.length_nil, hbl] at h1
    split at hfl <;> simp only [Prod.mk.injEq] at hfl <;> obtain ⟨rfl, rfl⟩ := hfl <;> simp at h1 <;> omega
  case case9 => exact ⟨_, rfl⟩

/-- `wrap_line(buf, len)` never faults for a non-empty line -/
theorem wrapLine_ok (buf : List Byte) (st : St) (h : buf ≠ []) : ∃ st', wrapLine buf st = .ok st' := by
  unfold wrapLine
  cases buf with
  | nil => exact absurd rfl h
  | cons c cs =>
    simp only [rd, List.getElem?_cons_zero]
    exact wrapGo_ok _ _ _ _ _ (by simp)

/-! ### send_wrapped, wrap_header -/

theorem sendWrapped_ok (buf : List Byte) (pos off ll : Nat) (st : St) (h : pos + off + ll ≤ buf.length) :
    ∃ st', sendWrapped buf pos off ll st = .ok st' := by
  unfold sendWrapped
  split
  · exact ⟨_, rfl⟩
  · rename_i hll
    simp only [show Gen.sendWrappedMax = 999 from rfl] at hll
    rw [cpy_ok (by omega)]
    obtain ⟨st1, h1, _⟩ := sendPlain_spec ((buf.drop pos).take off) st
    simp only [bind, Except.bind, h1]
    rw [cpy_ok (by omega)]
    simp only
    apply wrapLine_ok
    intro h0
    have := congrArg List.length h0
    simp at this
    omega

theorem wrapHeaderGo_ok (buf : List Byte) (pos off ll : Nat) (st : St) (h : pos + off + ll ≤ buf.length) :
    ∃ st', wrapHeaderGo buf pos off ll st = .ok st' := by
  fun_induction wrapHeaderGo buf pos off ll st
  case case1 pos off ll st c hc l hl ih =>
    have := (List.getElem?_eq_some_iff.mp hc).1
    exact ih (by omega)
  case case2 pos off ll st c hc l hl e hs =>
    obtain ⟨st', h'⟩ := sendWrapped_ok buf pos off ll st h
    rw [h'] at hs; cases hs
  case case3 pos off ll st c hc l hl st1 hs n ih =>
    apply ih
    have := (List.getElem?_eq_some_iff.mp hc).1
    have hl2 : pos + off + ll + l ≤ buf.length := by
      simp only [l, eolLen]
      split <;> split <;> rename_i h2 <;> first | (have := (List.getElem?_eq_some_iff.mp h2).1; omega) | omega
    simp only [n, wrappedNext]
    split <;> simp only <;> omega
  case case4 pos off ll st hn e hs =>
    obtain ⟨st', h'⟩ := sendWrapped_ok buf pos off ll st h
    rw [h'] at hs; cases hs
  case case5 pos off ll st hn st1 hs n e hc =>
    have := cpy_err hc
    have hlen := List.getElem?_eq_none_iff.mp hn
    simp only [n, wrappedNext] at this
    split at this <;> simp only at this <;> omega
  case case6 pos off ll st hn st1 hs n bs hc =>
    obtain ⟨st', h', _⟩ := sendPlain_spec bs st1
    exact ⟨st', h'⟩

/-- `wrap_header(buf, len)` never faults, for every header text -/
theorem wrapHeader_ok (buf : List Byte) (st : St) : ∃ st', wrapHeader buf st = .ok st' := by
  unfold wrapHeader
  split
  · obtain ⟨st', h', _⟩ := sendPlain_spec buf st
    exact ⟨st', h'⟩
  · exact wrapHeaderGo_ok buf 0 0 0 st (by omega)

/-! ### the header scan of qp_header() -/

/-- from offset `off` the scan cannot find the end of the header in front of `E` -/
def Reach (buf : List Byte) (off E : Nat) : Prop :=
  E ≤ off ∨
  (off + 1 = E ∧ ∃ x, buf[off]? = some x ∧ (x = CR ∨ x = LF) ∧ ¬(x = CR ∧ buf[off + 1]? = some LF)) ∨
  (off + 2 = E ∧ ((buf[off]? = some CR ∧ buf[off + 1]? = some LF) ∨
    (∃ x, buf[off]? = some x ∧ x ≠ CR ∧ x ≠ LF ∧ ∃ y, buf[off + 1]? = some y ∧ (y = CR ∨ y = LF) ∧
      ¬(y = CR ∧ buf[off + 2]? = some LF))))

theorem reach_of_tail (buf : List Byte) (E : Nat) (h : TailOk buf E (buf.length - E)) :
    Reach buf (E - 2) E := by
  obtain ⟨h2, h | ⟨⟨h1, x, hx1, hx2, hx3⟩, h⟩⟩ := h
  · exact Or.inr (Or.inr ⟨by omega, Or.inl ⟨h.1, by rw [show E - 2 + 1 = E - 1 by omega]; exact h.2⟩⟩)
  · refine Or.inr (Or.inr ⟨by omega, Or.inr ⟨x, by rw [show E - 2 = E - 1 - 1 by omega]; exact hx1, hx2, hx3, ?_⟩⟩)
    rw [show E - 2 + 1 = E - 1 by omega, show E - 2 + 2 = E by omega]
    rcases h with h | ⟨h, h'⟩
    · exact ⟨LF, h, Or.inr rfl, by intro hh; exact absurd hh.1 (by decide)⟩
    · refine ⟨CR, h, Or.inl rfl, ?_⟩
      intro hh
      rcases h' with h' | h'
      · have : buf[E]? = none := List.getElem?_eq_none_iff.mpr (by omega)
        rw [this] at hh; cases hh.2
      · exact h' hh.2

theorem reach_cr (buf : List Byte) (off E : Nat) (h : Reach buf off E) (hc : buf[off]? = some CR) :
    E ≤ (if buf[off + 1]? = some LF then off + 2 else off + 1) := by
  rcases h with h | ⟨h, x, hx, _, hn⟩ | ⟨h, h' | ⟨x, hx, hx1, _⟩⟩
  · split <;> omega
  · rw [hc] at hx; cases hx
    split
    · rename_i hl; exact absurd ⟨rfl, hl⟩ hn
    · omega
  · rw [if_pos h'.2]; omega
  · rw [hc] at hx; cases hx; exact absurd rfl hx1

theorem reach_lf (buf : List Byte) (off E : Nat) (h : Reach buf off E) (hc : buf[off]? = some LF) :
    E ≤ off + 1 := by
  rcases h with h | ⟨h, _⟩ | ⟨h, h' | ⟨x, hx, _, hx2, _⟩⟩
  · omega
  · omega
  · rw [hc] at h'; cases h'.1
  · rw [hc] at hx; cases hx; exact absurd rfl hx2

theorem lineRest_eol (l : List Byte) (y : Byte) (h : l[0]? = some y) (hy : y = CR ∨ y = LF) : lineRest l = 0 := by
  cases l with
  | nil => rfl
  | cons c cs =>
    simp at h; subst h
    unfold lineRest
    have : isEol c = true := by rcases hy with rfl | rfl <;> decide
    simp [this]

theorem reach_dflt (buf : List Byte) (off E : Nat) (c : Byte) (h : Reach buf off E) (hc : buf[off]? = some c)
    (h1 : c ≠ CR) (h2 : c ≠ LF) : Reach buf (off + 1 + lineRest (buf.drop (off + 1))) E := by
  rcases h with h | ⟨h, x, hx, hx1, _⟩ | ⟨h, h' | ⟨x, hx, _, _, y, hy, hy1, hy2⟩⟩
  · exact Or.inl (by omega)
  · rw [hc] at hx; cases hx; rcases hx1 with rfl | rfl <;> contradiction
  · rw [hc] at h'; cases h'.1; exact absurd rfl h1
  · have : lineRest (buf.drop (off + 1)) = 0 := lineRest_eol _ y (by simpa using hy) hy1
    rw [this]
    exact Or.inr (Or.inl ⟨by omega, y, hy, hy1, hy2⟩)

/-- a matched field name at `off` is not where the previous field ends -/
theorem reach_match (buf : List Byte) (off E n : Nat) (c x : Byte) (h : Reach buf off E) (hc : buf[off]? = some c)
    (h1 : c ≠ CR) (h2 : c ≠ LF) (hx : buf[off + 1]? = some x) (hx1 : x ≠ CR) (hx2 : x ≠ LF) (hn : 2 ≤ n) :
    Reach buf (off + n - 2) E := by
  rcases h with h | ⟨h, y, hy, hy1, _⟩ | ⟨h, h' | ⟨_, _, _, _, y, hy, hy1, _⟩⟩
  · exact Or.inl (by omega)
  · rw [hc] at hy; cases hy; rcases hy1 with rfl | rfl <;> contradiction
  · rw [hc] at h'; cases h'.1; exact absurd rfl h1
  · rw [hx] at hy; cases hy; rcases hy1 with rfl | rfl <;> contradiction

theorem ct_lit_no_eol : ∀ l ∈ Gen.hdrContentType, lower CR ≠ lower l ∧ lower LF ≠ lower l := by decide
theorem ce_lit_no_eol : ∀ l ∈ Gen.hdrContentTrEnc, lower CR ≠ lower l ∧ lower LF ≠ lower l := by decide

/-- a field whose name was matched behind its first letter: getfieldlen() stays inside the data, and
a non-zero length covers the name and ends as `TailOk` says -/
theorem matched_field (buf : List Byte) (off : Nat) (c : Byte) (lit : List Byte)
    (hc : buf[off]? = some c) (h1 : c ≠ CR) (h2 : c ≠ LF)
    (hlit : ∀ l ∈ lit, lower CR ≠ lower l ∧ lower LF ≠ lower l)
    (hrest : buf.length - off > lit.length) (hm : caseEq buf (off + 1) lit = .ok true) :
    ∃ n, getFieldLen buf off (buf.length - off) = .ok n ∧ n ≤ buf.length - off ∧
      (n ≠ 0 → lit.length + 1 ≤ n ∧ (buf[off + n - 1]? = some CR ∨ buf[off + n - 1]? = some LF) ∧
        TailOk buf (off + n) (buf.length - (off + n))) ∧
      (∀ j (_ : j < lit.length), ∃ x, buf[off + 1 + j]? = some x ∧ x ≠ CR ∧ x ≠ LF) := by
  have hbytes : ∀ j (hj : j < lit.length), ∃ x, buf[off + 1 + j]? = some x ∧ x ≠ CR ∧ x ≠ LF := by
    intro j hj
    obtain ⟨x, hx1, hx2⟩ := caseEq_true buf lit (off + 1) hm j hj
    have := hlit lit[j] (List.getElem_mem _)
    refine ⟨x, hx1, ?_, ?_⟩
    · intro h; subst h; exact this.1 hx2
    · intro h; subst h; exact this.2 hx2
  have hb : ∀ j, j < lit.length + 1 → ∃ x, buf[off + j]? = some x ∧ x ≠ CR ∧ x ≠ LF := by
    intro j hj
    cases j with
    | zero => exact ⟨c, hc, h1, h2⟩
    | succ j =>
      obtain ⟨x, hx⟩ := hbytes j (by omega)
      exact ⟨x, by rw [show off + (j + 1) = off + 1 + j by omega]; exact hx.1, hx.2⟩
  obtain ⟨n, hn1, hn2, hn3⟩ := getFieldLen_ok buf off (buf.length - off) (lit.length + 1) (by omega) (by omega)
    (by omega) hb
  refine ⟨n, hn1, hn2, fun hn0 => ?_, hbytes⟩
  obtain ⟨hk, he⟩ := hn3 hn0
  refine ⟨hk, he, ?_⟩
  have := getFieldLen_tail buf off (buf.length - off) n (by omega) (by omega) ⟨c, hc, h1, h2⟩ hn1 hn0
  rw [show buf.length - (off + n) = buf.length - off - n by omega]
  exact this

/-- a delimited field: inside the data, at least as long as `Content-Type:`, ending in CR or LF -/
def FieldOk (buf : List Byte) (S L : Nat) : Prop :=
  S + L ≤ buf.length ∧ 13 ≤ L ∧ (buf[S + L - 1]? = some CR ∨ buf[S + L - 1]? = some LF)

structure HInv (buf : List Byte) (off : Nat) (s : HdrScan) : Prop where
  ce : s.ceL = 0 ∨ (s.ceS + s.ceL ≤ buf.length ∧ Reach buf off (s.ceS + s.ceL))
  ct : s.ctL = 0 ∨ FieldOk buf s.ctS s.ctL

structure HRes (buf : List Byte) (s : HdrScan) : Prop where
  ce : s.ceL = 0 ∨ s.ceS + s.ceL ≤ (if s.header = 0 then buf.length else s.header)
  ct : s.ctL = 0 ∨ FieldOk buf s.ctS s.ctL
  hd : s.header ≤ buf.length

theorem lower_o_ne' (x : Byte) (h : lower x = lower 111) : x ≠ CR ∧ x ≠ LF := by
  constructor <;> (intro e; subst e; revert h; decide)

/-- the header scan never faults; the `Content-Transfer-Encoding:` field it found lies in front of
the end of the header it found, the `Content-Type:` field is one is_multipart() can take -/
theorem hdrScan_inv (buf : List Byte) (off : Nat) (s : HdrScan) (hi : HInv buf off s) (h0 : s.header = 0) :
    ∃ s', hdrScan buf off s = .ok s' ∧ HRes buf s' := by
  fun_induction hdrScan buf off s
  case case1 off s hn =>
    refine ⟨_, rfl, ⟨?_, hi.ct, by rw [h0]; omega⟩⟩
    rcases hi.ce with h | h
    · exact Or.inl h
    · right; rw [h0]; simpa using h.1
  case case2 off s off1 he hc =>
    have hlt : off1 < buf.length := by
      cases hg : buf[off1]? with
      | none => rw [hg] at he; cases he
      | some y => exact (List.getElem?_eq_some_iff.mp hg).1
    refine ⟨_, rfl, ⟨?_, hi.ct, Nat.le_of_lt hlt⟩⟩
    rcases hi.ce with h | h
    · exact Or.inl h
    · right
      have := reach_cr buf off _ h.2 hc
      have h1 : off1 ≠ 0 := by simp only [off1]; split <;> omega
      simp only [h1, if_false]
      simp only [off1]
      split at this <;> rename_i hh <;> simp only [hh] <;> exact this
  case case3 off s off1 he hc ih =>
    apply ih _ h0
    refine ⟨?_, hi.ct⟩
    rcases hi.ce with h | h
    · exact Or.inl h
    · right
      refine ⟨h.1, Or.inl ?_⟩
      have := reach_cr buf off _ h.2 hc
      simp only [off1]
      split at this <;> rename_i hh <;> simp only [hh] <;> exact this
  case case4 off s he hc _ =>
    have hlt : off + 1 < buf.length := by
      cases hg : buf[off + 1]? with
      | none => rw [hg] at he; cases he
      | some y => exact (List.getElem?_eq_some_iff.mp hg).1
    refine ⟨_, rfl, ⟨?_, hi.ct, Nat.le_of_lt hlt⟩⟩
    rcases hi.ce with h | h
    · exact Or.inl h
    · right
      have := reach_lf buf off _ h.2 hc
      simpa using this
  case case5 off s he hc _ ih =>
    apply ih _ h0
    refine ⟨?_, hi.ct⟩
    rcases hi.ce with h | h
    · exact Or.inl h
    · exact Or.inr ⟨h.1, Or.inl (reach_lf buf off _ h.2 hc)⟩
  case case6 off s c hc h1 h2 hcc rest e hx =>
    exfalso
    split at hx
    · rename_i hr
      obtain ⟨b, hb⟩ := caseEq_ok_len buf Gen.hdrContentType (off + 1) (by simp only [rest] at hr; omega)
      rw [hb] at hx; cases hx
    · cases hx
  case case7 off s c hc h1 h2 hcc rest hm e hg =>
    exfalso
    split at hm
    · rename_i hr
      obtain ⟨n, hn, _⟩ := matched_field buf off c _ hc h1 h2 ct_lit_no_eol hr hm
      rw [hn] at hg; cases hg
    · cases hm
  case case8 off s c hc dflt h1 h2 hcc rest hm hg ih =>
    apply ih _ h0
    refine ⟨?_, Or.inl rfl⟩
    rcases hi.ce with h | h
    · exact Or.inl h
    · exact Or.inr ⟨h.1, reach_dflt buf off (s.ceS + s.ceL) c h.2 hc h1 h2⟩
  case case9 off s c hc h1 h2 hcc rest hm n hg hn0 hn2 =>
    exfalso
    split at hm
    · rename_i hr
      obtain ⟨n', hn', _, hn3, _⟩ := matched_field buf off c _ hc h1 h2 ct_lit_no_eol hr hm
      rw [hn'] at hg; cases hg
      have := (hn3 hn0).1
      have : Gen.hdrContentType.length = 12 := rfl
      omega
    · cases hm
  case case10 off s c hc h1 h2 hcc rest hm n hg hn0 hn2 ih =>
    split at hm
    · rename_i hr
      obtain ⟨n', hn', hle, hn3, hby⟩ := matched_field buf off c _ hc h1 h2 ct_lit_no_eol hr hm
      rw [hn'] at hg; cases hg
      obtain ⟨hk, he, _⟩ := hn3 hn0
      have h12 : Gen.hdrContentType.length = 12 := rfl
      apply ih _ h0
      refine ⟨?_, Or.inr (show FieldOk buf off n from ⟨by omega, by omega, he⟩)⟩
      rcases hi.ce with h | h
      · exact Or.inl h
      · obtain ⟨x, hx, hx1, hx2⟩ := hby 0 (by omega)
        exact Or.inr ⟨h.1, reach_match buf off _ n c x h.2 hc h1 h2 (by simpa using hx) hx1 hx2 (by omega)⟩
    · cases hm
  case case11 off s c hc h1 h2 hcc rest hm e hx =>
    exfalso
    split at hx
    · rename_i hr
      obtain ⟨b, hb⟩ := caseEq_ok_len buf Gen.hdrContentTrEnc (off + 1) (by simp only [rest] at hr; omega)
      rw [hb] at hx; cases hx
    · cases hx
  case case12 off s c hc h1 h2 hcc rest hm0 hm e hg =>
    exfalso
    split at hm
    · rename_i hr
      obtain ⟨n, hn, _⟩ := matched_field buf off c _ hc h1 h2 ce_lit_no_eol hr hm
      rw [hn] at hg; cases hg
    · cases hm
  case case13 off s c hc dflt h1 h2 hcc rest hm0 hm hg ih =>
    apply ih _ h0
    exact ⟨Or.inl rfl, hi.ct⟩
  case case14 off s c hc h1 h2 hcc rest hm0 hm n hg hn0 hn2 =>
    exfalso
    split at hm
    · rename_i hr
      obtain ⟨n', hn', _, hn3, _⟩ := matched_field buf off c _ hc h1 h2 ce_lit_no_eol hr hm
      rw [hn'] at hg; cases hg
      have := (hn3 hn0).1
      have : Gen.hdrContentTrEnc.length = 25 := rfl
      omega
    · cases hm
  case case15 off s c hc h1 h2 hcc rest hm0 hm n hg hn0 hn2 ih =>
    split at hm
    · rename_i hr
      obtain ⟨n', hn', hle, hn3, hby⟩ := matched_field buf off c _ hc h1 h2 ce_lit_no_eol hr hm
      rw [hn'] at hg; cases hg
      obtain ⟨hk, he, htl⟩ := hn3 hn0
      apply ih _ h0
      refine ⟨Or.inr ⟨by simp only [rest] at *; omega, ?_⟩, hi.ct⟩
      have := reach_of_tail buf (off + n) htl
      rw [show off + n - 2 = off + n - 2 from rfl] at this
      exact this
    · cases hm
  case case16 off s c hc dflt h1 h2 hcc rest hm0 hm ih =>
    apply ih _ h0
    refine ⟨?_, hi.ct⟩
    rcases hi.ce with h | h
    · exact Or.inl h
    · exact Or.inr ⟨h.1, reach_dflt buf off _ c h.2 hc h1 h2⟩
  case case17 off s c hc dflt h1 h2 hcc ih =>
    apply ih _ h0
    refine ⟨?_, hi.ct⟩
    rcases hi.ce with h | h
    · exact Or.inl h
    · exact Or.inr ⟨h.1, reach_dflt buf off _ c h.2 hc h1 h2⟩


/-! ### qp_header -/

theorem NF_throw_bind {α β : Type} (e : Stop) (f : α → R β) (he : ∀ g, e ≠ .fault g) :
    NF ((throw e : R α) >>= f) := by
  intro g h
  simp only [bind, Except.bind, throw, throwThe, MonadExceptOf.throw] at h
  cases h
  exact he g rfl

theorem NF_pure_bind {α β : Type} (a : α) (f : α → R β) (h : NF (f a)) : NF ((pure a : R α) >>= f) := h

theorem NF_ok_bind {α β : Type} {x : R α} {f : α → R β} (a : α) (hx : x = .ok a) (h : NF (f a)) : NF (x >>= f) := by
  subst hx; exact h

theorem NF_cpy {buf : List Byte} {a n : Nat} (h : a + n ≤ buf.length) : NF (cpy buf a n) :=
  NF_of_ok ⟨_, cpy_ok h⟩

theorem NF_pure {α : Type} (a : α) : NF (pure a : R α) := NF_ok a
theorem NF_throw_abort {α : Type} (c : Nat) (o : List Byte) : NF (throw (Stop.abort c o) : R α) := NF_abort c o

macro "nf_step" : tactic => `(tactic| first
  | with_reducible exact NF_pure _
  | with_reducible exact NF_ok _
  | with_reducible exact NF_throw_abort _ _
  | with_reducible exact NF_abort _ _
  | with_reducible exact NF_of_ok (wrapHeader_ok _ _)
  | (with_reducible refine NF_cpy ?_; omega)
  | (exfalso; omega; done)
  | (simp only [pure_bind])
  | (with_reducible refine NF_throw_bind _ _ ?_ ; intro g h; cases h; done)
  | (with_reducible refine NF_bind ?_ (fun a ha => ?_))
  | (by_cases hbr : br = true <;> simp only [hbr, not_true_eq_false, not_false_eq_true, if_true, if_false])
  | split)

theorem ctype_ok {buf a : List Byte} {S L : Nat} (h : FieldOk buf S L) (hc : cpy buf S L = .ok a) :
    a = [] ∨ (EolAt a a.length ∧ Gen.mimeContentType.length ≤ a.length) := by
  obtain ⟨h1, h2, h3⟩ := h
  obtain ⟨hl, _, rfl⟩ := cpy_len hc
  right
  refine ⟨⟨by omega, ?_⟩, by rw [hl]; exact h2⟩
  rw [hl]
  have : ((buf.drop S).take L)[L - 1]? = buf[S + L - 1]? := by
    rw [List.getElem?_take, if_pos (by omega), List.getElem?_drop]
    congr 1; omega
  rw [this]; exact h3

theorem qpHeader_nf (cfg : Cfg) (buf : List Byte) (br : Bool) (st : St) (hne : buf ≠ []) :
    NF (qpHeader cfg buf br st) := by
  have hlen : 0 < buf.length := List.length_pos_iff.mpr hne
  obtain ⟨c0, hc0, hc0'⟩ := rd_ok (buf := buf) (i := 0) hlen
  unfold qpHeader
  refine NF_ok_bind c0 hc0 ?_
  have hh0 : (if c0 = CR then (if buf[1]? = some LF then 2 else 1) else if c0 = LF then 1 else 0) ≤ buf.length := by
    split
    · split
      · rename_i h1; have := (List.getElem?_eq_some_iff.mp h1).1; omega
      · omega
    · split <;> omega
  generalize (if c0 = CR then (if buf[1]? = some LF then 2 else 1) else if c0 = LF then 1 else 0) = header0 at hh0 ⊢
  simp only []
  by_cases hz : header0 = 0
  case' pos =>
    simp only [hz, if_true]
    obtain ⟨s, hs, hres⟩ := hdrScan_inv buf 0 {} ⟨Or.inl rfl, Or.inl rfl⟩ rfl
    refine NF_ok_bind s hs ?_
  case' neg =>
    simp only [hz, if_false]
    refine NF_pure_bind _ _ ?_
    have hres : HRes buf { header := header0 } := ⟨Or.inl rfl, Or.inl rfl, hh0⟩
    generalize ({ header := header0 } : HdrScan) = s at hres ⊢
  all_goals
    have hhd : (if s.header = 0 then buf.length else s.header) ≤ buf.length := by
      split
      · omega
      · exact hres.hd
    have hce := hres.ce
    generalize (if s.header = 0 then buf.length else s.header) = header at hhd hce ⊢
    split
    · exact NF_throw_bind _ _ (by intro g h; cases h)
    by_cases hct0 : s.ctL = 0
    case' pos =>
      simp only [hct0, if_true]
      simp only [pure_bind]
      generalize hg : ([] : List Byte) = ctype
      have hcty : ctype = [] ∨ (EolAt ctype ctype.length ∧ Gen.mimeContentType.length ≤ ctype.length) := Or.inl hg.symm
    case' neg =>
      simp only [hct0, if_false]
      have hfo : FieldOk buf s.ctS s.ctL := by rcases hres.ct with h | h; exact absurd h hct0; exact h
      refine NF_bind (NF_cpy hfo.1) (fun ctype hcty0 => ?_)
      have hcty := ctype_ok hfo hcty0
    all_goals
      split
      · exact NF_throw_bind _ _ (by intro g h; cases h)
      · refine NF_throw_bind _ _ ?_
        intro g hg; subst hg
        exact isMultipart_nf _ hcty g ‹_›
      · try simp only [pure_bind]
        rename_i r hr
        split
        · have hmp := isMultipart_mp _ _ _ hr
          refine NF_bind (NF_cpy hmp) (fun bd hbd => ?_)
          iterate 10 (all_goals (try nf_step))
        · exact NF_throw_abort _ _
        · iterate 10 (all_goals (try nf_step))

/-! ### send_qp, send_data -/

theorem sendPlain_ne {buf : List Byte} {st : St} {e : Stop} : sendPlain buf st ≠ .error e := by
  obtain ⟨st', h, _⟩ := sendPlain_spec buf st
  rw [h]; intro h'; cases h'

theorem recodeQp_ne {buf : List Byte} {st : St} {e : Stop} : recodeQp buf st ≠ .error e := by
  obtain ⟨st', h⟩ := recodeQp_ok buf st
  rw [h]; intro h'; cases h'

syntax "nf_close" : tactic
macro_rules | `(tactic| nf_close) => `(tactic| (exfalso; assumption))
macro_rules | `(tactic| nf_close) => `(tactic| exact absurd ‹sendPlain _ _ = _› sendPlain_ne)
macro_rules | `(tactic| nf_close) => `(tactic| exact absurd ‹recodeQp _ _ = _› recodeQp_ne)
macro_rules | `(tactic| nf_close) => `(tactic| (exfalso; apply_assumption; assumption))
macro_rules | `(tactic| nf_close) => `(tactic| exact qpHeader_nf _ _ _ _ ‹_ ≠ []› _ ‹qpHeader _ _ _ _ = _›)

/-- split a hypothesis `h : (nested matches and ifs) = .error (.fault f)` down to its leaves -/
syntax "nf_hyp " ident : tactic
macro_rules
  | `(tactic| nf_hyp $h:ident) => `(tactic| first
      | (cases $h:ident; done)
      | contradiction
      | (split at $h:ident <;> nf_hyp $h:ident)
      | (simp only [Except.error.injEq] at $h:ident; subst $h:ident; first | contradiction | nf_close | (rename_i hq; nf_hyp hq))
      | nf_close)

theorem partLoop_nf (cfg : Cfg) (buf bd : List Byte) (hlen : 0 < buf.length)
    (rec : (p : List Byte) → p.length < buf.length → St → R St)
    (hrec : ∀ p hp st f, rec p hp st ≠ .error (.fault f))
    (off : Nat) (hoff : 0 < off) (islast : Bool) (st : St) (f : Fault) :
    partLoop cfg buf bd hlen rec off hoff islast st ≠ .error (.fault f) := by
  fun_induction partLoop cfg buf bd hlen rec off hoff islast st
  all_goals first | assumption | skip
  case case1 =>
    intro hh
    simp +zetaDelta only at hh
    nf_hyp hh
  case case7 =>
    intro hh
    simp +zetaDelta only at hh
    nf_hyp hh
  case case2 =>
    rename_i hx
    intro hh; simp only [Except.error.injEq] at hh; subst hh
    nf_hyp hx
  all_goals (intro hh; first | (cases hh; done) | nf_hyp hh)

theorem sendQp_nf' (cfg : Cfg) : ∀ (n : Nat) (buf : List Byte) (st : St) (f : Fault), buf.length ≤ n →
    sendQp cfg buf st ≠ .error (.fault f) := by
  intro n
  induction n with
  | zero =>
    intro buf st f hn
    unfold sendQp
    simp [show buf.length = 0 by omega]
  | succ n ih =>
    intro buf st f hn
    have hrec : ∀ (p : List Byte) (hp : p.length < buf.length) (st : St) (f : Fault),
        (fun p (_ : p.length < buf.length) st => sendQp cfg p st) p hp st ≠ .error (.fault f) :=
      fun p hp st f => ih p st f (by omega)
    unfold sendQp
    intro hh
    split at hh
    · cases hh
    · rename_i hl0
      have hne : buf ≠ [] := by intro h; subst h; simp at hl0
      simp only at hh
      split at hh
      · nf_hyp hh
      · nf_hyp hh
      · split at hh
        · nf_hyp hh
        · split at hh
          · nf_hyp hh
          · split at hh
            · exact partLoop_nf cfg buf _ _ _ hrec _ _ _ _ f hh
            · exact partLoop_nf cfg buf _ _ _ hrec _ _ _ _ f hh

theorem sendQp_nf (cfg : Cfg) (buf : List Byte) (st : St) (f : Fault) : sendQp cfg buf st ≠ .error (.fault f) :=
  sendQp_nf' cfg _ buf st f (Nat.le_refl _)

/-- **send_data() never faults**: for every message and every configuration nothing is read outside
the message (or the part or header field a function was given) and nothing is written outside a
staging buffer. -/
theorem sendData_nf (cfg : Cfg) (m : List Byte) (f : Fault) : sendData cfg m ≠ .error (.fault f) := by
  unfold sendData
  intro hh
  simp only at hh
  split at hh
  · rename_i e he
    simp only [Except.error.injEq] at hh; subst hh
    split at he
    · exact sendQp_nf cfg m {} f he
    · exact absurd he sendPlain_ne
  · cases hh


end QsmtpModel.QrData
