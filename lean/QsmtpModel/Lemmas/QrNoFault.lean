/-
C06 (no_fault): the header-folding path of qremote/qrdata.c — wrap_line(), send_wrapped(),
wrap_header() — never reads outside the view it was given and never writes outside its staging
buffer, for every input; and the MIME helpers of qremote/mime.c never do for a header field that
ends in CR or LF (which is what getfieldlen() hands out).
-/
import QsmtpModel.QrData
import QsmtpModel.Lemmas.QrPlain
import QsmtpModel.Lemmas.QrQp

namespace QsmtpModel.QrData
open QsmtpModel QsmtpModel.Mime

/-! ### wrap_line -/

theorem lastSpGo_lt : ∀ (l : List Byte) (i best : Nat), best < i → lastSpGo l i best < i + l.length
  | [], i, best, h => by simpa [lastSpGo] using h
  | c :: cs, i, best, h => by
    simp only [lastSpGo, List.length_cons]
    have := lastSpGo_lt cs (i + 1) (if c = SP then i else best) (by split <;> omega)
    omega

/-- the two blank searches of wrap_line() stay inside a view of at least 970 bytes and give a fold
position below 970 -/
theorem foldAt_ok (d : List Byte) (h : 970 ≤ d.length) : ∃ p, foldAt d 0 = .ok p ∧ p < 970 := by
  have hdown : scanDown d 0 Gen.wrapLineStart = .ok (lastSpGo ((d.drop 1).take 800) 1 0) := by
    unfold scanDown
    simp only [show Gen.wrapLineStart = 800 from rfl]
    simp; omega
  have hle : lastSpGo ((d.drop 1).take 800) 1 0 ≤ 800 := by
    have := lastSpGo_lt ((d.drop 1).take 800) 1 0 (by omega)
    simp only [List.length_take, List.length_drop] at this; omega
  -- the upward search
  have hup : ∃ q, scanUp d 0 Gen.wrapLineLateStart = .ok q := by
    unfold scanUp
    simp only [show Gen.wrapLineLateStart = 800 from rfl, show Gen.wrapLineLate = 970 from rfl]
    split
    · exact ⟨_, rfl⟩
    · have : ((d.drop (0 + 800)).take (970 - 800)).length = 970 - 800 := by simp; omega
      simp [this]
  obtain ⟨q, hq⟩ := hup
  unfold foldAt
  simp only [hdown, hq, bind, Except.bind, pure, Except.pure, show Gen.wrapLineShort = 50 from rfl,
    show Gen.wrapLineLate = 970 from rfl]
  split
  · split
    · exact ⟨_, rfl, by assumption⟩
    · exact ⟨_, rfl, by omega⟩
  · refine ⟨_, rfl, ?_⟩
    omega

theorem cpy_err {buf : List Byte} {s n : Nat} {e : Stop} (h : cpy buf s n = .error e) : buf.length < s + n := by
  unfold cpy at h; split at h
  · cases h
  · omega

theorem cpy_len {buf : List Byte} {s n : Nat} {bs : List Byte} (h : cpy buf s n = .ok bs) :
    bs.length = n ∧ s + n ≤ buf.length ∧ bs = (buf.drop s).take n := by
  unfold cpy at h; split at h
  · cases h; refine ⟨?_, by assumption, rfl⟩; simp; omega
  · cases h

theorem push_err {cap : Nat} {sb bs : List Byte} {e : Stop} (h : push cap sb bs = .error e) :
    cap < sb.length + bs.length := by
  unfold push at h; split at h
  · cases h
  · omega

theorem push_eq {cap : Nat} {sb bs sb' : List Byte} (h : push cap sb bs = .ok sb') :
    sb' = sb ++ bs ∧ sb.length + bs.length ≤ cap := by
  unfold push at h; split at h
  · cases h; exact ⟨rfl, by assumption⟩
  · cases h

/-- the fold loop of wrap_line(): no fault whatever the staging buffer holds (a full buffer is
flushed first) -/
theorem wrapGo_ok (buf : List Byte) (pos off : Nat) (sb : List Byte) (st : St)
    (hpo : pos + off = buf.length) : ∃ st', wrapGo buf pos off sb st = .ok st' := by
  fun_induction wrapGo buf pos off sb st
  case case1 h h0 => have : Gen.wrapLineMin = 970 := rfl; omega
  case case2 pos off sb st h h0 e hf =>
    obtain ⟨p, hp, _⟩ := foldAt_ok (buf.drop pos) (by simp only [List.length_drop]; have : Gen.wrapLineMin = 970 := rfl; omega)
    rw [hp] at hf; cases hf
  case case3 pos off sb st h h0 p hf sb1 st1 hfl e hpu =>
    exfalso
    have := push_err hpu
    simp only [show wrapCap = 1048 from rfl, show Gen.wrapLineFlushSlack = 4 from rfl] at *
    obtain ⟨p', hp', hlt⟩ := foldAt_ok (buf.drop pos) (by simp only [List.length_drop]; have : Gen.wrapLineMin = 970 := rfl; omega)
    rw [hp'] at hf; cases hf
    split at hfl <;> simp only [Prod.mk.injEq] at hfl <;> obtain ⟨rfl, rfl⟩ := hfl <;> split at this <;> simp at this <;> omega
  case case4 pos off sb st h h0 p hf sb1 st1 hfl sb2 hpu e hc =>
    exfalso
    have := cpy_err hc
    obtain ⟨p', hp', hlt⟩ := foldAt_ok (buf.drop pos) (by simp only [List.length_drop]; have : Gen.wrapLineMin = 970 := rfl; omega)
    rw [hp'] at hf; cases hf
    have : Gen.wrapLineMin = 970 := rfl
    omega
  case case5 pos off sb st h h0 p hf sb1 st1 hfl sb2 hpu bs hc e hpu2 =>
    exfalso
    have h1 := push_err hpu2
    obtain ⟨rfl, _⟩ := push_eq hpu
    obtain ⟨hbl, _, _⟩ := cpy_len hc
    simp only [show wrapCap = 1048 from rfl, show Gen.wrapLineFlushSlack = 4 from rfl] at *
    obtain ⟨p', hp', hlt⟩ := foldAt_ok (buf.drop pos) (by simp only [List.length_drop]; have : Gen.wrapLineMin = 970 := rfl; omega)
    rw [hp'] at hf; cases hf
    simp only [List.length_append, List.length_cons, List.length_nil, hbl] at h1
    split at hfl <;> simp only [Prod.mk.injEq] at hfl <;> obtain ⟨rfl, rfl⟩ := hfl <;> split at h1 <;> simp at h1 <;> omega
  case case6 pos off sb st h h0 p hf sb1 st1 hfl sb2 hpu bs hc sb3 hpu2 ih =>
    apply ih
    obtain ⟨p', hp', hlt⟩ := foldAt_ok (buf.drop pos) (by simp only [List.length_drop]; have : Gen.wrapLineMin = 970 := rfl; omega)
    rw [hp'] at hf; cases hf
    have : Gen.wrapLineMin = 970 := rfl
    omega
  case case7 h sb1 st1 hfl e hc =>
    have := cpy_err hc; omega
  case case8 h sb1 st1 hfl bs hc e hpu =>
    exfalso
    have h1 := push_err hpu
    obtain ⟨hbl, _, _⟩ := cpy_len hc
    simp only [show wrapCap = 1048 from rfl, show Gen.wrapLineTailSlack = 3 from rfl, show Gen.wrapLineMin = 970 from rfl] at *
    simp only [List.length_append, List.length_cons, List.length_nil, hbl] at h1
    split at hfl <;> simp only [Prod.mk.injEq] at hfl <;> obtain ⟨rfl, rfl⟩ := hfl <;> simp at h1 <;> omega
  case case9 => exact ⟨_, rfl⟩

/-- `wrap_line(buf, len)` never faults for a non-empty line -/
theorem wrapLine_ok (buf : List Byte) (st : St) (h : buf ≠ []) : ∃ st', wrapLine buf st = .ok st' := by
  unfold wrapLine
  cases buf with
  | nil => exact absurd rfl h
  | cons c cs =>
    simp only [rd, List.getElem?_cons_zero]
    exact wrapGo_ok _ _ _ _ _ (by simp)

/-! ### send_wrapped, wrap_header -/

theorem sendWrapped_ok (buf : List Byte) (pos off ll : Nat) (st : St) (h : pos + off + ll ≤ buf.length) :
    ∃ st', sendWrapped buf pos off ll st = .ok st' := by
  unfold sendWrapped
  split
  · exact ⟨_, rfl⟩
  · rename_i hll
    simp only [show Gen.sendWrappedMax = 999 from rfl] at hll
    rw [cpy_ok (by omega)]
    obtain ⟨st1, h1, _⟩ := sendPlain_spec ((buf.drop pos).take off) st
    simp only [bind, Except.bind, h1]
    rw [cpy_ok (by omega)]
    simp only
    apply wrapLine_ok
    intro h0
    have := congrArg List.length h0
    simp at this
    omega

theorem wrapHeaderGo_ok (buf : List Byte) (pos off ll : Nat) (st : St) (h : pos + off + ll ≤ buf.length) :
    ∃ st', wrapHeaderGo buf pos off ll st = .ok st' := by
  fun_induction wrapHeaderGo buf pos off ll st
  case case1 pos off ll st c hc l hl ih =>
    have := (List.getElem?_eq_some_iff.mp hc).1
    exact ih (by omega)
  case case2 pos off ll st c hc l hl e hs =>
    obtain ⟨st', h'⟩ := sendWrapped_ok buf pos off ll st h
    rw [h'] at hs; cases hs
  case case3 pos off ll st c hc l hl st1 hs n ih =>
    apply ih
    have := (List.getElem?_eq_some_iff.mp hc).1
    have hl2 : pos + off + ll + l ≤ buf.length := by
      simp only [l, eolLen]
      split <;> split <;> rename_i h2 <;> first | (have := (List.getElem?_eq_some_iff.mp h2).1; omega) | omega
    simp only [n, wrappedNext]
    split <;> simp only <;> omega
  case case4 pos off ll st hn e hs =>
    obtain ⟨st', h'⟩ := sendWrapped_ok buf pos off ll st h
    rw [h'] at hs; cases hs
  case case5 pos off ll st hn st1 hs n e hc =>
    have := cpy_err hc
    have hlen := List.getElem?_eq_none_iff.mp hn
    simp only [n, wrappedNext] at this
    split at this <;> simp only at this <;> omega
  case case6 pos off ll st hn st1 hs n bs hc =>
    obtain ⟨st', h', _⟩ := sendPlain_spec bs st1
    exact ⟨st', h'⟩

/-- `wrap_header(buf, len)` never faults, for every header text -/
theorem wrapHeader_ok (buf : List Byte) (st : St) : ∃ st', wrapHeader buf st = .ok st' := by
  unfold wrapHeader
  split
  · obtain ⟨st', h', _⟩ := sendPlain_spec buf st
    exact ⟨st', h'⟩
  · exact wrapHeaderGo_ok buf 0 0 0 st (by omega)

end QsmtpModel.QrData
