/-
Helper lemmas for the address grammar model (QsmtpModel.Addr) against the reference
specification (QsmtpModel.Spec.Rfc5321).  Property theorems are in Props/C14.lean.
-/
import QsmtpModel.Addr
import QsmtpModel.Spec.Rfc5321

namespace QsmtpModel.Addr
open QsmtpModel

/-! ### bytes: a statement about all 256 byte values is checked by evaluation -/

theorem byte_forall (P : UInt8 → Prop) (h : ∀ n : Fin 256, P (UInt8.ofNat n.val)) : ∀ c, P c := by
  intro c
  have := h ⟨c.toNat, c.toNat_lt⟩
  simpa using this

/-- The proofs below depend on the extracted constants only through these facts; when `Gen`
changes they are re-checked (and break if a constant moved). -/
theorem dvLabelMax_eq : Gen.dvLabelMax = 63 := rfl
theorem dvTotalMax_eq : Gen.dvTotalMax = 255 := rfl
theorem dvLastMin_eq : Gen.dvLastMin = 3 := rfl
theorem dvLastMax_eq : Gen.dvLastMax = 64 := rfl
theorem routeMax_eq : Gen.routeMax = 256 := rfl
theorem xtextBufSize_eq : Gen.xtextBufSize = 321 := rfl
theorem xtextSlack_eq : Gen.xtextSlack = 2 := rfl

set_option maxRecDepth 100000 in
theorem dvChar_ldh : ∀ c : Byte, dvChar c = true → c ≠ DOT → Spec.isLDH c = true := by
  apply byte_forall; decide

set_option maxRecDepth 100000 in
theorem isAlpha_letter : ∀ c : Byte, isAlpha c = true → Spec.isLetter c = true := by
  apply byte_forall; decide

set_option maxRecDepth 100000 in
theorem letter_not_digit : ∀ c : Byte, Spec.isLetter c = true → Spec.isDigitC c = false := by
  apply byte_forall; decide

/-! ### C strings -/

@[simp] theorem cstr_nil : cstr [] = [] := rfl

theorem cstr_cons (c : Byte) (p : List Byte) : cstr (c :: p) = if c = 0 then [] else c :: cstr p := by
  unfold cstr
  by_cases h : c = 0 <;> simp [List.takeWhile, h]

theorem cstr_cons_ne (c : Byte) (p : List Byte) (h : c ≠ 0) : cstr (c :: p) = c :: cstr p := by
  rw [cstr_cons]; simp [h]

@[simp] theorem cstr_zero (p : List Byte) : cstr (0 :: p) = [] := by
  rw [cstr_cons]; simp

theorem cstr_append_zero (s r : List Byte) (h : (0 : Byte) ∉ s) : cstr (s ++ 0 :: r) = s := by
  induction s with
  | nil => simp
  | cons c s ih =>
    have hc : c ≠ 0 := fun e => h (by simp [e])
    have hs : (0 : Byte) ∉ s := fun e => h (by simp [e])
    simp [cstr_cons_ne _ _ hc, ih hs]

theorem zero_not_mem_cstr (p : List Byte) : (0 : Byte) ∉ cstr p := by
  induction p with
  | nil => simp
  | cons c p ih =>
    rw [cstr_cons]
    split
    · simp
    · rename_i h; simp; exact ⟨fun e => h e.symm, ih⟩

/-- a buffer holding a NUL splits into its C string, the NUL and the rest -/
theorem split_at_zero (p : List Byte) (h : (0 : Byte) ∈ p) : ∃ r, p = cstr p ++ 0 :: r := by
  induction p with
  | nil => simp at h
  | cons c p ih =>
    by_cases hc : c = 0
    · subst hc; exact ⟨p, by simp⟩
    · have : (0 : Byte) ∈ p := by
        rcases List.mem_cons.mp h with e | e
        · exact absurd e.symm hc
        · exact e
      obtain ⟨r, hr⟩ := ih this
      exact ⟨r, by rw [cstr_cons_ne _ _ hc]; simp; exact hr⟩

/-! ### domainvalid against the reference -/

/-- the reference scan with the loop's state made explicit: `k` characters of the current label
seen, `dot` = a dot was seen, `prev` = the previous character -/
def scanD (k : Nat) (dot : Bool) (prev : Byte) : List Byte → Bool
  | [] => dot && decide (2 ≤ k) && decide (k ≤ 63) && Spec.isLetter prev
  | c :: cs =>
    if c = 46 then decide (1 ≤ k) && decide (k ≤ 63) && scanD 0 true c cs
    else Spec.isLDH c && scanD (k + 1) dot c cs

theorem dvLoop_scan (p : List Byte) : ∀ (n : Nat) (dt : Option Nat) (prev : Byte),
    lstart dt ≤ n → (n = lstart dt → p.head? ≠ some DOT) →
    dvLoop p n dt prev = .ok 0 →
    scanD (n - lstart dt) dt.isSome prev (cstr p) = true ∧ n + (cstr p).length ≤ 255 := by
  induction p with
  | nil => intro n dt prev _ _ h; simp [dvLoop] at h
  | cons c rest ih =>
    intro n dt prev hle hhead h
    unfold dvLoop at h
    by_cases hc0 : c = 0
    · subst hc0
      simp only [↓reduceIte] at h
      simp only [cstr_zero, scanD, List.length_nil]
      unfold dvEnd at h
      rw [dvTotalMax_eq, dvLastMin_eq, dvLastMax_eq] at h
      cases dt with
      | none => simp at h
      | some d =>
        have hl : lstart (some d) = d + 1 := rfl
        rw [hl] at hle ⊢
        simp only [Except.ok.injEq] at h
        split at h
        · simp at h
        · split at h
          · simp at h
          · split at h
            · simp at h
            · rename_i h1 h2 h3
              have := isAlpha_letter prev (by simpa using h3)
              simp [this]
              omega
    · simp only [hc0, ↓reduceIte] at h
      rw [cstr_cons_ne _ _ hc0]
      by_cases hdv : dvChar c = true
      · simp only [hdv, Bool.not_true, Bool.false_eq_true, ↓reduceIte] at h
        by_cases hdot : c = DOT
        · subst hdot
          simp only [↓reduceIte] at h
          rw [dvLabelMax_eq] at h
          split at h
          · simp at h
          · rename_i hk
            have hk1 : n ≠ lstart dt := by
              intro e; exact hhead e (by simp)
            cases rest with
            | nil => simp at h
            | cons d rest' =>
              simp only at h
              split at h
              · simp at h
              · rename_i hd
                have := ih (n + 1) (some n) DOT (by simp [lstart]) (by intro _; simp; exact hd) h
                simp only [lstart, Nat.sub_self, Option.isSome_some] at this
                simp only [scanD, DOT, ↓reduceIte, List.length_cons]
                simp only [DOT] at this
                refine ⟨?_, by omega⟩
                simp [this.1]
                omega
        · simp only [hdot, ↓reduceIte] at h
          have := ih (n + 1) dt c (by omega) (by intro e; omega) h
          have hldh := dvChar_ldh c hdv hdot
          have hne : c ≠ 46 := hdot
          simp only [scanD, hne, ↓reduceIte, hldh, Bool.true_and, List.length_cons]
          have e : n + 1 - lstart dt = n - lstart dt + 1 := by omega
          rw [e] at this
          exact ⟨this.1, by omega⟩
      · simp [hdv] at h

/-! ### the reference `splitOn` -/

theorem splitOn_sep (sep : Byte) (cs : List Byte) :
    Spec.splitOn sep (sep :: cs) = [] :: Spec.splitOn sep cs := by
  simp [Spec.splitOn]

theorem splitOn_exists (sep : Byte) (s : List Byte) : ∃ l ls, Spec.splitOn sep s = l :: ls := by
  induction s with
  | nil => exact ⟨[], [], rfl⟩
  | cons c cs ih =>
    obtain ⟨l, ls, h⟩ := ih
    by_cases hc : c = sep
    · subst hc; exact ⟨[], _, splitOn_sep _ _⟩
    · exact ⟨c :: l, ls, by simp [Spec.splitOn, hc, h]⟩

theorem splitOn_ne (sep c : Byte) (cs l : List Byte) (ls : List (List Byte)) (hc : c ≠ sep)
    (h : Spec.splitOn sep cs = l :: ls) : Spec.splitOn sep (c :: cs) = (c :: l) :: ls := by
  simp [Spec.splitOn, hc, h]

/-- a label as the reference wants it -/
def labOk (l : List Byte) : Bool := decide (1 ≤ l.length) && decide (l.length ≤ 63) && l.all Spec.isLDH

theorem scanD_split (s : List Byte) : ∀ (k : Nat) (dot : Bool) (prev : Byte), scanD k dot prev s = true →
    ∃ l0 ls, Spec.splitOn 46 s = l0 :: ls ∧
      1 ≤ k + l0.length ∧ k + l0.length ≤ 63 ∧ l0.all Spec.isLDH = true ∧
      ls.all labOk = true ∧
      (dot = true ∨ ls ≠ []) ∧
      (ls = [] → 2 ≤ k + l0.length ∧ Spec.isLetter (l0.getLast?.getD prev) = true) ∧
      (∀ l, ls.getLast? = some l → 2 ≤ l.length ∧ ∃ c ∈ l, Spec.isLetter c = true) := by
  induction s with
  | nil =>
    intro k dot prev h
    simp only [scanD, Bool.and_eq_true, decide_eq_true_eq] at h
    obtain ⟨⟨⟨hd, hk2⟩, hk63⟩, hp⟩ := h
    exact ⟨[], [], rfl, by simp; omega, by simp; omega, rfl, rfl, Or.inl hd,
      fun _ => ⟨by simp; omega, by simpa using hp⟩, by simp⟩
  | cons c cs ih =>
    intro k dot prev h
    unfold scanD at h
    by_cases hc : c = 46
    · subst hc
      simp only [↓reduceIte, Bool.and_eq_true, decide_eq_true_eq] at h
      obtain ⟨l0', ls', hs, h1, h2, h3, h4, _, h6, h7⟩ := ih 0 true 46 h.2
      refine ⟨[], l0' :: ls', by rw [splitOn_sep, hs], by simp; omega, by simp; omega, by simp, ?_, by simp, by simp, ?_⟩
      · simp only [List.all_cons, h4, Bool.and_true]
        simp only [labOk, h3, Bool.and_true, Bool.and_eq_true, decide_eq_true_eq]
        omega
      · intro l hl
        cases ls' with
        | nil =>
          simp at hl; subst hl
          have := h6 rfl
          refine ⟨by omega, ?_⟩
          cases hq : l0'.getLast? with
          | none => simp at hq; subst hq; simp at this
          | some x =>
            rw [hq] at this
            exact ⟨x, List.mem_of_getLast? hq, by simpa using this.2⟩
        | cons a as =>
          rw [List.getLast?_cons_cons] at hl
          exact h7 l hl
    · simp only [hc, ↓reduceIte, Bool.and_eq_true] at h
      obtain ⟨l0', ls', hs, h1, h2, h3, h4, h5, h6, h7⟩ := ih (k + 1) dot c h.2
      refine ⟨c :: l0', ls', splitOn_ne _ _ _ _ _ hc hs, by simp; omega, by simp; omega, ?_, h4, h5, ?_, h7⟩
      · simp [h.1, h3]
      · intro e
        have := h6 e
        refine ⟨by simp; omega, ?_⟩
        rw [List.getLast?_cons]
        simpa using this.2

theorem scanD_fqdn (h : List Byte) (hs : scanD 0 false 0 h = true) (hl : h.length ≤ 255) : Spec.fqdnB h = true := by
  obtain ⟨l0, ls, hsp, h1, h2, h3, h4, h5, _, h7⟩ := scanD_split h 0 false 0 hs
  have hne : ls ≠ [] := by simpa using h5
  unfold Spec.fqdnB
  simp only [hsp]
  obtain ⟨a, as, rfl⟩ : ∃ a as, ls = a :: as := by
    cases ls with
    | nil => exact absurd rfl hne
    | cons a as => exact ⟨a, as, rfl⟩
  rw [List.getLast?_cons_cons]
  have hall : (l0 :: a :: as).all (fun l => decide (1 ≤ l.length) && decide (l.length ≤ 63) && l.all Spec.isLDH) = true := by
    rw [List.all_cons]
    have : (a :: as).all (fun l => decide (1 ≤ l.length) && decide (l.length ≤ 63) && l.all Spec.isLDH) = true := h4
    rw [this]
    simp [h3]; omega
  cases hq : (a :: as).getLast? with
  | none => simp at hq
  | some l =>
    obtain ⟨hl2, x, hx, hxl⟩ := h7 l hq
    have hany : l.any (fun c => !Spec.isDigitC c) = true := by
      rw [List.any_eq_true]
      exact ⟨x, hx, by simp [letter_not_digit x hxl]⟩
    simp only [hall, hany, Bool.and_true, Bool.and_eq_true, decide_eq_true_eq]
    simp; omega

theorem domainvalid_fqdn (p : List Byte) (h : domainvalid p = .ok 0) : Spec.fqdnB (cstr p) = true := by
  unfold domainvalid at h
  cases p with
  | nil => simp at h
  | cons c rest =>
    simp only at h
    split at h
    · simp at h
    · rename_i hc
      have := dvLoop_scan (c :: rest) 0 none 0 (by simp [lstart])
        (by intro _; simp; intro e; exact hc (Or.inr e)) h
      exact scanD_fqdn _ (by simpa [lstart] using this.1) (by omega)

/-! ### no faults when the buffer holds a NUL -/

theorem mem_tail_of_ne {c : Byte} {rest : List Byte} (h : (0 : Byte) ∈ c :: rest) (hc : c ≠ 0) : (0 : Byte) ∈ rest := by
  rcases List.mem_cons.mp h with e | e
  · exact absurd e.symm hc
  · exact e

theorem dvLoop_no_fault (p : List Byte) : ∀ (n : Nat) (dt : Option Nat) (prev : Byte), (0 : Byte) ∈ p →
    ∃ r, dvLoop p n dt prev = .ok r := by
  induction p with
  | nil => intro _ _ _ h; simp at h
  | cons c rest ih =>
    intro n dt prev h
    unfold dvLoop
    by_cases hc : c = 0
    · simp [hc]
    · have hr := mem_tail_of_ne h hc
      simp only [hc, ↓reduceIte]
      split
      · exact ⟨_, rfl⟩
      · split
        · split
          · exact ⟨_, rfl⟩
          · cases rest with
            | nil => simp at hr
            | cons d rest' =>
              simp only
              split
              · exact ⟨_, rfl⟩
              · exact ih _ _ _ hr
        · exact ih _ _ _ hr

theorem domainvalid_ok (p : List Byte) (h : (0 : Byte) ∈ p) : ∃ r, domainvalid p = .ok r := by
  unfold domainvalid
  cases p with
  | nil => simp at h
  | cons c rest =>
    simp only
    split
    · exact ⟨_, rfl⟩
    · exact dvLoop_no_fault _ _ _ _ h

/-! ### parselocalpart against the reference -/

/-- the bytes up to the first '@' or NUL -/
def lpOf (p : List Byte) : List Byte := p.takeWhile (fun c => c != 0 && c != AT)

theorem lpOf_cons_stop (c : Byte) (p : List Byte) (h : c = 0 ∨ c = AT) : lpOf (c :: p) = [] := by
  unfold lpOf
  rcases h with rfl | rfl <;> simp [List.takeWhile, AT]

theorem lpOf_cons_go (c : Byte) (p : List Byte) (h : ¬ (c = 0 ∨ c = AT)) : lpOf (c :: p) = c :: lpOf p := by
  unfold lpOf
  have h0 : c ≠ 0 := fun e => h (Or.inl e)
  have h1 : c ≠ AT := fun e => h (Or.inr e)
  have : (c != 0 && c != AT) = true := by simp [h0, h1]
  rw [List.takeWhile_cons, if_pos this]

set_option maxRecDepth 100000 in
theorem lpPlain_atext : ∀ c : Byte, lpPlain c = true → c ≠ DOT → Spec.isAtext c = true := by
  apply byte_forall; decide

set_option maxRecDepth 100000 in
theorem lpQuotedOk_qtext : ∀ c : Byte, lpQuotedOk c = true → Spec.isQtext c = true ∧ c ≠ 92 := by
  apply byte_forall; decide

/-- reference scan of a dot-string; `cur` = the current atom is not empty -/
def scanDot (cur : Bool) : List Byte → Bool
  | [] => cur
  | c :: cs => if c = 46 then cur && scanDot false cs else Spec.isAtext c && scanDot true cs

/-- the unquoted phase of the loop (after at least one byte) -/
theorem lpLoop_plain (p : List Byte) : ∀ (n : Nat) (prev : Byte) (r : Int),
    n ≠ 0 → (prev = DOT → ∃ d rest, p = d :: rest ∧ d ≠ AT ∧ d ≠ 0) →
    lpLoop p n false prev = .ok r → 0 ≤ r →
    scanDot (decide (prev ≠ DOT)) (lpOf p) = true ∧ r = n + (lpOf p).length := by
  induction p with
  | nil => intro n prev r _ _ h; simp [lpLoop] at h
  | cons c rest ih =>
    intro n prev r hn hinv h hr
    unfold lpLoop at h
    by_cases hstop : c = 0 ∨ c = AT
    · simp only [hstop, ↓reduceIte, Bool.false_eq_true, Except.ok.injEq] at h
      rw [lpOf_cons_stop _ _ hstop]
      have hp : prev ≠ DOT := by
        intro e
        obtain ⟨d, rest', he, h1, h2⟩ := hinv e
        simp at he
        rcases hstop with e0 | e1
        · exact h2 (he.1 ▸ e0)
        · exact h1 (he.1 ▸ e1)
      simp [scanDot, hp, ← h]
    · simp only [hstop, ↓reduceIte] at h
      rw [lpOf_cons_go _ _ hstop]
      by_cases hq : c = DQUOTE
      · simp [hq, hn] at h
        omega
      · simp only [hq, ↓reduceIte, Bool.not_false] at h
        by_cases hdot : c = DOT
        · subst hdot
          simp only [↓reduceIte, hn, false_or] at h
          split at h
          · simp at h; omega
          · rename_i hpd
            cases rest with
            | nil => simp at h
            | cons d rest' =>
              simp only at h
              split at h
              · simp at h; omega
              · rename_i hd
                have := ih (n + 1) DOT r (by omega)
                  (fun _ => ⟨d, rest', rfl, fun e => hd (Or.inl e), fun e => hd (Or.inr e)⟩) h hr
                simp only [scanDot, DOT, ↓reduceIte, List.length_cons]
                simp only [DOT, ne_eq, not_true_eq_false, decide_false] at this
                refine ⟨?_, by omega⟩
                simp only [DOT] at hpd
                simp [hpd, this.1]
        · simp only [hdot, ↓reduceIte] at h
          by_cases hpl : lpPlain c = true
          · simp only [hpl, ↓reduceIte] at h
            have := ih (n + 1) c r (by omega) (fun e => absurd e hdot) h hr
            have hne : c ≠ 46 := hdot
            simp only [scanDot, hne, ↓reduceIte, List.length_cons, lpPlain_atext c hpl hdot, Bool.true_and]
            simp only [ne_eq, hdot, not_false_eq_true, decide_true] at this
            exact ⟨this.1, by omega⟩
          · simp [hpl] at h; omega

/-- the quoted phase of the loop -/
theorem lpLoop_quoted (m : Nat) : ∀ (p : List Byte), p.length ≤ m → ∀ (n : Nat) (prev : Byte) (r : Int),
    lpLoop p n true prev = .ok r → 0 ≤ r →
    ∃ content, lpOf p = content ++ [DQUOTE] ∧ Spec.qcontent content = true ∧ r = n + content.length + 1 := by
  induction m with
  | zero =>
    intro p hp n prev r h
    have : p = [] := List.eq_nil_of_length_eq_zero (by omega)
    subst this; simp [lpLoop] at h
  | succ m ih =>
    intro p hp n prev r h hr
    cases p with
    | nil => simp [lpLoop] at h
    | cons c rest =>
      unfold lpLoop at h
      by_cases hstop : c = 0 ∨ c = AT
      · simp [hstop] at h; omega
      · simp only [hstop, ↓reduceIte] at h
        rw [lpOf_cons_go _ _ hstop]
        by_cases hq : c = DQUOTE
        · subst hq
          simp only [↓reduceIte] at h
          cases rest with
          | nil => simp at h
          | cons d rest' =>
            simp only at h
            split at h
            · simp at h; omega
            · rename_i hd
              have hd' : d = 0 ∨ d = AT := by
                by_cases e : d = AT
                · exact Or.inr e
                · by_cases e0 : d = 0
                  · exact Or.inl e0
                  · exact absurd ⟨e, e0⟩ hd
              unfold lpLoop at h
              simp only [hd', ↓reduceIte, Bool.false_eq_true, Except.ok.injEq] at h
              refine ⟨[], ?_, rfl, ?_⟩
              · rw [lpOf_cons_stop _ _ hd']; rfl
              · simp; omega
        · simp only [hq, ↓reduceIte, Bool.not_true, Bool.false_eq_true] at h
          by_cases hok : lpQuotedOk c = true
          · simp only [hok, ↓reduceIte] at h
            obtain ⟨content, h1, h2, h3⟩ := ih rest (by simp at hp; omega) (n + 1) c r h hr
            have hqt := lpQuotedOk_qtext c hok
            refine ⟨c :: content, by rw [h1]; rfl, ?_, by simp; omega⟩
            unfold Spec.qcontent
            simp [hqt.2, hqt.1, h2]
          · simp only [hok, Bool.false_eq_true, ↓reduceIte] at h
            by_cases hb : c = BSLASH
            · subst hb
              simp only [↓reduceIte] at h
              cases rest with
              | nil => simp at h
              | cons d rest' =>
                simp only at h
                split at h
                · rename_i hd
                  obtain ⟨content, h1, h2, h3⟩ := ih rest' (by simp at hp; omega) (n + 2) d r h hr
                  have hdgo : ¬ (d = 0 ∨ d = AT) := by
                    rcases hd with rfl | rfl <;> decide
                  refine ⟨BSLASH :: d :: content, by rw [lpOf_cons_go _ _ hdgo, h1]; rfl, ?_, by simp; omega⟩
                  have hqp : Spec.isQpChar d = true := by
                    rcases hd with rfl | rfl <;> decide
                  unfold Spec.qcontent
                  simp [BSLASH, hqp, h2]
                · simp at h; omega
            · simp [hb] at h; omega

theorem scanDot_split (s : List Byte) : ∀ (cur : Bool), scanDot cur s = true →
    ∃ a0 as, Spec.splitOn 46 s = a0 :: as ∧ (cur = true ∨ a0 ≠ []) ∧ a0.all Spec.isAtext = true ∧
      as.all (fun a => !a.isEmpty && a.all Spec.isAtext) = true := by
  induction s with
  | nil => intro cur h; exact ⟨[], [], rfl, Or.inl (by simpa [scanDot] using h), rfl, rfl⟩
  | cons c cs ih =>
    intro cur h
    unfold scanDot at h
    by_cases hc : c = 46
    · subst hc
      simp only [↓reduceIte, Bool.and_eq_true] at h
      obtain ⟨a0, as, h1, h2, h3, h4⟩ := ih false h.2
      refine ⟨[], a0 :: as, by rw [splitOn_sep, h1], Or.inl h.1, rfl, ?_⟩
      have : a0 ≠ [] := by simpa using h2
      simp [h3, h4, this]
    · simp only [hc, ↓reduceIte, Bool.and_eq_true] at h
      obtain ⟨a0, as, h1, _, h3, h4⟩ := ih true h.2
      exact ⟨c :: a0, as, splitOn_ne _ _ _ _ _ hc h1, Or.inr (by simp), by simp [h.1, h3], h4⟩

theorem scanDot_dotString (s : List Byte) (h : scanDot false s = true) : Spec.dotStringB s = true := by
  obtain ⟨a0, as, h1, h2, h3, h4⟩ := scanDot_split s false h
  unfold Spec.dotStringB
  rw [h1, List.all_cons, h4]
  have : a0 ≠ [] := by simpa using h2
  simp [h3, this]

theorem parselocalpart_ref (p : List Byte) (r : Int) (h : parselocalpart p = .ok r) (hr : 0 ≤ r) :
    r = (lpOf p).length ∧ (lpOf p = [] ∨ Spec.dotStringB (lpOf p) = true ∨ Spec.quotedStringB (lpOf p) = true) := by
  unfold parselocalpart at h
  cases p with
  | nil => simp [lpLoop] at h
  | cons c rest =>
    unfold lpLoop at h
    by_cases hstop : c = 0 ∨ c = AT
    · simp only [hstop, ↓reduceIte, Bool.false_eq_true, Except.ok.injEq] at h
      rw [lpOf_cons_stop _ _ hstop]
      exact ⟨by simp [← h], Or.inl rfl⟩
    · simp only [hstop, ↓reduceIte] at h
      rw [lpOf_cons_go _ _ hstop]
      by_cases hq : c = DQUOTE
      · subst hq
        simp only [↓reduceIte, Bool.false_eq_true, ne_eq, not_true_eq_false] at h
        obtain ⟨content, h1, h2, h3⟩ := lpLoop_quoted rest.length rest (Nat.le_refl _) 1 DQUOTE r h hr
        refine ⟨by rw [h1]; simp; omega, Or.inr (Or.inr ?_)⟩
        rw [h1]
        simp [Spec.quotedStringB, DQUOTE, h2]
      · simp only [hq, ↓reduceIte, Bool.not_false] at h
        by_cases hdot : c = DOT
        · simp [hdot] at h; omega
        · simp only [hdot, ↓reduceIte] at h
          by_cases hpl : lpPlain c = true
          · simp only [hpl, ↓reduceIte] at h
            have := lpLoop_plain rest 1 c r (by omega) (fun e => absurd e hdot) h hr
            simp only [ne_eq, hdot, not_false_eq_true, decide_true] at this
            refine ⟨by simp; omega, Or.inr (Or.inl ?_)⟩
            apply scanDot_dotString
            have hne : c ≠ 46 := hdot
            simp [scanDot, hne, lpPlain_atext c hpl hdot, this.1]
          · simp [hpl] at h; omega

theorem lpLoop_no_fault (m : Nat) : ∀ (p : List Byte), p.length ≤ m → ∀ (n : Nat) (q : Bool) (prev : Byte),
    (0 : Byte) ∈ p → ∃ r, lpLoop p n q prev = .ok r := by
  induction m with
  | zero =>
    intro p hp n q prev h
    have : p = [] := List.eq_nil_of_length_eq_zero (by omega)
    subst this; simp at h
  | succ m ih =>
    intro p hp n q prev h
    cases p with
    | nil => simp at h
    | cons c rest =>
      have hlen : rest.length ≤ m := by simp at hp; omega
      unfold lpLoop
      by_cases hc : c = 0
      · simp [hc]
      · have hr := mem_tail_of_ne h hc
        split
        · exact ⟨_, rfl⟩
        · split
          · split
            · cases rest with
              | nil => simp at hr
              | cons d rest' =>
                simp only
                split
                · exact ⟨_, rfl⟩
                · exact ih _ hlen _ _ _ hr
            · split
              · exact ⟨_, rfl⟩
              · exact ih _ hlen _ _ _ hr
          · split
            · split
              · split
                · exact ⟨_, rfl⟩
                · cases rest with
                  | nil => simp at hr
                  | cons d rest' =>
                    simp only
                    split
                    · exact ⟨_, rfl⟩
                    · exact ih _ hlen _ _ _ hr
              · split
                · exact ih _ hlen _ _ _ hr
                · exact ⟨_, rfl⟩
            · split
              · exact ih _ hlen _ _ _ hr
              · split
                · cases rest with
                  | nil => simp at hr
                  | cons d rest' =>
                    simp only
                    split
                    · rename_i hd
                      have hd0 : d ≠ 0 := by rcases hd with rfl | rfl <;> decide
                      exact ih _ (by simp at hlen; omega) _ _ _ (mem_tail_of_ne hr hd0)
                    · exact ⟨_, rfl⟩
                · exact ⟨_, rfl⟩

theorem parselocalpart_ok (p : List Byte) (h : (0 : Byte) ∈ p) : ∃ r, parselocalpart p = .ok r :=
  lpLoop_no_fault p.length p (Nat.le_refl _) _ _ _ h

/-- the proposed fix only turns accepts into rejects: whatever the strict loop accepts, the loop
as it was accepted with the same length -/
theorem lpLoop_lax (m : Nat) : ∀ (p : List Byte), p.length ≤ m → ∀ (n : Nat) (q : Bool) (prev : Byte) (r : Int),
    lpLoop p n q prev = .ok r → 0 ≤ r → lpLaxLoop p n q = .ok r := by
  induction m with
  | zero =>
    intro p hp n q prev r h
    have : p = [] := List.eq_nil_of_length_eq_zero (by omega)
    subst this; simp [lpLoop] at h
  | succ m ih =>
    intro p hp n q prev r h hr
    cases p with
    | nil => simp [lpLoop] at h
    | cons c rest =>
      have hlen : rest.length ≤ m := by simp at hp; omega
      unfold lpLoop at h
      unfold lpLaxLoop
      by_cases hstop : c = 0 ∨ c = AT
      · simpa [hstop] using h
      · simp only [hstop, ↓reduceIte] at h ⊢
        by_cases hq : c = DQUOTE
        · simp only [hq, ↓reduceIte] at h ⊢
          cases q with
          | true =>
            simp only [↓reduceIte] at h
            cases rest with
            | nil => simp at h
            | cons d rest' =>
              simp only at h
              split at h
              · simp at h; omega
              · exact ih _ hlen _ _ _ _ h hr
          | false =>
            simp only [Bool.false_eq_true, ↓reduceIte] at h
            split at h
            · simp at h; omega
            · exact ih _ hlen _ _ _ _ h hr
        · simp only [hq, ↓reduceIte] at h ⊢
          cases q with
          | false =>
            simp only [Bool.not_false, ↓reduceIte] at h ⊢
            by_cases hdot : c = DOT
            · simp only [hdot, ↓reduceIte] at h
              have hpl : lpPlain DOT = true := by decide
              simp only [hdot, hpl, ↓reduceIte]
              split at h
              · simp at h; omega
              · cases rest with
                | nil => simp at h
                | cons d rest' =>
                  simp only at h
                  split at h
                  · simp at h; omega
                  · exact ih _ hlen _ _ _ _ h hr
            · simp only [hdot, ↓reduceIte] at h
              split at h
              · rename_i hpl
                simp only [hpl, ↓reduceIte]
                exact ih _ hlen _ _ _ _ h hr
              · simp at h; omega
          | true =>
            simp only [Bool.not_true, Bool.false_eq_true, ↓reduceIte] at h ⊢
            split at h
            · rename_i hok
              simp only [hok, ↓reduceIte]
              exact ih _ hlen _ _ _ _ h hr
            · rename_i hok
              simp only [hok, Bool.false_eq_true, ↓reduceIte]
              split at h
              · rename_i hb
                simp only [hb, ↓reduceIte]
                cases rest with
                | nil => simp at h
                | cons d rest' =>
                  simp only at h ⊢
                  split at h
                  · rename_i hd
                    simp only [hd, ↓reduceIte]
                    exact ih _ (by simp at hlen; omega) _ _ _ _ h hr
                  · simp at h; omega
              · simp at h; omega

/-! ### strchr -/

theorem strchr_some (c : Byte) (p : List Byte) : ∀ (n k : Nat), strchr c p n = .ok (some k) →
    ∃ pre post, p = pre ++ c :: post ∧ pre.length = k ∧ c ∉ pre ∧ (0 : Byte) ∉ pre := by
  induction p with
  | nil => intro n k h; simp [strchr] at h
  | cons x xs ih =>
    intro n k h
    unfold strchr at h
    by_cases hx : x = c
    · simp [hx] at h
      exact ⟨[], xs, by simp [hx], by simp [h], by simp, by simp⟩
    · simp only [hx, ↓reduceIte] at h
      by_cases h0 : x = 0
      · simp [h0] at h
      · simp only [h0, ↓reduceIte] at h
        cases hrec : strchr c xs (n + 1) with
        | error e => simp [hrec, Except.map] at h
        | ok v =>
          simp only [hrec, Except.map, Except.ok.injEq] at h
          cases v with
          | none => simp at h
          | some k' =>
            simp at h
            obtain ⟨pre, post, h1, h2, h3, h4⟩ := ih (n + 1) k' hrec
            refine ⟨x :: pre, post, by simp [h1], by simp [h2, h], ?_, ?_⟩
            · simp; exact ⟨fun e => hx e.symm, h3⟩
            · simp; exact ⟨fun e => h0 e.symm, h4⟩

theorem strchr_none (c : Byte) (p : List Byte) : ∀ (n : Nat), strchr c p n = .ok none →
    ∃ pre post, p = pre ++ 0 :: post ∧ c ∉ pre ∧ (0 : Byte) ∉ pre := by
  induction p with
  | nil => intro n h; simp [strchr] at h
  | cons x xs ih =>
    intro n h
    unfold strchr at h
    by_cases hx : x = c
    · simp [hx] at h
    · simp only [hx, ↓reduceIte] at h
      by_cases h0 : x = 0
      · exact ⟨[], xs, by simp [h0], by simp, by simp⟩
      · simp only [h0, ↓reduceIte] at h
        cases hrec : strchr c xs (n + 1) with
        | error e => simp [hrec, Except.map] at h
        | ok v =>
          simp only [hrec, Except.map, Except.ok.injEq] at h
          cases v with
          | some k' => simp at h
          | none =>
            obtain ⟨pre, post, h1, h3, h4⟩ := ih (n + 1) hrec
            refine ⟨x :: pre, post, by simp [h1], ?_, ?_⟩
            · simp; exact ⟨fun e => hx e.symm, h3⟩
            · simp; exact ⟨fun e => h0 e.symm, h4⟩

theorem strchr_ok (c : Byte) (p : List Byte) : ∀ (n : Nat), (0 : Byte) ∈ p → ∃ r, strchr c p n = .ok r := by
  induction p with
  | nil => intro n h; simp at h
  | cons x xs ih =>
    intro n h
    unfold strchr
    split
    · exact ⟨_, rfl⟩
    · split
      · exact ⟨_, rfl⟩
      · rename_i _ h0
        obtain ⟨r, hr⟩ := ih (n + 1) (mem_tail_of_ne h h0)
        exact ⟨_, by rw [hr]; rfl⟩

end QsmtpModel.Addr
