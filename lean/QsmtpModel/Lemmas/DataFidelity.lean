/-
Helper lemmas for `Props.C02`: what reaches the two pipes of qmail-queue along the accepting path
of `Data.smtpData`.
-/
import QsmtpModel.Data
import QsmtpModel.Spec.Handoff

namespace QsmtpModel.Data
open QsmtpModel QsmtpModel.Queue
open QsmtpModel.Netio (Rd)

theorem dot_eq : DOT = 46 := rfl
theorem lf_eq : LF = 10 := rfl

/-! ### the two spellings of a queued line -/

theorem queuedLine_eq (l : List Byte) : Spec.queuedLine l = unDotLine l ++ [LF] := by
  unfold Spec.queuedLine unDotLine
  split <;> split <;> simp_all

theorem queuedLines_nil : Spec.queuedLines [] = [] := rfl

theorem queuedLines_cons (l : List Byte) (ls : List (List Byte)) :
    Spec.queuedLines (l :: ls) = unDotLine l ++ [LF] ++ Spec.queuedLines ls := by
  simp [Spec.queuedLines, queuedLine_eq]

theorem queuedLines_append (a b : List (List Byte)) :
    Spec.queuedLines (a ++ b) = Spec.queuedLines a ++ Spec.queuedLines b := by
  simp [Spec.queuedLines]

/-! ### the kernel calls leave the bytes alone -/

/-- same bytes on both pipes -/
def SameBytes (q q' : QSt) : Prop := q'.msgR = q.msgR ∧ q'.envR = q.envR

theorem SameBytes.refl (q : QSt) : SameBytes q q := ⟨rfl, rfl⟩
theorem SameBytes.trans {a b c : QSt} (h1 : SameBytes a b) (h2 : SameBytes b c) : SameBytes a c :=
  ⟨h2.1.trans h1.1, h2.2.trans h1.2⟩
theorem SameBytes.msg {q q' : QSt} (h : SameBytes q q') : q'.msg = q.msg := by
  unfold QSt.msg; rw [h.1]
theorem SameBytes.env {q q' : QSt} (h : SameBytes q q') : q'.env = q.env := by
  unfold QSt.env; rw [h.2]

theorem sysPipe_same (q : QSt) : SameBytes q (sysPipe q).2 := by
  unfold sysPipe SameBytes; split <;> simp
theorem sysFork_same (q : QSt) : SameBytes q (sysFork q).2 := by
  unfold sysFork SameBytes; split <;> simp
theorem sysProbe_same (q : QSt) : SameBytes q (sysProbe q).2 := by
  unfold sysProbe SameBytes; split <;> simp
theorem sysClose_same (q : QSt) : SameBytes q (sysClose q).2 := by
  unfold sysClose SameBytes; split <;> simp
theorem sysWait_same (q : QSt) : SameBytes q (sysWait q).2 := by
  unfold sysWait SameBytes; split <;> simp

theorem sysWrite_same (q : QSt) : SameBytes q (sysWrite q).2 := by
  unfold sysWrite SameBytes; split <;> simp

theorem queueInit_same (q : QSt) : SameBytes q (queueInit q).2 := by
  unfold queueInit
  split
  · rename_i q1 h1
    have p1 := sysPipe_same q; rw [h1] at p1; exact p1
  · rename_i q1 h1
    have p1 := sysPipe_same q; rw [h1] at p1
    split
    · rename_i q2 h2
      have p2 := sysPipe_same q1; rw [h2] at p2
      exact (p1.trans p2).trans ((sysClose_same _).trans (sysClose_same _))
    · rename_i q2 h2
      have p2 := sysPipe_same q1; rw [h2] at p2
      split
      · rename_i q3 h3
        have p3 := sysFork_same q2; rw [h3] at p3
        exact ((p1.trans p2).trans p3).trans
          (((sysClose_same _).trans (sysClose_same _)).trans ((sysClose_same _).trans (sysClose_same _)))
      · rename_i q3 h3
        have p3 := sysFork_same q2; rw [h3] at p3
        have p4 := ((p1.trans p2).trans p3).trans ((sysClose_same _).trans (sysClose_same (sysClose q3).2))
        have p5 := p4.trans (sysProbe_same _)
        simp only
        split
        · exact p5.trans ((sysClose_same _).trans (sysClose_same _))
        · exact p5

/-! ### writes -/

theorem wrData_ok {q q' : QSt} {d : List Byte} (h : wrData q d = (true, q')) :
    q'.msg = q.msg ++ d ∧ q'.env = q.env := by
  have hs := sysWrite_same q
  unfold wrData at h
  rcases hw : sysWrite q with ⟨⟨r, e⟩, q1⟩
  rw [hw] at h hs
  simp only at h
  split at h
  · rename_i hr
    simp only [Prod.mk.injEq, true_and] at h
    subst h
    obtain ⟨h1, h2⟩ := hs
    simp only at h1 h2
    simp [QSt.msg, QSt.env, Queue.accepted, hr, h1, h2]
  · simp at h

theorem wrHdr_ok {q q' : QSt} {d : List Byte} (h : wrHdr q d = (true, q')) :
    q'.msg = q.msg ∧ q'.env = q.env ++ d := by
  have hs := sysWrite_same q
  unfold wrHdr at h
  rcases hw : sysWrite q with ⟨⟨r, e⟩, q1⟩
  rw [hw] at h hs
  simp only at h
  split at h
  · rename_i hr
    simp only [Prod.mk.injEq, true_and] at h
    subst h
    obtain ⟨h1, h2⟩ := hs
    simp only at h1 h2
    simp [QSt.msg, QSt.env, Queue.accepted, hr, h1, h2]
  · simp at h

theorem wrAll_data_ok {q q' : QSt} {ds : List (List Byte)} (h : wrAll wrData q ds = (true, q')) :
    q'.msg = q.msg ++ ds.flatten ∧ q'.env = q.env := by
  induction ds generalizing q with
  | nil => simp [wrAll] at h; subst h; simp
  | cons d ds ih =>
    unfold wrAll at h
    split at h
    · rename_i q1 h1
      have a := wrData_ok h1
      have b := ih h
      simp [b.1, b.2, a.1, a.2]
    · simp at h

theorem wrAll_hdr_ok {q q' : QSt} {ds : List (List Byte)} (h : wrAll wrHdr q ds = (true, q')) :
    q'.msg = q.msg ∧ q'.env = q.env ++ ds.flatten := by
  induction ds generalizing q with
  | nil => simp [wrAll] at h; subst h; simp
  | cons d ds ih =>
    unfold wrAll at h
    split at h
    · rename_i q1 h1
      have a := wrHdr_ok h1
      have b := ih h
      simp [b.1, b.2, a.1, a.2]
    · simp at h

/-! ### the header loop -/

/-- one step of `hdrFlags` -/
def hstep (f : Nat) (l : List Byte) : Nat := if l.head? = some DOT then f else (checkHeaders f l).2

theorem hdrFlags_eq (ls : List (List Byte)) : hdrFlags ls = ls.foldl hstep 0 := rfl

/-- the checks of one round of the header loop (a copy of the `let chk` of `hdrLoop`) -/
def hdrChk (c : Cfg) (l : List Byte) (rds : List Rd) (a : Acc) : Option Exit × Acc :=
  if l.head? = some DOT then (none, a)
  else
    let (stop, flagr, a1) :=
      if c.check2822 % 2 = 1 ∨ c.submission then
        match checkHeaders a.hflags l with
        | (.nothing, f) => (none, true, { a with hflags := f })
        | (.known, f) => (none, false, { a with hflags := f })
        | (.dup, _) => (some 550, true, a)
        | (.eightbit, _) => (some 550, true, a)
      else (none, true, a)
    match stop with
    | some code => (some (.loopData (some code) .edone (some l) rds a1), a1)
    | none =>
      if flagr then
        if Session.prefixNoCase receivedName l then
          let a2 := { a1 with hops := a1.hops + 1 }
          if a2.hops > Gen.maxHops then (some (.loopData (some Gen.Data.loopNetmsgCode) .edone (some l) rds a2), a2)
          else (none, a2)
        else if deliveredToRcpt c l then (some (.loopData (some 554) .edone (some l) rds a1), a1)
        else (none, a1)
      else (none, a1)

theorem hdrLoop_eq (c : Cfg) (l : List Byte) (rds : List Rd) (a : Acc) :
    hdrLoop c l rds a =
      if l == [DOT] ∨ a.msgsize > c.maxbytes ∨ l.isEmpty then .done l rds a
      else
        match hdrChk c l rds a with
        | (some e, _) => e
        | (none, a1) =>
          match wrData a1.q (unDotLine l ++ [LF]) with
          | (false, q1) => .errWrite (some l) rds { a1 with q := q1 }
          | (true, q1) =>
            afterRead rds { a1 with q := q1, msgsize := a1.msgsize + (unDotLine l).length + 2 } (hdrLoop c) := by
  rw [hdrLoop]
  cases rds <;> rfl

theorem hdrChk_none {c : Cfg} {l : List Byte} {rds : List Rd} {a a1 : Acc}
    (h : hdrChk c l rds a = (none, a1)) :
    a1.q = a.q ∧ a1.msgsize = a.msgsize
      ∧ ((c.check2822 % 2 = 1 ∨ c.submission = true) → a1.hflags = hstep a.hflags l) := by
  unfold hdrChk at h
  unfold hstep
  split at h
  · simp_all
  · rename_i hd
    simp only [hd, if_false]
    split at h
    rename_i stop flagr a2 hc
    by_cases hcc : c.check2822 % 2 = 1 ∨ c.submission = true
    · rw [if_pos hcc] at hc
      rcases hk : checkHeaders a.hflags l with ⟨k, f⟩
      rw [hk] at hc
      cases k <;> simp only [Prod.mk.injEq] at hc <;> obtain ⟨rfl, rfl, rfl⟩ := hc <;> simp only at h
      all_goals repeat' split at h
      all_goals first
        | (simp at h; done)
        | (simp only [Prod.mk.injEq, true_and] at h; subst h; simp)
    · rw [if_neg hcc] at hc
      simp only [Prod.mk.injEq] at hc
      obtain ⟨rfl, rfl, rfl⟩ := hc
      simp only at h
      repeat' split at h
      all_goals first
        | (simp at h; done)
        | (simp only [Prod.mk.injEq, true_and] at h; subst h; simp [hcc])

theorem hdrChk_some {c : Cfg} {l : List Byte} {rds : List Rd} {a a1 : Acc} {e : Exit}
    (h : hdrChk c l rds a = (some e, a1)) : ∃ code rc cur r a', e = .loopData code rc cur r a' := by
  unfold hdrChk at h
  repeat' first | split at h | (simp only [] at h; split at h)
  all_goals first
    | (simp at h; done)
    | (simp only [Prod.mk.injEq, Option.some.injEq] at h; exact ⟨_, _, _, _, _, h.1.symm⟩)

theorem afterRead_done {rds : List Rd} {a : Acc} {k : List Byte → List Rd → Acc → Exit}
    {l' : List Byte} {rds' : List Rd} {a' : Acc} (h : afterRead rds a k = .done l' rds' a') :
    ∃ l rs, rds = .line l :: rs ∧ k l rs a = .done l' rds' a' := by
  unfold afterRead at h
  split at h
  · simp at h
  · exact ⟨_, _, rfl, h⟩
  · unfold readErrExit at h; split at h <;> simp at h
  · simp at h

theorem hdrLoop_done (c : Cfg) (rds : List Rd) : ∀ (l : List Byte) (a : Acc) (l' : List Byte) (rds' : List Rd) (a' : Acc),
    hdrLoop c l rds a = .done l' rds' a' →
    ∃ ws, Rd.line l :: rds = ws.map Rd.line ++ Rd.line l' :: rds'
      ∧ (∀ w ∈ ws, w ≠ [DOT] ∧ w ≠ [])
      ∧ a'.q.msg = a.q.msg ++ Spec.queuedLines ws ∧ a'.q.env = a.q.env
      ∧ (l' = [DOT] ∨ l' = [] ∨ a'.msgsize > c.maxbytes)
      ∧ ((c.check2822 % 2 = 1 ∨ c.submission = true) → a'.hflags = ws.foldl hstep a.hflags) := by
  induction rds with
  | nil =>
    intro l a l' rds' a' h
    rw [hdrLoop_eq] at h
    split at h
    · rename_i hc
      simp only [Exit.done.injEq] at h
      obtain ⟨rfl, rfl, rfl⟩ := h
      refine ⟨[], by simp, by simp, by simp [queuedLines_nil], rfl, ?_, by simp⟩
      simpa [List.isEmpty_iff, or_comm, or_left_comm] using hc
    · split at h
      · rename_i e _ he
        obtain ⟨_, _, _, _, _, rfl⟩ := hdrChk_some he
        simp at h
      · split at h
        · simp at h
        · simp [afterRead] at h
  | cons r rs ih =>
    intro l a l' rds' a' h
    rw [hdrLoop_eq] at h
    split at h
    · rename_i hc
      simp only [Exit.done.injEq] at h
      obtain ⟨rfl, rfl, rfl⟩ := h
      refine ⟨[], by simp, by simp, by simp [queuedLines_nil], rfl, ?_, by simp⟩
      simpa [List.isEmpty_iff, or_comm, or_left_comm] using hc
    · rename_i hc
      split at h
      · rename_i e _ he
        obtain ⟨_, _, _, _, _, rfl⟩ := hdrChk_some he
        simp at h
      · rename_i a1 hk
        obtain ⟨k1, k2, k3⟩ := hdrChk_none hk
        split at h
        · simp at h
        · rename_i q1 hw
          obtain ⟨w1, w2⟩ := wrData_ok hw
          obtain ⟨l2, rs2, hr, h2⟩ := afterRead_done h
          simp only [List.cons.injEq] at hr
          obtain ⟨rfl, rfl⟩ := hr
          obtain ⟨ws, e1, e2, e3, e4, e5, e6⟩ := ih _ _ _ _ _ h2
          refine ⟨l :: ws, by simp [e1], ?_, ?_, ?_, e5, ?_⟩
          · intro w hw
            rcases List.mem_cons.mp hw with rfl | hw
            · simp only [not_or, beq_iff_eq, List.isEmpty_iff] at hc
              exact ⟨hc.1, hc.2.2⟩
            · exact e2 w hw
          · simp only at e3
            rw [e3, w1, k1, queuedLines_cons]; simp
          · simp only at e4
            rw [e4, w2, k1]
          · intro hcc
            simp only at e6
            rw [e6 hcc, k3 hcc]; rfl

/-! ### the body loop -/

theorem bodyLoop_eq (c : Cfg) (l : List Byte) (rds : List Rd) (a : Acc) :
    bodyLoop c l rds a =
      if l == [DOT] ∨ a.msgsize > c.maxbytes then .done l rds a
      else if c.check2822 % 2 = 1 ∧ !c.datatype ∧ has8bit l then .loopData (some 550) .edone (some l) rds a
      else
        match wrData a.q (unDotLine l ++ [LF]) with
        | (false, q1) => .errWrite (some l) rds { a with q := q1 }
        | (true, q1) =>
          afterRead rds { a with q := q1, msgsize := a.msgsize + (unDotLine l).length + 2 } (bodyLoop c) := by
  rw [bodyLoop]
  cases rds <;> rfl

theorem bodyLoop_done (c : Cfg) (rds : List Rd) : ∀ (l : List Byte) (a : Acc) (l' : List Byte) (rds' : List Rd) (a' : Acc),
    bodyLoop c l rds a = .done l' rds' a' →
    ∃ ws, Rd.line l :: rds = ws.map Rd.line ++ Rd.line l' :: rds'
      ∧ (∀ w ∈ ws, w ≠ [DOT])
      ∧ a'.q.msg = a.q.msg ++ Spec.queuedLines ws ∧ a'.q.env = a.q.env
      ∧ (l' = [DOT] ∨ a'.msgsize > c.maxbytes) := by
  induction rds with
  | nil =>
    intro l a l' rds' a' h
    rw [bodyLoop_eq] at h
    split at h
    · rename_i hc
      simp only [Exit.done.injEq] at h
      obtain ⟨rfl, rfl, rfl⟩ := h
      refine ⟨[], by simp, by simp, by simp [queuedLines_nil], rfl, ?_⟩
      simpa using hc
    · split at h
      · simp at h
      · split at h
        · simp at h
        · simp [afterRead] at h
  | cons r rs ih =>
    intro l a l' rds' a' h
    rw [bodyLoop_eq] at h
    split at h
    · rename_i hc
      simp only [Exit.done.injEq] at h
      obtain ⟨rfl, rfl, rfl⟩ := h
      refine ⟨[], by simp, by simp, by simp [queuedLines_nil], rfl, ?_⟩
      simpa using hc
    · rename_i hc
      split at h
      · simp at h
      · split at h
        · simp at h
        · rename_i q1 hw
          obtain ⟨w1, w2⟩ := wrData_ok hw
          obtain ⟨l2, rs2, hr, h2⟩ := afterRead_done h
          simp only [List.cons.injEq] at hr
          obtain ⟨rfl, rfl⟩ := hr
          obtain ⟨ws, e1, e2, e3, e4, e5⟩ := ih _ _ _ _ _ h2
          refine ⟨l :: ws, by simp [e1], ?_, ?_, ?_, e5⟩
          · intro w hw
            rcases List.mem_cons.mp hw with rfl | hw
            · simp only [not_or, beq_iff_eq] at hc
              exact hc.1
            · exact e2 w hw
          · simp only at e3
            rw [e3, w1, queuedLines_cons]; simp
          · simp only at e4
            rw [e4, w2]

/-! ### the error exits are not acknowledged -/

theorem loopData_not_accepted (code : Option Nat) (rc : Session.Rc) (cur : Option (List Byte)) (rds : List Rd) (a : Acc) :
    (loopData code rc cur rds a).accepted = false := by
  unfold loopData
  simp only
  split
  · rfl
  · split <;> rfl

theorem errWrite_not_accepted (cur : Option (List Byte)) (rds : List Rd) (a : Acc) :
    (errWrite cur rds a).accepted = false := by
  unfold errWrite
  simp only
  split <;> rfl

/-! ### the envelope -/

/-- the writes for one recipient (a copy of the function inside `envWrites`) -/
def rcptWrites (liphost : List Byte) (r : Session.Recip) : List (List Byte) :=
  match memchr 64 r.addr with
  | some ai =>
    if r.addr[ai + 1]? = some 91 then [[84], r.addr.take (ai + 1), liphost ++ [0]]
    else [[84], r.addr ++ [0]]
  | none => [[84], r.addr ++ [0]]

theorem envWrites_eq (liphost mailfrom : List Byte) (rcpts : List Session.Recip) :
    envWrites liphost mailfrom rcpts
      = [[70], mailfrom ++ [0]] ++ ((rcpts.filter (·.ok)).map (rcptWrites liphost)).flatten ++ [[0]] := rfl

theorem rcptWrites_flatten (liphost : List Byte) (r : Session.Recip) :
    (rcptWrites liphost r).flatten = 84 :: Spec.envAddr liphost r.addr ++ [0] := by
  unfold rcptWrites Spec.envAddr
  cases hm : memchr 64 r.addr with
  | none => simp
  | some i =>
    simp only
    split <;> simp

theorem envRcpts_flatten (liphost : List Byte) (rs : List Session.Recip) :
    ((rs.map (rcptWrites liphost)).flatten).flatten
      = ((rs.map (·.addr)).map fun r => 84 :: Spec.envAddr liphost r ++ [0]).flatten := by
  induction rs with
  | nil => rfl
  | cons r rs ih =>
    simp only [List.map_cons, List.flatten_cons, List.flatten_append]
    rw [ih, rcptWrites_flatten]

theorem envWrites_flatten (liphost mailfrom : List Byte) (rcpts : List Session.Recip) :
    (envWrites liphost mailfrom rcpts).flatten
      = Spec.expectedEnvelope liphost mailfrom ((rcpts.filter (·.ok)).map (·.addr)) := by
  rw [envWrites_eq]
  unfold Spec.expectedEnvelope
  rw [List.flatten_append, List.flatten_append, envRcpts_flatten]
  simp

theorem queueEnvelope_ok {liphost mailfrom : List Byte} {rcpts : List Session.Recip} {q q' : QSt} {b : Bool}
    (h : queueEnvelope liphost mailfrom rcpts q = (true, q', b)) :
    q'.msg = q.msg ∧ q'.env = q.env ++ (envWrites liphost mailfrom rcpts).flatten := by
  unfold queueEnvelope at h
  split at h
  · simp at h
  · rename_i q1 h1
    have s1 := sysClose_same q; rw [h1] at s1
    simp only at h
    rcases hw : wrAll wrHdr { q1 with fdData := false } (envWrites liphost mailfrom rcpts) with ⟨ok, q3⟩
    rw [hw] at h
    simp only [Prod.mk.injEq, Bool.and_eq_true] at h
    obtain ⟨⟨rfl, hcok⟩, rfl, _⟩ := h
    obtain ⟨m, e⟩ := wrAll_hdr_ok hw
    have s2 := sysClose_same { q3 with errno := Err.none }
    simp only [if_true]
    constructor
    · show QSt.msg { (sysClose { q3 with errno := Err.none }).2 with fdHdr := false, errno := _ } = _
      unfold QSt.msg at m ⊢
      simp only
      rw [s2.1]; simp only
      rw [m]; simp only; rw [s1.1]
    · show QSt.env { (sysClose { q3 with errno := Err.none }).2 with fdHdr := false, errno := _ } = _
      unfold QSt.env at e ⊢
      simp only
      rw [s2.2]; simp only
      rw [e]; simp only; rw [s1.2]

theorem queueResult_same (q : QSt) : SameBytes q (queueResult q).2 := by
  unfold queueResult
  exact sysWait_same q

/-! ### the trace header -/

theorem writeReceived_ok {c : Cfg} {q q' : QSt} (h : writeReceived c q = (true, q')) :
    q'.msg = q.msg ++ traceHeader c ∧ q'.env = q.env := by
  unfold writeReceived at h
  unfold traceHeader
  split at h
  rename_i ok q1 hs
  split at h
  · rename_i hok
    subst hok
    obtain ⟨w1, w2⟩ := wrData_ok h
    split at hs
    · rename_i hspf
      simp only [hspf, if_true]
      split at hs
      · rename_i hp
        simp only [Prod.mk.injEq, true_and] at hs
        subst hs
        simp [hp, w1, w2]
      · rename_i ps fin hp
        simp only [hp]
        split at hs
        · rename_i q2 hw
          obtain ⟨a1, a2⟩ := wrAll_data_ok hw
          split at hs
          · simp only [Prod.mk.injEq, true_and] at hs
            subst hs
            simp [w1, w2, a1, a2]
          · simp at hs
        · simp at hs
    · rename_i hspf
      simp only [Prod.mk.injEq, true_and] at hs
      subst hs
      simp [hspf, w1, w2]
  · simp at h

/-! ### behind the header loop -/

/-- copy of `step1` of `afterHeader` -/
def ahStep1 (c : Cfg) (l : List Byte) (rds : List Rd) (a : Acc) : Sum Res Acc :=
  if c.submission then
    match wrData a.q (submissionFields c a.hflags) with
    | (false, q1) => .inl (errWrite (some l) rds { a with q := q1 })
    | (true, q1) => .inr { a with q := q1 }
  else if c.check2822 % 2 = 1 then
    if !a.hflags.testBit 0 then .inl (loopData (some 550) .edone (some l) rds a)
    else if !a.hflags.testBit 1 then .inl (loopData (some 550) .edone (some l) rds a)
    else .inr a
  else .inr a

/-- copy of `step2` of `afterHeader` -/
def ahStep2 (c : Cfg) (l : List Byte) (rds : List Rd) (a1 : Acc) : Exit :=
  if l.isEmpty then
    match wrData a1.q [LF] with
    | (false, q1) => .errWrite (some l) rds { a1 with q := q1 }
    | (true, q1) => afterRead rds { a1 with q := q1, msgsize := a1.msgsize + 2 } (bodyLoop c)
  else .done l rds a1

/-- copy of the last `match` of `afterHeader` -/
def ahTail (c : Cfg) (e : Exit) : Res :=
  match e with
  | .died a2 => { q := a2.q, died := true, logsize := a2.msgsize }
  | .loopData code rc cur rds2 a2 => loopData code rc cur rds2 a2
  | .errWrite cur rds2 a2 => errWrite cur rds2 a2
  | .done l2 rds2 a2 =>
    if a2.msgsize > c.maxbytes then loopData none .emsgsize (some l2) rds2 a2
    else
      match queueEnvelope c.liphost c.mailfrom c.rcpts a2.q with
      | (true, q3, _) =>
        let (code, q4) := queueResult q3
        { replies := [code], rc := if code = 250 then .ok else .edone, q := q4, rest := rds2, freed := true,
          accepted := code = 250, logsize := a2.msgsize }
      | (false, q3, _) => errWrite (some l2) rds2 { a2 with q := q3 }

theorem afterHeader_eq (c : Cfg) (l : List Byte) (rds : List Rd) (a : Acc) :
    afterHeader c l rds a =
      match ahStep1 c l rds a with
      | .inl r => r
      | .inr a1 => ahTail c (ahStep2 c l rds a1) := rfl

theorem ahStep1_inl {c : Cfg} {l : List Byte} {rds : List Rd} {a : Acc} {r : Res}
    (h : ahStep1 c l rds a = .inl r) : r.accepted = false := by
  unfold ahStep1 at h
  repeat' split at h
  all_goals first
    | (simp at h; done)
    | (simp only [Sum.inl.injEq] at h; subst h
       first | apply errWrite_not_accepted | apply loopData_not_accepted)

theorem ahStep1_inr {c : Cfg} {l : List Byte} {rds : List Rd} {a a1 : Acc}
    (h : ahStep1 c l rds a = .inr a1) :
    a1.msgsize = a.msgsize
      ∧ a1.q.msg = a.q.msg ++ (if c.submission then submissionFields c a.hflags else [])
      ∧ a1.q.env = a.q.env := by
  unfold ahStep1 at h
  split at h
  · rename_i hs
    split at h
    · simp at h
    · rename_i q1 hw
      obtain ⟨w1, w2⟩ := wrData_ok hw
      simp only [Sum.inr.injEq] at h
      subst h
      simp [hs, w1, w2]
  · rename_i hs
    repeat' split at h
    all_goals first
      | (simp at h; done)
      | (simp only [Sum.inr.injEq] at h; subst h; simp [hs])

theorem ahStep2_done {c : Cfg} {l : List Byte} {rds : List Rd} {a1 : Acc}
    {l2 : List Byte} {rds2 : List Rd} {a2 : Acc} (h : ahStep2 c l rds a1 = .done l2 rds2 a2) :
    (l ≠ [] ∧ l2 = l ∧ rds2 = rds ∧ a2 = a1)
    ∨ (l = [] ∧ ∃ ws, rds = ws.map Rd.line ++ Rd.line l2 :: rds2 ∧ (∀ w ∈ ws, w ≠ [DOT])
        ∧ a2.q.msg = a1.q.msg ++ [LF] ++ Spec.queuedLines ws ∧ a2.q.env = a1.q.env
        ∧ (l2 = [DOT] ∨ a2.msgsize > c.maxbytes)) := by
  unfold ahStep2 at h
  split at h
  · rename_i he
    right
    refine ⟨List.isEmpty_iff.mp he, ?_⟩
    split at h
    · simp at h
    · rename_i q1 hw
      obtain ⟨w1, w2⟩ := wrData_ok hw
      obtain ⟨l3, rs, rfl, hb⟩ := afterRead_done h
      obtain ⟨ws, e1, e2, e3, e4, e5⟩ := bodyLoop_done c rs _ _ _ _ _ hb
      simp only at e3 e4
      exact ⟨ws, e1, e2, by rw [e3, w1], by rw [e4, w2], e5⟩
  · rename_i he
    left
    simp only [Exit.done.injEq] at h
    obtain ⟨rfl, rfl, rfl⟩ := h
    exact ⟨fun hh => he (by simp [hh]), rfl, rfl, rfl⟩

theorem ahTail_accepted {c : Cfg} {e : Exit} (h : (ahTail c e).accepted = true) :
    ∃ l2 rds2 a2, e = .done l2 rds2 a2 ∧ ¬ a2.msgsize > c.maxbytes ∧ (ahTail c e).rest = rds2
      ∧ (ahTail c e).q.msg = a2.q.msg
      ∧ (ahTail c e).q.env = a2.q.env ++ (envWrites c.liphost c.mailfrom c.rcpts).flatten := by
  unfold ahTail at h ⊢
  split at h
  · simp at h
  · rw [loopData_not_accepted] at h; simp at h
  · rw [errWrite_not_accepted] at h; simp at h
  · rename_i l2 rds2 a2
    refine ⟨l2, rds2, a2, rfl, ?_⟩
    simp only
    split at h
    · rw [loopData_not_accepted] at h; simp at h
    · rename_i hsz
      rw [if_neg hsz]
      refine ⟨hsz, ?_⟩
      split at h
      · rename_i q3 b hq
        obtain ⟨m, e⟩ := queueEnvelope_ok hq
        have s := queueResult_same q3
        simp only [true_and]
        refine ⟨?_, ?_⟩
        · rw [← m]; exact s.msg
        · rw [← e]; exact s.env
      · rw [errWrite_not_accepted] at h; simp at h

theorem afterHeader_accepted {c : Cfg} {l : List Byte} {rds : List Rd} {a : Acc}
    (hl : l = [DOT] ∨ l = [] ∨ a.msgsize > c.maxbytes)
    (h : (afterHeader c l rds a).accepted = true) :
    ∃ body rest, Rd.line l :: rds = body.map Rd.line ++ Rd.line [DOT] :: rest
      ∧ (∀ w ∈ body, w ≠ [DOT]) ∧ (body = [] ∨ body.head? = some [])
      ∧ (afterHeader c l rds a).rest = rest
      ∧ (afterHeader c l rds a).q.msg
          = a.q.msg ++ (if c.submission then submissionFields c a.hflags else []) ++ Spec.queuedLines body
      ∧ (afterHeader c l rds a).q.env = a.q.env ++ (envWrites c.liphost c.mailfrom c.rcpts).flatten := by
  rw [afterHeader_eq] at h ⊢
  split at h
  · rename_i r h1
    rw [ahStep1_inl h1] at h; simp at h
  · rename_i a1 h1
    obtain ⟨s1, s2, s3⟩ := ahStep1_inr h1
    obtain ⟨l2, rds2, a2, he, hsz, t1, t2, t3⟩ := ahTail_accepted h
    rw [t1, t2, t3]
    rcases ahStep2_done he with ⟨hne, rfl, rfl, rfl⟩ | ⟨rfl, ws, e1, e2, e3, e4, e5⟩
    · have hd : l2 = [DOT] := by
        rcases hl with hl | hl | hl
        · exact hl
        · exact absurd hl hne
        · rw [s1] at hsz; exact absurd hl hsz
      subst hd
      exact ⟨[], rds2, by simp, by simp, Or.inl rfl, rfl, by simp [s2, queuedLines_nil], by rw [s3]⟩
    · have hd : l2 = [DOT] := by
        rcases e5 with e5 | e5
        · exact e5
        · exact absurd e5 hsz
      subst hd
      refine ⟨[] :: ws, rds2, by simp [e1], ?_, Or.inr rfl, rfl, ?_, by rw [e4, s3]⟩
      · intro w hw
        rcases List.mem_cons.mp hw with rfl | hw
        · simp [dot_eq]
        · exact e2 w hw
      · rw [e3, s2, queuedLines_cons]; simp [unDotLine]

/-! ### smtp_data -/

/-- copy of the inner `r` of `smtpData` -/
def smtpCore (c : Cfg) (rds : List Rd) (q1 : QSt) : Res :=
  match writeReceived c q1 with
  | (false, q2) => errWrite (some [68, 65, 84, 65]) rds { q := q2 }
  | (true, q2) =>
    match afterRead rds { q := q2 } (hdrLoop c) with
    | .died a => { q := a.q, died := true, logsize := a.msgsize }
    | .loopData code rc cur rds2 a => loopData code rc cur rds2 a
    | .errWrite cur rds2 a => errWrite cur rds2 a
    | .done l rds2 a => afterHeader c l rds2 a

theorem smtpData_eq (c : Cfg) (rds : List Rd) (tr : List Sys) :
    smtpData c rds tr =
      if c.goodrcpt = 0 then { replies := [554], rc := .edone, q := { trace := tr }, rest := rds }
      else
        match queueInit { trace := tr } with
        | (false, q1) => { replies := [Gen.Data.noqueueCode], rc := .edone, q := q1, rest := rds, freed := true }
        | (true, q1) => { smtpCore c rds q1 with replies := 354 :: (smtpCore c rds q1).replies } := rfl

theorem smtpCore_accepted {c : Cfg} {rds : List Rd} {q1 : QSt}
    (h : (smtpCore c rds q1).accepted = true) :
    ∃ (hdr body : List (List Byte)) (rest : List Rd), rds = (hdr ++ body).map Rd.line ++ Rd.line [DOT] :: rest
      ∧ (∀ l ∈ hdr, l ≠ [DOT] ∧ l ≠ []) ∧ (∀ l ∈ body, l ≠ [DOT]) ∧ (body = [] ∨ body.head? = some [])
      ∧ (smtpCore c rds q1).rest = rest
      ∧ (smtpCore c rds q1).q.msg
          = q1.msg ++ traceHeader c ++ Spec.queuedLines hdr
              ++ (if c.submission then submissionFields c (hdrFlags hdr) else []) ++ Spec.queuedLines body
      ∧ (smtpCore c rds q1).q.env = q1.env ++ (envWrites c.liphost c.mailfrom c.rcpts).flatten := by
  unfold smtpCore at h ⊢
  split at h
  · rw [errWrite_not_accepted] at h; simp at h
  · rename_i q2 hw
    obtain ⟨w1, w2⟩ := writeReceived_ok hw
    split at h
    · simp at h
    · rw [loopData_not_accepted] at h; simp at h
    · rw [errWrite_not_accepted] at h; simp at h
    · rename_i l rds2 a hx
      obtain ⟨l0, rs, rfl, hh⟩ := afterRead_done hx
      obtain ⟨ws, e1, e2, e3, e4, e5, e6⟩ := hdrLoop_done c rs _ _ _ _ _ hh
      obtain ⟨body, rest, b1, b2, b3, b4, b5, b6⟩ := afterHeader_accepted e5 h
      simp only at e3 e4 e6
      refine ⟨ws, body, rest, ?_, e2, b2, b3, b4, ?_, ?_⟩
      · rw [e1, b1]; simp
      · rw [b5, e3, w1]
        by_cases hs : c.submission = true
        · rw [e6 (Or.inr hs), hdrFlags_eq]
        · simp [hs]
      · rw [b6, e4, w2]

theorem smtpData_accepted_core (c : Cfg) (rds : List Rd) (tr : List Sys)
    (h : (smtpData c rds tr).accepted = true) :
    ∃ (hdr body : List (List Byte)) (rest : List Rd), rds = (hdr ++ body).map Rd.line ++ Rd.line [DOT] :: rest
      ∧ (∀ l ∈ hdr, l ≠ [DOT] ∧ l ≠ []) ∧ (∀ l ∈ body, l ≠ [DOT]) ∧ (body = [] ∨ body.head? = some [])
      ∧ (smtpData c rds tr).rest = rest
      ∧ (smtpData c rds tr).q.msg
          = traceHeader c ++ Spec.queuedLines hdr
              ++ (if c.submission then submissionFields c (hdrFlags hdr) else []) ++ Spec.queuedLines body
      ∧ (smtpData c rds tr).q.env = (envWrites c.liphost c.mailfrom c.rcpts).flatten := by
  rw [smtpData_eq] at h ⊢
  split at h
  · simp at h
  · rename_i hg
    rw [if_neg hg]
    have hs := queueInit_same { trace := tr }
    split at h
    · simp at h
    · rename_i q1 hq
      rw [hq] at hs
      simp only at h ⊢
      obtain ⟨hdr, body, rest, p1, p2, p3, p4, p5, p6, p7⟩ := smtpCore_accepted h
      refine ⟨hdr, body, rest, p1, p2, p3, p4, p5, ?_, ?_⟩
      · rw [p6, hs.msg]; simp [QSt.msg]
      · rw [p7, hs.env]; simp [QSt.env]

theorem accepted_consumes (c : Cfg) (rds : List Rd) (tr : List Sys)
    (h : (smtpData c rds tr).accepted = true) :
    ∃ (ls : List (List Byte)) (rest : List Rd), rds = ls.map Rd.line ++ Rd.line [DOT] :: rest ∧ (∀ l ∈ ls, l ≠ [DOT])
      ∧ (smtpData c rds tr).rest = rest := by
  obtain ⟨hdr, body, rest, p1, p2, p3, p4, p5, p6, p7⟩ := smtpData_accepted_core c rds tr h
  refine ⟨hdr ++ body, rest, p1, ?_, p5⟩
  intro l hl
  rcases List.mem_append.mp hl with hl | hl
  · exact (p2 l hl).1
  · exact p3 l hl

theorem fidelity_plain (c : Cfg) (rds : List Rd) (tr : List Sys)
    (hsub : c.submission = false) (h : (smtpData c rds tr).accepted = true) :
    ∃ ls rest, rds = ls.map Rd.line ++ Rd.line [DOT] :: rest ∧ (∀ l ∈ ls, l ≠ [DOT])
      ∧ (smtpData c rds tr).q.msg = traceHeader c ++ Spec.queuedLines ls := by
  obtain ⟨hdr, body, rest, p1, p2, p3, p4, p5, p6, p7⟩ := smtpData_accepted_core c rds tr h
  refine ⟨hdr ++ body, rest, p1, ?_, ?_⟩
  · intro l hl
    rcases List.mem_append.mp hl with hl | hl
    · exact (p2 l hl).1
    · exact p3 l hl
  · rw [p6, queuedLines_append]; simp [hsub]

theorem fidelity_submission (c : Cfg) (rds : List Rd) (tr : List Sys)
    (hsub : c.submission = true) (h : (smtpData c rds tr).accepted = true) :
    ∃ hdr body rest, rds = (hdr ++ body).map Rd.line ++ Rd.line [DOT] :: rest
      ∧ (∀ l ∈ hdr ++ body, l ≠ [DOT]) ∧ (∀ l ∈ hdr, l ≠ []) ∧ (body = [] ∨ body.head? = some [])
      ∧ (smtpData c rds tr).q.msg
          = traceHeader c ++ Spec.queuedLines hdr ++ submissionFields c (hdrFlags hdr) ++ Spec.queuedLines body := by
  obtain ⟨hdr, body, rest, p1, p2, p3, p4, p5, p6, p7⟩ := smtpData_accepted_core c rds tr h
  refine ⟨hdr, body, rest, p1, ?_, fun l hl => (p2 l hl).2, p4, ?_⟩
  · intro l hl
    rcases List.mem_append.mp hl with hl | hl
    · exact (p2 l hl).1
    · exact p3 l hl
  · rw [p6]; simp [hsub]

theorem envelope_exact (c : Cfg) (rds : List Rd) (tr : List Sys)
    (h : (smtpData c rds tr).accepted = true) :
    (smtpData c rds tr).q.env
      = Spec.expectedEnvelope c.liphost c.mailfrom ((c.rcpts.filter (·.ok)).map (·.addr)) := by
  obtain ⟨hdr, body, rest, p1, p2, p3, p4, p5, p6, p7⟩ := smtpData_accepted_core c rds tr h
  rw [p7, envWrites_flatten]

/-! ### the header flags -/

theorem testBit_set (f i j : Nat) : (f ||| (1 <<< i)).testBit j = (f.testBit j || decide (i = j)) := by
  rw [Nat.testBit_or, Nat.one_shiftLeft, Nat.testBit_two_pow]

theorem prefixNoCase_head {a : Byte} {p l : List Byte} (h : Session.prefixNoCase (a :: p) l = true) :
    ∃ b t, l = b :: t ∧ lower b = lower a := by
  unfold Session.prefixNoCase at h
  cases l with
  | nil => simp at h
  | cons b t =>
    simp at h
    exact ⟨b, t, rfl, h.2.1⟩

def pat0 : List Byte := [68, 97, 116, 101, 58]
def pat1 : List Byte := [70, 114, 111, 109, 58]
def pat2 : List Byte := [77, 101, 115, 115, 97, 103, 101, 45, 73, 100, 58]
theorem hdrPatterns_eq : Gen.Data.hdrPatterns = [pat0, pat1, pat2] := rfl

theorem pat_disj {a b : Byte} {p q l : List Byte} (hab : lower a ≠ lower b)
    (h1 : Session.prefixNoCase (a :: p) l = true) (h2 : Session.prefixNoCase (b :: q) l = true) : False := by
  obtain ⟨x, t, rfl, e1⟩ := prefixNoCase_head h1
  obtain ⟨y, t', e, e2⟩ := prefixNoCase_head h2
  simp only [List.cons.injEq] at e
  obtain ⟨rfl, _⟩ := e
  exact hab (e1.symm.trans e2)

theorem disj01 {l : List Byte} : Session.prefixNoCase pat0 l = true → Session.prefixNoCase pat1 l = true → False :=
  pat_disj (by decide)
theorem disj02 {l : List Byte} : Session.prefixNoCase pat0 l = true → Session.prefixNoCase pat2 l = true → False :=
  pat_disj (by decide)
theorem disj12 {l : List Byte} : Session.prefixNoCase pat1 l = true → Session.prefixNoCase pat2 l = true → False :=
  pat_disj (by decide)

theorem setbit_testBit (f i j : Nat) :
    (if f.testBit i = true then (HdrChk.dup, f) else (HdrChk.known, f ||| 1 <<< i)).2.testBit j
      = (f.testBit j || decide (i = j)) := by
  split
  · rename_i h
    by_cases hij : i = j
    · subst hij; simp [h]
    · simp [hij]
  · exact testBit_set f i j

theorem hstep_testBit (f : Nat) (l : List Byte) (j : Nat) (p : List Byte)
    (hp : Gen.Data.hdrPatterns[j]? = some p) (h8 : has8bit l = false) :
    (hstep f l).testBit j = (f.testBit j || (decide (l.head? ≠ some DOT) && Session.prefixNoCase p l)) := by
  unfold hstep
  by_cases hd : l.head? = some DOT
  · simp [hd]
  · simp only [hd, if_false, ne_eq, not_false_eq_true, decide_true, Bool.true_and]
    unfold checkHeaders
    simp only [h8, Bool.false_eq_true, if_false]
    rw [hdrPatterns_eq] at hp ⊢
    have d01 := @disj01 l
    have d02 := @disj02 l
    have d12 := @disj12 l
    cases h0 : Session.prefixNoCase pat0 l <;> cases h1 : Session.prefixNoCase pat1 l
      <;> cases h2 : Session.prefixNoCase pat2 l
      <;> simp only [h0, h1, h2, forall_const, imp_false] at d01 d02 d12
      <;> simp only [matchPatterns, h0, h1, h2, if_true, if_false, Bool.false_eq_true, setbit_testBit]
    all_goals
      match j, hp with
      | 0, hp => simp at hp; subst hp; simp [h0]
      | 1, hp => simp at hp; subst hp; simp [h1]
      | 2, hp => simp at hp; subst hp; simp [h2]
      | n + 3, hp => simp at hp

theorem foldl_hstep_testBit (hdr : List (List Byte)) (j : Nat) (p : List Byte)
    (hp : Gen.Data.hdrPatterns[j]? = some p) (hclean : ∀ l ∈ hdr, has8bit l = false) (f : Nat) :
    (hdr.foldl hstep f).testBit j = true
      ↔ f.testBit j = true ∨ ∃ l ∈ hdr, l.head? ≠ some DOT ∧ Session.prefixNoCase p l = true := by
  induction hdr generalizing f with
  | nil => simp
  | cons l ls ih =>
    rw [List.foldl_cons, ih (fun x hx => hclean x (List.mem_cons_of_mem _ hx)),
      hstep_testBit f l j p hp (hclean l List.mem_cons_self)]
    simp only [Bool.or_eq_true, Bool.and_eq_true, decide_eq_true_eq, List.mem_cons, exists_eq_or_imp]
    exact or_assoc

theorem hdrFlags_testBit (hdr : List (List Byte)) (j : Nat) (p : List Byte)
    (hp : Gen.Data.hdrPatterns[j]? = some p) (hclean : ∀ l ∈ hdr, has8bit l = false) :
    (hdrFlags hdr).testBit j = true ↔ ∃ l ∈ hdr, l.head? ≠ some DOT ∧ Session.prefixNoCase p l = true := by
  rw [hdrFlags_eq, foldl_hstep_testBit hdr j p hp hclean 0]
  simp

end QsmtpModel.Data
