/-
Helper lemmas for C12 (recipient policy): the filter loop and rejection switch against the
documented policy, checkconfig / getsetting_internal against the documented reading of filterconf,
getfile against the level order.
-/
import QsmtpModel.Rcpt

namespace QsmtpModel.Rcpt
open QsmtpModel
open QsmtpModel.Spec.Rcpt (Verdict PolicyReply rcptPolicy policyOr Says)

/-! ### constants of the source the proofs depend on (re-checked when the source changes) -/

theorem fr_codes :
    Gen.Rcpt.frError = -1 ∧ Gen.Rcpt.frPassed = 0 ∧ Gen.Rcpt.frDeniedWithMessage = 1 ∧ Gen.Rcpt.frDeniedUnspecific = 2 ∧
    Gen.Rcpt.frDeniedNouser = 3 ∧ Gen.Rcpt.frDeniedTemporary = 4 ∧ Gen.Rcpt.frWhitelisted = 5 := by decide

theorem keyFailhardPositive_eq : Gen.Rcpt.keyFailhardPositive = true := rfl
theorem keyNonexistPositive_eq : Gen.Rcpt.keyNonexistPositive = true := rfl
theorem settingsReadBeforeFree_eq : Gen.Rcpt.settingsReadBeforeFree = true := rfl
theorem strtolBase_eq : Gen.Rcpt.strtolBase = 10 := rfl
theorem longMax_eq : Gen.Rcpt.longMax = 9223372036854775807 := rfl

/-- filter_denied() on the seven values -/
theorem filterDenied_eq (r : FR) :
    filterDenied r = (match r with
      | .deniedMsg | .deniedUnspecific | .deniedNouser | .deniedTemp => true
      | _ => false) := by
  cases r <;> rfl

/-! ### the loop -/

theorem loop_stop (rs : List CbRes) (s : LoopSt) (h : ¬ (s.fr = .passed ∨ s.fr = .deniedTemp)) :
    loop rs s = s := by
  cases rs with
  | nil => rfl
  | cons r rs => simp [loop, h]

/-- the documented policy with "a temporary failure has already been seen" made explicit -/
def policyFrom (vs : List Verdict) (seenTemp : Bool) (failHard nonexist : Bool) : PolicyReply :=
  match vs.find? Verdict.hard with
  | some .whitelist => .accept
  | some (.deny .sent) => .sentByFilter
  | some (.deny .policy) => policyOr nonexist
  | some (.deny .nouser) => .nouser550
  | _ =>
    if seenTemp || vs.contains .temp then (if failHard then policyOr nonexist else .temp450)
    else .accept

theorem policyFrom_false (vs : List Verdict) (fh ne : Bool) : policyFrom vs false fh ne = rcptPolicy vs fh ne := by
  unfold policyFrom rcptPolicy
  cases List.find? Verdict.hard vs with
  | none => simp
  | some v =>
    cases v with
    | deny k => cases k <;> rfl
    | _ => simp

/-- the state invariant of the loop: `fr` is PASSED or TEMPORARY while it runs, and TEMPORARY only
with `e` set -/
def Running (s : LoopSt) : Prop := (s.fr = .passed ∨ s.fr = .deniedTemp) ∧ (s.fr = .deniedTemp → s.e = true)

theorem finish_replies_running_nil (s : LoopSt) (h : Running s) (fh ne : Int) (rcpt : List Byte) :
    (finish s fh ne rcpt).replies = s.wrote ++ finalReply (policyFrom [] s.e (decide (fh > 0)) (decide (ne > 0))) rcpt ∧
    (finish s fh ne rcpt).accepted = (policyFrom [] s.e (decide (fh > 0)) (decide (ne > 0)) == .accept) := by
  obtain ⟨hfr, he⟩ := h
  have e1 := keyFailhardPositive_eq
  have e2 := keyNonexistPositive_eq
  rcases hfr with hfr | hfr
  · cases hse : s.e <;> by_cases h1 : fh > 0 <;> by_cases h2 : ne > 0 <;>
      simp [finish, hfr, hse, filterDenied_eq, policyFrom, isSet, e1, e2, h1, h2, finalReply, policyOr]
  · have hse := he hfr
    by_cases h1 : fh > 0 <;> by_cases h2 : ne > 0 <;>
      simp [finish, hfr, hse, filterDenied_eq, policyFrom, isSet, e1, e2, h1, h2, finalReply, policyOr]

/-- a hard decision in `fr`: the loop has ended; what is answered -/
theorem finish_replies_hard (s : LoopSt) (r : CbRes) (hr : (verdictOf r).hard = true) (hs : s.fr = r.fr)
    (fh ne : Int) (rcpt : List Byte) (seen : Bool) (vs : List Verdict) :
    (finish s fh ne rcpt).replies = s.wrote ++ finalReply (policyFrom (verdictOf r :: vs) seen (decide (fh > 0)) (decide (ne > 0))) rcpt ∧
    (finish s fh ne rcpt).accepted = (policyFrom (verdictOf r :: vs) seen (decide (fh > 0)) (decide (ne > 0)) == .accept) := by
  have e1 := keyFailhardPositive_eq
  have e2 := keyNonexistPositive_eq
  cases hfr : r.fr <;> simp [verdictOf, hfr, Verdict.hard] at hr <;>
    by_cases h2 : ne > 0 <;>
    simp [finish, hs, hfr, filterDenied_eq, policyFrom, verdictOf, Verdict.hard, isSet, e1, e2, h2, finalReply, policyOr, List.find?]

theorem loop_spec (rs : List CbRes) : ∀ (s : LoopSt), Running s → ∀ (fh ne : Int) (rcpt : List Byte),
    (finish (loop rs s) fh ne rcpt).replies =
      s.wrote ++ calledWrote rs ++ finalReply (policyFrom (rs.map verdictOf) s.e (decide (fh > 0)) (decide (ne > 0))) rcpt ∧
    (finish (loop rs s) fh ne rcpt).accepted =
      (policyFrom (rs.map verdictOf) s.e (decide (fh > 0)) (decide (ne > 0)) == .accept) := by
  induction rs with
  | nil =>
    intro s h fh ne rcpt
    simpa [loop, calledWrote] using finish_replies_running_nil s h fh ne rcpt
  | cons r rs ih =>
    intro s h fh ne rcpt
    have hrun := h.1
    by_cases hh : (verdictOf r).hard = true
    · -- the loop ends behind this filter
      have hne : ¬ (r.fr = .passed ∨ r.fr = .deniedTemp) := by
        cases hfr : r.fr <;> simp [verdictOf, hfr, Verdict.hard] at hh <;> simp
      have hloop : ∃ s', loop (r :: rs) s = s' ∧ s'.fr = r.fr ∧ s'.wrote = s.wrote ++ r.wrote := by
        cases hfr : r.fr <;> simp [verdictOf, hfr, Verdict.hard] at hh <;>
          simp only [loop, hrun, if_true, hfr] <;>
          (refine ⟨_, rfl, ?_, ?_⟩ <;> rw [loop_stop _ _ (by simp)])
      obtain ⟨s', hs', hfr', hw'⟩ := hloop
      rw [hs']
      have := finish_replies_hard s' r hh hfr' fh ne rcpt s.e (rs.map verdictOf)
      simpa [calledWrote, hh, hw', List.append_assoc] using this
    · -- pass / temporary / error: the loop goes on
      have hh' : (verdictOf r).hard = false := by simpa using hh
      have key : ∃ s', loop (r :: rs) s = loop rs s' ∧ Running s' ∧ s'.wrote = s.wrote ++ r.wrote ∧
          s'.e = (s.e || (verdictOf r == .temp)) := by
        cases hfr : r.fr <;> simp [verdictOf, hfr, Verdict.hard] at hh <;>
          simp only [loop, hrun, if_true, hfr]
        · exact ⟨_, rfl, ⟨Or.inr rfl, fun _ => rfl⟩, rfl, by simp [verdictOf, hfr]⟩
        · refine ⟨_, rfl, ⟨Or.inl rfl, by simp⟩, rfl, by simp [verdictOf, hfr]⟩
        · exact ⟨_, rfl, ⟨Or.inr rfl, fun _ => rfl⟩, rfl, by simp [verdictOf, hfr]⟩
      obtain ⟨s', hs', hr', hw', he'⟩ := key
      rw [hs']
      have := ih s' hr' fh ne rcpt
      have hpol : policyFrom ((r :: rs).map verdictOf) s.e (decide (fh > 0)) (decide (ne > 0)) =
          policyFrom (rs.map verdictOf) s'.e (decide (fh > 0)) (decide (ne > 0)) := by
        simp only [List.map_cons, policyFrom, List.find?_cons, hh', he']
        cases hv : verdictOf r <;> simp [hv, Verdict.hard] at hh' <;>
          cases s.e <;> simp [List.contains_cons]
      rw [hpol]
      simpa [calledWrote, hh', hw', List.append_assoc] using this


/-! ### getsetting_internal over the levels -/

/-- what the answer of checkconfig() at one level means -/
def ccSays (cc : CC) : Says :=
  if cc.val > 0 then .value cc.val
  else if cc.val < 0 then (if cc.err then .malformed else .value cc.val)
  else .nothing

/-- `*type` for the index of a level -/
def levelConst : Nat → Nat
  | 0 => Gen.Rcpt.cfgUser
  | 1 => Gen.Rcpt.cfgDomain
  | _ => Gen.Rcpt.cfgGlobal

/-- the levels getsetting() / getsettingglobal() look at -/
def settingLevels (c : Conf) (key : List Byte) (glob : Bool) : List Says :=
  [ccSays (checkconfig c.user key), ccSays (checkconfig c.domain key)] ++
    (if glob then [ccSays (checkconfig c.global key)] else [])

theorem getsetting_levels (c : Conf) (key : List Byte) (glob : Bool) :
    match Spec.Rcpt.effective (settingLevels c key glob) with
    | .off => (getsettingInternal c key glob).1 = 0
    | .on v i => getsettingInternal c key glob = (v, levelConst i)
    | .malformed i => (getsettingInternal c key glob).1 < 0 ∧ (getsettingInternal c key glob).2 = levelConst i := by
  generalize hu : checkconfig c.user key = ru
  generalize hd : checkconfig c.domain key = rd
  generalize hg : checkconfig c.global key = rg
  simp only [settingLevels, getsettingInternal, hu, hd, hg]
  by_cases u1 : ru.val > 0
  · simp [ccSays, u1, levelResult, Spec.Rcpt.effective, Spec.Rcpt.effectiveFrom, levelConst]
  · by_cases u2 : ru.val < 0
    · cases hue : ru.err <;>
        simp [ccSays, u1, u2, hue, levelResult, Spec.Rcpt.effective, Spec.Rcpt.effectiveFrom, levelConst]
    · have u0 : ru.val = 0 := by omega
      by_cases d1 : rd.val > 0
      · simp [ccSays, u0, d1, levelResult, Spec.Rcpt.effective, Spec.Rcpt.effectiveFrom, levelConst]
      · by_cases d2 : rd.val < 0
        · cases hde : rd.err <;>
            simp [ccSays, u0, d1, d2, hde, levelResult, Spec.Rcpt.effective, Spec.Rcpt.effectiveFrom, levelConst]
        · have d0 : rd.val = 0 := by omega
          cases glob
          · simp [ccSays, u0, d0, levelResult, Spec.Rcpt.effective, Spec.Rcpt.effectiveFrom]
          · by_cases g1 : rg.val > 0
            · have : ¬ rg.val < 0 := by omega
              simp [ccSays, u0, d0, g1, this, levelResult, Spec.Rcpt.effective, Spec.Rcpt.effectiveFrom, levelConst]
            · by_cases g2 : rg.val < 0
              · cases hge : rg.err <;>
                  simp [ccSays, u0, d0, g1, g2, hge, levelResult, Spec.Rcpt.effective, Spec.Rcpt.effectiveFrom, levelConst]
              · have g0 : rg.val = 0 := by omega
                simp [ccSays, u0, d0, g0, levelResult, Spec.Rcpt.effective, Spec.Rcpt.effectiveFrom]

/-! ### getfile over the levels -/

/-- the directories getfile() may look into, in its order -/
def fileLevels (cfg : Cfg) (glob : Bool) : List (Option Level) :=
  [cfg.user, cfg.domain] ++ (if glob then [some cfg.global] else [])

/-- what one level answers for a file name: nothing when there is no such directory or no such file -/
def probeLevel (fn : List Byte) (l : Option Level) : Option Got := l.bind fun lv => gotOf (lv.get fn)

theorem getfile_levels (cfg : Cfg) (fn : List Byte) (glob : Bool) :
    match Spec.Rcpt.firstAnswer (probeLevel fn) 0 (fileLevels cfg glob) with
    | some (i, g) => getfileB cfg fn glob = (some (levelConst i), g)
    | none => (getfileB cfg fn glob).2 = .enoent := by
  unfold getfileB fileLevels
  cases glob <;> rcases hu : cfg.user with _ | u <;> rcases hd : cfg.domain with _ | d <;>
    simp only [Spec.Rcpt.firstAnswer, probeLevel, Option.bind, List.cons_append, List.nil_append, if_true, if_false,
      Bool.false_eq_true, Bool.not_false, Bool.not_true]
  all_goals (try generalize gotOf (u.get fn) = pu)
  all_goals (try generalize gotOf (d.get fn) = pd)
  all_goals (try generalize gotOf (cfg.global.get fn) = pg)
  all_goals (try cases pu)
  all_goals (try cases pd)
  all_goals (try cases pg)
  all_goals simp [levelConst]

/-! ### checkconfig against the documented reading of a filterconf -/

theorem takeWhile_of_all {α : Type} (p : α → Bool) : ∀ (l : List α), l.all p = true → l.takeWhile p = l
  | [], _ => rfl
  | a :: l, h => by
    simp only [List.all_cons, Bool.and_eq_true] at h
    simp [List.takeWhile, h.1, takeWhile_of_all p l h.2]

theorem drop_takeWhile_of_not_all {α : Type} (p : α → Bool) : ∀ (l : List α), l.all p = false →
    l.drop (l.takeWhile p).length ≠ []
  | [], h => by simp at h
  | a :: l, h => by
    cases hp : p a
    · simp [List.takeWhile, hp]
    · have : l.all p = false := by simpa [List.all_cons, hp] using h
      simpa [List.takeWhile, hp] using drop_takeWhile_of_not_all p l this

theorem digitsVal_eq (ds : List Byte) : digitsVal ds = Spec.Rcpt.natOf ds := rfl

theorem isDigit_eq : isDigit = Spec.Rcpt.isDigitB := rfl

theorem signOf_eq (s : List Byte) : signOf s = Spec.Rcpt.signSplit s := by
  match s with
  | [] => rfl
  | a :: t =>
    by_cases h1 : a = 45
    · subst h1; rfl
    · by_cases h2 : a = 43
      · subst h2; rfl
      · unfold signOf Spec.Rcpt.signSplit
        split <;> split <;> simp_all

theorem take_succ_append_cons {α : Type} (c : α) (v : List α) : ∀ (k : List α), (k ++ c :: v).take (k.length + 1) = k ++ [c]
  | [] => by simp
  | a :: k => by simp [take_succ_append_cons c v k]

theorem drop_succ_append_cons {α : Type} (c : α) (v : List α) : ∀ (k : List α), (k ++ c :: v).drop (k.length + 1) = v
  | [] => by simp
  | a :: k => by simp [drop_succ_append_cons c v k]

theorem norm_value_ne (n : Int) (h : n ≠ 0) : (Says.value n).norm = .value n := by
  unfold Says.norm
  split
  · rename_i heq; injection heq with heq; exact absurd heq h
  · rfl

theorem norm_value_zero : (Says.value 0).norm = .nothing := rfl

/-- the value is one strtol() reads exactly as the documentation says: it does not begin with one
of the C white space characters and it fits a `long` -/
def PlainValue (v : List Byte) : Prop :=
  (∀ a, v.head? = some a → Control.isSpaceC a = false) ∧
  (∀ n, Spec.Rcpt.intOf v = some n → -(Gen.Rcpt.longMax : Int) - 1 ≤ n ∧ n ≤ Gen.Rcpt.longMax)

theorem strtolTail_spec (s s2 : List Byte) (neg : Bool) (hs : s ≠ []) :
    match Spec.Rcpt.intTail neg s2 with
    | some n => (-(Gen.Rcpt.longMax : Int) - 1 ≤ n ∧ n ≤ Gen.Rcpt.longMax) →
        strtolTail s neg s2 = { val := n, rest := [], erange := false }
    | none => (strtolTail s neg s2).rest ≠ [] := by
  unfold Spec.Rcpt.intTail
  by_cases hbad : s2.isEmpty ∨ (!s2.all Spec.Rcpt.isDigitB) = true
  · simp only [hbad, if_true]
    rcases hbad with he | hn
    · have : s2 = [] := by simpa using he
      subst this
      simpa [strtolTail] using hs
    · have hall : s2.all isDigit = false := by rw [isDigit_eq]; simpa using hn
      unfold strtolTail
      by_cases hemp : (s2.takeWhile isDigit).isEmpty
      · simpa [hemp] using hs
      · have hd := drop_takeWhile_of_not_all isDigit s2 hall
        simp only [hemp]
        cases neg <;> simp only [if_true, if_false, Bool.false_eq_true] <;> split <;> exact hd
  · have hne : s2.isEmpty = false := by
      cases h : s2.isEmpty <;> simp [h] at hbad ⊢
    have hall : s2.all isDigit = true := by
      cases h : s2.all Spec.Rcpt.isDigitB
      · exact absurd (Or.inr (by simp [h])) hbad
      · exact h
    simp only [hbad, if_false]
    intro hr
    have htw := takeWhile_of_all isDigit s2 hall
    have hne' : ¬ (s2.takeWhile isDigit).isEmpty = true := by rw [htw]; simp [hne]
    unfold strtolTail
    simp only [htw, List.drop_length, digitsVal_eq]
    have hne2 : ¬ s2.isEmpty = true := by simp [hne]
    simp only [hne2, if_false]
    have lm := longMax_eq
    cases neg
    · simp only [Bool.false_eq_true, if_false] at hr ⊢
      have : ¬ Spec.Rcpt.natOf s2 > Gen.Rcpt.longMax := by omega
      simp [this]
    · simp only [if_true] at hr ⊢
      have : ¬ Spec.Rcpt.natOf s2 > Gen.Rcpt.longMax + 1 := by omega
      simp [this]

theorem strtol_plain (v : List Byte) (hne : v ≠ []) (hp : PlainValue v) :
    match Spec.Rcpt.intOf v with
    | some n => strtol v = { val := n, rest := [], erange := false }
    | none => (strtol v).rest ≠ [] := by
  obtain ⟨hsp, hrange⟩ := hp
  cases v with
  | nil => exact absurd rfl hne
  | cons a t =>
    have ha : Control.isSpaceC a = false := hsp a rfl
    have hdw : (a :: t).dropWhile Control.isSpaceC = a :: t := by simp [List.dropWhile, ha]
    have hsig : signOf (a :: t) = Spec.Rcpt.signSplit (a :: t) := signOf_eq _
    have key := strtolTail_spec (a :: t) (Spec.Rcpt.signSplit (a :: t)).2 (Spec.Rcpt.signSplit (a :: t)).1 hne
    unfold strtol
    simp only [hdw, hsig]
    unfold Spec.Rcpt.intOf at hrange ⊢
    cases hi : Spec.Rcpt.intTail (Spec.Rcpt.signSplit (a :: t)).1 (Spec.Rcpt.signSplit (a :: t)).2 with
    | none => simpa [hi] using key
    | some n =>
      simp only [hi] at key ⊢
      exact key (hrange n hi)

/-- every `key=value` line of the list has a plain value -/
def PlainLines (key : List Byte) (ls : List (List Byte)) : Prop :=
  ∀ l ∈ ls, ∀ v, l = key ++ 61 :: v → PlainValue v

theorem ccSays_mk_zero : ccSays { val := 0, err := false } = .nothing := by simp [ccSays]

theorem checkLine_spec (key line : List Byte) (hp : ∀ v, line = key ++ 61 :: v → PlainValue v) :
    (checkLine key line).map ccSays = (Spec.Rcpt.lineSays key line).map Says.norm := by
  unfold checkLine Spec.Rcpt.lineSays
  by_cases htk : line.take key.length = key
  · have hsplit : line = key ++ line.drop key.length := by
      conv => lhs; rw [← List.take_append_drop key.length line]
      rw [htk]
    simp only [htk, if_true]
    cases hrest : line.drop key.length with
    | nil =>
      have : line = key := by rw [hsplit, hrest]; simp
      simp [this, ccSays, Says.norm]
    | cons c v =>
      have hline : line = key ++ c :: v := by rw [hsplit, hrest]
      have hnk : line ≠ key := by
        intro h
        have := congrArg List.length h
        rw [hline] at this
        simp at this
      by_cases hc : c = 61
      · subst hc
        have htk1 : line.take (key.length + 1) = key ++ [61] := by
          rw [hline]; exact take_succ_append_cons _ _ _
        have hdr : line.drop (key.length + 1) = v := by
          rw [hline]; exact drop_succ_append_cons _ _ _
        simp only [hnk, if_false, htk1, if_true, hdr]
        by_cases hv : v = []
        · subst hv
          simp [strtol, strtolTail, signOf, ccSays, Says.norm]
        · have hpl := strtol_plain v hv (hp v hline)
          have hve : v.isEmpty = false := by cases v <;> simp at hv ⊢
          simp only [hve, Bool.false_eq_true, if_false]
          cases hi : Spec.Rcpt.intOf v with
          | none =>
            simp only [hi] at hpl
            simp [hpl, ccSays, Says.norm]
          | some n =>
            simp only [hi] at hpl
            simp only [hpl, ne_eq, not_true_eq_false, if_false, Option.map_some]
            congr 1
            by_cases h1 : n > 0
            · rw [norm_value_ne n (by omega)]
              simp [ccSays, h1]
            · by_cases h2 : n < 0
              · rw [norm_value_ne n (by omega)]
                simp [ccSays, h1, h2]
              · have : n = 0 := by omega
                subst this
                simp [ccSays, norm_value_zero]
      · have htk1 : line.take (key.length + 1) ≠ key ++ [61] := by
          rw [hline]
          intro h
          rw [take_succ_append_cons] at h
          exact hc (by simpa using h)
        simp [hnk, htk1, hc]
  · have hnk : line ≠ key := by
      intro h; apply htk; rw [h]; simp
    have htk1 : line.take (key.length + 1) ≠ key ++ [61] := by
      intro h
      apply htk
      have := congrArg (List.take key.length) h
      simpa [List.take_take, List.take_append] using this
    simp [htk, hnk, htk1]

theorem checkEntries_spec (key : List Byte) : ∀ (ls : List (List Byte)), PlainLines key ls →
    ccSays (checkEntries key ls) = Spec.Rcpt.says key ls
  | [], _ => by simp [checkEntries, Spec.Rcpt.says, Spec.Rcpt.firstSays, Says.norm, ccSays]
  | l :: ls, hp => by
    have h1 := checkLine_spec key l (fun v hv => hp l (by simp) v hv)
    have ih := checkEntries_spec key ls (fun l' hl' => hp l' (by simp [hl']))
    unfold Spec.Rcpt.says at ih ⊢
    unfold checkEntries Spec.Rcpt.firstSays
    cases hc : checkLine key l with
    | none =>
      rw [hc] at h1
      cases hl : Spec.Rcpt.lineSays key l with
      | none => simpa using ih
      | some x => rw [hl] at h1; simp at h1
    | some r =>
      rw [hc] at h1
      cases hl : Spec.Rcpt.lineSays key l with
      | none => rw [hl] at h1; simp at h1
      | some x => rw [hl] at h1; simpa using h1

/-- the documented reading of one parsed configuration -/
def saysOf (l : Lines) (key : List Byte) : Says :=
  match l with
  | none => .nothing
  | some ls => Spec.Rcpt.says key ls

def PlainConf (key : List Byte) (l : Lines) : Prop :=
  match l with
  | none => True
  | some ls => PlainLines key ls

theorem checkconfig_says (l : Lines) (key : List Byte) (hp : PlainConf key l) :
    ccSays (checkconfig l key) = saysOf l key := by
  cases l with
  | none => simp [checkconfig, saysOf, ccSays]
  | some ls => exact checkEntries_spec key ls hp


/-! ### helpers of the property theorems -/

theorem find_hard_append (pre post : List Verdict) (h : Verdict) (hpre : ∀ v ∈ pre, v.hard = false) (hh : h.hard = true) :
    (pre ++ h :: post).find? Verdict.hard = some h := by
  induction pre with
  | nil => simp [List.find?, hh]
  | cons a pre ih =>
    have ha : a.hard = false := hpre a (by simp)
    simp [List.find?, ha, ih (fun v hv => hpre v (by simp [hv]))]

theorem calledWrote_append (pre post : List CbRes) (h : CbRes) (hpre : ∀ r ∈ pre, (verdictOf r).hard = false)
    (hh : (verdictOf h).hard = true) :
    calledWrote (pre ++ h :: post) = (pre.flatMap (·.wrote)) ++ h.wrote := by
  induction pre with
  | nil => simp [calledWrote, hh]
  | cons a pre ih =>
    have ha : (verdictOf a).hard = false := hpre a (by simp)
    simp [calledWrote, ha, ih (fun r hr => hpre r (by simp [hr])), List.append_assoc]

/-- the reply the documentation gives for a hard decision -/
def hardReply (v : Verdict) (nonexist : Bool) : PolicyReply :=
  match v with
  | .whitelist => .accept
  | .deny .sent => .sentByFilter
  | .deny .policy => policyOr nonexist
  | .deny .nouser => .nouser550
  | _ => .accept

theorem calledWrote_no_hard : ∀ (rs : List CbRes), (∀ r ∈ rs, (verdictOf r).hard = false) →
    calledWrote rs = rs.flatMap (·.wrote)
  | [], _ => rfl
  | a :: rs, hno => by
    have ha := hno a (by simp)
    simp [calledWrote, ha, calledWrote_no_hard rs (fun r hr => hno r (by simp [hr]))]

/-- the levels a lookup consults, read as the documentation reads them -/
def docLevels (c : Conf) (key : List Byte) (glob : Bool) : List Says :=
  [saysOf c.user key, saysOf c.domain key] ++ (if glob then [saysOf c.global key] else [])

theorem effective_on_pos : ∀ (ls : List Says) (k : Nat) (v : Int) (i : Nat), Spec.Rcpt.effectiveFrom k ls = .on v i → v > 0
  | [], _, _, _, h => by simp [Spec.Rcpt.effectiveFrom] at h
  | .nothing :: ls, k, v, i, h => effective_on_pos ls (k + 1) v i (by simpa [Spec.Rcpt.effectiveFrom] using h)
  | .malformed :: ls, k, v, i, h => by simp [Spec.Rcpt.effectiveFrom] at h
  | .value w :: ls, k, v, i, h => by
    unfold Spec.Rcpt.effectiveFrom at h
    by_cases h1 : w > 0
    · simp [h1] at h; omega
    · by_cases h2 : w < 0
      · simp [h1, h2] at h
      · simp [h1, h2] at h; exact effective_on_pos ls (k + 1) v i h


end QsmtpModel.Rcpt
