/-
Lemmas for C03 (acknowledgement of DATA): the syscall oracle walk of `Spec.firstFault` against the
calls the models `Queue`/`Data` issue, the reply table, descriptor accounting and the state after a
failed transaction.  Mathlib-free.
-/
import QsmtpModel.Data
import QsmtpModel.Spec.Ack

namespace QsmtpModel.Data.Ack
open QsmtpModel QsmtpModel.Queue
open QsmtpModel.Netio (Rd)
open QsmtpModel.Spec (firstFault ackExpected)

/-! ### the exit status table -/

theorem resultCode_table (w : WaitR) :
    (resultCode w = 250 ↔ w = .exited 0)
    ∧ (resultCode w = 554 ↔ ∃ e, w = .exited e ∧ Gen.queuePermLo ≤ e ∧ e ≤ Gen.queuePermHi)
    ∧ (resultCode w = 250 ∨ resultCode w = 554 ∨ resultCode w = 451) := by
  cases w with
  | exited c =>
    cases c with
    | zero => simp [resultCode]
    | succ n =>
      simp only [resultCode]
      split <;> simp_all
  | signaled s => simp [resultCode]
  | failed e => simp [resultCode]

/-! ### the kernel calls, case by case -/

theorem sysPipe_cases (q : QSt) :
    (∃ ok t, q.trace = .pipe ok :: t
      ∧ sysPipe q = (ok, { q with trace := t, openFds := if ok then q.openFds + 2 else q.openFds }))
    ∨ sysPipe q = (false, { q with trace := [], desync := true }) := by
  unfold sysPipe; split
  · left; exact ⟨_, _, ‹_›, rfl⟩
  · right; rfl

theorem sysFork_cases (q : QSt) :
    (∃ ok t, q.trace = .fork ok :: t ∧ sysFork q = (ok, { q with trace := t }))
    ∨ sysFork q = (false, { q with trace := [], desync := true }) := by
  unfold sysFork; split
  · left; exact ⟨_, _, ‹_›, rfl⟩
  · right; rfl

theorem sysProbe_cases (q : QSt) :
    (∃ r t, q.trace = .probe r :: t ∧ sysProbe q = (r, { q with trace := t }))
    ∨ sysProbe q = (-1, { q with trace := [], desync := true }) := by
  unfold sysProbe; split
  · left; exact ⟨_, _, ‹_›, rfl⟩
  · right; rfl

theorem sysWrite_cases (q : QSt) :
    (∃ r e t, q.trace = .write r e :: t ∧ sysWrite q = ((r, e), { q with trace := t }))
    ∨ sysWrite q = ((-1, .other 0), { q with trace := [], desync := true }) := by
  unfold sysWrite; split
  · left; exact ⟨_, _, _, ‹_›, rfl⟩
  · right; rfl

theorem sysClose_cases (q : QSt) :
    (∃ ok e t, q.trace = .close ok e :: t
      ∧ sysClose q = (ok, { q with trace := t, openFds := q.openFds - 1, errno := if ok then q.errno else e }))
    ∨ sysClose q = (false, { q with trace := [], desync := true }) := by
  unfold sysClose; split
  · left; exact ⟨_, _, _, ‹_›, rfl⟩
  · right; rfl

theorem sysWait_cases (q : QSt) :
    (∃ r t, q.trace = .wait r :: t
      ∧ sysWait q = (r, { q with trace := t, errno := match r with | .failed e => e | _ => q.errno }))
    ∨ sysWait q = (.failed (.other 0), { q with trace := [], desync := true }) := by
  unfold sysWait; split
  · left; exact ⟨_, _, ‹_›, rfl⟩
  · right; rfl

/-! ### later states; position of a state in the oracle -/

/-- `q'` is a later state than `q`: unless the oracle got out of step, a part of the oracle was
consumed and the write log grew at its end -/
def Ext (q q' : QSt) : Prop :=
  q'.desync = false →
    q.desync = false ∧ ∃ used more, q.trace = used ++ q'.trace ∧ q'.wlog.reverse = q.wlog.reverse ++ more

theorem Ext.refl (q : QSt) : Ext q q := fun h => ⟨h, [], [], by simp, by simp⟩

theorem Ext.trans {q q' q'' : QSt} (h1 : Ext q q') (h2 : Ext q' q'') : Ext q q'' := by
  intro hd
  obtain ⟨hd', u2, m2, ht2, hw2⟩ := h2 hd
  obtain ⟨hd'', u1, m1, ht1, hw1⟩ := h1 hd'
  exact ⟨hd'', u1 ++ u2, m1 ++ m2, by simp [ht1, ht2], by simp [hw1, hw2]⟩

/-- descriptor bookkeeping untouched (flags and count), `desync` only ever gets set -/
def FdEq (q q' : QSt) : Prop :=
  q'.fdData = q.fdData ∧ q'.fdHdr = q.fdHdr ∧ q'.openFds = q.openFds ∧ (q.desync = true → q'.desync = true)

theorem FdEq.refl (q : QSt) : FdEq q q := ⟨rfl, rfl, rfl, id⟩

theorem FdEq.trans {q q' q'' : QSt} (h1 : FdEq q q') (h2 : FdEq q' q'') : FdEq q q'' :=
  ⟨h2.1.trans h1.1, h2.2.1.trans h1.2.1, h2.2.2.1.trans h1.2.2.1, fun h => h2.2.2.2 (h1.2.2.2 h)⟩

/-- all calls up to `q` were answered without a fault; `k` closes to come are ignored -/
def OKAt (tr : List Sys) (q : QSt) (k : Nat) : Prop :=
  q.desync = false ∧ ∃ pre, tr = pre ++ q.trace ∧
    ∀ post ls, firstFault (pre ++ post) (q.wlog.reverse ++ ls) 0 = firstFault post ls k

/-- some call up to `q` was answered with a fault -/
def BadAt (tr : List Sys) (q : QSt) : Prop :=
  ∃ pre, tr = pre ++ q.trace ∧ ∀ post ls, firstFault (pre ++ post) (q.wlog.reverse ++ ls) 0 ≠ none

theorem OKAt.init (tr : List Sys) : OKAt tr { trace := tr } 0 :=
  ⟨rfl, [], rfl, fun _ _ => by simp⟩

theorem OKAt.adv {tr : List Sys} {q : QSt} {k : Nat} (h : OKAt tr q k) {x : Sys} {t : List Sys}
    (ht : q.trace = x :: t) (q' : QSt) (more : List Nat) (k' : Nat)
    (h1 : q'.trace = t) (h2 : q'.desync = q.desync) (h3 : q'.wlog.reverse = q.wlog.reverse ++ more)
    (h4 : ∀ post ls, firstFault (x :: post) (more ++ ls) k = firstFault post ls k') : OKAt tr q' k' := by
  obtain ⟨hd, pre, hp, hf⟩ := h
  refine ⟨h2 ▸ hd, pre ++ [x], by simp [hp, ht, h1], fun post ls => ?_⟩
  rw [h3]
  simp only [List.append_assoc, List.singleton_append]
  rw [hf, h4]

theorem OKAt.fail {tr : List Sys} {q : QSt} {k : Nat} (h : OKAt tr q k) {x : Sys} {t : List Sys}
    (ht : q.trace = x :: t) (q' : QSt) (more : List Nat)
    (h1 : q'.trace = t) (h3 : q'.wlog.reverse = q.wlog.reverse ++ more)
    (h4 : ∀ post ls, firstFault (x :: post) (more ++ ls) k ≠ none) : BadAt tr q' := by
  obtain ⟨_, pre, hp, hf⟩ := h
  refine ⟨pre ++ [x], by simp [hp, ht, h1], fun post ls => ?_⟩
  rw [h3]
  simp only [List.append_assoc, List.singleton_append]
  rw [hf]; exact h4 _ _

theorem BadAt.ext {tr : List Sys} {q q' : QSt} (h : BadAt tr q) (he : Ext q q') (hd : q'.desync = false) :
    BadAt tr q' := by
  obtain ⟨pre, hp, hf⟩ := h
  obtain ⟨_, used, more, ht, hw⟩ := he hd
  refine ⟨pre ++ used, by simp [hp, ht], fun post ls => ?_⟩
  rw [hw]
  simp only [List.append_assoc]
  exact hf _ _

theorem BadAt.fault {tr : List Sys} {q : QSt} (h : BadAt tr q) : firstFault tr q.wlog.reverse 0 ≠ none := by
  obtain ⟨pre, hp, hf⟩ := h
  have := hf q.trace []
  rwa [← hp, List.append_nil] at this

/-! ### one call -/

theorem sysPipe_ext (q : QSt) : Ext q (sysPipe q).2 := by
  rcases sysPipe_cases q with ⟨ok, t, ht, e⟩ | e <;> rw [e] <;> intro hd
  · exact ⟨hd, [.pipe ok], [], by simp [ht], by simp⟩
  · simp at hd

theorem sysFork_ext (q : QSt) : Ext q (sysFork q).2 := by
  rcases sysFork_cases q with ⟨ok, t, ht, e⟩ | e <;> rw [e] <;> intro hd
  · exact ⟨hd, [.fork ok], [], by simp [ht], by simp⟩
  · simp at hd

theorem sysProbe_ext (q : QSt) : Ext q (sysProbe q).2 := by
  rcases sysProbe_cases q with ⟨r, t, ht, e⟩ | e <;> rw [e] <;> intro hd
  · exact ⟨hd, [.probe r], [], by simp [ht], by simp⟩
  · simp at hd

theorem sysClose_ext (q : QSt) : Ext q (sysClose q).2 := by
  rcases sysClose_cases q with ⟨ok, er, t, ht, e⟩ | e <;> rw [e] <;> intro hd
  · exact ⟨hd, [.close ok er], [], by simp [ht], by simp⟩
  · simp at hd

theorem sysWait_ext (q : QSt) : Ext q (sysWait q).2 := by
  rcases sysWait_cases q with ⟨r, t, ht, e⟩ | e <;> rw [e] <;> intro hd
  · exact ⟨hd, [.wait r], [], by simp [ht], by simp⟩
  · simp at hd

theorem sysFork_fd (q : QSt) : FdEq q (sysFork q).2 := by
  rcases sysFork_cases q with ⟨ok, t, ht, e⟩ | e <;> rw [e] <;> simp [FdEq]

theorem sysProbe_fd (q : QSt) : FdEq q (sysProbe q).2 := by
  rcases sysProbe_cases q with ⟨ok, t, ht, e⟩ | e <;> rw [e] <;> simp [FdEq]

theorem sysWait_fd (q : QSt) : FdEq q (sysWait q).2 := by
  rcases sysWait_cases q with ⟨ok, t, ht, e⟩ | e <;> rw [e] <;> simp [FdEq]

/-- `close()`: the flags stay, one descriptor less (or the oracle is out of step) -/
theorem sysClose_fd (q : QSt) :
    (sysClose q).2.fdData = q.fdData ∧ (sysClose q).2.fdHdr = q.fdHdr
      ∧ (q.desync = true → (sysClose q).2.desync = true)
      ∧ ((sysClose q).2.desync = true ∨ (sysClose q).2.openFds = q.openFds - 1) := by
  rcases sysClose_cases q with ⟨ok, er, t, ht, e⟩ | e <;> rw [e] <;> simp

theorem sysPipe_fd (q : QSt) :
    (sysPipe q).2.fdData = q.fdData ∧ (sysPipe q).2.fdHdr = q.fdHdr
      ∧ (q.desync = true → (sysPipe q).2.desync = true)
      ∧ ((sysPipe q).2.desync = true
          ∨ (sysPipe q).2.openFds = if (sysPipe q).1 then q.openFds + 2 else q.openFds) := by
  rcases sysPipe_cases q with ⟨ok, t, ht, e⟩ | e <;> rw [e] <;> simp

theorem sysPipe_st {tr : List Sys} {q q' : QSt} {k : Nat} {b : Bool} (h : OKAt tr q k)
    (hs : sysPipe q = (b, q')) :
    (b = true → OKAt tr q' k) ∧ (b = false → q'.desync = false → BadAt tr q') := by
  rcases sysPipe_cases q with ⟨ok, t, ht, e⟩ | e <;> rw [e] at hs <;> obtain ⟨rfl, rfl⟩ := Prod.mk.inj hs
  · refine ⟨fun hb => ?_, fun hb _ => ?_⟩
    · subst hb; exact h.adv ht _ [] k rfl rfl (by simp) (by intros; simp [firstFault])
    · subst hb; exact h.fail ht _ [] rfl (by simp) (by intros; simp [firstFault])
  · exact ⟨by simp, by simp⟩

theorem sysFork_st {tr : List Sys} {q q' : QSt} {k : Nat} {b : Bool} (h : OKAt tr q k)
    (hs : sysFork q = (b, q')) :
    (b = true → OKAt tr q' 2) ∧ (b = false → q'.desync = false → BadAt tr q') := by
  rcases sysFork_cases q with ⟨ok, t, ht, e⟩ | e <;> rw [e] at hs <;> obtain ⟨rfl, rfl⟩ := Prod.mk.inj hs
  · refine ⟨fun hb => ?_, fun hb _ => ?_⟩
    · subst hb; exact h.adv ht _ [] 2 rfl rfl (by simp) (by intros; simp [firstFault])
    · subst hb; exact h.fail ht _ [] rfl (by simp) (by intros; simp [firstFault])
  · exact ⟨by simp, by simp⟩

theorem sysProbe_st {tr : List Sys} {q q' : QSt} {k : Nat} {r : Int} (h : OKAt tr q k)
    (hs : sysProbe q = (r, q')) :
    (r = 0 → OKAt tr q' k) ∧ (r ≠ 0 → q'.desync = false → BadAt tr q') := by
  rcases sysProbe_cases q with ⟨ok, t, ht, e⟩ | e <;> rw [e] at hs <;> obtain ⟨rfl, rfl⟩ := Prod.mk.inj hs
  · refine ⟨fun hb => ?_, fun hb _ => ?_⟩
    · subst hb; exact h.adv ht _ [] k rfl rfl (by simp) (by intros; simp [firstFault])
    · exact h.fail ht _ [] rfl (by simp) (by intros; simp [firstFault, hb])
  · exact ⟨by simp, by simp⟩

/-- a close whose result the code looks at -/
theorem sysClose_st {tr : List Sys} {q q' : QSt} {b : Bool} (h : OKAt tr q 0)
    (hs : sysClose q = (b, q')) :
    (b = true → OKAt tr q' 0) ∧ (b = false → q'.desync = false → BadAt tr q') := by
  rcases sysClose_cases q with ⟨ok, er, t, ht, e⟩ | e <;> rw [e] at hs <;> obtain ⟨rfl, rfl⟩ := Prod.mk.inj hs
  · refine ⟨fun hb => ?_, fun hb _ => ?_⟩
    · subst hb; exact h.adv ht _ [] 0 rfl rfl (by simp) (by intros; simp [firstFault])
    · subst hb; exact h.fail ht _ [] rfl (by simp) (by intros; simp [firstFault])
  · exact ⟨by simp, by simp⟩

/-- a close right after fork: the result is ignored -/
theorem sysClose_skip {tr : List Sys} {q : QSt} {k : Nat} (h : OKAt tr q (k + 1))
    (hne : (sysClose q).2.trace ≠ []) : OKAt tr (sysClose q).2 k := by
  rcases sysClose_cases q with ⟨ok, er, t, ht, e⟩ | e <;> rw [e] at hne ⊢
  · exact h.adv ht _ [] k rfl rfl (by simp) (by intros; simp [firstFault])
  · simp at hne

theorem sysClose_trace_nil {q : QSt} (h : q.trace = []) : (sysClose q).2.trace = [] := by
  rcases sysClose_cases q with ⟨ok, er, t, ht, e⟩ | e <;> rw [e]
  rw [h] at ht; cases ht

theorem sysWait_st {tr : List Sys} {q q' : QSt} {k : Nat} {w : WaitR} (h : OKAt tr q k)
    (hs : sysWait q = (w, q')) :
    (w = .exited 0 → q'.desync = false ∧ ∃ pre, tr = pre ++ q'.trace ∧ firstFault pre q'.wlog.reverse 0 = none
        ∧ pre.getLast? = some (.wait (.exited 0)))
    ∧ (w ≠ .exited 0 → q'.desync = false → BadAt tr q') := by
  rcases sysWait_cases q with ⟨r, t, ht, e⟩ | e <;> rw [e] at hs <;> obtain ⟨rfl, rfl⟩ := Prod.mk.inj hs
  · refine ⟨fun hb => ?_, fun hb _ => ?_⟩
    · subst hb
      obtain ⟨hd, pre, hp, hf⟩ := h
      refine ⟨hd, pre ++ [.wait (.exited 0)], by simp [hp, ht], ?_, by simp⟩
      have := hf [.wait (.exited 0)] []
      simpa [firstFault] using this
    · refine h.fail ht _ [] rfl (by simp) ?_
      intro post ls
      simp [firstFault]
  · exact ⟨by simp, by simp⟩

/-! ### writes -/

/-- what `wrData`/`wrHdr` of `n` bytes do to the bookkeeping -/
def WrSpec (q : QSt) (n : Nat) (res : Bool × QSt) : Prop :=
  FdEq q res.2 ∧
  ((∃ r e t, q.trace = .write r e :: t ∧ res.2.trace = t ∧ res.2.desync = q.desync
      ∧ res.2.wlog = n :: q.wlog ∧ (res.1 = true ↔ r = (n : Int)))
    ∨ (res.1 = false ∧ res.2.desync = true))

theorem wrData_spec (q : QSt) (d : List Byte) : WrSpec q d.length (wrData q d) := by
  unfold wrData
  rcases sysWrite_cases q with ⟨r, e, t, ht, h⟩ | h <;> rw [h] <;> dsimp only
  · by_cases hr : r = (d.length : Int)
    · rw [if_pos hr]
      exact ⟨⟨rfl, rfl, rfl, id⟩, .inl ⟨r, e, t, ht, rfl, rfl, rfl, by simp [hr]⟩⟩
    · rw [if_neg hr]
      exact ⟨⟨rfl, rfl, rfl, id⟩, .inl ⟨r, e, t, ht, rfl, rfl, rfl, by simp [hr]⟩⟩
  · have hr : ¬ ((-1 : Int) = (d.length : Int)) := by omega
    rw [if_neg hr]
    exact ⟨⟨rfl, rfl, rfl, fun _ => rfl⟩, .inr ⟨rfl, rfl⟩⟩

theorem wrHdr_spec (q : QSt) (d : List Byte) : WrSpec q d.length (wrHdr q d) := by
  unfold wrHdr
  rcases sysWrite_cases q with ⟨r, e, t, ht, h⟩ | h <;> rw [h] <;> dsimp only
  · by_cases hr : r = (d.length : Int)
    · rw [if_pos hr]
      exact ⟨⟨rfl, rfl, rfl, id⟩, .inl ⟨r, e, t, ht, rfl, rfl, rfl, by simp [hr]⟩⟩
    · rw [if_neg hr]
      exact ⟨⟨rfl, rfl, rfl, id⟩, .inl ⟨r, e, t, ht, rfl, rfl, rfl, by simp [hr]⟩⟩
  · have hr : ¬ ((-1 : Int) = (d.length : Int)) := by omega
    rw [if_neg hr]
    exact ⟨⟨rfl, rfl, rfl, fun _ => rfl⟩, .inr ⟨rfl, rfl⟩⟩

theorem WrSpec.ext {q : QSt} {n : Nat} {res : Bool × QSt} (h : WrSpec q n res) : Ext q res.2 := by
  intro hd
  rcases h.2 with ⟨r, e, t, ht, h1, h2, h3, _⟩ | ⟨_, h2⟩
  · exact ⟨h2 ▸ hd, [.write r e], [n], by simp [ht, h1], by simp [h3]⟩
  · rw [hd] at h2; cases h2

theorem WrSpec.st {q : QSt} {n : Nat} {res : Bool × QSt} (h : WrSpec q n res) {tr : List Sys} {k : Nat}
    (hq : OKAt tr q k) :
    (res.1 = true → OKAt tr res.2 k) ∧ (res.1 = false → res.2.desync = false → BadAt tr res.2) := by
  rcases h.2 with ⟨r, e, t, ht, h1, h2, h3, h4⟩ | ⟨h1, h2⟩
  · refine ⟨fun hb => ?_, fun hb _ => ?_⟩
    · have hr := h4.1 hb
      exact hq.adv ht _ [n] k h1 h2 (by simp [h3]) (by intros; simp [firstFault, hr])
    · have hr : r ≠ (n : Int) := fun hr => by rw [h4.2 hr] at hb; cases hb
      exact hq.fail ht _ [n] h1 (by simp [h3]) (by intros; simp [firstFault, hr])
  · refine ⟨fun hb => ?_, fun _ hd => ?_⟩
    · rw [h1] at hb; cases hb
    · rw [hd] at h2; cases h2

theorem wrAll_ext (wr : QSt → List Byte → Bool × QSt) (hwr : ∀ q d, WrSpec q d.length (wr q d))
    (q : QSt) (ds : List (List Byte)) : Ext q (wrAll wr q ds).2 := by
  induction ds generalizing q with
  | nil => exact Ext.refl q
  | cons d ds ih =>
    unfold wrAll
    have h1 := (hwr q d).ext
    rcases hw : wr q d with ⟨b, q1⟩
    rw [hw] at h1
    cases b
    · exact h1
    · exact h1.trans (ih q1)

theorem wrAll_fd (wr : QSt → List Byte → Bool × QSt) (hwr : ∀ q d, WrSpec q d.length (wr q d))
    (q : QSt) (ds : List (List Byte)) : FdEq q (wrAll wr q ds).2 := by
  induction ds generalizing q with
  | nil => exact FdEq.refl q
  | cons d ds ih =>
    unfold wrAll
    have h1 := (hwr q d).1
    rcases hw : wr q d with ⟨b, q1⟩
    rw [hw] at h1
    cases b
    · exact h1
    · exact h1.trans (ih q1)

theorem wrAll_st (wr : QSt → List Byte → Bool × QSt) (hwr : ∀ q d, WrSpec q d.length (wr q d))
    {tr : List Sys} {k : Nat} (q : QSt) (ds : List (List Byte)) (hq : OKAt tr q k) :
    ((wrAll wr q ds).1 = true → OKAt tr (wrAll wr q ds).2 k)
    ∧ ((wrAll wr q ds).1 = false → (wrAll wr q ds).2.desync = false → BadAt tr (wrAll wr q ds).2) := by
  induction ds generalizing q with
  | nil => exact ⟨fun _ => hq, fun h => by simp [wrAll] at h⟩
  | cons d ds ih =>
    unfold wrAll
    have h1 := (hwr q d).st hq
    rcases hw : wr q d with ⟨b, q1⟩
    rw [hw] at h1
    cases b
    · exact ⟨fun h => by simp at h, fun _ => h1.2 rfl⟩
    · exact ih q1 (h1.1 rfl)

/-! ### descriptor accounting -/

/-- flags untouched, `desync` only ever gets set, and unless out of step the count changed by `f` -/
def FdStep (q q' : QSt) (f : Nat → Nat) : Prop :=
  q'.fdData = q.fdData ∧ q'.fdHdr = q.fdHdr ∧ (q.desync = true → q'.desync = true)
    ∧ (q'.desync = true ∨ q'.openFds = f q.openFds)

theorem FdEq.step {q q' : QSt} (h : FdEq q q') : FdStep q q' id :=
  ⟨h.1, h.2.1, h.2.2.2, .inr h.2.2.1⟩

theorem FdStep.trans {q q' q'' : QSt} {f g : Nat → Nat} (h1 : FdStep q q' f) (h2 : FdStep q' q'' g) :
    FdStep q q'' (fun n => g (f n)) := by
  refine ⟨h2.1.trans h1.1, h2.2.1.trans h1.2.1, fun h => h2.2.2.1 (h1.2.2.1 h), ?_⟩
  rcases h2.2.2.2 with h | h
  · exact .inl h
  · rcases h1.2.2.2 with h' | h'
    · exact .inl (h2.2.2.1 h')
    · exact .inr (by rw [h, h'])

theorem sysClose_fdstep (q : QSt) : FdStep q (sysClose q).2 (fun n => n - 1) := sysClose_fd q

theorem sysPipe_fdstep (q : QSt) :
    FdStep q (sysPipe q).2 (fun n => if (sysPipe q).1 then n + 2 else n) := sysPipe_fd q

/-- the descriptor invariant: no more descriptors are open than the flags tell -/
def Inv (q : QSt) : Prop := q.desync = true ∨ q.openFds ≤ q.fdData.toNat + q.fdHdr.toNat

theorem Inv.fdEq {q q' : QSt} (h : Inv q) (e : FdEq q q') : Inv q' := by
  rcases h with h | h
  · exact .inl (e.2.2.2 h)
  · right; rw [e.1, e.2.1, e.2.2.1]; exact h

/-! ### queue_init -/

theorem Ext.of_eq {q q' : QSt} (h1 : q'.desync = q.desync) (h2 : q'.trace = q.trace) (h3 : q'.wlog = q.wlog) :
    Ext q q' := fun hd => ⟨h1 ▸ hd, [], [], by simp [h2], by simp [h3]⟩

theorem sysClose_skip' {tr : List Sys} {q : QSt} {k : Nat} (h : OKAt tr q (k + 1))
    (hd : (sysClose q).2.desync = false) : OKAt tr (sysClose q).2 k := by
  rcases sysClose_cases q with ⟨ok, er, t, ht, e⟩ | e <;> rw [e] at hd ⊢
  · exact h.adv ht _ [] k rfl rfl (by simp) (by intros; simp [firstFault])
  · simp at hd

theorem sysProbe_trace_nil {q : QSt} (h : q.trace = []) : (sysProbe q).1 = -1 := by
  rcases sysProbe_cases q with ⟨r, t, ht, e⟩ | e <;> rw [e]
  rw [h] at ht; cases ht

structure QInitSpec (tr : List Sys) (q : QSt) (r : Bool × QSt) : Prop where
  ext : Ext q r.2
  flagsT : r.1 = true → r.2.fdData = true ∧ r.2.fdHdr = true
  flagsF : r.1 = false → r.2.fdData = q.fdData ∧ r.2.fdHdr = q.fdHdr
  fds : r.2.desync = true ∨ r.2.openFds = if r.1 then q.openFds + 2 else q.openFds
  st : OKAt tr q 0 → (r.1 = true → OKAt tr r.2 0) ∧ (r.1 = false → r.2.desync = false → BadAt tr r.2)

theorem queueInit_spec (tr : List Sys) (q : QSt) : QInitSpec tr q (queueInit q) := by
  unfold queueInit
  have e1 := sysPipe_ext q
  have f1 := sysPipe_fdstep q
  rcases h1 : sysPipe q with ⟨b1, q1⟩
  rw [h1] at e1 f1
  cases b1 <;> dsimp only
  · -- no pipe
    exact ⟨e1, by simp, fun _ => ⟨f1.1, f1.2.1⟩, by simpa using f1.2.2.2,
      fun hq => ⟨by simp, fun _ => (sysPipe_st hq h1).2 rfl⟩⟩
  · have e2 := sysPipe_ext q1
    have f2 := sysPipe_fdstep q1
    rcases h2 : sysPipe q1 with ⟨b2, q2⟩
    rw [h2] at e2 f2
    cases b2 <;> dsimp only
    · -- no second pipe
      have ec := (sysClose_ext q2).trans (sysClose_ext (sysClose q2).2)
      have fc := ((f1.trans f2).trans (sysClose_fdstep q2)).trans (sysClose_fdstep (sysClose q2).2)
      refine ⟨e1.trans (e2.trans ec), by simp, fun _ => ⟨fc.1, fc.2.1⟩, ?_, fun hq => ⟨by simp, fun _ hd => ?_⟩⟩
      · rcases fc.2.2.2 with h | h
        · exact .inl h
        · right; rw [h]; simp
      · have hd2 := (ec hd).1
        exact ((sysPipe_st ((sysPipe_st hq h1).1 rfl) h2).2 rfl hd2).ext ec hd
    · have e3 := sysFork_ext q2
      have f3 := (sysFork_fd q2).step
      rcases h3 : sysFork q2 with ⟨b3, q3⟩
      rw [h3] at e3 f3
      cases b3 <;> dsimp only
      · -- no child
        have ec := ((sysClose_ext q3).trans (sysClose_ext (sysClose q3).2)).trans
          ((sysClose_ext (sysClose (sysClose q3).2).2).trans (sysClose_ext (sysClose (sysClose (sysClose q3).2).2).2))
        have fc := (((((f1.trans f2).trans f3).trans (sysClose_fdstep q3)).trans
          (sysClose_fdstep (sysClose q3).2)).trans (sysClose_fdstep (sysClose (sysClose q3).2).2)).trans
          (sysClose_fdstep (sysClose (sysClose (sysClose q3).2).2).2)
        refine ⟨e1.trans (e2.trans (e3.trans ec)), by simp, fun _ => ⟨fc.1, fc.2.1⟩, ?_,
          fun hq => ⟨by simp, fun _ hd => ?_⟩⟩
        · rcases fc.2.2.2 with h | h
          · exact .inl h
          · right; rw [h]; simp
        · have hd3 := (ec hd).1
          exact ((sysFork_st ((sysPipe_st ((sysPipe_st hq h1).1 rfl) h2).1 rfl) h3).2 rfl hd3).ext ec hd
      · have e4 := sysClose_ext q3
        have f4 := sysClose_fdstep q3
        have e5 := sysClose_ext (sysClose q3).2
        have f5 := sysClose_fdstep (sysClose q3).2
        have e6 := sysProbe_ext (sysClose (sysClose q3).2).2
        have f6 := (sysProbe_fd (sysClose (sysClose q3).2).2).step
        rcases h6 : sysProbe (sysClose (sysClose q3).2).2 with ⟨r, q6⟩
        rw [h6] at e6 f6
        dsimp only
        have f16 := ((((f1.trans f2).trans f3).trans f4).trans f5).trans f6
        have e16 := e1.trans (e2.trans (e3.trans (e4.trans (e5.trans e6))))
        by_cases hr : r = 0
        · -- the child runs
          rw [if_neg (by simpa using hr)]
          refine ⟨e16.trans (Ext.of_eq rfl rfl rfl), fun _ => ⟨rfl, rfl⟩, by simp, ?_, fun hq => ⟨fun _ => ?_, by simp⟩⟩
          · rcases f16.2.2.2 with h | h
            · exact .inl h
            · right; show q6.openFds = _; rw [h]; simp
          · have hq3 := (sysFork_st ((sysPipe_st ((sysPipe_st hq h1).1 rfl) h2).1 rfl) h3).1 rfl
            have hne5 : (sysClose (sysClose q3).2).2.trace ≠ [] := by
              intro hnil
              have := sysProbe_trace_nil hnil
              rw [h6] at this
              simp only at this
              omega
            have hne4 : (sysClose q3).2.trace ≠ [] := fun hnil => hne5 (sysClose_trace_nil hnil)
            have hq5 := sysClose_skip (sysClose_skip hq3 hne4) hne5
            obtain ⟨hd6, pre, hp, hf⟩ := (sysProbe_st hq5 h6).1 hr
            exact ⟨hd6, pre, hp, hf⟩
        · -- the child is gone
          rw [if_pos (by simpa using hr)]
          have ec := (sysClose_ext q6).trans (sysClose_ext (sysClose q6).2)
          have fc := (f16.trans (sysClose_fdstep q6)).trans (sysClose_fdstep (sysClose q6).2)
          refine ⟨e16.trans ec, by simp, fun _ => ⟨fc.1, fc.2.1⟩, ?_, fun hq => ⟨by simp, fun _ hd => ?_⟩⟩
          · rcases fc.2.2.2 with h | h
            · exact .inl h
            · right; rw [h]; simp
          · have hd6 := (ec hd).1
            have hd5 := (e6 hd6).1
            have hd4 := (e5 hd5).1
            have hq3 := (sysFork_st ((sysPipe_st ((sysPipe_st hq h1).1 rfl) h2).1 rfl) h3).1 rfl
            have hq5 := sysClose_skip' (sysClose_skip' hq3 hd4) hd5
            exact ((sysProbe_st hq5 h6).2 hr hd6).ext ec hd

/-! ### queue_reset, queue_envelope, queue_result -/

theorem Inv.close {q : QSt} (h : Inv q) : Inv (sysClose q).2 := by
  have f := sysClose_fd q
  rcases h with h | h
  · exact .inl (f.2.2.1 h)
  · rcases f.2.2.2 with h' | h'
    · exact .inl h'
    · right; rw [f.1, f.2.1, h']; omega

theorem Inv.clearData {q : QSt} (h : Inv q) : Inv { (sysClose q).2 with fdData := false } := by
  have f := sysClose_fd q
  rcases h with h | h
  · exact .inl (f.2.2.1 h)
  · rcases f.2.2.2 with h' | h'
    · exact .inl h'
    · right
      show (sysClose q).2.openFds ≤ 0 + (sysClose q).2.fdHdr.toNat
      rw [f.2.1, h']
      cases hfd : q.fdData <;> simp [hfd] at h <;> omega

theorem Inv.clearHdr {q : QSt} (h : Inv q) : Inv { (sysClose q).2 with fdHdr := false } := by
  have f := sysClose_fd q
  rcases h with h | h
  · exact .inl (f.2.2.1 h)
  · rcases f.2.2.2 with h' | h'
    · exact .inl h'
    · right
      show (sysClose q).2.openFds ≤ (sysClose q).2.fdData.toNat + 0
      rw [f.1, h']
      cases hfd : q.fdHdr <;> simp [hfd] at h <;> omega

/-- the two conditional closes of `queue_reset()` -/
def closeData (q : QSt) : QSt := if q.fdData then { (sysClose q).2 with fdData := false } else q
def closeHdr (q : QSt) : QSt :=
  if q.fdHdr then { (sysClose q).2 with fdHdr := false } else { q with errno := .ebadf }

theorem queueReset_eq (q : QSt) : queueReset q = (sysWait (closeHdr (closeData q))).2 := rfl

theorem closeData_ext (q : QSt) : Ext q (closeData q) := by
  unfold closeData; split
  · exact (sysClose_ext q).trans (Ext.of_eq rfl rfl rfl)
  · exact Ext.refl q

theorem closeHdr_ext (q : QSt) : Ext q (closeHdr q) := by
  unfold closeHdr; split
  · exact (sysClose_ext q).trans (Ext.of_eq rfl rfl rfl)
  · exact Ext.of_eq rfl rfl rfl

theorem closeData_flag (q : QSt) : (closeData q).fdData = false := by
  unfold closeData; split
  · rfl
  · simpa using ‹¬ q.fdData = true›

theorem closeHdr_flags (q : QSt) : (closeHdr q).fdData = q.fdData ∧ (closeHdr q).fdHdr = false := by
  unfold closeHdr; split
  · exact ⟨(sysClose_fd q).1, rfl⟩
  · exact ⟨rfl, by simpa using ‹¬ q.fdHdr = true›⟩

theorem closeData_inv {q : QSt} (h : Inv q) : Inv (closeData q) := by
  unfold closeData; split
  · exact h.clearData
  · exact h

theorem closeHdr_inv {q : QSt} (h : Inv q) : Inv (closeHdr q) := by
  unfold closeHdr; split
  · exact h.clearHdr
  · exact h

theorem queueReset_ext (q : QSt) : Ext q (queueReset q) := by
  rw [queueReset_eq]
  exact (closeData_ext q).trans ((closeHdr_ext _).trans (sysWait_ext _))

theorem queueReset_flags (q : QSt) : (queueReset q).fdData = false ∧ (queueReset q).fdHdr = false := by
  rw [queueReset_eq]
  have f := sysWait_fd (closeHdr (closeData q))
  rw [f.1, f.2.1, (closeHdr_flags _).1, (closeHdr_flags _).2, closeData_flag]
  exact ⟨rfl, rfl⟩

theorem queueReset_inv {q : QSt} (h : Inv q) : Inv (queueReset q) := by
  rw [queueReset_eq]
  exact (closeHdr_inv (closeData_inv h)).fdEq (sysWait_fd _)

structure QEnvSpec (tr : List Sys) (q : QSt) (r : Bool × QSt × Bool) : Prop where
  ext : Ext q r.2.1
  inv : Inv q → Inv r.2.1
  flags : r.1 = true → r.2.1.fdData = false ∧ r.2.1.fdHdr = false
  st : OKAt tr q 0 → (r.1 = true → OKAt tr r.2.1 0) ∧ (r.1 = false → r.2.1.desync = false → BadAt tr r.2.1)

theorem queueEnvelope_spec (tr : List Sys) (lip mf : List Byte) (rc : List Session.Recip) (q : QSt) :
    QEnvSpec tr q (queueEnvelope lip mf rc q) := by
  unfold queueEnvelope
  have e1 := sysClose_ext q
  rcases h1 : sysClose q with ⟨b1, q1⟩
  rw [h1] at e1
  have hq1 : (sysClose q).2 = q1 := by rw [h1]
  cases b1 <;> dsimp only
  · exact ⟨e1, fun hi => hq1 ▸ hi.close, by simp, fun hq => ⟨by simp, fun _ => (sysClose_st hq h1).2 rfl⟩⟩
  · have ew := wrAll_ext wrHdr wrHdr_spec { q1 with fdData := false } (envWrites lip mf rc)
    have fw := wrAll_fd wrHdr wrHdr_spec { q1 with fdData := false } (envWrites lip mf rc)
    have sw := fun hq => wrAll_st wrHdr wrHdr_spec (tr := tr) (k := 0) { q1 with fdData := false } (envWrites lip mf rc) hq
    rcases hw : wrAll wrHdr { q1 with fdData := false } (envWrites lip mf rc) with ⟨ok, q3⟩
    rw [hw] at ew fw sw
    dsimp only at ew fw sw ⊢
    have e12 : Ext q { q1 with fdData := false } := e1.trans (Ext.of_eq rfl rfl rfl)
    have i2 : Inv q → Inv { q1 with fdData := false } := fun hi => hq1 ▸ hi.clearData
    have s2 : OKAt tr q 0 → OKAt tr { q1 with fdData := false } 0 := fun hq => (sysClose_st hq h1).1 rfl
    cases ok
    · -- an envelope write failed
      rw [if_neg (by simp)]
      have e5 := sysClose_ext q3
      rcases h5 : sysClose q3 with ⟨cok, q5⟩
      rw [h5] at e5
      have hq5 : (sysClose q3).2 = q5 := by rw [h5]
      dsimp only
      have e35 : Ext q3 { q5 with fdHdr := false, errno := q3.errno } := e5.trans (Ext.of_eq rfl rfl rfl)
      refine ⟨e12.trans (ew.trans ?_), fun hi => ?_, by simp, fun hq => ⟨by simp, fun _ hd => ?_⟩⟩
      · exact e5.trans (Ext.of_eq rfl rfl rfl)
      · have : Inv { (sysClose q3).2 with fdHdr := false } := ((i2 hi).fdEq fw).clearHdr
        rw [hq5] at this
        exact this
      · have e35 : Ext q3 { q5 with fdHdr := false, errno := if (!cok) = true ∧ false = true then q5.errno else q3.errno } :=
          e5.trans (Ext.of_eq rfl rfl rfl)
        exact (((sw (s2 hq)).2 rfl (e35 hd).1).ext e35 hd)
    · rw [if_pos rfl]
      have e5 := sysClose_ext { q3 with errno := .none }
      rcases h5 : sysClose { q3 with errno := .none } with ⟨cok, q5⟩
      rw [h5] at e5
      have hq5 : (sysClose { q3 with errno := .none }).2 = q5 := by rw [h5]
      dsimp only
      have e34 : Ext q3 { q3 with errno := .none } := Ext.of_eq rfl rfl rfl
      refine ⟨e12.trans (ew.trans (e34.trans (e5.trans (Ext.of_eq rfl rfl rfl)))), fun hi => ?_, fun _ => ⟨?_, rfl⟩,
        fun hq => ?_⟩
      · have h4 : Inv { q3 with errno := .none } := (i2 hi).fdEq fw
        have : Inv { (sysClose { q3 with errno := .none }).2 with fdHdr := false } := h4.clearHdr
        rw [hq5] at this
        exact this
      · show q5.fdData = false
        rw [← hq5, (sysClose_fd _).1]
        show q3.fdData = false
        rw [fw.1]
      · have h4 : OKAt tr { q3 with errno := .none } 0 := (sw (s2 hq)).1 rfl
        have s5 := sysClose_st h4 h5
        cases cok
        · exact ⟨by simp, fun _ hd => s5.2 rfl hd⟩
        · exact ⟨fun _ => s5.1 rfl, by simp⟩

theorem queueResult_ext (q : QSt) : Ext q (queueResult q).2 := by
  unfold queueResult; exact sysWait_ext q

theorem queueResult_fd (q : QSt) : FdEq q (queueResult q).2 := by
  unfold queueResult; exact sysWait_fd q

theorem queueResult_st {tr : List Sys} {q : QSt} {k : Nat} (h : OKAt tr q k) :
    ((queueResult q).1 = 250 → (queueResult q).2.desync = false
        ∧ ∃ pre, tr = pre ++ (queueResult q).2.trace ∧ firstFault pre (queueResult q).2.wlog.reverse 0 = none
          ∧ pre.getLast? = some (.wait (.exited 0)))
    ∧ ((queueResult q).1 ≠ 250 → (queueResult q).2.desync = false → BadAt tr (queueResult q).2) := by
  unfold queueResult
  rcases hw : sysWait q with ⟨w, q1⟩
  dsimp only
  have s := sysWait_st h hw
  exact ⟨fun hc => s.1 ((resultCode_table w).1.1 hc), fun hc => s.2 (fun hw' => hc ((resultCode_table w).1.2 hw'))⟩

/-! ### write_received -/

/-- the Received-SPF part of `write_received()` -/
def spfStage (c : Cfg) (q : QSt) : Bool × QSt :=
  if wantsSpf c then
    match spfPieces c with
    | none => (true, q)
    | some (ps, fin) =>
      match wrAll wrData q ps with
      | (true, q') => if fin then (true, q') else (false, { q' with errno := .efault })
      | (false, q') => (false, q')
  else (true, q)

theorem writeReceived_eq (c : Cfg) (q : QSt) :
    writeReceived c q
      = if (spfStage c q).1 then wrData (spfStage c q).2 (receivedLine c) else (false, (spfStage c q).2) := by
  unfold writeReceived spfStage
  rfl

/-- the header loop's checks for one line -/
def hdrChk (c : Cfg) (l : List Byte) (rds : List Rd) (a : Acc) : Option Exit × Acc :=
  if l.head? = some DOT then (none, a)
  else
    let (stop, flagr, a1) :=
      if c.check2822 % 2 = 1 ∨ c.submission then
        match checkHeaders a.hflags l with
        | (.nothing, f) => (none, true, { a with hflags := f })
        | (.known, f) => (none, false, { a with hflags := f })
        | (.dup, _) => (some 550, true, a)
        | (.eightbit, _) => (some 550, true, a)
      else (none, true, a)
    match stop with
    | some code => (some (.loopData (some code) .edone (some l) rds a1), a1)
    | none =>
      if flagr then
        if Session.prefixNoCase receivedName l then
          let a2 := { a1 with hops := a1.hops + 1 }
          if a2.hops > Gen.maxHops then (some (.loopData (some Gen.Data.loopNetmsgCode) .edone (some l) rds a2), a2)
          else (none, a2)
        else if deliveredToRcpt c l then (some (.loopData (some 554) .edone (some l) rds a1), a1)
        else (none, a1)
      else (none, a1)

theorem hdrLoop_eq (c : Cfg) (l : List Byte) (rds : List Rd) (a : Acc) :
    hdrLoop c l rds a =
      if l == [DOT] ∨ a.msgsize > c.maxbytes ∨ l.isEmpty then .done l rds a
      else
        match hdrChk c l rds a with
        | (some e, _) => e
        | (none, a1) =>
          match wrData a1.q (unDotLine l ++ [LF]) with
          | (false, q1) => .errWrite (some l) rds { a1 with q := q1 }
          | (true, q1) =>
            afterRead rds { a1 with q := q1, msgsize := a1.msgsize + (unDotLine l).length + 2 } (hdrLoop c) := by
  cases rds with
  | nil => rw [hdrLoop]; rfl
  | cons rd rs => rw [hdrLoop]; cases rd <;> rfl

theorem bodyLoop_eq (c : Cfg) (l : List Byte) (rds : List Rd) (a : Acc) :
    bodyLoop c l rds a =
      if l == [DOT] ∨ a.msgsize > c.maxbytes then .done l rds a
      else if c.check2822 % 2 = 1 ∧ !c.datatype ∧ has8bit l then .loopData (some 550) .edone (some l) rds a
      else
        match wrData a.q (unDotLine l ++ [LF]) with
        | (false, q1) => .errWrite (some l) rds { a with q := q1 }
        | (true, q1) =>
          afterRead rds { a with q := q1, msgsize := a.msgsize + (unDotLine l).length + 2 } (bodyLoop c) := by
  cases rds with
  | nil => rw [bodyLoop]; rfl
  | cons rd rs => rw [bodyLoop]; cases rd <;> rfl

def spfOK (c : Cfg) : Prop := ¬ (wantsSpf c = true ∧ ∃ ps, spfPieces c = some (ps, false))

theorem spfStage_ext (c : Cfg) (q : QSt) : Ext q (spfStage c q).2 := by
  unfold spfStage
  split
  · split
    · exact Ext.refl q
    · rename_i ps fin hsp
      have := wrAll_ext wrData wrData_spec q ps
      rcases hw : wrAll wrData q ps with ⟨b, q'⟩
      rw [hw] at this
      cases b <;> dsimp only
      · exact this
      · cases fin
        · exact this.trans (Ext.of_eq rfl rfl rfl)
        · exact this
  · exact Ext.refl q

theorem spfStage_fd (c : Cfg) (q : QSt) : FdEq q (spfStage c q).2 := by
  unfold spfStage
  split
  · split
    · exact FdEq.refl q
    · rename_i ps fin hsp
      have := wrAll_fd wrData wrData_spec q ps
      rcases hw : wrAll wrData q ps with ⟨b, q'⟩
      rw [hw] at this
      cases b <;> dsimp only
      · exact this
      · cases fin
        · exact this
        · exact this
  · exact FdEq.refl q

theorem spfStage_ok (c : Cfg) (q : QSt) (h : (spfStage c q).1 = true) : spfOK c := by
  unfold spfStage at h
  intro ⟨hw, ps, hps⟩
  rw [if_pos hw, hps] at h
  dsimp only at h
  rcases hw : wrAll wrData q ps with ⟨b, q'⟩
  rw [hw] at h
  cases b <;> simp at h

theorem spfStage_st (c : Cfg) (q : QSt) {tr : List Sys} {k : Nat} (ho : spfOK c) (hq : OKAt tr q k) :
    ((spfStage c q).1 = true → OKAt tr (spfStage c q).2 k)
    ∧ ((spfStage c q).1 = false → (spfStage c q).2.desync = false → BadAt tr (spfStage c q).2) := by
  unfold spfStage
  split
  · rename_i hws
    split
    · exact ⟨fun _ => hq, by simp⟩
    · rename_i ps fin hsp
      have := wrAll_st wrData wrData_spec q ps hq
      rcases hw : wrAll wrData q ps with ⟨b, q'⟩
      rw [hw] at this
      cases b <;> dsimp only
      · exact this
      · cases fin
        · exact absurd ⟨hws, ps, hsp⟩ ho
        · exact this
  · exact ⟨fun _ => hq, by simp⟩

theorem writeReceived_ext (c : Cfg) (q : QSt) : Ext q (writeReceived c q).2 := by
  rw [writeReceived_eq]
  split
  · exact (spfStage_ext c q).trans (wrData_spec _ _).ext
  · exact spfStage_ext c q

theorem writeReceived_fd (c : Cfg) (q : QSt) : FdEq q (writeReceived c q).2 := by
  rw [writeReceived_eq]
  split
  · exact (spfStage_fd c q).trans (wrData_spec _ _).1
  · exact spfStage_fd c q

theorem writeReceived_ok (c : Cfg) (q : QSt) (h : (writeReceived c q).1 = true) : spfOK c := by
  rw [writeReceived_eq] at h
  split at h
  · exact spfStage_ok c q ‹_›
  · simp at h

theorem writeReceived_st (c : Cfg) (q : QSt) {tr : List Sys} {k : Nat} (ho : spfOK c) (hq : OKAt tr q k) :
    ((writeReceived c q).1 = true → OKAt tr (writeReceived c q).2 k)
    ∧ ((writeReceived c q).1 = false → (writeReceived c q).2.desync = false → BadAt tr (writeReceived c q).2) := by
  rw [writeReceived_eq]
  have s := spfStage_st c q ho hq
  split
  · exact (wrData_spec _ _).st (s.1 ‹_›)
  · exact ⟨by simp, fun _ => s.2 ((Bool.not_eq_true _).mp ‹_›)⟩

/-! ### the header checks as a function of the counters alone -/

def hdrChkM (c : Cfg) (l : List Byte) (hops hflags : Nat) : Option Nat × Nat × Nat :=
  if l.head? = some DOT then (none, hops, hflags)
  else
    let (stop, flagr, f1) :=
      if c.check2822 % 2 = 1 ∨ c.submission then
        match checkHeaders hflags l with
        | (.nothing, f) => ((none : Option Nat), true, f)
        | (.known, f) => (none, false, f)
        | (.dup, _) => (some 550, true, hflags)
        | (.eightbit, _) => (some 550, true, hflags)
      else (none, true, hflags)
    match stop with
    | some code => (some code, hops, f1)
    | none =>
      if flagr then
        if Session.prefixNoCase receivedName l then
          if hops + 1 > Gen.maxHops then (some Gen.Data.loopNetmsgCode, hops + 1, f1)
          else (none, hops + 1, f1)
        else if deliveredToRcpt c l then (some 554, hops, f1)
        else (none, hops, f1)
      else (none, hops, f1)

theorem hdrChk_eq (c : Cfg) (l : List Byte) (rds : List Rd) (a : Acc) :
    hdrChk c l rds a =
      ((hdrChkM c l a.hops a.hflags).1.map fun cd =>
          .loopData (some cd) .edone (some l) rds
            { a with hops := (hdrChkM c l a.hops a.hflags).2.1, hflags := (hdrChkM c l a.hops a.hflags).2.2 },
        { a with hops := (hdrChkM c l a.hops a.hflags).2.1, hflags := (hdrChkM c l a.hops a.hflags).2.2 }) := by
  unfold hdrChk hdrChkM
  by_cases h1 : l.head? = some DOT
  · simp [h1]
  · by_cases h2 : (c.check2822 % 2 = 1 ∨ c.submission = true)
    · rcases h3 : checkHeaders a.hflags l with ⟨v, f⟩
      cases v <;> simp only [if_neg h1, if_pos h2] <;> (repeat' split) <;> simp_all
    · simp only [if_neg h1, if_neg h2]; (repeat' split) <;> simp_all

theorem hdrChkM_code (c : Cfg) (l : List Byte) (hops hflags code : Nat)
    (h : (hdrChkM c l hops hflags).1 = some code) : 400 ≤ code ∧ code < 600 := by
  unfold hdrChkM at h
  by_cases h1 : l.head? = some DOT
  · simp [h1] at h
  · by_cases h2 : (c.check2822 % 2 = 1 ∨ c.submission = true)
    · rcases h3 : checkHeaders hflags l with ⟨v, f⟩
      cases v <;> simp only [if_neg h1, if_pos h2, h3] at h <;> (repeat' split at h) <;>
        simp_all [Gen.Data.loopNetmsgCode] <;> omega
    · simp only [if_neg h1, if_neg h2] at h; (repeat' split at h) <;>
        simp_all [Gen.Data.loopNetmsgCode] <;> omega

/-! ### the loops: descriptor bookkeeping and reply codes of the exits -/

def _root_.QsmtpModel.Data.Exit.acc : Exit → Acc
  | .done _ _ a => a
  | .loopData _ _ _ _ a => a
  | .errWrite _ _ a => a
  | .died a => a

/-- `loop_data` is entered with a 4xx/5xx code, or with a return value smtploop answers with one -/
def GoodLD (code : Option Nat) (rc : Session.Rc) : Prop :=
  match code with
  | some k => 400 ≤ k ∧ k < 600
  | none => ∃ k, Session.errReply rc = some k ∧ 400 ≤ k ∧ k < 600

def GoodExit : Exit → Prop
  | .loopData code rc _ _ _ => GoodLD code rc
  | _ => True

def ExitP (q : QSt) (e : Exit) : Prop := FdEq q e.acc.q ∧ GoodExit e

theorem readErrExit_P {q : QSt} (e : Netio.Errno) (rds : List Rd) (a : Acc) (hf : FdEq q a.q) :
    ExitP q (readErrExit e rds a) := by
  cases e
  · exact ⟨hf, by simp [readErrExit, GoodExit, GoodLD]⟩
  · exact ⟨hf, by simp [readErrExit, GoodExit, GoodLD, Session.errReply]⟩
  · exact ⟨hf, by simp [readErrExit, GoodExit, GoodLD, Session.errReply]⟩

theorem hdrLoop_exitP (c : Cfg) :
    ∀ (rds : List Rd) (l : List Byte) (a : Acc) (q : QSt), FdEq q a.q → ExitP q (hdrLoop c l rds a)
  | rds, l, a, q, hf => by
    rw [hdrLoop_eq]
    split
    · exact ⟨hf, trivial⟩
    · rw [hdrChk_eq]
      cases hm : (hdrChkM c l a.hops a.hflags).1 with
      | some cd => exact ⟨hf, hdrChkM_code _ _ _ _ _ hm⟩
      | none =>
        dsimp only [Option.map]
        have hw := (wrData_spec a.q (unDotLine l ++ [LF])).1
        rcases hwd : wrData a.q (unDotLine l ++ [LF]) with ⟨b, q1⟩
        rw [hwd] at hw
        cases b
        · exact ⟨hf.trans hw, trivial⟩
        · dsimp only
          cases rds with
          | nil => exact ⟨hf.trans hw, trivial⟩
          | cons rd rs =>
            cases rd with
            | line l' => exact hdrLoop_exitP c rs l' _ q (hf.trans hw)
            | err e => exact readErrExit_P e rs _ (hf.trans hw)
            | die e => exact ⟨hf.trans hw, trivial⟩
termination_by rds => rds.length

theorem bodyLoop_exitP (c : Cfg) :
    ∀ (rds : List Rd) (l : List Byte) (a : Acc) (q : QSt), FdEq q a.q → ExitP q (bodyLoop c l rds a)
  | rds, l, a, q, hf => by
    rw [bodyLoop_eq]
    split
    · exact ⟨hf, trivial⟩
    · split
      · exact ⟨hf, by simp [GoodExit, GoodLD]⟩
      · have hw := (wrData_spec a.q (unDotLine l ++ [LF])).1
        rcases hwd : wrData a.q (unDotLine l ++ [LF]) with ⟨b, q1⟩
        rw [hwd] at hw
        cases b
        · exact ⟨hf.trans hw, trivial⟩
        · dsimp only
          cases rds with
          | nil => exact ⟨hf.trans hw, trivial⟩
          | cons rd rs =>
            cases rd with
            | line l' => exact bodyLoop_exitP c rs l' _ q (hf.trans hw)
            | err e => exact readErrExit_P e rs _ (hf.trans hw)
            | die e => exact ⟨hf.trans hw, trivial⟩
termination_by rds => rds.length

/-! ### results -/

/-- the last reply the client sees is a 4xx or 5xx one -/
def ReplyOK (replies : List Nat) (rc : Session.Rc) : Prop :=
  ∃ code, (replies ++ (Session.errReply rc).toList).getLast? = some code ∧ 400 ≤ code ∧ code < 600

/-- what holds of every result behind queue_init() -/
def ResP (r : Res) : Prop :=
  Inv r.q ∧ (r.died = true
    ∨ (r.freed = true ∧ r.q.fdData = false ∧ r.q.fdHdr = false ∧ (r.accepted = true ∨ ReplyOK r.replies r.rc)))

theorem loopData_resP {code : Option Nat} {rc : Session.Rc} (cur : Option (List Byte)) (rds : List Rd) {a : Acc}
    (hi : Inv a.q) (hg : GoodLD code rc) : ResP (loopData code rc cur rds a) := by
  unfold loopData
  dsimp only
  have hfl := queueReset_flags a.q
  split
  · exact ⟨queueReset_inv hi, .inl rfl⟩
  · split
    · exact ⟨queueReset_inv hi, .inr ⟨rfl, hfl.1, hfl.2, .inr ⟨_, by simp [Session.errReply], hg⟩⟩⟩
    · obtain ⟨k, hk, hk'⟩ := hg
      exact ⟨queueReset_inv hi, .inr ⟨rfl, hfl.1, hfl.2, .inr ⟨k, by simp [hk], hk'⟩⟩⟩

theorem errWriteReply_ok (e : Err) : ReplyOK (errWriteReply e).1 (errWriteReply e).2 := by
  cases e <;> simp [errWriteReply, ReplyOK, Session.errReply]

theorem errWrite_resP (cur : Option (List Byte)) (rds : List Rd) {a : Acc} (hi : Inv a.q) :
    ResP (errWrite cur rds a) := by
  unfold errWrite
  dsimp only
  have hfl := queueReset_flags a.q
  split
  · exact ⟨queueReset_inv hi, .inl rfl⟩
  · exact ⟨queueReset_inv hi, .inr ⟨rfl, hfl.1, hfl.2, .inr (errWriteReply_ok _)⟩⟩

theorem errWrite_q (cur : Option (List Byte)) (rds : List Rd) (a : Acc) :
    (errWrite cur rds a).q = queueReset a.q ∧ (errWrite cur rds a).accepted = false := by
  unfold errWrite; dsimp only; split <;> exact ⟨rfl, rfl⟩

theorem loopData_q (code : Option Nat) (rc : Session.Rc) (cur : Option (List Byte)) (rds : List Rd) (a : Acc) :
    (loopData code rc cur rds a).q = queueReset a.q ∧ (loopData code rc cur rds a).accepted = false := by
  unfold loopData; dsimp only; split
  · exact ⟨rfl, rfl⟩
  · split <;> exact ⟨rfl, rfl⟩

/-! ### everything behind the header loop, in three parts -/

def ahStep1 (c : Cfg) (l : List Byte) (rds : List Rd) (a : Acc) : Sum Res Acc :=
  if c.submission then
    match wrData a.q (submissionFields c a.hflags) with
    | (false, q1) => .inl (errWrite (some l) rds { a with q := q1 })
    | (true, q1) => .inr { a with q := q1 }
  else if c.check2822 % 2 = 1 then
    if !a.hflags.testBit 0 then .inl (loopData (some 550) .edone (some l) rds a)
    else if !a.hflags.testBit 1 then .inl (loopData (some 550) .edone (some l) rds a)
    else .inr a
  else .inr a

def ahStep2 (c : Cfg) (l : List Byte) (rds : List Rd) (a1 : Acc) : Exit :=
  if l.isEmpty then
    match wrData a1.q [LF] with
    | (false, q1) => .errWrite (some l) rds { a1 with q := q1 }
    | (true, q1) => afterRead rds { a1 with q := q1, msgsize := a1.msgsize + 2 } (bodyLoop c)
  else .done l rds a1

def ahFinish (c : Cfg) : Exit → Res
  | .died a2 => { q := a2.q, died := true, logsize := a2.msgsize }
  | .loopData code rc cur rds2 a2 => loopData code rc cur rds2 a2
  | .errWrite cur rds2 a2 => errWrite cur rds2 a2
  | .done l2 rds2 a2 =>
    if a2.msgsize > c.maxbytes then loopData none .emsgsize (some l2) rds2 a2
    else
      match queueEnvelope c.liphost c.mailfrom c.rcpts a2.q with
      | (true, q3, _) =>
        let (code, q4) := queueResult q3
        { replies := [code], rc := if code = 250 then .ok else .edone, q := q4, rest := rds2, freed := true,
          accepted := code = 250, logsize := a2.msgsize }
      | (false, q3, _) => errWrite (some l2) rds2 { a2 with q := q3 }

theorem afterHeader_eq (c : Cfg) (l : List Byte) (rds : List Rd) (a : Acc) :
    afterHeader c l rds a =
      match ahStep1 c l rds a with
      | .inl r => r
      | .inr a1 => ahFinish c (ahStep2 c l rds a1) := by
  rfl

theorem ahStep1_P (c : Cfg) (l : List Byte) (rds : List Rd) {a : Acc} (hi : Inv a.q) :
    (∀ r, ahStep1 c l rds a = .inl r → ResP r) ∧ (∀ a1, ahStep1 c l rds a = .inr a1 → Inv a1.q) := by
  unfold ahStep1
  split
  · have hw := (wrData_spec a.q (submissionFields c a.hflags)).1
    rcases hwd : wrData a.q (submissionFields c a.hflags) with ⟨b, q1⟩
    rw [hwd] at hw
    cases b <;> dsimp only
    · refine ⟨fun r hr => ?_, fun a1 h => (nomatch h)⟩
      cases hr
      exact errWrite_resP _ _ (hi.fdEq hw)
    · refine ⟨fun r h => (nomatch h), fun a1 h => ?_⟩
      cases h
      exact hi.fdEq hw
  · have hg : GoodLD (some 550) .edone := by simp [GoodLD]
    split
    · split
      · exact ⟨fun r hr => by cases hr; exact loopData_resP _ _ hi hg, fun a1 h => (nomatch h)⟩
      · split
        · exact ⟨fun r hr => by cases hr; exact loopData_resP _ _ hi hg, fun a1 h => (nomatch h)⟩
        · exact ⟨fun r h => (nomatch h), fun a1 h => by cases h; exact hi⟩
    · exact ⟨fun r h => (nomatch h), fun a1 h => by cases h; exact hi⟩

theorem afterRead_P {q : QSt} {k : List Byte → List Rd → Acc → Exit}
    (hk : ∀ l rs a, FdEq q a.q → ExitP q (k l rs a)) (rds : List Rd) {a : Acc} (hf : FdEq q a.q) :
    ExitP q (afterRead rds a k) := by
  unfold afterRead
  split
  · exact ⟨hf, trivial⟩
  · exact hk _ _ _ hf
  · exact readErrExit_P _ _ _ hf
  · exact ⟨hf, trivial⟩

theorem ahStep2_P (c : Cfg) (l : List Byte) (rds : List Rd) (a1 : Acc) : ExitP a1.q (ahStep2 c l rds a1) := by
  unfold ahStep2
  split
  · have hw := (wrData_spec a1.q [LF]).1
    rcases hwd : wrData a1.q [LF] with ⟨b, q1⟩
    rw [hwd] at hw
    cases b <;> dsimp only
    · exact ⟨hw, trivial⟩
    · exact afterRead_P (fun l rs a hf => bodyLoop_exitP c rs l a _ hf) rds hw
  · exact ⟨FdEq.refl _, trivial⟩

theorem queueResult_code (q : QSt) :
    (queueResult q).1 = 250 ∨ (queueResult q).1 = 554 ∨ (queueResult q).1 = 451 := by
  unfold queueResult
  rcases hw : sysWait q with ⟨w, q1⟩
  exact (resultCode_table w).2.2

theorem ahFinish_P (c : Cfg) (e : Exit) (hi : Inv e.acc.q) (hg : GoodExit e) : ResP (ahFinish c e) := by
  cases e with
  | died a2 => exact ⟨hi, .inl rfl⟩
  | loopData code rc cur rds2 a2 => exact loopData_resP _ _ hi hg
  | errWrite cur rds2 a2 => exact errWrite_resP _ _ hi
  | done l2 rds2 a2 =>
    simp only [ahFinish]
    split
    · exact loopData_resP _ _ hi (by simp [GoodLD, Session.errReply])
    · have sp := queueEnvelope_spec [] c.liphost c.mailfrom c.rcpts a2.q
      rcases he : queueEnvelope c.liphost c.mailfrom c.rcpts a2.q with ⟨b, q3, fr⟩
      rw [he] at sp
      cases b <;> dsimp only
      · exact errWrite_resP _ _ (sp.inv hi)
      · have hfd := queueResult_fd q3
        have hfl := sp.flags rfl
        refine ⟨(sp.inv hi).fdEq hfd, .inr ⟨rfl, ?_, ?_, ?_⟩⟩
        · show (queueResult q3).2.fdData = false
          rw [hfd.1]; exact hfl.1
        · show (queueResult q3).2.fdHdr = false
          rw [hfd.2.1]; exact hfl.2
        · show decide ((queueResult q3).1 = 250) = true ∨ ReplyOK [(queueResult q3).1] _
          rcases queueResult_code q3 with h | h | h
          · left; simp [h]
          · right; simp [h, ReplyOK, Session.errReply]
          · right; simp [h, ReplyOK, Session.errReply]

theorem afterHeader_resP (c : Cfg) (l : List Byte) (rds : List Rd) {a : Acc} (hi : Inv a.q) :
    ResP (afterHeader c l rds a) := by
  rw [afterHeader_eq]
  have h1 := ahStep1_P c l rds hi
  cases hs : ahStep1 c l rds a with
  | inl r => exact h1.1 r hs
  | inr a1 =>
    dsimp only
    have hi1 := h1.2 a1 hs
    have h2 := ahStep2_P c l rds a1
    exact ahFinish_P c _ (hi1.fdEq h2.1) h2.2

theorem getLast?_cons_of_some {x c : Nat} {xs : List Nat} (h : xs.getLast? = some c) :
    (x :: xs).getLast? = some c := by
  cases xs with
  | nil => simp at h
  | cons y ys => simpa [List.getLast?_cons_cons] using h

theorem ReplyOK.cons {reps : List Nat} {rc : Session.Rc} (h : ReplyOK reps rc) (x : Nat) : ReplyOK (x :: reps) rc := by
  obtain ⟨code, h1, h2⟩ := h
  exact ⟨code, by rw [List.cons_append]; exact getLast?_cons_of_some h1, h2⟩

/-- the facts about every outcome of smtp_data() -/
theorem smtpData_P (c : Cfg) (rds : List Rd) (tr : List Sys) :
    Inv (smtpData c rds tr).q
    ∧ ((smtpData c rds tr).died = true
      ∨ ((c.goodrcpt ≠ 0 → (smtpData c rds tr).freed = true ∧ (smtpData c rds tr).q.fdData = false
            ∧ (smtpData c rds tr).q.fdHdr = false)
          ∧ ((smtpData c rds tr).accepted = true ∨ ReplyOK (smtpData c rds tr).replies (smtpData c rds tr).rc))) := by
  unfold smtpData
  dsimp only
  split
  · rename_i hg
    exact ⟨.inr (by simp), .inr ⟨fun h => absurd hg h, .inr (by simp [ReplyOK, Session.errReply])⟩⟩
  · have sp := queueInit_spec [] { trace := tr }
    rcases hq : queueInit { trace := tr } with ⟨b, q1⟩
    rw [hq] at sp
    cases b <;> dsimp only
    · have hfl := sp.flagsF rfl
      refine ⟨?_, .inr ⟨fun _ => ⟨rfl, hfl.1, hfl.2⟩, .inr (by simp [ReplyOK, Session.errReply, Gen.Data.noqueueCode])⟩⟩
      rcases sp.fds with h | h
      · exact .inl h
      · right; simp at h; simp [h]
    · have hfl := sp.flagsT rfl
      have hi1 : Inv q1 := by
        rcases sp.fds with h | h
        · exact .inl h
        · right; simp at h hfl; simp [h, hfl]
      suffices hr : ∀ r : Res, ResP r →
          Inv ({ r with replies := 354 :: r.replies } : Res).q
          ∧ (({ r with replies := 354 :: r.replies } : Res).died = true
            ∨ ((c.goodrcpt ≠ 0 → ({ r with replies := 354 :: r.replies } : Res).freed = true
                  ∧ ({ r with replies := 354 :: r.replies } : Res).q.fdData = false
                  ∧ ({ r with replies := 354 :: r.replies } : Res).q.fdHdr = false)
              ∧ (({ r with replies := 354 :: r.replies } : Res).accepted = true
                  ∨ ReplyOK ({ r with replies := 354 :: r.replies } : Res).replies
                      ({ r with replies := 354 :: r.replies } : Res).rc))) by
        apply hr
        have hw := writeReceived_fd c q1
        rcases hwr : writeReceived c q1 with ⟨b2, q2⟩
        rw [hwr] at hw
        cases b2 <;> dsimp only
        · exact errWrite_resP _ _ (hi1.fdEq hw)
        · have he := afterRead_P (q := q2) (fun l rs a hf => hdrLoop_exitP c rs l a _ hf) rds (a := { q := q2 }) (FdEq.refl _)
          cases hx : afterRead rds { q := q2 } (hdrLoop c) with
          | died a => rw [hx] at he; exact ⟨(hi1.fdEq hw).fdEq he.1, .inl rfl⟩
          | loopData code rc cur rds2 a => rw [hx] at he; exact loopData_resP _ _ ((hi1.fdEq hw).fdEq he.1) he.2
          | errWrite cur rds2 a => rw [hx] at he; exact errWrite_resP _ _ ((hi1.fdEq hw).fdEq he.1)
          | done l rds2 a => rw [hx] at he; exact afterHeader_resP c l rds2 ((hi1.fdEq hw).fdEq he.1)
      intro r hr
      refine ⟨hr.1, ?_⟩
      rcases hr.2 with h | ⟨h1, h2, h3, h4⟩
      · exact .inl h
      · refine .inr ⟨fun _ => ⟨h1, h2, h3⟩, ?_⟩
        rcases h4 with h | h
        · exact .inl h
        · exact .inr (h.cons 354)

/-! ### the theorems about every outcome -/

theorem not_accepted_reply (c : Cfg) (rds : List Rd) (tr : List Sys)
    (hd : (smtpData c rds tr).died = false) (hn : (smtpData c rds tr).accepted = false) :
    ∃ code, finalReply (smtpData c rds tr) = some code ∧ 400 ≤ code ∧ code < 600 := by
  rcases (smtpData_P c rds tr).2 with h | ⟨_, h | h⟩
  · rw [hd] at h; cases h
  · rw [hn] at h; cases h
  · exact h

theorem tx_discarded (c : Cfg) (rds : List Rd) (tr : List Sys) (s : Session.Sess)
    (hg : c.goodrcpt ≠ 0) (hd : (smtpData c rds tr).died = false) :
    (smtpData c rds tr).freed = true
      ∧ (smtpData c rds tr).q.fdData = false ∧ (smtpData c rds tr).q.fdHdr = false
      ∧ (funcRes (smtpData c rds tr) s).s.mailfrom = [] ∧ (funcRes (smtpData c rds tr) s).s.rcpts = []
      ∧ (funcRes (smtpData c rds tr) s).s.goodrcpt = 0 ∧ (funcRes (smtpData c rds tr) s).s.rcptcount = 0 := by
  rcases (smtpData_P c rds tr).2 with h | ⟨h, _⟩
  · rw [hd] at h; cases h
  · obtain ⟨h1, h2, h3⟩ := h hg
    refine ⟨h1, h2, h3, ?_⟩
    simp [funcRes, hd, h1, Session.freedata]

theorem no_fd_left (c : Cfg) (rds : List Rd) (tr : List Sys)
    (hs : (smtpData c rds tr).q.desync = false) (hd : (smtpData c rds tr).died = false) :
    (smtpData c rds tr).q.openFds = 0 := by
  by_cases hg : c.goodrcpt = 0
  · unfold smtpData; simp [hg]
  · have hp := smtpData_P c rds tr
    rcases hp.2 with h | ⟨h, _⟩
    · rw [hd] at h; cases h
    · obtain ⟨_, h2, h3⟩ := h hg
      rcases hp.1 with hi | hi
      · rw [hs] at hi; cases hi
      · rw [h2, h3] at hi; simpa using hi

/-! ### two oracles side by side -/

/-- acknowledged, and the oracle prefix consumed shows no fault -/
def AckOK (tr : List Sys) (r : Res) : Prop :=
  r.accepted = true ∧ r.q.desync = false
    ∧ (∃ pre, tr = pre ++ r.q.trace ∧ firstFault pre r.q.wlog.reverse 0 = none
        ∧ pre.getLast? = some (.wait (.exited 0)))
    ∧ r.replies = [250] ∧ r.rc = .ok

/-- acknowledged without fault, or not acknowledged and (unless out of step) a fault in the oracle -/
def Tgt (tr : List Sys) (r : Res) : Prop :=
  AckOK tr r ∨ (r.accepted = false ∧ (r.q.desync = false → BadAt tr r.q))

theorem errWrite_tgt {tr : List Sys} (cur : Option (List Byte)) (rds : List Rd) {a : Acc}
    (h : a.q.desync = false → BadAt tr a.q) : Tgt tr (errWrite cur rds a) := by
  refine .inr ⟨(errWrite_q cur rds a).2, fun hd => ?_⟩
  rw [(errWrite_q cur rds a).1] at hd ⊢
  exact (h (queueReset_ext a.q hd).1).ext (queueReset_ext a.q) hd

/-- `f` run on another queue state: a `.done` exit is reproduced with the same counters, or a write
failed (and then the oracle shows a fault) -/
def RelDone (tr : List Sys) (f : Acc → Exit) : Prop :=
  ∀ (a0 : Acc) (q : QSt) (l' : List Byte) (rds' : List Rd) (a0' : Acc),
    f a0 = .done l' rds' a0' → OKAt tr q 0 →
      (∃ q', f { a0 with q := q } = .done l' rds' { a0' with q := q' } ∧ OKAt tr q' 0)
      ∨ (∃ cur rds2 a', f { a0 with q := q } = .errWrite cur rds2 a' ∧ (a'.q.desync = false → BadAt tr a'.q))

theorem readErrExit_ne_done (e : Netio.Errno) (rds : List Rd) (a : Acc) (l' : List Byte) (rds' : List Rd) (a' : Acc) :
    readErrExit e rds a ≠ .done l' rds' a' := by
  cases e <;> simp [readErrExit]

theorem hdrLoop_rel (c : Cfg) (tr : List Sys) : ∀ (rds : List Rd) (l : List Byte), RelDone tr (hdrLoop c l rds)
  | rds, l, a0, q, l', rds', a0', h, hq => by
    rw [hdrLoop_eq] at h ⊢
    dsimp only at h ⊢
    split at h
    · rename_i hc
      rw [if_pos hc]
      cases h
      exact .inl ⟨q, rfl, hq⟩
    · rename_i hc
      rw [if_neg hc]
      rw [hdrChk_eq] at h ⊢
      dsimp only at h ⊢
      cases hm : (hdrChkM c l a0.hops a0.hflags).1 with
      | some cd => rw [hm] at h; simp only [Option.map_some] at h; cases h
      | none =>
        rw [hm] at h
        simp only [Option.map_none] at h ⊢
        rcases hw0 : wrData a0.q (unDotLine l ++ [LF]) with ⟨b0, q10⟩
        rw [hw0] at h
        cases b0
        · cases h
        · dsimp only at h
          have st := (wrData_spec q (unDotLine l ++ [LF])).st hq
          rcases hw : wrData q (unDotLine l ++ [LF]) with ⟨b, q1⟩
          rw [hw] at st
          cases b
          · exact .inr ⟨_, _, _, rfl, st.2 rfl⟩
          · dsimp only
            cases rds with
            | nil => simp [afterRead] at h
            | cons rd rs =>
              cases rd with
              | line l2 => exact hdrLoop_rel c tr rs l2 _ q1 _ _ _ h (st.1 rfl)
              | err e => exact absurd h (readErrExit_ne_done _ _ _ _ _ _)
              | die e => simp [afterRead] at h
termination_by rds => rds.length

theorem bodyLoop_rel (c : Cfg) (tr : List Sys) : ∀ (rds : List Rd) (l : List Byte), RelDone tr (bodyLoop c l rds)
  | rds, l, a0, q, l', rds', a0', h, hq => by
    rw [bodyLoop_eq] at h ⊢
    dsimp only at h ⊢
    split at h
    · rename_i hc
      rw [if_pos hc]
      cases h
      exact .inl ⟨q, rfl, hq⟩
    · rename_i hc
      rw [if_neg hc]
      split at h
      · cases h
      · rename_i hc2
        rw [if_neg hc2]
        rcases hw0 : wrData a0.q (unDotLine l ++ [LF]) with ⟨b0, q10⟩
        rw [hw0] at h
        cases b0
        · cases h
        · dsimp only at h
          have st := (wrData_spec q (unDotLine l ++ [LF])).st hq
          rcases hw : wrData q (unDotLine l ++ [LF]) with ⟨b, q1⟩
          rw [hw] at st
          cases b
          · exact .inr ⟨_, _, _, rfl, st.2 rfl⟩
          · dsimp only
            cases rds with
            | nil => simp [afterRead] at h
            | cons rd rs =>
              cases rd with
              | line l2 => exact bodyLoop_rel c tr rs l2 _ q1 _ _ _ h (st.1 rfl)
              | err e => exact absurd h (readErrExit_ne_done _ _ _ _ _ _)
              | die e => simp [afterRead] at h
termination_by rds => rds.length

theorem afterRead_rel {tr : List Sys} {k : List Byte → List Rd → Acc → Exit}
    (hk : ∀ l rs, RelDone tr (k l rs)) (rds : List Rd) : RelDone tr (fun a => afterRead rds a k) := by
  intro a0 q l' rds' a0' h hq
  dsimp only at h ⊢
  cases rds with
  | nil => simp [afterRead] at h
  | cons rd rs =>
    cases rd with
    | line l2 => exact hk l2 rs _ q _ _ _ h hq
    | err e => exact absurd h (readErrExit_ne_done _ _ _ _ _ _)
    | die e => simp [afterRead] at h

theorem ahStep1_inl_acc (c : Cfg) (l : List Byte) (rds : List Rd) (a : Acc) (r : Res)
    (h : ahStep1 c l rds a = .inl r) : r.accepted = false := by
  unfold ahStep1 at h
  split at h
  · rcases hw : wrData a.q (submissionFields c a.hflags) with ⟨b, q1⟩
    rw [hw] at h
    cases b <;> dsimp only at h
    · cases h; exact (errWrite_q _ _ _).2
    · cases h
  · split at h
    · split at h
      · cases h; exact (loopData_q _ _ _ _ _).2
      · split at h
        · cases h; exact (loopData_q _ _ _ _ _).2
        · cases h
    · cases h

theorem ahStep1_rel (c : Cfg) (l : List Byte) (rds : List Rd) {tr : List Sys} (a0 : Acc) (q : QSt) (a0' : Acc)
    (h : ahStep1 c l rds a0 = .inr a0') (hq : OKAt tr q 0) :
    (∃ q', ahStep1 c l rds { a0 with q := q } = .inr { a0' with q := q' } ∧ OKAt tr q' 0)
    ∨ (∃ r, ahStep1 c l rds { a0 with q := q } = .inl r ∧ Tgt tr r) := by
  unfold ahStep1 at h ⊢
  dsimp only at h ⊢
  split at h
  · rename_i hc
    rw [if_pos hc]
    rcases hw0 : wrData a0.q (submissionFields c a0.hflags) with ⟨b0, q10⟩
    rw [hw0] at h
    cases b0 <;> dsimp only at h
    · cases h
    · cases h
      have st := (wrData_spec q (submissionFields c a0.hflags)).st hq
      rcases hw : wrData q (submissionFields c a0.hflags) with ⟨b, q1⟩
      rw [hw] at st
      cases b <;> dsimp only
      · exact .inr ⟨_, rfl, errWrite_tgt _ _ (st.2 rfl)⟩
      · exact .inl ⟨q1, rfl, st.1 rfl⟩
  · rename_i hc
    rw [if_neg hc]
    split at h
    · rename_i hc2
      rw [if_pos hc2]
      split at h
      · cases h
      · rename_i hc3
        rw [if_neg hc3]
        split at h
        · cases h
        · rename_i hc4
          rw [if_neg hc4]
          cases h
          exact .inl ⟨q, rfl, hq⟩
    · rename_i hc2
      rw [if_neg hc2]
      cases h
      exact .inl ⟨q, rfl, hq⟩

theorem ahStep2_rel (c : Cfg) (l : List Byte) (rds : List Rd) (tr : List Sys) : RelDone tr (ahStep2 c l rds) := by
  intro a0 q l' rds' a0' h hq
  unfold ahStep2 at h ⊢
  dsimp only at h ⊢
  split at h
  · rename_i hc
    rw [if_pos hc]
    rcases hw0 : wrData a0.q [LF] with ⟨b0, q10⟩
    rw [hw0] at h
    cases b0 <;> dsimp only at h
    · cases h
    · have st := (wrData_spec q [LF]).st hq
      rcases hw : wrData q [LF] with ⟨b, q1⟩
      rw [hw] at st
      cases b <;> dsimp only
      · exact .inr ⟨_, _, _, rfl, st.2 rfl⟩
      · exact afterRead_rel (fun l rs => bodyLoop_rel c tr rs l) rds _ q1 _ _ _ h (st.1 rfl)
  · rename_i hc
    rw [if_neg hc]
    cases h
    exact .inl ⟨q, rfl, hq⟩

theorem ahFinish_acc_done (c : Cfg) (e : Exit) (h : (ahFinish c e).accepted = true) :
    ∃ l2 rds2 a2, e = .done l2 rds2 a2 := by
  cases e with
  | died a2 => simp [ahFinish] at h
  | loopData code rc cur rds2 a2 => simp only [ahFinish] at h; rw [(loopData_q _ _ _ _ _).2] at h; cases h
  | errWrite cur rds2 a2 => simp only [ahFinish] at h; rw [(errWrite_q _ _ _).2] at h; cases h
  | done l2 rds2 a2 => exact ⟨_, _, _, rfl⟩

theorem ahFinish_rel (c : Cfg) {tr : List Sys} (l2 : List Byte) (rds2 : List Rd) (a0 : Acc) (q : QSt)
    (h : (ahFinish c (.done l2 rds2 a0)).accepted = true) (hq : OKAt tr q 0) :
    Tgt tr (ahFinish c (.done l2 rds2 { a0 with q := q })) := by
  simp only [ahFinish] at h ⊢
  split at h
  · rw [(loopData_q _ _ _ _ _).2] at h; cases h
  · rename_i hc
    rw [if_neg hc]
    have sp := queueEnvelope_spec tr c.liphost c.mailfrom c.rcpts q
    rcases he : queueEnvelope c.liphost c.mailfrom c.rcpts q with ⟨b, q3, fr⟩
    rw [he] at sp
    have st := sp.st hq
    cases b <;> dsimp only
    · exact errWrite_tgt _ _ (st.2 rfl)
    · have hq3 : OKAt tr q3 0 := st.1 rfl
      have sr := queueResult_st hq3
      by_cases hcode : (queueResult q3).1 = 250
      · obtain ⟨hd, hpre⟩ := sr.1 hcode
        exact .inl ⟨by simp [hcode], hd, hpre, by simp [hcode], by simp [hcode]⟩
      · exact .inr ⟨by simp [hcode], sr.2 hcode⟩

theorem afterHeader_rel (c : Cfg) {tr : List Sys} (l : List Byte) (rds : List Rd) (a0 : Acc) (q : QSt)
    (h : (afterHeader c l rds a0).accepted = true) (hq : OKAt tr q 0) :
    Tgt tr (afterHeader c l rds { a0 with q := q }) := by
  rw [afterHeader_eq] at h ⊢
  cases hs : ahStep1 c l rds a0 with
  | inl r => rw [hs] at h; dsimp only at h; rw [ahStep1_inl_acc c l rds a0 r hs] at h; cases h
  | inr a1 =>
    rw [hs] at h
    dsimp only at h
    obtain ⟨l2, rds2, a2, he⟩ := ahFinish_acc_done c _ h
    rw [he] at h
    rcases ahStep1_rel c l rds a0 q a1 hs hq with ⟨q', h1, hq'⟩ | ⟨r, h1, hr⟩
    · rw [h1]
      dsimp only
      rcases ahStep2_rel c l rds tr a1 q' l2 rds2 a2 he hq' with ⟨q'', h2, hq''⟩ | ⟨cur, rds3, a', h2, hb⟩
      · rw [h2]; exact ahFinish_rel c l2 rds2 a2 q'' h hq''
      · rw [h2]; exact errWrite_tgt _ _ hb
    · rw [h1]; exact hr

/-- smtp_data() behind a successful queue_init() -/
def smtpBody (c : Cfg) (rds : List Rd) (q1 : QSt) : Res :=
  match writeReceived c q1 with
  | (false, q2) => errWrite (some [68, 65, 84, 65]) rds { q := q2 }
  | (true, q2) =>
    match afterRead rds { q := q2 } (hdrLoop c) with
    | .died a => { q := a.q, died := true, logsize := a.msgsize }
    | .loopData code rc cur rds2 a => loopData code rc cur rds2 a
    | .errWrite cur rds2 a => errWrite cur rds2 a
    | .done l rds2 a => afterHeader c l rds2 a

theorem smtpData_eq (c : Cfg) (rds : List Rd) (tr : List Sys) :
    smtpData c rds tr =
      if c.goodrcpt = 0 then { replies := [554], rc := .edone, q := { trace := tr }, rest := rds }
      else
        match queueInit { trace := tr } with
        | (false, q1) => { replies := [Gen.Data.noqueueCode], rc := .edone, q := q1, rest := rds, freed := true }
        | (true, q1) => { smtpBody c rds q1 with replies := 354 :: (smtpBody c rds q1).replies } := by
  rfl

theorem smtpBody_rel (c : Cfg) (rds : List Rd) {tr : List Sys} (q10 q1 : QSt)
    (h : (smtpBody c rds q10).accepted = true) (hq : OKAt tr q1 0) : Tgt tr (smtpBody c rds q1) := by
  unfold smtpBody at h ⊢
  rcases hw0 : writeReceived c q10 with ⟨b0, q20⟩
  rw [hw0] at h
  cases b0 <;> dsimp only at h
  · rw [(errWrite_q _ _ _).2] at h; cases h
  · have ho : spfOK c := writeReceived_ok c q10 (by rw [hw0])
    have st := writeReceived_st c q1 ho hq
    rcases hw : writeReceived c q1 with ⟨b, q2⟩
    rw [hw] at st
    cases b <;> dsimp only
    · exact errWrite_tgt _ _ (st.2 rfl)
    · have hq2 : OKAt tr q2 0 := st.1 rfl
      cases hx0 : afterRead rds { q := q20 } (hdrLoop c) with
      | died a => rw [hx0] at h; cases h
      | loopData code rc cur rds2 a => rw [hx0] at h; dsimp only at h; rw [(loopData_q _ _ _ _ _).2] at h; cases h
      | errWrite cur rds2 a => rw [hx0] at h; dsimp only at h; rw [(errWrite_q _ _ _).2] at h; cases h
      | done l rds2 a0 =>
        rw [hx0] at h
        dsimp only at h
        rcases afterRead_rel (fun l rs => hdrLoop_rel c tr rs l) rds { q := q20 } q2 l rds2 a0 hx0 hq2 with
          ⟨q', h1, hq'⟩ | ⟨cur, rds3, a', h1, hb⟩
        · dsimp only at h1
          rw [h1]
          exact afterHeader_rel c l rds2 a0 q' h hq'
        · dsimp only at h1
          rw [h1]
          exact errWrite_tgt _ _ hb

/-- the outcome of smtp_data() against the oracle -/
def Final (tr : List Sys) (r : Res) : Prop :=
  (r.accepted = true ∧ r.q.desync = false
      ∧ (∃ pre, tr = pre ++ r.q.trace ∧ firstFault pre r.q.wlog.reverse 0 = none
          ∧ pre.getLast? = some (.wait (.exited 0)))
      ∧ finalReply r = some 250)
    ∨ (r.accepted = false ∧ (r.q.desync = false → BadAt tr r.q))

theorem smtpData_rel (c : Cfg) (rds : List Rd) (tr0 tr : List Sys) (h : (smtpData c rds tr0).accepted = true) :
    Final tr (smtpData c rds tr) := by
  rw [smtpData_eq] at h ⊢
  split at h
  · cases h
  · rename_i hg
    rw [if_neg hg]
    rcases hq0 : queueInit { trace := tr0 } with ⟨b0, q10⟩
    rw [hq0] at h
    cases b0 <;> dsimp only at h
    · cases h
    · have st := (queueInit_spec tr { trace := tr }).st (OKAt.init tr)
      rcases hq : queueInit { trace := tr } with ⟨b, q1⟩
      rw [hq] at st
      cases b <;> dsimp only
      · exact .inr ⟨rfl, st.2 rfl⟩
      · rcases smtpBody_rel c rds q10 q1 h (st.1 rfl) with ⟨h1, h2, h3, h4, h5⟩ | ⟨h1, h2⟩
        · exact .inl ⟨h1, h2, h3, by simp [finalReply, h4, h5, Session.errReply]⟩
        · exact .inr ⟨h1, h2⟩

theorem ack_only_if (c : Cfg) (rds : List Rd) (tr : List Sys)
    (h : (smtpData c rds tr).accepted = true) :
    ∃ pre, tr = pre ++ (smtpData c rds tr).q.trace
      ∧ firstFault pre (smtpData c rds tr).q.wlog.reverse 0 = none
      ∧ pre.getLast? = some (.wait (.exited 0))
      ∧ (smtpData c rds tr).q.desync = false
      ∧ finalReply (smtpData c rds tr) = some 250 := by
  rcases smtpData_rel c rds tr tr h with ⟨_, h2, ⟨pre, h3, h4, h5⟩, h6⟩ | ⟨h1, _⟩
  · exact ⟨pre, h3, h4, h5, h2, h6⟩
  · rw [h] at h1; cases h1

theorem ackExpected_250 {tr : List Sys} {lens : List Nat} (h : ackExpected tr lens = 250) :
    firstFault tr lens 0 = none := by
  unfold ackExpected at h
  split at h <;> first | assumption | (try split at h) <;> omega

theorem ack_if (c : Cfg) (rds : List Rd) (tr0 tr : List Sys)
    (hacc : (smtpData c rds tr0).accepted = true)
    (hs : (smtpData c rds tr).q.desync = false)
    (hg : ackExpected tr (smtpData c rds tr).q.wlog.reverse = 250) :
    (smtpData c rds tr).accepted = true := by
  rcases smtpData_rel c rds tr0 tr hacc with ⟨h1, _⟩ | ⟨_, h2⟩
  · exact h1
  · exact absurd (ackExpected_250 hg) (h2 hs).fault

/-! ### the command loop after DATA -/

theorem findRow_data :
    Session.findRow dataLine Gen.commands 0
      = some (7, { name := [68, 65, 84, 65], mask := 0x40, func := .data, state := 16, flags := 0 }) := by
  rfl

theorem findRow_rset :
    Session.findRow [82, 83, 69, 84] Gen.commands 0
      = some (2, { name := [82, 83, 69, 84], mask := 0xfffd, func := .rset, state := 1, flags := 0 }) := by
  rfl

/-- RSET in an idle state after HELO/EHLO -/
theorem rset_step (env : Session.Env) (s : Session.Sess) (v : Session.Verdicts)
    (hc : s.closed = false) (hcs : s.comstate = 8 ∨ s.comstate = 16) :
    Session.step env s (.line [82, 83, 69, 84] v)
      = ({ replies := [250] }, { Session.freedata s with comstate := Session.afterHelo s, badcmds := 0 }) := by
  unfold Session.step
  rw [if_neg (by simp [hc])]
  simp only [findRow_rset]
  rcases hcs with h | h
  · simp [h, Session.runFunc, Session.smtpRset, Session.finishStep, Session.newState, Session.afterHelo]
    cases s.esmtp <;> simp <;> intro h' <;> exact absurd h' (by decide)
  · simp [h, Session.runFunc, Session.smtpRset, Session.finishStep, Session.newState, Session.afterHelo]
    cases s.esmtp <;> simp <;> intro h' <;> exact absurd h' (by decide)

theorem rset_same (env : Session.Env) (s1 s2 : Session.Sess) (v : Session.Verdicts) (ins : List Session.Input)
    (hc1 : s1.closed = false) (hcs1 : s1.comstate = 8 ∨ s1.comstate = 16)
    (hc2 : s2.closed = false) (hcs2 : s2.comstate = 8 ∨ s2.comstate = 16)
    (heq : s1.esmtp = s2.esmtp ∧ s1.ssl = s2.ssl ∧ s1.authname = s2.authname ∧ s1.relayclient = s2.relayclient) :
    Session.run env s1 (.line [82, 83, 69, 84] v :: ins) = Session.run env s2 (.line [82, 83, 69, 84] v :: ins) := by
  have hs : ({ Session.freedata s1 with comstate := Session.afterHelo s1, badcmds := 0 } : Session.Sess)
      = { Session.freedata s2 with comstate := Session.afterHelo s2, badcmds := 0 } := by
    cases s1; cases s2
    simp_all [Session.freedata, Session.afterHelo]
  simp only [Session.run, rset_step env s1 v hc1 hcs1, rset_step env s2 v hc2 hcs2, hs]

/-- the state the command loop is in after a DATA transaction that did not end the process -/
theorem data_state (c : Cfg) (s : Session.Sess) (rds : List Rd) (tr : List Sys)
    (hst : s.comstate = 0x40 ∧ s.closed = false ∧ s.badcmds ≤ Gen.maxBadCmds)
    (hg : c.goodrcpt ≠ 0) (hd : (smtpData c rds tr).died = false) :
    (Data.step c s rds tr).2.1.closed = false
    ∧ ((Data.step c s rds tr).2.1.comstate = 8 ∨ (Data.step c s rds tr).2.1.comstate = 16)
    ∧ (Data.step c s rds tr).2.1.esmtp = s.esmtp ∧ (Data.step c s rds tr).2.1.ssl = s.ssl
    ∧ (Data.step c s rds tr).2.1.authname = s.authname ∧ (Data.step c s rds tr).2.1.relayclient = s.relayclient := by
  obtain ⟨hcs, hcl, hbc⟩ := hst
  have hfreed := (tx_discarded c rds tr s hg hd).1
  unfold Data.step
  simp only [findRow_data]
  rw [if_pos (by rw [hcs]; decide)]
  dsimp only
  generalize smtpData c rds tr = r at hd hfreed
  have hfs : (funcRes r s).s = Session.freedata s := by simp [funcRes, hd, hfreed]
  have hfo : (funcRes r s).stateOverride = if r.accepted then some (Session.afterHelo s) else none := rfl
  have hfc : (Session.freedata s).comstate = 8 ∨ (Session.freedata s).comstate = 16 := by
    simp only [Session.freedata, hcs]; cases s.esmtp <;> simp
  unfold Session.finishStep
  split
  · dsimp only
    rw [hfs]
    refine ⟨hcl, ?_, rfl, rfl, rfl, rfl⟩
    show Session.newState 16 7 (funcRes r s) = 8 ∨ Session.newState 16 7 (funcRes r s) = 16
    unfold Session.newState
    rw [hfo]
    cases r.accepted <;> simp [Session.afterHelo]
    cases s.esmtp <;> simp
  · dsimp only
    rw [hfs]
    unfold Session.handleError
    have hb : ¬ (Session.freedata s).badcmds > Gen.maxBadCmds := by
      show ¬ s.badcmds > Gen.maxBadCmds
      omega
    rw [if_neg hb]
    dsimp only
    cases (funcRes r s).rc <;> exact ⟨hcl, hfc, rfl, rfl, rfl, rfl⟩

theorem next_tx_same (env : Session.Env) (c1 c2 : Cfg) (s1 s2 : Session.Sess) (rds1 rds2 : List Rd) (tr1 tr2 : List Sys)
    (hconn : s1.esmtp = s2.esmtp ∧ s1.ssl = s2.ssl ∧ s1.authname = s2.authname ∧ s1.relayclient = s2.relayclient)
    (hst1 : s1.comstate = 0x40 ∧ s1.closed = false ∧ s1.badcmds ≤ Gen.maxBadCmds)
    (hst2 : s2.comstate = 0x40 ∧ s2.closed = false ∧ s2.badcmds ≤ Gen.maxBadCmds)
    (hg1 : c1.goodrcpt ≠ 0) (hg2 : c2.goodrcpt ≠ 0)
    (hd1 : (smtpData c1 rds1 tr1).died = false) (hd2 : (smtpData c2 rds2 tr2).died = false)
    (v : Session.Verdicts) (ins : List Session.Input) :
    Session.run env (Data.step c1 s1 rds1 tr1).2.1 (.line [82, 83, 69, 84] v :: ins)
      = Session.run env (Data.step c2 s2 rds2 tr2).2.1 (.line [82, 83, 69, 84] v :: ins) := by
  obtain ⟨a1, a2, a3, a4, a5, a6⟩ := data_state c1 s1 rds1 tr1 hst1 hg1 hd1
  obtain ⟨b1, b2, b3, b4, b5, b6⟩ := data_state c2 s2 rds2 tr2 hst2 hg2 hd2
  exact rset_same env _ _ v ins a1 a2 b1 b2
    ⟨by rw [a3, b3, hconn.1], by rw [a4, b4, hconn.2.1], by rw [a5, b5, hconn.2.2.1], by rw [a6, b6, hconn.2.2.2]⟩

end QsmtpModel.Data.Ack
