/-
Hoare-style reasoning for the writer monad `Spf.M` (value + query log, or a `Stop`), and the
total-correctness lemmas of lib/qdns.c's model: every ask_dns* call returns.
-/
import QsmtpModel.Spf.Core

namespace QsmtpModel.Spf
open QsmtpModel

/-- total correctness: `x` returns a value (no `Stop`) and the value satisfies `P` -/
def M.Sat (x : M α) (P : α → Prop) : Prop := ∃ a l, x = .ok (a, l) ∧ P a

theorem M.sat_pure {P : α → Prop} {a : α} (h : P a) : M.Sat (pure a : M α) P := ⟨a, [], rfl, h⟩

theorem M.sat_pure' {P : α → Prop} {a : α} (h : P a) : M.Sat (M.pure a : M α) P := ⟨a, [], rfl, h⟩

theorem M.sat_ask {P : α → Prop} {q : Query} {a : α} (h : P a) : M.Sat (M.ask q a) P := ⟨a, [q], rfl, h⟩

theorem M.sat_bind {x : M α} {f : α → M β} {Q : α → Prop} {P : β → Prop}
    (hx : M.Sat x Q) (hf : ∀ a, Q a → M.Sat (f a) P) : M.Sat (x >>= f) P := by
  obtain ⟨a, l, hxa, hq⟩ := hx
  obtain ⟨b, l2, hfb, hp⟩ := hf a hq
  refine ⟨b, l ++ l2, ?_, hp⟩
  subst hxa
  show M.bind (Except.ok (a, l)) f = _
  simp only [M.bind, hfb]
  try rfl

theorem M.sat_mono {x : M α} {P Q : α → Prop} (hx : M.Sat x P) (h : ∀ a, P a → Q a) : M.Sat x Q := by
  obtain ⟨a, l, hxa, hp⟩ := hx
  exact ⟨a, l, hxa, h a hp⟩

theorem M.sat_ite {c : Prop} [Decidable c] {a b : M α} {P : α → Prop}
    (ha : c → M.Sat a P) (hb : ¬ c → M.Sat b P) : M.Sat (if c then a else b) P := by
  by_cases h : c
  · rw [if_pos h]; exact ha h
  · rw [if_neg h]; exact hb h

theorem M.sat_true_of_ok {x : M α} {a : α} {l : List Query} (h : x = .ok (a, l)) : M.Sat x (fun _ => True) :=
  ⟨a, l, h, trivial⟩

theorem sat_askDnsA (dns : Dns) (n : List Byte) : M.Sat (askDnsA dns n) (fun _ => True) := by
  unfold askDnsA; exact M.sat_ask trivial

theorem sat_askDnsAAAA (dns : Dns) (n : List Byte) : M.Sat (askDnsAAAA dns n) (fun _ => True) := by
  unfold askDnsAAAA; exact M.sat_ask trivial

theorem sat_askDnsName (dns : Dns) (ip : Ip) : M.Sat (askDnsName dns ip) (fun _ => True) := by
  unfold askDnsName; exact M.sat_ask trivial

theorem sat_dnstxtRecords (dns : Dns) (n : List Byte) : M.Sat (dnstxtRecords dns n) (fun _ => True) := by
  unfold dnstxtRecords; exact M.sat_ask trivial

theorem sat_askDnsMxLoop (dns : Dns) (l : List (Nat × List Byte)) (acc : List (Nat × List Ip)) (e : Nat) :
    M.Sat (askDnsMxLoop dns l acc e) (fun _ => True) := by
  induction l generalizing acc e with
  | nil => unfold askDnsMxLoop; exact M.sat_pure trivial
  | cons hd tl ih =>
    obtain ⟨pr, nm⟩ := hd
    unfold askDnsMxLoop
    refine M.sat_bind (sat_askDnsAAAA dns nm) ?_
    intro rc _
    split
    · exact M.sat_pure trivial
    · exact ih _ _
    · exact ih _ _
    · exact ih _ _
    · exact ih _ _

theorem sat_askDnsMx (dns : Dns) (n : List Byte) : M.Sat (askDnsMx dns n) (fun _ => True) := by
  unfold askDnsMx
  refine M.sat_bind (Q := fun _ => True) (M.sat_ask trivial) ?_
  intro r _
  have hvia : M.Sat (do
      let rc ← askDnsAAAA dns n
      match rc with
      | .temp => pure MxRes.temp
      | .perm => pure .perm
      | .localErr => pure .localErr
      | .ok [] => pure .noHost
      | .ok as => pure (.list [(Gen.spfMxPriorityImplicit, as)])) (fun _ => True) := by
    refine M.sat_bind (sat_askDnsAAAA dns n) ?_
    intro rc _
    split <;> exact M.sat_pure trivial
  split
  · split
    · split <;> exact M.sat_pure trivial
    · exact hvia
  · exact hvia
  · split
    · split
      · exact M.sat_pure trivial
      · exact sat_askDnsMxLoop _ _ _ _
    · exact sat_askDnsMxLoop _ _ _ _

theorem sat_validateLoop (dns : Dns) (ss : Sess) (l : List (List Byte)) :
    M.Sat (validateLoop dns ss l) (fun _ => True) := by
  induction l with
  | nil => unfold validateLoop; exact M.sat_pure trivial
  | cons d tl ih =>
    unfold validateLoop
    refine M.sat_bind (Q := fun _ => True) ?_ ?_
    · split
      · exact sat_askDnsA _ _
      · exact sat_askDnsAAAA _ _
    · intro k _
      refine M.sat_bind ih ?_
      intro t _
      split <;> exact M.sat_pure trivial

theorem sat_validateDomain (dns : Dns) (ss : Sess) : M.Sat (validateDomain dns ss) (fun _ => True) := by
  unfold validateDomain
  refine M.sat_bind (sat_askDnsName dns ss.ip) ?_
  intro r _
  split
  · refine M.sat_bind (sat_validateLoop _ _ _) ?_
    intro v _
    exact M.sat_pure trivial
  · exact M.sat_pure trivial
  · exact M.sat_pure trivial
  · exact M.sat_pure trivial

end QsmtpModel.Spf
