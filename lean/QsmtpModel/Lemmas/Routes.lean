/-
Helper lemmas about QsmtpModel.Routes (smtproute) and its specification Spec.Target.routeSpec.
-/
import QsmtpModel.Routes
import QsmtpModel.Spec.Target
import QsmtpModel.Lemmas.Mx

namespace QsmtpModel.Routes
open QsmtpModel QsmtpModel.Mx QsmtpModel.Spec.Target

/-! ### memchr -/

theorem memchr_some {c : Byte} {l : List Byte} {i : Nat} (h : memchr c l = some i) :
    l = l.take i ++ c :: l.drop (i + 1) ∧ c ∉ l.take i := by
  induction l generalizing i with
  | nil => simp [memchr] at h
  | cons x xs ih =>
    simp only [memchr] at h
    split at h
    · rename_i hx
      cases h
      simp [hx]
    · rename_i hx
      cases hm : memchr c xs with
      | none => simp [hm] at h
      | some j =>
        simp only [hm, Option.map_some, Option.some.injEq] at h
        subst h
        obtain ⟨h1, h2⟩ := ih hm
        constructor
        · simp only [List.take_succ_cons, List.drop_succ_cons, List.cons_append]
          rw [← h1]
        · simp only [List.take_succ_cons, List.mem_cons, not_or]
          exact ⟨fun hc => hx hc.symm, h2⟩

theorem memchr_append {c : Byte} {t rest : List Byte} (h : c ∉ t) : memchr c (t ++ c :: rest) = some t.length := by
  induction t with
  | nil => simp [memchr]
  | cons x xs ih =>
    simp only [List.mem_cons, not_or] at h
    simp only [List.cons_append, memchr]
    rw [if_neg (fun hx => h.1 hx.symm), ih h.2]
    rfl

theorem memchr_none {c : Byte} {l : List Byte} (h : memchr c l = none) : c ∉ l := by
  induction l with
  | nil => simp
  | cons x xs ih =>
    simp only [memchr] at h
    split at h
    · cases h
    · rename_i hx
      cases hm : memchr c xs with
      | none =>
        simp only [List.mem_cons, not_or]
        exact ⟨fun hc => hx hc.symm, ih hm⟩
      | some j => simp [hm] at h

theorem memchr_getElem {c : Byte} {l : List Byte} {i : Nat} (h : memchr c l = some i) : l[i]? = some c := by
  induction l generalizing i with
  | nil => simp [memchr] at h
  | cons x xs ih =>
    simp only [memchr] at h
    split at h
    · rename_i hx; cases h; simp [hx]
    · cases hm : memchr c xs with
      | none => simp [hm] at h
      | some j =>
        simp only [hm, Option.map_some, Option.some.injEq] at h
        subst h
        simpa using ih hm

/-! ### key=value lines -/

/-- the test of (the fixed) tagvalue() on one line is the same as "the key of the line is the tag" -/
theorem kv_match (t l : List Byte) (h61 : (61 : Byte) ∉ t) (hne : t ≠ []) :
    (l.take t.length == t && l[t.length]? == some 61) = true ↔ kvOf l = some (t, l.drop (t.length + 1)) := by
  constructor
  · intro h
    simp only [Bool.and_eq_true, beq_iff_eq] at h
    obtain ⟨h1, h2⟩ := h
    have hlt : t.length < l.length := by
      rcases Nat.lt_or_ge t.length l.length with h | h
      · exact h
      · rw [List.getElem?_eq_none h] at h2; cases h2
    have hl : l = t ++ 61 :: l.drop (t.length + 1) := by
      have h3 : l[t.length] = 61 := by
        rw [List.getElem?_eq_getElem hlt] at h2; exact Option.some.inj h2
      calc l = l.take t.length ++ l.drop t.length := (List.take_append_drop _ _).symm
        _ = t ++ l.drop t.length := by rw [h1]
        _ = t ++ 61 :: l.drop (t.length + 1) := by rw [List.drop_eq_getElem_cons hlt, h3]
    have hm : memchr 61 l = some t.length := by
      rw [hl]; exact memchr_append h61
    unfold kvOf
    rw [hm]
    have hpos : t.length ≠ 0 := by
      intro h0; exact hne (List.length_eq_zero_iff.mp h0)
    cases hn : t.length with
    | zero => exact absurd hn hpos
    | succ n => simp only; rw [← hn, h1]
  · intro h
    unfold kvOf at h
    cases hm : memchr 61 l with
    | none => simp [hm] at h
    | some i =>
      rw [hm] at h
      cases i with
      | zero => simp at h
      | succ n =>
        simp only [Option.some.injEq, Prod.mk.injEq] at h
        obtain ⟨h1, _⟩ := h
        obtain ⟨hd, _⟩ := memchr_some hm
        have hlen : l.length ≥ n + 1 + 1 := by
          have := congrArg List.length hd
          simp at this; omega
        have htl : t.length = n + 1 := by rw [← h1]; simp; omega
        simp only [Bool.and_eq_true, beq_iff_eq]
        constructor
        · rw [htl]; exact h1
        · rw [htl]; exact memchr_getElem hm

theorem tags_ok : ∀ t ∈ Gen.routeTags, (61 : Byte) ∉ t ∧ t ≠ [] := by decide

theorem tags_len : Gen.routeTags.length = 6 := rfl

theorem tagAt_mem {i : Nat} (h : i < 6) : tagAt i ∈ Gen.routeTags := by
  unfold tagAt
  have : i < Gen.routeTags.length := by rw [tags_len]; exact h
  rw [List.getD_eq_getElem?_getD, List.getElem?_eq_getElem this]
  simp

theorem tagAt_inj : ∀ i, i < 6 → ∀ j, j < 6 → tagAt i = tagAt j → i = j := by decide

theorem tagIndex_tagAt : ∀ i, i < 6 → tagIndex (tagAt i) = some i := by decide

theorem tagIndex_some {k : List Byte} {i : Nat} (h : tagIndex k = some i) : i < 6 ∧ k = tagAt i := by
  unfold tagIndex at h
  have := List.findIdx?_eq_some_iff_getElem.mp h
  obtain ⟨hlt, heq, _⟩ := this
  rw [tags_len] at hlt
  refine ⟨hlt, ?_⟩
  have h2 : Gen.routeTags[i] = k := eq_of_beq heq
  unfold tagAt
  rw [List.getD_eq_getElem?_getD, List.getElem?_eq_getElem (by rw [tags_len]; exact hlt)]
  exact h2.symm

/-- tagvalue() on any list of lines = the value of the first line with that key -/
theorem tagvalue_eq_lookup (t : List Byte) (h61 : (61 : Byte) ∉ t) (hne : t ≠ []) (ls : List (List Byte)) :
    tagvalue ls t = (ls.filterMap kvOf).lookup t := by
  induction ls with
  | nil => rfl
  | cons l ls ih =>
    unfold tagvalue at ih ⊢
    simp only [List.find?_cons]
    by_cases hp : (l.take t.length == t && l[t.length]? == some 61) = true
    · have hk := (kv_match t l h61 hne).mp hp
      simp only [hp, List.filterMap_cons, hk, List.lookup_cons, beq_self_eq_true]
    · have hp' : (l.take t.length == t && l[t.length]? == some 61) = false := by simpa using hp
      simp only [hp']
      rw [ih]
      cases hk : kvOf l with
      | none => simp [List.filterMap_cons, hk]
      | some kv =>
        obtain ⟨k, v⟩ := kv
        have hkt : (t == k) = false := by
          apply Bool.eq_false_iff.mpr
          intro heq
          have heq' : t = k := by simpa using heq
          subst heq'
          apply hp
          apply (kv_match t l h61 hne).mpr
          -- the value is determined by the key
          unfold kvOf at hk ⊢
          cases hm : memchr 61 l with
          | none => simp [hm] at hk
          | some i =>
            rw [hm] at hk
            cases i with
            | zero => simp at hk
            | succ n =>
              simp only [Option.some.injEq, Prod.mk.injEq] at hk ⊢
              obtain ⟨hk1, _⟩ := hk
              obtain ⟨hd, _⟩ := memchr_some hm
              have hlen : l.length ≥ n + 1 + 1 := by
                have := congrArg List.length hd
                simp at this; omega
              have : t.length = n + 1 := by rw [← hk1]; simp; omega
              exact ⟨hk1, by rw [this]⟩
        simp [List.filterMap_cons, hk, List.lookup_cons, hkt]

/-! ### validLines -/

theorem validroute_some {mask : List Nat} {s : List Byte} {i : Nat} (h : validroute mask s = some i) :
    i < 6 ∧ i ∉ mask ∧ ∃ v, kvOf s = some (tagAt i, v) := by
  unfold validroute at h
  unfold kvOf
  cases hm : memchr 61 s with
  | none => simp [hm] at h
  | some n =>
    rw [hm] at h
    cases n with
    | zero => simp at h
    | succ n =>
      simp only at h ⊢
      cases ht : tagIndex (s.take (n + 1)) with
      | none => simp [ht] at h
      | some j =>
        rw [ht] at h
        simp only at h
        split at h
        · cases h
        · rename_i hj
          cases h
          obtain ⟨hlt, hk⟩ := tagIndex_some ht
          exact ⟨hlt, hj, s.drop (n + 1 + 1), by rw [hk]⟩

theorem validroute_none {mask : List Nat} {s : List Byte} (h : validroute mask s = none) :
    kvOf s = none ∨ ∃ k v, kvOf s = some (k, v) ∧ (tagIndex k = none ∨ ∃ j, tagIndex k = some j ∧ j ∈ mask) := by
  unfold validroute at h
  unfold kvOf
  cases hm : memchr 61 s with
  | none => left; rfl
  | some n =>
    rw [hm] at h
    cases n with
    | zero => left; rfl
    | succ n =>
      right
      simp only at h ⊢
      refine ⟨_, _, rfl, ?_⟩
      cases ht : tagIndex (s.take (n + 1)) with
      | none => left; rfl
      | some j =>
        right
        rw [ht] at h
        simp only at h
        split at h
        · rename_i hj; exact ⟨j, rfl, hj⟩
        · cases h

/-- a key that is no tag, or a tag other than `i`, is not `tagAt i` -/
theorem lookup_skip {k v : List Byte} {rest : List (List Byte × List Byte)} {i : Nat}
    (h : k ≠ tagAt i) : List.lookup (tagAt i) ((k, v) :: rest) = List.lookup (tagAt i) rest := by
  rw [List.lookup_cons]
  have : (tagAt i == k) = false := by
    apply Bool.eq_false_iff.mpr; intro h'; exact h (eq_of_beq h').symm
  rw [this]

theorem validLines_spec (es : List (List Byte)) (m0 : List Nat) (i : Nat) (hi : i < 6) :
    (i ∈ (validLines m0 es).2 ↔ i ∈ m0 ∨ ((es.filterMap kvOf).lookup (tagAt i)).isSome) ∧
    (i ∉ m0 → ((validLines m0 es).1.filterMap kvOf).lookup (tagAt i) = (es.filterMap kvOf).lookup (tagAt i)) := by
  induction es generalizing m0 with
  | nil => simp [validLines]
  | cons s rest ih =>
    simp only [validLines]
    cases hv : validroute m0 s with
    | none =>
      simp only
      have hskip : ((s :: rest).filterMap kvOf).lookup (tagAt i) = (rest.filterMap kvOf).lookup (tagAt i) ∨ i ∈ m0 := by
        rcases validroute_none hv with hk | ⟨k, v, hk, hcase⟩
        · left; simp [List.filterMap_cons, hk]
        · by_cases hki : k = tagAt i
          · right
            rcases hcase with hn | ⟨j, hj, hjm⟩
            · rw [hki, tagIndex_tagAt i hi] at hn; cases hn
            · rw [hki, tagIndex_tagAt i hi] at hj; cases hj; exact hjm
          · left; simp only [List.filterMap_cons, hk]; exact lookup_skip hki
      obtain ⟨ihA, ihB⟩ := ih m0
      constructor
      · rcases hskip with hs | hm
        · rw [hs]; exact ihA
        · constructor
          · intro _; exact Or.inl hm
          · intro _; exact ihA.mpr (Or.inl hm)
      · intro hnm
        rcases hskip with hs | hm
        · rw [hs]; exact ihB hnm
        · exact absurd hm hnm
    | some j =>
      obtain ⟨hj6, hjm, v, hk⟩ := validroute_some hv
      simp only
      obtain ⟨ihA, ihB⟩ := ih (j :: m0)
      by_cases hij : i = j
      · subst hij
        have hl : ((s :: rest).filterMap kvOf).lookup (tagAt i) = some v := by
          simp [List.filterMap_cons, hk, List.lookup_cons]
        constructor
        · rw [hl]; simp only [Option.isSome_some, or_true, iff_true]
          exact ihA.mpr (Or.inl (by simp))
        · intro _
          rw [hl]; simp [List.filterMap_cons, hk, List.lookup_cons]
      · have hne : tagAt j ≠ tagAt i := fun h => hij (tagAt_inj i hi j hj6 h.symm)
        have hl : ((s :: rest).filterMap kvOf).lookup (tagAt i) = (rest.filterMap kvOf).lookup (tagAt i) := by
          simp only [List.filterMap_cons, hk]; exact lookup_skip hne
        constructor
        · rw [hl, ihA]; simp [hij]
        · intro hnm
          rw [hl]
          have : i ∉ j :: m0 := by simp [hij, hnm]
          rw [← ihB this]
          simp only [List.filterMap_cons, hk]; exact lookup_skip hne

theorem evalSettings_congr (env : Env) (d : Bool) (v1 v2 : Nat → Option (List Byte))
    (h : ∀ i, i < 6 → v1 i = v2 i) : evalSettings env d v1 = evalSettings env d v2 := by
  unfold evalSettings
  rw [h 0 (by omega), h 1 (by omega), h 2 (by omega), h 3 (by omega), h 4 (by omega), h 5 (by omega)]

/-- the evaluation of a settings file by the C code (validroute() mask, tagvalue() search) equals
its reading as key/value settings -/
theorem evalRouteFile_eq (env : Env) (d : Bool) (es : List (List Byte)) :
    evalRouteFile env d (validLines [] es).1 (validLines [] es).2 = fileChoice env d es := by
  have hval : ∀ i, i < 6 →
      (if i ∈ (validLines [] es).2 then tagvalue (validLines [] es).1 (tagAt i) else none) = setting es i := by
    intro i hi
    obtain ⟨hA, hB⟩ := validLines_spec es [] i hi
    obtain ⟨h61, hne⟩ := tags_ok _ (tagAt_mem hi)
    unfold setting
    split
    · rw [tagvalue_eq_lookup _ h61 hne]; exact hB (by simp)
    · rename_i hn
      have : ¬ ((es.filterMap kvOf).lookup (tagAt i)).isSome := fun h => hn (hA.mpr (Or.inr h))
      cases hl : (es.filterMap kvOf).lookup (tagAt i) with
      | none => rfl
      | some v => rw [hl] at this; simp at this
  unfold evalRouteFile fileChoice
  have hneed : (List.range Gen.routeTags.length).any
      (fun i => decide (i ∈ (validLines [] es).2) && (tagvalue (validLines [] es).1 (tagAt i)).isNone) = false := by
    rw [List.any_eq_false]
    intro i hi
    have hi6 : i < 6 := by rw [tags_len] at hi; exact List.mem_range.mp hi
    obtain ⟨hA, hB⟩ := validLines_spec es [] i hi6
    obtain ⟨h61, hne⟩ := tags_ok _ (tagAt_mem hi6)
    intro hc
    simp only [Bool.and_eq_true, decide_eq_true_eq] at hc
    obtain ⟨hm, hnone⟩ := hc
    rw [tagvalue_eq_lookup _ h61 hne, hB (by simp)] at hnone
    rcases hA.mp hm with h | h
    · simp at h
    · cases hl : (es.filterMap kvOf).lookup (tagAt i) with
      | none => rw [hl] at h; simp at h
      | some v => rw [hl] at hnone; simp at hnone
  simp only [hneed]
  exact evalSettings_congr env d _ _ hval

/-! ### the directory walk -/

theorem nameBuf_eq : Gen.routeNameBuf = 257 := rfl

theorem wild_len (h : List Byte) : ∀ fn ∈ wildNames h, fn.length ≤ h.length + 1 := by
  induction h with
  | nil => simp [wildNames]
  | cons b rest ih =>
    intro fn hfn
    simp only [wildNames] at hfn
    split at hfn
    · rcases List.mem_cons.mp hfn with rfl | hfn
      · simp
      · have := ih fn hfn; simp; omega
    · have := ih fn hfn; simp; omega

/-- the content of a present file as the C code evaluates it -/
def evalFile (env : Env) (k : Kind) (b : List Byte) : Out (Option Entry × RouteVals) :=
  match (strip .normal none b).map entries with
  | none => .conferr .loadFile
  | some es => evalRouteFile env (k == .dflt) (validLines [] es).1 (validLines [] es).2

theorem lookupDir_eq (env : Env) (cs : List (List Byte × Kind))
    (hb : ∀ c ∈ cs, c.2 = .wild → c.1.length + 1 ≤ Gen.routeNameBuf) :
    lookupDir env cs = match firstPresent env cs with
      | none => .notFound
      | some (_, _, .absent) => .notFound
      | some (_, _, .error) => .found (.conferr .openFile)
      | some (_, k, .content b) => .found (evalFile env k b) := by
  induction cs with
  | nil => rfl
  | cons c rest ih =>
    obtain ⟨fn, kind⟩ := c
    have hb' : ∀ c ∈ rest, c.2 = .wild → c.1.length + 1 ≤ Gen.routeNameBuf := fun c hc => hb c (by simp [hc])
    have hfit : ¬ (kind = .wild ∧ fn.length + 1 > Gen.routeNameBuf) := by
      intro ⟨hk, hl⟩
      have := hb (fn, kind) (by simp) hk
      simp only at this; omega
    simp only [lookupDir, if_neg hfit, firstPresent]
    cases hf : env.dirFile fn with
    | absent => simp only; exact ih hb'
    | error => rfl
    | content b =>
      simp only [evalFile]
      cases (strip .normal none b).map entries with
      | none => rfl
      | some es => rfl

theorem lookupDir_exact (env : Env) (fn : List Byte) (rest : List (List Byte × Kind)) :
    lookupDir env ((fn, .exact) :: rest) = match env.dirFile fn with
      | .absent => lookupDir env rest
      | .error => .found (.conferr .openFile)
      | .content b => .found (evalFile env .exact b) := by
  have : ¬ (Kind.exact = Kind.wild ∧ fn.length + 1 > Gen.routeNameBuf) := by simp
  simp only [lookupDir, if_neg this, evalFile]
  cases env.dirFile fn with
  | absent => rfl
  | error => rfl
  | content b =>
    simp only
    cases (strip .normal none b).map entries with
    | none => rfl
    | some es => rfl

theorem firstPresent_cons (env : Env) (fn : List Byte) (k : Kind) (rest : List (List Byte × Kind)) :
    firstPresent env ((fn, k) :: rest) = match env.dirFile fn with
      | .absent => firstPresent env rest
      | r => some (fn, k, r) := by
  rfl

theorem firstPresent_not_absent (env : Env) (cs : List (List Byte × Kind)) :
    ∀ fn k, firstPresent env cs ≠ some (fn, k, .absent) := by
  induction cs with
  | nil => intro fn k; simp [firstPresent]
  | cons c rest ih =>
    obtain ⟨fn0, k0⟩ := c
    intro fn k
    simp only [firstPresent]
    cases hf : env.dirFile fn0 with
    | absent => exact ih fn k
    | error => simp
    | content b => simp

/-! ### control/smtproutes -/

theorem validLine_memchr {l : List Byte} (h : validLine l = true) : ∃ i, memchr 58 l = some i := by
  unfold validLine at h
  cases hm : memchr 58 l with
  | none => simp [hm] at h
  | some i => exact ⟨i, rfl⟩

theorem firstRoute_eq (remhost : List Byte) (ls : List (List Byte)) (hv : ∀ l ∈ ls, validLine l = true) :
    firstRoute remhost ls = (ls.find? (lineApplies remhost)).map lineTarget := by
  induction ls with
  | nil => rfl
  | cons l rest ih =>
    obtain ⟨i, hi⟩ := validLine_memchr (hv l (by simp))
    have hrest : ∀ l ∈ rest, validLine l = true := fun x hx => hv x (by simp [hx])
    simp only [firstRoute, hi, List.find?_cons, lineApplies]
    by_cases happ : ((l.take i).isEmpty || matchdomain remhost (l.take i)) = true
    · simp only [happ, if_true, Option.map_some, lineTarget, hi]
      cases memchr 58 (l.drop (i + 1)) with
      | none => rfl
      | some j => rfl
    · have : ((l.take i).isEmpty || matchdomain remhost (l.take i)) = false := by simpa using happ
      simp only [this]
      exact ih hrest

theorem lookupFile_eq (env : Env) (remhost : List Byte) (k : Bool) :
    lookupFile env remhost k = routesFileSpec env remhost k := by
  unfold lookupFile routesFileSpec
  cases loadEntries env.routes with
  | none => rfl
  | some es =>
    simp only
    rw [firstRoute_eq remhost _ (fun l hl => (List.mem_filter.mp hl).2)]
    cases (es.filter validLine).find? (lineApplies remhost) with
    | none => rfl
    | some l => rfl

/-- **smtproute() implements the route specification** (file names longer than NAME_MAX cannot be
opened) -/
theorem smtproute_eq_spec (env : Env) (remhost : List Byte)
    (hmax : ∀ fn : List Byte, 255 < fn.length → env.dirFile fn = .error) :
    smtproute env remhost = routeSpec env remhost := by
  unfold smtproute routeSpec
  split
  · -- control/smtproutes.d exists
    cases hex : env.dirFile remhost with
    | absent =>
      have hlen : remhost.length ≤ 255 := by
        rcases Nat.lt_or_ge 255 remhost.length with h | h
        · rw [hmax remhost h] at hex; cases hex
        · exact h
      have hb : ∀ c ∈ candidates remhost, c.2 = .wild → c.1.length + 1 ≤ Gen.routeNameBuf := by
        intro c hc hw
        simp only [candidates, List.mem_cons, List.mem_append, List.mem_map, List.mem_singleton, List.not_mem_nil, or_false] at hc
        rcases hc with rfl | ⟨fn, hfn, rfl⟩ | rfl
        · cases hw
        · have := wild_len remhost fn hfn; rw [nameBuf_eq]; simp only; omega
        · cases hw
      rw [lookupDir_eq env _ hb]
      cases hfp : firstPresent env (candidates remhost) with
      | none => simp only; exact lookupFile_eq env remhost false
      | some r =>
        obtain ⟨fn, k, fr⟩ := r
        cases fr with
        | absent => exact absurd hfp (firstPresent_not_absent env _ fn k)
        | error => rfl
        | content b =>
          simp only [evalFile]
          cases (strip .normal none b).map entries with
          | none => rfl
          | some es => simp only; exact evalRouteFile_eq env _ es
    | error =>
      rw [candidates, lookupDir_exact, firstPresent_cons]
      simp only [hex]
    | content b =>
      rw [candidates, lookupDir_exact, firstPresent_cons]
      simp only [hex, evalFile]
      cases (strip .normal none b).map entries with
      | none => rfl
      | some es => simp only; exact evalRouteFile_eq env _ es
  · exact lookupFile_eq env remhost true

/-! ### what a lookup returns is a usable, untouched MX list -/

/-- at least one address, and not marked as used -/
def Good (e : Entry) : Prop := e.prio ≤ freshMax ∧ e.addrs ≠ []

theorem parseRouteParams_good {env : Env} {h p : Option (List Byte)} {e : Entry} {port : Nat}
    (hp : parseRouteParams env h p = .ok (some e, port)) : Good e := by
  unfold parseRouteParams at hp
  cases h with
  | none =>
    simp only at hp
    split at hp
    · cases hp
    · split at hp <;> cases hp
  | some host =>
    simp only at hp
    cases hd : env.dns host with
    | err c => simp [hd] at hp
    | addrs l =>
      cases l with
      | nil => simp [hd] at hp
      | cons a as =>
        simp only [hd] at hp
        split at hp
        · cases hp
          exact ⟨by show (0 : Nat) ≤ freshMax; rw [freshMax_eq]; omega, by simp⟩
        · split at hp
          · cases hp
          · cases hp
            exact ⟨by show (0 : Nat) ≤ freshMax; rw [freshMax_eq]; omega, by simp⟩

theorem evalSettings_good {env : Env} {d : Bool} {val : Nat → Option (List Byte)} {e : Entry} {v : RouteVals}
    (h : evalSettings env d val = .ok (some e, v)) : Good e := by
  unfold evalSettings at h
  split at h
  · cases h
  · split at h
    · cases h
    · split at h
      · cases h
      · split at h
        · cases h
        · split at h
          · cases h
          · cases hp : parseRouteParams env (val 0) (val 1) with
            | conferr c => simp [hp] at h
            | fault f => simp [hp] at h
            | ok r =>
              obtain ⟨mx, port⟩ := r
              simp only [hp, Out.ok.injEq, Prod.mk.injEq] at h
              obtain ⟨rfl, _⟩ := h
              exact parseRouteParams_good hp

theorem routeSpec_good {env : Env} {h : List Byte} {e : Entry} {v : RouteVals}
    (hr : routeSpec env h = .ok (some e, v)) : Good e := by
  have hfile : ∀ k, routesFileSpec env h k = .ok (some e, v) → Good e := by
    intro k hk
    unfold routesFileSpec at hk
    split at hk
    · cases hk
    · split at hk
      · cases hk
      · rename_i l _
        cases hp : parseRouteParams env (lineTarget l).1 (lineTarget l).2 with
        | conferr c => simp [hp] at hk
        | fault f => simp [hp] at hk
        | ok r =>
          obtain ⟨mx, port⟩ := r
          simp only [hp, Out.ok.injEq, Prod.mk.injEq] at hk
          obtain ⟨rfl, _⟩ := hk
          exact parseRouteParams_good hp
  unfold routeSpec at hr
  split at hr
  · split at hr
    · exact hfile _ hr
    · cases hr
    · exact hfile _ hr
    · split at hr
      · cases hr
      · exact evalSettings_good hr
  · exact hfile _ hr

theorem mxLoop_good (env : Env) (recs : List (Nat × List Byte)) (acc : List Entry) (errt : Nat)
    (hacc : ∀ e ∈ acc, Good e) {l : List Entry} {et : Nat} (h : mxLoop env recs acc errt = .ok (l, et)) :
    ∀ e ∈ l, Good e := by
  induction recs generalizing acc errt with
  | nil => simp only [mxLoop] at h; cases h; exact hacc
  | cons r rest ih =>
    obtain ⟨pr, nm⟩ := r
    cases hd : env.dns nm with
    | err c =>
      simp only [mxLoop, hd] at h
      split at h
      · cases h
      · exact ih acc _ hacc h
      · rename_i heq; cases heq
      · rename_i heq; cases heq
    | addrs as =>
      cases as with
      | nil => simp only [mxLoop, hd] at h; exact ih acc _ hacc h
      | cons a as =>
        simp only [mxLoop, hd] at h
        refine ih _ _ ?_ h
        intro e he
        rcases List.mem_cons.mp he with rfl | he
        · exact ⟨by simp only; rw [freshMax_eq]; omega, by simp⟩
        · exact hacc e he

theorem askDnsMx_good {env : Env} {name : List Byte} {l : List Entry} (h : askDnsMx env name = .ok l) :
    ∀ e ∈ l, Good e := by
  have himpl : (match env.dns name with
      | .err c => (Except.error (-(c : Int)) : Except Int (List Entry))
      | .addrs [] => .error 1
      | .addrs as => .ok [{ prio := Gen.mxPrioImplicit, addrs := as, name := some name }]) = .ok l → ∀ e ∈ l, Good e := by
    intro h
    cases hd : env.dns name with
    | err c => simp [hd] at h
    | addrs as =>
      cases as with
      | nil => simp [hd] at h
      | cons a as =>
        simp only [hd, Except.ok.injEq] at h
        subst h
        intro e he
        simp only [List.mem_singleton] at he
        subst he
        exact ⟨by simp only; rw [freshMax_eq]; decide, by simp⟩
  unfold askDnsMx at h
  split at h
  · cases h
  · cases h
  · cases h
  · exact himpl h
  · exact himpl h
  · split at h
    · cases h
    · split at h
      · cases h
      · rename_i l0 errt hm
        split at h
        · cases h; exact mxLoop_good env _ [] 0 (by simp) hm
        · split at h
          · cases h
          · split at h <;> cases h

/-- the candidate list of getmxlist() (with the specified route lookup): usable and untouched -/
theorem getmxlist_good {env : Env} {h : List Byte} {mx : List Entry} {v : RouteVals}
    (hg : getmxlistWith routeSpec env h = .ok mx v) : mx ≠ [] ∧ ∀ e ∈ mx, Good e := by
  unfold getmxlistWith at hg
  split at hg
  · split at hg
    · simp only at hg
      split at hg
      · cases hg
        exact ⟨by simp, by intro e he; simp only [List.mem_singleton] at he; subst he; exact ⟨by simp only; rw [freshMax_eq]; omega, by simp⟩⟩
      · split at hg
        · cases hg
          exact ⟨by simp, by intro e he; simp only [List.mem_singleton] at he; subst he; exact ⟨by simp only; rw [freshMax_eq]; omega, by simp⟩⟩
        · cases hg
    · cases hg
  · split at hg
    · cases hg
    · cases hg
    · rename_i e vals hr
      cases hg
      exact ⟨by simp, by intro x hx; simp only [List.mem_singleton] at hx; subst hx; exact routeSpec_good hr⟩
    · split at hg
      · rename_i l hl
        cases hg
        refine ⟨?_, askDnsMx_good hl⟩
        intro h0
        subst h0
        -- askDnsMx never answers with an empty list
        unfold askDnsMx at hl
        split at hl
        · cases hl
        · cases hl
        · cases hl
        · split at hl <;> cases hl
        · split at hl <;> cases hl
        · split at hl
          · cases hl
          · split at hl
            · cases hl
            · split at hl
              · rename_i hne; cases hl; simp at hne
              · split at hl
                · cases hl
                · split at hl <;> cases hl
      · cases hg
      · cases hg

/-! ### order of the lines -/

theorem lookup_mem {k v : List Byte} {l : List (List Byte × List Byte)} (h : l.lookup k = some v) : (k, v) ∈ l := by
  induction l with
  | nil => simp at h
  | cons x xs ih =>
    obtain ⟨k0, v0⟩ := x
    rw [List.lookup_cons] at h
    cases hk : k == k0 with
    | true => rw [hk] at h; cases h; have := eq_of_beq hk; subst this; simp
    | false => rw [hk] at h; exact List.mem_cons_of_mem _ (ih h)

theorem lookup_of_mem_nodup {k v : List Byte} {l : List (List Byte × List Byte)} (hn : (l.map (·.1)).Nodup)
    (h : (k, v) ∈ l) : l.lookup k = some v := by
  induction l with
  | nil => simp at h
  | cons x xs ih =>
    obtain ⟨k0, v0⟩ := x
    simp only [List.map_cons, List.nodup_cons] at hn
    rw [List.lookup_cons]
    rcases List.mem_cons.mp h with heq | hmem
    · cases heq; simp
    · have hne : (k == k0) = false := by
        apply Bool.eq_false_iff.mpr
        intro hk
        have := eq_of_beq hk
        subst this
        exact hn.1 (List.mem_map.mpr ⟨(k, v), hmem, rfl⟩)
      rw [hne]; exact ih hn.2 hmem

theorem lookup_perm {l l' : List (List Byte × List Byte)} (hp : l.Perm l') (hn : (l.map (·.1)).Nodup) (k : List Byte) :
    l.lookup k = l'.lookup k := by
  have hn' : (l'.map (·.1)).Nodup := (hp.map _).nodup_iff.mp hn
  cases h : l.lookup k with
  | some v => exact (lookup_of_mem_nodup hn' (hp.mem_iff.mp (lookup_mem h))).symm
  | none =>
    cases h' : l'.lookup k with
    | none => rfl
    | some v =>
      have := lookup_of_mem_nodup hn (hp.mem_iff.mpr (lookup_mem h'))
      rw [h] at this; cases this

/-- a settings file means the same whatever the order of its lines, as long as no key occurs twice -/
theorem fileChoice_perm (env : Env) (d : Bool) {es es' : List (List Byte)} (hp : es.Perm es')
    (hn : ((es.filterMap kvOf).map (·.1)).Nodup) : fileChoice env d es = fileChoice env d es' := by
  unfold fileChoice
  apply evalSettings_congr
  intro i _
  unfold setting
  exact lookup_perm (hp.filterMap _) hn _

theorem find_perm_unique {α : Type} (p : α → Bool) {l l' : List α} (hp : l.Perm l')
    (hu : (l.filter p).length ≤ 1) : l.find? p = l'.find? p := by
  rw [← List.head?_filter, ← List.head?_filter]
  have hf : (l.filter p).Perm (l'.filter p) := hp.filter p
  match hl : l.filter p, hu with
  | [], _ =>
    rw [hl] at hf
    rw [List.nil_perm.mp hf] 
  | [a], _ =>
    rw [hl] at hf
    rw [List.singleton_perm.mp hf]

end QsmtpModel.Routes
