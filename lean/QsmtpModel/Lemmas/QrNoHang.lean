/-
C06 (terminates): no outcome of the model of qremote/qrdata.c + mime.c is `.hang`, the marker of the
places where the C code would loop without changing its state.  One lemma per function
(`f … = .error e → e ≠ .hang`), closed by a small extensible tactic; the two "cannot advance" tests of
the header scan need `getFieldLen_ge3` (a matched field name is at least 3 bytes long).
-/
import QsmtpModel.QrData
import QsmtpModel.Lemmas.QrPlain
import QsmtpModel.Lemmas.QrQp

namespace QsmtpModel.Mime
open QsmtpModel

/-- closes a goal `err ≠ .hang` (or `.error err ≠ .error .hang`, or `.ok _ ≠ …`) from a hypothesis
`f … = .error err` of a function already known not to hang; extended by `macro_rules` below -/
syntax "nh_close" : tactic
macro_rules | `(tactic| nh_close) => `(tactic| (exfalso; assumption))

/-- a leaf `X = .error .hang → False` -/
macro "nh_leaf" : tactic => `(tactic|
  (intro hh
   first
     | (cases hh; done)
     | contradiction
     | (simp only [Except.error.injEq] at hh; subst hh; first | contradiction | nh_close)
     | nh_close))

/-- unfold the Except monad, split every branch, close each leaf -/
macro "nh_auto" : tactic => `(tactic|
  (try simp only [bind, Except.bind, pure, Except.pure, throw, throwThe, MonadExceptOf.throw, Except.map, Functor.map] at *
   repeat' split
   all_goals nh_leaf))

theorem rd_nh {buf : List Byte} {i : Nat} {e : Stop} (h : rd buf i = .error e) : e ≠ .hang := by
  unfold rd at h; split at h <;> simp at h; subst h; simp
macro_rules | `(tactic| nh_close) => `(tactic| exact absurd rfl (rd_nh ‹_›))

theorem rdPrev_nh {buf : List Byte} {p : Nat} {e : Stop} (h : rdPrev buf p = .error e) : e ≠ .hang := by
  unfold rdPrev at h; split at h
  · simp at h; subst h; simp
  · exact rd_nh h
macro_rules | `(tactic| nh_close) => `(tactic| exact absurd rfl (rdPrev_nh ‹_›))

theorem braceStep_nh {buf : List Byte} {line c : Nat} {b : Int} {e : Stop} (h : braceStep buf line c b = .error e) : e ≠ .hang := by
  intro he; subst he
  revert h
  unfold braceStep
  nh_auto

macro_rules | `(tactic| nh_close) => `(tactic| exact absurd rfl (braceStep_nh ‹_›))

theorem skipWsGo_nh (buf : List Byte) (line c l : Nat) (mode : Option Int) : skipWsGo buf line c l mode ≠ .error .hang := by
  fun_induction skipWsGo buf line c l mode
  all_goals first | assumption | skip
  all_goals nh_leaf

theorem skipWs_nh {buf : List Byte} {s l : Nat} {e : Stop} (h : skipWs buf s l = .error e) : e ≠ .hang := by
  intro he; subst he; exact skipWsGo_nh _ _ _ _ _ h
macro_rules | `(tactic| nh_close) => `(tactic| exact absurd rfl (skipWs_nh ‹_›))

theorem mimeTokenGo_nh (buf : List Byte) (s l i : Nat) : mimeTokenGo buf s l i ≠ .error .hang := by
  fun_induction mimeTokenGo buf s l i
  all_goals first | assumption | skip
  all_goals nh_leaf

theorem mimeToken_nh {buf : List Byte} {s l : Nat} {e : Stop} (h : mimeToken buf s l = .error e) : e ≠ .hang := by
  intro he; subst he; exact mimeTokenGo_nh _ _ _ _ h
macro_rules | `(tactic| nh_close) => `(tactic| exact absurd rfl (mimeToken_nh ‹_›))

theorem quoteEnd_nh' (buf : List Byte) (s l i : Nat) : quoteEnd buf s l i ≠ .error .hang := by
  fun_induction quoteEnd buf s l i
  all_goals first | assumption | skip
  all_goals nh_leaf
theorem quoteEnd_nh {buf : List Byte} {s l i : Nat} {e : Stop} (h : quoteEnd buf s l i = .error e) : e ≠ .hang := by
  intro he; subst he; exact quoteEnd_nh' _ _ _ _ h
macro_rules | `(tactic| nh_close) => `(tactic| exact absurd rfl (quoteEnd_nh ‹_›))

theorem mimeParam_nh {buf : List Byte} {s l : Nat} {e : Stop} (h : mimeParam buf s l = .error e) : e ≠ .hang := by
  intro he; subst he
  revert h
  unfold mimeParam
  nh_auto
macro_rules | `(tactic| nh_close) => `(tactic| exact absurd rfl (mimeParam_nh ‹_›))

theorem caseEq_nh' (buf : List Byte) (pos : Nat) (l : List Byte) : caseEq buf pos l ≠ .error .hang := by
  induction l generalizing pos with
  | nil => simp [caseEq]
  | cons x xs ih =>
    unfold caseEq
    split
    · intro hh; simp only [Except.error.injEq] at hh; subst hh; nh_close
    · split
      · exact ih _
      · simp
theorem caseEq_nh {buf : List Byte} {pos : Nat} {l : List Byte} {e : Stop} (h : caseEq buf pos l = .error e) : e ≠ .hang := by
  intro he; subst he; exact caseEq_nh' _ _ _ h
macro_rules | `(tactic| nh_close) => `(tactic| exact absurd rfl (caseEq_nh ‹_›))

theorem unquotedLen_nh' (buf : List Byte) (s j : Nat) : unquotedLen buf s j ≠ .error .hang := by
  fun_induction unquotedLen buf s j
  all_goals first | assumption | simp
theorem unquotedLen_nh {buf : List Byte} {s j : Nat} {e : Stop} (h : unquotedLen buf s j = .error e) : e ≠ .hang := by
  intro he; subst he; exact unquotedLen_nh' _ _ _ h
macro_rules | `(tactic| nh_close) => `(tactic| exact absurd rfl (unquotedLen_nh ‹_›))

theorem boundaryChars_nh' (buf : List Byte) (s : Nat) (q : Bool) (j : Nat) : boundaryChars buf s q j ≠ .error .hang := by
  induction j with
  | zero => simp [boundaryChars]
  | succ j ih =>
    unfold boundaryChars
    split
    · intro hh; simp only [Except.error.injEq] at hh; subst hh; nh_close
    · split
      · exact ih
      · simp
theorem boundaryChars_nh {buf : List Byte} {s : Nat} {q : Bool} {j : Nat} {e : Stop} (h : boundaryChars buf s q j = .error e) : e ≠ .hang := by
  intro he; subst he; exact boundaryChars_nh' _ _ _ _ h
macro_rules | `(tactic| nh_close) => `(tactic| exact absurd rfl (boundaryChars_nh ‹_›))

theorem boundaryDef_nh {buf : List Byte} {ch : Nat} {e : Stop} (h : boundaryDef buf ch = .error e) : e ≠ .hang := by
  intro he; subst he
  revert h
  unfold boundaryDef
  nh_auto
macro_rules | `(tactic| nh_close) => `(tactic| exact absurd rfl (boundaryDef_nh ‹_›))

theorem paramLoop_nh' (buf : List Byte) (ch i : Nat) : paramLoop buf ch i ≠ .error .hang := by
  fun_induction paramLoop buf ch i
  case case5 =>
    intro hh; simp only [Except.error.injEq] at hh; subst hh
    rename_i hx
    simp +zetaDelta only at hx
    split at hx
    · exact absurd rfl (caseEq_nh hx)
    · cases hx
  all_goals first | assumption | skip
  all_goals nh_leaf
theorem paramLoop_nh {buf : List Byte} {ch i : Nat} {e : Stop} (h : paramLoop buf ch i = .error e) : e ≠ .hang := by
  intro he; subst he; exact paramLoop_nh' _ _ _ h
macro_rules | `(tactic| nh_close) => `(tactic| exact absurd rfl (paramLoop_nh ‹_›))

theorem isMultipart_nh {buf : List Byte} {e : Stop} (h : isMultipart buf = .error e) : e ≠ .hang := by
  intro he; subst he
  revert h
  unfold isMultipart
  nh_auto
macro_rules | `(tactic| nh_close) => `(tactic| exact absurd rfl (isMultipart_nh ‹_›))

theorem fieldGo_nh' (buf : List Byte) (cr r ph : Nat) : fieldGo buf cr r ph ≠ .error .hang := by
  fun_induction fieldGo buf cr r ph
  all_goals first | assumption | skip
  all_goals nh_leaf
theorem fieldGo_nh {buf : List Byte} {cr r ph : Nat} {e : Stop} (h : fieldGo buf cr r ph = .error e) : e ≠ .hang := by
  intro he; subst he; exact fieldGo_nh' _ _ _ _ h
macro_rules | `(tactic| nh_close) => `(tactic| exact absurd rfl (fieldGo_nh ‹_›))

theorem getFieldLen_nh {buf : List Byte} {s l : Nat} {e : Stop} (h : getFieldLen buf s l = .error e) : e ≠ .hang := by
  intro he; subst he
  revert h
  unfold getFieldLen
  nh_auto
macro_rules | `(tactic| nh_close) => `(tactic| exact absurd rfl (getFieldLen_nh ‹_›))

end QsmtpModel.Mime

namespace QsmtpModel.Mime
open QsmtpModel

/-- the remaining length never grows -/
theorem fieldGo_le (buf : List Byte) (cr r ph : Nat) : ∀ cr' r', fieldGo buf cr r ph = .ok (cr', r') → r' ≤ r := by
  fun_induction fieldGo buf cr r ph
  all_goals intro cr' r' h
  all_goals first
    | (cases h; done)
    | (simp only [Except.ok.injEq, Prod.mk.injEq] at h; omega)
    | (rename_i ih; have := ih cr' r' h; omega)
    | skip

end QsmtpModel.Mime

namespace QsmtpModel.Mime
open QsmtpModel

/-- `k` leading bytes that are neither CR nor LF are consumed by the first loop of getfieldlen() -/
theorem fieldGo_phase0 (buf : List Byte) : ∀ (k cr r : Nat), k ≤ r →
    (∀ j, j < k → ∃ x, buf[cr + j]? = some x ∧ x ≠ CR ∧ x ≠ LF) →
    ∀ cr' r', fieldGo buf cr r 0 = .ok (cr', r') → r' + k ≤ r := by
  intro k
  induction k with
  | zero => intro cr r _ _ cr' r' h; have := fieldGo_le buf cr r 0 cr' r' h; omega
  | succ k ih =>
    intro cr r hk hb cr' r' h
    unfold fieldGo at h
    have hr : ¬ r = 0 := by omega
    simp only [hr, if_false] at h
    obtain ⟨x, hx, hx1, hx2⟩ := hb 0 (by omega)
    have hrd : rd buf cr = .ok x := by simp only [Nat.add_zero] at hx; simp [rd, hx]
    rw [hrd] at h
    simp only [ne_eq, hx1, not_false_eq_true, hx2, and_self, if_true] at h
    have := ih (cr + 1) (r - 1) (by omega) (by
      intro j hj
      obtain ⟨y, hy, hy1, hy2⟩ := hb (j + 1) (by omega)
      exact ⟨y, by rw [show cr + 1 + j = cr + (j + 1) by omega]; exact hy, hy1, hy2⟩) cr' r' h
    omega

theorem caseEq_prefix2 (buf : List Byte) (pos : Nat) (a b : Byte) (l : List Byte)
    (h : caseEq buf pos (a :: b :: l) = .ok true) :
    ∃ x y, buf[pos]? = some x ∧ lower x = lower a ∧ buf[pos + 1]? = some y ∧ lower y = lower b := by
  unfold caseEq at h
  split at h
  · cases h
  · rename_i x hx
    split at h
    · rename_i hxa
      unfold caseEq at h
      split at h
      · cases h
      · rename_i y hy
        split at h
        · rename_i hyb
          refine ⟨x, y, ?_, hxa, ?_, hyb⟩
          · unfold rd at hx; split at hx <;> simp_all
          · unfold rd at hy; split at hy <;> simp_all
        · cases h
    · cases h

/-- a header field that starts with a letter and two more bytes that are no line ends has a
length of at least 3 (or `getfieldlen()` says 0: it runs to the end of the data) -/
theorem getFieldLen_ge3 (buf : List Byte) (off len n : Nat) (hlen : 3 ≤ len)
    (hb : ∀ j, j < 3 → ∃ x, buf[off + j]? = some x ∧ x ≠ CR ∧ x ≠ LF)
    (h : getFieldLen buf off len = .ok n) : n = 0 ∨ 2 < n := by
  unfold getFieldLen at h
  simp only [bind, Except.bind, pure, Except.pure] at h
  split at h
  · cases h
  · rename_i v hv
    obtain ⟨cr', r'⟩ := v
    simp only at h
    have hle := fieldGo_phase0 buf 3 off len hlen hb cr' r' hv
    split at h
    · cases h
    · simp only [Except.ok.injEq] at h
      split at h
      · right; omega
      · left; omega

end QsmtpModel.Mime

namespace QsmtpModel.QrData
open QsmtpModel QsmtpModel.Mime

theorem cpy_nh {buf : List Byte} {s n : Nat} {e : Stop} (h : cpy buf s n = .error e) : e ≠ .hang := by
  unfold cpy at h; split at h <;> simp at h; subst h; simp
macro_rules | `(tactic| nh_close) => `(tactic| exact absurd rfl (cpy_nh ‹_›))

theorem push_nh {cap : Nat} {sb bs : List Byte} {e : Stop} (h : push cap sb bs = .error e) : e ≠ .hang := by
  unfold push at h; split at h <;> simp at h; subst h; simp
macro_rules | `(tactic| nh_close) => `(tactic| exact absurd rfl (push_nh ‹_›))

theorem lastByte_nh {sb : List Byte} {e : Stop} (h : lastByte sb = .error e) : e ≠ .hang := by
  unfold lastByte at h; split at h <;> simp at h; subst h; simp
macro_rules | `(tactic| nh_close) => `(tactic| exact absurd rfl (lastByte_nh ‹_›))

theorem sendPlain_nh {buf : List Byte} {st : St} {e : Stop} (h : sendPlain buf st = .error e) : e ≠ .hang := by
  obtain ⟨st', h', _⟩ := sendPlain_spec buf st
  rw [h'] at h; cases h
macro_rules | `(tactic| nh_close) => `(tactic| exact absurd rfl (sendPlain_nh ‹_›))

theorem recodeQp_nh {buf : List Byte} {st : St} {e : Stop} (h : recodeQp buf st = .error e) : e ≠ .hang := by
  obtain ⟨st', h'⟩ := recodeQp_ok buf st
  rw [h'] at h; cases h
macro_rules | `(tactic| nh_close) => `(tactic| exact absurd rfl (recodeQp_nh ‹_›))

theorem scanDown_nh {buf : List Byte} {p s : Nat} {e : Stop} (h : scanDown buf p s = .error e) : e ≠ .hang := by
  intro he; subst he
  revert h
  unfold scanDown
  nh_auto
macro_rules | `(tactic| nh_close) => `(tactic| exact absurd rfl (scanDown_nh ‹_›))

theorem scanUp_nh {buf : List Byte} {p s : Nat} {e : Stop} (h : scanUp buf p s = .error e) : e ≠ .hang := by
  intro he; subst he
  revert h
  unfold scanUp
  nh_auto
macro_rules | `(tactic| nh_close) => `(tactic| exact absurd rfl (scanUp_nh ‹_›))

theorem foldAt_nh {buf : List Byte} {p : Nat} {e : Stop} (h : foldAt buf p = .error e) : e ≠ .hang := by
  intro he; subst he
  revert h
  unfold foldAt
  nh_auto
macro_rules | `(tactic| nh_close) => `(tactic| exact absurd rfl (foldAt_nh ‹_›))

theorem wrapGo_nh' (buf : List Byte) (pos off : Nat) (sb : List Byte) (st : St) : wrapGo buf pos off sb st ≠ .error .hang := by
  fun_induction wrapGo buf pos off sb st
  all_goals first | assumption | skip
  case case1 =>
    rename_i h h0
    have : Gen.wrapLineMin = 970 := rfl
    omega
  all_goals nh_leaf

theorem wrapLine_nh {buf : List Byte} {st : St} {e : Stop} (h : wrapLine buf st = .error e) : e ≠ .hang := by
  intro he; subst he
  unfold wrapLine at h
  split at h
  · simp only [Except.error.injEq] at h; subst h; nh_close
  · exact wrapGo_nh' _ _ _ _ _ h
macro_rules | `(tactic| nh_close) => `(tactic| exact absurd rfl (wrapLine_nh ‹_›))

theorem sendWrapped_nh {buf : List Byte} {pos off ll : Nat} {st : St} {e : Stop} (h : sendWrapped buf pos off ll st = .error e) : e ≠ .hang := by
  intro he; subst he
  revert h
  unfold sendWrapped
  nh_auto
macro_rules | `(tactic| nh_close) => `(tactic| exact absurd rfl (sendWrapped_nh ‹_›))

theorem wrapHeaderGo_nh' (buf : List Byte) (pos off ll : Nat) (st : St) : wrapHeaderGo buf pos off ll st ≠ .error .hang := by
  fun_induction wrapHeaderGo buf pos off ll st
  all_goals first | assumption | skip
  all_goals nh_leaf

theorem wrapHeader_nh {buf : List Byte} {st : St} {e : Stop} (h : wrapHeader buf st = .error e) : e ≠ .hang := by
  intro he; subst he
  unfold wrapHeader at h
  split at h
  · exact absurd rfl (sendPlain_nh h)
  · exact wrapHeaderGo_nh' _ _ _ _ _ h
macro_rules | `(tactic| nh_close) => `(tactic| exact absurd rfl (wrapHeader_nh ‹_›))

end QsmtpModel.QrData

namespace QsmtpModel.QrData
open QsmtpModel QsmtpModel.Mime

theorem lower_o_ne (x : Byte) (h : lower x = lower 111) : x ≠ CR ∧ x ≠ LF := by
  constructor <;> (intro e; subst e; revert h; decide)
theorem lower_n_ne (x : Byte) (h : lower x = lower 110) : x ≠ CR ∧ x ≠ LF := by
  constructor <;> (intro e; subst e; revert h; decide)

/-- the situation of the two "cannot advance" tests of the header scan: a field name was matched,
so the field is at least 3 bytes long -/
theorem field_ge3 (buf : List Byte) (off n : Nat) (c : Byte) (l : List Byte)
    (hc : buf[off]? = some c) (hcc : c = 99 ∨ c = 67)
    (hrest : buf.length - off > (111 :: 110 :: l).length)
    (hm : caseEq buf (off + 1) (111 :: 110 :: l) = .ok true)
    (hn : getFieldLen buf off (buf.length - off) = .ok n) : n = 0 ∨ 2 < n := by
  obtain ⟨x, y, hx, hxl, hy, hyl⟩ := caseEq_prefix2 buf (off + 1) 111 110 l hm
  apply getFieldLen_ge3 buf off _ n (by simp at hrest; omega) _ hn
  intro j hj
  have hj' : j = 0 ∨ j = 1 ∨ j = 2 := by omega
  rcases hj' with rfl | rfl | rfl
  · refine ⟨c, hc, ?_, ?_⟩ <;> (rcases hcc with rfl | rfl <;> decide)
  · exact ⟨x, hx, (lower_o_ne x hxl).1, (lower_o_ne x hxl).2⟩
  · exact ⟨y, by rw [show off + 2 = off + 1 + 1 by omega]; exact hy, (lower_n_ne y hyl).1, (lower_n_ne y hyl).2⟩

theorem hdrScan_nh' (buf : List Byte) (off : Nat) (s : HdrScan) : hdrScan buf off s ≠ .error .hang := by
  fun_induction hdrScan buf off s
  all_goals first | assumption | skip
  case case6 =>
    rename_i hx
    intro hh; simp only [Except.error.injEq] at hh; subst hh
    split at hx
    · exact absurd rfl (caseEq_nh hx)
    · cases hx
  case case11 =>
    rename_i hx
    intro hh; simp only [Except.error.injEq] at hh; subst hh
    split at hx
    · exact absurd rfl (caseEq_nh hx)
    · cases hx
  case case9 =>
    rename_i hc _ _ hcc rest hm n hn hn0 hn2
    exfalso
    split at hm
    · rename_i hrest
      have hlit : Gen.hdrContentType = 111 :: 110 :: Gen.hdrContentType.drop 2 := rfl
      rw [hlit] at hm hrest
      rcases field_ge3 buf _ n _ _ hc hcc hrest hm hn with h | h <;> omega
    · cases hm
  case case14 =>
    rename_i hc _ _ hcc rest _ hm n hn hn0 hn2
    exfalso
    split at hm
    · rename_i hrest
      have hlit : Gen.hdrContentTrEnc = 111 :: 110 :: Gen.hdrContentTrEnc.drop 2 := rfl
      rw [hlit] at hm hrest
      rcases field_ge3 buf _ n _ _ hc hcc hrest hm hn with h | h <;> omega
    · cases hm
  all_goals nh_leaf

theorem hdrScan_nh {buf : List Byte} {off : Nat} {s : HdrScan} {e : Stop} (h : hdrScan buf off s = .error e) : e ≠ .hang := by
  intro he; subst he; exact hdrScan_nh' _ _ _ h
macro_rules | `(tactic| nh_close) => `(tactic| exact absurd rfl (hdrScan_nh ‹_›))

end QsmtpModel.QrData

namespace QsmtpModel.QrData
open QsmtpModel QsmtpModel.Mime

/-- split a hypothesis `h : (nested matches and ifs) = .error .hang` down to its leaves -/
syntax "nh_hyp " ident : tactic
macro_rules
  | `(tactic| nh_hyp $h:ident) => `(tactic| first
      | (cases $h:ident; done)
      | contradiction
      | (split at $h:ident <;> nh_hyp $h:ident)
      | (simp only [Except.error.injEq] at $h:ident; subst $h:ident; first | contradiction | nh_close | (rename_i hq; nh_hyp hq))
      | nh_close)

set_option maxHeartbeats 4000000 in
theorem qpHeader_nh {cfg : Cfg} {buf : List Byte} {br : Bool} {st : St} {e : Stop}
    (h : qpHeader cfg buf br st = .error e) : e ≠ .hang := by
  intro he; subst he
  unfold qpHeader at h
  simp only [bind, Except.bind, pure, Except.pure, throw, throwThe, MonadExceptOf.throw] at h
  split at h
  · nh_hyp h
  · rename_i v hv
    generalize ((if v = CR then (if buf[1]? = some LF then 2 else 1) else if v = LF then 1 else 0) : Nat) = header0 at h
    nh_hyp h
macro_rules | `(tactic| nh_close) => `(tactic| exact absurd rfl (qpHeader_nh ‹_›))

end QsmtpModel.QrData

namespace QsmtpModel.QrData
open QsmtpModel QsmtpModel.Mime

macro_rules | `(tactic| nh_close) => `(tactic| (exfalso; apply_assumption; assumption))

theorem partLoop_nh' (cfg : Cfg) (buf bd : List Byte) (hlen : 0 < buf.length)
    (rec : (p : List Byte) → p.length < buf.length → St → R St)
    (hrec : ∀ p hp st, rec p hp st ≠ .error .hang)
    (off : Nat) (hoff : 0 < off) (islast : Bool) (st : St) :
    partLoop cfg buf bd hlen rec off hoff islast st ≠ .error .hang := by
  fun_induction partLoop cfg buf bd hlen rec off hoff islast st
  all_goals first | assumption | skip
  case case1 =>
    intro hh
    simp +zetaDelta only at hh
    nh_hyp hh
  case case7 =>
    intro hh
    simp +zetaDelta only at hh
    nh_hyp hh
  case case2 =>
    rename_i hx
    intro hh; simp only [Except.error.injEq] at hh; subst hh
    nh_hyp hx
  all_goals nh_leaf


theorem sendQp_nh' (cfg : Cfg) : ∀ (n : Nat) (buf : List Byte) (st : St), buf.length ≤ n → sendQp cfg buf st ≠ .error .hang := by
  intro n
  induction n with
  | zero =>
    intro buf st hn
    unfold sendQp
    simp [show buf.length = 0 by omega]
  | succ n ih =>
    intro buf st hn
    have hrec : ∀ (p : List Byte) (hp : p.length < buf.length) (st : St), (fun p (_ : p.length < buf.length) st => sendQp cfg p st) p hp st ≠ .error .hang :=
      fun p hp st => ih p st (by omega)
    unfold sendQp
    intro hh
    split at hh
    · cases hh
    · simp only at hh
      split at hh
      · nh_hyp hh
      · nh_hyp hh
      · split at hh
        · nh_hyp hh
        · split at hh
          · nh_hyp hh
          · split at hh
            · exact partLoop_nh' cfg buf _ _ _ hrec _ _ _ _ hh
            · exact partLoop_nh' cfg buf _ _ _ hrec _ _ _ _ hh

theorem sendQp_nh {cfg : Cfg} {buf : List Byte} {st : St} {e : Stop} (h : sendQp cfg buf st = .error e) : e ≠ .hang := by
  intro he; subst he; exact sendQp_nh' cfg _ buf st (Nat.le_refl _) h
macro_rules | `(tactic| nh_close) => `(tactic| exact absurd rfl (sendQp_nh ‹_›))

/-- **send_data() never stalls**: none of the places where the C code could loop without changing its
state is reachable, for any message and any configuration. -/
theorem sendData_nh (cfg : Cfg) (m : List Byte) : sendData cfg m ≠ .error .hang := by
  unfold sendData
  intro hh
  simp only at hh
  nh_hyp hh

end QsmtpModel.QrData
