/-
Lemmas about the quoted-printable reference decoder: a one-pass decoder `wireDec` that un-dots and
decodes at once, equal to `qpDecode ∘ unDot` (`qpDecode_unDotAux`), and its behaviour on
concatenations (`wireDec_append`).  No model involved.
-/
import QsmtpModel.Lemmas.SmtpSpec

set_option linter.unusedSimpArgs false
set_option linter.unusedVariables false

namespace QsmtpModel.Spec
open QsmtpModel

def isLit (c : Byte) : Prop := c = TAB ∨ (32 ≤ c.toNat ∧ c.toNat ≤ 126)
instance (c : Byte) : Decidable (isLit c) := by unfold isLit; exact inferInstance

/-- un-dot and quoted-printable decode in one pass; `bol` = at the beginning of a line -/
def wireDec : Bool → List Byte → Option (List Byte)
  | _, [] => some []
  | bol, c :: rest =>
    if bol = true ∧ c = DOT then wireDec false rest
    else if c = 61 then
      match rest with
      | a :: b :: rest' =>
        if a = CR ∧ b = LF then wireDec true rest'
        else match unhexUpper a, unhexUpper b with
          | some x, some y => (wireDec false rest').map (UInt8.ofNat (x * 16 + y) :: ·)
          | _, _ => none
      | _ => none
    else if c = CR then
      match rest with
      | d :: rest' => if d = LF then (wireDec true rest').map (CR :: LF :: ·) else none
      | [] => none
    else if isLit c then (wireDec false rest).map (c :: ·)
    else none

theorem unhex_ne (a : Byte) (x : Nat) (h : unhexUpper a = some x) : a ≠ LF ∧ a ≠ CR ∧ a ≠ DOT := by
  have h1 : unhexUpper LF = none := by decide
  have h2 : unhexUpper CR = none := by decide
  have h3 : unhexUpper DOT = none := by decide
  refine ⟨?_, ?_, ?_⟩ <;> (intro e; subst e; simp_all)

theorem qpDecode_eq (c : Byte) (rest : List Byte) :
    qpDecode (c :: rest) =
      if c = 61 then
        match rest with
        | a :: b :: rest' =>
          if a = CR ∧ b = LF then qpDecode rest'
          else match unhexUpper a, unhexUpper b with
            | some x, some y => (qpDecode rest').map (UInt8.ofNat (x * 16 + y) :: ·)
            | _, _ => none
        | _ => none
      else if c = CR then
        match rest with
        | d :: rest' => if d = LF then (qpDecode rest').map (CR :: LF :: ·) else none
        | [] => none
      else if c = TAB ∨ (32 ≤ c.toNat ∧ c.toNat ≤ 126) then (qpDecode rest).map (c :: ·)
      else none := by
  rw [qpDecode.eq_def]; rfl

theorem unDotAux_cons_ne (bol : Bool) (c : Byte) (rest : List Byte) (h : ¬ (bol = true ∧ c = DOT)) :
    unDotAux bol (c :: rest) = c :: unDotAux (decide (c = LF)) rest := by
  rw [unDotAux, if_neg h]

theorem unDotAux_false_cons (c : Byte) (rest : List Byte) :
    unDotAux false (c :: rest) = c :: unDotAux (decide (c = LF)) rest := by
  rw [unDotAux]; simp

/-- the one-pass decoder is un-dotting followed by quoted-printable decoding -/
theorem eq_ne : (61 : Byte) ≠ DOT ∧ (61 : Byte) ≠ LF ∧ (61 : Byte) ≠ CR := by decide
theorem isLit_ne (c : Byte) (h : isLit c) : c ≠ LF ∧ c ≠ CR := by
  unfold isLit at h
  constructor <;> (intro e; subst e; revert h; decide)

theorem unDot3 (bol : Bool) (a b : Byte) (rest : List Byte) (ha : a ≠ DOT ∨ bol = false) (hal : a ≠ LF) (hb : b ≠ DOT) :
    unDotAux bol (a :: b :: rest) = a :: b :: unDotAux (decide (b = LF)) rest := by
  have h1 : ¬ (bol = true ∧ a = DOT) := by
    rcases ha with h | h
    · exact fun x => h x.2
    · simp [h]
  rw [unDotAux_cons_ne _ _ _ h1]
  have : decide (a = LF) = false := by simp [hal]
  rw [this, unDotAux_false_cons]

theorem qpDecode_unDotAux (bol : Bool) (x : List Byte) : qpDecode (unDotAux bol x) = wireDec bol x := by
  obtain ⟨e1, e2, e3⟩ := eq_ne
  fun_induction wireDec bol x
  case case1 => simp [unDotAux, qpDecode]
  case case2 bol c rest h ih =>
    obtain ⟨rfl, rfl⟩ := h
    rw [unDotAux]; simpa using ih
  case case3 bol a b rest' h hd ih =>
    obtain ⟨rfl, rfl⟩ := h
    rw [unDotAux_cons_ne _ _ _ hd]
    have : decide ((61 : Byte) = LF) = false := by simp [e2]
    rw [this, unDot3 false CR LF rest' (Or.inr rfl) (by decide) (by decide), qpDecode_eq]
    simpa using ih
  case case4 bol a b rest' hn x y hy hx hd ih =>
    obtain ⟨al, ac, ad⟩ := unhex_ne a x hx
    obtain ⟨bl, bc, bd⟩ := unhex_ne b y hy
    rw [unDotAux_cons_ne _ _ _ hd]
    have : decide ((61 : Byte) = LF) = false := by simp [e2]
    rw [this, unDot3 false a b rest' (Or.inr rfl) al bd, qpDecode_eq]
    simp only [if_true, ac, false_and, if_false, hx, hy, bl, decide_false]
    rw [ih]
  case case5 bol a b rest' hn hnone hd =>
    rw [unDotAux_cons_ne _ _ _ hd]
    have : decide ((61 : Byte) = LF) = false := by simp [e2]
    rw [this, unDotAux_false_cons]
    -- whatever un-dotting does behind `a`, the escape is invalid
    cases hxa : unhexUpper a with
    | none =>
      cases hrest : unDotAux (decide (a = LF)) (b :: rest') with
      | nil => rw [qpDecode_eq]; simp
      | cons b' r' =>
        rw [qpDecode_eq]
        simp only [if_true, hxa]
        have hb' : a = CR → b' = LF → False := by
          intro hac hbl
          subst hac
          have : decide (CR = LF) = false := by decide
          rw [this, unDotAux_false_cons] at hrest
          simp only [List.cons.injEq] at hrest
          exact hn ⟨rfl, hrest.1.trans hbl⟩
        by_cases hcl : a = CR ∧ b' = LF
        · exact absurd hcl.2 (hb' hcl.1)
        · simp [hcl]
    | some xa =>
      obtain ⟨al, ac, ad⟩ := unhex_ne a xa hxa
      have : decide (a = LF) = false := by simp [al]
      rw [this, unDotAux_false_cons, qpDecode_eq]
      simp only [if_true, ac, false_and, if_false, hxa]
      cases hxb : unhexUpper b with
      | none => simp
      | some yb => exact absurd hxb (fun h => hnone xa yb hxa h)
  case case6 bol rest hshort hd =>
    rw [unDotAux_cons_ne _ _ _ hd, qpDecode_eq]
    simp only [if_true]
    match rest, hshort with
    | [], _ => simp [unDotAux]
    | [a], _ =>
      have : decide ((61 : Byte) = LF) = false := by simp [e2]
      rw [this, unDotAux_false_cons]; simp [unDotAux]
    | a :: b :: r, h => exact absurd rfl (h a b r)
  case case7 bol rest' hd hne ih =>
    rw [unDot3 bol CR LF rest' (Or.inl (by decide)) (by decide) (by decide), qpDecode_eq]
    simp only [hne, if_false, if_true]
    simpa using congrArg (Option.map (fun x => CR :: LF :: x)) ih
  case case8 bol d rest' hdl hd hne =>
    rw [unDotAux_cons_ne _ _ _ hd]
    have : decide (CR = LF) = false := by decide
    rw [this, unDotAux_false_cons, qpDecode_eq]
    simp [hne, hdl]
  case case9 bol hd hne =>
    rw [unDotAux_cons_ne _ _ _ hd, qpDecode_eq]
    simp [hne, unDotAux]
  case case10 bol c rest hd hne hcr hlit ih =>
    obtain ⟨cl, _⟩ := isLit_ne c hlit
    rw [unDotAux_cons_ne _ _ _ hd]
    have : decide (c = LF) = false := by simp [cl]
    rw [this, qpDecode_eq]
    have hl : c = TAB ∨ (32 ≤ c.toNat ∧ c.toNat ≤ 126) := hlit
    simp only [hne, hcr, if_false, hl, if_true]
    rw [ih]
  case case11 bol c rest hd hne hcr hlit =>
    rw [unDotAux_cons_ne _ _ _ hd, qpDecode_eq]
    have hl : ¬ (c = TAB ∨ (32 ≤ c.toNat ∧ c.toNat ≤ 126)) := hlit
    simp only [hne, hcr, if_false, hl]


theorem wireDec_cons (bol : Bool) (c : Byte) (rest : List Byte) :
    wireDec bol (c :: rest) =
      if bol = true ∧ c = DOT then wireDec false rest
      else if c = 61 then
        match rest with
        | a :: b :: rest' =>
          if a = CR ∧ b = LF then wireDec true rest'
          else match unhexUpper a, unhexUpper b with
            | some x, some y => (wireDec false rest').map (UInt8.ofNat (x * 16 + y) :: ·)
            | _, _ => none
        | _ => none
      else if c = CR then
        match rest with
        | d :: rest' => if d = LF then (wireDec true rest').map (CR :: LF :: ·) else none
        | [] => none
      else if isLit c then (wireDec false rest).map (c :: ·)
      else none := by
  conv => lhs; rw [wireDec.eq_def]

/-- decoding a concatenation whose first part decodes on its own -/
theorem wireDec_append (bol : Bool) (v x : List Byte) : ∀ a, wireDec bol v = some a →
    wireDec bol (v ++ x) = (wireDec (bolAfter bol v) x).map (a ++ ·) := by
  obtain ⟨e1, e2, e3⟩ := eq_ne
  fun_induction wireDec bol v
  case case1 bol => intro a h; simp at h; subst h; simp [bolAfter]
  case case2 bol c rest h ih =>
    intro a ha
    obtain ⟨rfl, rfl⟩ := h
    rw [List.cons_append, wireDec_cons]
    simp only [and_self, if_true]
    rw [ih a ha, bolAfter_cons]; simp [dot_ne_lf']
  case case3 bol a b rest' h hd ih =>
    intro r hr
    obtain ⟨rfl, rfl⟩ := h
    rw [List.cons_append, List.cons_append, List.cons_append, wireDec_cons]
    simp only [hd, if_false, if_true, and_self]
    rw [ih r hr, bolAfter_cons, bolAfter_cons, bolAfter_cons]; simp
  case case4 bol a b rest' hn x y hy hx hd ih =>
    intro r hr
    obtain ⟨bl, _, _⟩ := unhex_ne b y hy
    cases hw : wireDec false rest' with
    | none => simp [hw] at hr
    | some r' =>
      simp only [hw, Option.map_some, Option.some.injEq] at hr
      subst hr
      rw [List.cons_append, List.cons_append, List.cons_append, wireDec_cons]
      simp only [hd, if_false, if_true, hn, hx, hy]
      rw [ih r' hw, bolAfter_cons, bolAfter_cons, bolAfter_cons]
      simp [bl]
      rfl
  case case5 => intro a h; simp at h
  case case6 => intro a h; simp at h
  case case7 bol rest' hd hne ih =>
    intro r hr
    cases hw : wireDec true rest' with
    | none => simp [hw] at hr
    | some r' =>
      simp only [hw, Option.map_some, Option.some.injEq] at hr
      subst hr
      rw [List.cons_append, List.cons_append, wireDec_cons]
      simp only [hd, hne, if_false, if_true]
      rw [ih r' hw, bolAfter_cons, bolAfter_cons]
      simp
      rfl
  case case8 => intro a h; simp at h
  case case9 => intro a h; simp at h
  case case10 bol c rest hd hne hcr hlit ih =>
    intro r hr
    obtain ⟨cl, _⟩ := isLit_ne c hlit
    cases hw : wireDec false rest with
    | none => simp [hw] at hr
    | some r' =>
      simp only [hw, Option.map_some, Option.some.injEq] at hr
      subst hr
      rw [List.cons_append, wireDec_cons]
      simp only [hd, hne, hcr, hlit, if_false, if_true]
      rw [ih r' hw, bolAfter_cons]
      simp [cl]
      rfl
  case case11 => intro a h; simp at h

end QsmtpModel.Spec
