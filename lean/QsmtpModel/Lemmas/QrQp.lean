/-
Helper lemmas for C06/C07, quoted-printable path: recode_qp() never reads outside its input, never
writes outside its 1280 byte staging buffer and never stalls.
-/
import QsmtpModel.Lemmas.QrPlain

set_option linter.unusedSimpArgs false
set_option linter.unusedVariables false

namespace QsmtpModel.QrData
open QsmtpModel QsmtpModel.Mime QsmtpModel.Spec

theorem qpCap_eq : qpCap = 1280 := rfl
theorem qpLim_eq : qpLim = 1269 := rfl

theorem softTail_len (buf : List Byte) (off : Nat) (sb : List Byte) :
    (softTail buf off sb).1.length ≤ sb.length + 2 := by
  unfold softTail
  split
  · simp
  · rename_i l hl
    have hne : sb ≠ [] := by intro h; simp [h] at hl
    have hd : sb.dropLast.length + 1 = sb.length := by
      rw [List.length_dropLast]; have := List.length_pos_iff.mpr hne; omega
    split
    · split
      · split <;> (try split) <;> simp <;> omega
      · split <;> simp <;> omega
    · simp

theorem softTail_take (buf : List Byte) (off : Nat) (sb : List Byte) (h : (softTail buf off sb).2 = true) :
    off < buf.length := by
  unfold softTail at h
  split at h
  · simp at h
  · split at h
    · split at h
      · rename_i x hx; exact (List.getElem?_eq_some_iff.mp hx).1
      · simp at h
    · simp at h

theorem softTail_take_pos (buf : List Byte) (off : Nat) (sb : List Byte) (h : (softTail buf off sb).2 = true) :
    0 < (softTail buf off sb).1.length := by
  unfold softTail at h ⊢
  split
  · simp_all
  · split
    · split
      · split <;> simp_all
      · simp_all
    · simp_all

theorem length_wsEnc (c : Byte) : (if c = TAB then [EQ, 48, 57] else [EQ, 50, 48] : List Byte).length = 3 := by
  split <;> rfl

theorem qpGo_ok (buf : List Byte) (off chunk llen : Nat) (sb : List Byte) (st : St)
    (h1 : off + chunk ≤ buf.length) (h2 : sb.length + chunk ≤ qpLim + 5)
    (h3 : 0 < sb.length + chunk ∨ off + chunk < buf.length) :
    ∃ st', qpGo buf off chunk llen sb st = .ok st' := by
  fun_induction qpGo buf off chunk llen sb st
  case case11 off chunk llen sb st h ih =>
    have hp := peek_none h
    simp only [qpLim_eq, qpCap_eq] at *
    have hpos : 0 < sb.length + chunk := by omega
    rw [cpy_ok (by omega), bind_ok, push_ok (by simp; omega), bind_ok]
    have hlen : (sb ++ (buf.drop off).take chunk).length = sb.length + chunk := by simp; omega
    have hne : sb ++ (buf.drop off).take chunk ≠ [] := by
      intro h0; rw [h0] at hlen; simp at hlen; omega
    obtain ⟨l, hl⟩ : ∃ l, lastByte (sb ++ (buf.drop off).take chunk) = .ok l := by
      unfold lastByte
      cases hx : (sb ++ (buf.drop off).take chunk).getLast? with
      | none => exact absurd (List.getLast?_eq_none_iff.mp hx) hne
      | some l => exact ⟨l, rfl⟩
    by_cases hlt : off + chunk < buf.length
    · simp only [hlt, if_true, hne, if_false, hl, hpos]
      exact ih hlt _ hpos (by omega) (by simp) (by simp; omega)
    · simp only [hlt, if_false, hl, bind_ok]
      exact ⟨_, rfl⟩
  all_goals have hp := peek_some (by assumption)
  all_goals simp only [qpLim_eq, qpCap_eq] at *
  case case1 hlf _ ih =>
    have := (List.getElem?_eq_some_iff.mp hlf).1
    exact ih (by omega) (by omega) (by omega)
  case case2 ih =>
    rw [cpy_ok (by omega), bind_ok, push_ok (by simp; omega), bind_ok]
    exact ih _ (by omega) (by simp; omega) (by simp; omega)
  case case3 ih =>
    rw [cpy_ok (by omega), bind_ok, push_ok (by simp; omega), bind_ok]
    exact ih _ (by omega) (by simp; omega) (by simp; omega)
  case case4 off chunk llen sb st c _ _ _ _ ih3 ih2 ih1 =>
    rw [cpy_ok (by omega), bind_ok, push_ok (by simp; omega), bind_ok]
    have hl := softTail_len buf (off + chunk) (sb ++ (buf.drop off).take chunk)
    have hlen : (sb ++ (buf.drop off).take chunk).length = sb.length + chunk := by simp; omega
    split
    · rename_i ht
      have := softTail_take _ _ _ ht
      split
      · rename_i hend
        have hpos := softTail_take_pos _ _ _ ht
        rw [push_ok (by simp; omega), bind_ok]
        exact ih3 hend _ (by omega) (by simp; omega) (by simp; omega)
      · rw [push_ok (by simp; omega), bind_ok]
        exact ih2 _ (by omega) (by simp; omega) (by simp)
    · rw [push_ok (by simp; omega), bind_ok]
      exact ih1 _ (by omega) (by simp; omega) (by simp)
  case case5 ih =>
    rw [cpy_ok (by omega), bind_ok, push_ok (by simp; omega), bind_ok]
    exact ih _ (by omega) (by simp; omega) (by simp; omega)
  case case6 ih =>
    rw [cpy_ok (by omega), bind_ok, push_ok (by simp [length_wsEnc]; omega), bind_ok]
    exact ih _ (by omega) (by simp [length_wsEnc]; omega) (by simp [length_wsEnc]; omega)
  case case7 off chunk llen sb st c _ _ _ _ _ _ d hd hdd ih2 ih1 =>
    have hdlen := (List.getElem?_eq_some_iff.mp hd).1
    rw [cpy_ok (by omega), bind_ok, push_ok (by simp [length_wsEnc]; omega), bind_ok]
    split
    · split
      · rename_i hlf
        have := (List.getElem?_eq_some_iff.mp hlf).1
        exact ih2 _ (by omega) (by simp [length_wsEnc]; omega) (by simp [length_wsEnc]; omega)
      · exact ih1 _ (by omega) (by simp [length_wsEnc]; omega) (by simp [length_wsEnc]; omega)
    · exact ih1 _ (by omega) (by simp [length_wsEnc]; omega) (by simp [length_wsEnc]; omega)
  case case8 ih => exact ih (by omega) (by omega) (by omega)
  case case9 ih =>
    rw [cpy_ok (by omega), bind_ok, push_ok (by simp [qpEnc]; omega), bind_ok]
    exact ih _ (by omega) (by simp [qpEnc]; omega) (by simp [qpEnc]; omega)
  case case10 ih => exact ih (by omega) (by omega) (by omega)

/-- recode_qp(): no fault, no hang, for every input -/
theorem recodeQp_ok (buf : List Byte) (st : St) : ∃ st', recodeQp buf st = .ok st' := by
  unfold recodeQp
  split
  · exact ⟨st, rfl⟩
  · exact qpGo_ok buf 0 0 0 [] st (by omega) (by simp) (by simp; omega)

end QsmtpModel.QrData
