import QsmtpModel.Match
import QsmtpModel.Spec.Control
namespace QsmtpModel.Lemmas
open QsmtpModel QsmtpModel.Match

/-- The proofs below depend on the extracted constants only through these facts;
when `Gen` changes they are re-checked (and break if a constant moved). -/
theorem m_wordBits_eq : Gen.matchWordBits = 32 := rfl
theorem m_wordBits6_eq : Gen.matchWordBits6 = 32 := rfl
theorem m_ip4WordIndex_eq : Gen.ip4WordIndex = 3 := rfl
theorem m_ipblMinMask_eq : Gen.ipblMinMask = 8 := rfl
theorem m_ipblBitsPerByte_eq : Gen.ipblBitsPerByte = 8 := rfl
theorem m_ipblRecordExtra_eq : Gen.ipblRecordExtra = 1 := rfl
theorem m_ipblIplen4_eq : Gen.ipblIplen4 = 4 := rfl
theorem m_ipblIplen6_eq : Gen.ipblIplen6 = 16 := rfl

/-! ### bits of a big-endian value -/

theorem m_beVal_lt (a : List Byte) : beVal a < 2 ^ (8 * a.length) := by
  induction a with
  | nil => simp [beVal]
  | cons b tl ih =>
    simp only [beVal, List.length_cons]
    have hb : b.toNat < 256 := UInt8.toNat_lt b
    have h256 : (256 : Nat) ^ tl.length = 2 ^ (8 * tl.length) := by
      rw [show (256 : Nat) = 2 ^ 8 from rfl, ← Nat.pow_mul]
    rw [h256]
    have hs : 2 ^ (8 * (tl.length + 1)) = 256 * 2 ^ (8 * tl.length) := by
      rw [show 8 * (tl.length + 1) = 8 + 8 * tl.length by omega, Nat.pow_add]
    rw [hs]
    have : b.toNat * 2 ^ (8 * tl.length) ≤ 255 * 2 ^ (8 * tl.length) :=
      Nat.mul_le_mul_right _ (by omega)
    omega

theorem m_bitAt_cons_add (b : Byte) (tl : List Byte) (i : Nat) :
    Spec.bitAt (b :: tl) (i + 8) = Spec.bitAt tl i := by
  unfold Spec.bitAt
  have h1 : (i + 8) / 8 = i / 8 + 1 := by omega
  have h2 : (i + 8) % 8 = i % 8 := by omega
  rw [h1, h2]
  simp

theorem m_bitAt_cons_lt (b : Byte) (tl : List Byte) (i : Nat) (h : i < 8) :
    Spec.bitAt (b :: tl) i = b.toNat.testBit (7 - i) := by
  unfold Spec.bitAt
  have h1 : i / 8 = 0 := by omega
  have h2 : i % 8 = i := by omega
  rw [h1, h2]
  simp

theorem m_beVal_testBit (a : List Byte) (j : Nat) (hj : j < 8 * a.length) :
    (beVal a).testBit j = Spec.bitAt a (8 * a.length - 1 - j) := by
  induction a with
  | nil => simp at hj
  | cons b tl ih =>
    simp only [beVal, List.length_cons] at hj ⊢
    have h256 : (256 : Nat) ^ tl.length = 2 ^ (8 * tl.length) := by
      rw [show (256 : Nat) = 2 ^ 8 from rfl, ← Nat.pow_mul]
    rw [h256, Nat.mul_comm, Nat.testBit_two_pow_mul_add _ (m_beVal_lt tl)]
    split
    · rename_i hlt
      rw [ih hlt]
      have : 8 * (tl.length + 1) - 1 - j = (8 * tl.length - 1 - j) + 8 := by omega
      rw [this, m_bitAt_cons_add]
    · rename_i hge
      rw [m_bitAt_cons_lt _ _ _ (by omega)]
      congr 1
      omega

/-- bit `i` (from the top) of a four-byte word -/
theorem m_bitAt_word (a : List Byte) (ha : a.length = 4) (i : Nat) (hi : i < 32) :
    Spec.bitAt a i = (beVal a).testBit (31 - i) := by
  rw [m_beVal_testBit a (31 - i) (by omega), ha]
  congr 1
  omega

/-! ### masks -/

theorem m_testBit_mask (k j : Nat) (hk : k ≤ 32) :
    (2 ^ 32 - 2 ^ k).testBit j = (decide (k ≤ j) && decide (j < 32)) := by
  have h : 2 ^ 32 - 2 ^ k = (2 ^ (32 - k) - 1) * 2 ^ k := by
    rw [Nat.sub_mul, ← Nat.pow_add, Nat.one_mul]
    congr 2
    omega
  rw [h, Nat.testBit_mul_two_pow, Nat.testBit_two_pow_sub_one]
  by_cases h1 : k ≤ j
  · simp only [h1, decide_true, Bool.true_and]
    congr 1
    apply propext
    omega
  · simp [h1]

/-- comparing under the mask with the top `c` bits set = comparing the top `c` bits -/
theorem m_masked_eq (x y c : Nat) (hc : c ≤ 32) :
    ((x &&& (2 ^ 32 - 2 ^ (32 - c))) = (y &&& (2 ^ 32 - 2 ^ (32 - c)))) ↔
      ∀ i, i < c → x.testBit (31 - i) = y.testBit (31 - i) := by
  constructor
  · intro h i hi
    have := congrArg (fun v => Nat.testBit v (31 - i)) h
    simp only [Nat.testBit_and, m_testBit_mask _ _ (Nat.sub_le 32 c)] at this
    have h1 : 32 - c ≤ 31 - i := by omega
    have h2 : 31 - i < 32 := by omega
    simpa [h1, h2] using this
  · intro h
    apply Nat.eq_of_testBit_eq
    intro j
    simp only [Nat.testBit_and, m_testBit_mask _ _ (Nat.sub_le 32 c)]
    by_cases h1 : 32 - c ≤ j
    · by_cases h2 : j < 32
      · have := h (31 - j) (by omega)
        have e : 31 - (31 - j) = j := by omega
        rw [e] at this
        rw [this]
      · simp [h2]
    · simp [h1]

/-- masked comparison of two four-byte words in terms of `bitAt` -/
theorem m_word_masked (a b : List Byte) (ha : a.length = 4) (hb : b.length = 4) (c : Nat) (hc : c ≤ 32) :
    ((beVal a &&& (2 ^ 32 - 2 ^ (32 - c))) == (beVal b &&& (2 ^ 32 - 2 ^ (32 - c)))) =
      (List.range c).all fun i => Spec.bitAt a i == Spec.bitAt b i := by
  rw [Bool.eq_iff_iff]
  simp only [beq_iff_eq, List.all_eq_true, List.mem_range]
  rw [m_masked_eq _ _ _ hc]
  constructor
  · intro h i hi
    rw [m_bitAt_word a ha i (by omega), m_bitAt_word b hb i (by omega)]
    exact h i hi
  · intro h i hi
    have := h i hi
    rw [m_bitAt_word a ha i (by omega), m_bitAt_word b hb i (by omega)] at this
    exact this

theorem ip4Matchnet_eq (ip net : List Byte) (m : Nat) (hip : ip.length = 16) (hnet : net.length = 4) (hm : m ≤ 32) :
    ip4Matchnet ip net m = .ok (Spec.inNet (ip.drop 12) net m) := by
  unfold ip4Matchnet
  have h0 : ¬ (ip.length ≠ 16 ∨ net.length ≠ 4) := by omega
  rw [if_neg h0]
  by_cases hz : m = 0
  · subst hz
    simp [Spec.inNet]
  · rw [if_neg hz]
    have h1 : ¬ (m > wordBits) := by
      show ¬ (m > Gen.matchWordBits)
      rw [m_wordBits_eq]; omega
    rw [if_neg h1]
    simp only
    congr 1
    have hw : word ip Gen.ip4WordIndex = beVal (ip.drop 12) := by
      unfold word
      rw [m_ip4WordIndex_eq]
      rw [List.take_of_length_le (by simp [hip])]
    have hn : word net 0 = beVal net := by
      unfold word
      rw [List.take_of_length_le (by simp [hnet])]
      simp
    have hmask : netMask m = 2 ^ 32 - 2 ^ (32 - m) := by
      unfold netMask
      show 2 ^ 32 - 2 ^ (Gen.matchWordBits - m) = _
      rw [m_wordBits_eq]
    rw [hw, hn, hmask]
    unfold Spec.inNet
    exact m_word_masked _ _ (by simp [hip]) hnet m hm

/-! ### ip6_matchnet -/

theorem m_mask6Word_eq (m i : Nat) :
    mask6Word m i = 2 ^ 32 - 2 ^ (32 - min 32 (m - 32 * i)) := by
  unfold mask6Word
  show (if i < m / Gen.matchWordBits6 then 2 ^ 32 - 1
    else if i = m / Gen.matchWordBits6 ∧ m % Gen.matchWordBits6 ≠ 0 then
      2 ^ 32 - 2 ^ (Gen.matchWordBits6 - m % Gen.matchWordBits6) else 0) = _
  rw [m_wordBits6_eq]
  split
  · have : 32 - min 32 (m - 32 * i) = 0 := by omega
    rw [this]
  · split
    · have : 32 - min 32 (m - 32 * i) = 32 - m % 32 := by omega
      rw [this]
    · have : 32 - min 32 (m - 32 * i) = 32 := by omega
      rw [this]

theorem m_bitAt_sub (a : List Byte) (w k : Nat) (hk : k < 32) :
    Spec.bitAt ((a.drop (4 * w)).take 4) k = Spec.bitAt a (32 * w + k) := by
  unfold Spec.bitAt
  have h1 : (32 * w + k) / 8 = 4 * w + k / 8 := by omega
  have h2 : (32 * w + k) % 8 = k % 8 := by omega
  rw [h1, h2]
  congr 2
  simp only [List.getD_eq_getElem?_getD, List.getElem?_take, List.getElem?_drop]
  have : k / 8 < 4 := by omega
  simp [this]

theorem m_all_congr {α : Type} (l : List α) (p q : α → Bool) (h : ∀ a ∈ l, p a = q a) :
    l.all p = l.all q := by
  induction l with
  | nil => rfl
  | cons x xs ih =>
    simp only [List.all_cons]
    rw [h x (by simp), ih (fun a ha => h a (by simp [ha]))]

theorem m_word6_masked (ip net : List Byte) (hip : ip.length = 16) (hnet : net.length = 16)
    (m w : Nat) (hw : w < 4) :
    ((word ip w &&& mask6Word m w) == (word net w &&& mask6Word m w)) =
      (List.range (min 32 (m - 32 * w))).all fun k =>
        Spec.bitAt ip (32 * w + k) == Spec.bitAt net (32 * w + k) := by
  rw [m_mask6Word_eq]
  unfold word
  rw [m_word_masked _ _ (by simp [hip]; omega) (by simp [hnet]; omega) _ (Nat.min_le_left _ _)]
  apply m_all_congr
  intro k hk
  rw [List.mem_range] at hk
  rw [m_bitAt_sub _ _ _ (by omega), m_bitAt_sub _ _ _ (by omega)]

theorem ip6Matchnet_eq (ip net : List Byte) (m : Nat) (hip : ip.length = 16) (hnet : net.length = 16) (hm : m ≤ 128) :
    ip6Matchnet ip net m = .ok (Spec.inNet ip net m) := by
  unfold ip6Matchnet
  have h0 : ¬ (ip.length ≠ 16 ∨ net.length ≠ 16) := by omega
  rw [if_neg h0]
  have h1 : ¬ (m > 4 * wordBits6) := by
    show ¬ (m > 4 * Gen.matchWordBits6)
    rw [m_wordBits6_eq]; omega
  rw [if_neg h1]
  congr 1
  unfold Spec.inNet
  rw [Bool.eq_iff_iff]
  simp only [List.all_eq_true, List.mem_range]
  constructor
  · intro h i hi
    have := h (i / 32) (by omega)
    rw [m_word6_masked ip net hip hnet m _ (by omega)] at this
    simp only [List.all_eq_true, List.mem_range] at this
    have := this (i % 32) (by omega)
    have e : 32 * (i / 32) + i % 32 = i := by omega
    rw [e] at this
    exact this
  · intro h w hw
    rw [m_word6_masked ip net hip hnet m _ hw]
    simp only [List.all_eq_true, List.mem_range]
    intro k hk
    exact h _ (by omega)

/-! ### check_ipbl_file -/

def verdictOf : Spec.Verdict → Lookup
  | .nomatch => .nomatch
  | .matched => .matched
  | .malformed => .malformed

theorem m_iplenOf (v4 : Bool) : iplenOf v4 = if v4 then 4 else 16 := by
  unfold iplenOf
  rw [m_ipblIplen4_eq, m_ipblIplen6_eq]

theorem m_matchfunc_eq (v4 : Bool) (ip net : List Byte) (m : Nat) (hip : ip.length = 16)
    (hnet : net.length = iplenOf v4) (hm : m ≤ 8 * iplenOf v4) :
    matchfunc v4 ip net m = .ok (Spec.inNet (Spec.clientAddr v4 ip) net m) := by
  rw [m_iplenOf] at hnet hm
  cases v4 with
  | true =>
    simp only [if_true] at hnet hm
    simp only [matchfunc, Spec.clientAddr, if_true]
    exact ip4Matchnet_eq ip net m hip hnet (by omega)
  | false =>
    simp only [Bool.false_eq_true, if_false] at hnet hm
    simp only [matchfunc, Spec.clientAddr, Bool.false_eq_true, if_false]
    exact ip6Matchnet_eq ip net m hip hnet (by omega)

theorem m_decide1_bad (iplen : Nat) (addr r : List Byte) (rs : List (List Byte))
    (h : Spec.recordOk iplen r = false) : Spec.decide1 iplen addr (r :: rs) = .malformed := by
  simp only [Spec.decide1, h, Bool.not_false, if_true]

theorem m_decide1_match (iplen : Nat) (addr r : List Byte) (rs : List (List Byte))
    (h : Spec.recordOk iplen r = true)
    (hin : Spec.inNet addr (r.take iplen) (r.getD iplen 0).toNat = true) :
    Spec.decide1 iplen addr (r :: rs) = .matched := by
  simp only [Spec.decide1, h, hin, Bool.not_true, Bool.false_eq_true, if_false, if_true]

theorem m_decide1_next (iplen : Nat) (addr r : List Byte) (rs : List (List Byte))
    (h : Spec.recordOk iplen r = true)
    (hin : Spec.inNet addr (r.take iplen) (r.getD iplen 0).toNat = false) :
    Spec.decide1 iplen addr (r :: rs) = Spec.decide1 iplen addr rs := by
  simp only [Spec.decide1, h, hin, Bool.not_true, Bool.false_eq_true, if_false]

theorem m_loop (v4 : Bool) (ip : List Byte) (hip : ip.length = 16) :
    ∀ (f : Nat) (buf : List Byte) (rs : List (List Byte)),
      Spec.records (iplenOf v4 + 1) buf f = some rs →
      ipblLoop v4 ip (f + 1) buf =
        .ok (verdictOf (Spec.decide1 (iplenOf v4) (Spec.clientAddr v4 ip) rs)) := by
  intro f
  induction f with
  | zero =>
    intro buf rs h
    cases buf with
    | nil =>
      simp [Spec.records] at h
      subst h
      simp [ipblLoop, Spec.decide1, verdictOf]
    | cons b tl => simp [Spec.records] at h
  | succ f ih =>
    intro buf rs h
    cases buf with
    | nil =>
      simp [Spec.records] at h
      subst h
      simp [ipblLoop, Spec.decide1, verdictOf]
    | cons b tl =>
      unfold Spec.records at h
      simp only [List.isEmpty_cons, Bool.false_eq_true, if_false] at h
      split at h
      · exact absurd h (by simp)
      · rename_i hlen
        cases hr : Spec.records (iplenOf v4 + 1) (List.drop (iplenOf v4 + 1) (b :: tl)) f with
        | none => rw [hr] at h; simp at h
        | some rs' =>
          rw [hr] at h
          simp only [Option.map_some, Option.some.injEq] at h
          subst h
          have hlt : iplenOf v4 < (b :: tl).length := by omega
          have hnm : (b :: tl)[iplenOf v4]? = some ((b :: tl).getD (iplenOf v4) 0) := by
            rw [List.getD_eq_getElem?_getD, List.getElem?_eq_getElem hlt]
            rfl
          have hgetD : (List.take (iplenOf v4 + 1) (b :: tl)).getD (iplenOf v4) 0
              = (b :: tl).getD (iplenOf v4) 0 := by
            simp only [List.getD_eq_getElem?_getD, List.getElem?_take]
            simp
          have htake : (List.take (iplenOf v4 + 1) (b :: tl)).take (iplenOf v4)
              = (b :: tl).take (iplenOf v4) := by
            rw [List.take_take]
            congr 1
            omega
          rw [ipblLoop]
          simp only [hnm, m_ipblMinMask_eq, m_ipblRecordExtra_eq]
          by_cases hbad : ((b :: tl).getD (iplenOf v4) 0).toNat < 8 ∨
              ((b :: tl).getD (iplenOf v4) 0).toNat > 8 * iplenOf v4
          · rw [if_pos hbad]
            rw [m_decide1_bad]
            · rfl
            · unfold Spec.recordOk
              rw [hgetD]
              simp only [Bool.and_eq_false_iff, decide_eq_false_iff_not]
              omega
          · rw [if_neg hbad, if_neg hlen]
            have hok : Spec.recordOk (iplenOf v4) (List.take (iplenOf v4 + 1) (b :: tl)) = true := by
              unfold Spec.recordOk
              rw [hgetD]
              simp only [Bool.and_eq_true, decide_eq_true_eq]
              omega
            rw [m_matchfunc_eq v4 ip _ _ hip (by rw [List.length_take]; omega) (by omega)]
            cases hin : Spec.inNet (Spec.clientAddr v4 ip) (List.take (iplenOf v4) (b :: tl))
                ((b :: tl).getD (iplenOf v4) 0).toNat with
            | true =>
              simp only
              rw [m_decide1_match _ _ _ _ hok (by rw [hgetD, htake]; exact hin)]
              rfl
            | false =>
              simp only
              rw [m_decide1_next _ _ _ _ hok (by rw [hgetD, htake]; exact hin)]
              exact ih _ _ hr

theorem m_records_none (n : Nat) (hn : 0 < n) :
    ∀ (f : Nat) (buf : List Byte), buf.length ≤ f →
      (Spec.records n buf f = none ↔ buf.length % n ≠ 0) := by
  intro f
  induction f with
  | zero =>
    intro buf hl
    have : buf = [] := List.eq_nil_of_length_eq_zero (by omega)
    subst this
    simp [Spec.records]
  | succ f ih =>
    intro buf hl
    cases buf with
    | nil => simp [Spec.records]
    | cons b tl =>
      unfold Spec.records
      simp only [List.isEmpty_cons, Bool.false_eq_true, if_false]
      split
      · rename_i hlt
        rw [Nat.mod_eq_of_lt hlt]
        simp
      · rename_i hge
        have hge' : (b :: tl).length ≥ n := by omega
        rw [Nat.mod_eq_sub_mod hge']
        have := ih (List.drop n (b :: tl)) (by rw [List.length_drop]; omega)
        rw [List.length_drop] at this
        rw [← this]
        cases Spec.records n (List.drop n (b :: tl)) f <;> simp

theorem m_meaning_eq (v4 : Bool) (ip buf : List Byte) :
    Spec.ipblMeaning v4 ip buf =
      match Spec.records (iplenOf v4 + 1) buf buf.length with
      | none => .malformed
      | some rs => Spec.decide1 (iplenOf v4) (Spec.clientAddr v4 ip) rs := by
  rw [m_iplenOf]
  rfl

theorem checkIpblFile_eq (v4 : Bool) (ip buf : List Byte) (hip : ip.length = 16) :
    checkIpblFile v4 ip buf = .ok (verdictOf (Spec.ipblMeaning v4 ip buf)) := by
  unfold checkIpblFile
  simp only [m_ipblRecordExtra_eq]
  rw [m_meaning_eq]
  have hnone := m_records_none (iplenOf v4 + 1) (by omega) buf.length buf (Nat.le_refl _)
  by_cases hmod : buf.length % (iplenOf v4 + 1) ≠ 0
  · rw [if_pos hmod, hnone.mpr hmod]
    rfl
  · rw [if_neg hmod]
    cases hr : Spec.records (iplenOf v4 + 1) buf buf.length with
    | none => exact absurd (hnone.mp hr) hmod
    | some rs => exact m_loop v4 ip hip _ _ _ hr

/-! ### the meaning on well-formed files, and the strict reading -/

theorem m_decide1_allok (iplen : Nat) (addr : List Byte) (rs : List (List Byte))
    (hok : ∀ r ∈ rs, Spec.recordOk iplen r = true) :
    Spec.decide1 iplen addr rs =
      if rs.any (fun r => Spec.inNet addr (r.take iplen) (r.getD iplen 0).toNat) then .matched
      else .nomatch := by
  induction rs with
  | nil => simp [Spec.decide1]
  | cons r rs ih =>
    have h1 := hok r (by simp)
    have ih' := ih (fun x hx => hok x (by simp [hx]))
    cases hin : Spec.inNet addr (r.take iplen) (r.getD iplen 0).toNat with
    | true =>
      rw [m_decide1_match _ _ _ _ h1 hin]
      simp only [List.any_cons, hin, Bool.true_or, if_true]
    | false =>
      rw [m_decide1_next _ _ _ _ h1 hin, ih']
      simp only [List.any_cons, hin, Bool.false_or]

theorem m_decide1_notallok (iplen : Nat) (addr : List Byte) (rs : List (List Byte))
    (hbad : rs.all (Spec.recordOk iplen) = false) :
    Spec.decide1 iplen addr rs ≠ .nomatch := by
  induction rs with
  | nil => simp at hbad
  | cons r rs ih =>
    cases h1 : Spec.recordOk iplen r with
    | false => rw [m_decide1_bad _ _ _ _ h1]; simp
    | true =>
      cases hin : Spec.inNet addr (r.take iplen) (r.getD iplen 0).toNat with
      | true => rw [m_decide1_match _ _ _ _ h1 hin]; simp
      | false =>
        rw [m_decide1_next _ _ _ _ h1 hin]
        apply ih
        simpa [h1] using hbad

theorem ipbl_valid (v4 : Bool) (ip buf : List Byte) (rs : List (List Byte))
    (hrec : Spec.records ((if v4 then 4 else 16) + 1) buf buf.length = some rs)
    (hok : ∀ r ∈ rs, Spec.recordOk (if v4 then 4 else 16) r = true) :
    Spec.ipblMeaning v4 ip buf ≠ .malformed ∧
    (Spec.ipblMeaning v4 ip buf = .matched ↔
      ∃ r ∈ rs, Spec.inNet (Spec.clientAddr v4 ip) (r.take (if v4 then 4 else 16)) (r.getD (if v4 then 4 else 16) 0).toNat = true) := by
  have hm : Spec.ipblMeaning v4 ip buf =
      Spec.decide1 (if v4 then 4 else 16) (Spec.clientAddr v4 ip) rs := by
    simp only [Spec.ipblMeaning, hrec]
  rw [hm, m_decide1_allok _ _ _ hok]
  have hany : (rs.any fun r => Spec.inNet (Spec.clientAddr v4 ip) (r.take (if v4 then 4 else 16))
      (r.getD (if v4 then 4 else 16) 0).toNat) = true ↔
      ∃ r ∈ rs, Spec.inNet (Spec.clientAddr v4 ip) (r.take (if v4 then 4 else 16))
        (r.getD (if v4 then 4 else 16) 0).toNat = true := List.any_eq_true
  rw [← hany]
  generalize List.any rs _ = b
  cases b <;> simp

theorem ipbl_strict_rel (v4 : Bool) (ip buf : List Byte) :
    (Spec.ipblStrict v4 ip buf = .malformed → Spec.ipblMeaning v4 ip buf ≠ .nomatch) ∧
    (Spec.ipblStrict v4 ip buf ≠ .malformed → Spec.ipblMeaning v4 ip buf = Spec.ipblStrict v4 ip buf) := by
  cases hrec : Spec.records ((if v4 then 4 else 16) + 1) buf buf.length with
  | none =>
    have hm : Spec.ipblMeaning v4 ip buf = .malformed := by simp only [Spec.ipblMeaning, hrec]
    have hs : Spec.ipblStrict v4 ip buf = .malformed := by simp only [Spec.ipblStrict, hrec]
    rw [hm, hs]
    simp
  | some rs =>
    have hm : Spec.ipblMeaning v4 ip buf =
        Spec.decide1 (if v4 then 4 else 16) (Spec.clientAddr v4 ip) rs := by
      simp only [Spec.ipblMeaning, hrec]
    have hs : Spec.ipblStrict v4 ip buf =
        if rs.all (Spec.recordOk (if v4 then 4 else 16)) then
          (if rs.any fun r => Spec.inNet (Spec.clientAddr v4 ip) (r.take (if v4 then 4 else 16))
              (r.getD (if v4 then 4 else 16) 0).toNat then .matched else .nomatch)
        else .malformed := by
      simp only [Spec.ipblStrict, hrec]
    rw [hm, hs]
    cases hall : rs.all (Spec.recordOk (if v4 then 4 else 16)) with
    | true =>
      have hok : ∀ r ∈ rs, Spec.recordOk (if v4 then 4 else 16) r = true := by
        simpa [List.all_eq_true] using hall
      rw [m_decide1_allok _ _ _ hok]
      simp only [if_true]
      generalize List.any rs _ = b
      cases b <;> simp
    | false =>
      simp only [Bool.false_eq_true, if_false]
      constructor
      · intro _; exact m_decide1_notallok _ _ _ hall
      · intro h; exact absurd rfl h

theorem m_map_len_ne (a b : List Byte) (h : a.length ≠ b.length) : (a.map lower == b.map lower) = false := by
  rw [beq_eq_false_iff_ne]
  intro he
  exact h (by simpa using congrArg List.length he)

theorem matchdomain_eq (d e : List Byte) : matchdomain d e = Spec.matchesEntry e d := by
  unfold matchdomain Spec.matchesEntry caseEq Spec.eqNoCase
  by_cases h1 : e.length > d.length
  · rw [if_pos h1, m_map_len_ne d e (by omega)]
    have : (decide (e.length ≤ d.length)) = false := by simp; omega
    simp [this]
  · rw [if_neg h1]
    have hle : decide (e.length ≤ d.length) = true := by simp; omega
    by_cases h2 : e.head? = some DOT
    · rw [if_pos h2]
      have hb : (e.head? == some DOT) = true := by simp [h2]
      rw [hb, hle]
      simp only [Bool.true_and]
      by_cases h3 : e.length = d.length
      · have : d.drop (d.length - e.length) = d := by rw [h3]; simp
        rw [this]; simp
      · rw [m_map_len_ne d e (by omega)]; simp
    · rw [if_neg h2]
      have hb : (e.head? == some DOT) = false := by simpa using h2
      rw [hb]
      by_cases h3 : e.length = d.length
      · rw [if_pos h3]; simp
      · rw [if_neg h3, m_map_len_ne d e (by omega)]; simp

theorem lookupipbl_eq (v4 : Bool) (ip buf : List Byte) (hip : ip.length = 16) :
    lookupipbl v4 ip buf = .ok (verdictOf (Spec.ipblMeaning v4 ip buf)) := by
  unfold lookupipbl
  by_cases hb : buf.isEmpty = true
  · rw [if_pos hb]
    have : buf = [] := List.isEmpty_iff.mp hb
    subst this
    cases v4 <;> rfl
  · rw [if_neg hb]
    exact checkIpblFile_eq v4 ip buf hip

end QsmtpModel.Lemmas
