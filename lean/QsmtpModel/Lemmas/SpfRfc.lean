/-
Lemmas for the comparison of the model with the RFC 7208 reference (`Spec.Spf`): what check_host()
does up to the selection of the record, in closed form, on both sides.
-/
import QsmtpModel.Lemmas.SpfReceived
import QsmtpModel.Spec.SpfRfc

namespace QsmtpModel.Spf
open QsmtpModel

/-- the state check_host() starts with -/
def st0 : St := ⟨0, none, none, 0⟩

/-- check_host() up to the evaluation of the selected record, for a valid domain -/
theorem checkHost_top (dns : Dns) (ss : Sess) (domain : List Byte) (hwf : ss.wf = true) (hdv : domainvalid domain = true) :
    checkHost dns ss domain =
      match dns.txt domain with
      | .error e => .ok ((txtErrCode e, st0), [Query.txt domain])
      | .ok recs =>
        match selectRecord (txtView dns recs) none with
        | none => .ok ((SPF_PERMERROR, st0), [Query.txt domain])
        | some none => .ok ((SPF_NONE, st0), [Query.txt domain])
        | some (some rec) =>
          match evalRecord dns ss (spflookup dns ss (Gen.spfMaxDnsTerms + 1)) domain rec st0 with
          | .ok (x, l) => .ok (x, Query.txt domain :: l)
          | .error e => .error e := by
  unfold checkHost
  simp only [hwf, Bool.not_true, Bool.false_eq_true, if_false]
  show spflookup dns ss (Gen.spfMaxDnsTerms + 1 + 1) domain st0 = _
  unfold spflookup
  unfold spfTxt
  simp only [st0, if_true, hdv, Bool.not_true, Bool.false_eq_true, if_false]
  unfold dnstxtRecords
  cases h : dns.txt domain with
  | error e => rfl
  | ok recs =>
    show M.bind (M.bind (M.ask _ _) _) _ = _
    simp only [M.bind, M.ask, M.pure, pure]
    cases h2 : selectRecord (txtView dns recs) none with
    | none => rfl
    | some o =>
      cases o with
      | none => rfl
      | some rec =>
        simp only []
        cases evalRecord dns ss (spflookup dns ss (Gen.spfMaxDnsTerms + 1)) domain rec ⟨0, none, none, 0⟩ with
        | error e => rfl
        | ok x => rfl

/-- records none of which starts with `v=spf1`: nothing is selected -/
theorem selectRecord_no_spf (l : List (List Byte)) (valid : Option (List Byte))
    (h : ∀ r ∈ l, r.take 6 ≠ strVspf1) : selectRecord l valid = some valid := by
  induction l generalizing valid with
  | nil => rfl
  | cons r rest ih =>
    unfold selectRecord
    have hr : (r.take 6 == strVspf1) = false := by simpa using h r (by simp)
    simp only [hr, Bool.false_eq_true, if_false]
    exact ih valid (fun x hx => h x (List.mem_cons_of_mem _ hx))

end QsmtpModel.Spf

namespace QsmtpModel.Spec.Spf
open QsmtpModel QsmtpModel.Spf

/-- the reference evaluation up to the selection of the record -/
theorem checkHost_rfc_top (dns : Dns) (ss : Sess) (domain : List Byte) (hv : isValidDomain domain = true) :
    checkHost Dev.rfc dns ss domain =
      match dns.txt domain with
      | .error e => (match failOfTxt Dev.rfc e with | none => .none | some f => failRes f)
      | .ok recs =>
        match selectRfc Dev.rfc (txtView dns recs) with
        | none => .permerror
        | some none => .none
        | some (some rec) => (checkDomain ⟨Dev.rfc, dns, ss⟩ 24 domain 0 true).1 := by
  unfold checkHost
  have h1 : (Dev.rfc.topDomainPermerror && !domainvalid domain) = false := by simp [Dev.rfc]
  simp only [h1, hv, Bool.false_eq_true, if_false, Bool.not_true]
  cases h : dns.txt domain with
  | error e =>
    simp only []
    unfold checkDomain
    simp only [h, if_true]
    cases failOfTxt Dev.rfc e with
    | none => simp [selectRfc, Dev.rfc]
    | some f => rfl
  | ok recs =>
    simp only []
    cases h2 : selectRfc Dev.rfc (txtView dns recs) with
    | none => unfold checkDomain; simp only [h, if_true, h2]
    | some o =>
      cases o with
      | none => unfold checkDomain; simp only [h, if_true, h2]
      | some rec => rfl

end QsmtpModel.Spec.Spf
