/-
Helper lemmas, third part: xtextlen.
-/
import QsmtpModel.Lemmas.AddrParse

namespace QsmtpModel.Addr
open QsmtpModel

set_option maxRecDepth 100000 in
theorem hexchar_val : ∀ c : Byte, isHexUpper c = true →
    hexchar c = UInt8.ofNat (Spec.hexValC c) ∧ Spec.isHexUpperC c = true ∧ c ≠ 0 ∧ c ≠ SP := by
  apply byte_forall; decide

theorem hexdigit_val (a b : Byte) (ha : isHexUpper a = true) (hb : isHexUpper b = true) :
    hexdigit a b = UInt8.ofNat (Spec.hexValC a * 16 + Spec.hexValC b) := by
  unfold hexdigit
  rw [(hexchar_val a ha).1, (hexchar_val b hb).1]
  simp [UInt8.ofNat_add, UInt8.ofNat_mul]

set_option maxRecDepth 100000 in
theorem xchar_range : ∀ c : Byte, ¬ (sbyte c < 33 ∨ sbyte c > 126) → 33 ≤ c.toNat ∧ c.toNat ≤ 126 := by
  apply byte_forall; decide

theorem addrspecValid_ok (p : List Byte) (h : (0 : Byte) ∈ p) : ∃ v, addrspecValid p = .ok v := by
  unfold addrspecValid
  obtain ⟨r, hr⟩ := parseaddr_ok p h
  simp [hr, bind, Except.bind, pure, Except.pure]

theorem xtEnd_ok (acc : List Byte) (result : Nat) (h : acc.length ≤ 320) : ∃ r, xtEnd acc result = .ok r := by
  unfold xtEnd
  rw [xtextBufSize_eq]
  split
  · exact ⟨_, rfl⟩
  · split
    · omega
    · simp only
      split
      · exact ⟨_, rfl⟩
      · obtain ⟨v, hv⟩ := addrspecValid_ok (acc ++ [0]) (by simp)
        simp [hv, bind, Except.bind, pure, Except.pure]

theorem xtLoop_ok (m : Nat) : ∀ (p : List Byte), p.length ≤ m → ∀ (pos : Nat) (acc : List Byte) (result : Nat),
    (0 : Byte) ∈ p → acc.length ≤ 320 → ∃ r, xtLoop p pos acc result = .ok r := by
  induction m with
  | zero =>
    intro p hp _ _ _ h
    have : p = [] := List.eq_nil_of_length_eq_zero (by omega)
    subst this; simp at h
  | succ m ih =>
    intro p hp pos acc result h hacc
    cases p with
    | nil => simp at h
    | cons c rest =>
      have hlen : rest.length ≤ m := by simp at hp; omega
      unfold xtLoop
      rw [xtextBufSize_eq, xtextSlack_eq]
      split
      · exact xtEnd_ok _ _ hacc
      · rename_i hstop
        have hc0 : c ≠ 0 := fun e => hstop (Or.inl e)
        have hr := mem_tail_of_ne h hc0
        split
        · exact ⟨_, rfl⟩
        · split
          · exact ⟨_, rfl⟩
          · rename_i hsl
            split
            · cases rest with
              | nil => simp at hr
              | cons h1 r1 =>
                simp only
                split
                · exact ⟨_, rfl⟩
                · rename_i hh1
                  have h10 : h1 ≠ 0 := (hexchar_val h1 (by simpa using hh1)).2.2.1
                  have hr1 := mem_tail_of_ne hr h10
                  cases r1 with
                  | nil => simp at hr1
                  | cons h2 r2 =>
                    simp only
                    split
                    · exact ⟨_, rfl⟩
                    · rename_i hh2
                      have h20 : h2 ≠ 0 := (hexchar_val h2 (by simpa using hh2)).2.2.1
                      split
                      · omega
                      · split
                        · exact ⟨_, rfl⟩
                        · exact ih r2 (by simp at hlen; omega) _ _ _ (mem_tail_of_ne hr1 h20) (by simp; omega)
            · split
              · split
                · omega
                · exact ih rest hlen _ _ _ hr (by simp; omega)
              · exact ⟨_, rfl⟩

theorem xtextlen_ok (p : List Byte) (h : (0 : Byte) ∈ p) : ∃ r, xtextlen p = .ok r :=
  xtLoop_ok p.length p (Nat.le_refl _) 0 [] 0 h (by simp)

/-- the loop of xtextlen: the consumed text is well-formed xtext and its decoding is what the
final check sees -/
theorem xtLoop_ref (m : Nat) : ∀ (p : List Byte), p.length ≤ m → ∀ (pos : Nat) (acc : List Byte) (result : Nat) (r : Int),
    xtLoop p pos acc result = .ok r → 0 ≤ r →
    ∃ x t rest d, p = x ++ t :: rest ∧ (t = 0 ∨ t = SP) ∧ (0 : Byte) ∉ x ∧ SP ∉ x ∧
      Spec.xtextDecode x = some d ∧ (0 : Byte) ∉ d ∧ xtEnd (acc ++ d) (result + x.length) = .ok r := by
  induction m with
  | zero =>
    intro p hp _ _ _ r h
    have : p = [] := List.eq_nil_of_length_eq_zero (by omega)
    subst this; simp [xtLoop] at h
  | succ m ih =>
    intro p hp pos acc result r h hr
    cases p with
    | nil => simp [xtLoop] at h
    | cons c rest =>
      have hlen : rest.length ≤ m := by simp at hp; omega
      unfold xtLoop at h
      by_cases hstop : c = 0 ∨ c = SP
      · simp only [hstop, ↓reduceIte] at h
        exact ⟨[], c, rest, [], rfl, hstop, by simp, by simp, rfl, by simp, by simpa using h⟩
      · simp only [hstop, ↓reduceIte] at h
        have hc0 : c ≠ 0 := fun e => hstop (Or.inl e)
        have hcs : c ≠ SP := fun e => hstop (Or.inr e)
        split at h
        · simp at h; omega
        · rename_i hrange
          have hrg := xchar_range c hrange
          split at h
          · simp at h; omega
          · by_cases hplus : c = PLUS
            · subst hplus
              simp only [↓reduceIte] at h
              cases rest with
              | nil => simp at h
              | cons h1 r1 =>
                simp only at h
                split at h
                · simp at h; omega
                · rename_i hh1
                  have hx1 := hexchar_val h1 (by simpa using hh1)
                  cases r1 with
                  | nil => simp at h
                  | cons h2 r2 =>
                    simp only at h
                    split at h
                    · simp at h; omega
                    · rename_i hh2
                      have hx2 := hexchar_val h2 (by simpa using hh2)
                      split at h
                      · simp at h
                      · split at h
                        · simp at h; omega
                        · rename_i hnz
                          obtain ⟨x, t, rest', d, h1', h2', h3', h4', h5', h6', h7'⟩ :=
                            ih r2 (by simp at hlen; omega) _ _ _ r h hr
                          refine ⟨PLUS :: h1 :: h2 :: x, t, rest', hexdigit h1 h2 :: d, by simp [h1'], h2', ?_, ?_, ?_, ?_, ?_⟩
                          · simp only [List.mem_cons, not_or]
                            exact ⟨by decide, fun e => hx1.2.2.1 e.symm, fun e => hx2.2.2.1 e.symm, h3'⟩
                          · simp only [List.mem_cons, not_or]
                            exact ⟨by decide, fun e => hx1.2.2.2 e.symm, fun e => hx2.2.2.2 e.symm, h4'⟩
                          · unfold Spec.xtextDecode
                            simp only [PLUS, ↓reduceIte, hx1.2.1, hx2.2.1, Bool.and_self, h5', Option.map_some]
                            rw [hexdigit_val h1 h2 (by simpa using hh1) (by simpa using hh2)]
                          · simp only [List.mem_cons, not_or]
                            exact ⟨fun e => hnz e.symm, h6'⟩
                          · have e1 : acc ++ hexdigit h1 h2 :: d = acc ++ [hexdigit h1 h2] ++ d := by simp
                            have e2 : result + (PLUS :: h1 :: h2 :: x).length = result + 3 + x.length := by simp; omega
                            rw [e1, e2]; exact h7'
            · simp only [hplus, ↓reduceIte] at h
              split at h
              · rename_i hne
                split at h
                · simp at h
                · obtain ⟨x, t, rest', d, h1', h2', h3', h4', h5', h6', h7'⟩ := ih rest hlen _ _ _ r h hr
                  refine ⟨c :: x, t, rest', c :: d, by simp [h1'], h2', ?_, ?_, ?_, ?_, ?_⟩
                  · simp only [List.mem_cons, not_or]; exact ⟨fun e => hc0 e.symm, h3'⟩
                  · simp only [List.mem_cons, not_or]; exact ⟨fun e => hcs e.symm, h4'⟩
                  · unfold Spec.xtextDecode
                    have hp' : c ≠ 43 := hplus
                    have he' : c ≠ 61 := hne
                    simp [hp', he', hrg.1, hrg.2, h5']
                  · simp only [List.mem_cons, not_or]; exact ⟨fun e => hc0 e.symm, h6'⟩
                  · have e1 : acc ++ c :: d = acc ++ [c] ++ d := by simp
                    have e2 : result + (c :: x).length = result + 1 + x.length := by simp; omega
                    rw [e1, e2]; exact h7'
              · simp at h; omega

/-- the final check of xtextlen -/
theorem xtEnd_ref (a : List Byte) (n : Nat) (r : Int) (h0 : (0 : Byte) ∉ a) (h : xtEnd a n = .ok r) (hr : 0 ≤ r) :
    r = n ∧ (a = [] ∨ a = [60, 62] ∨ ∃ k, 3 ≤ k ∧ parseaddr (a ++ [0]) = .ok k) := by
  unfold xtEnd at h
  split at h
  · rename_i hl
    simp at h
    exact ⟨h.symm, Or.inl (List.eq_nil_of_length_eq_zero hl)⟩
  · split at h
    · simp at h
    · simp only at h
      have hc : cstr (a ++ [0]) = a := cstr_append_zero a [] h0
      rw [hc] at h
      split at h
      · rename_i e
        simp at h
        exact ⟨h.symm, Or.inr (Or.inl e)⟩
      · unfold addrspecValid at h
        cases hp : parseaddr (a ++ [0]) with
        | error e => simp [hp, bind, Except.bind] at h
        | ok k =>
          simp only [hp, bind, Except.bind, pure, Except.pure, Except.ok.injEq] at h
          by_cases hk : 3 ≤ k
          · simp [hk] at h
            exact ⟨h.symm, Or.inr (Or.inr ⟨k, hk, rfl⟩)⟩
          · simp [hk] at h; omega

end QsmtpModel.Addr
