/-
Helper lemmas for C07 (stage A): recode_qp() refines the buffer-free description `QpRun`
(`qpGo_run`), hence its output decodes to the normalised input (`recodeQp_roundtrip`).
-/
import QsmtpModel.Lemmas.QrQpSpec
import QsmtpModel.Lemmas.QrNeedRecode

set_option linter.unusedSimpArgs false
set_option linter.unusedVariables false

namespace QsmtpModel.QrData
open QsmtpModel QsmtpModel.Mime QsmtpModel.Spec

theorem wsEnc_eq (c : Byte) : (if c = TAB then [EQ, 48, 57] else [EQ, 50, 48] : List Byte) = wsEnc c := rfl

theorem length_wsEnc' (c : Byte) : (wsEnc c).length = 3 := by unfold wsEnc; split <;> rfl

/-- how `softTail` relates to the alternatives of `QpRun` -/
theorem softTail_cases (buf : List Byte) (off : Nat) (sb1 : List Byte) (c : Byte) (hc : buf[off]? = some c) :
    ((softTail buf off sb1) = (sb1, false))
    ∨ (∃ S ws, sb1 = S ++ [ws] ∧ isBlank ws ∧ qpPlain c = true ∧ softTail buf off sb1 = (S ++ [ws, c], true))
    ∨ (∃ S ws, sb1 = S ++ [ws] ∧ isBlank ws ∧ ¬ qpPlain c = true ∧ softTail buf off sb1 = (S ++ wsEnc ws, false)) := by
  unfold softTail
  cases hl : sb1.getLast? with
  | none => left; rfl
  | some l =>
    obtain ⟨S, rfl⟩ := List.getLast?_eq_some_iff.mp hl
    simp only [hc]
    by_cases hb : l = TAB ∨ l = SP
    · simp only [hb, if_true]
      by_cases hp : qpPlain c = true
      · right; left
        exact ⟨S, l, rfl, hb, hp, by simp [hp]⟩
      · right; right
        refine ⟨S, l, rfl, hb, hp, ?_⟩
        simp [hp, wsEnc]
    · left; simp [hb]


/-- recode_qp() refines `QpRun`: the bytes handed to the network (`st.out`), the staging buffer
`sb` and the not yet copied `chunk` together are the `F` of the buffer-free description. -/
theorem qpGo_run (buf : List Byte) (off chunk llen : Nat) (sb : List Byte) (st : St)
    (h1 : off + chunk ≤ buf.length) (h2 : sb.length + chunk ≤ qpLim + 5)
    (h3 : 0 < sb.length + chunk ∨ off + chunk < buf.length) :
    ∃ st', qpGo buf off chunk llen sb st = .ok st'
      ∧ QpRun (buf.drop (off + chunk)) llen (st.out ++ sb ++ (buf.drop off).take chunk) st'.out := by
  fun_induction qpGo buf off chunk llen sb st
  case case11 off chunk llen sb st h ih =>
    have hp := peek_none h
    simp only [qpLim_eq, qpCap_eq] at *
    have hpos : 0 < sb.length + chunk := by omega
    rw [cpy_ok (by omega), bind_ok, push_ok (by simp; omega), bind_ok]
    have hlen : (sb ++ (buf.drop off).take chunk).length = sb.length + chunk := by simp; omega
    have hne : sb ++ (buf.drop off).take chunk ≠ [] := by
      intro h0; rw [h0] at hlen; simp at hlen; omega
    obtain ⟨l, hl⟩ : ∃ l, lastByte (sb ++ (buf.drop off).take chunk) = .ok l := by
      unfold lastByte
      cases hx : (sb ++ (buf.drop off).take chunk).getLast? with
      | none => exact absurd (List.getLast?_eq_none_iff.mp hx) hne
      | some l => exact ⟨l, rfl⟩
    by_cases hlt : off + chunk < buf.length
    · simp only [hlt, if_true, hne, if_false, hl, hpos]
      obtain ⟨st', e1, e2⟩ := ih hlt _ hpos (by omega) (by simp) (by simp; omega)
      refine ⟨st', e1, ?_⟩
      simpa [Except.map, List.append_assoc] using e2
    · simp only [hlt, if_false, hl, bind_ok]
      refine ⟨_, rfl, ?_⟩
      have : buf.drop (off + chunk) = [] := by apply List.drop_eq_nil_of_le; omega
      rw [this]
      simpa [List.append_assoc] using QpRun.done llen (st.out ++ (sb ++ (buf.drop off).take chunk))
  all_goals have hp := peek_some (by assumption)
  all_goals simp only [qpLim_eq, qpCap_eq] at *
  all_goals obtain ⟨hi, hl, hc⟩ := hp
  all_goals rw [drop_of_get hc]
  case case1 off chunk llen sb st hlf _ ih =>
    have := (List.getElem?_eq_some_iff.mp hlf).1
    obtain ⟨st', e1, e2⟩ := ih (by omega) (by omega) (by omega)
    refine ⟨st', e1, ?_⟩
    rw [drop_of_get hlf]
    apply QpRun.crlf
    have t1 : (buf.drop off).take (chunk + 2) = (buf.drop off).take chunk ++ [CR, LF] := by
      rw [show chunk + 2 = (chunk + 1) + 1 from rfl, take_succ_of_get (c := LF) (by rw [← Nat.add_assoc]; exact hlf),
        take_succ_of_get hc]; simp
    rw [t1] at e2
    rw [show off + chunk + 1 + 1 = off + (chunk + 2) by omega]
    simpa [List.append_assoc] using e2
  case case2 off chunk llen sb st hlf _ ih =>
    rw [cpy_ok (by omega), bind_ok, push_ok (by simp; omega), bind_ok]
    obtain ⟨st', e1, e2⟩ := ih (sb ++ ((buf.drop off).take (chunk + 1) ++ [LF])) (by omega) (by simp; omega) (by simp; omega)
    refine ⟨st', e1, ?_⟩
    apply QpRun.cr
    · rw [List.head?_drop]; exact hlf
    · rw [take_succ_of_get hc] at e2
      simpa [List.append_assoc] using e2
  case case3 off chunk llen sb st _ _ ih =>
    rw [cpy_ok (by omega), bind_ok, push_ok (by simp; omega), bind_ok]
    obtain ⟨st', e1, e2⟩ := ih (sb ++ ((buf.drop off).take chunk ++ [CR, LF])) (by omega) (by simp; omega) (by simp; omega)
    refine ⟨st', e1, ?_⟩
    apply QpRun.lf
    simpa [List.append_assoc] using e2
  case case4 off chunk llen sb st c _ hcr hlf hsoft ih3 ih2 ih1 =>
    rw [cpy_ok (by omega), bind_ok, push_ok (by simp; omega), bind_ok]
    have hlen : (sb ++ (buf.drop off).take chunk).length = sb.length + chunk := by simp; omega
    rcases softTail_cases buf (off + chunk) (sb ++ (buf.drop off).take chunk) c hc with hs | ⟨S, ws, hS, hb, hp, hs⟩ | ⟨S, ws, hS, hb, hp, hs⟩
    · rw [hs]
      simp only
      rw [push_ok (by simp; omega), bind_ok]
      obtain ⟨st', e1, e2⟩ := ih1 ([] ++ (sb ++ (buf.drop off).take chunk ++ [EQ, CR, LF])) (by omega) (by simp; omega) (by simp; omega)
      refine ⟨st', e1, ?_⟩
      apply QpRun.soft c _ _ _ _ hcr hlf
      rw [← drop_of_get hc]
      simpa [List.append_assoc] using e2
    · rw [hs]
      simp only
      have hSl : S.length + 1 = sb.length + chunk := by rw [← hlen, hS]; simp
      split
      · rename_i hend
        rw [push_ok (by simp; omega), bind_ok]
        obtain ⟨st', e1, e2⟩ := ih3 hend ([] ++ (S ++ [ws, c])) (by omega) (by simp; omega) (by simp)
        refine ⟨st', e1, ?_⟩
        have hnil : buf.drop (off + chunk + 1) = [] := by apply List.drop_eq_nil_of_le; omega
        rw [hnil] at e2 ⊢
        have hF : st.out ++ sb ++ (buf.drop off).take chunk = (st.out ++ S) ++ [ws] := by
          rw [List.append_assoc, hS]; simp
        rw [hF]
        apply QpRun.softTakeLast c llen _ ws _ hb hp
        simpa [List.append_assoc] using e2
      · rename_i hend
        rw [push_ok (by simp; omega), bind_ok]
        obtain ⟨st', e1, e2⟩ := ih2 ([] ++ (S ++ [ws, c] ++ [EQ, CR, LF])) (by omega) (by simp; omega) (by simp)
        refine ⟨st', e1, ?_⟩
        have hlt : off + chunk + 1 < buf.length := by omega
        obtain ⟨d, hd⟩ : ∃ d, buf[off + chunk + 1]? = some d := ⟨buf[off + chunk + 1], List.getElem?_eq_getElem hlt⟩
        rw [drop_of_get hd] at e2 ⊢
        have hF : st.out ++ sb ++ (buf.drop off).take chunk = (st.out ++ S) ++ [ws] := by
          rw [List.append_assoc, hS]; simp
        rw [hF]
        apply QpRun.softTake c d _ llen _ ws _ hb hp
        simpa [List.append_assoc] using e2
    · rw [hs]
      simp only
      have hSl : S.length + 1 = sb.length + chunk := by rw [← hlen, hS]; simp
      rw [push_ok (by simp [length_wsEnc']; omega), bind_ok]
      obtain ⟨st', e1, e2⟩ := ih1 ([] ++ (S ++ wsEnc ws ++ [EQ, CR, LF])) (by omega) (by simp [length_wsEnc']; omega) (by simp; omega)
      refine ⟨st', e1, ?_⟩
      have hF : st.out ++ sb ++ (buf.drop off).take chunk = (st.out ++ S) ++ [ws] := by
        rw [List.append_assoc, hS]; simp
      rw [hF]
      apply QpRun.softFix c _ llen _ ws _ hb hcr hlf
      rw [← drop_of_get hc]
      simpa [List.append_assoc] using e2
  case case5 off chunk llen sb st c _ hcr hlf hsoft hdot ih =>
    obtain ⟨rfl, rfl⟩ := hdot
    rw [cpy_ok (by omega), bind_ok, push_ok (by simp; omega), bind_ok]
    obtain ⟨st', e1, e2⟩ := ih (sb ++ ((buf.drop off).take (chunk + 1) ++ [DOT])) (by omega) (by simp; omega) (by simp; omega)
    refine ⟨st', e1, ?_⟩
    apply QpRun.dot
    rw [take_succ_of_get hc] at e2
    simpa [List.append_assoc] using e2
  case case6 off chunk llen sb st c _ hcr hlf hsoft hdot hws hnone ih =>
    rw [cpy_ok (by omega), bind_ok, wsEnc_eq, push_ok (by simp [length_wsEnc']; omega), bind_ok]
    obtain ⟨st', e1, e2⟩ := ih (sb ++ ((buf.drop off).take chunk ++ wsEnc c)) (by omega) (by simp [length_wsEnc']; omega) (by simp [length_wsEnc']; omega)
    refine ⟨st', e1, ?_⟩
    have hnil : buf.drop (off + chunk + 1) = [] := drop_of_none hnone
    rw [hnil] at e2 ⊢
    apply QpRun.wsEnd c llen _ _ (Nat.le_of_not_gt hsoft) hws
    simpa [List.append_assoc] using e2
  case case7 off chunk llen sb st c _ hcr hlf hsoft hdot hws d hd hdd ih2 ih1 =>
    have hdlen := (List.getElem?_eq_some_iff.mp hd).1
    rw [cpy_ok (by omega), bind_ok, wsEnc_eq, push_ok (by simp [length_wsEnc']; omega), bind_ok]
    rw [drop_of_get hd]
    split
    · rename_i hdcr
      subst hdcr
      split
      · rename_i hl2
        have := (List.getElem?_eq_some_iff.mp hl2).1
        obtain ⟨st', e1, e2⟩ := ih2 (sb ++ ((buf.drop off).take chunk ++ wsEnc c ++ [CR, LF])) (by omega) (by simp [length_wsEnc']; omega) (by simp [length_wsEnc']; omega)
        refine ⟨st', e1, ?_⟩
        rw [show off + chunk + 1 + 1 = off + chunk + 2 by omega, drop_of_get hl2]
        apply QpRun.wsCrLf c _ llen _ _ (Nat.le_of_not_gt hsoft) hws
        simpa [List.append_assoc] using e2
      · rename_i hl2
        obtain ⟨st', e1, e2⟩ := ih1 (sb ++ ((buf.drop off).take chunk ++ wsEnc c ++ [CR, LF])) (by omega) (by simp [length_wsEnc']; omega) (by simp [length_wsEnc']; omega)
        refine ⟨st', e1, ?_⟩
        rw [show off + chunk + 1 + 1 = off + chunk + 2 by omega]
        apply QpRun.wsCr c _ llen _ _ (Nat.le_of_not_gt hsoft) hws
        · rw [List.head?_drop]; exact hl2
        · simpa [List.append_assoc] using e2
    · rename_i hdcr
      have hdl : d = LF := by rcases hdd with h | h; exact absurd h hdcr; exact h
      subst hdl
      obtain ⟨st', e1, e2⟩ := ih1 (sb ++ ((buf.drop off).take chunk ++ wsEnc c ++ [CR, LF])) (by omega) (by simp [length_wsEnc']; omega) (by simp [length_wsEnc']; omega)
      refine ⟨st', e1, ?_⟩
      rw [show off + chunk + 1 + 1 = off + chunk + 2 by omega]
      apply QpRun.wsLf c _ llen _ _ (Nat.le_of_not_gt hsoft) hws
      simpa [List.append_assoc] using e2
  case case8 off chunk llen sb st c _ hcr hlf hsoft hdot hws d hd hdd ih =>
    have hdlen := (List.getElem?_eq_some_iff.mp hd).1
    obtain ⟨st', e1, e2⟩ := ih (by omega) (by omega) (by omega)
    refine ⟨st', e1, ?_⟩
    rw [drop_of_get hd]
    simp only [not_or] at hdd
    apply QpRun.ws c d _ llen _ _ (Nat.le_of_not_gt hsoft) hws hdd.1 hdd.2
    rw [take_succ_of_get hc, show off + (chunk + 1) = off + chunk + 1 by omega, drop_of_get hd] at e2
    simpa [List.append_assoc] using e2
  case case9 off chunk llen sb st c _ hcr hlf hsoft hdot hws henc ih =>
    rw [cpy_ok (by omega), bind_ok, push_ok (by simp [qpEnc]; omega), bind_ok]
    obtain ⟨st', e1, e2⟩ := ih (sb ++ ((buf.drop off).take chunk ++ qpEnc c)) (by omega) (by simp [qpEnc]; omega) (by simp [qpEnc]; omega)
    refine ⟨st', e1, ?_⟩
    apply QpRun.enc c _ llen _ _ (Nat.le_of_not_gt hsoft) hcr hlf hws henc
    simpa [List.append_assoc] using e2
  case case10 off chunk llen sb st c _ hcr hlf hsoft hdot hws henc ih =>
    obtain ⟨st', e1, e2⟩ := ih (by omega) (by omega) (by omega)
    refine ⟨st', e1, ?_⟩
    apply QpRun.plain c _ llen _ _ (Nat.le_of_not_gt hsoft) hcr hlf hws henc hdot
    rw [take_succ_of_get hc, show off + (chunk + 1) = off + chunk + 1 by omega] at e2
    simpa [List.append_assoc] using e2


/-- **QP body law**: what recode_qp() sends for `b`, un-dotted and quoted-printable decoded, is the
CRLF-normalised `b` — whatever the 1280 byte staging buffer and its flush points do. -/
theorem recodeQp_roundtrip (b : List Byte) :
    ∃ st, recodeQp b {} = .ok st ∧ qpDecode (unDot st.out) = some (normalizeEol b) := by
  unfold recodeQp
  by_cases hb : b.length = 0
  · have : b = [] := List.length_eq_zero_iff.mp hb
    subst this
    exact ⟨{}, by simp, by simp [unDot, unDotAux, qpDecode, normalizeEol]⟩
  · simp only [hb, if_false]
    obtain ⟨st', e1, e2⟩ := qpGo_run b 0 0 0 [] {} (by omega) (by simp) (by simp; omega)
    refine ⟨st', e1, ?_⟩
    simp only [List.drop_zero, Nat.add_zero, List.take_zero, List.append_nil] at e2
    have e3 : QpRun b 0 [] st'.out := by simpa using e2
    have := qpRun_decode e3 [] (by simp [settled, pendOf, wireDec]) (by simp [bolAfter])
    rw [unDot, qpDecode_unDotAux, this]
    simp [pendOf]

end QsmtpModel.QrData
