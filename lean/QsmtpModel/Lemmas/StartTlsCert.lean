/-
qsmtpd/starttls.c, find_servercert(): proofs about the model in QsmtpModel/StartTlsCert.lean.

* `findServercert_fixed_ok`, `calls_fixed_no_fault`: the repaired function (`fixed = true`) stays
  inside its two 76 byte buffers for every address/port tcpserver can hand over, whatever an earlier
  call left in the buffers, any number of times.
* `second_ehlo_overflows` / `second_ehlo_writes_96`: the function as found writes `certfilename[96]`
  on the second EHLO when the certificate is named after a long IPv6 address.
* `findServercert_fixed_spec_full`, `findServercert_fixed_spec`, `calls_fixed_spec`: result and file
  names of the repaired function (STARTTLS is offered iff a certificate file is readable; the first
  readable of "<name>.<ip>:<port>", "<name>.<ip>", "<name>"), independent of earlier calls.

`bufSize_eq`, `base_len`, `keybase_len`, `base_no_nul`, `keybase_no_nul` are the facts about the
extracted constants everything else rests on; they are re-checked when the C source changes.
-/
import QsmtpModel.StartTlsCert
import QsmtpModel.Lemmas.Netio
namespace QsmtpModel.StartTlsCert
open QsmtpModel

theorem bufSize_eq : bufSize = 76 := rfl
theorem base_len : Gen.certBaseName.length = 22 := rfl
theorem keybase_len : Gen.keyBaseName.length = 21 := rfl
theorem base_no_nul : NUL ∉ Gen.certBaseName := by decide
theorem keybase_no_nul : NUL ∉ Gen.keyBaseName := by decide
theorem dirOffs_eq : dirOffs = 8 := rfl

/-! ### checked accessors -/

theorem setAt_ok {b : List Byte} {i : Nat} (v : Byte) (h : i < b.length) :
    setAt b i v = .ok (b.set i v) := by
  simp [setAt, h]

theorem setAt_length {b b' : List Byte} {i : Nat} {v : Byte} (h : setAt b i v = .ok b') :
    b'.length = b.length := by
  unfold setAt at h
  split at h
  · cases h; simp
  · cases h

theorem writeAt_ok {b : List Byte} {off : Nat} {data : List Byte} (h : off + data.length ≤ b.length) :
    writeAt b off data = .ok (b.take off ++ data ++ b.drop (off + data.length)) := by
  simp [writeAt, h]

theorem writeAt_length {b b' : List Byte} {off : Nat} {data : List Byte} (h : writeAt b off data = .ok b') :
    b'.length = b.length := by
  unfold writeAt at h
  split at h
  · rename_i hle
    cases h
    simp only [List.length_append, List.length_take, List.length_drop]
    omega
  · cases h

theorem strncpyAt_ok {b : List Byte} {off : Nat} {src : List Byte} {n : Int} (hn : 0 ≤ n)
    (h : off + n.toNat ≤ b.length) (hs : src.length ≤ n.toNat) :
    strncpyAt b off src n
      = .ok (b.take off ++ src ++ List.replicate (n.toNat - src.length) NUL ++ b.drop (off + n.toNat)) := by
  unfold strncpyAt
  rw [if_neg (by omega), List.take_of_length_le hs, writeAt_ok]
  · have e : src.length + (n.toNat - src.length) = n.toNat := by omega
    simp only [List.length_append, List.length_replicate, List.append_assoc, e]
  · simp only [List.length_append, List.length_replicate]; omega

theorem setAt_mid (A : List Byte) (x : Byte) (r : List Byte) (i : Nat) (v : Byte) (h : i = A.length) :
    setAt (A ++ x :: r) i v = .ok (A ++ v :: r) := by
  subst h
  rw [setAt_ok]
  · simp
  · simp

theorem writeAt_mid (A m t data : List Byte) (off : Nat) (h : off = A.length)
    (hd : data.length = m.length) :
    writeAt (A ++ (m ++ t)) off data = .ok (A ++ (data ++ t)) := by
  subst h
  rw [writeAt_ok]
  · simp [hd]
  · simp [hd]

theorem strncpyAt_tail (A : List Byte) (ch : Byte) (r src : List Byte) (off : Nat) (n : Int)
    (h : off = A.length + 1) (hn : n = (r.length : Int)) (hs : src.length < r.length) :
    strncpyAt (A ++ ch :: r) off src n
      = .ok (A ++ ch :: (src ++ NUL :: List.replicate (r.length - src.length - 1) NUL)) := by
  subst hn
  unfold strncpyAt
  rw [if_neg (by omega)]
  have e : A ++ ch :: r = (A ++ [ch]) ++ (r ++ []) := by simp
  rw [e, writeAt_mid (A ++ [ch]) r [] _ off (by simp [h])]
  · have e2 : r.length - src.length = (r.length - src.length - 1) + 1 := by omega
    simp only [Int.toNat_natCast]
    rw [List.take_of_length_le (by omega), e2, List.replicate_succ]
    simp
  · simp only [Int.toNat_natCast, List.length_append, List.length_take, List.length_replicate]
    omega


/-! ### C strings -/

/-- the bytes in front of the first NUL (all of them if there is none) -/
def cstr (l : List Byte) : List Byte := l.takeWhile (fun b => b != NUL)

theorem cstr_nil : cstr [] = [] := rfl

theorem cstr_cons (x : Byte) (l : List Byte) : cstr (x :: l) = if x = NUL then [] else x :: cstr l := by
  unfold cstr
  by_cases h : x = NUL <;> simp [h]

theorem cstr_append_nul (a t : List Byte) : cstr (a ++ NUL :: t) = cstr a := by
  induction a with
  | nil => simp [cstr_cons, cstr_nil]
  | cons x xs ih => simp only [List.cons_append, cstr_cons, ih]

theorem cstr_of_not_mem (a : List Byte) (h : NUL ∉ a) : cstr a = a := by
  induction a with
  | nil => rfl
  | cons x xs ih =>
    have hx : x ≠ NUL := fun e => h (e ▸ List.mem_cons_self)
    have hxs : NUL ∉ xs := fun m => h (List.mem_cons_of_mem _ m)
    rw [cstr_cons, if_neg hx, ih hxs]

theorem cstr_no_nul (a : List Byte) : NUL ∉ cstr a := by
  induction a with
  | nil => simp [cstr_nil]
  | cons x xs ih =>
    rw [cstr_cons]
    split
    · simp
    · rename_i hx
      simp only [List.mem_cons, not_or]
      exact ⟨fun e => hx e.symm, ih⟩

theorem memchr_nul_cstr (l : List Byte) (h : NUL ∈ l) :
    ∃ n, memchr NUL l = some n ∧ l.take n = cstr l := by
  induction l with
  | nil => simp at h
  | cons x xs ih =>
    by_cases hx : x = NUL
    · exact ⟨0, by simp [memchr, hx], by simp [cstr_cons, hx]⟩
    · have hm : NUL ∈ xs := by
        rcases List.mem_cons.1 h with e | m
        · exact absurd e.symm hx
        · exact m
      obtain ⟨n, h1, h2⟩ := ih hm
      exact ⟨n + 1, by simp [memchr, hx, h1], by simp [cstr_cons, hx, h2]⟩

theorem strlenAt_ok (b : List Byte) (off : Nat) (h : NUL ∈ b.drop off) :
    strlenAt b off = .ok (cstr (b.drop off)).length := by
  obtain ⟨n, h1, h2⟩ := memchr_nul_cstr _ h
  have hn : n ≤ (b.drop off).length := by
    have := (Netio.memchr_some_spec _ _ _ h1).1
    have := (List.getElem?_eq_some_iff.1 this).1
    omega
  unfold strlenAt
  rw [h1, ← h2, List.length_take, Nat.min_eq_left hn]

theorem cstrAt_ok (b : List Byte) (off : Nat) (h : NUL ∈ b.drop off) :
    cstrAt b off = .ok (cstr (b.drop off)) := by
  obtain ⟨n, h1, h2⟩ := memchr_nul_cstr _ h
  simp only [cstrAt, strlenAt, h1, bind, Except.bind, pure, Except.pure, h2]

/-- `access` on a buffer that holds `A ++ sfx ++ "\0" ...` with the directory part inside `A` -/
theorem access_ok (fs : List Byte → Bool) (A sfx t : List Byte) (hA : 8 ≤ A.length) :
    access fs (A ++ (sfx ++ NUL :: t)) = .ok (fs (cstr (A.drop 8 ++ sfx))) := by
  have e : (A ++ (sfx ++ NUL :: t)).drop 8 = (A.drop 8 ++ sfx) ++ NUL :: t := by
    rw [List.drop_append_of_le_length hA, List.append_assoc]
  have hm : NUL ∈ (A ++ (sfx ++ NUL :: t)).drop dirOffs := by
    rw [dirOffs_eq, e]; simp
  simp only [access, cstrAt_ok _ _ hm, bind, Except.bind, pure, Except.pure]
  rw [dirOffs_eq, e, cstr_append_nul]


/-! ### the repaired function, step by step -/

/-- the suffixes tried, in this order -/
def suffixes (ip : List Byte) (port : Option (List Byte)) : List (List Byte) :=
  (match port with
    | some p => [DOT :: (ip ++ 58 :: p)]
    | none => []) ++ [DOT :: ip, []]

/-- the first suffix in `l` for which `Q ++ suffix` is readable -/
def pick (fs : List Byte → Bool) (Q : List Byte) (l : List (List Byte)) : Bool × List Byte :=
  match l.find? (fun sfx => fs (cstr (Q ++ sfx))) with
  | some s => (true, s)
  | none => (false, [])

theorem pick_nil (fs : List Byte → Bool) (Q : List Byte) : pick fs Q [] = (false, []) := rfl

theorem pick_cons (fs : List Byte → Bool) (Q a : List Byte) (l : List (List Byte)) :
    pick fs Q (a :: l) = if fs (cstr (Q ++ a)) = true then (true, a) else pick fs Q l := by
  unfold pick
  rw [List.find?_cons]
  cases fs (cstr (Q ++ a)) <;> simp

/-- what a call leaves: the certificate buffer holds `P ++ suffix` as a C string, the key buffer
`K ++ suffix`, and the key buffer is used iff a certificate was found and that key file is readable -/
def Post (P K : List Byte) (fs : List Byte → Bool) (res : Bool × List Byte) (found : Bool) (st' : St) : Prop :=
  ∃ t u, st'.cert = P ++ (res.2 ++ NUL :: t) ∧ st'.cert.length = 76 ∧
    st'.keyb = K ++ (res.2 ++ NUL :: u) ∧ st'.keyb.length = 76 ∧
    st'.keyIsBuf = (res.1 && fs (cstr (K.drop 8 ++ res.2))) ∧ found = res.1

theorem foundSuffixed_ok (fs : List Byte → Bool) (P sfx t K s c0 : List Byte) (kb : Bool)
    (hP : P.length = 22) (hc : (P ++ (sfx ++ NUL :: t)).length = 76) (hK : K.length = 21)
    (hs : s.length = 54) :
    foundSuffixed fs 22 (P ++ (sfx ++ NUL :: t)) ⟨c0, K ++ NUL :: s, kb⟩
      = .ok (true, ⟨P ++ (sfx ++ NUL :: t), K ++ (sfx ++ NUL :: (t ++ s.drop 53)),
              fs (cstr (K.drop 8 ++ sfx)) || kb⟩) := by
  have hlen : (sfx ++ NUL :: t).length = 54 := by
    simp only [List.length_append, List.length_cons] at hc ⊢; omega
  have e1 : (P ++ (sfx ++ NUL :: t)).drop 22 = sfx ++ NUL :: t := by
    rw [← hP]; simp
  have e2 : K ++ NUL :: s = K ++ ((NUL :: s.take 53) ++ s.drop 53) := by
    simp [List.take_append_drop]
  have hw : writeAt (K ++ NUL :: s) 21 (sfx ++ NUL :: t)
      = .ok (K ++ (sfx ++ NUL :: (t ++ s.drop 53))) := by
    rw [e2, writeAt_mid K _ _ _ 21 hK.symm]
    · simp
    · simp only [hlen, List.length_cons, List.length_take]; omega
  have ha := access_ok fs K sfx (t ++ s.drop 53) (by omega)
  unfold foundSuffixed
  simp only [bind, Except.bind, pure, Except.pure, throw, throwThe, MonadExceptOf.throw, e1, hw, ha]
  rw [if_neg (by rw [hc]; omega)]

/-- the part of the function behind the port attempt -/
def tailPart (fs : List Byte → Bool) (c : List Byte) (st : St) : Except Fault (Bool × St) := do
  if (← access fs c) then foundSuffixed fs 22 c st
  else do
    let c4 ← setAt c 22 NUL
    if (← access fs c4) then
      let hasKey ← access fs st.keyb
      pure (true, { st with cert := c4, keyIsBuf := hasKey || st.keyIsBuf })
    else pure (false, { st with cert := c4 })

theorem tailPart_ok (fs : List Byte → Bool) (P ip t K s c0 : List Byte)
    (hP : P.length = 22) (hc : (P ++ (DOT :: ip ++ NUL :: t)).length = 76) (hK : K.length = 21)
    (hs : s.length = 54) :
    ∃ found st', tailPart fs (P ++ (DOT :: ip ++ NUL :: t)) ⟨c0, K ++ NUL :: s, false⟩ = .ok (found, st') ∧
      Post P K fs (pick fs (P.drop 8) [DOT :: ip, []]) found st' := by
  have ha1 := access_ok fs P (DOT :: ip) t (by omega)
  have hset : setAt (P ++ (DOT :: ip ++ NUL :: t)) 22 NUL = .ok (P ++ ([] ++ NUL :: (ip ++ NUL :: t))) :=
    setAt_mid P DOT _ 22 NUL hP.symm
  have ha2 := access_ok fs P [] (ip ++ NUL :: t) (by omega)
  have ha3 : access fs (K ++ NUL :: s) = .ok (fs (cstr (K.drop 8 ++ []))) :=
    access_ok fs K [] s (by omega)
  have hlen2 : (P ++ ([] ++ NUL :: (ip ++ NUL :: t))).length = 76 := by
    simp only [List.length_append, List.length_cons, List.length_nil] at hc ⊢; omega
  have hk : (K ++ NUL :: s).length = 76 := by simp [hK, hs]
  unfold tailPart
  simp only [bind, Except.bind, pure, Except.pure, ha1]
  rw [pick_cons, pick_cons, pick_nil]
  cases h1 : fs (cstr (P.drop 8 ++ DOT :: ip))
  · simp only [hset, ha2, Bool.false_eq_true, if_false]
    cases h2 : fs (cstr (P.drop 8 ++ []))
    · simp only [Bool.false_eq_true, if_false]
      exact ⟨_, _, rfl, _, _, rfl, hlen2, rfl, hk, rfl, rfl⟩
    · simp only [if_true, ha3]
      exact ⟨_, _, rfl, _, _, rfl, hlen2, rfl, hk, by simp, rfl⟩
  · simp only [if_true]
    rw [foundSuffixed_ok fs P (DOT :: ip) t K s c0 false hP hc hK hs]
    refine ⟨_, _, rfl, _, _, rfl, hc, rfl, ?_, by simp, rfl⟩
    simp only [List.length_append, List.length_cons, List.length_drop, hK, hs] at hc ⊢
    omega


theorem findServercert_fixed_post (fs : List Byte → Bool) (ip : List Byte) (port : Option (List Byte))
    (P : List Byte) (x : Byte) (r K : List Byte) (y : Byte) (s : List Byte) (kb : Bool)
    (hP : P.length = 22) (hr : r.length = 53) (hK : K.length = 21) (hs : s.length = 54)
    (hip : ip.length ≤ 45) (hport : ∀ p, port = some p → p.length ≤ 5) :
    ∃ found st', findServercert true fs ip port ⟨P ++ x :: r, K ++ y :: s, kb⟩ = .ok (found, st') ∧
      Post P K fs (pick fs (P.drop 8) (suffixes ip port)) found st' := by
  have h0 := setAt_mid P x r 22 NUL hP.symm
  have h0k := setAt_mid K y s 21 NUL hK.symm
  have h1 := setAt_mid P NUL r 22 DOT hP.symm
  have h2 : strncpyAt (P ++ DOT :: r) (22 + 1) ip ((76 : Nat) - (22 : Nat) - 1)
      = .ok (P ++ (DOT :: ip ++ NUL :: List.replicate (52 - ip.length) NUL)) := by
    rw [strncpyAt_tail P DOT r ip (22 + 1) _ (by omega) (by omega) (by omega), hr,
      show 53 - ip.length - 1 = 52 - ip.length by omega]
    rfl
  have hR : (List.replicate (52 - ip.length) NUL).length = 52 - ip.length := List.length_replicate ..
  generalize List.replicate (52 - ip.length) NUL = R at h2 hR
  have hc2 : (P ++ (DOT :: ip ++ NUL :: R)).length = 76 := by
    simp only [List.length_append, List.length_cons, hP, hR]; omega
  unfold findServercert
  simp only [if_true, bind, Except.bind, pure, Except.pure, base_len, bufSize_eq, h0, h0k, h1, h2]
  cases port with
  | none =>
    simp only []
    have ht := tailPart_ok fs P ip R K s (P ++ NUL :: r) hP hc2 hK hs
    simp only [tailPart, bind, Except.bind, pure, Except.pure] at ht
    exact ht
  | some p =>
    have hp : p.length ≤ 5 := hport p rfl
    have e3 : P ++ (DOT :: ip ++ NUL :: R) = (P ++ DOT :: ip) ++ NUL :: R := by simp
    have hA : (P ++ DOT :: ip).length = 22 + 1 + ip.length := by
      simp only [List.length_append, List.length_cons, hP]; omega
    have h3 : setAt (P ++ (DOT :: ip ++ NUL :: R)) (22 + 1 + ip.length) 58
        = .ok ((P ++ DOT :: ip) ++ 58 :: R) := by
      rw [e3]; exact setAt_mid _ _ _ _ _ hA.symm
    have h4 : strncpyAt ((P ++ DOT :: ip) ++ 58 :: R) (22 + 1 + ip.length + 1) p
          ((76 : Nat) - ((22 + 1 + ip.length : Nat) : Int) - 1)
        = .ok (P ++ (DOT :: (ip ++ 58 :: p) ++ NUL :: List.replicate (R.length - p.length - 1) NUL)) := by
      rw [strncpyAt_tail _ _ _ _ _ _ (by rw [hA]) (by rw [hR]; omega) (by rw [hR]; omega)]
      simp
    generalize hR' : List.replicate (R.length - p.length - 1) NUL = R' at h4
    have hR'len : R'.length = 51 - ip.length - p.length := by
      rw [← hR', List.length_replicate, hR]; omega
    have hc4 : (P ++ (DOT :: (ip ++ 58 :: p) ++ NUL :: R')).length = 76 := by
      simp only [List.length_append, List.length_cons, hP, hR'len]; omega
    have ha4 := access_ok fs P (DOT :: (ip ++ 58 :: p)) R' (by omega)
    have e5 : P ++ (DOT :: (ip ++ 58 :: p) ++ NUL :: R') = (P ++ DOT :: ip) ++ 58 :: (p ++ NUL :: R') := by
      simp
    have h5 : setAt (P ++ (DOT :: (ip ++ 58 :: p) ++ NUL :: R')) (22 + 1 + ip.length) NUL
        = .ok (P ++ (DOT :: ip ++ NUL :: (p ++ NUL :: R'))) := by
      rw [e5, setAt_mid _ _ _ _ _ hA.symm]; simp
    have hc5 : (P ++ (DOT :: ip ++ NUL :: (p ++ NUL :: R'))).length = 76 := by
      simp only [List.length_append, List.length_cons, hP, hR'len]; omega
    simp only [h3, h4, ha4]
    rw [show suffixes ip (some p) = [DOT :: (ip ++ 58 :: p), DOT :: ip, []] from rfl, pick_cons]
    cases hf : fs (cstr (P.drop 8 ++ DOT :: (ip ++ 58 :: p)))
    · simp only [Bool.false_eq_true, if_false, h5]
      have ht := tailPart_ok fs P ip (p ++ NUL :: R') K s (P ++ NUL :: r) hP hc5 hK hs
      simp only [tailPart, bind, Except.bind, pure, Except.pure] at ht
      exact ht
    · simp only [if_true]
      rw [foundSuffixed_ok fs P _ R' K s _ false hP hc4 hK hs]
      refine ⟨_, _, rfl, _, _, rfl, hc4, rfl, ?_, by simp, rfl⟩
      simp only [List.length_append, List.length_cons, List.length_drop, hK, hs, hR'len]
      omega

/-! ### the statements about whole calls -/

/-- both buffers have their declared size -/
def Sized (st : St) : Prop := st.cert.length = bufSize ∧ st.keyb.length = bufSize

/-- what tcpserver puts into the environment: an address of at most INET6_ADDRSTRLEN-1 = 45
characters, a port of at most 5, no NUL inside -/
def EnvOk (ip : List Byte) (port : Option (List Byte)) : Prop :=
  ip.length ≤ 45 ∧ NUL ∉ ip ∧ ∀ p, port = some p → p.length ≤ 5 ∧ NUL ∉ p

/-- the plain names are still in front of both buffers -/
def Based (st : St) : Prop :=
  st.cert.take Gen.certBaseName.length = Gen.certBaseName ∧
  st.keyb.take Gen.keyBaseName.length = Gen.keyBaseName

theorem init_sized : Sized init := ⟨rfl, rfl⟩

theorem init_based : Based init := ⟨rfl, rfl⟩

theorem split_at (b : List Byte) (n : Nat) (h : n < b.length) :
    ∃ x r, b = b.take n ++ x :: r ∧ r.length = b.length - n - 1 := by
  refine ⟨b[n], b.drop (n + 1), ?_, ?_⟩
  · rw [← List.drop_eq_getElem_cons h, List.take_append_drop]
  · rw [List.length_drop]; omega

/-- the repaired function on buffers of the declared size, whatever they contain: no fault, and the
state afterwards in terms of the first 22 / 21 bytes of the buffers -/
theorem findServercert_fixed_full (fs : List Byte → Bool) (ip : List Byte) (port : Option (List Byte))
    (st : St) (hs : Sized st) (he : EnvOk ip port) :
    ∃ found st', findServercert true fs ip port st = .ok (found, st') ∧
      Post (st.cert.take 22) (st.keyb.take 21) fs
        (pick fs ((st.cert.take 22).drop 8) (suffixes ip port)) found st' := by
  obtain ⟨hc, hk⟩ := hs
  rw [bufSize_eq] at hc hk
  obtain ⟨x, r, e1, hr⟩ := split_at st.cert 22 (by omega)
  obtain ⟨y, s, e2, hs⟩ := split_at st.keyb 21 (by omega)
  have hP : (st.cert.take 22).length = 22 := by rw [List.length_take]; omega
  have hK : (st.keyb.take 21).length = 21 := by rw [List.length_take]; omega
  have := findServercert_fixed_post fs ip port (st.cert.take 22) x r (st.keyb.take 21) y s st.keyIsBuf
    hP (by omega) hK (by omega) he.1 (fun p hp => (he.2.2 p hp).1)
  rw [← e1, ← e2] at this
  exact this

theorem Post.sized {P K : List Byte} {fs : List Byte → Bool} {res : Bool × List Byte} {found : Bool} {st' : St}
    (h : Post P K fs res found st') : Sized st' := by
  obtain ⟨t, u, _, hc, _, hk, _, _⟩ := h
  exact ⟨by rw [bufSize_eq]; exact hc, by rw [bufSize_eq]; exact hk⟩

theorem Post.chosen_ok {P K : List Byte} {fs : List Byte → Bool} {res : Bool × List Byte} {found : Bool} {st' : St}
    (h : Post P K fs res found st') :
    chosen st' = .ok (cstr (P ++ res.2),
      if (res.1 && fs (cstr (K.drop 8 ++ res.2))) = true then cstr (K ++ res.2) else cstr (P ++ res.2)) := by
  obtain ⟨t, u, hc, _, hk, _, hb, _⟩ := h
  have h1 : cstrAt st'.cert 0 = .ok (cstr (P ++ res.2)) := by
    rw [cstrAt_ok _ _ (by rw [hc]; simp), List.drop_zero, hc, ← List.append_assoc, cstr_append_nul]
  have h2 : cstrAt st'.keyb 0 = .ok (cstr (K ++ res.2)) := by
    rw [cstrAt_ok _ _ (by rw [hk]; simp), List.drop_zero, hk, ← List.append_assoc, cstr_append_nul]
  unfold chosen
  simp only [bind, Except.bind, pure, Except.pure, h1, hb]
  cases (res.1 && fs (cstr (K.drop 8 ++ res.2)))
  · rfl
  · simp only [if_true, h2]

/-- the repaired function never leaves its buffers, whatever an earlier call left in them, and the
names tls_init() will use are C strings inside the buffers -/
theorem findServercert_fixed_ok (fs : List Byte → Bool) (ip : List Byte) (port : Option (List Byte))
    (st : St) (hs : Sized st) (he : EnvOk ip port) :
    ∃ found st', findServercert true fs ip port st = .ok (found, st') ∧ Sized st' ∧
      ∃ c k, chosen st' = .ok (c, k) := by
  obtain ⟨found, st', h, hp⟩ := findServercert_fixed_full fs ip port st hs he
  exact ⟨found, st', h, hp.sized, _, _, hp.chosen_ok⟩

/-- any number of EHLOs -/
theorem calls_fixed_no_fault (fs : List Byte → Bool) (ip : List Byte) (port : Option (List Byte))
    (he : EnvOk ip port) :
    ∀ (n : Nat) (st : St), Sized st → ∀ r ∈ calls true fs ip port n st, ∃ x, r = .ok x := by
  intro n
  induction n with
  | zero => intro st _ r hr; simp [calls] at hr
  | succ n ih =>
    intro st hs r hr
    obtain ⟨found, st', h, hs', c, k, hc⟩ := findServercert_fixed_ok fs ip port st hs he
    simp only [calls, h, hc, List.mem_cons] at hr
    rcases hr with rfl | hr
    · exact ⟨_, rfl⟩
    · exact ih st' hs' r hr

/-- the function as found: second EHLO, certificate file named after a 36 character IPv6 address.
The first call succeeds, the second one writes `certfilename[96]` (the buffer has 76 bytes). -/
theorem second_ehlo_writes_96 :
    let ip : List Byte := [50, 48, 48, 49, 58, 100, 98, 56, 58, 56, 53, 97, 51, 58, 56, 100, 51, 58,
      49, 51, 49, 57, 58, 56, 97, 50, 101, 58, 51, 55, 48, 58, 55, 51, 52, 56]
    let fs := fun name : List Byte => name == [115, 101, 114, 118, 101, 114, 99, 101, 114, 116, 46,
      112, 101, 109, 46, 50, 48, 48, 49, 58, 100, 98, 56, 58, 56, 53, 97, 51, 58, 56, 100, 51, 58,
      49, 51, 49, 57, 58, 56, 97, 50, 101, 58, 51, 55, 48, 58, 55, 51, 52, 56]
    ∃ x, calls false fs ip (some [50, 53]) 2 init = [.ok x, .error (.oobWrite 96)] := by
  intro ip fs
  exact ⟨_, rfl⟩

theorem second_ehlo_overflows :
    let ip : List Byte := [50, 48, 48, 49, 58, 100, 98, 56, 58, 56, 53, 97, 51, 58, 56, 100, 51, 58,
      49, 51, 49, 57, 58, 56, 97, 50, 101, 58, 51, 55, 48, 58, 55, 51, 52, 56]
    let fs := fun name : List Byte => name == [115, 101, 114, 118, 101, 114, 99, 101, 114, 116, 46,
      112, 101, 109, 46, 50, 48, 48, 49, 58, 100, 98, 56, 58, 56, 53, 97, 51, 58, 56, 100, 51, 58,
      49, 51, 49, 57, 58, 56, 97, 50, 101, 58, 51, 55, 48, 58, 55, 51, 52, 56]
    ∃ x f, calls false fs ip (some [50, 53]) 2 init = [.ok x, .error f] := by
  intro ip fs
  obtain ⟨x, h⟩ := second_ehlo_writes_96
  exact ⟨x, _, h⟩

/-! ### functional specification of the repaired function -/

def nameIp (ip : List Byte) : List Byte := Gen.certBaseName ++ DOT :: ip
def nameIpPort (ip p : List Byte) : List Byte := Gen.certBaseName ++ DOT :: ip ++ 58 :: p

/-- (found, certificate file name): the first readable one of "servercert.pem.<ip>:<port>",
"servercert.pem.<ip>", "servercert.pem" (looked up relative to control/, i.e. without the first
8 bytes); the plain name if none is readable -/
def expected (fs : List Byte → Bool) (ip : List Byte) (port : Option (List Byte)) : Bool × List Byte :=
  let rest :=
    if fs ((nameIp ip).drop 8) then (true, nameIp ip)
    else if fs (Gen.certBaseName.drop 8) then (true, Gen.certBaseName)
    else (false, Gen.certBaseName)
  match port with
  | some p => if fs ((nameIpPort ip p).drop 8) then (true, nameIpPort ip p) else rest
  | none => rest

theorem drop_base (X : List Byte) :
    (Gen.certBaseName ++ X).drop 8 = Gen.certBaseName.drop 8 ++ X :=
  List.drop_append_of_le_length (by decide)

theorem nameIp_no_nul (ip : List Byte) (h : NUL ∉ ip) : NUL ∉ nameIp ip := by
  intro hm
  rcases List.mem_append.1 hm with h1 | h1
  · exact base_no_nul h1
  · rcases List.mem_cons.1 h1 with h2 | h2
    · exact absurd h2 (by decide)
    · exact h h2

theorem nameIpPort_no_nul (ip p : List Byte) (h : NUL ∉ ip) (hp : NUL ∉ p) : NUL ∉ nameIpPort ip p := by
  intro hm
  rcases List.mem_append.1 hm with h1 | h1
  · exact nameIp_no_nul ip h h1
  · rcases List.mem_cons.1 h1 with h2 | h2
    · exact absurd h2 (by decide)
    · exact hp h2

theorem not_mem_drop {l : List Byte} (n : Nat) (h : NUL ∉ l) : NUL ∉ l.drop n :=
  fun hm => h (List.mem_of_mem_drop hm)

theorem expected_no_nul (fs : List Byte → Bool) (ip : List Byte) (port : Option (List Byte))
    (he : EnvOk ip port) : NUL ∉ (expected fs ip port).2 := by
  have h1 := nameIp_no_nul ip he.2.1
  unfold expected
  cases port with
  | none =>
    simp only []
    split
    · exact h1
    · split <;> exact base_no_nul
  | some p =>
    have h2 := nameIpPort_no_nul ip p he.2.1 (he.2.2 p rfl).2
    simp only []
    split
    · exact h2
    · split
      · exact h1
      · split <;> exact base_no_nul

theorem pick_expected (fs : List Byte → Bool) (ip : List Byte) (port : Option (List Byte))
    (he : EnvOk ip port) :
    ((pick fs (Gen.certBaseName.drop 8) (suffixes ip port)).1,
      Gen.certBaseName ++ (pick fs (Gen.certBaseName.drop 8) (suffixes ip port)).2)
      = expected fs ip port := by
  have e0 : cstr (Gen.certBaseName.drop 8 ++ []) = Gen.certBaseName.drop 8 := by
    rw [List.append_nil, cstr_of_not_mem _ (not_mem_drop 8 base_no_nul)]
  have e1 : cstr (Gen.certBaseName.drop 8 ++ DOT :: ip) = (nameIp ip).drop 8 := by
    have e : Gen.certBaseName ++ DOT :: ip = nameIp ip := rfl
    rw [← drop_base, e, cstr_of_not_mem _ (not_mem_drop 8 (nameIp_no_nul ip he.2.1))]
  have rest : (pick fs (Gen.certBaseName.drop 8) [DOT :: ip, []]).1 = _ := rfl
  unfold expected
  cases port with
  | none =>
    rw [show suffixes ip none = [DOT :: ip, []] from rfl, pick_cons, pick_cons, pick_nil, e0, e1]
    simp only []
    cases fs ((nameIp ip).drop 8) <;> cases fs (Gen.certBaseName.drop 8) <;> simp [nameIp]
  | some p =>
    have e2 : cstr (Gen.certBaseName.drop 8 ++ DOT :: (ip ++ 58 :: p)) = (nameIpPort ip p).drop 8 := by
      have e : Gen.certBaseName ++ DOT :: (ip ++ 58 :: p) = nameIpPort ip p := by simp [nameIpPort]
      rw [← drop_base, e,
        cstr_of_not_mem _ (not_mem_drop 8 (nameIpPort_no_nul ip p he.2.1 (he.2.2 p rfl).2))]
    rw [show suffixes ip (some p) = [DOT :: (ip ++ 58 :: p), DOT :: ip, []] from rfl,
      pick_cons, pick_cons, pick_cons, pick_nil, e0, e1, e2]
    simp only []
    cases fs ((nameIpPort ip p).drop 8) <;> cases fs ((nameIp ip).drop 8) <;>
      cases fs (Gen.certBaseName.drop 8) <;> simp [nameIp, nameIpPort]

theorem expected_found (fs : List Byte → Bool) (ip : List Byte) (port : Option (List Byte)) :
    (expected fs ip port).1 = true ↔
      ((∃ p, port = some p ∧ fs ((nameIpPort ip p).drop 8) = true) ∨ fs ((nameIp ip).drop 8) = true
        ∨ fs (Gen.certBaseName.drop 8) = true) := by
  unfold expected
  cases port with
  | none =>
    cases fs ((nameIp ip).drop 8) <;> cases fs (Gen.certBaseName.drop 8) <;> simp
  | some p =>
    dsimp only
    cases h1 : fs ((nameIpPort ip p).drop 8) <;> cases h2 : fs ((nameIp ip).drop 8) <;>
      cases h3 : fs (Gen.certBaseName.drop 8) <;> simp [h1]

/-- the key file tls_init() will use: "serverkey.pem" with the suffix of the certificate file if that
is readable, else the certificate file itself -/
def expectedKey (fs : List Byte → Bool) (ip : List Byte) (port : Option (List Byte)) : List Byte :=
  let e := expected fs ip port
  let kname := Gen.keyBaseName ++ e.2.drop Gen.certBaseName.length
  if (e.1 && fs (kname.drop 8)) = true then kname else e.2

/-- the repaired function, completely: result, invariants, and the two file names tls_init() will
use; nothing depends on what an earlier call left in the buffers -/
theorem findServercert_fixed_spec_full (fs : List Byte → Bool) (ip : List Byte) (port : Option (List Byte))
    (st : St) (hs : Sized st) (hb : Based st) (he : EnvOk ip port) :
    ∃ st', findServercert true fs ip port st = .ok ((expected fs ip port).1, st') ∧ Sized st' ∧ Based st' ∧
      chosen st' = .ok ((expected fs ip port).2, expectedKey fs ip port) := by
  obtain ⟨found, st', h, hp⟩ := findServercert_fixed_full fs ip port st hs he
  have hP : st.cert.take 22 = Gen.certBaseName := by have := hb.1; rwa [base_len] at this
  have hK : st.keyb.take 21 = Gen.keyBaseName := by have := hb.2; rwa [keybase_len] at this
  rw [hP, hK] at hp
  have hch := hp.chosen_ok
  have hsz := hp.sized
  have hpe := pick_expected fs ip port he
  have hnn := expected_no_nul fs ip port he
  unfold expectedKey
  generalize pick fs (Gen.certBaseName.drop 8) (suffixes ip port) = r at hp hch hpe
  obtain ⟨t, u, hc, _, hk, _, _, hf⟩ := hp
  rw [← hpe] at hnn ⊢
  dsimp only at hnn ⊢
  have hr : NUL ∉ r.2 := fun hm => hnn (List.mem_append_right _ hm)
  have hkn : NUL ∉ Gen.keyBaseName ++ r.2 := by
    intro hm
    rcases List.mem_append.1 hm with h1 | h1
    · exact keybase_no_nul h1
    · exact hr h1
  have e1 : cstr (Gen.certBaseName ++ r.2) = Gen.certBaseName ++ r.2 := cstr_of_not_mem _ hnn
  have e2 : cstr (Gen.keyBaseName ++ r.2) = Gen.keyBaseName ++ r.2 := cstr_of_not_mem _ hkn
  have e3 : cstr (Gen.keyBaseName.drop 8 ++ r.2) = (Gen.keyBaseName ++ r.2).drop 8 := by
    rw [List.drop_append_of_le_length (by decide), cstr_of_not_mem]
    rw [← List.drop_append_of_le_length (by decide)]
    exact not_mem_drop 8 hkn
  have e4 : (Gen.certBaseName ++ r.2).drop Gen.certBaseName.length = r.2 := List.drop_left ..
  rw [e1, e2, e3] at hch
  rw [e4]
  refine ⟨st', ?_, hsz, ⟨?_, ?_⟩, hch⟩
  · rw [h, hf]
  · rw [hc]; exact List.take_left ..
  · rw [hk]; exact List.take_left ..

/-- found ⇔ one of "servercert.pem.<ip>:<port>", "servercert.pem.<ip>", "servercert.pem" is readable
(names relative to control/, i.e. with the first 8 bytes dropped) -/
theorem findServercert_fixed_spec (fs : List Byte → Bool) (ip : List Byte) (port : Option (List Byte))
    (st : St) (hs : Sized st) (hb : Based st) (he : EnvOk ip port) :
    ∃ found st', findServercert true fs ip port st = .ok (found, st') ∧
      (found = true ↔ ((∃ p, port = some p ∧ fs ((nameIpPort ip p).drop 8) = true)
        ∨ fs ((nameIp ip).drop 8) = true ∨ fs (Gen.certBaseName.drop 8) = true)) := by
  obtain ⟨st', h, _⟩ := findServercert_fixed_spec_full fs ip port st hs hb he
  exact ⟨_, st', h, expected_found fs ip port⟩

/-- any number of EHLOs: every one gives the same answer and the same file names -/
theorem calls_fixed_spec (fs : List Byte → Bool) (ip : List Byte) (port : Option (List Byte))
    (he : EnvOk ip port) :
    ∀ (n : Nat) (st : St), Sized st → Based st →
      calls true fs ip port n st
        = List.replicate n (.ok ((expected fs ip port).1, (expected fs ip port).2, expectedKey fs ip port)) := by
  intro n
  induction n with
  | zero => intro st _ _; rfl
  | succ n ih =>
    intro st hs hb
    obtain ⟨st', h, hs', hb', hc⟩ := findServercert_fixed_spec_full fs ip port st hs hb he
    simp only [calls, h, hc, List.replicate_succ, ih st' hs' hb']

end QsmtpModel.StartTlsCert
