/-
Helper lemmas for the base64 model (QsmtpModel/Base64.lean).
-/
import QsmtpModel.Base64
namespace QsmtpModel.Base64
open QsmtpModel

theorem alpha_length : alpha.length = 64 := by decide

theorem memchr_some {c : Byte} {l : List Byte} {v : Nat} (h : memchr c l = some v) :
    v < l.length ∧ l[v]? = some c := by
  induction l generalizing v with
  | nil => simp [memchr] at h
  | cons x xs ih =>
    simp only [memchr] at h
    split at h
    · rename_i hx
      injection h with h; subst h; subst hx; simp
    · cases hm : memchr c xs with
      | none => simp [hm] at h
      | some w =>
        simp [hm] at h
        subst h
        have := ih hm
        exact ⟨by simp; omega, by simpa using this.2⟩

def Legal (c : Byte) : Prop := c ∈ alpha ∨ c = PAD ∨ c = CR ∨ c = LF

theorem digit_some {c : Byte} {v : Nat} (h : digit c = some v) : v < 64 ∧ c ∈ alpha ∧ c ≠ 0 := by
  unfold digit at h
  split at h
  · cases h
  · rename_i hc
    have := memchr_some h
    rw [alpha_length] at this
    exact ⟨this.1, List.mem_of_getElem? this.2, hc⟩

theorem rd_lt {inp : List Byte} {k : Nat} (h : k < inp.length) : rd inp k = .ok inp[k] := by
  unfold rd
  rw [List.getElem?_eq_getElem h]

/-- the byte at position `p` (if inside the input) is an alphabet character, the pad, CR or LF -/
def LegalAt (inp : List Byte) (p : Nat) : Prop := ∀ h : p < inp.length, Legal inp[p]

theorem skipCrlf_spec {inp : List Byte} {i j : Nat} :
    (∀ f, skipCrlf inp i j ≠ .error (.fault f)) ∧
    ∀ i', skipCrlf inp i j = .ok i' →
      (i' = i ∧ ∀ h : i + j < inp.length, inp[i + j] ≠ CR)
        ∨ (i' = i + 2 ∧ ∃ h : i + j + 1 < inp.length, inp[i + j]'(by omega) = CR ∧ inp[i + j + 1] = LF) := by
  unfold skipCrlf
  by_cases hlt : i + j < inp.length
  · rw [if_pos hlt, rd_lt hlt]
    simp only
    by_cases hcr : inp[i + j] = CR
    · rw [if_pos hcr]
      by_cases hend : i + j + 1 = inp.length
      · rw [if_pos hend]
        exact ⟨(by intro f h; cases h), (by intro i' h; cases h)⟩
      · rw [if_neg hend]
        have hlt2 : i + 1 + j < inp.length := by omega
        rw [rd_lt hlt2]
        simp only
        by_cases hlf : inp[i + 1 + j] ≠ LF
        · rw [if_pos hlf]
          exact ⟨(by intro f h; cases h), (by intro i' h; cases h)⟩
        · rw [if_neg hlf]
          refine ⟨(by intro f h; cases h), ?_⟩
          intro i' h
          injection h with h
          right
          refine ⟨h.symm, by omega, hcr, ?_⟩
          have : i + j + 1 = i + 1 + j := by omega
          simp only [this]
          simpa using hlf
    · rw [if_neg hcr]
      refine ⟨(by intro f h; cases h), ?_⟩
      intro i' h
      injection h with h
      exact Or.inl ⟨h.symm, fun _ => hcr⟩
  · rw [if_neg hlt]
    refine ⟨(by intro f h; cases h), ?_⟩
    intro i' h
    injection h with h
    exact Or.inl ⟨h.symm, fun h' => absurd h' hlt⟩

theorem sextet_spec {inp : List Byte} {i j : Nat} :
    (∀ f, sextet inp i j ≠ .error (.fault f)) ∧
    ∀ a, sextet inp i j = .ok a → a < 64 ∧
      ((∃ h : i + j < inp.length, inp[i + j] ≠ PAD ∧ digit inp[i + j] = some a)
        ∨ (a = 0 ∧ ∀ h : i + j < inp.length, inp[i + j] = PAD)) := by
  unfold sextet
  by_cases hlt : i + j < inp.length
  · rw [if_pos hlt, rd_lt hlt]
    simp only
    by_cases hp : inp[i + j] ≠ PAD
    · rw [if_pos hp]
      cases hd : digit inp[i + j] with
      | none => exact ⟨(by intro f h; cases h), (by intro a h; cases h)⟩
      | some v =>
        refine ⟨(by intro f h; cases h), ?_⟩
        intro a h
        injection h with h
        subst h
        exact ⟨(digit_some hd).1, Or.inl ⟨hlt, hp, hd⟩⟩
    · rw [if_neg hp]
      refine ⟨(by intro f h; cases h), ?_⟩
      intro a h
      injection h with h
      subst h
      exact ⟨by omega, Or.inr ⟨rfl, fun _ => by simpa using hp⟩⟩
  · rw [if_neg hlt]
    refine ⟨(by intro f h; cases h), ?_⟩
    intro a h
    injection h with h
    subst h
    exact ⟨by omega, Or.inr ⟨rfl, fun h' => absurd h' hlt⟩⟩


theorem slot_spec {inp : List Byte} {i j : Nat} :
    (∀ f, slot inp i j ≠ .error (.fault f)) ∧
    ∀ i' a, slot inp i j = .ok (i', a) →
      i ≤ i' ∧ i' ≤ i + 2 ∧ a < 64 ∧ ∀ p, i + j ≤ p → p ≤ i' + j → LegalAt inp p := by
  unfold slot
  have hs := @skipCrlf_spec inp i j
  cases hk : skipCrlf inp i j with
  | error e =>
    refine ⟨?_, by intro i' a h; cases h⟩
    intro f h
    simp only at h
    injection h with h
    subst h
    exact hs.1 f hk
  | ok i1 =>
    simp only
    have hx := @sextet_spec inp i1 j
    cases hq : sextet inp i1 j with
    | error e =>
      refine ⟨?_, by intro i' a h; cases h⟩
      intro f h
      simp only at h
      injection h with h
      subst h
      exact hx.1 f hq
    | ok a1 =>
      refine ⟨(by intro f h; cases h), ?_⟩
      intro i' a h
      simp only at h
      injection h with h
      injection h with h1 h2
      subst h1 h2
      have ha := hx.2 a1 hq
      have hlegal : LegalAt inp (i1 + j) := by
        intro hlt
        rcases ha.2 with ⟨_, _, hd⟩ | ⟨_, hp⟩
        · exact Or.inl (digit_some hd).2.1
        · exact Or.inr (Or.inl (hp hlt))
      rcases hs.2 i1 hk with ⟨rfl, _⟩ | ⟨rfl, hlt, hcr, hlf⟩
      · refine ⟨Nat.le_refl _, by omega, ha.1, ?_⟩
        intro p h1 h2
        have : p = i1 + j := by omega
        subst this
        exact hlegal
      · refine ⟨by omega, Nat.le_refl _, ha.1, ?_⟩
        intro p h1 h2
        by_cases e1 : p = i + j
        · subst e1; intro _; exact Or.inr (Or.inr (Or.inl hcr))
        · by_cases e2 : p = i + j + 1
          · subst e2; intro _; exact Or.inr (Or.inr (Or.inr hlf))
          · have : p = i + 2 + j := by omega
            subst this
            exact hlegal

theorem group_spec {inp : List Byte} {i : Nat} :
    (∀ f, group inp i ≠ .error (.fault f)) ∧
    ∀ i' a0 a1 a2 a3, group inp i = .ok (i', a0, a1, a2, a3) →
      i ≤ i' ∧ a0 < 64 ∧ a1 < 64 ∧ a2 < 64 ∧ a3 < 64 ∧ ∀ p, i ≤ p → p < i' + 4 → LegalAt inp p := by
  unfold group
  have s0 := @slot_spec inp i 0
  cases h0 : slot inp i 0 with
  | error e =>
    refine ⟨?_, by intro _ _ _ _ _ h; cases h⟩
    intro f h; simp only at h; injection h with h; subst h; exact s0.1 f h0
  | ok r0 =>
    obtain ⟨i0, a0⟩ := r0
    simp only
    have s1 := @slot_spec inp i0 1
    cases h1 : slot inp i0 1 with
    | error e =>
      refine ⟨?_, by intro _ _ _ _ _ h; cases h⟩
      intro f h; simp only at h; injection h with h; subst h; exact s1.1 f h1
    | ok r1 =>
      obtain ⟨i1, a1⟩ := r1
      simp only
      have s2 := @slot_spec inp i1 2
      cases h2 : slot inp i1 2 with
      | error e =>
        refine ⟨?_, by intro _ _ _ _ _ h; cases h⟩
        intro f h; simp only at h; injection h with h; subst h; exact s2.1 f h2
      | ok r2 =>
        obtain ⟨i2, a2⟩ := r2
        simp only
        have s3 := @slot_spec inp i2 3
        cases h3 : slot inp i2 3 with
        | error e =>
          refine ⟨?_, by intro _ _ _ _ _ h; cases h⟩
          intro f h; simp only at h; injection h with h; subst h; exact s3.1 f h3
        | ok r3 =>
          obtain ⟨i3, a3⟩ := r3
          simp only
          refine ⟨(by intro f h; cases h), ?_⟩
          intro i' b0 b1 b2 b3 h
          injection h with h
          simp only [Prod.mk.injEq] at h
          obtain ⟨rfl, rfl, rfl, rfl, rfl⟩ := h
          have q0 := s0.2 i0 a0 h0
          have q1 := s1.2 i1 a1 h1
          have q2 := s2.2 i2 a2 h2
          have q3 := s3.2 i3 a3 h3
          refine ⟨by omega, q0.2.2.1, q1.2.2.1, q2.2.2.1, q3.2.2.1, ?_⟩
          intro p hp1 hp2
          by_cases c0 : p ≤ i0 + 0
          · exact q0.2.2.2 p (by omega) c0
          · by_cases c1 : p ≤ i1 + 1
            · exact q1.2.2.2 p (by omega) c1
            · by_cases c2 : p ≤ i2 + 2
              · exact q2.2.2.2 p (by omega) c2
              · exact q3.2.2.2 p (by omega) (by omega)

theorem stopAt_spec {inp : List Byte} {k : Nat} :
    (∀ f, stopAt inp k ≠ .error (.fault f)) ∧
    ∀ b, stopAt inp k = .ok b →
      (b = true ↔ (inp.length ≤ k ∨ ∃ h : k < inp.length, inp[k] = PAD)) := by
  unfold stopAt
  by_cases hk : k ≥ inp.length
  · rw [if_pos hk]
    refine ⟨(by intro f h; cases h), ?_⟩
    intro b h; injection h with h; subst h
    simp; exact Or.inl hk
  · rw [if_neg hk]
    have hlt : k < inp.length := by omega
    rw [rd_lt hlt]
    refine ⟨(by intro f h; cases h), ?_⟩
    intro b h; simp only at h; injection h with h; subst h
    simp only [decide_eq_true_eq]
    constructor
    · intro h; exact Or.inr ⟨hlt, h⟩
    · rintro (h | ⟨_, h⟩)
      · omega
      · exact h


/-- the decoder stopped after `k` bytes, all of which are alphabet characters, pads or CR/LF; it
stopped at the end of the input or behind a pad -/
def Strict (inp : List Byte) : Prop :=
  ∃ k, k ≤ inp.length ∧ (∀ p, p < k → LegalAt inp p)
    ∧ (k = inp.length ∨ ∃ p, ∃ _ : p < inp.length, p < k ∧ inp[p] = PAD)

theorem loop_spec (inp : List Byte) : ∀ fuel i out, i ≤ inp.length → inp.length - i < fuel → out.length ≤ i →
    (∀ p, p < i → LegalAt inp p) →
    (∀ f, loop inp i out fuel ≠ .error (.fault f)) ∧
      ∀ res, loop inp i out fuel = .ok res → res.length ≤ inp.length + 1 ∧ Strict inp := by
  intro fuel
  induction fuel with
  | zero => intro i out _ h; omega
  | succ fuel ih =>
    intro i out hi hfuel hout hleg
    unfold loop
    by_cases hlt : i < inp.length
    · rw [if_pos hlt]
      have g := @group_spec inp i
      cases hg : group inp i with
      | error e =>
        refine ⟨?_, by intro _ h; cases h⟩
        intro f h; simp only at h; injection h with h; subst h; exact g.1 f hg
      | ok r =>
        obtain ⟨i', a0, a1, a2, a3⟩ := r
        simp only
        obtain ⟨hii, _, _, _, _, hgl⟩ := g.2 i' a0 a1 a2 a3 hg
        have hall : ∀ p, p < i' + 4 → LegalAt inp p := by
          intro p hp
          by_cases c : p < i
          · exact hleg p c
          · exact hgl p (by omega) hp
        have strictAt : ∀ q, i' + 2 ≤ q → q ≤ i' + 3 →
            (inp.length ≤ q ∨ ∃ h : q < inp.length, inp[q] = PAD) → Strict inp := by
          intro q hq1 hq2 hstop
          refine ⟨min inp.length (i' + 4), Nat.min_le_left _ _, fun p hp => hall p (by omega), ?_⟩
          rcases hstop with h | ⟨h, hpad⟩
          · left; omega
          · right; exact ⟨q, h, by omega, hpad⟩
        have t2 := @stopAt_spec inp (i' + 2)
        cases h2 : stopAt inp (i' + 2) with
        | error e =>
          refine ⟨?_, by intro _ h; cases h⟩
          intro f h; simp only at h; injection h with h; subst h; exact t2.1 f h2
        | ok b2 =>
          cases b2 with
          | true =>
            simp only
            refine ⟨(by intro f h; cases h), ?_⟩
            intro res h; injection h with h; subst h
            exact ⟨by simp; omega, strictAt (i' + 2) (by omega) (by omega) ((t2.2 true h2).mp rfl)⟩
          | false =>
            simp only
            have t3 := @stopAt_spec inp (i' + 3)
            cases h3 : stopAt inp (i' + 3) with
            | error e =>
              refine ⟨?_, by intro _ h; cases h⟩
              intro f h; simp only at h; injection h with h; subst h; exact t3.1 f h3
            | ok b3 =>
              cases b3 with
              | true =>
                simp only
                refine ⟨(by intro f h; cases h), ?_⟩
                intro res h; injection h with h; subst h
                exact ⟨by simp; omega, strictAt (i' + 3) (by omega) (by omega) ((t3.2 true h3).mp rfl)⟩
              | false =>
                simp only
                have hns : ¬ (inp.length ≤ i' + 3 ∨ ∃ h : i' + 3 < inp.length, inp[i' + 3] = PAD) := by
                  intro hc; have := (t3.2 false h3).mpr hc; cases this
                have hlt3 : i' + 3 < inp.length := by
                  by_cases c : i' + 3 < inp.length
                  · exact c
                  · exact absurd (Or.inl (by omega)) hns
                exact ih (i' + 4) _ (by omega) (by omega) (by simp; omega) hall
    · rw [if_neg hlt]
      refine ⟨(by intro f h; cases h), ?_⟩
      intro res h; injection h with h; subst h
      have : i = inp.length := by omega
      subst this
      exact ⟨by omega, inp.length, Nat.le_refl _, hleg, Or.inl rfl⟩

theorem decode_no_fault (inp : List Byte) : ∀ f, decode inp ≠ .error (.fault f) := by
  intro f
  unfold decode
  split
  · intro h; cases h
  · have := loop_spec inp (inp.length + 1) 0 [] (by omega) (by omega) (by simp) (by intro p hp; omega)
    cases hl : loop inp 0 [] (inp.length + 1) with
    | error e =>
      simp only
      intro h; injection h with h; subst h; exact this.1 f hl
    | ok out =>
      simp only
      have hlen := (this.2 out hl).1
      have : Gen.b64decodeSlack = 3 := rfl
      rw [if_neg (by rw [this]; omega)]
      intro h; cases h

theorem decode_strict {inp out : List Byte} (h : decode inp = .ok out) : Strict inp := by
  unfold decode at h
  split at h
  · rename_i he
    have : inp = [] := by simpa using he
    subst this
    exact ⟨0, Nat.le_refl _, by intro p hp; omega, Or.inl rfl⟩
  · have := loop_spec inp (inp.length + 1) 0 [] (by omega) (by omega) (by simp) (by intro p hp; omega)
    cases hl : loop inp 0 [] (inp.length + 1) with
    | error e => simp [hl] at h
    | ok o => exact (this.2 o hl).2



/-! ### round trip -/

/-- `b64alpha[k]` -/
def A (k : Nat) : Byte := alpha.getD k 0

theorem alphaAt_lt {k : Nat} (h : k < 64) : alphaAt k = .ok (A k) := by
  unfold alphaAt A
  have : k < alpha.length := by rw [alpha_length]; exact h
  rw [List.getElem?_eq_getElem this]
  simp [List.getD, List.getElem?_eq_getElem this]

theorem A_facts : ∀ k : Fin 64, digit (A k.val) = some k.val ∧ A k.val ≠ PAD ∧ A k.val ≠ CR := by decide

theorem or_shl (x y n : Nat) (h : y < 2 ^ n) : (x <<< n) ||| y = x * 2 ^ n + y := by
  rw [← Nat.shiftLeft_add_eq_or_of_lt h, Nat.shiftLeft_eq]

theorem sx0 (a : Nat) : a >>> 2 = a / 4 := Nat.shiftRight_eq_div_pow a 2
theorem sx1 (a b : Nat) (hb : b < 256) : ((a &&& 3) <<< 4) ||| (b >>> 4) = (a % 4) * 16 + b / 16 := by
  have h1 : a &&& 3 = a % 4 := Nat.and_two_pow_sub_one_eq_mod a 2
  have h2 : b >>> 4 = b / 16 := Nat.shiftRight_eq_div_pow b 4
  rw [h1, h2, or_shl _ _ 4 (by omega)]
theorem sx2 (b c : Nat) (hc : c < 256) : ((b &&& 15) <<< 2) ||| (c >>> 6) = (b % 16) * 4 + c / 64 := by
  have h1 : b &&& 15 = b % 16 := Nat.and_two_pow_sub_one_eq_mod b 4
  have h2 : c >>> 6 = c / 64 := Nat.shiftRight_eq_div_pow c 6
  rw [h1, h2, or_shl _ _ 2 (by omega)]
theorem sx3 (c : Nat) : c &&& 63 = c % 64 := Nat.and_two_pow_sub_one_eq_mod c 6

theorem b0_eq (c0 c1 : Nat) (h1 : c1 < 64) : b0 c0 c1 = u8 (c0 * 4 + c1 / 16) := by
  unfold b0
  have h2 : c1 >>> 4 = c1 / 16 := Nat.shiftRight_eq_div_pow c1 4
  rw [h2, or_shl _ _ 2 (by omega)]
theorem b1_eq (c1 c2 : Nat) (h2 : c2 < 64) : b1 c1 c2 = u8 (c1 * 16 + c2 / 4) := by
  unfold b1
  have h : c2 >>> 2 = c2 / 4 := Nat.shiftRight_eq_div_pow c2 2
  rw [h, or_shl _ _ 4 (by omega)]
theorem b2_eq (c2 c3 : Nat) (h3 : c3 < 64) : b2 c2 c3 = u8 (c2 * 64 + c3) := by
  unfold b2
  rw [or_shl _ _ 6 (by omega)]

theorem u8_toNat (a : Byte) (n : Nat) (h : n % 256 = a.toNat) : u8 n = a := by
  unfold u8
  rw [h]
  exact UInt8.ofNat_toNat


/-- sextet values of a 3-byte group (missing bytes count as 0) -/
def q0 (a : Nat) : Nat := a / 4
def q1 (a b : Nat) : Nat := (a % 4) * 16 + b / 16
def q2 (b c : Nat) : Nat := (b % 16) * 4 + c / 64
def q3 (c : Nat) : Nat := c % 64

/-- the unwrapped base64 text of a byte string -/
def encSpec : List Byte → List Byte
  | [] => []
  | [a] => [A (q0 a.toNat), A (q1 a.toNat 0), PAD, PAD]
  | [a, b] => [A (q0 a.toNat), A (q1 a.toNat b.toNat), A (q2 b.toNat 0), PAD]
  | a :: b :: c :: rest =>
    A (q0 a.toNat) :: A (q1 a.toNat b.toNat) :: A (q2 b.toNat c.toNat) :: A (q3 c.toNat) :: encSpec rest

theorem q_lt (a b c : Byte) : q0 a.toNat < 64 ∧ q1 a.toNat b.toNat < 64 ∧ q2 b.toNat c.toNat < 64 ∧ q3 c.toNat < 64
    ∧ q1 a.toNat 0 < 64 ∧ q2 b.toNat 0 < 64 := by
  have ha := a.toNat_lt; have hb := b.toNat_lt; have hc := c.toNat_lt
  unfold q0 q1 q2 q3
  omega

theorem A_ok {k : Nat} (h : k < 64) : digit (A k) = some k ∧ A k ≠ PAD ∧ A k ≠ CR := A_facts ⟨k, h⟩

theorem slot_plain {inp : List Byte} {i j : Nat} {c : Byte} {v : Nat} (h : inp[i + j]? = some c)
    (h1 : c ≠ CR) (h2 : c ≠ PAD) (h3 : digit c = some v) : slot inp i j = .ok (i, v) := by
  have hlt : i + j < inp.length := by
    by_cases hh : i + j < inp.length
    · exact hh
    · rw [List.getElem?_eq_none (by omega)] at h; cases h
  have hc : inp[i + j] = c := by
    rw [List.getElem?_eq_getElem hlt] at h; injection h
  unfold slot skipCrlf sextet
  simp only [if_pos hlt, rd_lt hlt, hc, if_neg h1, if_pos h2, h3]

theorem slot_pad {inp : List Byte} {i j : Nat} (h : inp[i + j]? = some PAD) : slot inp i j = .ok (i, 0) := by
  have hlt : i + j < inp.length := by
    by_cases hh : i + j < inp.length
    · exact hh
    · rw [List.getElem?_eq_none (by omega)] at h; cases h
  have hc : inp[i + j] = PAD := by
    rw [List.getElem?_eq_getElem hlt] at h; injection h
  have h1 : PAD ≠ CR := by decide
  unfold slot skipCrlf sextet
  simp only [if_pos hlt, rd_lt hlt, hc, if_neg h1, ne_eq, not_true_eq_false, if_false]

theorem stopAt_char {inp : List Byte} {k : Nat} {c : Byte} (h : inp[k]? = some c) :
    stopAt inp k = .ok (decide (c = PAD)) := by
  have hlt : k < inp.length := by
    by_cases hh : k < inp.length
    · exact hh
    · rw [List.getElem?_eq_none (by omega)] at h; cases h
  have hc : inp[k] = c := by
    rw [List.getElem?_eq_getElem hlt] at h; injection h
  unfold stopAt
  rw [if_neg (by omega), rd_lt hlt, hc]

theorem mid_get (pre : List Byte) (k0 k1 k2 k3 : Byte) (tail : List Byte) :
    (pre ++ k0 :: k1 :: k2 :: k3 :: tail)[pre.length + 0]? = some k0
    ∧ (pre ++ k0 :: k1 :: k2 :: k3 :: tail)[pre.length + 1]? = some k1
    ∧ (pre ++ k0 :: k1 :: k2 :: k3 :: tail)[pre.length + 2]? = some k2
    ∧ (pre ++ k0 :: k1 :: k2 :: k3 :: tail)[pre.length + 3]? = some k3 := by
  simp

/-- the decoder loop, positioned at the start of `encSpec rest`, appends exactly `rest` -/
theorem loop_encSpec : ∀ (fuel : Nat) (rest pre out : List Byte), rest.length < fuel →
    loop (pre ++ encSpec rest) pre.length out fuel = .ok (out ++ rest) := by
  intro fuel
  induction fuel with
  | zero => intro rest pre out h; omega
  | succ fuel ih =>
    intro rest pre out hfuel
    match rest with
    | [] =>
      have e : encSpec [] = [] := rfl
      rw [e, List.append_nil, List.append_nil]
      unfold loop
      rw [if_neg (by omega)]
    | [a] =>
      obtain ⟨l0, _, _, _, l1, _⟩ := q_lt a 0 0
      have g := mid_get pre (A (q0 a.toNat)) (A (q1 a.toNat 0)) PAD PAD []
      have e0 := A_ok l0; have e1 := A_ok l1
      unfold loop
      have hlt : pre.length < (pre ++ encSpec [a]).length := by simp [encSpec]
      rw [if_pos hlt]
      unfold group
      simp only [encSpec]
      simp only [slot_plain g.1 e0.2.2 e0.2.1 e0.1, slot_plain g.2.1 e1.2.2 e1.2.1 e1.1, slot_pad g.2.2.1, slot_pad g.2.2.2,
        stopAt_char g.2.2.1, decide_true]
      rw [b0_eq _ _ l1]
      congr 2
      have ha := a.toNat_lt
      simp only [List.cons.injEq, and_true]
      apply u8_toNat
      unfold q0 q1
      omega
    | [a, b] =>
      obtain ⟨l0, l1, _, _, _, l2⟩ := q_lt a b 0
      have g := mid_get pre (A (q0 a.toNat)) (A (q1 a.toNat b.toNat)) (A (q2 b.toNat 0)) PAD []
      have e0 := A_ok l0; have e1 := A_ok l1; have e2 := A_ok l2
      unfold loop
      have hlt : pre.length < (pre ++ encSpec [a, b]).length := by simp [encSpec]
      rw [if_pos hlt]
      unfold group
      simp only [encSpec]
      simp only [slot_plain g.1 e0.2.2 e0.2.1 e0.1, slot_plain g.2.1 e1.2.2 e1.2.1 e1.1,
        slot_plain g.2.2.1 e2.2.2 e2.2.1 e2.1, slot_pad g.2.2.2,
        stopAt_char g.2.2.1, stopAt_char g.2.2.2, decide_true, decide_eq_false e2.2.1]
      rw [b0_eq _ _ l1, b1_eq _ _ l2]
      have ha := a.toNat_lt; have hb := b.toNat_lt
      have r0 : u8 (q0 a.toNat * 4 + q1 a.toNat b.toNat / 16) = a := by
        apply u8_toNat; unfold q0 q1; omega
      have r1 : u8 (q1 a.toNat b.toNat * 16 + q2 b.toNat 0 / 4) = b := by
        apply u8_toNat; unfold q1 q2; omega
      rw [r0, r1]
      simp
    | a :: b :: c :: rest' =>
      obtain ⟨l0, l1, l2, l3, _, _⟩ := q_lt a b c
      have g := mid_get pre (A (q0 a.toNat)) (A (q1 a.toNat b.toNat)) (A (q2 b.toNat c.toNat)) (A (q3 c.toNat)) (encSpec rest')
      have e0 := A_ok l0; have e1 := A_ok l1; have e2 := A_ok l2; have e3 := A_ok l3
      unfold loop
      have hlt : pre.length < (pre ++ encSpec (a :: b :: c :: rest')).length := by simp [encSpec]
      rw [if_pos hlt]
      unfold group
      simp only [encSpec]
      simp only [slot_plain g.1 e0.2.2 e0.2.1 e0.1, slot_plain g.2.1 e1.2.2 e1.2.1 e1.1,
        slot_plain g.2.2.1 e2.2.2 e2.2.1 e2.1, slot_plain g.2.2.2 e3.2.2 e3.2.1 e3.1,
        stopAt_char g.2.2.1, stopAt_char g.2.2.2, decide_eq_false e2.2.1, decide_eq_false e3.2.1]
      rw [b0_eq _ _ l1, b1_eq _ _ l2, b2_eq _ _ l3]
      have ha := a.toNat_lt; have hb := b.toNat_lt; have hc := c.toNat_lt
      have r0 : u8 (q0 a.toNat * 4 + q1 a.toNat b.toNat / 16) = a := by
        apply u8_toNat; unfold q0 q1; omega
      have r1 : u8 (q1 a.toNat b.toNat * 16 + q2 b.toNat c.toNat / 4) = b := by
        apply u8_toNat; unfold q1 q2; omega
      have r2 : u8 (q2 b.toNat c.toNat * 64 + q3 c.toNat) = c := by
        apply u8_toNat; unfold q2 q3; omega
      rw [r0, r1, r2]
      have hpre : pre ++ A (q0 a.toNat) :: A (q1 a.toNat b.toNat) :: A (q2 b.toNat c.toNat) :: A (q3 c.toNat) :: encSpec rest'
          = (pre ++ [A (q0 a.toNat), A (q1 a.toNat b.toNat), A (q2 b.toNat c.toNat), A (q3 c.toNat)]) ++ encSpec rest' := by simp
      have hlen : pre.length + 4 = (pre ++ [A (q0 a.toNat), A (q1 a.toNat b.toNat), A (q2 b.toNat c.toNat), A (q3 c.toNat)]).length := by simp
      rw [hpre, hlen, ih rest' _ _ (by simp at hfuel; omega)]
      simp


theorem encSpec_length : ∀ x : List Byte, (encSpec x).length = 4 * ((x.length + 2) / 3)
  | [] => rfl
  | [_] => by simp [encSpec]
  | [_, _] => by simp [encSpec]
  | _ :: _ :: _ :: rest => by
    simp only [encSpec, List.length_cons, encSpec_length rest]
    omega

theorem stripNul_id {x : List Byte} (h : x.getLast? ≠ some 0) : stripNul x = x := by
  unfold stripNul
  rcases List.eq_nil_or_concat x with rfl | ⟨init, c, rfl⟩
  · rfl
  · have hc : c ≠ 0 := by simpa using h
    simp [hc]

theorem decode_encSpec (x : List Byte) : decode (encSpec x) = .ok (stripNul x) := by
  unfold decode
  cases x with
  | nil => rfl
  | cons a t =>
    have hne : (encSpec (a :: t)).isEmpty = false := by
      have := encSpec_length (a :: t)
      cases he : encSpec (a :: t) with
      | nil => rw [he] at this; simp at this; omega
      | cons _ _ => rfl
    rw [hne]
    have hl := loop_encSpec ((encSpec (a :: t)).length + 1) (a :: t) [] []
      (by rw [encSpec_length]; simp only [List.length_cons]; omega)
    simp only [List.nil_append, List.length_nil] at hl
    simp only [Bool.false_eq_true, if_false, hl]
    have : Gen.b64decodeSlack = 3 := rfl
    rw [if_neg (by rw [this, encSpec_length]; simp only [List.length_cons]; omega)]

theorem drop_cons_facts {inp : List Byte} {i : Nat} {a : Byte} {t : List Byte} (h : inp.drop i = a :: t) :
    i < inp.length ∧ inp.getD i 0 = a ∧ inp.drop (i + 1) = t := by
  have hlt : i < inp.length := by
    by_cases hh : i < inp.length
    · exact hh
    · rw [List.drop_eq_nil_of_le (by omega)] at h; cases h
  refine ⟨hlt, ?_, ?_⟩
  · have := List.getElem?_drop (xs := inp) (i := i) (j := 0)
    rw [h] at this
    simp at this
    simp [List.getD, ← this]
  · have : inp.drop (i + 1) = (inp.drop i).drop 1 := by simp [List.drop_drop]
    rw [this, h]; rfl

theorem wrap_none {e : Enc} {wl : Nat} (h : e.oline < wl) : wrap e wl = .ok e := by
  unfold wrap
  rw [if_neg (by omega)]

/-- without line wrapping the encoder loop appends `encSpec` of what is left of the input -/
theorem encLoop_spec (inp : List Byte) (wl : Nat) : ∀ (fuel i : Nat) (e : Enc),
    (inp.drop i).length < fuel → e.oline + (encSpec (inp.drop i)).length < wl →
    encLoop inp wl i e fuel
      = .ok { s := e.s ++ encSpec (inp.drop i), oline := e.oline + (encSpec (inp.drop i)).length } := by
  intro fuel
  induction fuel with
  | zero => intro i e h; omega
  | succ fuel ih =>
    intro i e hfuel hwl
    unfold encLoop
    cases hd : inp.drop i with
    | nil =>
      have : ¬ i < inp.length := by
        intro hh
        have := congrArg List.length hd
        simp at this; omega
      rw [if_neg this]
      simp [encSpec]
    | cons a t =>
      obtain ⟨hlt, ha, ht⟩ := drop_cons_facts hd
      rw [if_pos hlt, ha]
      rw [hd] at hfuel hwl
      cases t with
      | nil =>
        have h1 : ¬ i + 1 < inp.length := by
          have := congrArg List.length hd; simp at this; omega
        have h2 : ¬ i + 2 < inp.length := by omega
        obtain ⟨l0, _, _, _, l1, _⟩ := q_lt a 0 0
        simp only [if_neg h1, if_neg h2, sx0, sx1 _ _ (show (0 : Nat) < 256 by omega)]
        rw [show a.toNat / 4 = q0 a.toNat from rfl, show a.toNat % 4 * 16 + 0 / 16 = q1 a.toNat 0 from rfl,
          alphaAt_lt l0, alphaAt_lt l1]
        simp only [if_pos (show i + 1 ≥ inp.length by omega), if_pos (show i + 2 ≥ inp.length by omega)]
        simp only [encSpec, List.length_cons, List.length_nil] at hwl
        rw [wrap_none (by simp only; omega)]
        dsimp only
        have hnil : inp.drop (i + 3) = [] := List.drop_eq_nil_of_le (by omega)
        rw [ih (i + 3) _ (by rw [hnil]; simp at hfuel ⊢; omega) (by rw [hnil]; simp [encSpec]; omega), hnil]
        simp [encSpec]
      | cons b t2 =>
        obtain ⟨hlt1, hb, ht2⟩ := drop_cons_facts ht
        rw [if_pos hlt1, hb]
        cases t2 with
        | nil =>
          have h2 : ¬ i + 2 < inp.length := by
            have := congrArg List.length hd; simp at this; omega
          obtain ⟨l0, l1, _, _, _, l2⟩ := q_lt a b 0
          simp only [if_neg h2, sx0, sx1 _ _ b.toNat_lt, sx2 _ _ (show (0 : Nat) < 256 by omega)]
          rw [show a.toNat / 4 = q0 a.toNat from rfl,
            show a.toNat % 4 * 16 + b.toNat / 16 = q1 a.toNat b.toNat from rfl,
            show b.toNat % 16 * 4 + 0 / 64 = q2 b.toNat 0 from rfl,
            alphaAt_lt l0, alphaAt_lt l1]
          simp only [if_neg (show ¬ i + 1 ≥ inp.length by omega), if_pos (show i + 2 ≥ inp.length by omega), alphaAt_lt l2]
          simp only [encSpec, List.length_cons, List.length_nil] at hwl
          rw [wrap_none (by simp only; omega)]
          dsimp only
          have hnil : inp.drop (i + 3) = [] := List.drop_eq_nil_of_le (by omega)
          rw [ih (i + 3) _ (by rw [hnil]; simp at hfuel ⊢; omega) (by rw [hnil]; simp [encSpec]; omega), hnil]
          simp [encSpec]
        | cons c t3 =>
          obtain ⟨hlt2, hc, ht3⟩ := drop_cons_facts ht2
          rw [if_pos hlt2, hc]
          obtain ⟨l0, l1, l2, l3, _, _⟩ := q_lt a b c
          simp only [sx0, sx1 _ _ b.toNat_lt, sx2 _ _ c.toNat_lt, sx3]
          rw [show a.toNat / 4 = q0 a.toNat from rfl,
            show a.toNat % 4 * 16 + b.toNat / 16 = q1 a.toNat b.toNat from rfl,
            show b.toNat % 16 * 4 + c.toNat / 64 = q2 b.toNat c.toNat from rfl,
            show c.toNat % 64 = q3 c.toNat from rfl,
            alphaAt_lt l0, alphaAt_lt l1]
          simp only [if_neg (show ¬ i + 1 ≥ inp.length by omega), if_neg (show ¬ i + 2 ≥ inp.length by omega),
            alphaAt_lt l2, alphaAt_lt l3]
          simp only [encSpec, List.length_cons] at hwl
          rw [wrap_none (by simp only; omega)]
          dsimp only
          have hd3 : inp.drop (i + 3) = t3 := ht3
          rw [ih (i + 3) _ (by rw [hd3]; simp at hfuel ⊢; omega) (by rw [hd3]; simp only; omega), hd3]
          simp [encSpec]; omega

theorem encode_spec (x : List Byte) (wl : Nat) (h : 4 * ((x.length + 2) / 3) < wl) : encode x wl = .ok (encSpec x) := by
  unfold encode
  cases x with
  | nil => rfl
  | cons a t =>
    simp only [List.isEmpty_cons, Bool.false_eq_true, if_false]
    rw [if_neg (by omega)]
    have := encLoop_spec (a :: t) wl ((a :: t).length + 1) 0 { s := [], oline := 0 } (by simp)
      (by simp only [List.drop_zero, encSpec_length]; omega)
    simp only [List.drop_zero, List.nil_append] at this
    rw [this]
    simp only
    have hs : Gen.b64encodeSlack = 7 := rfl
    rw [if_neg (by rw [hs, encSpec_length]; simp only [List.length_cons]; omega)]


end QsmtpModel.Base64
