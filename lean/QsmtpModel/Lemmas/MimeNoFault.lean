/-
C06 (no_fault), qremote/mime.c: the MIME helpers never read outside a header field that lies behind
the first byte of the message view and ends in CR or LF — which is what getfieldlen() hands to
is_multipart().  `NF r` = the outcome `r` is not a memory fault (it may be a result or an abort).
-/
import QsmtpModel.Mime
import QsmtpModel.Lemmas.QrNoHang

namespace QsmtpModel.Mime
open QsmtpModel

/-- the outcome is not a memory fault -/
def NF {α : Type} (r : R α) : Prop := ∀ f : Fault, r ≠ .error (.fault f)

theorem NF_ok {α : Type} (a : α) : NF (Except.ok a : R α) := by intro f h; cases h
theorem NF_abort {α : Type} (c : Nat) (o : List Byte) : NF (Except.error (.abort c o) : R α) := by
  intro f h; cases h
theorem NF_of_ok {α : Type} {r : R α} (h : ∃ a, r = .ok a) : NF r := by
  obtain ⟨a, rfl⟩ := h; exact NF_ok a

theorem rd_ok {buf : List Byte} {i : Nat} (h : i < buf.length) : ∃ x, rd buf i = .ok x ∧ buf[i]? = some x := by
  refine ⟨buf[i], ?_, List.getElem?_eq_getElem h⟩
  simp [rd, List.getElem?_eq_getElem h]

theorem rd_eq {buf : List Byte} {i : Nat} {x : Byte} (h : buf[i]? = some x) : rd buf i = .ok x := by
  simp [rd, h]

theorem rd_get {buf : List Byte} {i : Nat} {x : Byte} (h : rd buf i = .ok x) : buf[i]? = some x := by
  unfold rd at h; split at h
  · cases h; assumption
  · cases h

theorem rdPrev_ok {buf : List Byte} {p : Nat} (h0 : 0 < p) (h : p ≤ buf.length) :
    ∃ x, rdPrev buf p = .ok x ∧ buf[p - 1]? = some x := by
  unfold rdPrev
  simp only [show ¬ p = 0 by omega, if_false]
  exact rd_ok (by omega)

theorem braceStep_ok (buf : List Byte) (line c : Nat) (b : Int) (h0 : 0 < c) (h : c < buf.length) :
    ∃ b', braceStep buf line c b = .ok b' := by
  obtain ⟨x, hx, _⟩ := rd_ok h
  obtain ⟨p, hp, _⟩ := rdPrev_ok h0 (Nat.le_of_lt h)
  unfold braceStep
  simp only [bind, Except.bind, pure, Except.pure, hx, hp]
  repeat' split
  all_goals exact ⟨_, rfl⟩

/-- skipwhitespace() stays inside `[c, c + l)` (it looks one byte back, so the range must not begin
at the first byte of the view) -/
theorem skipWsGo_ok (buf : List Byte) (line c l : Nat) (mode : Option Int) (h0 : 0 < c)
    (h : c + l ≤ buf.length) :
    ∃ r, skipWsGo buf line c l mode = .ok r ∧ ∀ k, r = some k → c ≤ k ∧ k ≤ c + l := by
  fun_induction skipWsGo buf line c l mode
  case case1 c => exact ⟨_, rfl, by intro k hk; cases hk; omega⟩
  case case2 c l hl e hr =>
    obtain ⟨x, hx, _⟩ := rd_ok (buf := buf) (i := c) (by omega)
    rw [hx] at hr; cases hr
  case case3 c l hl x hr hws ih =>
    obtain ⟨r, hr1, hr2⟩ := ih (by omega) (by omega)
    exact ⟨r, hr1, fun k hk => by have := hr2 k hk; omega⟩
  case case4 c l hl x hr hws hx => exact ⟨_, rfl, by intro k hk; cases hk; omega⟩
  case case5 c l hl x hr hws hx ih =>
    exact ih h0 h
  case case6 => exact ⟨_, rfl, by intro k hk; cases hk⟩
  case case7 => exact ⟨_, rfl, by intro k hk; cases hk⟩
  case case8 c b l' hl' e hb =>
    obtain ⟨b', hb'⟩ := braceStep_ok buf line c b h0 (by omega)
    rw [hb'] at hb; cases hb
  case case9 c b l' hl' b' hb hne ih =>
    obtain ⟨r, hr1, hr2⟩ := ih (by omega) (by omega)
    exact ⟨r, hr1, fun k hk => by have := hr2 k hk; omega⟩
  case case10 c b l' hl' b' hb hne ih =>
    obtain ⟨r, hr1, hr2⟩ := ih (by omega) (by omega)
    exact ⟨r, hr1, fun k hk => by have := hr2 k hk; omega⟩

theorem skipWs_ok (buf : List Byte) (start len : Nat) (h0 : 0 < start) (h : start + len ≤ buf.length) :
    ∃ r, skipWs buf start len = .ok r ∧ ∀ k, r = some k → start ≤ k ∧ k ≤ start + len :=
  skipWsGo_ok buf start start len none h0 h

/-- the view ends in a white-space byte at index `e - 1` -/
def WsAt (buf : List Byte) (e : Nat) : Prop := 0 < e ∧ ∃ x, buf[e - 1]? = some x ∧ isWs x = true

/-- mime_token() stays inside `[start, start + len)`; if that range ends in white space the token
ends before the end of the range -/
theorem mimeTokenGo_ok (buf : List Byte) (start len i : Nat) (h0 : 0 < start)
    (h : start + len ≤ buf.length) (hi : i ≤ len) :
    ∃ r, mimeTokenGo buf start len i = .ok r ∧ r ≤ len ∧
      (i < len → WsAt buf (start + len) → r < len) ∧
      (0 < r → r < len → ∃ x, buf[start + r]? = some x ∧ (x = SEMI ∨ x = EQ ∨ isWs x = true)) := by
  fun_induction mimeTokenGo buf start len i
  case case1 i hlt e hr =>
    obtain ⟨x, hx, _⟩ := rd_ok (buf := buf) (i := start + i) (by omega)
    rw [hx] at hr; cases hr
  case case2 i hlt x hr hx =>
    exact ⟨_, rfl, by omega, fun _ _ => hlt, fun _ _ => ⟨x, rd_get hr, by rcases hx with h | h <;> simp [h]⟩⟩
  case case3 i hlt x hr hx hws e hs =>
    obtain ⟨r, hr1, _⟩ := skipWs_ok buf (start + i) (len - i) (by omega) (by omega)
    rw [hr1] at hs; cases hs
  case case4 i hlt x hr hx hws e hs =>
    by_cases he : e = some (start + len)
    · simp only [he, if_true]
      exact ⟨_, rfl, by omega, fun _ _ => hlt, fun _ _ => ⟨x, rd_get hr, Or.inr (Or.inr hws)⟩⟩
    · simp only [he, if_false]
      exact ⟨_, rfl, by omega, fun _ _ => by omega, fun h1 _ => by omega⟩
  case case5 i hlt x hr hx hws hbad =>
    exact ⟨_, rfl, by omega, fun _ _ => by omega, fun h1 _ => by omega⟩
  case case6 i hlt x hr hx hws hbad ih =>
    obtain ⟨r, hr1, hr2, hr3, hr4⟩ := ih (by omega)
    refine ⟨r, hr1, hr2, fun _ hw => ?_, hr4⟩
    by_cases hl : i + 1 < len
    · exact hr3 hl hw
    · -- `x` is the last byte of the range, which is white space
      exfalso
      obtain ⟨_, y, hy, hyw⟩ := hw
      have : start + len - 1 = start + i := by omega
      rw [this, rd_get hr] at hy
      cases hy
      simp [hyw] at hws
  case case7 i hlt =>
    exact ⟨_, rfl, by omega, fun h1 _ => by omega, fun _ h2 => by omega⟩

theorem mimeToken_ok (buf : List Byte) (start len : Nat) (h0 : 0 < start) (h : start + len ≤ buf.length) :
    ∃ r, mimeToken buf start len = .ok r ∧ r ≤ len ∧ (0 < len → WsAt buf (start + len) → r < len) ∧
      (0 < r → r < len → ∃ x, buf[start + r]? = some x ∧ (x = SEMI ∨ x = EQ ∨ isWs x = true)) :=
  mimeTokenGo_ok buf start len 0 h0 h (by omega)

/-- the search for the closing quote stays inside the range; where it stops before the end there
is a quote -/
theorem quoteEnd_ok (buf : List Byte) (start len i : Nat) (h0 : 0 < start) (h : start + len ≤ buf.length) :
    ∃ r, quoteEnd buf start len i = .ok r ∧ i ≤ r ∧ (r < len → buf[start + r]? = some DQUOTE) := by
  fun_induction quoteEnd buf start len i
  case case1 i hlt e hr =>
    obtain ⟨x, hx, _⟩ := rd_ok (buf := buf) (i := start + i) (by omega)
    rw [hx] at hr; cases hr
  case case2 i hlt e hp hr =>
    obtain ⟨y, hy, _⟩ := rdPrev_ok (buf := buf) (p := start + i) (by omega) (by omega)
    rw [hy] at hp; cases hp
  case case3 i hlt p hp hne hr =>
    exact ⟨_, rfl, by omega, fun _ => rd_get hr⟩
  case case4 i hlt p hp hne hr ih =>
    obtain ⟨r, h1, h2, h3⟩ := ih
    exact ⟨r, h1, by omega, h3⟩
  case case5 i hlt x hr hx ih =>
    obtain ⟨r, h1, h2, h3⟩ := ih
    exact ⟨r, h1, by omega, h3⟩
  case case6 i hlt => exact ⟨_, rfl, by omega, fun h => by omega⟩

/-- the view ends in CR or LF at index `e - 1` -/
def EolAt (buf : List Byte) (e : Nat) : Prop := 0 < e ∧ (buf[e - 1]? = some CR ∨ buf[e - 1]? = some LF)

theorem EolAt.ws {buf : List Byte} {e : Nat} (h : EolAt buf e) : WsAt buf e := by
  obtain ⟨h0, h1 | h1⟩ := h
  · exact ⟨h0, CR, h1, by decide⟩
  · exact ⟨h0, LF, h1, by decide⟩

theorem EolAt.ne {buf : List Byte} {e : Nat} (h : EolAt buf e) {x : Byte} (hx : buf[e - 1]? = some x) :
    x = CR ∨ x = LF := by
  obtain ⟨_, h1 | h1⟩ := h <;> rw [h1] at hx <;> cases hx <;> simp

/-- mime_param() on the rest of a field that ends in CR or LF: no read outside the field, the
parameter ends before the end of the field, and a quoted value has its closing quote inside -/
theorem mimeParam_ok (buf : List Byte) (start len : Nat) (h0 : 0 < start) (h : start + len = buf.length)
    (hl : 0 < len) (he : EolAt buf buf.length) :
    ∃ r, mimeParam buf start len = .ok r ∧ r < len ∧
      (0 < r → ∀ i, mimeToken buf start len = .ok i → buf[start + i + 1]? = some DQUOTE →
        ∃ k, start + i + 2 ≤ k ∧ k < start + len ∧ buf[k]? = some DQUOTE) := by
  obtain ⟨i, hi1, hi2, hi3, hi4⟩ := mimeToken_ok buf start len h0 (by omega)
  have hilt : i < len := hi3 hl (h ▸ he.ws)
  unfold mimeParam
  simp only [bind, Except.bind, pure, Except.pure, hi1]
  by_cases hi0 : i = 0 ∨ i = len
  · simp only [hi0, if_true]; exact ⟨0, rfl, hl, fun h => by omega⟩
  simp only [hi0, if_false]
  obtain ⟨x, hx1, hx2⟩ := rd_ok (buf := buf) (i := start + i) (by omega)
  simp only [hx1]
  by_cases hxe : x ≠ EQ
  · rw [if_pos hxe]; exact ⟨0, rfl, hl, fun h => by omega⟩
  rw [if_neg hxe]
  have hxe' : x = EQ := by simpa using hxe
  subst hxe'
  -- '=' is not the last byte of the field
  have hi1lt : i + 1 < len := by
    by_cases hc : i + 1 < len
    · exact hc
    · exfalso
      have : buf.length - 1 = start + i := by omega
      have := he.ne (this ▸ hx2)
      revert this; decide
  obtain ⟨q, hq1, hq2⟩ := rd_ok (buf := buf) (i := start + (i + 1)) (by omega)
  simp only [hq1]
  by_cases hqq : q = DQUOTE
  · subst hqq
    simp only [if_true]
    obtain ⟨j, hj1, hj2, hj3⟩ := quoteEnd_ok buf start len (i + 1 + 1) h0 (by omega)
    simp only [hj1]
    by_cases hjl : j = len
    · simp only [hjl, if_true]; exact ⟨0, rfl, hl, fun h => by omega⟩
    simp only [hjl, if_false]
    -- the closing quote is not the last byte either
    have hjlt : j < len := by
      have := quoteEnd_ok buf start len (i + 1 + 1) h0 (by omega)
      by_cases hc : j < len
      · exact hc
      · exfalso
        -- quoteEnd never runs beyond len when started at or below it
        have hle : j ≤ len := by
          clear this
          have key : ∀ i, i ≤ len → ∀ r, quoteEnd buf start len i = .ok r → r ≤ len := by
            intro i
            fun_induction quoteEnd buf start len i <;> intro hil r hr
            all_goals first
              | (cases hr; done)
              | (simp only [Except.ok.injEq] at hr; omega)
              | (rename_i ih; exact ih (by omega) r hr)
          exact key _ (by omega) _ hj1
        omega
    have hj1lt : j + 1 < len := by
      by_cases hc : j + 1 < len
      · exact hc
      · exfalso
        have hq := hj3 hjlt
        have : buf.length - 1 = start + j := by omega
        have := he.ne (this ▸ hq)
        revert this; decide
    simp only [show ¬ j + 1 = len by omega, if_false]
    obtain ⟨y, hy1, hy2⟩ := rd_ok (buf := buf) (i := start + (j + 1)) (by omega)
    simp only [hy1]
    have hwit : ∀ i', (Except.ok i : R Nat) = .ok i' → buf[start + i' + 1]? = some DQUOTE →
        ∃ k, start + i' + 2 ≤ k ∧ k < start + len ∧ buf[k]? = some DQUOTE := by
      intro i' hi' _
      cases hi'
      exact ⟨start + j, by omega, by omega, hj3 hjlt⟩
    by_cases hyy : y ≠ SEMI ∧ y ≠ LPAR ∧ ¬ isWs y = true
    · rw [if_pos hyy]; exact ⟨0, rfl, hl, fun h => by omega⟩
    · rw [if_neg hyy]; exact ⟨j + 1, rfl, hj1lt, fun _ => hwit⟩
  · simp only [hqq, if_false]
    have hnoq : ∀ i', (Except.ok i : R Nat) = .ok i' → buf[start + i' + 1]? = some DQUOTE →
        ∃ k, start + i' + 2 ≤ k ∧ k < start + len ∧ buf[k]? = some DQUOTE := by
      intro i' hi' hq'
      cases hi'
      rw [show start + i + 1 = start + (i + 1) by omega, hq2] at hq'
      cases hq'; exact absurd rfl hqq
    by_cases hqw : isWs q = true
    · simp only [hqw, if_true]; exact ⟨0, rfl, hl, fun h => by omega⟩
    simp only [hqw]
    obtain ⟨j, hj1, hj2, hj3, hj4⟩ := mimeToken_ok buf (start + (i + 1)) (len - (i + 1)) (by omega) (by omega)
    simp only [hj1]
    have hjlt : j < len - (i + 1) := hj3 (by omega) (by
      have : start + (i + 1) + (len - (i + 1)) = buf.length := by omega
      rw [this]; exact he.ws)
    simp only [show ¬ i + 1 + j = len by omega, if_false]
    obtain ⟨y, hy1, hy2⟩ := rd_ok (buf := buf) (i := start + (i + 1 + j)) (by omega)
    simp only [hy1]
    by_cases hyy : y = SEMI ∨ isWs y = true
    · rw [if_pos hyy]; exact ⟨_, rfl, by omega, fun _ => hnoq⟩
    · rw [if_neg hyy]; exact ⟨0, rfl, hl, fun h => by omega⟩

/-! ### strncasecmp -/

theorem caseEq_ok_len (buf : List Byte) : ∀ (lit : List Byte) (pos : Nat), pos + lit.length ≤ buf.length →
    ∃ b, caseEq buf pos lit = .ok b
  | [], pos, _ => ⟨true, rfl⟩
  | l :: ls, pos, h => by
    obtain ⟨x, hx, _⟩ := rd_ok (buf := buf) (i := pos) (by simp at h; omega)
    unfold caseEq
    simp only [hx]
    split
    · exact caseEq_ok_len buf ls (pos + 1) (by simp at h; omega)
    · exact ⟨false, rfl⟩

/-- a successful comparison tells what the bytes are -/
theorem caseEq_true (buf : List Byte) : ∀ (lit : List Byte) (pos : Nat), caseEq buf pos lit = .ok true →
    ∀ j (hj : j < lit.length), ∃ x, buf[pos + j]? = some x ∧ lower x = lower lit[j]
  | [], pos, _, j, hj => by simp at hj
  | l :: ls, pos, h, j, hj => by
    unfold caseEq at h
    split at h
    · cases h
    · rename_i x hx
      split at h
      · rename_i hxl
        cases j with
        | zero => exact ⟨x, rd_get hx, hxl⟩
        | succ j =>
          obtain ⟨y, hy1, hy2⟩ := caseEq_true buf ls (pos + 1) h j (by simpa using hj)
          exact ⟨y, by rw [show pos + (j + 1) = pos + 1 + j by omega]; exact hy1, by simpa using hy2⟩
      · cases h

/-- comparing with a literal that contains neither CR nor LF stops at the latest at the CR or LF
that ends the view: strncasecmp() may be given fewer bytes than the literal has -/
theorem caseEq_ok_eol (buf : List Byte) (he : EolAt buf buf.length) :
    ∀ (lit : List Byte) (pos : Nat), pos < buf.length →
    (∀ l ∈ lit, lower CR ≠ lower l ∧ lower LF ≠ lower l) →
    ∃ b, caseEq buf pos lit = .ok b ∧ (b = true → pos + lit.length < buf.length)
  | [], pos, h, _ => ⟨true, rfl, fun _ => by simpa using h⟩
  | l :: ls, pos, h, hl => by
    obtain ⟨x, hx, hx2⟩ := rd_ok (buf := buf) (i := pos) h
    unfold caseEq
    simp only [hx]
    split
    · rename_i hxl
      have hne : pos + 1 < buf.length := by
        by_cases hc : pos + 1 < buf.length
        · exact hc
        · exfalso
          have : buf.length - 1 = pos := by omega
          have hcl := he.ne (this ▸ hx2)
          have := hl l (by simp)
          rcases hcl with rfl | rfl
          · exact this.1 hxl
          · exact this.2 hxl
      obtain ⟨b, hb1, hb2⟩ := caseEq_ok_eol buf he ls (pos + 1) hne (fun l' hl' => hl l' (by simp [hl']))
      exact ⟨b, hb1, fun hb => by have := hb2 hb; simp; omega⟩
    · exact ⟨false, rfl, fun h => by cases h⟩

/-! ### the token in front of `boundary=` -/

/-- a byte that mime_token() steps over -/
def tokCh (x : Byte) : Bool :=
  !(x = SEMI || x = EQ) && !isWs x && !(decide (sbyte x ≤ 32) || isTspecial x)

theorem tokCh_table : ∀ n : Fin 256, ∀ l ∈ Gen.mimeBoundaryEq.take 8,
    lower (UInt8.ofNat n.val) = lower l → tokCh (UInt8.ofNat n.val) = true := by decide +kernel

theorem tokCh_of_lower (x l : Byte) (hl : l ∈ Gen.mimeBoundaryEq.take 8) (h : lower x = lower l) :
    tokCh x = true := by
  have := tokCh_table ⟨x.toNat, x.toNat_lt⟩ l hl
  simp only [UInt8.ofNat_toNat] at this
  exact this h

theorem eq_table : ∀ n : Fin 256, lower (UInt8.ofNat n.val) = lower EQ → UInt8.ofNat n.val = EQ := by
  decide +kernel

theorem eq_of_lower (x : Byte) (h : lower x = lower EQ) : x = EQ := by
  have := eq_table ⟨x.toNat, x.toNat_lt⟩
  simp only [UInt8.ofNat_toNat] at this
  exact this h

theorem mimeTokenGo_step (buf : List Byte) (start len i : Nat) (x : Byte) (hi : i < len)
    (hx : buf[start + i]? = some x) (ht : tokCh x = true) :
    mimeTokenGo buf start len i = mimeTokenGo buf start len (i + 1) := by
  rw [mimeTokenGo]
  simp only [hi, if_true, rd_eq hx]
  simp only [tokCh, Bool.and_eq_true, Bool.not_eq_true', Bool.or_eq_false_iff, decide_eq_false_iff_not] at ht
  obtain ⟨⟨⟨h1, h2⟩, h3⟩, h4, h5⟩ := ht
  have h1' : ¬ (x = SEMI ∨ x = EQ) := by
    intro h; rcases h with h | h
    · simp [h] at h1
    · simp [h] at h2
  rw [if_neg h1']
  simp only [h3, Bool.false_eq_true, if_false]
  have : ¬ (sbyte x ≤ 32 ∨ isTspecial x = true) := by
    intro h; rcases h with h | h
    · exact h4 h
    · simp [h] at h5
  rw [if_neg this]

/-- where `boundary=` was recognised, mime_token() gives the length of `boundary` -/
theorem mimeToken_boundary (buf : List Byte) (start len : Nat) (hlen : Gen.mimeBoundaryEq.length ≤ len)
    (hc : caseEq buf start Gen.mimeBoundaryEq = .ok true) : mimeToken buf start len = .ok 8 := by
  have hb := caseEq_true buf _ start hc
  have h9 : Gen.mimeBoundaryEq.length = 9 := rfl
  have step : ∀ j, j < 8 → mimeTokenGo buf start len j = mimeTokenGo buf start len (j + 1) := by
    intro j hj
    obtain ⟨x, hx1, hx2⟩ := hb j (by omega)
    apply mimeTokenGo_step buf start len j x (by omega) hx1
    apply tokCh_of_lower x _ _ hx2
    have : Gen.mimeBoundaryEq[j]'(by omega) = (Gen.mimeBoundaryEq.take 8)[j]'(by simp; omega) := by simp
    rw [this]
    exact List.getElem_mem _
  unfold mimeToken
  rw [step 0 (by omega), step 1 (by omega), step 2 (by omega), step 3 (by omega), step 4 (by omega),
    step 5 (by omega), step 6 (by omega), step 7 (by omega)]
  obtain ⟨x, hx1, hx2⟩ := hb 8 (by omega)
  have hxe : x = EQ := eq_of_lower x hx2
  subst hxe
  rw [mimeTokenGo]
  simp only [show 8 < len by omega, if_true, rd_eq hx1]
  simp

/-! ### the boundary definition -/

theorem unquotedLen_ok (buf : List Byte) (he : EolAt buf buf.length) (s j : Nat) (h : s + j < buf.length) :
    ∃ r, unquotedLen buf s j = .ok r ∧ j ≤ r ∧ s + r < buf.length := by
  fun_induction unquotedLen buf s j
  case case1 j hn =>
    have := List.getElem?_eq_none_iff.mp hn; omega
  case case2 j x hx hc ih =>
    have hlt : s + (j + 1) < buf.length := by
      by_cases hc' : s + (j + 1) < buf.length
      · exact hc'
      · exfalso
        have : buf.length - 1 = s + j := by omega
        have hcl := he.ne (this ▸ hx)
        have hws : isWs x = true := by rcases hcl with rfl | rfl <;> decide
        simp [hws] at hc
    obtain ⟨r, h1, h2, h3⟩ := ih hlt
    exact ⟨r, h1, by omega, h3⟩
  case case3 j x hx hc => exact ⟨j, rfl, by omega, h⟩

theorem boundaryChars_nf (buf : List Byte) (s : Nat) (q : Bool) : ∀ j, s + j ≤ buf.length →
    NF (boundaryChars buf s q j)
  | 0, _ => NF_ok ()
  | j + 1, h => by
    obtain ⟨x, hx, _⟩ := rd_ok (buf := buf) (i := s + j) (by omega)
    unfold boundaryChars
    simp only [hx]
    split
    · exact boundaryChars_nf buf s q j (by omega)
    · exact NF_abort _ _

theorem memchr_some (c : Byte) : ∀ (l : List Byte) (k : Nat), l[k]? = some c → ∃ m, memchr c l = some m ∧ m ≤ k
  | [], k, h => by simp at h
  | x :: xs, k, h => by
    unfold memchr
    by_cases hx : x = c
    · simp [hx]
    · simp only [hx, if_false]
      cases k with
      | zero => simp at h; exact absurd h hx
      | succ k =>
        obtain ⟨m, hm1, hm2⟩ := memchr_some c xs k (by simpa using h)
        exact ⟨m + 1, by simp [hm1], by omega⟩

/-- what is done once `boundary=` has been recognised never leaves the field: an unquoted
boundary ends at the latest at the final CR or LF, a quoted one has its closing quote (mime_param()
has seen it) -/
theorem boundaryDef_nf (buf : List Byte) (he : EolAt buf buf.length) (ch : Nat)
    (hs : ch + Gen.mimeBoundaryEq.length < buf.length)
    (hq : buf[ch + Gen.mimeBoundaryEq.length]? = some DQUOTE →
      ∃ k, ch + Gen.mimeBoundaryEq.length + 1 ≤ k ∧ k < buf.length ∧ buf[k]? = some DQUOTE) :
    NF (boundaryDef buf ch) := by
  obtain ⟨q, hq1, hq2⟩ := rd_ok hs
  unfold boundaryDef
  simp only [bind, Except.bind, pure, Except.pure, hq1]
  by_cases hqq : q = DQUOTE
  · subst hqq
    obtain ⟨k, hk1, hk2, hk3⟩ := hq hq2
    obtain ⟨m, hm1, hm2⟩ := memchr_some DQUOTE (buf.drop (ch + Gen.mimeBoundaryEq.length + 1))
      (k - (ch + Gen.mimeBoundaryEq.length + 1)) (by
        rw [List.getElem?_drop]
        rw [show ch + Gen.mimeBoundaryEq.length + 1 + (k - (ch + Gen.mimeBoundaryEq.length + 1)) = k by omega]
        exact hk3)
    simp only [decide_true, if_true, hm1]
    by_cases hm0 : m = 0
    · simp only [hm0, if_true, throw, throwThe, MonadExceptOf.throw]; exact NF_abort _ _
    simp only [hm0, if_false]
    by_cases hm70 : m > Gen.boundaryMax
    · simp only [hm70, if_true, throw, throwThe, MonadExceptOf.throw]; exact NF_abort _ _
    simp only [hm70, if_false]
    obtain ⟨l, hl1, _⟩ := rd_ok (buf := buf) (i := ch + Gen.mimeBoundaryEq.length + 1 + m - 1) (by omega)
    simp only [hl1]
    by_cases hlsp : l = SP
    · simp only [hlsp, if_true, throw, throwThe, MonadExceptOf.throw]; exact NF_abort _ _
    simp only [hlsp, if_false]
    have := boundaryChars_nf buf (ch + Gen.mimeBoundaryEq.length + 1) true m (by omega)
    intro f
    cases hb : boundaryChars buf (ch + Gen.mimeBoundaryEq.length + 1) true m with
    | error e => simp only []; intro h; cases h; exact this f hb
    | ok u => simp only []; intro h; cases h
  · obtain ⟨j, hj1, hj2, hj3⟩ := unquotedLen_ok buf he (ch + Gen.mimeBoundaryEq.length) 0 (by omega)
    simp only [hqq, decide_false, if_false, hj1]
    by_cases hm0 : j = 0
    · simp only [hm0, if_true, throw, throwThe, MonadExceptOf.throw]; exact NF_abort _ _
    simp only [hm0, if_false]
    by_cases hm70 : j > Gen.boundaryMax
    · simp only [hm70, if_true, throw, throwThe, MonadExceptOf.throw]; exact NF_abort _ _
    simp only [hm70, if_false]
    have := boundaryChars_nf buf (ch + Gen.mimeBoundaryEq.length) false j (by omega)
    intro f
    cases hb : boundaryChars buf (ch + Gen.mimeBoundaryEq.length) false j with
    | error e => simp only []; intro h; cases h; exact this f hb
    | ok u => simp only []; intro h; cases h

/-- the parameter loop of is_multipart() never leaves a field that ends in CR or LF -/
theorem paramLoop_nf (buf : List Byte) (he : EolAt buf buf.length) (ch i : Nat) (h0 : 0 < ch + i)
    (h : ch + i ≤ buf.length) : NF (paramLoop buf ch i) := by
  fun_induction paramLoop buf ch i
  case case1 ch i len e hs =>
    obtain ⟨r, hr, _⟩ := skipWs_ok buf (ch + i) (len - (ch + i)) h0 (by simp only [len]; omega)
    rw [hr] at hs; cases hs
  case case2 => exact NF_ok _
  case case3 => exact NF_ok _
  case case4 ch i len ch' hs hne e hp =>
    obtain ⟨r, hr, hr2⟩ := skipWs_ok buf (ch + i) (len - (ch + i)) h0 (by simp only [len]; omega)
    rw [hr] at hs; cases hs
    have := hr2 ch' rfl
    obtain ⟨r', hr', _⟩ := mimeParam_ok buf ch' (len - ch') (by omega) (by simp only [len] at *; omega)
      (by simp only [len] at *; omega) he
    rw [hr'] at hp; cases hp
  case case5 ch i len ch' hs hne i' hp isB e hb =>
    obtain ⟨r, hr, hr2⟩ := skipWs_ok buf (ch + i) (len - (ch + i)) h0 (by simp only [len]; omega)
    rw [hr] at hs; cases hs
    have := hr2 ch' rfl
    obtain ⟨r', hr', hlt, _⟩ := mimeParam_ok buf ch' (len - ch') (by omega) (by simp only [len] at *; omega)
      (by simp only [len] at *; omega) he
    rw [hr'] at hp; cases hp
    simp only [isB] at hb
    split at hb
    · obtain ⟨b, hb'⟩ := caseEq_ok_len buf Gen.mimeBoundaryEq ch' (by simp only [len] at *; omega)
      rw [hb'] at hb; cases hb
    · cases hb
  case case6 ch i len ch' hs hne i' hp isB hb =>
    obtain ⟨r, hr, hr2⟩ := skipWs_ok buf (ch + i) (len - (ch + i)) h0 (by simp only [len]; omega)
    rw [hr] at hs; cases hs
    have := hr2 ch' rfl
    obtain ⟨r', hr', hlt, hq⟩ := mimeParam_ok buf ch' (len - ch') (by omega) (by simp only [len] at *; omega)
      (by simp only [len] at *; omega) he
    rw [hr'] at hp; cases hp
    simp only [isB] at hb
    split at hb
    · rename_i hgt
      apply boundaryDef_nf buf he ch' (by simp only [len] at *; omega)
      intro hdq
      have htok := mimeToken_boundary buf ch' (len - ch') (by omega) hb
      have h9 : Gen.mimeBoundaryEq.length = 9 := rfl
      obtain ⟨k, hk1, hk2, hk3⟩ := hq (by omega) 8 htok (by rw [h9] at hdq; exact hdq)
      exact ⟨k, by omega, by simp only [len] at *; omega, hk3⟩
    · cases hb
  case case7 => exact NF_ok _
  case case8 ch i len ch' hs hne i' hp isB hb hi0 hn =>
    exfalso
    obtain ⟨r, hr, hr2⟩ := skipWs_ok buf (ch + i) (len - (ch + i)) h0 (by simp only [len]; omega)
    rw [hr] at hs; cases hs
    have := hr2 ch' rfl
    obtain ⟨r', hr', hlt, _⟩ := mimeParam_ok buf ch' (len - ch') (by omega) (by simp only [len] at *; omega)
      (by simp only [len] at *; omega) he
    rw [hr'] at hp; cases hp
    have := List.getElem?_eq_none_iff.mp hn
    simp only [len] at *; omega
  case case9 ch i len ch' hs hne i' hp isB hb hi0 y hy ih =>
    obtain ⟨r, hr, hr2⟩ := skipWs_ok buf (ch + i) (len - (ch + i)) h0 (by simp only [len]; omega)
    rw [hr] at hs; cases hs
    have := hr2 ch' rfl
    obtain ⟨r', hr', hlt, _⟩ := mimeParam_ok buf ch' (len - ch') (by omega) (by simp only [len] at *; omega)
      (by simp only [len] at *; omega) he
    rw [hr'] at hp; cases hp
    have hyl := (List.getElem?_eq_some_iff.mp hy).1
    apply ih
    · split <;> omega
    · split <;> omega

theorem multipart_lit_no_eol : ∀ l ∈ Gen.mimeMultipart, lower CR ≠ lower l ∧ lower LF ≠ lower l := by decide

/-- is_multipart() never reads outside a `Content-Type:` field that ends in CR or LF (or is absent) -/
theorem isMultipart_nf (buf : List Byte) (he : buf = [] ∨ (EolAt buf buf.length ∧ Gen.mimeContentType.length ≤ buf.length)) :
    NF (isMultipart buf) := by
  unfold isMultipart
  simp only [bind, Except.bind, pure, Except.pure, throw, throwThe, MonadExceptOf.throw]
  rcases he with rfl | ⟨he, hlen⟩
  · simp; exact NF_ok _
  have h13 : Gen.mimeContentType.length = 13 := rfl
  have h10 : Gen.mimeMultipart.length = 10 := rfl
  rw [h13] at hlen
  simp only [h13, h10]
  have hl0 : ¬ buf.length = 0 := by omega
  have hl13 : ¬ buf.length < 13 := by omega
  simp only [hl0, hl13, if_false]
  obtain ⟨r, hr1, hr2⟩ := skipWs_ok buf 13 (buf.length - 13) (by omega) (by omega)
  simp only [hr1]
  cases r with
  | none => exact NF_ok _
  | some ch =>
    have hch := hr2 ch rfl
    simp only
    by_cases hce : ch = buf.length
    · simp only [hce, if_true]; exact NF_ok _
    simp only [hce, if_false]
    obtain ⟨b, hb1, hb2⟩ := caseEq_ok_eol buf he Gen.mimeMultipart ch (by omega) multipart_lit_no_eol
    simp only [hb1]
    cases b with
    | false => simp; exact NF_ok _
    | true =>
      have hb := hb2 rfl
      rw [h10] at hb
      simp only [not_true_eq_false, if_false]
      obtain ⟨j, hj1, hj2, hj3, _⟩ := mimeToken_ok buf (ch + 10) (buf.length - ch - 10) (by omega) (by omega)
      have hjlt := hj3 (by omega) (by rw [show ch + 10 + (buf.length - ch - 10) = buf.length by omega]; exact he.ws)
      simp only [hj1]
      by_cases hj0 : j = 0
      · simp only [hj0, if_true]; exact NF_ok _
      simp only [hj0, if_false]
      obtain ⟨x, hx, _⟩ := rd_ok (buf := buf) (i := ch + (10 + j)) (by omega)
      simp only [hx]
      by_cases hxe : x = EQ
      · simp only [hxe, if_true]; exact NF_ok _
      simp only [hxe, if_false]
      by_cases hxs : x ≠ SEMI
      · rw [if_pos hxs]; exact NF_ok _
      rw [if_neg hxs]
      exact paramLoop_nf buf he ch (10 + j + 1) (by omega) (by omega)

/-! ### getfieldlen -/

theorem rd_err {buf : List Byte} {i : Nat} {e : Stop} (h : rd buf i = .error e) : buf.length ≤ i := by
  unfold rd at h; split at h
  · cases h
  · rename_i hn; exact List.getElem?_eq_none_iff.mp hn

theorem fieldGo_ok (buf : List Byte) (cr r ph : Nat) (h : cr + r ≤ buf.length) :
    ∃ cr' r', fieldGo buf cr r ph = .ok (cr', r') ∧ cr' + r' = cr + r := by
  fun_induction fieldGo buf cr r ph
  all_goals first
    | (rename_i ih; obtain ⟨a, b, h1, h2⟩ := ih (by omega); exact ⟨a, b, h1, by omega⟩)
    | exact ⟨_, _, rfl, rfl⟩
    | (exfalso
       have := rd_err ‹rd buf _ = .error _›
       omega)

/-- getfieldlen() on a range that begins with `k ≥ 1` bytes that are no line ends: no read outside
the range; a non-zero result covers those bytes and ends in CR or LF -/
theorem getFieldLen_ok (buf : List Byte) (start len k : Nat) (h : start + len ≤ buf.length)
    (hk1 : 1 ≤ k) (hk : k ≤ len)
    (hb : ∀ j, j < k → ∃ x, buf[start + j]? = some x ∧ x ≠ CR ∧ x ≠ LF) :
    ∃ n, getFieldLen buf start len = .ok n ∧ n ≤ len ∧
      (n ≠ 0 → k ≤ n ∧ (buf[start + n - 1]? = some CR ∨ buf[start + n - 1]? = some LF)) := by
  obtain ⟨cr', r', h1, h2⟩ := fieldGo_ok buf start len 0 h
  have hle := fieldGo_phase0 buf k start len hk hb cr' r' h1
  obtain ⟨p, hp1, hp2⟩ := rdPrev_ok (buf := buf) (p := cr') (by omega) (by omega)
  unfold getFieldLen
  simp only [bind, Except.bind, pure, Except.pure, h1, hp1]
  refine ⟨_, rfl, by split <;> omega, fun hn => ?_⟩
  split at hn
  · rename_i hpe
    rw [if_pos hpe]
    refine ⟨by omega, ?_⟩
    have : start + (len - r') - 1 = cr' - 1 := by omega
    rw [this, hp2]
    rcases hpe with rfl | rfl
    · right; rfl
    · left; rfl
  · exact absurd rfl hn

/-! ### the shape of the end of a field -/

/-- the byte in front of index `cr` is no line end -/
def PrevPlain (buf : List Byte) (cr : Nat) : Prop := 1 ≤ cr ∧ ∃ x, buf[cr - 1]? = some x ∧ x ≠ CR ∧ x ≠ LF

/-- how a field that ends at index `E` (exclusive, `r` bytes of the range left) ends: `CR LF`, or a
byte that is no line end followed by a lone LF, or by a lone CR that is not followed by LF -/
def TailOk (buf : List Byte) (E r : Nat) : Prop :=
  2 ≤ E ∧ ((buf[E - 2]? = some CR ∧ buf[E - 1]? = some LF) ∨
    (PrevPlain buf (E - 1) ∧ (buf[E - 1]? = some LF ∨ (buf[E - 1]? = some CR ∧ (r = 0 ∨ buf[E]? ≠ some LF)))))

def FieldPre (buf : List Byte) (ph cr r : Nat) : Prop :=
  match ph with
  | 0 => PrevPlain buf cr
  | 1 => PrevPlain buf cr
  | 2 => PrevPlain buf cr ∨ (2 ≤ cr ∧ PrevPlain buf (cr - 1) ∧ buf[cr - 1]? = some CR)
  | _ => PrevPlain buf cr ∨ TailOk buf cr r

theorem fieldGo_tail (buf : List Byte) (cr r ph : Nat) (hpre : FieldPre buf ph cr r) :
    ∀ cr' r', fieldGo buf cr r ph = .ok (cr', r') → PrevPlain buf cr' ∨ TailOk buf cr' r' := by
  fun_induction fieldGo buf cr r ph
  all_goals intro cr' r' hres
  all_goals first
    | (cases hres; done)
    | skip
  case case1 cr ih => exact ih hpre _ _ hres
  case case3 cr r hr x hx hne ih =>
    exact ih ⟨by omega, x, by simpa using rd_get hx, hne.1, hne.2⟩ _ _ hres
  case case4 cr r hr x hx hne ih => exact ih hpre _ _ hres
  case case5 cr ih => exact ih (Or.inl hpre) _ _ hres
  case case7 cr r hr hx ih =>
    exact ih (Or.inr ⟨by have := (hpre : PrevPlain buf cr).1; omega, (hpre : PrevPlain buf cr), by simpa using rd_get hx⟩) _ _ hres
  case case8 cr r hr x hx hne ih => exact ih (Or.inl hpre) _ _ hres
  case case9 cr ih =>
    apply ih _ _ _ hres
    rcases hpre with hp | ⟨h2, hp, hc⟩
    · exact Or.inl hp
    · exact Or.inr ⟨h2, Or.inr ⟨hp, Or.inr ⟨hc, Or.inl rfl⟩⟩⟩
  case case11 cr r hr hx ih =>
    apply ih _ _ _ hres
    have hlf := rd_get hx
    rcases hpre with hp | ⟨h2, hp, hc⟩
    · exact Or.inr ⟨by have := hp.1; omega, Or.inr ⟨by simpa using hp, Or.inl (by simpa using hlf)⟩⟩
    · exact Or.inr ⟨by omega, Or.inl ⟨by rw [show cr + 1 - 2 = cr - 1 by omega]; exact hc, by simpa using hlf⟩⟩
  case case12 cr r hr x hx hne ih =>
    apply ih _ _ _ hres
    rcases hpre with hp | ⟨h2, hp, hc⟩
    · exact Or.inl hp
    · refine Or.inr ⟨h2, Or.inr ⟨hp, Or.inr ⟨hc, Or.inr ?_⟩⟩⟩
      rw [rd_get hx]; intro h; cases h; exact hne rfl
  case case13 cr ph h0 h1 h2 =>
    cases hres
    unfold FieldPre at hpre
    split at hpre <;> first | exact absurd rfl h0 | exact absurd rfl h1 | exact absurd rfl h2 | exact hpre
  case case15 cr r ph hr x hx hb h0 h1 h2 ih =>
    apply ih _ _ _ hres
    refine ⟨by omega, x, by simpa using rd_get hx, ?_, ?_⟩ <;> (rcases hb with rfl | rfl <;> decide)
  case case16 cr r ph hr x hx hb h0 h1 h2 =>
    cases hres
    unfold FieldPre at hpre
    split at hpre <;> first | exact absurd rfl h0 | exact absurd rfl h1 | exact absurd rfl h2 | exact hpre


/-- the field getfieldlen() delimits ends the way `TailOk` says -/
theorem getFieldLen_tail (buf : List Byte) (start len n : Nat) (h : start + len ≤ buf.length)
    (hk : 1 ≤ len) (hb : ∃ x, buf[start]? = some x ∧ x ≠ CR ∧ x ≠ LF)
    (hn : getFieldLen buf start len = .ok n) (hn0 : n ≠ 0) : TailOk buf (start + n) (len - n) := by
  obtain ⟨x, hx1, hx2, hx3⟩ := hb
  unfold getFieldLen at hn
  simp only [bind, Except.bind, pure, Except.pure] at hn
  split at hn
  · cases hn
  · rename_i v hv
    obtain ⟨cr', r'⟩ := v
    have hcons := fieldGo_ok buf start len 0 h
    rw [hv] at hcons
    obtain ⟨a, b, hab, hsum⟩ := hcons
    cases hab
    rw [fieldGo] at hv
    simp only [show ¬ len = 0 by omega, if_false, rd_eq hx1, ne_eq, hx2, hx3, not_false_eq_true, and_self, if_true] at hv
    have htail := fieldGo_tail buf (start + 1) (len - 1) 0 ⟨by omega, x, by simpa using hx1, hx2, hx3⟩ _ _ hv
    simp only at hn
    split at hn
    · cases hn
    · rename_i p hp
      simp only [Except.ok.injEq] at hn
      split at hn
      · rename_i hpe
        subst hn
        have hle := fieldGo_le buf (start + 1) (len - 1) 0 _ _ hv
        have e1 : start + (len - r') = cr' := by omega
        have e2 : len - (len - r') = r' := by omega
        rw [e1, e2]
        rcases htail with hpp | ht
        · exfalso
          obtain ⟨h1, y, hy1, hy2, hy3⟩ := hpp
          unfold rdPrev at hp
          simp only [show ¬ cr' = 0 by omega, if_false] at hp
          rw [rd_eq hy1] at hp
          cases hp
          rcases hpe with h | h
          · exact hy3 h
          · exact hy2 h
        · exact ht
      · exact absurd hn.symm hn0

/-! ### the boundary is_multipart() hands out lies inside the field -/

theorem memchr_lt (c : Byte) : ∀ (l : List Byte) (k : Nat), memchr c l = some k → k < l.length
  | [], k, h => by simp [memchr] at h
  | x :: xs, k, h => by
    unfold memchr at h
    split at h
    · cases h; simp
    · cases hm : memchr c xs with
      | none => rw [hm] at h; cases h
      | some m =>
        rw [hm] at h; cases h
        have := memchr_lt c xs m hm
        simp; omega

theorem unquotedLen_lt (buf : List Byte) (s j r : Nat) (h : unquotedLen buf s j = .ok r) : s + r < buf.length := by
  fun_induction unquotedLen buf s j
  case case1 => cases h
  case case2 j x hx hc ih => exact ih h
  case case3 j x hx hc => cases h; exact (List.getElem?_eq_some_iff.mp hx).1

theorem boundaryDef_mp (buf : List Byte) (ch b l : Nat) (h : boundaryDef buf ch = .ok (.mp b l)) :
    b + l ≤ buf.length := by
  unfold boundaryDef at h
  simp only [bind, Except.bind, pure, Except.pure, throw, throwThe, MonadExceptOf.throw] at h
  split at h
  · cases h
  · rename_i q hq
    split at h
    · -- quoted
      split at h
      · cases h
      · rename_i k hk
        have hb := memchr_lt _ _ _ hk
        simp only [List.length_drop] at hb
        repeat' split at h
        all_goals first
          | (cases h; done)
          | (simp only [Except.ok.injEq, MpRes.mp.injEq] at h; obtain ⟨rfl, rfl⟩ := h; omega)
    · split at h
      · cases h
      · rename_i j hj
        have hb := unquotedLen_lt buf _ 0 _ hj
        repeat' split at h
        all_goals first
          | (cases h; done)
          | (simp only [Except.ok.injEq, MpRes.mp.injEq] at h; obtain ⟨rfl, rfl⟩ := h; omega)

theorem paramLoop_mp (buf : List Byte) (ch i b l : Nat) (h : paramLoop buf ch i = .ok (.mp b l)) :
    b + l ≤ buf.length := by
  fun_induction paramLoop buf ch i
  all_goals first
    | (cases h; done)
    | exact boundaryDef_mp buf _ b l h
    | (rename_i ih; exact ih h)

theorem isMultipart_mp (buf : List Byte) (b l : Nat) (h : isMultipart buf = .ok (.mp b l)) :
    b + l ≤ buf.length := by
  unfold isMultipart at h
  simp only [bind, Except.bind, pure, Except.pure, throw, throwThe, MonadExceptOf.throw] at h
  repeat' split at h
  all_goals first
    | (cases h; done)
    | exact paramLoop_mp buf _ _ b l h

theorem NF_bind {α β : Type} {x : R α} {f : α → R β} (hx : NF x) (hf : ∀ a, x = .ok a → NF (f a)) :
    NF (x >>= f) := by
  cases x with
  | error e => intro g h; exact hx g (by simpa [bind, Except.bind] using h)
  | ok a => exact hf a rfl

end QsmtpModel.Mime
