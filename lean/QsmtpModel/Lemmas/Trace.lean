/-
The trace header (`Data.traceHeader`: the optional Received-SPF field of spfreceived() followed by
the Received field of write_received()) is a valid header block when no session string contains a
line break or NUL: `Spec.validTrace`, and every LF is one of the template.  Mathlib-free.

Method: a two-state acceptor `run` ("the previous byte was LF": the next one has to be TAB) that
rejects CR and NUL.  Every template literal and every clean session string is a transition of it,
transitions compose over `++`, and a byte string that leads from `false` to `true` (= ends with its
only unfolded LF) is one header field for `Spec.splitLf`.
-/
import QsmtpModel.Data
import QsmtpModel.Spec.Handoff

namespace QsmtpModel.Data
open QsmtpModel QsmtpModel.Queue

/-- a string without line break / NUL -/
def NoBreak (x : List Byte) : Prop := CR ∉ x ∧ LF ∉ x ∧ (0 : Byte) ∉ x

/-- no session string that goes into the trace header contains CR, LF or NUL; there is a first
recipient; the SPF status is one of the values of the enum -/
structure CleanCfg (c : Cfg) : Prop where
  heloname : NoBreak c.heloname
  version : NoBreak c.version
  remotehost : NoBreak c.remotehost
  remoteip : NoBreak c.remoteip
  clientip : NoBreak c.clientip
  helostr : NoBreak c.helostr
  authname : NoBreak c.authname
  mailfrom : NoBreak c.mailfrom
  date : NoBreak c.date
  remoteport : ∀ x, c.remoteport = some x → NoBreak x
  remoteinfo : ∀ x, c.remoteinfo = some x → NoBreak x
  tlsclient : ∀ x, c.tlsclient = some x → NoBreak x
  cipher : ∀ x, c.cipher = some x → NoBreak x
  spfexp : ∀ x, c.spfexp = some x → NoBreak x
  spfmech : ∀ x, c.spfmech = some x → NoBreak x
  rcpt : ∃ r rs, c.rcpts = r :: rs ∧ NoBreak r.addr
  spf : c.spf = Gen.Data.spfNone ∨ c.spf = Gen.Data.spfPass ∨ c.spf = Gen.Data.spfNeutral ∨ c.spf = Gen.Data.spfSoftfail
        ∨ c.spf = Gen.Data.spfFail ∨ c.spf = Gen.Data.spfPermerror ∨ c.spf = Gen.Data.spfTemperror
        ∨ c.spf = Gen.Data.spfDnsHardError ∨ c.spf = Gen.Data.spfIgnore

/-! ### the templates -/

/-- no CR, no NUL, and an LF is followed by TAB or is the last byte -/
def litOk : List Byte → Bool
  | [] => true
  | [c] => c != CR && c != 0
  | c :: d :: rest => c != CR && c != 0 && (c != LF || d == TAB) && litOk (d :: rest)

/-- in every literal of write_received() and spfreceived() an LF is followed by TAB or is the last
byte of the literal, and there is no CR or NUL (re-checked against the regenerated Gen.Data) -/
def TemplatesOk : Prop :=
  ([Gen.Data.rcvFrom, Gen.Data.rcvUnknown, Gen.Data.rcvIpOpen, Gen.Data.rcvPortSep, Gen.Data.rcvIpClose,
    Gen.Data.rcvHelo, Gen.Data.rcvIdent, Gen.Data.rcvBy, Gen.Data.rcvSmtp, Gen.Data.rcvChunkedEsmtp,
    Gen.Data.rcvEsmtp, Gen.Data.rcvChunkedOpen, Gen.Data.rcvCipherOpen, Gen.Data.rcvEsmtps,
    Gen.Data.rcvVerOpen, Gen.Data.rcvVerClose, Gen.Data.rcv_afterprot, Gen.Data.rcv_afterprotauth,
    Gen.Data.rcv_authstr, Gen.Data.rcv_certstr, Gen.Data.datebufInit]
    ++ Gen.Data.spfLits ++ Gen.Data.spfResultNames).all litOk = true

instance : Decidable TemplatesOk := inferInstanceAs (Decidable (_ = true))

theorem templates_ok : TemplatesOk := by decide

/-! ### the acceptor -/

/-- state `true`: the previous byte was LF, the next one has to be TAB.  CR and NUL are rejected. -/
def run : Bool → List Byte → Option Bool
  | s, [] => some s
  | false, c :: rest =>
    if c = LF then run true rest
    else if c = CR ∨ c = 0 then none
    else run false rest
  | true, c :: rest => if c = TAB then run false rest else none

theorem run_append (s : Bool) (a b : List Byte) :
    run s (a ++ b) = (run s a).bind fun s' => run s' b := by
  induction a generalizing s with
  | nil => simp [run]
  | cons c a ih =>
    cases s
    · simp only [List.cons_append, run]
      split
      · exact ih true
      · split
        · rfl
        · exact ih false
    · simp only [List.cons_append, run]
      split
      · exact ih false
      · rfl

theorem run_clean {x : List Byte} (h : NoBreak x) : run false x = some false := by
  induction x with
  | nil => rfl
  | cons c x ih =>
    obtain ⟨h1, h2, h3⟩ := h
    simp only [List.mem_cons, not_or] at h1 h2 h3
    have e1 : c ≠ LF := fun e => h2.1 e.symm
    have e2 : ¬ (c = CR ∨ c = 0) := fun e => e.elim (fun e => h1.1 e.symm) (fun e => h3.1 e.symm)
    simp only [run, e1, e2, if_false]
    exact ih ⟨h1.2, h2.2, h3.2⟩

/-- `x` leads the acceptor from state `s` to state `s'` -/
def Seg (s : Bool) (x : List Byte) (s' : Bool) : Prop := run s x = some s'

instance (s : Bool) (x : List Byte) (s' : Bool) : Decidable (Seg s x s') :=
  inferInstanceAs (Decidable (_ = _))

theorem Seg.append {s s' s'' : Bool} {a b : List Byte} (h1 : Seg s a s') (h2 : Seg s' b s'') :
    Seg s (a ++ b) s'' := by
  unfold Seg at *
  rw [run_append, h1]
  exact h2

theorem Seg.ff {a b : List Byte} {s : Bool} (h1 : Seg false a false) (h2 : Seg false b s) :
    Seg false (a ++ b) s := h1.append h2

theorem Seg.clean {x : List Byte} (h : NoBreak x) : Seg false x false := run_clean h

theorem Seg.nil (s : Bool) : Seg s [] s := rfl

theorem Seg.noCrNul {s s' : Bool} {x : List Byte} (h : Seg s x s') : CR ∉ x ∧ (0 : Byte) ∉ x := by
  unfold Seg at h
  induction x generalizing s with
  | nil => simp
  | cons c x ih =>
    cases s
    · simp only [run] at h
      split at h
      · next e =>
        subst e; have := ih h
        simp only [List.mem_cons, not_or]
        exact ⟨⟨by decide, this.1⟩, by decide, this.2⟩
      · split at h
        · cases h
        · next e1 e2 =>
          have := ih h
          simp only [not_or] at e2
          simp only [List.mem_cons, not_or]
          exact ⟨⟨fun e => e2.1 e.symm, this.1⟩, fun e => e2.2 e.symm, this.2⟩
    · simp only [run] at h
      split at h
      · next e =>
        subst e; have := ih h
        simp only [List.mem_cons, not_or]
        exact ⟨⟨by decide, this.1⟩, by decide, this.2⟩
      · cases h

/-- every LF inside a transition is the last byte or is followed by TAB -/
theorem Seg.breaks {s s' : Bool} {x : List Byte} (h : Seg s x s') (pre post : List Byte)
    (e : x = pre ++ LF :: post) : post = [] ∨ post.head? = some TAB := by
  subst e
  unfold Seg at h
  rw [run_append] at h
  cases h1 : run s pre with
  | none => simp [h1] at h
  | some s1 =>
    simp only [h1, Option.bind_some] at h
    cases s1
    · simp only [run, if_true] at h
      cases post with
      | nil => exact .inl rfl
      | cons d post =>
        simp only [run] at h
        split at h
        · next e => right; simp [e]
        · cases h
    · simp [run, LF, TAB] at h

/-- a nonempty transition out of state `true` starts with TAB -/
theorem Seg.headTab {s' : Bool} {x : List Byte} (h : Seg true x s') (hx : x ≠ []) :
    ∃ y, x = TAB :: y := by
  cases x with
  | nil => exact absurd rfl hx
  | cons c x =>
    unfold Seg at h
    simp only [run] at h
    split at h
    · next e => exact ⟨x, by rw [e]⟩
    · cases h

/-! ### one field for `splitLf` -/

open Spec in
/-- A byte string that ends in state `true` is a first line `x.takeWhile (· ≠ LF)` followed by
continuation lines, and `splitLf` goes on with what follows. -/
theorem splitLf_seg (x : List Byte) (s : Bool) (cur rest : List Byte) (h : Seg s x true)
    (hx : s = true → x ≠ []) :
    ∃ ls, splitLf cur (x ++ rest)
        = ((cur.reverse ++ x.takeWhile (· ≠ LF)) :: (ls ++ (splitLf [] rest).1), (splitLf [] rest).2)
      ∧ ∀ l ∈ ls, l.head? = some TAB := by
  induction x generalizing s cur with
  | nil =>
    cases s
    · cases h
    · exact absurd rfl (hx rfl)
  | cons c x ih =>
    have key : ∀ (s1 : Bool), Seg s1 x true → c ≠ LF →
        ∃ ls, splitLf cur (c :: x ++ rest)
          = ((cur.reverse ++ (c :: x).takeWhile (· ≠ LF)) :: (ls ++ (splitLf [] rest).1), (splitLf [] rest).2)
        ∧ ∀ l ∈ ls, l.head? = some TAB := by
      intro s1 h1 hc
      by_cases hx1 : s1 = true → x ≠ []
      · obtain ⟨ls, e, hl⟩ := ih s1 (c :: cur) h1 hx1
        refine ⟨ls, ?_, hl⟩
        simp only [List.cons_append, splitLf, hc, if_false, e, List.takeWhile_cons, ne_eq,
          not_false_eq_true, decide_true, if_true, List.reverse_cons, List.append_assoc,
          List.nil_append]
      · -- `x = []` reached in state `true`: then `c` would have been LF
        exfalso
        have : s1 = true ∧ x = [] := by
          cases s1 <;> simp_all
        obtain ⟨rfl, rfl⟩ := this
        cases s
        · simp only [Seg, run, hc, if_false] at h
          split at h <;> cases h
        · simp only [Seg, run] at h
          split at h <;> cases h
    cases s
    · by_cases hc : c = LF
      · subst hc
        have h1 : Seg true x true := by simpa [Seg, run] using h
        by_cases hx1 : x = []
        · subst hx1
          refine ⟨[], ?_, by simp⟩
          simp [splitLf]
        · obtain ⟨ls, e, hl⟩ := ih true [] h1 (fun _ => hx1)
          obtain ⟨y, hy⟩ := h1.headTab hx1
          refine ⟨x.takeWhile (· ≠ LF) :: ls, ?_, ?_⟩
          · simp only [List.cons_append, splitLf, if_true, e, List.reverse_nil, List.nil_append,
              List.takeWhile_cons, ne_eq, not_true_eq_false, decide_false]
            simp
          · intro l hl'
            rcases List.mem_cons.1 hl' with rfl | hl'
            · subst hy
              simp [TAB, LF]
            · exact hl l hl'
      · have h1 : Seg false x true := by
          simp only [Seg, run, hc, if_false] at h
          split at h
          · cases h
          · exact h
        exact key false h1 hc
    · have hc : c = TAB := by
        simp only [Seg, run] at h
        split at h
        · assumption
        · cases h
      have h1 : Seg false x true := by simpa [Seg, run, hc] using h
      exact key false h1 (by rw [hc]; decide)

/-! ### `validTrace` for one and for two fields -/

theorem filter_tab_nil (ls : List (List Byte)) (hl : ∀ l ∈ ls, l.head? = some TAB) :
    ls.filter (fun l => l.head? != some TAB) = [] := by
  rw [List.filter_eq_nil_iff]
  intro l h
  simp [hl l h]

theorem firstLine_rcvd (y : List Byte) :
    ∃ z, (Gen.Data.rcvFrom ++ y).takeWhile (· ≠ LF) = Spec.traceRcvd ++ z :=
  ⟨[102, 114, 111, 109, 32] ++ y.takeWhile (· ≠ LF), rfl⟩

theorem firstLine_spf (y : List Byte) :
    ∃ z, (spfLit 0 ++ y).takeWhile (· ≠ LF) = Spec.traceSpf ++ z :=
  ⟨y.takeWhile (· ≠ LF), rfl⟩

theorem rcvd_line (z : List Byte) :
    ((Spec.traceRcvd ++ z).head? != some TAB) = true
      ∧ ((Spec.traceRcvd ++ z).take Spec.traceRcvd.length == Spec.traceRcvd) = true := by
  simp [Spec.traceRcvd, TAB]

theorem spf_line (z : List Byte) :
    ((Spec.traceSpf ++ z).head? != some TAB) = true
      ∧ ((Spec.traceSpf ++ z).take Spec.traceSpf.length == Spec.traceSpf) = true := by
  simp [Spec.traceSpf, TAB]

/-- what the received field is for the proofs: a transition `false → true` that starts with the name -/
def IsRcvdField (f : List Byte) : Prop := Seg false f true ∧ ∃ y, f = Gen.Data.rcvFrom ++ y

def IsSpfField (f : List Byte) : Prop := Seg false f true ∧ ∃ y, f = spfLit 0 ++ y

theorem contains_false {x : List Byte} {b : Byte} (h : b ∉ x) : x.contains b = false := by
  simpa using h

theorem validTrace_one (f : List Byte) (h : IsRcvdField f) : Spec.validTrace f = true := by
  obtain ⟨h, y, rfl⟩ := h
  obtain ⟨ls, e, hl⟩ := splitLf_seg _ false [] [] h (by simp)
  obtain ⟨z, hz⟩ := firstLine_rcvd y
  have c1 := contains_false h.noCrNul.1
  have c2 := contains_false h.noCrNul.2
  simp only [List.append_nil, List.reverse_nil, List.nil_append, Spec.splitLf, hz] at e
  unfold Spec.validTrace
  rw [e]
  simp only [List.filter_cons, (rcvd_line z).1, if_true, filter_tab_nil ls hl, (rcvd_line z).2,
    List.isEmpty_nil, c1, c2, List.head?_cons, Option.map_some]
  decide

theorem validTrace_two (f g : List Byte) (hf : IsSpfField f) (hg : IsRcvdField g) :
    Spec.validTrace (f ++ g) = true := by
  obtain ⟨hf, y, rfl⟩ := hf
  obtain ⟨hg, y', rfl⟩ := hg
  obtain ⟨ls, e, hl⟩ := splitLf_seg _ false [] [] hg (by simp)
  obtain ⟨ls2, e2, hl2⟩ := splitLf_seg _ false [] (Gen.Data.rcvFrom ++ y') hf (by simp)
  obtain ⟨z, hz⟩ := firstLine_rcvd y'
  obtain ⟨z2, hz2⟩ := firstLine_spf y
  have c1 : (spfLit 0 ++ y ++ (Gen.Data.rcvFrom ++ y')).contains CR = false :=
    contains_false fun h => (List.mem_append.1 h).elim hf.noCrNul.1 hg.noCrNul.1
  have c2 : (spfLit 0 ++ y ++ (Gen.Data.rcvFrom ++ y')).contains 0 = false :=
    contains_false fun h => (List.mem_append.1 h).elim hf.noCrNul.2 hg.noCrNul.2
  simp only [List.append_nil, List.reverse_nil, List.nil_append, Spec.splitLf, hz] at e
  simp only [List.reverse_nil, List.nil_append, hz2, e] at e2
  unfold Spec.validTrace
  rw [e2]
  simp only [List.filter_cons, List.filter_append, (rcvd_line z).1, (spf_line z2).1, if_true,
    filter_tab_nil ls hl, filter_tab_nil ls2 hl2, (rcvd_line z).2, (spf_line z2).2,
    List.isEmpty_nil, c1, c2, List.head?_cons, Option.map_some, List.nil_append]
  decide

theorem breaks_one (f : List Byte) (h : IsRcvdField f) :
    CR ∉ f ∧ ∀ pre post, f = pre ++ LF :: post →
      post = [] ∨ post.head? = some TAB ∨ post.take Spec.traceRcvd.length = Spec.traceRcvd := by
  refine ⟨h.1.noCrNul.1, fun pre post e => ?_⟩
  rcases h.1.breaks pre post e with h | h
  · exact .inl h
  · exact .inr (.inl h)

theorem breaks_two (f g : List Byte) (hf : IsSpfField f) (hg : IsRcvdField g) :
    CR ∉ f ++ g ∧ ∀ pre post, f ++ g = pre ++ LF :: post →
      post = [] ∨ post.head? = some TAB ∨ post.take Spec.traceRcvd.length = Spec.traceRcvd := by
  refine ⟨fun h => (List.mem_append.1 h).elim hf.1.noCrNul.1 hg.1.noCrNul.1, fun pre post e => ?_⟩
  rcases List.append_eq_append_iff.1 e with ⟨a', rfl, e'⟩ | ⟨c', rfl, e'⟩
  · -- the LF is in `g`
    exact (breaks_one g hg).2 a' post e'
  · -- the LF is in `f`
    cases c' with
    | nil =>
      exact (breaks_one g hg).2 [] post (by simpa using e'.symm)
    | cons d c' =>
      simp only [List.cons_append, List.cons.injEq] at e'
      obtain ⟨rfl, rfl⟩ := e'
      rcases hf.1.breaks pre c' rfl with h | h
      · subst h
        obtain ⟨_, y, rfl⟩ := hg
        right; right
        rfl
      · cases c' with
        | nil => simp at h
        | cons t c' => right; left; simpa using h

/-! ### the Received field -/

theorem heloStr_clean (c : Cfg) (hc : CleanCfg c) : NoBreak (heloStr c) := by
  unfold heloStr
  split
  · exact hc.remotehost
  · exact hc.helostr

/-- a template literal (by evaluation), or a session string (by `CleanCfg`) -/
syntax "seg_atom " term : tactic
macro_rules
  | `(tactic| seg_atom $hc) => `(tactic| first
    | decide
    | exact Seg.nil _
    | (apply Seg.clean
       first
        | assumption
        | exact heloStr_clean _ $hc
        | exact CleanCfg.heloname $hc | exact CleanCfg.version $hc | exact CleanCfg.remotehost $hc
        | exact CleanCfg.remoteip $hc | exact CleanCfg.clientip $hc | exact CleanCfg.helostr $hc
        | exact CleanCfg.authname $hc | exact CleanCfg.mailfrom $hc | exact CleanCfg.date $hc
        | exact CleanCfg.remoteport $hc _ ‹_› | exact CleanCfg.remoteinfo $hc _ ‹_›
        | exact CleanCfg.tlsclient $hc _ ‹_› | exact CleanCfg.cipher $hc _ ‹_›
        | exact CleanCfg.spfexp $hc _ ‹_› | exact CleanCfg.spfmech $hc _ ‹_›))

/-- decomposition of `++`, `if` and `match` where all intermediate states are `false` -/
syntax "seg " term : tactic
macro_rules
  | `(tactic| seg $hc) => `(tactic| first
    | seg_atom $hc
    | (apply Seg.ff <;> seg $hc)
    | (split <;> seg $hc))

theorem receivedLine_field (c : Cfg) (hc : CleanCfg c) : IsRcvdField (receivedLine c) := by
  obtain ⟨r, rs, hr, hra⟩ := hc.rcpt
  refine ⟨?_, ?_⟩
  · simp only [receivedLine, hr]
    repeat' apply Seg.ff
    all_goals seg hc
  · simp only [receivedLine, List.append_assoc]
    exact ⟨_, rfl⟩

/-! ### the Received-SPF field -/

/-- like `seg` for right-nested concatenations whose intermediate states are not known in advance -/
syntax "segs " term : tactic
macro_rules
  | `(tactic| segs $hc) => `(tactic| first
    | seg_atom $hc
    | (apply Seg.append (s' := false) <;> segs $hc)
    | (apply Seg.append (s' := true) <;> segs $hc)
    | (split <;> segs $hc))

set_option linter.unusedSimpArgs false

/-- one SPF status: reduce the `if` chain of `spfPieces`, then walk through the pieces -/
macro "spf_case " c:ident hc:ident " with " hk:ident h:ident : tactic => `(tactic| (
  cases hm : Cfg.spfmech $c <;> cases he : Cfg.spfexp $c <;>
  simp only [spfPieces, $hk:ident, hm, he] at $h:ident <;>
  simp [Gen.Data.spfNone, Gen.Data.spfPass, Gen.Data.spfNeutral, Gen.Data.spfSoftfail, Gen.Data.spfFail,
    Gen.Data.spfPermerror, Gen.Data.spfTemperror, Gen.Data.spfDnsHardError, Gen.Data.spfIgnore] at $h:ident <;>
  obtain ⟨hps, _⟩ := $h:ident <;> subst hps <;>
  simp only [List.flatten_cons, List.flatten_nil, List.append_nil] <;>
  exact ⟨by segs $hc, _, rfl⟩))
theorem spfPieces_none (c : Cfg) (hc : CleanCfg c) (hk : c.spf = Gen.Data.spfNone)
    (ps : List (List Byte)) (b : Bool) (h : spfPieces c = some (ps, b)) : IsSpfField ps.flatten := by
  spf_case c hc with hk h

theorem spfPieces_pass (c : Cfg) (hc : CleanCfg c) (hk : c.spf = Gen.Data.spfPass)
    (ps : List (List Byte)) (b : Bool) (h : spfPieces c = some (ps, b)) : IsSpfField ps.flatten := by
  spf_case c hc with hk h

theorem spfPieces_neutral (c : Cfg) (hc : CleanCfg c) (hk : c.spf = Gen.Data.spfNeutral)
    (ps : List (List Byte)) (b : Bool) (h : spfPieces c = some (ps, b)) : IsSpfField ps.flatten := by
  spf_case c hc with hk h

theorem spfPieces_softfail (c : Cfg) (hc : CleanCfg c) (hk : c.spf = Gen.Data.spfSoftfail)
    (ps : List (List Byte)) (b : Bool) (h : spfPieces c = some (ps, b)) : IsSpfField ps.flatten := by
  spf_case c hc with hk h

theorem spfPieces_fail (c : Cfg) (hc : CleanCfg c) (hk : c.spf = Gen.Data.spfFail)
    (ps : List (List Byte)) (b : Bool) (h : spfPieces c = some (ps, b)) : IsSpfField ps.flatten := by
  spf_case c hc with hk h

theorem spfPieces_permerror (c : Cfg) (hc : CleanCfg c) (hk : c.spf = Gen.Data.spfPermerror)
    (ps : List (List Byte)) (b : Bool) (h : spfPieces c = some (ps, b)) : IsSpfField ps.flatten := by
  spf_case c hc with hk h

theorem spfPieces_temperror (c : Cfg) (hc : CleanCfg c) (hk : c.spf = Gen.Data.spfTemperror)
    (ps : List (List Byte)) (b : Bool) (h : spfPieces c = some (ps, b)) : IsSpfField ps.flatten := by
  spf_case c hc with hk h

theorem spfPieces_dnshard (c : Cfg) (hc : CleanCfg c) (hk : c.spf = Gen.Data.spfDnsHardError)
    (ps : List (List Byte)) (b : Bool) (h : spfPieces c = some (ps, b)) : IsSpfField ps.flatten := by
  spf_case c hc with hk h

theorem spfPieces_field (c : Cfg) (hc : CleanCfg c) (ps : List (List Byte)) (b : Bool)
    (h : spfPieces c = some (ps, b)) : IsSpfField ps.flatten := by
  rcases hc.spf with hk | hk | hk | hk | hk | hk | hk | hk | hk
  · exact spfPieces_none c hc hk ps b h
  · exact spfPieces_pass c hc hk ps b h
  · exact spfPieces_neutral c hc hk ps b h
  · exact spfPieces_softfail c hc hk ps b h
  · exact spfPieces_fail c hc hk ps b h
  · exact spfPieces_permerror c hc hk ps b h
  · exact spfPieces_temperror c hc hk ps b h
  · exact spfPieces_dnshard c hc hk ps b h
  · simp [spfPieces, hk] at h

/-! ### the trace header -/

theorem traceHeader_shape (c : Cfg) (hc : CleanCfg c) :
    (traceHeader c = receivedLine c) ∨ ∃ f, IsSpfField f ∧ traceHeader c = f ++ receivedLine c := by
  unfold traceHeader
  split
  · split
    · next ps b h => exact .inr ⟨_, spfPieces_field c hc ps b h, rfl⟩
    · exact .inl rfl
  · exact .inl rfl

theorem traceHeader_valid (c : Cfg) (hc : CleanCfg c) : Spec.validTrace (traceHeader c) = true := by
  rcases traceHeader_shape c hc with h | ⟨f, hf, h⟩
  · rw [h]; exact validTrace_one _ (receivedLine_field c hc)
  · rw [h]; exact validTrace_two _ _ hf (receivedLine_field c hc)

theorem traceHeader_breaks (c : Cfg) (hc : CleanCfg c) :
    CR ∉ traceHeader c ∧ ∀ pre post, traceHeader c = pre ++ LF :: post →
      post = [] ∨ post.head? = some TAB ∨ post.take Spec.traceRcvd.length = Spec.traceRcvd := by
  rcases traceHeader_shape c hc with h | ⟨f, hf, h⟩
  · rw [h]; exact breaks_one _ (receivedLine_field c hc)
  · rw [h]; exact breaks_two _ _ hf (receivedLine_field c hc)

theorem cleanCfg_example : CleanCfg { heloname := [109], version := [81], remoteip := [49], rcpts := [{ addr := [120], ok := true }], goodrcpt := 1 } := by
  constructor <;> first
    | (simp [NoBreak, CR, LF]; done)
    | (intro x h; cases h)
    | exact ⟨_, _, rfl, by simp [NoBreak, CR, LF]⟩
    | decide

end QsmtpModel.Data
